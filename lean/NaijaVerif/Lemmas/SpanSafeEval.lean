import NaijaVerif.Model.Eval
import NaijaVerif.Lemmas.ParseDefs
/-
C07, behind the parser (3): the span of a runtime error is a span of the program.

An invariant of the evaluator `Model/Eval.lean`, for an arbitrary set `S` of spans: when every span of
the syntax being evaluated is in `S` and every function body hoisted into the state has all its spans
in `S`, then every `Res.err _ sp _` the evaluation ends with has `sp ∈ S`, and the state of a
successful evaluation again holds only function bodies with spans in `S`.  By induction on the fuel,
all eight mutually recursive functions at once.  The evaluator synthesises no span: the span of every
runtime error (and of every fixed panic site reported as one) is the span of the expression, of its
right operand, of an index expression, of the assigned name, of the condition or of the statement.
With `S` = the spans of the root block: a run that ends in a runtime error reports it at a span of
the program (`run_rt_span`).
-/
namespace NaijaVerif.SpanSafe
open NaijaVerif NaijaVerif.Parse NaijaVerif.Eval

set_option linter.unusedSectionVars false
set_option linter.unusedVariables false

variable {N : Type}

/-! ### Lists of spans inside a set -/

section Defs
variable (S : Span → Prop)

def AllS (l : List Span) : Prop := ∀ s ∈ l, S s

/-- Every hoisted function body of a scope has its spans in `S`. -/
def FnsOk (fns : List FnEntry) : Prop := ∀ fd ∈ fns, AllS S (blockSpans fd.body)

def EnvOk (env : List (Scope N)) : Prop := ∀ sc ∈ env, FnsOk S sc.fns

/-- Every function body stored in the state has its spans in `S`. -/
def StOk (st : State N) : Prop := EnvOk S st.env

/-- A result is fine when an error carries a span in `S` and a success leaves a fine state (and a
value satisfying `Q`). -/
def ResOk {α : Type} (Q : α → Prop) : Res N α → Prop
  | .ok a st => Q a ∧ StOk S st
  | .err _ sp _ => S sp
  | .panic _ _ => True
  | .fuel => True

/-- A pure step is fine when the runtime error it may fail with carries a span in `S`. -/
def ExOk {α : Type} (x : Except Fault α) : Prop := ∀ k s, x = .error (.rt k s) → S s

def SelOk (es : List (Except (PanicSite × Span) Expr)) : Prop :=
  ∀ x ∈ es, match x with
    | .ok e => AllS S (exprSpans e)
    | .error q => S q.2

def IdxsOk (is : List (Expr × Span)) : Prop := ∀ q ∈ is, AllS S (exprSpans q.1) ∧ S q.2

def PathOk (p : List (Nat × Span)) : Prop := ∀ q ∈ p, S q.2

end Defs

/-- No condition on the value. -/
abbrev Tr {α : Type} : α → Prop := fun _ => True

variable {S : Span → Prop}

theorem AllS_nil : AllS S [] := fun _ h => by simp at h

theorem AllS_cons {s : Span} {l : List Span} : AllS S (s :: l) ↔ S s ∧ AllS S l := by
  simp [AllS]

theorem AllS_append {a b : List Span} : AllS S (a ++ b) ↔ AllS S a ∧ AllS S b := by
  simp only [AllS, List.mem_append]
  exact ⟨fun h => ⟨fun s hs => h s (Or.inl hs), fun s hs => h s (Or.inr hs)⟩,
    fun h s hs => hs.elim (h.1 s) (h.2 s)⟩

theorem expr_span_mem (e : Expr) : e.span ∈ exprSpans e := by
  cases e <;> simp [Expr.span, exprSpans]

theorem AllS.span {e : Expr} (h : AllS S (exprSpans e)) : S e.span := h _ (expr_span_mem e)

theorem AllS_exprs_mem {es : List Expr} (h : AllS S (exprsSpans es)) : ∀ e ∈ es, AllS S (exprSpans e) := by
  induction es with
  | nil => intro e he; simp at he
  | cons x xs ih =>
    simp only [exprsSpans, AllS_append] at h
    intro e he
    rcases List.mem_cons.mp he with rfl | he
    · exact h.1
    · exact ih h.2 e he

theorem EnvOk_cons {s : Scope N} {r : List (Scope N)} : EnvOk S (s :: r) ↔ FnsOk S s.fns ∧ EnvOk S r := by
  simp [EnvOk]

theorem EnvOk_nil : EnvOk S ([] : List (Scope N)) := fun _ h => by simp at h

/-! ### The state operations keep the function bodies -/

theorem EnvOk_modify_slots (h : Scope N → List (Slot N)) : ∀ (env : List (Scope N)) (i : Nat),
    EnvOk S env → EnvOk S (env.modify i (fun s => { s with slots := h s }))
  | [], i, hok => by simpa using hok
  | s :: r, 0, hok => by
    rw [List.modify_zero_cons]
    rw [EnvOk_cons] at hok ⊢
    exact hok
  | s :: r, i + 1, hok => by
    rw [List.modify_succ_cons]
    rw [EnvOk_cons] at hok ⊢
    exact ⟨hok.1, EnvOk_modify_slots h r i hok.2⟩

theorem EnvOk_updateAt (env : List (Scope N)) (pos : Nat × Nat) (f : Value N → Value N)
    (hok : EnvOk S env) : EnvOk S (updateAt env pos f) := by
  unfold updateAt
  exact EnvOk_modify_slots _ env pos.1 hok

theorem updateAt_ok (st : State N) (pos : Nat × Nat) (f : Value N → Value N) (hst : StOk S st) :
    StOk S { st with env := updateAt st.env pos f } :=
  EnvOk_updateAt st.env pos f hst

theorem define_ok (st : State N) (bind : Option Nat) (name : Bytes) (v : Value N) (hst : StOk S st) :
    StOk S (define st bind name v) := by
  unfold define
  cases henv : st.env with
  | nil => simpa [StOk, henv] using hst
  | cons s r =>
    have hok : EnvOk S (s :: r) := by simpa [StOk, henv] using hst
    rw [EnvOk_cons] at hok
    simp only []
    cases s.slots.findIdx? (Slot.matches bind name) <;> simp only [StOk, EnvOk_cons] <;> exact hok

theorem assign_ok (cfg : RunCfg) (st st2 : State N) (bind : Option Nat) (name : Bytes) (v : Value N)
    (h : assign cfg st bind name v = some st2) (hst : StOk S st) : StOk S st2 := by
  unfold assign at h
  split at h
  · cases h
    exact updateAt_ok _ _ _ hst
  · cases h

theorem pushScope_ok (st : State N) (kind : ScopeKind) (chain : List Nat) (slots : List (Slot N))
    (decls : List Nat) (hst : StOk S st) : StOk S (pushScope st kind chain slots decls) := by
  simp only [StOk, pushScope, EnvOk_cons]
  exact ⟨fun _ h => by simp at h, hst⟩

theorem popScope_ok (st : State N) (chain : List Nat) (hst : StOk S st) : StOk S (popScope st chain) := by
  intro sc hsc
  exact hst sc (List.mem_of_mem_tail hsc)

theorem hoist_ok (cfg : RunCfg) : ∀ (ss : List Stmt) (st : State N), AllS S (stmtsSpans ss) → StOk S st →
    StOk S (hoist cfg ss st)
  | [], st, _, h => h
  | s :: rest, st, hs, h => by
    simp only [stmtsSpans, AllS_append] at hs
    cases s with
    | fnDef name nsp params body fn sid sp =>
      have hb : AllS S (blockSpans body) := by
        have := hs.1
        simp only [stmtSpans, AllS_cons, AllS_append] at this
        exact this.2.2.2
      simp only [hoist]
      split
      · exact hoist_ok cfg rest st hs.2 h
      · cases henv : st.env with
        | nil => exact hoist_ok cfg rest st hs.2 h
        | cons sc r =>
          have hok : EnvOk S (sc :: r) := by simpa [StOk, henv] using h
          rw [EnvOk_cons] at hok
          apply hoist_ok cfg rest _ hs.2
          simp only [StOk, EnvOk_cons]
          refine ⟨?_, hok.2⟩
          intro fd hfd
          rcases List.mem_cons.mp hfd with rfl | hfd
          · exact hb
          · exact hok.1 fd hfd
    | assign _ _ _ _ _ _ => simp only [hoist]; exact hoist_ok cfg rest st hs.2 h
    | assignExisting _ _ _ _ _ _ => simp only [hoist]; exact hoist_ok cfg rest st hs.2 h
    | assignIndex _ _ _ _ => simp only [hoist]; exact hoist_ok cfg rest st hs.2 h
    | ifS _ _ _ _ _ => simp only [hoist]; exact hoist_ok cfg rest st hs.2 h
    | loop _ _ _ _ => simp only [hoist]; exact hoist_ok cfg rest st hs.2 h
    | block _ _ _ => simp only [hoist]; exact hoist_ok cfg rest st hs.2 h
    | ret _ _ _ => simp only [hoist]; exact hoist_ok cfg rest st hs.2 h
    | brk _ _ => simp only [hoist]; exact hoist_ok cfg rest st hs.2 h
    | cont _ _ => simp only [hoist]; exact hoist_ok cfg rest st hs.2 h
    | expr _ _ _ => simp only [hoist]; exact hoist_ok cfg rest st hs.2 h

theorem findFn_ok (vis : Scope N → Bool) (p : FnEntry → Bool) : ∀ (env : List (Scope N)) (fd : FnEntry),
    Eval.findFn vis p env = some fd → EnvOk S env → AllS S (blockSpans fd.body)
  | [], fd, h, _ => by simp [Eval.findFn] at h
  | s :: r, fd, h, hok => by
    rw [EnvOk_cons] at hok
    simp only [Eval.findFn] at h
    split at h
    · cases hf : s.fns.find? p with
      | some g =>
        rw [hf] at h
        cases h
        exact hok.1 _ (List.mem_of_find?_eq_some hf)
      | none =>
        rw [hf] at h
        exact findFn_ok vis p r fd h hok.2
    · exact findFn_ok vis p r fd h hok.2

theorem lookupFn_ok (cfg : RunCfg) (st : State N) (fnAnn : Option Nat) (name : Bytes) (fd : FnEntry)
    (h : Eval.lookupFn cfg st fnAnn name = some fd) (hst : StOk S st) : AllS S (blockSpans fd.body) := by
  unfold Eval.lookupFn at h
  cases fnAnn with
  | none => exact findFn_ok _ _ _ _ h hst
  | some i => exact findFn_ok _ _ _ _ h hst

theorem init_ok (cfg : RunCfg) : StOk S (State.init cfg : State N) := by
  simp only [StOk, State.init, EnvOk_cons]
  exact ⟨fun _ h => by simp at h, EnvOk_nil⟩

/-! ### L-value shapes -/

theorem flattenIdx_ok : ∀ (e : Expr) (acc : List (Expr × Span)), AllS S (exprSpans e) → IdxsOk S acc →
    AllS S (exprSpans (flattenIdx e acc).1) ∧ IdxsOk S (flattenIdx e acc).2
  | .index a i isp sp, acc, he, hacc => by
    simp only [exprSpans, AllS_cons, AllS_append] at he
    simp only [flattenIdx]
    apply flattenIdx_ok a ((i, isp) :: acc) he.2.2.1
    intro q hq
    rcases List.mem_cons.mp hq with rfl | hq
    · exact ⟨he.2.2.2, he.1⟩
    · exact hacc q hq
  | .num _ _, acc, he, hacc => by simp only [flattenIdx]; exact ⟨he, hacc⟩
  | .str _ _, acc, he, hacc => by simp only [flattenIdx]; exact ⟨he, hacc⟩
  | .bool _ _, acc, he, hacc => by simp only [flattenIdx]; exact ⟨he, hacc⟩
  | .null _, acc, he, hacc => by simp only [flattenIdx]; exact ⟨he, hacc⟩
  | .var _ _ _, acc, he, hacc => by simp only [flattenIdx]; exact ⟨he, hacc⟩
  | .array _ _, acc, he, hacc => by simp only [flattenIdx]; exact ⟨he, hacc⟩
  | .unary _ _ _, acc, he, hacc => by simp only [flattenIdx]; exact ⟨he, hacc⟩
  | .binary _ _ _ _, acc, he, hacc => by simp only [flattenIdx]; exact ⟨he, hacc⟩
  | .member _ _ _ _, acc, he, hacc => by simp only [flattenIdx]; exact ⟨he, hacc⟩
  | .call _ _ _ _, acc, he, hacc => by simp only [flattenIdx]; exact ⟨he, hacc⟩

theorem lvOf_ok (e : Expr) (name : Bytes) (bind : Option Nat) (idxs : List (Expr × Span))
    (he : AllS S (exprSpans e)) (h : lvOf e = .path name bind idxs) : IdxsOk S idxs := by
  cases e with
  | index a i isp sp =>
    have hf := flattenIdx_ok (.index a i isp sp) [] he (fun _ hq => by simp at hq)
    simp only [lvOf] at h
    generalize flattenIdx (.index a i isp sp) [] = q at h hf
    obtain ⟨r, idxs'⟩ := q
    cases r <;> simp at h
    obtain ⟨_, _, rfl⟩ := h
    exact hf.2
  | var n b sp =>
    simp only [lvOf, Lv.path.injEq] at h
    obtain ⟨_, _, rfl⟩ := h
    exact fun _ hq => by simp at hq
  | num _ _ => simp [lvOf] at h
  | str _ _ => simp [lvOf] at h
  | bool _ _ => simp [lvOf] at h
  | null _ => simp [lvOf] at h
  | array _ _ => simp [lvOf] at h
  | unary _ _ _ => simp [lvOf] at h
  | binary _ _ _ _ => simp [lvOf] at h
  | member _ _ _ _ => simp [lvOf] at h
  | call _ _ _ _ => simp [lvOf] at h

/-! ### The pure steps: a runtime error carries a span it was given -/

section Pure
variable [NumOps N]

/-- Close `ExOk S (f …)` for a non-recursive pure step: split the definition, look at each ending. -/
macro "exok" h:ident : tactic => `(tactic| (
  intro k s hx
  (repeat' split at hx) <;> first | (cases hx; exact $h) | (cases hx) | (simp at hx)))

macro "exok0" : tactic => `(tactic| (
  intro k s hx
  (repeat' split at hx) <;> first | (cases hx) | (simp at hx)))

theorem arith_exOk (op : ArithOp) (l r : Value N) (sp : Span) (h : S sp) : ExOk S (arith op l r sp) := by
  unfold arith
  exok h

theorem logicRhs_exOk (site : PanicSite) (v : Value N) : ExOk S (logicRhs site v) := by
  unfold logicRhs
  exok0

theorem unary_exOk (op : UnOp) (v : Value N) : ExOk S (unary op v) := by
  unfold unary
  exok0

theorem truthy_exOk (site : PanicSite) (v : Value N) : ExOk S (truthy site v) := by
  unfold truthy
  exok0

theorem indexRead_exOk (b i : Value N) (sp : Span) (h : S sp) : ExOk S (indexRead b i sp) := by
  intro k s hx
  unfold indexRead at hx
  cases b <;> try (cases hx)
  cases i <;> try (cases hx; exact h)
  simp only [] at hx
  split at hx
  · cases hx; exact h
  · split at hx
    · cases hx; exact h
    · split at hx
      · cases hx
      · cases hx; exact h

theorem indexValue_exOk (v : Value N) (sp : Span) (h : S sp) : ExOk S (indexValue v sp) := by
  unfold indexValue
  exok h

theorem strMethod_exOk (std : StdOps) (m : StrM) (s : Bytes) (args : List (Value N)) :
    ExOk S (strMethod std m s args) := by
  unfold strMethod
  exok0

theorem requiredString_exOk (v : Value N) (sp : Span) (h : S sp) : ExOk S (requiredString v sp) := by
  unfold requiredString
  exok h

theorem timeoutMs_exOk (v : Value N) (sp : Span) (h : S sp) : ExOk S (timeoutMs v sp) := by
  unfold timeoutMs
  exok h

theorem mutApply_exOk (op : MutOp N) (cell : Value N) (sp : Span) (h : S sp) : ExOk S (op.apply cell sp) := by
  unfold MutOp.apply
  exok h

theorem walkMut_exOk : ∀ (v : Value N) (p : List (Nat × Span)), PathOk S p → ExOk S (walkMut v p)
  | v, [], _ => by intro k s hx; cases v <;> simp [walkMut] at hx
  | .arr xs, (i, sp) :: p, hp => by
    intro k s hx
    simp only [walkMut] at hx
    cases hxi : xs[i]? with
    | none => rw [hxi] at hx; cases hx; exact hp (i, sp) (List.mem_cons_self ..)
    | some x =>
      rw [hxi] at hx
      exact walkMut_exOk x p (fun q hq => hp q (List.mem_cons_of_mem _ hq)) k s hx
  | .num _, (i, sp) :: _, hp => by
    intro k s hx; simp only [walkMut] at hx; cases hx; exact hp (i, sp) (List.mem_cons_self ..)
  | .str _, (i, sp) :: _, hp => by
    intro k s hx; simp only [walkMut] at hx; cases hx; exact hp (i, sp) (List.mem_cons_self ..)
  | .bool _, (i, sp) :: _, hp => by
    intro k s hx; simp only [walkMut] at hx; cases hx; exact hp (i, sp) (List.mem_cons_self ..)
  | .host _, (i, sp) :: _, hp => by
    intro k s hx; simp only [walkMut] at hx; cases hx; exact hp (i, sp) (List.mem_cons_self ..)
  | .null, (i, sp) :: _, hp => by
    intro k s hx; simp only [walkMut] at hx; cases hx; exact hp (i, sp) (List.mem_cons_self ..)

theorem walkAssign_exOk (ssp : Span) (hs : S ssp) : ∀ (v : Value N) (p : List (Nat × Span)), PathOk S p →
    ExOk S (walkAssign ssp v p)
  | v, [], _ => by intro k s hx; cases v <;> simp [walkAssign] at hx
  | .arr xs, [(i, sp)], hp => by
    intro k s hx
    simp only [walkAssign] at hx
    split at hx
    · cases hx
    · cases hx; exact hp (i, sp) (List.mem_cons_self ..)
  | .arr xs, (i, sp) :: q :: p, hp => by
    intro k s hx
    simp only [walkAssign] at hx
    cases hxi : xs[i]? with
    | none => rw [hxi] at hx; cases hx; exact hp (i, sp) (List.mem_cons_self ..)
    | some x =>
      rw [hxi] at hx
      exact walkAssign_exOk ssp hs x (q :: p) (fun q hq => hp q (List.mem_cons_of_mem _ hq)) k s hx
  | .num _, (_, _) :: p, hp => by intro k s hx; cases p <;> (simp only [walkAssign] at hx; cases hx; exact hs)
  | .str _, (_, _) :: p, hp => by intro k s hx; cases p <;> (simp only [walkAssign] at hx; cases hx; exact hs)
  | .bool _, (_, _) :: p, hp => by intro k s hx; cases p <;> (simp only [walkAssign] at hx; cases hx; exact hs)
  | .host _, (_, _) :: p, hp => by intro k s hx; cases p <;> (simp only [walkAssign] at hx; cases hx; exact hs)
  | .null, (_, _) :: p, hp => by intro k s hx; cases p <;> (simp only [walkAssign] at hx; cases hx; exact hs)

end Pure

/-! ### `Res`-level steps -/

section ResLevel
variable [NumOps N]

theorem ResOk.bind {α β : Type} {Q : α → Prop} {Q' : β → Prop} {r : Res N α} {k : α → State N → Res N β}
    (hr : ResOk S Q r) (hk : ∀ a st, Q a → StOk S st → ResOk S Q' (k a st)) : ResOk S Q' (r.bind k) := by
  cases r with
  | ok a st => exact hk a st hr.1 hr.2
  | err kd sp st => exact hr
  | panic site st => trivial
  | fuel => trivial

theorem ok_ok {α : Type} (a : α) {st : State N} (hst : StOk S st) : ResOk S Tr (Res.ok a st) := ⟨trivial, hst⟩

theorem trap_ok {α : Type} {Q : α → Prop} (cfg : RunCfg) (site : PanicSite) (sp : Span) (st : State N)
    (h : S sp) : ResOk S Q (trap cfg site sp st : Res N α) := by
  unfold trap
  split
  · trivial
  · exact h

theorem ofFault_ok {α : Type} {Q : α → Prop} (cfg : RunCfg) (flt : Fault) (sp : Span) (st : State N)
    (hf : ∀ k s, flt = .rt k s → S s) (h : S sp) : ResOk S Q (Res.ofFault cfg flt sp st : Res N α) := by
  cases flt with
  | rt k s => exact hf k s rfl
  | panic site => exact trap_ok cfg site sp st h

theorem ofExcept_ok {α : Type} (cfg : RunCfg) (x : Except Fault α) (sp : Span) (st : State N)
    (hx : ExOk S x) (h : S sp) (hst : StOk S st) : ResOk S Tr (Res.ofExcept cfg x sp st) := by
  cases x with
  | ok a => exact ⟨trivial, hst⟩
  | error flt => exact ofFault_ok cfg flt sp st (fun k s hk => hx k s (by rw [hk])) h

theorem applyMut_ok (cfg : RunCfg) (st : State N) (name : Bytes) (bind : Option Nat)
    (path : List (Nat × Span)) (op : MutOp N) (sp : Span) (hst : StOk S st) (hp : PathOk S path)
    (h : S sp) : ResOk S Tr (applyMut cfg st name bind path op sp) := by
  unfold applyMut
  cases slotOf cfg st bind name with
  | none => exact trap_ok cfg _ sp st h
  | some pos =>
    simp only []
    cases getAt st.env pos with
    | none => exact trap_ok cfg _ sp st h
    | some root =>
      simp only []
      cases hw : walkMut root path with
      | error flt =>
        exact ofFault_ok cfg flt sp st (fun k s hk => walkMut_exOk root path hp k s (by rw [hw, hk])) h
      | ok cell =>
        simp only []
        cases ha : op.apply cell sp with
        | error flt =>
          exact ofFault_ok cfg flt sp st (fun k s hk => mutApply_exOk op cell sp h k s (by rw [ha, hk])) h
        | ok r => exact ⟨trivial, updateAt_ok _ _ _ hst⟩

theorem assignIndex_ok (cfg : RunCfg) (st : State N) (name : Bytes) (bind : Option Nat)
    (path : List (Nat × Span)) (v : Value N) (sp : Span) (hst : StOk S st) (hp : PathOk S path)
    (h : S sp) : ResOk S Tr (Eval.assignIndex cfg st name bind path v sp) := by
  unfold Eval.assignIndex
  cases slotOf cfg st bind name with
  | none => exact trap_ok cfg _ sp st h
  | some pos =>
    simp only []
    cases getAt st.env pos with
    | none => exact trap_ok cfg _ sp st h
    | some root =>
      simp only []
      cases hw : walkAssign sp root path with
      | error flt =>
        exact ofFault_ok cfg flt sp st (fun k s hk => walkAssign_exOk sp h root path hp k s (by rw [hw, hk])) h
      | ok u => exact ⟨trivial, updateAt_ok _ _ _ hst⟩

theorem runCommand_ok (cfg : RunCfg) (c : Proc.Cmd) (sp : Span) (st : State N) (hst : StOk S st)
    (h : S sp) : ResOk S Tr (runCommand cfg c sp st) := by
  unfold runCommand
  split
  · exact h
  · cases Proc.validate c cfg.policy.caps with
    | error e => exact h
    | ok spec =>
      simp only []
      cases cfg.runProc spec with
      | error k => exact h
      | ok r => exact ⟨trivial, hst⟩

theorem globalCall_ok (cfg : RunCfg) (b : Eval.GlobalB) (v : Value N) (sp : Span) (st : State N)
    (hst : StOk S st) (h : S sp) : ResOk S Tr (globalCall cfg b v sp st) := by
  cases b with
  | shout => exact ⟨trivial, hst⟩
  | typeOf => exact ⟨trivial, hst⟩
  | readLine =>
    simp only [globalCall]
    cases st.input <;> exact ⟨trivial, hst⟩
  | toString => exact ⟨trivial, hst⟩
  | command =>
    cases v <;> first | exact ⟨trivial, hst⟩ | exact trap_ok cfg _ sp st h

theorem pick_ok (args : List Expr) (idx : List (Nat × PanicSite)) (sp : Span)
    (ha : AllS S (exprsSpans args)) (h : S sp) : SelOk S (pick args idx sp) := by
  intro x hx
  simp only [pick, List.mem_map] at hx
  obtain ⟨q, _, rfl⟩ := hx
  cases hq : args[q.1]? with
  | none => exact h
  | some e => exact AllS_exprs_mem ha e (List.mem_of_getElem? hq)

theorem map_ok_selOk (es : List Expr) (ha : AllS S (exprsSpans es)) :
    SelOk S (es.map (Except.ok : Expr → Except (PanicSite × Span) Expr)) := by
  intro x hx
  simp only [List.mem_map] at hx
  obtain ⟨e, he, rfl⟩ := hx
  exact AllS_exprs_mem ha e he

end ResLevel

/-! ### The evaluator, by induction on the fuel -/

section Evaluator
variable [NumOps N]

/-- All eight functions at fuel `f` report runtime errors only at spans in `S` and keep the state
invariant. -/
structure AllSpans (S : Span → Prop) (cfg : RunCfg) (f : Nat) : Prop where
  expr : ∀ (e : Expr) (st : State N), AllS S (exprSpans e) → StOk S st →
    ResOk S Tr (evalExpr cfg f e st)
  sel : ∀ (es : List (Except (PanicSite × Span) Expr)) (st : State N), SelOk S es → StOk S st →
    ResOk S Tr (evalSel cfg f es st)
  idxs : ∀ (is : List (Expr × Span)) (st : State N), IdxsOk S is → StOk S st →
    ResOk S (PathOk S) (evalIdxs cfg f is st)
  mutOp : ∀ (m : MutM) (args : List Expr) (sp : Span) (st : State N), AllS S (exprsSpans args) → S sp →
    StOk S st → ResOk S Tr (evalMutOp cfg f m args sp st)
  stmt : ∀ (s : Stmt) (st : State N), AllS S (stmtSpans s) → StOk S st → ResOk S Tr (execStmt cfg f s st)
  stmts : ∀ (ss : List Stmt) (st : State N), AllS S (stmtsSpans ss) → StOk S st →
    ResOk S Tr (execStmts cfg f ss st)
  block : ∀ (b : Block) (st : State N), AllS S (blockSpans b) → StOk S st → ResOk S Tr (execBlock cfg f b st)
  loop : ∀ (c : Expr) (b : Block) (sp : Span) (st : State N), AllS S (exprSpans c) → AllS S (blockSpans b) →
    S sp → StOk S st → ResOk S Tr (loopW cfg f c b sp st)

theorem allSpans_zero (cfg : RunCfg) : AllSpans (N := N) S cfg 0 :=
  ⟨fun _ _ _ _ => by simp only [evalExpr]; trivial,
   fun _ _ _ _ => by simp only [evalSel]; trivial,
   fun _ _ _ _ => by simp only [evalIdxs]; trivial,
   fun _ _ _ _ _ _ _ => by simp only [evalMutOp]; trivial,
   fun _ _ _ _ => by simp only [execStmt]; trivial,
   fun _ _ _ _ => by simp only [execStmts]; trivial,
   fun _ _ _ _ => by simp only [execBlock]; trivial,
   fun _ _ _ _ _ _ _ _ => by simp only [loopW]; trivial⟩

theorem sel_step {cfg : RunCfg} {f : Nat} (ih : AllSpans (N := N) S cfg f)
    (es : List (Except (PanicSite × Span) Expr)) (st : State N) (hes : SelOk S es) (hst : StOk S st) :
    ResOk S Tr (evalSel cfg (f + 1) es st) := by
  cases es with
  | nil => simp only [evalSel]; exact ok_ok _ hst
  | cons e rest =>
    have hrest : SelOk S rest := fun x hx => hes x (List.mem_cons_of_mem _ hx)
    have he := hes e (List.mem_cons_self ..)
    cases e with
    | error s => simp only [evalSel]; exact trap_ok cfg _ _ st he
    | ok e =>
      simp only [evalSel]
      refine ResOk.bind (ih.expr e st he hst) (fun v st1 _ hst1 => ?_)
      refine ResOk.bind (ih.sel rest st1 hrest hst1) (fun vs st2 _ hst2 => ?_)
      exact ok_ok _ hst2

theorem idxs_step {cfg : RunCfg} {f : Nat} (ih : AllSpans (N := N) S cfg f)
    (is : List (Expr × Span)) (st : State N) (his : IdxsOk S is) (hst : StOk S st) :
    ResOk S (PathOk S) (evalIdxs cfg (f + 1) is st) := by
  cases is with
  | nil => simp only [evalIdxs]; exact ⟨fun _ hq => by simp at hq, hst⟩
  | cons q rest =>
    have hrest : IdxsOk S rest := fun x hx => his x (List.mem_cons_of_mem _ hx)
    have hq := his q (List.mem_cons_self ..)
    obtain ⟨e, isp⟩ := q
    simp only [evalIdxs]
    refine ResOk.bind (ih.expr e st hq.1 hst) (fun v st1 _ hst1 => ?_)
    refine ResOk.bind (ofExcept_ok cfg _ isp st1 (indexValue_exOk v isp hq.2) hq.2 hst1)
      (fun i st1' _ hst1' => ?_)
    refine ResOk.bind (ih.idxs rest st1' hrest hst1') (fun is st2 hp hst2 => ?_)
    refine ⟨?_, hst2⟩
    intro p hp'
    rcases List.mem_cons.mp hp' with rfl | hp'
    · exact hq.2
    · exact hp p hp'

theorem stmts_step {cfg : RunCfg} {f : Nat} (ih : AllSpans (N := N) S cfg f)
    (ss : List Stmt) (st : State N) (hss : AllS S (stmtsSpans ss)) (hst : StOk S st) :
    ResOk S Tr (execStmts cfg (f + 1) ss st) := by
  cases ss with
  | nil => simp only [execStmts]; exact ok_ok _ hst
  | cons s rest =>
    simp only [stmtsSpans, AllS_append] at hss
    simp only [execStmts]
    split
    · exact ih.stmts rest st hss.2 hst
    · refine ResOk.bind (ih.stmt s st hss.1 hst) (fun flow st1 _ hst1 => ?_)
      cases flow with
      | cont => exact ih.stmts rest st1 hss.2 hst1
      | ret v => exact ok_ok _ hst1
      | brk => exact ok_ok _ hst1
      | next => exact ok_ok _ hst1

theorem block_step {cfg : RunCfg} {f : Nat} (ih : AllSpans (N := N) S cfg f) (b : Block) (st : State N)
    (hb : AllS S (blockSpans b)) (hst : StOk S st) : ResOk S Tr (execBlock cfg (f + 1) b st) := by
  cases b with
  | mk ss bsp =>
    simp only [blockSpans, AllS_cons] at hb
    simp only [execBlock, Block.stmts]
    refine ResOk.bind (ih.stmts ss _ hb.2 (hoist_ok cfg ss _ hb.2 (pushScope_ok _ _ _ _ _ hst)))
      (fun flow st2 _ hst2 => ?_)
    exact ok_ok _ (popScope_ok _ _ hst2)

theorem loop_step {cfg : RunCfg} {f : Nat} (ih : AllSpans (N := N) S cfg f) (c : Expr) (b : Block) (sp : Span)
    (st : State N) (hc : AllS S (exprSpans c)) (hb : AllS S (blockSpans b)) (hsp : S sp) (hst : StOk S st) :
    ResOk S Tr (loopW cfg (f + 1) c b sp st) := by
  simp only [loopW]
  refine ResOk.bind (ih.expr c st hc hst) (fun v st1 _ hst1 => ?_)
  refine ResOk.bind (ofExcept_ok cfg _ sp st1 (truthy_exOk .loopCond v) hsp hst1) (fun cnd st1' _ hst1' => ?_)
  cases cnd with
  | false => exact ok_ok _ hst1'
  | true =>
    simp only [if_true]
    refine ResOk.bind (ih.block b st1' hb hst1') (fun flow st2 _ hst2 => ?_)
    cases flow with
    | brk => exact ok_ok _ hst2
    | ret v => exact ok_ok _ hst2
    | cont => exact ih.loop c b sp st2 hc hb hsp hst2
    | next => exact ih.loop c b sp st2 hc hb hsp hst2

theorem stmt_step {cfg : RunCfg} {f : Nat} (ih : AllSpans (N := N) S cfg f) (s : Stmt) (st : State N)
    (hs : AllS S (stmtSpans s)) (hst : StOk S st) : ResOk S Tr (execStmt cfg (f + 1) s st) := by
  cases s with
  | assign var vsp e bind sid sp =>
    simp only [stmtSpans, AllS_cons] at hs
    simp only [execStmt]
    refine ResOk.bind (ih.expr e st hs.2.2 hst) (fun v st1 _ hst1 => ?_)
    exact ok_ok _ (define_ok _ _ _ _ hst1)
  | assignExisting var vsp e bind sid sp =>
    simp only [stmtSpans, AllS_cons] at hs
    simp only [execStmt]
    refine ResOk.bind (ih.expr e st hs.2.2 hst) (fun v st1 _ hst1 => ?_)
    cases ha : assign cfg st1 bind var v with
    | some st2 => exact ok_ok _ (assign_ok cfg st1 st2 bind var v ha hst1)
    | none => exact trap_ok cfg _ vsp st1 hs.1
  | assignIndex target e sid sp =>
    simp only [stmtSpans, AllS_cons, AllS_append] at hs
    simp only [execStmt]
    refine ResOk.bind (ih.expr e st hs.2.2 hst) (fun v st1 _ hst1 => ?_)
    cases hl : lvOf target with
    | other => exact trap_ok cfg _ sp st1 hs.1
    | badRoot => exact trap_ok cfg _ sp st1 hs.1
    | path name bind idxs =>
      simp only []
      refine ResOk.bind (ih.idxs idxs st1 (lvOf_ok target name bind idxs hs.2.1 hl) hst1)
        (fun path st2 hp hst2 => ?_)
      refine ResOk.bind (assignIndex_ok cfg st2 name bind path v sp hst2 hp hs.1) (fun _ st3 _ hst3 => ?_)
      exact ok_ok _ hst3
  | ifS cond thenB elseB sid sp =>
    cases elseB with
    | none =>
      simp only [stmtSpans, AllS_cons, AllS_append] at hs
      simp only [execStmt]
      refine ResOk.bind (ih.expr cond st hs.2.1 hst) (fun v st1 _ hst1 => ?_)
      refine ResOk.bind (ofExcept_ok cfg _ cond.span st1 (truthy_exOk .ifCond v) hs.2.1.span hst1)
        (fun c st1' _ hst1' => ?_)
      cases c with
      | true => exact ih.block thenB st1' hs.2.2 hst1'
      | false => exact ok_ok _ hst1'
    | some eb =>
      simp only [stmtSpans, AllS_cons, AllS_append] at hs
      simp only [execStmt]
      refine ResOk.bind (ih.expr cond st hs.2.1.1 hst) (fun v st1 _ hst1 => ?_)
      refine ResOk.bind (ofExcept_ok cfg _ cond.span st1 (truthy_exOk .ifCond v) hs.2.1.1.span hst1)
        (fun c st1' _ hst1' => ?_)
      cases c with
      | true => exact ih.block thenB st1' hs.2.1.2 hst1'
      | false => exact ih.block eb st1' hs.2.2 hst1'
  | loop cond body sid sp =>
    simp only [stmtSpans, AllS_cons, AllS_append] at hs
    simp only [execStmt]
    exact ih.loop cond body cond.span st hs.2.1 hs.2.2 hs.2.1.span hst
  | block b sid sp =>
    simp only [stmtSpans, AllS_cons] at hs
    simp only [execStmt]
    exact ih.block b st hs.2 hst
  | fnDef name nsp ps body fn sid sp => simp only [execStmt]; exact ok_ok _ hst
  | ret e sid sp =>
    cases e with
    | none => simp only [execStmt]; exact ok_ok _ hst
    | some e =>
      simp only [stmtSpans, AllS_cons] at hs
      simp only [execStmt]
      refine ResOk.bind (ih.expr e st hs.2 hst) (fun v st1 _ hst1 => ?_)
      exact ok_ok _ hst1
  | brk sid sp => simp only [execStmt]; exact ok_ok _ hst
  | cont sid sp => simp only [execStmt]; exact ok_ok _ hst
  | expr e sid sp =>
    simp only [stmtSpans, AllS_cons] at hs
    simp only [execStmt]
    refine ResOk.bind (ih.expr e st hs.2 hst) (fun v st1 _ hst1 => ?_)
    exact ok_ok _ hst1

/-- One selected argument, then a continuation on the single value (the shape of every
name-directed method with one argument). -/
theorem sel1_step {cfg : RunCfg} {f : Nat} (ih : AllSpans (N := N) S cfg f) {β : Type}
    (args : List Expr) (i : Nat) (site : PanicSite) (sp : Span) (st : State N)
    (k : List (Value N) → State N → Res N β)
    (ha : AllS S (exprsSpans args)) (hsp : S sp) (hst : StOk S st)
    (hk : ∀ vs st1, StOk S st1 → ResOk S Tr (k vs st1)) :
    ResOk S Tr ((evalSel cfg f (pick args [(i, site)] sp) st).bind k) :=
  ResOk.bind (ih.sel _ st (pick_ok args _ sp ha hsp) hst) (fun vs st1 _ hst1 => hk vs st1 hst1)

theorem mutOp_step {cfg : RunCfg} {f : Nat} (ih : AllSpans (N := N) S cfg f) (m : MutM) (args : List Expr)
    (sp : Span) (st : State N) (ha : AllS S (exprsSpans args)) (hsp : S sp) (hst : StOk S st) :
    ResOk S Tr (evalMutOp cfg (f + 1) m args sp st) := by
  cases m with
  | push =>
    simp only [evalMutOp]
    refine sel1_step ih args _ _ sp st _ ha hsp hst (fun vs st1 hst1 => ?_)
    rcases vs with _ | ⟨v, _ | ⟨w, t⟩⟩
    · exact trap_ok cfg _ sp _ hsp
    · exact ok_ok _ hst1
    · exact trap_ok cfg _ sp _ hsp
  | pop => simp only [evalMutOp]; exact ok_ok _ hst
  | reverse => simp only [evalMutOp]; exact ok_ok _ hst
  | cmd c =>
    cases c with
    | arg =>
      simp only [evalMutOp]
      refine sel1_step ih args _ _ sp st _ ha hsp hst (fun vs st1 hst1 => ?_)
      rcases vs with _ | ⟨v, _ | ⟨w, t⟩⟩
      · exact trap_ok cfg _ sp _ hsp
      · exact ok_ok _ hst1
      · exact trap_ok cfg _ sp _ hsp
    | cwd =>
      simp only [evalMutOp]
      refine sel1_step ih args _ _ sp st _ ha hsp hst (fun vs st1 hst1 => ?_)
      rcases vs with _ | ⟨v, _ | ⟨w, t⟩⟩
      · exact trap_ok cfg _ sp _ hsp
      · simp only []
        refine ResOk.bind (ofExcept_ok cfg _ sp st1 (requiredString_exOk v sp hsp) hsp hst1)
          (fun s st2 _ hst2 => ?_)
        exact ok_ok _ hst2
      · exact trap_ok cfg _ sp _ hsp
    | env =>
      simp only [evalMutOp]
      refine sel1_step ih args _ _ sp st _ ha hsp hst (fun vs st1 hst1 => ?_)
      rcases vs with _ | ⟨kv, _ | ⟨w, t⟩⟩
      · exact trap_ok cfg _ sp _ hsp
      · simp only []
        refine ResOk.bind (ofExcept_ok cfg _ sp st1 (requiredString_exOk kv sp hsp) hsp hst1)
          (fun key st1' _ hst1' => ?_)
        refine sel1_step ih args _ _ sp st1' _ ha hsp hst1' (fun ws st2 hst2 => ?_)
        rcases ws with _ | ⟨v, _ | ⟨w, t⟩⟩
        · exact trap_ok cfg _ sp _ hsp
        · exact ok_ok _ hst2
        · exact trap_ok cfg _ sp _ hsp
      · exact trap_ok cfg _ sp _ hsp
    | stdinText =>
      simp only [evalMutOp]
      refine sel1_step ih args _ _ sp st _ ha hsp hst (fun vs st1 hst1 => ?_)
      rcases vs with _ | ⟨v, _ | ⟨w, t⟩⟩
      · exact trap_ok cfg _ sp _ hsp
      · exact ok_ok _ hst1
      · exact trap_ok cfg _ sp _ hsp
    | timeoutMs =>
      simp only [evalMutOp]
      refine sel1_step ih args _ _ sp st _ ha hsp hst (fun vs st1 hst1 => ?_)
      rcases vs with _ | ⟨v, _ | ⟨w, t⟩⟩
      · exact trap_ok cfg _ sp _ hsp
      · simp only []
        refine ResOk.bind (ofExcept_ok cfg _ sp st1 (timeoutMs_exOk v sp hsp) hsp hst1)
          (fun ms st2 _ hst2 => ?_)
        exact ok_ok _ hst2
      · exact trap_ok cfg _ sp _ hsp
    | stdinInherit => simp only [evalMutOp]; exact ok_ok _ hst
    | stdinNull => simp only [evalMutOp]; exact ok_ok _ hst
    | stdoutCapture => simp only [evalMutOp]; exact ok_ok _ hst
    | stdoutInherit => simp only [evalMutOp]; exact ok_ok _ hst
    | stdoutNull => simp only [evalMutOp]; exact ok_ok _ hst
    | stderrCapture => simp only [evalMutOp]; exact ok_ok _ hst
    | stderrInherit => simp only [evalMutOp]; exact ok_ok _ hst
    | stderrNull => simp only [evalMutOp]; exact ok_ok _ hst
    | run => simp only [evalMutOp]; exact ok_ok _ hst

/-- The right operand of an arithmetic / comparison operator, then the operator. -/
theorem arith_step {cfg : RunCfg} {f : Nat} (ih : AllSpans (N := N) S cfg f) (op : ArithOp) (r : Expr)
    (lv : Value N) (sp : Span) (st1 : State N) (hr : AllS S (exprSpans r)) (hsp : S sp) (hst1 : StOk S st1) :
    ResOk S Tr ((evalExpr cfg f r st1).bind fun rv st2 => Res.ofExcept cfg (arith op lv rv sp) sp st2) :=
  ResOk.bind (ih.expr r st1 hr hst1)
    (fun rv st2 _ hst2 => ofExcept_ok cfg _ sp st2 (arith_exOk op lv rv sp hsp) hsp hst2)

theorem expr_step {cfg : RunCfg} {f : Nat} (ih : AllSpans (N := N) S cfg f) (e : Expr) (st : State N)
    (he : AllS S (exprSpans e)) (hst : StOk S st) : ResOk S Tr (evalExpr cfg (f + 1) e st) := by
  cases e with
  | num lex sp =>
    simp only [exprSpans, AllS_cons] at he
    simp only [evalExpr]
    cases NumOps.ofLit (N := N) lex with
    | some n => exact ok_ok _ hst
    | none => exact trap_ok cfg _ sp st he.1
  | str parts sp =>
    simp only [exprSpans, AllS_cons] at he
    cases parts with
    | static s => simp only [evalExpr]; exact ok_ok _ hst
    | interp segs =>
      simp only [evalExpr]
      cases interp cfg st segs [] with
      | some s => exact ok_ok _ hst
      | none => exact trap_ok cfg _ sp st he.1
  | bool b sp => simp only [evalExpr]; exact ok_ok _ hst
  | null sp => simp only [evalExpr]; exact ok_ok _ hst
  | var name bind sp =>
    simp only [exprSpans, AllS_cons] at he
    simp only [evalExpr]
    cases lookupVal cfg st bind name with
    | some v => exact ok_ok _ hst
    | none => exact trap_ok cfg _ sp st he.1
  | binary op l r sp =>
    simp only [exprSpans, AllS_cons, AllS_append] at he
    obtain ⟨hsp, hl, hr⟩ := he
    simp only [evalExpr]
    refine ResOk.bind (ih.expr l st hl hst) (fun lv st1 _ hst1 => ?_)
    cases op with
    | and =>
      simp only []
      cases h : andStops lv with
      | true => exact ok_ok _ hst1
      | false =>
        simp only [Bool.false_eq_true, if_false]
        refine ResOk.bind (ih.expr r st1 hr hst1) (fun rv st2 _ hst2 => ?_)
        exact ofExcept_ok cfg _ r.span st2 (logicRhs_exOk _ rv) hr.span hst2
    | or =>
      simp only []
      cases h : orStops lv with
      | true => exact ok_ok _ hst1
      | false =>
        simp only [Bool.false_eq_true, if_false]
        refine ResOk.bind (ih.expr r st1 hr hst1) (fun rv st2 _ hst2 => ?_)
        exact ofExcept_ok cfg _ r.span st2 (logicRhs_exOk _ rv) hr.span hst2
    | add => exact arith_step ih .add r lv sp st1 hr hsp hst1
    | minus => exact arith_step ih .minus r lv sp st1 hr hsp hst1
    | times => exact arith_step ih .times r lv sp st1 hr hsp hst1
    | divide => exact arith_step ih .divide r lv sp st1 hr hsp hst1
    | mod => exact arith_step ih .mod r lv sp st1 hr hsp hst1
    | eq => exact arith_step ih .eq r lv sp st1 hr hsp hst1
    | gt => exact arith_step ih .gt r lv sp st1 hr hsp hst1
    | lt => exact arith_step ih .lt r lv sp st1 hr hsp hst1
  | unary op x sp =>
    simp only [exprSpans, AllS_cons] at he
    simp only [evalExpr]
    exact ResOk.bind (ih.expr x st he.2 hst)
      (fun v st1 _ hst1 => ofExcept_ok cfg _ sp st1 (unary_exOk op v) he.1 hst1)
  | array es sp =>
    simp only [exprSpans, AllS_cons] at he
    simp only [evalExpr]
    refine ResOk.bind (ih.sel _ st (map_ok_selOk es he.2) hst) (fun vs st1 _ hst1 => ?_)
    exact ok_ok _ hst1
  | index a i isp sp =>
    simp only [exprSpans, AllS_cons, AllS_append] at he
    obtain ⟨hisp, hsp, ha, hi⟩ := he
    simp only [evalExpr]
    refine ResOk.bind (ih.expr a st ha hst) (fun av st1 _ hst1 => ?_)
    exact ResOk.bind (ih.expr i st1 hi hst1)
      (fun iv st2 _ hst2 => ofExcept_ok cfg _ sp st2 (indexRead_exOk av iv isp hisp) hsp hst2)
  | member o fld fs sp =>
    simp only [exprSpans, AllS_cons] at he
    simp only [evalExpr]
    exact trap_ok cfg _ sp st he.2.1
  | call callee args fnAnn sp =>
    simp only [exprSpans, AllS_cons, AllS_append] at he
    obtain ⟨hsp, hcallee, hargs⟩ := he
    cases callee with
    | member obj field fs ms =>
      simp only [exprSpans, AllS_cons] at hcallee
      have hobj := hcallee.2.2
      simp only [evalExpr]
      cases MutM.ofName field with
      | some m =>
        simp only []
        refine ResOk.bind (ih.mutOp m args sp st hargs hsp hst) (fun op st1 _ hst1 => ?_)
        cases hl : lvOf obj with
        | other => exact hsp
        | badRoot => exact trap_ok cfg _ sp st1 hsp
        | path name bind idxs =>
          simp only []
          exact ResOk.bind (ih.idxs idxs st1 (lvOf_ok obj name bind idxs hobj hl) hst1)
            (fun path st2 hp hst2 => applyMut_ok cfg st2 name bind path op sp hst2 hp hsp)
      | none =>
        simp only []
        refine ResOk.bind (ih.expr obj st hobj hst) (fun recv st1 _ hst1 => ?_)
        cases recv with
        | str s =>
          simp only []
          cases StrM.ofName field with
          | none => exact hsp
          | some m =>
            simp only []
            exact ResOk.bind (ih.sel _ st1 (pick_ok args _ sp hargs hsp) hst1)
              (fun vs st2 _ hst2 => ofExcept_ok cfg _ sp st2 (strMethod_exOk cfg.std m s vs) hsp hst2)
        | num n =>
          simp only []
          cases NumM.ofName field with
          | none => exact hsp
          | some m => exact ok_ok _ hst1
        | arr xs =>
          simp only []
          cases ArrM.ofName field with
          | none => exact hsp
          | some a =>
            cases a with
            | len => exact ok_ok _ hst1
            | join =>
              simp only []
              refine ResOk.bind (ih.sel _ st1 (pick_ok args _ sp hargs hsp) hst1) (fun vs st2 _ hst2 => ?_)
              rcases vs with _ | ⟨v, _ | ⟨w, t⟩⟩ <;> (try cases v) <;>
                first | exact ok_ok _ hst2 | exact trap_ok cfg _ sp _ hsp
            | push => exact hsp
            | pop => exact hsp
            | reverse => exact hsp
        | host h =>
          cases h with
          | command c =>
            simp only []
            cases CmdM.ofName field with
            | none => exact hsp
            | some m => cases m <;> first | exact hsp | exact runCommand_ok cfg c sp st1 hst1 hsp
          | result r =>
            simp only []
            cases ResM.ofName field with
            | none => exact hsp
            | some m => exact ok_ok _ hst1
        | bool b => exact trap_ok cfg _ sp st1 hsp
        | null => exact hsp
    | var name vb vsp =>
      simp only [evalExpr]
      cases Eval.GlobalB.ofName name with
      | some b =>
        simp only []
        refine ResOk.bind (ih.sel _ st (map_ok_selOk args hargs) hst) (fun vs st1 _ hst1 => ?_)
        rcases vs with _ | ⟨v, _ | ⟨w, t⟩⟩
        · exact trap_ok cfg _ sp _ hsp
        · exact globalCall_ok cfg b v sp st1 hst1 hsp
        · exact trap_ok cfg _ sp _ hsp
      | none =>
        simp only []
        cases hfd : Eval.lookupFn cfg st fnAnn name with
        | none => exact trap_ok cfg _ sp st hsp
        | some fd =>
          simp only []
          have hbody := lookupFn_ok cfg st fnAnn name fd hfd hst
          refine ResOk.bind (ih.sel _ st (map_ok_selOk args hargs) hst) (fun vs st1 _ hst1 => ?_)
          by_cases hlen : vs.length ≠ fd.params.length
          · simp only [if_pos hlen]
            exact trap_ok cfg _ sp st1 hsp
          · simp only [if_neg hlen]
            cases paramIds fd with
            | none => exact trap_ok cfg _ sp st1 hsp
            | some ids =>
              simp only []
              refine ResOk.bind (ih.block fd.body _ hbody (pushScope_ok _ _ _ _ _ hst1))
                (fun flow st3 _ hst3 => ?_)
              have hst4 := popScope_ok st3 st1.chain hst3
              cases flow with
              | cont => exact ok_ok _ hst4
              | ret v => exact ok_ok _ hst4
              | brk => exact trap_ok cfg _ sp _ hsp
              | next => exact trap_ok cfg _ sp _ hsp
    | num _ _ => simp only [evalExpr]; exact trap_ok cfg _ sp st hsp
    | str _ _ => simp only [evalExpr]; exact trap_ok cfg _ sp st hsp
    | bool _ _ => simp only [evalExpr]; exact trap_ok cfg _ sp st hsp
    | null _ => simp only [evalExpr]; exact trap_ok cfg _ sp st hsp
    | array _ _ => simp only [evalExpr]; exact trap_ok cfg _ sp st hsp
    | index _ _ _ _ => simp only [evalExpr]; exact trap_ok cfg _ sp st hsp
    | unary _ _ _ => simp only [evalExpr]; exact trap_ok cfg _ sp st hsp
    | binary _ _ _ _ => simp only [evalExpr]; exact trap_ok cfg _ sp st hsp
    | call _ _ _ _ => simp only [evalExpr]; exact trap_ok cfg _ sp st hsp

theorem allSpans_succ {cfg : RunCfg} {f : Nat} (ih : AllSpans (N := N) S cfg f) :
    AllSpans (N := N) S cfg (f + 1) :=
  ⟨expr_step ih, sel_step ih, idxs_step ih, mutOp_step ih, stmt_step ih, stmts_step ih, block_step ih,
   loop_step ih⟩

theorem allSpans (cfg : RunCfg) : ∀ f : Nat, AllSpans (N := N) S cfg f
  | 0 => allSpans_zero cfg
  | f + 1 => allSpans_succ (allSpans cfg f)

/-- **The span of a runtime error is a span of the program**: for every configuration, plan and
amount of fuel, a run that ends in a runtime error reports it at one of the spans of the program it
ran (`S` any set holding all of them). -/
theorem run_rt_span (cfg : RunCfg) (fuel : Nat) (prog : Block) (hp : AllS S (blockSpans prog))
    {k : RtKind} {sp : Span} {out : List (Value N)} (h : (run cfg fuel prog : Outcome N) = .rt k sp out) :
    S sp := by
  have hb := (allSpans (N := N) (S := S) cfg fuel).block prog (State.init cfg) hp (init_ok cfg)
  unfold run at h
  cases hr : execBlock cfg fuel prog (State.init cfg : State N) with
  | ok a st => rw [hr] at h; cases h
  | err k' sp' st =>
    rw [hr] at h hb
    cases h
    exact hb
  | panic site st => rw [hr] at h; cases h
  | fuel => rw [hr] at h; cases h

end Evaluator

end NaijaVerif.SpanSafe
