/-
Liveness side of C16: a variant (termination measure) that every non-tick step of the capture
transition system strictly decreases, and deadlock freedom of the runner's own threads.
-/
import NaijaVerif.Lemmas.Capture
namespace NaijaVerif.Capture
set_option linter.unusedSimpArgs false

/-! ## Progress and a termination measure (liveness) -/

def Rd.rank : Rd → Nat
  | .idle => 2
  | .got _ => 3
  | _ => 0

/-- Work left for one reader: three units per byte that can still reach it, plus its own position,
plus the child's `close` of its end of the stream. -/
def Side.mu (d : Side) : Nat :=
  3 * (d.pipe.length + d.pending.length) + d.rd.rank + (if d.wopen = true then 1 else 0)

def Pc.mu (timeout now : Nat) : Pc → Nat
  | .load => 6 + 5 * (timeout - now) + 4
  | .tryWait => 6 + 5 * (timeout - now) + 3
  | .deadline => 6 + 5 * (timeout - now) + 2
  | .sleep w => 6 + 5 * (timeout - w) + 5
  | .kill _ => 5
  | .reap _ => 4
  | .eJoinWr _ => 3
  | .eJoinOut _ => 2
  | .eJoinErr _ => 1
  | .joinWr _ => 5
  | .joinOut _ => 4
  | .flagOut _ => 3
  | .joinErr _ _ => 2
  | .flagErr _ _ => 1
  | .done _ => 0
  | .preJoinWr => 0
  | .drainFlag _ => 0
  | .blockWait => 0

/-- Work left on the stdin side: bytes still to be written and read, the writer's last step, the
child's `close`. -/
def Inp.mu (i : Inp) : Nat :=
  2 * i.pending + i.pipe + (if i.wr = .busy then 1 else 0) + (if i.childOpen = true then 1 else 0)

def Child.mu : Child → Nat
  | .alive => 1
  | _ => 0

/-- The variant: main thread + both readers + the child's remaining writes + the stdin side. -/
def State.mu (cfg : Cfg) (s : State) : Nat :=
  Pc.mu cfg.timeout s.now s.pc + s.o.mu + s.e.mu +
    (2 * (s.o.pending.length + s.e.pending.length) + s.child.mu) + s.i.mu

theorem Side.write_mu {pipeCap n} {d d' : Side} (h : Side.write pipeCap d n = some d') :
    d'.mu ≤ d.mu ∧ d'.pending.length < d.pending.length := by
  obtain ⟨pending, written, pipe, acc, rd, wopen⟩ := d
  simp only [Side.write] at h
  split at h
  · cases h
  · next hn =>
    have hn' : 0 < n ∧ n ≤ pending.length := by simp at hn; omega
    cases rd <;> simp at h
    · subst h; simp [Side.mu, Rd.rank]; omega
    · obtain ⟨_, rfl⟩ := h; simp [Side.mu, Rd.rank]; omega
    · obtain ⟨_, rfl⟩ := h; simp [Side.mu, Rd.rank]; omega

theorem Side.drop_mu {n} {d d' : Side} (h : Side.drop d n = some d') :
    d'.mu ≤ d.mu ∧ d'.pending.length < d.pending.length := by
  obtain ⟨pending, written, pipe, acc, rd, wopen⟩ := d
  simp only [Side.drop] at h
  split at h
  · cases h
  · next hn =>
    have hn' : 0 < n ∧ n ≤ pending.length := by simp at hn; omega
    cases rd <;> simp at h
    all_goals (subst h; simp [Side.mu, Rd.rank]; omega)

theorem Side.read_mu {chunk} {d d' : Side} (h : Side.read chunk d = some d') :
    d'.mu < d.mu ∧ d'.pending = d.pending := by
  obtain ⟨pending, written, pipe, acc, rd, wopen⟩ := d
  simp only [Side.read] at h
  cases rd <;> simp at h
  obtain ⟨⟨hc, hp⟩, rfl⟩ := h
  have : 0 < pipe.length := by cases pipe with | nil => exact absurd rfl hp | cons _ _ => simp
  simp [Side.mu, Rd.rank]; omega

theorem Side.eof_mu {al} {d d' : Side} (h : Side.eof al d = some d') :
    d'.mu < d.mu ∧ d'.pending = d.pending := by
  obtain ⟨pending, written, pipe, acc, rd, wopen⟩ := d
  simp only [Side.eof] at h
  cases rd <;> simp at h
  obtain ⟨_, rfl⟩ := h
  simp [Side.mu, Rd.rank]

theorem Side.close_mu {d d' : Side} (h : Side.close d = some d') :
    d'.mu < d.mu ∧ d'.pending = d.pending := by
  obtain ⟨pending, written, pipe, acc, rd, wopen⟩ := d
  simp only [Side.close] at h
  split at h
  · next hc => cases h; simp [Side.mu, hc.1]
  · cases h

theorem Side.fail_mu {d d' : Side} (h : Side.fail d = some d') :
    d'.mu < d.mu ∧ d'.pending = d.pending := by
  obtain ⟨pending, written, pipe, acc, rd, wopen⟩ := d
  simp only [Side.fail] at h
  cases rd <;> simp at h
  subst h
  simp [Side.mu, Rd.rank]

theorem Inp.write_mu {pipeCap al n} {i i' : Inp} (h : Inp.write pipeCap al i n = some i') : i'.mu < i.mu := by
  obtain ⟨pending, pipe, wr, co⟩ := i
  simp only [Inp.write] at h
  cases wr <;> simp at h
  obtain ⟨⟨h1, h2, _, _⟩, rfl⟩ := h
  simp only [Inp.mu]; omega

theorem Inp.finish_mu {i i' : Inp} (h : Inp.finish i = some i') : i'.mu < i.mu := by
  obtain ⟨pending, pipe, wr, co⟩ := i
  simp only [Inp.finish] at h
  cases wr <;> simp at h
  obtain ⟨_, rfl⟩ := h
  simp [Inp.mu]

theorem Inp.epipe_mu {al} {i i' : Inp} (h : Inp.epipe al i = some i') : i'.mu < i.mu := by
  obtain ⟨pending, pipe, wr, co⟩ := i
  simp only [Inp.epipe] at h
  cases wr <;> simp at h
  obtain ⟨_, rfl⟩ := h
  simp [Inp.mu]

theorem Inp.fail_mu {i i' : Inp} (h : Inp.fail i = some i') : i'.mu < i.mu := by
  obtain ⟨pending, pipe, wr, co⟩ := i
  simp only [Inp.fail] at h
  cases wr <;> simp at h
  obtain ⟨_, rfl⟩ := h
  simp [Inp.mu]

theorem Inp.childRead_mu {n} {i i' : Inp} (h : Inp.childRead i n = some i') : i'.mu < i.mu := by
  obtain ⟨pending, pipe, wr, co⟩ := i
  simp only [Inp.childRead] at h
  split at h
  · next hc => cases h; simp only [Inp.mu]; omega
  · cases h

theorem Inp.childClose_mu {i i' : Inp} (h : Inp.childClose i = some i') : i'.mu < i.mu := by
  obtain ⟨pending, pipe, wr, co⟩ := i
  simp only [Inp.childClose] at h
  split at h
  · next hc => cases h; subst hc; simp [Inp.mu]
  · cases h

theorem Side.check_mu {cap my flag flag'} {d d' : Side} (h : Side.check cap my flag d = some (d', flag')) :
    d'.mu < d.mu ∧ d'.pending = d.pending := by
  obtain ⟨pending, written, pipe, acc, rd, wopen⟩ := d
  simp only [Side.check] at h
  cases rd <;> simp at h
  split at h <;> simp at h <;> obtain ⟨rfl, rfl⟩ := h <;> simp [Side.mu, Rd.rank]

end NaijaVerif.Capture

namespace NaijaVerif.Capture
set_option linter.unusedSimpArgs false

theorem stepMain_mu {cfg : Cfg} {s s' : State} (h : stepMain cfg s = some s') :
    s'.mu cfg < s.mu cfg := by
  cases hpc : s.pc <;> simp only [stepMain, hpc] at h
  all_goals (try split at h)
  all_goals (try split at h)
  all_goals (try (cases h; done))
  all_goals cases h
  all_goals simp only [State.mu, hpc, Pc.mu]
  all_goals (try omega)
  all_goals (rename_i hc; simp [hc, Child.mu]; try omega)

end NaijaVerif.Capture

namespace NaijaVerif.Capture
set_option linter.unusedSimpArgs false

/-- Every step other than the passing of time strictly decreases the variant … -/
theorem step_mu_lt {cfg : Cfg} {plan : Plan} {s s' : State} {l : Label}
    (h : step cfg plan s l = some s') (hl : l ≠ .tick) : s'.mu cfg < s.mu cfg := by
  cases l with
  | tick => exact absurd rfl hl
  | main => exact stepMain_mu h
  | childWrite x n =>
    simp only [step] at h
    split at h
    · simp only [Option.map_eq_some_iff] at h
      obtain ⟨d', hd, rfl⟩ := h
      have := Side.write_mu hd
      cases x <;> simp_all [State.mu] <;> omega
    · cases h
  | childDrop x n =>
    simp only [step] at h
    split at h
    · simp only [Option.map_eq_some_iff] at h
      obtain ⟨d', hd, rfl⟩ := h
      have := Side.drop_mu hd
      cases x <;> simp_all [State.mu] <;> omega
    · cases h
  | childSigpipe x =>
    simp only [step] at h
    split at h
    · next hc => cases h; simp [State.mu, (Child.isAlive_iff _).mp hc.1, Child.mu]
    · cases h
  | childEnd =>
    simp only [step] at h
    split at h
    · next hc =>
      split at h
      · cases h; simp [State.mu, (Child.isAlive_iff _).mp hc.1, Child.mu]
      · cases h
    · cases h
  | childClose x =>
    simp only [step] at h
    split at h
    · simp only [Option.map_eq_some_iff] at h
      obtain ⟨d', hd, rfl⟩ := h
      have := Side.close_mu hd
      cases x <;> simp_all [State.mu] <;> omega
    · cases h
  | rdRead x =>
    simp only [step, Option.map_eq_some_iff] at h
    obtain ⟨d', hd, rfl⟩ := h
    have := Side.read_mu hd
    cases x <;> simp_all [State.mu] <;> omega
  | rdEof x =>
    simp only [step, Option.map_eq_some_iff] at h
    obtain ⟨d', hd, rfl⟩ := h
    have := Side.eof_mu hd
    cases x <;> simp_all [State.mu] <;> omega
  | rdCheck x =>
    simp only [step, Option.map_eq_some_iff] at h
    obtain ⟨⟨d', f'⟩, hd, rfl⟩ := h
    have := Side.check_mu hd
    cases x <;> simp_all [State.mu] <;> omega
  | rdFail x =>
    simp only [step, Option.map_eq_some_iff] at h
    obtain ⟨d', hd, rfl⟩ := h
    have := Side.fail_mu hd
    cases x <;> simp_all [State.mu] <;> omega
  | wrWrite n =>
    simp only [step, Option.map_eq_some_iff] at h
    obtain ⟨i', hi, rfl⟩ := h
    have := Inp.write_mu hi
    simp only [State.mu]; omega
  | wrEnd =>
    simp only [step, Option.map_eq_some_iff] at h
    obtain ⟨i', hi, rfl⟩ := h
    have := Inp.finish_mu hi
    simp only [State.mu]; omega
  | wrEpipe =>
    simp only [step, Option.map_eq_some_iff] at h
    obtain ⟨i', hi, rfl⟩ := h
    have := Inp.epipe_mu hi
    simp only [State.mu]; omega
  | wrFail =>
    simp only [step, Option.map_eq_some_iff] at h
    obtain ⟨i', hi, rfl⟩ := h
    have := Inp.fail_mu hi
    simp only [State.mu]; omega
  | childRead n =>
    simp only [step] at h
    split at h
    · simp only [Option.map_eq_some_iff] at h
      obtain ⟨i', hi, rfl⟩ := h
      have := Inp.childRead_mu hi
      simp only [State.mu]; omega
    · cases h
  | childCloseIn =>
    simp only [step] at h
    split at h
    · simp only [Option.map_eq_some_iff] at h
      obtain ⟨i', hi, rfl⟩ := h
      have := Inp.childClose_mu hi
      simp only [State.mu]; omega
    · cases h

/-- … and the passing of time never increases it. -/
theorem step_mu_tick {cfg : Cfg} {plan : Plan} {s s' : State}
    (h : step cfg plan s .tick = some s') : s'.mu cfg ≤ s.mu cfg := by
  simp only [step] at h
  split at h
  · cases h
  · cases h
    simp only [State.mu]
    cases hpc : s.pc <;> simp only [Pc.mu] <;> omega

def nonTicks (ls : List Label) : Nat := (ls.filter (· ≠ .tick)).length

/-- Bounded work: an execution contains at most `μ(start)` steps that are not ticks. -/
theorem run_nonTicks_le {cfg : Cfg} {plan : Plan} {s s' : State} {ls : List Label}
    (h : run cfg plan s ls = some s') : nonTicks ls + s'.mu cfg ≤ s.mu cfg := by
  induction ls generalizing s with
  | nil => simp [run] at h; subst h; simp [nonTicks]
  | cons l ls ih =>
    simp only [run] at h
    split at h
    · next s₁ hs =>
      have := ih h
      by_cases hl : l = .tick
      · subst hl
        have := step_mu_tick hs
        simp [nonTicks] at *; omega
      · have := step_mu_lt hs hl
        simp [nonTicks, hl] at *; omega
    · cases h

end NaijaVerif.Capture

namespace NaijaVerif.Capture
set_option linter.unusedSimpArgs false

/-- A reader that has not finished can always take a step once the child is gone. -/
theorem Side.can_step {cap chunk my flag : Nat} {d : Side} (hchunk : 0 < chunk) (hj : d.finished = false) :
    (Side.read chunk d).isSome = true ∨ (Side.check cap my flag d).isSome = true ∨
      (Side.eof false d).isSome = true := by
  obtain ⟨pending, written, pipe, acc, rd, wopen⟩ := d
  cases rd <;> simp [Side.finished] at hj
  · by_cases hp : pipe = []
    · right; right; simp [Side.eof, hp]
    · left; simp [Side.read, hp]; omega
  · right; left; simp only [Side.check]; split <;> simp

/-- Is some step of the reader of `x` enabled? -/
def readerEnabled (cfg : Cfg) (plan : Plan) (s : State) (x : Strm) : Prop :=
  (step cfg plan s (.rdRead x)).isSome = true ∨ (step cfg plan s (.rdCheck x)).isSome = true ∨
    (step cfg plan s (.rdEof x)).isSome = true

theorem readerEnabled_of {cfg : Cfg} {plan : Plan} {s : State} {x : Strm} (hchunk : 0 < cfg.chunk)
    (hj : (s.side x).finished = false) (hd : s.child.isAlive = false) : readerEnabled cfg plan s x := by
  unfold readerEnabled
  simp only [step, Option.isSome_map, hd]
  exact Side.can_step hchunk hj

/-- Is some step of the stdin writer enabled (other than a fault)? -/
def writerEnabled (cfg : Cfg) (plan : Plan) (s : State) : Prop :=
  (∃ n, (step cfg plan s (.wrWrite n)).isSome = true) ∨ (step cfg plan s .wrEnd).isSome = true ∨
    (step cfg plan s .wrEpipe).isSome = true

/-- **The writer can always finish once the child is gone** (after the kill, or after the child
ended by itself): with nothing left to write it ends, otherwise its next `write` gets `EPIPE`. -/
theorem writerEnabled_of {cfg : Cfg} {plan : Plan} {s : State}
    (hb : s.i.finished = false) (hd : s.child.isAlive = false) :
    (step cfg plan s .wrEnd).isSome = true ∨ (step cfg plan s .wrEpipe).isSome = true := by
  have hwr : s.i.wr = .busy := by
    unfold Inp.finished at hb; cases hw : s.i.wr <;> simp_all
  simp only [step, Option.isSome_map, Inp.finish, Inp.epipe, hwr, Inp.readable, hd, Bool.false_and]
  by_cases hp : s.i.pending = 0
  · left; simp [hp]
  · right; simp; omega

/-- **No deadlock, and no dependence on the child's cooperation.** In every reachable non-terminal
state the runner itself can move: the main thread has an enabled step, or it sleeps and time is
what it waits for, or it waits in a `join` for a reader thread that has an enabled step, or for the
writer thread that has one. -/
theorem progress_of_inv {cfg : Cfg} {plan : Plan} {s : State} (hchunk : 0 < cfg.chunk)
    (h : Inv cfg plan s) (hnt : s.result = none) :
    (step cfg plan s .main).isSome = true ∨ (∃ w, s.pc = .sleep w ∧ s.now < w) ∨
      (∃ x, readerEnabled cfg plan s x) ∨ writerEnabled cfg plan s := by
  have hp := h.pcInv
  unfold PcInv at hp
  have hdead : s.child.isReaped = true → s.child.isAlive = false := by
    cases s.child <;> simp [Child.isReaped, Child.isAlive]
  cases hpc : s.pc <;> simp only [hpc] at hp
  case load => left; simp only [step, stepMain, hpc]; split <;> rfl
  case tryWait =>
    left; simp only [step, stepMain, hpc]
    cases hc : s.child <;> simp_all [Child.isReaped]
  case deadline => left; simp only [step, stepMain, hpc]; split <;> rfl
  case sleep w =>
    by_cases hw : w ≤ s.now
    · left; simp [step, stepMain, hpc, hw]
    · right; left; exact ⟨w, rfl, by omega⟩
  case kill e => left; simp only [step, stepMain, hpc]; split <;> rfl
  case reap e =>
    left; simp only [step, stepMain, hpc]
    cases hc : s.child <;> simp_all [Child.isZombie]
  case eJoinWr e =>
    cases hj : s.i.finished
    · right; right; right
      rcases writerEnabled_of (cfg := cfg) (plan := plan) hj (hdead hp.1) with hw | hw
      · exact Or.inr (Or.inl hw)
      · exact Or.inr (Or.inr hw)
    · left; simp [step, stepMain, hpc, hj]
  case joinWr st =>
    cases hj : s.i.finished
    · right; right; right
      rcases writerEnabled_of (cfg := cfg) (plan := plan) hj (hdead hp.1) with hw | hw
      · exact Or.inr (Or.inl hw)
      · exact Or.inr (Or.inr hw)
    · left; simp only [step, stepMain, hpc]
      unfold Inp.finished at hj
      cases hw : s.i.wr <;> simp_all
  case eJoinOut e =>
    cases hj : s.o.finished
    · right; right; left; exact ⟨.out, readerEnabled_of hchunk hj (hdead hp.1)⟩
    · left; simp [step, stepMain, hpc, hj]
  case eJoinErr e =>
    cases hj : s.e.finished
    · right; right; left; exact ⟨.err, readerEnabled_of hchunk hj (hdead hp.1)⟩
    · left; simp [step, stepMain, hpc, hj]
  case joinOut st =>
    cases hj : s.o.finished
    · right; right; left; exact ⟨.out, readerEnabled_of hchunk hj (hdead hp.1)⟩
    · left; simp only [step, stepMain, hpc]
      rw [Side.finished_iff] at hj
      rcases hj with hj | hj | hj | hj <;> simp [hj]
  case flagOut st =>
    left; simp only [step, stepMain, hpc]; split
    · rfl
    · split <;> rfl
  case joinErr st ro =>
    cases hj : s.e.finished
    · right; right; left; exact ⟨.err, readerEnabled_of hchunk hj (hdead hp.1.1)⟩
    · left; simp only [step, stepMain, hpc]
      rw [Side.finished_iff] at hj
      rcases hj with hj | hj | hj | hj <;> simp [hj]
  case flagErr st ro =>
    left; simp only [step, stepMain, hpc]; split
    · rfl
    · split <;> rfl
  case done r => simp [State.result, hpc] at hnt

end NaijaVerif.Capture
