import NaijaVerif.Lemmas.ParseFuel
/-
The parser reads the `escaped` flag of a string token only when the content holds a `{`.

`Tok.str content escaped`: `escaped` says that the lexeme held at least one escape sequence (the Rust
lexer then hands over an owned buffer, `ArenaCow::Owned`, instead of a slice of the source).  The parser
looks at the flag in one place, `parse_string_literal` (`strParts`): a content without `{` is a static
string whatever the flag; a content with a `{` is split as a template only when the flag is off.

`flagErase` sets the flag of every string token whose content holds no `{`.  `flagSt` maps a parser state
to the state over the flag-erased tokens; every helper and every one of the mutually recursive parse
functions maps flag-erased states to the same tree / diagnostics and the flag-erased rest state
(`parseProgram_flag`).  Same proof method as `Lemmas/ParseErase.lean`.
-/
namespace NaijaVerif.Parse
open NaijaVerif

/-- Is this a string token? -/
def isStrTok : Tok → Bool
  | .str _ _ => true
  | _ => false

/-- Set the `escaped` flag of a string token whose content holds no `{` (where the parser does not read
it); every other token is left alone. -/
def flagErase : Tok → Tok
  | .str c esc => .str c (esc || !c.contains lbrace)
  | t => t

def flagTok (t : SpTok) : SpTok := ⟨flagErase t.tok, t.span⟩

def flagSt (st : PState) : PState := ⟨flagTok st.cur, st.rest.map flagTok, st.errs⟩

/-! ### What the parser asks of a token does not see `flagErase` -/

theorem flagErase_of_not_str {t : Tok} (h : isStrTok t = false) : flagErase t = t := by
  cases t <;> first | rfl | cases h

theorem flagErase_idem (t : Tok) : flagErase (flagErase t) = flagErase t := by
  cases t <;> try rfl
  next c e => cases e <;> cases c.contains lbrace <;> simp [flagErase]

/-- `parse_string_literal` on the flag-erased token. -/
theorem strParts_flag (c : Bytes) (esc : Bool) : strParts c (esc || !c.contains lbrace) = strParts c esc := by
  unfold strParts
  cases h : c.contains lbrace <;> simp

/-- Comparison with a token that is no string. -/
theorem flagErase_beq (t c : Tok) (hc : isStrTok c = false) : (flagErase t == c) = (t == c) := by
  cases t <;> try rfl
  rw [Bool.eq_iff_iff]
  cases c <;> simp [flagErase, isStrTok] at hc ⊢

theorem sameKind_flag (t : Tok) : sameKind (flagErase t) = sameKind t := by
  funext x
  cases t <;> try rfl
  cases x <;> rfl

@[simp] theorem isSync_flag (t : Tok) : isSync (flagErase t) = isSync t := by
  simp [isSync, kindIn, sameKind_flag]
@[simp] theorem isStmtStart_flag (t : Tok) : isStmtStart (flagErase t) = isStmtStart t := by
  simp [isStmtStart, kindIn, sameKind_flag]
@[simp] theorem isBlockStop_flag (t : Tok) : isBlockStop (flagErase t) = isBlockStop t := by
  simp [isBlockStop, kindIn, sameKind_flag]

@[simp] theorem binInfo_flag (t : Tok) : binInfo (flagErase t) = binInfo t := by
  cases t <;> rfl

@[simp] theorem unaryInfo_flag (t : Tok) : unaryInfo (flagErase t) = unaryInfo t := by
  cases t <;> rfl

@[simp] theorem isReserved_flag (t : Tok) : (flagErase t).isReserved = t.isReserved := by
  cases t <;> rfl

/-! ### State primitives -/

@[simp] theorem flagTok_tok (t : SpTok) : (flagTok t).tok = flagErase t.tok := rfl
@[simp] theorem flagTok_span (t : SpTok) : (flagTok t).span = t.span := rfl
@[simp] theorem flagSt_cur (st : PState) : (flagSt st).cur = flagTok st.cur := rfl
@[simp] theorem flagSt_rest (st : PState) : (flagSt st).rest = st.rest.map flagTok := rfl
@[simp] theorem flagSt_errs (st : PState) : (flagSt st).errs = st.errs := rfl

@[simp] theorem flagTok_eofAt (p : Nat) : flagTok (eofAt p) = eofAt p := rfl

@[simp] theorem flagSt_bump (st : PState) : flagSt st.bump = (flagSt st).bump := by
  unfold PState.bump
  cases h : st.rest with
  | nil => simp [flagSt, h]
  | cons t ts => simp [flagSt, h]

@[simp] theorem flagSt_err (st : PState) (k : DiagKind) (sp : Span) (labels : List Span) :
    flagSt (st.err k sp labels) = (flagSt st).err k sp labels := rfl

@[simp] theorem flagSt_err1 (st : PState) (k : DiagKind) (sp : Span) :
    flagSt (st.err1 k sp) = (flagSt st).err1 k sp := rfl

@[simp] theorem flagSt_take (st : PState) : flagSt st.take = (flagSt st).take := rfl

theorem flagSt_expect (st : PState) (t : Tok) (ht : isStrTok t = false) (k : DiagKind) (sp : Span) :
    flagSt (st.expect t k sp) = (flagSt st).expect t k sp := by
  unfold PState.expect
  simp only [flagSt_cur, flagTok_tok, flagErase_beq _ t ht]
  by_cases h : (st.cur.tok == t) = true <;> simp [h]

theorem syncGo_flag : ∀ (rest : List SpTok) (cur : SpTok),
    syncGo (flagTok cur) (rest.map flagTok)
      = (flagTok (syncGo cur rest).1, (syncGo cur rest).2.map flagTok) := by
  intro rest
  induction rest with
  | nil => intro cur; by_cases h : isSync cur.tok = true <;> simp [syncGo, h]
  | cons t ts ih =>
    intro cur
    by_cases h : isSync cur.tok = true <;> simp [syncGo, h, ih]

@[simp] theorem flagSt_sync (st : PState) : flagSt st.sync = (flagSt st).sync := by
  simp [PState.sync, flagSt, syncGo_flag]

theorem flagSt_init (toks : List SpTok) : flagSt (PState.init toks) = PState.init (toks.map flagTok) := by
  cases toks <;> rfl

/-! ### Expression helpers -/

@[simp] theorem atomOf_flag (t : SpTok) : atomOf (flagTok t) = atomOf t := by
  obtain ⟨tok, sp⟩ := t
  cases tok <;> simp only [atomOf, flagTok, flagErase, strParts_flag]

theorem parseField_flag (st : PState) :
    parseField (flagSt st) = ((parseField st).1, (parseField st).2.1, flagSt (parseField st).2.2) := by
  unfold parseField
  simp only [flagSt_cur, flagTok_tok, flagTok_span]
  cases h : st.cur.tok <;> simp [flagErase, Tok.isReserved]

theorem closeBracket_flag (st : PState) :
    closeBracket (flagSt st) = ((closeBracket st).1, flagSt (closeBracket st).2) := by
  unfold closeBracket
  simp only [flagSt_cur, flagTok_tok, flagTok_span, flagErase_beq _ Tok.rbracket rfl]
  by_cases h : (st.cur.tok == Tok.rbracket) = true <;> simp [h]

/-- The result map of the expression parsers: the tree is untouched. -/
abbrev flE (r : Expr × PState) : Expr × PState := (r.1, flagSt r.2)
abbrev flEs (r : List Expr × PState) : List Expr × PState := (r.1, flagSt r.2)

theorem ite_elems_flag (c : Prop) [Decidable c] (st : PState) (o : Option (List Expr × PState)) :
    (if c then some ([], flagSt st) else Option.map flEs o)
      = Option.map flEs (if c then some ([], st) else o) := by
  split <;> simp

/-- Normalise the flag-erased side: `flagSt` moves outward over the state operations, the questions asked
of the current token are answered by the un-erased token. -/
macro "flag_out" "[" ts:Lean.Parser.Tactic.simpLemma,* "]" : tactic =>
  `(tactic| simp only [flagSt_cur, flagTok_tok, flagTok_span, atomOf_flag, binInfo_flag, unaryInfo_flag,
      isBlockStop_flag, isStmtStart_flag,
      flagErase_beq _ Tok.dot rfl, flagErase_beq _ Tok.lparen rfl, flagErase_beq _ Tok.rparen rfl,
      flagErase_beq _ Tok.lbracket rfl, flagErase_beq _ Tok.rbracket rfl, flagErase_beq _ Tok.comma rfl,
      flagErase_beq _ Tok.get rfl, flagErase_beq _ Tok.end rfl, flagErase_beq _ Tok.eof rfl,
      flagErase_beq _ Tok.ifNotSo rfl,
      Option.map_some, Option.map_none, ← flagSt_bump, ← flagSt_take, ← flagSt_sync, ← flagSt_err1,
      ← flagSt_expect _ Tok.rparen rfl, ← flagSt_expect _ Tok.lparen rfl, ← flagSt_expect _ Tok.start rfl,
      ← flagSt_expect _ Tok.end rfl,
      parseField_flag, closeBracket_flag, ite_elems_flag, ↓reduceIte, Bool.false_eq_true, $ts,*, *])

theorem elems_step_flag (f : Nat)
    (ihe : ∀ bp st, parseExpr f bp (flagSt st) = (parseExpr f bp st).map flE)
    (ihl : ∀ c st, isStrTok c = false → parseElems f c (flagSt st) = (parseElems f c st).map flEs) :
    ∀ c st, isStrTok c = false → parseElems (f+1) c (flagSt st) = (parseElems (f+1) c st).map flEs := by
  intro c st hc
  have ihl' := fun st => ihl c st hc
  cases h : parseElems (f+1) c st with
  | none =>
    rw [parseElems] at h ⊢
    psplit h
    all_goals (try flag_out [ihe, ihl', flagErase_beq _ c hc])
    all_goals grind
  | some r =>
    obtain ⟨r1, r2⟩ := r
    rw [parseElems] at h ⊢
    psplit h
    all_goals (try flag_out [ihe, ihl', flagErase_beq _ c hc])
    all_goals grind

theorem cont_step_flag (f : Nat)
    (ihe : ∀ bp st, parseExpr f bp (flagSt st) = (parseExpr f bp st).map flE)
    (ihc : ∀ bp l st, parseCont f bp l (flagSt st) = (parseCont f bp l st).map flE)
    (ihl : ∀ c st, isStrTok c = false → parseElems f c (flagSt st) = (parseElems f c st).map flEs) :
    ∀ bp l st, parseCont (f+1) bp l (flagSt st) = (parseCont (f+1) bp l st).map flE := by
  intro bp l st
  have ihl1 := fun st => ihl .rparen st rfl
  have ihl2 := fun st => ihl .rbracket st rfl
  cases h : parseCont (f+1) bp l st with
  | none =>
    rw [parseCont] at h ⊢
    psplit h
    all_goals (try flag_out [ihe, ihc, ihl1, ihl2])
    all_goals grind
  | some r =>
    obtain ⟨r1, r2⟩ := r
    rw [parseCont] at h ⊢
    psplit h
    all_goals (try flag_out [ihe, ihc, ihl1, ihl2])
    all_goals grind

theorem expr_step_flag (f : Nat)
    (ihe : ∀ bp st, parseExpr f bp (flagSt st) = (parseExpr f bp st).map flE)
    (ihc : ∀ bp l st, parseCont f bp l (flagSt st) = (parseCont f bp l st).map flE)
    (ihl : ∀ c st, isStrTok c = false → parseElems f c (flagSt st) = (parseElems f c st).map flEs) :
    ∀ bp st, parseExpr (f+1) bp (flagSt st) = (parseExpr (f+1) bp st).map flE := by
  intro bp st
  have ihl1 := fun st => ihl .rparen st rfl
  have ihl2 := fun st => ihl .rbracket st rfl
  cases h : parseExpr (f+1) bp st with
  | none =>
    rw [parseExpr] at h ⊢
    psplit h
    all_goals (try flag_out [ihe, ihc, ihl1, ihl2])
    all_goals grind
  | some r =>
    obtain ⟨r1, r2⟩ := r
    rw [parseExpr] at h ⊢
    psplit h
    all_goals (try flag_out [ihe, ihc, ihl1, ihl2])
    all_goals grind

/-- Expression parsing does not see `flagErase`. -/
theorem expr_flag : ∀ f,
    (∀ bp st, parseExpr f bp (flagSt st) = (parseExpr f bp st).map fun r => (r.1, flagSt r.2)) ∧
    (∀ bp l st, parseCont f bp l (flagSt st) = (parseCont f bp l st).map fun r => (r.1, flagSt r.2)) ∧
    (∀ c st, isStrTok c = false →
      parseElems f c (flagSt st) = (parseElems f c st).map fun r => (r.1, flagSt r.2)) := by
  intro f
  induction f with
  | zero => simp [parseExpr, parseCont, parseElems]
  | succ f ih =>
    obtain ⟨ihe, ihc, ihl⟩ := ih
    exact ⟨expr_step_flag f ihe ihc ihl, cont_step_flag f ihe ihc ihl, elems_step_flag f ihe ihl⟩

/-! ### Statement helpers -/

theorem nameOrPlaceholder_flag (st : PState) (sp : Span) :
    nameOrPlaceholder (flagSt st) sp = ((nameOrPlaceholder st sp).1, flagSt (nameOrPlaceholder st sp).2) := by
  unfold nameOrPlaceholder
  simp only [flagSt_cur, flagTok_tok, flagTok_span]
  cases h : st.cur.tok <;> simp [flagErase, Tok.isReserved]

theorem paramStep_flag (st : PState) :
    paramStep (flagSt st) = (paramStep st).map (fun r => (r.1, flagSt r.2)) := by
  unfold paramStep
  simp only [flagSt_cur, flagTok_tok, flagTok_span]
  cases h : st.cur.tok <;> simp [flagErase, Tok.isReserved]

theorem paramStep_flag' (cur : SpTok) (rest : List SpTok) (errs : List Diag) :
    paramStep ⟨flagTok cur, rest.map flagTok, errs⟩
      = (paramStep ⟨cur, rest, errs⟩).map (fun r => (r.1, flagSt r.2)) :=
  paramStep_flag ⟨cur, rest, errs⟩

theorem paramsGo_flag (cur : SpTok) (errs : List Diag) (rest : List SpTok) :
    paramsGo (flagTok cur) errs (rest.map flagTok)
      = ((paramsGo cur errs rest).1, flagSt (paramsGo cur errs rest).2) := by
  fun_induction paramsGo cur errs rest with
  | case1 cur errs h =>
    have := paramStep_flag' cur [] errs
    simp [h] at this
    simp [paramsGo, this, flagSt]
  | case2 cur errs p st h =>
    have := paramStep_flag' cur [] errs
    simp [h] at this
    simp [paramsGo, this]
  | case3 cur errs t h =>
    have := paramStep_flag' cur [t] errs
    simp [h] at this
    simp [paramsGo, this, flagSt]
  | case4 cur errs t p st h st1 hcomma =>
    have := paramStep_flag' cur [t] errs
    simp [h] at this
    have hc : ((flagSt st).bump.cur.tok == Tok.comma) = true := by
      rw [← flagSt_bump, flagSt_cur, flagTok_tok, flagErase_beq _ Tok.comma rfl]; exact hcomma
    simp [paramsGo, this, hc, st1]
  | case5 cur errs t p st h st1 hcomma =>
    have := paramStep_flag' cur [t] errs
    simp [h] at this
    have hc : ¬ ((flagSt st).bump.cur.tok == Tok.comma) = true := by
      rw [← flagSt_bump, flagSt_cur, flagTok_tok, flagErase_beq _ Tok.comma rfl]; exact hcomma
    simp [paramsGo, this, hc, st1]
  | case6 cur errs t u us h =>
    have := paramStep_flag' cur (t :: u :: us) errs
    simp [h] at this
    simp [paramsGo, this, flagSt]
  | case7 cur errs t u us p st h hcomma r ih =>
    have := paramStep_flag' cur (t :: u :: us) errs
    simp [h] at this
    simp [paramsGo, this, hcomma, ih, r, flagErase_beq _ Tok.comma rfl]
  | case8 cur errs t u us p st h hcomma =>
    have := paramStep_flag' cur (t :: u :: us) errs
    simp [h] at this
    simp [paramsGo, this, hcomma, flagErase_beq _ Tok.comma rfl]

theorem parseParams_flag (st : PState) :
    parseParams (flagSt st) = ((parseParams st).1, flagSt (parseParams st).2) :=
  paramsGo_flag st.cur st.errs st.rest

theorem parseFnHeader_flag (start : Nat) (st : PState) :
    parseFnHeader start (flagSt st) = ((parseFnHeader start st).1, flagSt (parseFnHeader start st).2) := by
  unfold parseFnHeader
  simp only [flagSt_cur, flagTok_span, ← flagSt_bump]
  rw [nameOrPlaceholder_flag st.bump st.cur.span]
  generalize nameOrPlaceholder st.bump st.cur.span = q
  obtain ⟨name, s2⟩ := q
  simp only [← flagSt_bump, flagSt_cur, flagTok_span, ← flagSt_expect _ Tok.lparen rfl]
  rw [parseParams_flag]
  generalize parseParams (s2.bump.expect .lparen .expectedLParen ⟨start, st.bump.cur.span.hi⟩) = q
  obtain ⟨ps, s4⟩ := q
  simp only [flagSt_cur, flagTok_span, ← flagSt_expect _ Tok.rparen rfl, ← flagSt_expect _ Tok.start rfl]

theorem parseMakeHeader_flag (st : PState) :
    parseMakeHeader (flagSt st)
      = ((parseMakeHeader st).1, (parseMakeHeader st).2.1, flagSt (parseMakeHeader st).2.2) := by
  unfold parseMakeHeader
  simp only [← flagSt_bump, flagSt_cur, flagTok_tok, flagTok_span]
  cases h : st.bump.cur.tok <;> simp [flagErase, Tok.isReserved]

theorem openCond_flag (sp : Span) (st : PState) : openCond sp (flagSt st) = flagSt (openCond sp st) := by
  simp [openCond, flagSt_expect _ Tok.lparen rfl]

theorem closeCond_flag (start : Nat) (c : Expr) (st : PState) :
    closeCond start c (flagSt st) = ((closeCond start c st).1, flagSt (closeCond start c st).2) := by
  unfold closeCond
  simp only [flagSt_cur, flagTok_span, ← flagSt_expect _ Tok.rparen rfl, ← flagSt_expect _ Tok.start rfl]

theorem finishAssign_flag (start : Nat) (t v : Expr) (st : PState) :
    finishAssign start t v (flagSt st) = ((finishAssign start t v st).1, flagSt (finishAssign start t v st).2) := by
  unfold finishAssign
  cases t <;> simp

/-! ### Statements -/

abbrev flS (r : Stmt × PState) : Stmt × PState := (r.1, flagSt r.2)
abbrev flSs (r : List Stmt × PState) : List Stmt × PState := (r.1, flagSt r.2)
abbrev flB (r : Block × PState) : Block × PState := (r.1, flagSt r.2)

theorem stmt_step_flag (f : Nat)
    (ihb : ∀ st, parseBlock f (flagSt st) = (parseBlock f st).map flB) :
    ∀ st, parseStmt (f+1) (flagSt st) = (parseStmt (f+1) st).map flS := by
  intro st
  have ihe : ∀ bp st, parseExpr f bp (flagSt st) = (parseExpr f bp st).map flE := (expr_flag f).1
  have ihc : ∀ bp l st, parseCont f bp l (flagSt st) = (parseCont f bp l st).map flE := (expr_flag f).2.1
  cases hs : isStrTok st.cur.tok with
  | true =>
    -- a string token starts no statement: the recovery arm, on both sides
    obtain ⟨c, e, hce⟩ : ∃ c e, st.cur.tok = .str c e := by
      cases ht : st.cur.tok <;> simp_all [isStrTok]
    rw [parseStmt, parseStmt]
    simp only [flagSt_cur, flagTok_tok, flagTok_span, hce, flagErase, Option.map_some, ← flagSt_err1,
      ← flagSt_bump, ← flagSt_sync]
  | false =>
    have hcur : flagErase st.cur.tok = st.cur.tok := flagErase_of_not_str hs
    cases h : parseStmt (f+1) st with
    | none =>
      rw [parseStmt] at h ⊢
      simp only [flagSt_cur, flagTok_tok, hcur]
      psplit h
      all_goals (try flag_out [ihe, ihc, ihb, parseFnHeader_flag, parseMakeHeader_flag,
        openCond_flag, closeCond_flag, finishAssign_flag])
      all_goals grind
    | some r =>
      obtain ⟨r1, r2⟩ := r
      rw [parseStmt] at h ⊢
      simp only [flagSt_cur, flagTok_tok, hcur]
      psplit h
      all_goals (try flag_out [ihe, ihc, ihb, parseFnHeader_flag, parseMakeHeader_flag,
        openCond_flag, closeCond_flag, finishAssign_flag])
      all_goals grind

theorem stmts_step_flag (f : Nat)
    (ihs : ∀ st, parseStmt f (flagSt st) = (parseStmt f st).map flS)
    (ihl : ∀ st, parseStmts f (flagSt st) = (parseStmts f st).map flSs) :
    ∀ st, parseStmts (f+1) (flagSt st) = (parseStmts (f+1) st).map flSs := by
  intro st
  cases h : parseStmts (f+1) st with
  | none =>
    rw [parseStmts] at h ⊢
    psplit h
    all_goals (try flag_out [ihs, ihl])
    all_goals grind
  | some r =>
    obtain ⟨r1, r2⟩ := r
    rw [parseStmts] at h ⊢
    psplit h
    all_goals (try flag_out [ihs, ihl])
    all_goals grind

theorem block_step_flag (f : Nat)
    (ihl : ∀ st, parseStmts f (flagSt st) = (parseStmts f st).map flSs) :
    ∀ st, parseBlock (f+1) (flagSt st) = (parseBlock (f+1) st).map flB := by
  intro st
  cases h : parseBlock (f+1) st with
  | none =>
    rw [parseBlock] at h ⊢
    psplit h
    all_goals (try flag_out [ihl])
    all_goals grind
  | some r =>
    obtain ⟨r1, r2⟩ := r
    rw [parseBlock] at h ⊢
    psplit h
    all_goals (try flag_out [ihl])
    all_goals grind

/-- Statement parsing does not see `flagErase`. -/
theorem stmt_flag : ∀ f,
    (∀ st, parseStmt f (flagSt st) = (parseStmt f st).map fun r => (r.1, flagSt r.2)) ∧
    (∀ st, parseStmts f (flagSt st) = (parseStmts f st).map fun r => (r.1, flagSt r.2)) ∧
    (∀ st, parseBlock f (flagSt st) = (parseBlock f st).map fun r => (r.1, flagSt r.2)) := by
  intro f
  induction f with
  | zero => simp [parseStmt, parseStmts, parseBlock]
  | succ f ih =>
    obtain ⟨ihs, ihl, ihb⟩ := ih
    exact ⟨stmt_step_flag f ihb, stmts_step_flag f ihs ihl, block_step_flag f ihl⟩

/-- The top-level statement loop does not see `flagErase`. -/
theorem top_flag : ∀ f st, parseTopStmts f (flagSt st)
    = (parseTopStmts f st).map (fun r => (r.1, flagSt r.2)) := by
  intro f
  induction f with
  | zero => simp [parseTopStmts]
  | succ f ih =>
    intro st
    have ihs : ∀ st, parseStmt f (flagSt st) = (parseStmt f st).map flS := (stmt_flag f).1
    cases h : parseTopStmts (f+1) st with
    | none =>
      rw [parseTopStmts] at h ⊢
      psplit h
      all_goals (try flag_out [ihs, ih])
      all_goals grind
    | some r =>
      obtain ⟨r1, r2⟩ := r
      rw [parseTopStmts] at h ⊢
      psplit h
      all_goals (try flag_out [ihs, ih])
      all_goals grind

/-! ### Programs -/

/-- `parse_program` with explicit fuel on the flag-erased tokens: the same tree, the same diagnostics
(for every fuel, including too little). -/
theorem parseProgramFuel_flag (f : Nat) (toks : List SpTok) :
    parseProgramFuel f (toks.map flagTok) = parseProgramFuel f toks := by
  unfold parseProgramFuel
  simp only [← flagSt_init, top_flag]
  cases h : parseTopStmts f (PState.init toks) with
  | none => simp
  | some r =>
    obtain ⟨ss, st1⟩ := r
    have hne : (flagErase st1.cur.tok != Tok.eof) = (st1.cur.tok != Tok.eof) := by
      simp only [bne, flagErase_beq _ Tok.eof rfl]
    by_cases hc : (st1.cur.tok != Tok.eof) = true <;>
      simp [hc, hne, PState.err]

theorem fuelFor_flag (toks : List SpTok) : fuelFor (toks.map flagTok) = fuelFor toks := by
  simp [fuelFor]

/-- **The parser does not read the `escaped` flag of a string token without `{`**: `parse_program` on
the flag-erased tokens gives the same tree and the same diagnostics. -/
theorem parseProgram_flag (toks : List SpTok) : parseProgram (toks.map flagTok) = parseProgram toks := by
  unfold parseProgram
  rw [fuelFor_flag, parseProgramFuel_flag]

end NaijaVerif.Parse
