/-
Read faults (C16): a reader thread that has finished — with `Ok` or with `Err` — stays as it is for
the rest of the execution, and an `ok` result is produced only when both reader threads have
finished with `Ok`.  Together: an execution in which a `read` of a captured stream fails never ends
in a result.
-/
import NaijaVerif.Lemmas.Capture
namespace NaijaVerif.Capture
set_option linter.unusedSimpArgs false

theorem Side.write_rd {pipeCap n} {d d' : Side} (h : Side.write pipeCap d n = some d') : d'.rd = d.rd := by
  obtain ⟨pending, written, pipe, acc, rd, wopen⟩ := d
  simp only [Side.write] at h
  split at h
  · cases h
  · cases rd <;> simp at h
    · subst h; rfl
    · obtain ⟨_, rfl⟩ := h; rfl
    · obtain ⟨_, rfl⟩ := h; rfl

theorem Side.drop_rd {n} {d d' : Side} (h : Side.drop d n = some d') : d'.rd = d.rd := by
  obtain ⟨pending, written, pipe, acc, rd, wopen⟩ := d
  simp only [Side.drop] at h
  split at h
  · cases h
  · cases rd <;> simp at h <;> (subst h; rfl)

theorem Side.close_rd {d d' : Side} (h : Side.close d = some d') : d'.rd = d.rd := by
  unfold Side.close at h
  split at h <;> cases h
  rfl

theorem Side.read_unfinished {chunk} {d d' : Side} (h : Side.read chunk d = some d') : d.finished = false := by
  unfold Side.read at h; unfold Side.finished
  cases hrd : d.rd <;> simp [hrd] at h ⊢

theorem Side.eof_unfinished {al} {d d' : Side} (h : Side.eof al d = some d') : d.finished = false := by
  unfold Side.eof at h; unfold Side.finished
  cases hrd : d.rd <;> simp [hrd] at h ⊢

theorem Side.fail_unfinished {d d' : Side} (h : Side.fail d = some d') :
    d.finished = false ∧ d'.rd = .failed := by
  unfold Side.fail at h; unfold Side.finished
  cases hrd : d.rd <;> simp [hrd] at h ⊢
  subst h; rfl

theorem Side.check_unfinished {cap my flag} {d d' : Side} {f' : Nat}
    (h : Side.check cap my flag d = some (d', f')) : d.finished = false := by
  unfold Side.check at h; unfold Side.finished
  cases hrd : d.rd <;> simp [hrd] at h ⊢

theorem stepMain_sides {cfg : Cfg} {s s' : State} (h : stepMain cfg s = some s') :
    s'.o = s.o ∧ s'.e = s.e := by
  cases hpc : s.pc <;> simp only [stepMain, hpc] at h
  all_goals (repeat' split at h)
  all_goals (first | (cases h; exact ⟨rfl, rfl⟩) | cases h)

/-- **A finished reader thread stays as it is**: no step changes the reader state of a side whose
thread has ended. -/
theorem step_finished_stable {cfg : Cfg} {plan : Plan} {s s' : State} {l : Label} (x : Strm)
    (hs : step cfg plan s l = some s') (hf : (s.side x).finished = true) :
    (s'.side x).rd = (s.side x).rd := by
  have side_set_same : ∀ (y : Strm) (d : Side), y = x → d.rd = (s.side x).rd → ((s.setSide y d).side x).rd = (s.side x).rd := by
    intro y d hy hd; subst hy; cases y <;> simpa [State.setSide, State.side] using hd
  have side_set_other : ∀ (y : Strm) (d : Side), y ≠ x → ((s.setSide y d).side x) = s.side x := by
    intro y d hy; cases y <;> cases x <;> simp_all [State.setSide, State.side]
  cases l with
  | childWrite y n =>
    simp only [step] at hs
    split at hs
    · simp only [Option.map_eq_some_iff] at hs
      obtain ⟨d, hd, rfl⟩ := hs
      by_cases hy : y = x
      · exact side_set_same y d hy (by rw [Side.write_rd hd, hy])
      · rw [side_set_other y d hy]
    · cases hs
  | childDrop y n =>
    simp only [step] at hs
    split at hs
    · simp only [Option.map_eq_some_iff] at hs
      obtain ⟨d, hd, rfl⟩ := hs
      by_cases hy : y = x
      · exact side_set_same y d hy (by rw [Side.drop_rd hd, hy])
      · rw [side_set_other y d hy]
    · cases hs
  | childClose y =>
    simp only [step] at hs
    split at hs
    · simp only [Option.map_eq_some_iff] at hs
      obtain ⟨d, hd, rfl⟩ := hs
      by_cases hy : y = x
      · exact side_set_same y d hy (by rw [Side.close_rd hd, hy])
      · rw [side_set_other y d hy]
    · cases hs
  | childSigpipe y =>
    simp only [step] at hs
    split at hs <;> cases hs
    cases x <;> rfl
  | childEnd =>
    simp only [step] at hs
    split at hs
    · split at hs <;> cases hs
      cases x <;> rfl
    · cases hs
  | rdRead y =>
    simp only [step, Option.map_eq_some_iff] at hs
    obtain ⟨d, hd, rfl⟩ := hs
    by_cases hy : y = x
    · subst hy; rw [Side.read_unfinished hd] at hf; cases hf
    · rw [side_set_other y d hy]
  | rdEof y =>
    simp only [step, Option.map_eq_some_iff] at hs
    obtain ⟨d, hd, rfl⟩ := hs
    by_cases hy : y = x
    · subst hy; rw [Side.eof_unfinished hd] at hf; cases hf
    · rw [side_set_other y d hy]
  | rdFail y =>
    simp only [step, Option.map_eq_some_iff] at hs
    obtain ⟨d, hd, rfl⟩ := hs
    by_cases hy : y = x
    · subst hy; rw [(Side.fail_unfinished hd).1] at hf; cases hf
    · rw [side_set_other y d hy]
  | rdCheck y =>
    simp only [step, Option.map_eq_some_iff] at hs
    obtain ⟨⟨d, f⟩, hd, rfl⟩ := hs
    by_cases hy : y = x
    · subst hy; rw [Side.check_unfinished hd] at hf; cases hf
    · have := side_set_other y d hy
      cases y <;> cases x <;> simp_all [State.setSide, State.side]
  | wrWrite n =>
    simp only [step, Option.map_eq_some_iff] at hs
    obtain ⟨i, _, rfl⟩ := hs
    cases x <;> rfl
  | wrEnd =>
    simp only [step, Option.map_eq_some_iff] at hs
    obtain ⟨i, _, rfl⟩ := hs
    cases x <;> rfl
  | wrEpipe =>
    simp only [step, Option.map_eq_some_iff] at hs
    obtain ⟨i, _, rfl⟩ := hs
    cases x <;> rfl
  | wrFail =>
    simp only [step, Option.map_eq_some_iff] at hs
    obtain ⟨i, _, rfl⟩ := hs
    cases x <;> rfl
  | childRead n =>
    simp only [step] at hs
    split at hs
    · simp only [Option.map_eq_some_iff] at hs
      obtain ⟨i, _, rfl⟩ := hs
      cases x <;> rfl
    · cases hs
  | childCloseIn =>
    simp only [step] at hs
    split at hs
    · simp only [Option.map_eq_some_iff] at hs
      obtain ⟨i, _, rfl⟩ := hs
      cases x <;> rfl
    · cases hs
  | main =>
    simp only [step] at hs
    obtain ⟨ho, he⟩ := stepMain_sides hs
    cases x <;> simp [State.side, ho, he]
  | tick =>
    simp only [step] at hs
    split at hs <;> cases hs
    cases x <;> rfl

theorem Side.finished_of_rd_eq {d d' : Side} (h : d'.rd = d.rd) (hf : d.finished = true) :
    d'.finished = true := by
  unfold Side.finished at hf ⊢; rw [h]; exact hf

/-- A failed reader stays failed to the end of the execution. -/
theorem run_failed_stable {cfg : Cfg} {plan : Plan} {ls : List Label} {s s' : State} (x : Strm)
    (hr : run cfg plan s ls = some s') (hf : (s.side x).rd = .failed) : (s'.side x).rd = .failed := by
  induction ls generalizing s with
  | nil => simp [run] at hr; subst hr; exact hf
  | cons l ls ih =>
    simp only [run] at hr
    split at hr
    · next s₁ hs =>
      refine ih hr ?_
      rw [step_finished_stable x hs (by simp [Side.finished, hf]), hf]
    · cases hr

/-- After a `rdFail x` anywhere in the execution the reader of `x` is in the failed state at the end. -/
theorem run_failed_of_mem {cfg : Cfg} {plan : Plan} {ls : List Label} {s s' : State} {x : Strm}
    (hr : run cfg plan s ls = some s') (hm : Label.rdFail x ∈ ls) : (s'.side x).rd = .failed := by
  induction ls generalizing s with
  | nil => cases hm
  | cons l ls ih =>
    simp only [run] at hr
    split at hr
    · next s₁ hs =>
      rcases List.mem_cons.mp hm with hm | hm
      · subst hm
        refine run_failed_stable x hr ?_
        simp only [step, Option.map_eq_some_iff] at hs
        obtain ⟨d, hd, rfl⟩ := hs
        cases x <;> simp [State.setSide, State.side, (Side.fail_unfinished hd).2]
      · exact ih hr hm
    · cases hr

/-- An `ok` result exists only with both reader threads finished with `Ok` (or absent). -/
def OkJoined (s : State) : Prop :=
  ∀ st o e, s.pc = .done (.ok st o e) → s.o.joined = true ∧ s.e.joined = true

theorem Side.joined_of_rd_eq {d d' : Side} (h : d'.rd = d.rd) (hf : d.joined = true) :
    d'.joined = true := by
  unfold Side.joined at hf ⊢; rw [h]; exact hf

theorem stepMain_done_ok {cfg plan} {s s' : State} (hi : Inv cfg plan s)
    (hs : stepMain cfg s = some s') {st o e} (hd : s'.pc = .done (.ok st o e)) :
    s.o.joined = true ∧ s.e.joined = true := by
  have hp := hi.pcInv
  unfold PcInv at hp
  cases hpc : s.pc <;> simp only [stepMain, hpc] at hs hp
  all_goals (repeat' split at hs)
  all_goals (first | (cases hs; simp at hd; done) | (cases hs; done) | skip)
  all_goals cases hs
  all_goals simp_all [Side.joined]

theorem OkJoined.step {cfg plan} {s s' : State} {l : Label} (hi : Inv cfg plan s) (h : OkJoined s)
    (hs : Capture.step cfg plan s l = some s') : OkJoined s' := by
  intro st o e hd
  by_cases hm : l = .main
  · subst hm
    simp only [Capture.step] at hs
    obtain ⟨ho, he⟩ := stepMain_sides hs
    by_cases hpc : s.pc = .done (.ok st o e)
    · simp [stepMain, hpc] at hs
    · rw [ho, he]
      exact stepMain_done_ok hi hs hd
  · have hpc : s'.pc = s.pc := by
      cases l with
      | main => exact absurd rfl hm
      | tick =>
        simp only [Capture.step] at hs
        split at hs <;> cases hs
        rfl
      | childEnd =>
        simp only [Capture.step] at hs
        split at hs
        · split at hs <;> cases hs
          rfl
        · cases hs
      | childSigpipe x =>
        simp only [Capture.step] at hs
        split at hs <;> cases hs
        rfl
      | childWrite x n =>
        simp only [Capture.step] at hs
        split at hs
        · simp only [Option.map_eq_some_iff] at hs
          obtain ⟨d, _, rfl⟩ := hs
          cases x <;> rfl
        · cases hs
      | childDrop x n =>
        simp only [Capture.step] at hs
        split at hs
        · simp only [Option.map_eq_some_iff] at hs
          obtain ⟨d, _, rfl⟩ := hs
          cases x <;> rfl
        · cases hs
      | childClose x =>
        simp only [Capture.step] at hs
        split at hs
        · simp only [Option.map_eq_some_iff] at hs
          obtain ⟨d, _, rfl⟩ := hs
          cases x <;> rfl
        · cases hs
      | rdRead x =>
        simp only [Capture.step, Option.map_eq_some_iff] at hs
        obtain ⟨d, _, rfl⟩ := hs
        cases x <;> rfl
      | rdEof x =>
        simp only [Capture.step, Option.map_eq_some_iff] at hs
        obtain ⟨d, _, rfl⟩ := hs
        cases x <;> rfl
      | rdFail x =>
        simp only [Capture.step, Option.map_eq_some_iff] at hs
        obtain ⟨d, _, rfl⟩ := hs
        cases x <;> rfl
      | rdCheck x =>
        simp only [Capture.step, Option.map_eq_some_iff] at hs
        obtain ⟨d, _, rfl⟩ := hs
        cases x <;> rfl
      | wrWrite n =>
        simp only [Capture.step, Option.map_eq_some_iff] at hs
        obtain ⟨i, _, rfl⟩ := hs
        rfl
      | wrEnd =>
        simp only [Capture.step, Option.map_eq_some_iff] at hs
        obtain ⟨i, _, rfl⟩ := hs
        rfl
      | wrEpipe =>
        simp only [Capture.step, Option.map_eq_some_iff] at hs
        obtain ⟨i, _, rfl⟩ := hs
        rfl
      | wrFail =>
        simp only [Capture.step, Option.map_eq_some_iff] at hs
        obtain ⟨i, _, rfl⟩ := hs
        rfl
      | childRead n =>
        simp only [Capture.step] at hs
        split at hs
        · simp only [Option.map_eq_some_iff] at hs
          obtain ⟨i, _, rfl⟩ := hs
          rfl
        · cases hs
      | childCloseIn =>
        simp only [Capture.step] at hs
        split at hs
        · simp only [Option.map_eq_some_iff] at hs
          obtain ⟨i, _, rfl⟩ := hs
          rfl
        · cases hs
    obtain ⟨hjo, hje⟩ := h st o e (hpc ▸ hd)
    have h1 := step_finished_stable .out hs (Side.finished_of_joined hjo)
    have h2 := step_finished_stable .err hs (Side.finished_of_joined hje)
    exact ⟨Side.joined_of_rd_eq h1 hjo, Side.joined_of_rd_eq h2 hje⟩

theorem OkJoined.run {cfg plan} {s s' : State} {ls : List Label} (hi : Inv cfg plan s)
    (h : OkJoined s) (hr : Capture.run cfg plan s ls = some s') : OkJoined s' := by
  induction ls generalizing s with
  | nil => simp [Capture.run] at hr; exact hr ▸ h
  | cons l ls ih =>
    simp only [Capture.run] at hr
    split at hr
    · next s₁ hs => exact ih (hi.step hs) (h.step hi hs) hr
    · cases hr

theorem OkJoined.init (cfg : Cfg) (plan : Plan) : OkJoined (init cfg plan) := by
  intro st o e h; simp [Capture.init] at h

end NaijaVerif.Capture
