import NaijaVerif.Lemmas.AnalysisLiveSim
/-
Statement level of the liveness simulation: `LSim P L n → LSim P L (n+1)`.
-/
namespace NaijaVerif.C03
open NaijaVerif NaijaVerif.Analysis NaijaVerif.AEval

variable {V : Type}

/-! ### Facts about the liveness model -/

theorem mem_foldl_uni {α : Type} (F : α → List Nat) {x : Nat} : ∀ (l : List α) (init : List Nat),
    x ∈ l.foldl (fun acc g => uni (F g) acc) init ↔ x ∈ init ∨ ∃ g ∈ l, x ∈ F g
  | [], init => by simp
  | g :: l, init => by
      simp only [List.foldl_cons]
      rw [mem_foldl_uni F l, mem_uni_iff]
      constructor
      · rintro ((h | h) | ⟨g', hg', h⟩)
        · exact Or.inr ⟨g, by simp, h⟩
        · exact Or.inl h
        · exact Or.inr ⟨g', List.mem_cons_of_mem _ hg', h⟩
      · rintro (h | ⟨g', hg', h⟩)
        · exact Or.inl (Or.inr h)
        · rcases List.mem_cons.mp hg' with rfl | hg'
          · exact Or.inl (Or.inl h)
          · exact Or.inr ⟨g', hg', h⟩

theorem mem_calleeReads {c : Ctx} {f i x : Nat} :
    x ∈ c.calleeReads f i ↔ ∃ g ∈ c.callees i, x ∈ c.transReads g ∧ c.owner x = some f := by
  simp only [Ctx.calleeReads]
  rw [mem_foldl_uni (fun g => (c.transReads g).filter (fun l => c.owner l == some f))]
  simp

theorem mem_transfer {c : Ctx} {f i x : Nat} {st : LS} :
    x ∈ (c.transfer f i st).live ↔ x ∈ c.reads i ∨ x ∈ c.calleeReads f i ∨ (x ∈ st.live ∧ x ∉ c.writes i) := by
  simp only [Ctx.transfer, mem_uni_iff, mem_dif_iff, or_assoc]


theorem lvStmt_if_none (c : Ctx) (f nl : Nat) (lc : LoopCtx) (cnd : Expr) (t : List Stmt) (ts : Span) (j : Nat) (sp : Span) (st : LS) :
    (lvStmt c f nl lc (.ifS cnd (.mk t ts) none (some j) sp) st).1 =
      c.transfer f j (boundary (uni
        (lvStmts c f nl { lc with kills := uni (c.scopeLocalsOf t) lc.kills } t (boundary (dif st.live (c.scopeLocalsOf t)))).1.live
        st.live)) := by
  simp only [lvStmt]
  try rfl

theorem lvStmt_if_some (c : Ctx) (f nl : Nat) (lc : LoopCtx) (cnd : Expr) (t e : List Stmt) (ts es : Span) (j : Nat) (sp : Span) (st : LS) :
    (lvStmt c f nl lc (.ifS cnd (.mk t ts) (some (.mk e es)) (some j) sp) st).1 =
      c.transfer f j (boundary (uni
        (lvStmts c f nl { lc with kills := uni (c.scopeLocalsOf t) lc.kills } t (boundary (dif st.live (c.scopeLocalsOf t)))).1.live
        (lvStmts c f nl { lc with kills := uni (c.scopeLocalsOf e) lc.kills } e (boundary (dif st.live (c.scopeLocalsOf e)))).1.live)) := by
  simp only [lvStmt]
  try rfl

theorem lvStmt_block (c : Ctx) (f nl : Nat) (lc : LoopCtx) (b : List Stmt) (bs : Span) (j : Nat) (sp : Span) (st : LS) :
    (lvStmt c f nl lc (.block (.mk b bs) (some j) sp) st).1 =
      c.transfer f j
        (lvStmts c f nl { lc with kills := uni (c.scopeLocalsOf b) lc.kills } b
          { live := uni (inter st.gen (c.scopeLocalsOf b)) (dif st.live (c.scopeLocalsOf b)), gen := st.gen }).1 := by
  simp only [lvStmt]
  try rfl

def loopHead (c : Ctx) (f nl j : Nat) (b : List Stmt) (a : List Nat) (x : List Nat) : List Nat :=
  (c.transfer f j (boundary (uni
    (lvStmts c f nl { brk := some a, cont := some x, kills := c.scopeLocalsOf b } b (boundary (dif x (c.scopeLocalsOf b)))).1.live a))).live

theorem lvStmt_loop (c : Ctx) (f nl : Nat) (lc : LoopCtx) (cnd : Expr) (b : List Stmt) (bs : Span) (j : Nat) (sp : Span) (st : LS) :
    (lvStmt c f nl lc (.loop cnd (.mk b bs) (some j) sp) st).1 =
      boundary (lfp (loopHead c f nl j b st.live) (nl + 1) []) := by
  simp only [lvStmt]
  try rfl

theorem lvStmts_cons (c : Ctx) (f nl : Nat) (lc : LoopCtx) (s : Stmt) (ss : List Stmt) (st : LS) :
    (lvStmts c f nl lc (s :: ss) st).1 = (lvStmt c f nl lc s (lvStmts c f nl lc ss st).1).1 := by
  simp only [lvStmts]

section helpers
variable {L : LSetup}

/-- A statement whose `writes` only repeats read variables: everything live after it is live before it. -/
theorem need_after {f i : Nat} {st : LS} {A : Nat → Prop} (hw : L.writesOkB i = true)
    (h : Need L (L.c.transfer f i st).live A) : Need L st.live A := by
  intro x hx hd
  refine h x (mem_transfer.mpr ?_) hd
  by_cases hwx : x ∈ L.c.writes i
  · exact Or.inl (subset_iff.mp hw x hwx)
  · exact Or.inr (Or.inr ⟨hx, hwx⟩)

theorem need_mono {l1 l2 : List Nat} {A : Nat → Prop} (hsub : ∀ x ∈ l1, x ∈ l2) (h : Need L l2 A) : Need L l1 A :=
  fun x hx hd => h x (hsub x hx) hd

/-- The context in which statement `i` evaluates its expressions. -/
theorem exprCtx_of (hs : LSetupOk L) {f i : Nat} {σ : SigM} {A : Nat → Prop} {st : LS}
    (hT : (i, true) ∈ L.T) (hfn : L.c.fnOf i = f) (hbr : L.BR f = true)
    (hn : Need L (L.c.transfer f i st).live A)
    (hm : ∀ p ∈ σ, ∀ l, p.2 l → (!L.c.live i || L.c.refFreeB l i) = true) : ExprCtx L f σ A i where
  aReads := by
    intro x hx
    exact hn x (mem_transfer.mpr (Or.inl hx)) ((hs.used i hT (by rw [hfn]; exact hbr)).1 x hx)
  aCallee := by
    intro g hg x hx hown
    exact hn x (mem_transfer.mpr (Or.inr (Or.inl (mem_calleeReads.mpr ⟨g, hg, hx, hown⟩))))
      ((hs.used i hT (by rw [hfn]; exact hbr)).2 g hg x hx)
  mOk := by
    intro p hp l hl
    have := hm p hp l hl
    rw [hs.liveT i hT] at this
    simpa using this
  inT := hT
  fn := hfn
  br := hbr

theorem actOk_tags {f : Nat} {σ σ' : SigM} {Γr : List Frame} (h : ActOk L f σ Γr) (ht : tagsOf σ' = tagsOf σ) :
    ActOk L f σ' Γr :=
  ⟨by rw [ht]; exact h.own, h.susp, by rw [ht]; exact h.nodup⟩

theorem base_parts {f i : Nat} {σ : List (Option Nat)} {es : List Expr} (h : L.baseB f σ i es = true) :
    L.c.fnOf i = f ∧ L.efitList f σ i es = true := by
  simpa [LSetup.baseB] using h

theorem other_dead (hs : LSetupOk L) {i : Nat} (hT : (i, true) ∈ L.T) (h : L.otherB i = true) : L.cfg.skip i = false := by
  cases hsk : L.cfg.skip i with
  | false => rfl
  | true =>
    simp only [LSetup.otherB, hsk, Bool.not_true, Bool.false_or, LSetup.deadB, Bool.and_eq_true] at h
    exact absurd (by simpa using h.1.1) (hs.func i hT)

end helpers

/-! ### Stores of the running activation -/

section stores
variable {L : LSetup}

/-- A kept declaration: both runs declare `l` in the innermost scope, which is the scope that declares `l`. -/
theorem erel_define_top {A : Nat → Prop} {tg l : Nat} {M : Nat → Prop} {σ : SigM} {Γr : List Frame} {v : V}
    {a b : List (Scope V)} (h : ERel L.ds (mkTop A ((some tg, M) :: σ) ++ Γr) a b) (hl : L.ds l = some tg)
    (hnd : TagsNodup (tagsOf ((some tg, M) :: σ))) :
    ERel L.ds (mkTop (fun y => A y ∨ y = l) ((some tg, M) :: σ) ++ Γr) (defineEnv l v a) (defineEnv l v b) := by
  have h1 := erel_define (x := l) (v := v) (fr := ⟨some tg, A, M⟩) (Γ := mkTop A σ ++ Γr) h
  refine erel_mono ?_ h1
  refine ⟨⟨rfl, fun y _ _ _ => ⟨id, id⟩⟩, GLe.append (gle_top σ ?_) (GLe.refl _ Γr)⟩
  intro y tg' hy hin hA
  rcases hA with hA | hA
  · exact hA
  · subst hA
    rw [hl] at hy
    cases hy
    exact absurd hin (hnd.1 tg rfl)

/-- A kept store to an own variable. -/
theorem erel_assign_top {A : Nat → Prop} {tg l : Nat} {σ : SigM} {Γr : List Frame} {v : V}
    {a b : List (Scope V)} (h : ERel L.ds (mkTop A σ ++ Γr) a b) (hl : L.ds l = some tg)
    (hin : some tg ∈ tagsOf σ) (hnd : TagsNodup (tagsOf σ)) (hm : ∀ M, (some tg, M) ∈ σ → ¬ M l) :
    ORel (ERel L.ds (mkTop (fun y => A y ∨ y = l) σ ++ Γr)) (assignEnv L.ds l v a) (assignEnv L.ds l v b) := by
  have h1 := erel_assign (v := v) hl h (by
    intro fr hfr
    obtain ⟨M, hM, hff⟩ := findFrame_top (A := A) (Γr := Γr) hin
    rw [hff] at hfr; cases hfr
    exact hm M hM)
  cases ea : assignEnv L.ds l v a <;> cases eb : assignEnv L.ds l v b <;> simp only [ea, eb, ORel] at h1 ⊢
  refine erel_mono (gle_upd_top (tg := tg) (A := A) (A' := fun y => A y ∨ y = l) (g := Frame.addA l) (fun _ => ⟨rfl, rfl⟩) ?_ σ Γr hnd hin ?_) h1
  · intro fr y _ hfr hA
    simp only [Frame.addA, hfr]
    exact hA
  · intro y tg' hy hne hA
    rcases hA with hA | hA
    · exact hA
    · subst hA
      rw [hl] at hy; cases hy
      exact absurd rfl hne

/-- A store to an own variable that only the plain run performs. -/
theorem erel_assign_plain_top {A : Nat → Prop} {tg l : Nat} {σ : SigM} {Γr : List Frame} {v : V}
    {a b b' : List (Scope V)} (h : ERel L.ds (mkTop A σ ++ Γr) a b) (hl : L.ds l = some tg)
    (hin : some tg ∈ tagsOf σ) (hnd : TagsNodup (tagsOf σ)) (hb : assignEnv L.ds l v b = some b') :
    ERel L.ds (mkTop (fun y => A y ∧ y ≠ l) σ ++ Γr) a b' := by
  have h1 := erel_assign_plain hl h hb
  refine erel_mono (gle_upd_top (tg := tg) (A := A) (A' := fun y => A y ∧ y ≠ l) (g := Frame.delA l) (fun _ => ⟨rfl, rfl⟩) ?_ σ Γr hnd hin ?_) h1
  · intro fr y _ hfr hA
    simp only [Frame.delA, hfr]
    exact hA
  · intro y tg' _ _ hA
    exact hA.1

/-- A store to a captured variable the function may write. -/
theorem erel_assign_capt {f : Nat} {A : Nat → Prop} {l : Nat} {σ : SigM} {Γr : List Frame} {v : V}
    {a b : List (Scope V)} (ha : ActOk L f σ Γr) (h : ERel L.ds (mkTop A σ ++ Γr) a b)
    (hw : l ∈ L.c.transWrites f) (hout : L.inTags (tagsOf σ) l = false) :
    ORel (ERel L.ds (mkTop A σ ++ Γr)) (assignEnv L.ds l v a) (assignEnv L.ds l v b) := by
  cases hl : L.ds l with
  | none => simp [assignEnv, hl, ORel]
  | some tg =>
    have hnot : some tg ∉ tagsOf σ := by
      intro hin
      have : L.inTags (tagsOf σ) l = true := inTags_iff.mpr ⟨tg, hl, hin⟩
      rw [this] at hout; cases hout
    have h1 := erel_assign (v := v) hl h (by
      intro fr hfr
      rw [findFrame_rest hnot] at hfr
      have hm := findFrame_mem hfr
      exact (ha.susp fr hm.1 l tg hl hm.2).2 hw)
    cases ea : assignEnv L.ds l v a <;> cases eb : assignEnv L.ds l v b <;> simp only [ea, eb, ORel] at h1 ⊢
    exact erel_mono (gle_upd_addA _) h1

end stores

/-! ### One statement -/

/- `chain` for a goal whose outcome is `LOutF` (statement level) while the sub-evaluation's is `LOut`. -/
set_option hygiene false in
macro "chainF " t1:term ", " t2:term ", " ho:ident ", " hq:ident : tactic => `(tactic|
  ( generalize $t2 = r2 at $ho:ident $hq:ident ⊢
    generalize $t1 = r1 at $ho:ident ⊢
    obtain ⟨x2, s2⟩ := r2
    obtain ⟨x1, s1⟩ := r1
    rcases $ho:ident with hbad | ⟨heq, hrel'⟩
    · rcases hbad with hb | hb | hb <;>
        (simp only at hb; subst hb; first | exact ⟨Or.inl bad_fuel, $hq⟩ | exact ⟨Or.inl bad_unbound, $hq⟩ | exact ⟨Or.inl bad_panic, $hq⟩)
    simp only at heq
    subst heq
    rcases x1 with er | v
    · exact ⟨Or.inr ⟨rfl, _, hrel', trivial⟩, $hq⟩
    try simp only [] ))

section sstep
variable {P : Prims V} {L : LSetup} {n : Nat}

theorem mOk_simple {σ : SigM} {s : Stmt} {i : Nat} (hm : MOkStmt L σ s)
    (hs : ∀ l, noRefB L.c l s = true → (!L.c.live i || L.c.refFreeB l i) = true) :
    ∀ p ∈ σ, ∀ l, p.2 l → (!L.c.live i || L.c.refFreeB l i) = true :=
  fun p hp l hl => hs l (hm p hp l hl)

theorem lstep_assign (hd : P.dscope = L.ds) (hs : LSetupOk L) (ih : LSim P L n)
    (vr : Bytes) (vs : Span) (e : Expr) (bd : Option Nat) (j : Nat) (sp : Span) (rest : List Stmt) (a b : St V) (f : Nat)
    (σ : SigM) (Γr : List Frame) (lc : LoopCtx) (post : LS) (A : Nat → Prop)
    (hsk : L.cfg.skip j = false) (hc : ConsStmt L.T true (.assign vr vs e bd (some j) sp))
    (hok : lokB L f (tagsOf σ) lc (.assign vr vs e bd (some j) sp) post rest = true)
    (hf : L.BR f = true) (ha : ActOk L f σ Γr) (hm : MOkStmt L σ (.assign vr vs e bd (some j) sp))
    (hn : Need L (lvStmt L.c f L.nl lc (.assign vr vs e bd (some j) sp) post).1.live A)
    (hr : LRel L (mkTop A σ ++ Γr) a b) (hi : LInv L b) :
    LOutF L σ Γr lc post.live (fun _ => False) (execStmt P L.cfg (n + 1) (.assign vr vs e bd (some j) sp) a)
        (execStmt P plain (n + 1) (.assign vr vs e bd (some j) sp) b) ∧
      LInv L (execStmt P plain (n + 1) (.assign vr vs e bd (some j) sp) b).2 := by
  have hiT : (j, true) ∈ L.T := consStmt_inTbl hc j rfl
  simp only [lokB, Bool.and_eq_true] at hok
  obtain ⟨hfn, hfit⟩ := base_parts hok.1
  simp only [lvStmt] at hn
  have hctx := exprCtx_of hs hiT hfn hf hn (mOk_simple hm (fun l h => by simpa [noRefB] using h))
  simp only [execStmt]
  obtain ⟨ho, hq⟩ := ih.expr e a b f j σ Γr A hfit ha hctx hr hi
  chainF (evalExpr P L.cfg n e a), (evalExpr P plain n e b), ho, hq
  cases bd with
  | none => exact ⟨Or.inr ⟨rfl, A, hrel', trivial⟩, hq⟩
  | some l =>
    simp only []
    have hst := hok.2
    simp only [Bool.and_eq_true, LSetup.ownStoreB, beq_iff_eq] at hst
    obtain ⟨_, ⟨⟨hw, hdecl⟩, _⟩, _⟩ := hst
    cases hl : L.ds l with
    | none => simp [hl] at hdecl
    | some tg =>
      simp only [hl, ↓reduceIte] at hdecl
      -- the innermost scope is the one that declares `l`
      match σ, hdecl, ha, hrel', hn with
      | [], hdecl, _, _, _ => simp [tagsOf] at hdecl
      | (t0, M0) :: σ', hdecl, ha, hrel', hn =>
        have ht0 : t0 = some tg := by simpa [tagsOf] using hdecl
        subst ht0
        have hdef := erel_define_top (v := v) hrel'.2.2 hl ha.nodup
        refine ⟨Or.inr ⟨rfl, fun y => A y ∨ y = l, ⟨hrel'.1, hrel'.2.1, hdef⟩, ?_⟩, hq⟩
        intro x hx hdx
        rcases hx with hx | hx
        · by_cases hxl : x = l
          · exact Or.inr hxl
          · refine Or.inl (hn x (mem_transfer.mpr (Or.inr (Or.inr ⟨hx, ?_⟩))) hdx)
            rw [hw]; simpa using hxl
        · exact absurd hx id

theorem lstep_assignExisting (hd : P.dscope = L.ds) (hs : LSetupOk L) (ih : LSim P L n)
    (vr : Bytes) (vs : Span) (e : Expr) (bd : Option Nat) (j : Nat) (sp : Span) (rest : List Stmt) (a b : St V) (f : Nat)
    (σ : SigM) (Γr : List Frame) (lc : LoopCtx) (post : LS) (A : Nat → Prop)
    (hsk : L.cfg.skip j = false) (hc : ConsStmt L.T true (.assignExisting vr vs e bd (some j) sp))
    (hok : lokB L f (tagsOf σ) lc (.assignExisting vr vs e bd (some j) sp) post rest = true)
    (hf : L.BR f = true) (ha : ActOk L f σ Γr) (hm : MOkStmt L σ (.assignExisting vr vs e bd (some j) sp))
    (hn : Need L (lvStmt L.c f L.nl lc (.assignExisting vr vs e bd (some j) sp) post).1.live A)
    (hr : LRel L (mkTop A σ ++ Γr) a b) (hi : LInv L b) :
    LOutF L σ Γr lc post.live (fun _ => False) (execStmt P L.cfg (n + 1) (.assignExisting vr vs e bd (some j) sp) a)
        (execStmt P plain (n + 1) (.assignExisting vr vs e bd (some j) sp) b) ∧
      LInv L (execStmt P plain (n + 1) (.assignExisting vr vs e bd (some j) sp) b).2 := by
  have hiT : (j, true) ∈ L.T := consStmt_inTbl hc j rfl
  simp only [lokB, Bool.and_eq_true] at hok
  obtain ⟨hfn, hfit⟩ := base_parts hok.1
  simp only [lvStmt] at hn
  have hmm := mOk_simple hm (i := j) (fun l h => by simpa [noRefB] using h)
  have hctx := exprCtx_of hs hiT hfn hf hn hmm
  simp only [execStmt, hd]
  obtain ⟨ho, hq⟩ := ih.expr e a b f j σ Γr A hfit ha hctx hr hi
  chainF (evalExpr P L.cfg n e a), (evalExpr P plain n e b), ho, hq
  cases bd with
  | none => exact ⟨Or.inl bad_unbound, hq⟩
  | some l =>
    simp only [Option.bind_some]
    have hst := hok.2
    simp only [] at hst
    split at hst
    · -- own variable
      simp only [Bool.and_eq_true, LSetup.ownStoreB, beq_iff_eq, Bool.false_eq_true, ↓reduceIte] at hst
      obtain ⟨⟨⟨hw, hin⟩, _⟩, _⟩ := hst
      obtain ⟨tg, hl, hin⟩ := inTags_iff.mp hin
      have hasg := erel_assign_top (v := v) hrel'.2.2 hl hin ha.nodup (by
        intro M hM hMl
        have := refFree_writes (hctx.mOk _ hM l hMl)
        rw [hw] at this
        simp at this)
      cases e1 : assignEnv L.ds l v s1.env <;> cases e2 : assignEnv L.ds l v s2.env <;> simp only [e1, e2, ORel] at hasg
      · exact ⟨Or.inl bad_unbound, hq⟩
      · refine ⟨Or.inr ⟨rfl, fun y => A y ∨ y = l, ⟨hrel'.1, hrel'.2.1, hasg⟩, ?_⟩, hq⟩
        intro x hx hdx
        rcases hx with hx | hx
        · by_cases hxl : x = l
          · exact Or.inr hxl
          · refine Or.inl (hn x (mem_transfer.mpr (Or.inr (Or.inr ⟨hx, ?_⟩))) hdx)
            rw [hw]; simpa using hxl
        · exact absurd hx id
    · -- captured variable
      simp only [Bool.and_eq_true, List.isEmpty_iff, List.contains_eq_mem, decide_eq_true_eq, Bool.not_eq_true'] at hst
      obtain ⟨⟨⟨hw, htw⟩, hout⟩, _⟩ := hst
      have hasg := erel_assign_capt (v := v) ha hrel'.2.2 htw hout
      cases e1 : assignEnv L.ds l v s1.env <;> cases e2 : assignEnv L.ds l v s2.env <;> simp only [e1, e2, ORel] at hasg
      · exact ⟨Or.inl bad_unbound, hq⟩
      · refine ⟨Or.inr ⟨rfl, A, ⟨hrel'.1, hrel'.2.1, hasg⟩, ?_⟩, hq⟩
        intro x hx hdx
        rcases hx with hx | hx
        · refine hn x (mem_transfer.mpr (Or.inr (Or.inr ⟨hx, ?_⟩))) hdx
          rw [hw]; simp
        · exact absurd hx id

/-- After a statement that is not a store has evaluated its expressions. -/
theorem flowNeed_normal_other {f j : Nat} {lc : LoopCtx} {post : LS} {A : Nat → Prop} (hw : L.writesOkB j = true)
    (hn : Need L (L.c.transfer f j post).live A) :
    FlowNeed (V := V) L lc post.live (fun _ => False) A (.ok .normal) := by
  intro x hx hdx
  rcases hx with hx | hx
  · exact need_after hw hn x hx hdx
  · exact absurd hx id

theorem lstep_assignIndex (hd : P.dscope = L.ds) (hs : LSetupOk L) (ih : LSim P L n)
    (t e : Expr) (j : Nat) (sp : Span) (rest : List Stmt) (a b : St V) (f : Nat)
    (σ : SigM) (Γr : List Frame) (lc : LoopCtx) (post : LS) (A : Nat → Prop)
    (hc : ConsStmt L.T true (.assignIndex t e (some j) sp))
    (hok : lokB L f (tagsOf σ) lc (.assignIndex t e (some j) sp) post rest = true)
    (hf : L.BR f = true) (ha : ActOk L f σ Γr) (hm : MOkStmt L σ (.assignIndex t e (some j) sp))
    (hn : Need L (lvStmt L.c f L.nl lc (.assignIndex t e (some j) sp) post).1.live A)
    (hr : LRel L (mkTop A σ ++ Γr) a b) (hi : LInv L b) :
    LOutF L σ Γr lc post.live (fun _ => False) (execStmt P L.cfg (n + 1) (.assignIndex t e (some j) sp) a)
        (execStmt P plain (n + 1) (.assignIndex t e (some j) sp) b) ∧
      LInv L (execStmt P plain (n + 1) (.assignIndex t e (some j) sp) b).2 := by
  have hiT : (j, true) ∈ L.T := consStmt_inTbl hc j rfl
  simp only [lokB, Bool.and_eq_true] at hok
  obtain ⟨hfn, hfit⟩ := base_parts hok.1.1
  simp only [lvStmt] at hn
  have hctx := exprCtx_of hs hiT hfn hf hn (mOk_simple hm (fun l h => by simpa [noRefB] using h))
  have hfit2 := efit_cons.mp hfit
  simp only [execStmt, hd]
  obtain ⟨ho, hq⟩ := ih.expr e a b f j σ Γr A hfit2.2 ha hctx hr hi
  chainF (evalExpr P L.cfg n e a), (evalExpr P plain n e b), ho, hq
  simp only at hq hrel'
  revert v
  intro val
  cases hlv : lvalue t with
  | none => exact ⟨Or.inr ⟨rfl, A, hrel', trivial⟩, hq⟩
  | some rp =>
    obtain ⟨root, path⟩ := rp
    have ht := hfit2.1
    rw [efit_single] at ht
    have hlo := eOk_lvalue t root path ht hlv
    have hroot : L.varFit f (tagsOf σ) j root = true := by simpa using hlo.1
    simp only []
    obtain ⟨ho2, hq2⟩ := lchecked ih P.argMissing (pathItems P.idx path) s1 s2 f j σ Γr A
      (fun e chk hm => efit_mem (es := path) hlo.2 e (pathItems_mem hm)) ha hctx hrel' hq
    chainF (evalChecked (evalExpr P L.cfg n) P.argMissing (pathItems P.idx path) s1),
      (evalChecked (evalExpr P plain n) P.argMissing (pathItems P.idx path) s2), ho2, hq2
    have el : lookupEnv L.ds root s1.env = lookupEnv L.ds root s2.env := fit_lookup hs ha hctx hroot hrel'.2.2
    rw [el]
    cases lookupEnv L.ds root s2.env with
    | none => exact ⟨Or.inl bad_unbound, hq2⟩
    | some old =>
      simp only []
      cases P.setPath old v val with
      | error er => exact ⟨Or.inr ⟨rfl, A, hrel', trivial⟩, hq2⟩
      | ok new =>
        simp only []
        have hasg := fit_assign (v := new) hs ha hctx hroot hrel'.2.2
        cases e1 : assignEnv L.ds root new s1.env <;> cases e2 : assignEnv L.ds root new s2.env <;>
          simp only [e1, e2, ORel] at hasg
        · exact ⟨Or.inr ⟨rfl, A, hrel', trivial⟩, hq2⟩
        · exact ⟨Or.inr ⟨rfl, A, ⟨hrel'.1, hrel'.2.1, hasg⟩, flowNeed_normal_other hok.1.2 hn⟩, hq2⟩

theorem lstep_exprStmt (hs : LSetupOk L) (ih : LSim P L n)
    (e : Expr) (j : Nat) (sp : Span) (rest : List Stmt) (a b : St V) (f : Nat)
    (σ : SigM) (Γr : List Frame) (lc : LoopCtx) (post : LS) (A : Nat → Prop)
    (hc : ConsStmt L.T true (.expr e (some j) sp))
    (hok : lokB L f (tagsOf σ) lc (.expr e (some j) sp) post rest = true)
    (hf : L.BR f = true) (ha : ActOk L f σ Γr) (hm : MOkStmt L σ (.expr e (some j) sp))
    (hn : Need L (lvStmt L.c f L.nl lc (.expr e (some j) sp) post).1.live A)
    (hr : LRel L (mkTop A σ ++ Γr) a b) (hi : LInv L b) :
    LOutF L σ Γr lc post.live (fun _ => False) (execStmt P L.cfg (n + 1) (.expr e (some j) sp) a)
        (execStmt P plain (n + 1) (.expr e (some j) sp) b) ∧
      LInv L (execStmt P plain (n + 1) (.expr e (some j) sp) b).2 := by
  have hiT : (j, true) ∈ L.T := consStmt_inTbl hc j rfl
  simp only [lokB, Bool.and_eq_true] at hok
  obtain ⟨hfn, hfit⟩ := base_parts hok.1.1
  simp only [lvStmt] at hn
  have hctx := exprCtx_of hs hiT hfn hf hn (mOk_simple hm (fun l h => by simpa [noRefB] using h))
  simp only [execStmt]
  obtain ⟨ho, hq⟩ := ih.expr e a b f j σ Γr A hfit ha hctx hr hi
  chainF (evalExpr P L.cfg n e a), (evalExpr P plain n e b), ho, hq
  exact ⟨Or.inr ⟨rfl, A, hrel', flowNeed_normal_other hok.1.2 hn⟩, hq⟩

theorem lstep_ret (hs : LSetupOk L) (ih : LSim P L n)
    (e : Expr) (j : Nat) (sp : Span) (rest : List Stmt) (a b : St V) (f : Nat)
    (σ : SigM) (Γr : List Frame) (lc : LoopCtx) (post : LS) (A : Nat → Prop)
    (hc : ConsStmt L.T true (.ret (some e) (some j) sp))
    (hok : lokB L f (tagsOf σ) lc (.ret (some e) (some j) sp) post rest = true)
    (hf : L.BR f = true) (ha : ActOk L f σ Γr) (hm : MOkStmt L σ (.ret (some e) (some j) sp))
    (hn : Need L (lvStmt L.c f L.nl lc (.ret (some e) (some j) sp) post).1.live A)
    (hr : LRel L (mkTop A σ ++ Γr) a b) (hi : LInv L b) :
    LOutF L σ Γr lc post.live (fun _ => False) (execStmt P L.cfg (n + 1) (.ret (some e) (some j) sp) a)
        (execStmt P plain (n + 1) (.ret (some e) (some j) sp) b) ∧
      LInv L (execStmt P plain (n + 1) (.ret (some e) (some j) sp) b).2 := by
  have hiT : (j, true) ∈ L.T := consStmt_inTbl hc j rfl
  simp only [lokB, Bool.and_eq_true] at hok
  obtain ⟨hfn, hfit⟩ := base_parts hok.1.1
  simp only [lvStmt] at hn
  have hctx := exprCtx_of hs hiT hfn hf hn (mOk_simple hm (fun l h => by simpa [noRefB] using h))
  simp only [execStmt]
  obtain ⟨ho, hq⟩ := ih.expr e a b f j σ Γr A hfit ha hctx hr hi
  chainF (evalExpr P L.cfg n e a), (evalExpr P plain n e b), ho, hq
  exact ⟨Or.inr ⟨rfl, A, hrel', trivial⟩, hq⟩

/-- Leaving a nested block: what was needed inside (with the block's locals killed on the way out)
gives what is needed outside. -/
theorem flowNeed_block (hs : LSetupOk L) {lc lc' : LoopCtx} {bd : List Stmt} {post' postO : List Nat} {A' : Nat → Prop}
    {r : Except Err (Flow V)}
    (hb : lc'.brk = lc.brk) (hcn : lc'.cont = lc.cont) (hk : lc'.kills = uni (L.c.scopeLocalsOf bd) lc.kills)
    (hpost : ∀ x ∈ postO, x ∈ post' ∨ x ∈ L.c.scopeLocalsOf bd)
    (h : FlowNeed L lc' post' (blockLocals L bd) A' r) :
    FlowNeed L lc postO (fun _ => False) A' r := by
  have hsl : ∀ x ∈ L.c.scopeLocalsOf bd, blockLocals L bd x := fun x hx => hs.slOk bd x hx
  have key : ∀ bs x, x ∈ dif bs lc.kills → x ∈ dif bs lc'.kills ∨ blockLocals L bd x := by
    intro bs x hx
    by_cases hxs : x ∈ L.c.scopeLocalsOf bd
    · exact Or.inr (hsl x hxs)
    · refine Or.inl ?_
      rw [hk, mem_dif_iff, mem_uni_iff]
      rw [mem_dif_iff] at hx
      exact ⟨hx.1, fun h => h.elim hxs hx.2⟩
  match r, h with
  | .error _, _ => trivial
  | .ok (.ret _), _ => trivial
  | .ok .normal, h =>
    intro x hx hdx
    rcases hx with hx | hx
    · rcases hpost x hx with h1 | h1
      · exact h x (Or.inl h1) hdx
      · exact h x (Or.inr (hsl x h1)) hdx
    · exact absurd hx id
  | .ok .brk, h =>
    simp only [FlowNeed, hb] at h ⊢
    cases hbk : lc.brk with
    | none => trivial
    | some bs =>
      simp only [hbk] at h ⊢
      intro x hx hdx
      rcases hx with hx | hx
      · exact h x (key bs x hx) hdx
      · exact absurd hx id
  | .ok .cont, h =>
    simp only [FlowNeed, hcn] at h ⊢
    cases hbk : lc.cont with
    | none => trivial
    | some bs =>
      simp only [hbk] at h ⊢
      intro x hx hdx
      rcases hx with hx | hx
      · exact h x (key bs x hx) hdx
      · exact absurd hx id

theorem loutF_block (hs : LSetupOk L) {σ : SigM} {Γr : List Frame} {lc lc' : LoopCtx} {bd : List Stmt} {post' postO : List Nat}
    {r1 r2 : R V (Flow V)}
    (hb : lc'.brk = lc.brk) (hcn : lc'.cont = lc.cont) (hk : lc'.kills = uni (L.c.scopeLocalsOf bd) lc.kills)
    (hpost : ∀ x ∈ postO, x ∈ post' ∨ x ∈ L.c.scopeLocalsOf bd)
    (h : LOutF L σ Γr lc' post' (blockLocals L bd) r1 r2) : LOutF L σ Γr lc postO (fun _ => False) r1 r2 := by
  rcases h with hbad | ⟨heq, A', hrel, hfn⟩
  · exact Or.inl hbad
  · exact Or.inr ⟨heq, A', hrel, flowNeed_block hs hb hcn hk hpost hfn⟩

theorem lstep_if_none (hs : LSetupOk L) (ih : LSim P L n)
    (c : Expr) (t : List Stmt) (ts : Span) (j : Nat) (sp : Span) (rest : List Stmt) (a b : St V) (f : Nat)
    (σ : SigM) (Γr : List Frame) (lc : LoopCtx) (post : LS) (A : Nat → Prop)
    (hc : ConsStmt L.T true (.ifS c (.mk t ts) none (some j) sp))
    (hok : lokB L f (tagsOf σ) lc (.ifS c (.mk t ts) none (some j) sp) post rest = true)
    (hf : L.BR f = true) (ha : ActOk L f σ Γr) (hm : MOkStmt L σ (.ifS c (.mk t ts) none (some j) sp))
    (hn : Need L (lvStmt L.c f L.nl lc (.ifS c (.mk t ts) none (some j) sp) post).1.live A)
    (hr : LRel L (mkTop A σ ++ Γr) a b) (hi : LInv L b) :
    LOutF L σ Γr lc post.live (fun _ => False) (execStmt P L.cfg (n + 1) (.ifS c (.mk t ts) none (some j) sp) a)
        (execStmt P plain (n + 1) (.ifS c (.mk t ts) none (some j) sp) b) ∧
      LInv L (execStmt P plain (n + 1) (.ifS c (.mk t ts) none (some j) sp) b).2 := by
  have hiT : (j, true) ∈ L.T := consStmt_inTbl hc j rfl
  simp only [lokB, Bool.and_eq_true] at hok
  obtain ⟨⟨⟨⟨hbase, hw⟩, _⟩, hblk⟩, hlok⟩ := hok
  obtain ⟨hfn, hfit⟩ := base_parts hbase
  rw [lvStmt_if_none] at hn
  simp only [ConsStmt] at hc
  have hmm : ∀ p ∈ σ, ∀ l, p.2 l → (!L.c.live j || L.c.refFreeB l j) = true ∧ noRefListB L.c l t = true := by
    intro p hp l hl
    have := hm p hp l hl
    simpa [noRefB] using this
  have hctx := exprCtx_of hs hiT hfn hf hn (fun p hp l hl => (hmm p hp l hl).1)
  have hn2 := need_after hw hn
  simp only [boundary] at hn2
  simp only [execStmt]
  obtain ⟨ho, hq⟩ := ih.expr c a b f j σ Γr A hfit ha hctx hr hi
  chainF (evalExpr P L.cfg n c a), (evalExpr P plain n c b), ho, hq
  cases P.cond v with
  | error er => exact ⟨Or.inr ⟨rfl, A, hrel', trivial⟩, hq⟩
  | ok bv =>
    cases bv with
    | false =>
      refine ⟨Or.inr ⟨rfl, A, hrel', ?_⟩, hq⟩
      intro x hx hdx
      rcases hx with hx | hx
      · exact hn2 x (mem_uni_iff.mpr (Or.inr hx)) hdx
      · exact absurd hx id
    | true =>
      obtain ⟨ho2, hq2⟩ := ih.block t s1 s2 f σ Γr { lc with kills := uni (L.c.scopeLocalsOf t) lc.kills }
        (boundary (dif post.live (L.c.scopeLocalsOf t))) A hc.2 hlok hblk hf ha (fun p hp l hl => (hmm p hp l hl).2)
        (need_mono (fun x hx => mem_uni_iff.mpr (Or.inl hx)) hn2) hrel' hq
      refine ⟨loutF_block (bd := t) (lc' := { lc with kills := uni (L.c.scopeLocalsOf t) lc.kills }) hs rfl rfl rfl ?_ ho2, hq2⟩
      intro x hx
      by_cases hxs : x ∈ L.c.scopeLocalsOf t
      · exact Or.inr hxs
      · exact Or.inl (by simp only [boundary]; exact mem_dif_iff.mpr ⟨hx, hxs⟩)

theorem lstep_if_some (hs : LSetupOk L) (ih : LSim P L n)
    (c : Expr) (t : List Stmt) (ts : Span) (el : List Stmt) (es : Span) (j : Nat) (sp : Span) (rest : List Stmt) (a b : St V) (f : Nat)
    (σ : SigM) (Γr : List Frame) (lc : LoopCtx) (post : LS) (A : Nat → Prop)
    (hc : ConsStmt L.T true (.ifS c (.mk t ts) (some (.mk el es)) (some j) sp))
    (hok : lokB L f (tagsOf σ) lc (.ifS c (.mk t ts) (some (.mk el es)) (some j) sp) post rest = true)
    (hf : L.BR f = true) (ha : ActOk L f σ Γr) (hm : MOkStmt L σ (.ifS c (.mk t ts) (some (.mk el es)) (some j) sp))
    (hn : Need L (lvStmt L.c f L.nl lc (.ifS c (.mk t ts) (some (.mk el es)) (some j) sp) post).1.live A)
    (hr : LRel L (mkTop A σ ++ Γr) a b) (hi : LInv L b) :
    LOutF L σ Γr lc post.live (fun _ => False) (execStmt P L.cfg (n + 1) (.ifS c (.mk t ts) (some (.mk el es)) (some j) sp) a)
        (execStmt P plain (n + 1) (.ifS c (.mk t ts) (some (.mk el es)) (some j) sp) b) ∧
      LInv L (execStmt P plain (n + 1) (.ifS c (.mk t ts) (some (.mk el es)) (some j) sp) b).2 := by
  have hiT : (j, true) ∈ L.T := consStmt_inTbl hc j rfl
  simp only [lokB, Bool.and_eq_true] at hok
  obtain ⟨⟨⟨⟨⟨⟨hbase, hw⟩, _⟩, hblk⟩, hblk2⟩, hlok⟩, hlok2⟩ := hok
  obtain ⟨hfn, hfit⟩ := base_parts hbase
  rw [lvStmt_if_some] at hn
  simp only [ConsStmt] at hc
  have hmm : ∀ p ∈ σ, ∀ l, p.2 l → ((!L.c.live j || L.c.refFreeB l j) = true ∧ noRefListB L.c l t = true) ∧ noRefListB L.c l el = true := by
    intro p hp l hl
    have := hm p hp l hl
    simpa [noRefB] using this
  have hctx := exprCtx_of hs hiT hfn hf hn (fun p hp l hl => (hmm p hp l hl).1.1)
  have hn2 := need_after hw hn
  simp only [boundary] at hn2
  simp only [execStmt]
  obtain ⟨ho, hq⟩ := ih.expr c a b f j σ Γr A hfit ha hctx hr hi
  chainF (evalExpr P L.cfg n c a), (evalExpr P plain n c b), ho, hq
  cases P.cond v with
  | error er => exact ⟨Or.inr ⟨rfl, A, hrel', trivial⟩, hq⟩
  | ok bv =>
    cases bv with
    | false =>
      obtain ⟨ho2, hq2⟩ := ih.block el s1 s2 f σ Γr { lc with kills := uni (L.c.scopeLocalsOf el) lc.kills }
        (boundary (dif post.live (L.c.scopeLocalsOf el))) A hc.2.2 hlok2 hblk2 hf ha (fun p hp l hl => (hmm p hp l hl).2)
        (need_mono (fun x hx => mem_uni_iff.mpr (Or.inr hx)) hn2) hrel' hq
      refine ⟨loutF_block (bd := el) (lc' := { lc with kills := uni (L.c.scopeLocalsOf el) lc.kills }) hs rfl rfl rfl ?_ ho2, hq2⟩
      intro x hx
      by_cases hxs : x ∈ L.c.scopeLocalsOf el
      · exact Or.inr hxs
      · exact Or.inl (by simp only [boundary]; exact mem_dif_iff.mpr ⟨hx, hxs⟩)
    | true =>
      obtain ⟨ho2, hq2⟩ := ih.block t s1 s2 f σ Γr { lc with kills := uni (L.c.scopeLocalsOf t) lc.kills }
        (boundary (dif post.live (L.c.scopeLocalsOf t))) A hc.2.1 hlok hblk hf ha (fun p hp l hl => (hmm p hp l hl).1.2)
        (need_mono (fun x hx => mem_uni_iff.mpr (Or.inl hx)) hn2) hrel' hq
      refine ⟨loutF_block (bd := t) (lc' := { lc with kills := uni (L.c.scopeLocalsOf t) lc.kills }) hs rfl rfl rfl ?_ ho2, hq2⟩
      intro x hx
      by_cases hxs : x ∈ L.c.scopeLocalsOf t
      · exact Or.inr hxs
      · exact Or.inl (by simp only [boundary]; exact mem_dif_iff.mpr ⟨hx, hxs⟩)

theorem lstep_blockStmt (hs : LSetupOk L) (ih : LSim P L n)
    (bd : List Stmt) (bs : Span) (j : Nat) (sp : Span) (rest : List Stmt) (a b : St V) (f : Nat)
    (σ : SigM) (Γr : List Frame) (lc : LoopCtx) (post : LS) (A : Nat → Prop)
    (hc : ConsStmt L.T true (.block (.mk bd bs) (some j) sp))
    (hok : lokB L f (tagsOf σ) lc (.block (.mk bd bs) (some j) sp) post rest = true)
    (hf : L.BR f = true) (ha : ActOk L f σ Γr) (hm : MOkStmt L σ (.block (.mk bd bs) (some j) sp))
    (hn : Need L (lvStmt L.c f L.nl lc (.block (.mk bd bs) (some j) sp) post).1.live A)
    (hr : LRel L (mkTop A σ ++ Γr) a b) (hi : LInv L b) :
    LOutF L σ Γr lc post.live (fun _ => False) (execStmt P L.cfg (n + 1) (.block (.mk bd bs) (some j) sp) a)
        (execStmt P plain (n + 1) (.block (.mk bd bs) (some j) sp) b) ∧
      LInv L (execStmt P plain (n + 1) (.block (.mk bd bs) (some j) sp) b).2 := by
  simp only [lokB, Bool.and_eq_true] at hok
  obtain ⟨⟨⟨⟨_, hw⟩, _⟩, hblk⟩, hlok⟩ := hok
  rw [lvStmt_block] at hn
  simp only [ConsStmt] at hc
  have hmm : ∀ p ∈ σ, ∀ l, p.2 l → noRefListB L.c l bd = true := by
    intro p hp l hl
    have := hm p hp l hl
    simp only [noRefB, Bool.and_eq_true] at this
    exact this.2
  simp only [execStmt]
  obtain ⟨ho2, hq2⟩ := ih.block bd a b f σ Γr { lc with kills := uni (L.c.scopeLocalsOf bd) lc.kills }
    { live := uni (inter post.gen (L.c.scopeLocalsOf bd)) (dif post.live (L.c.scopeLocalsOf bd)), gen := post.gen } A
    hc.2 hlok hblk hf ha hmm (need_after hw hn) hr hi
  refine ⟨loutF_block (bd := bd) (lc' := { lc with kills := uni (L.c.scopeLocalsOf bd) lc.kills }) hs rfl rfl rfl ?_ ho2, hq2⟩
  intro x hx
  by_cases hxs : x ∈ L.c.scopeLocalsOf bd
  · exact Or.inr hxs
  · exact Or.inl (mem_uni_iff.mpr (Or.inr (mem_dif_iff.mpr ⟨hx, hxs⟩)))

theorem lstep_stmt (hd : P.dscope = L.ds) (hs : LSetupOk L) (ih : LSim P L n) : ∀ (s : Stmt) (rest : List Stmt) (a b : St V)
    (f i : Nat) (σ : SigM) (Γr : List Frame) (lc : LoopCtx) (post : LS) (A : Nat → Prop),
    s.sid = some i → L.cfg.skip i = false → ConsStmt L.T true s → lokB L f (tagsOf σ) lc s post rest = true →
    L.BR f = true → ActOk L f σ Γr → MOkStmt L σ s → Need L (lvStmt L.c f L.nl lc s post).1.live A →
    LRel L (mkTop A σ ++ Γr) a b → LInv L b →
    LOutF L σ Γr lc post.live (fun _ => False) (execStmt P L.cfg (n + 1) s a) (execStmt P plain (n + 1) s b) ∧
      LInv L (execStmt P plain (n + 1) s b).2
  | .assign vr vs e bd (some j) sp, rest, a, b, f, i, σ, Γr, lc, post, A, hsid, hsk, hc, hok, hf, ha, hm, hn, hr, hi => by
      have hji : j = i := by simpa [Stmt.sid] using hsid
      subst hji
      exact lstep_assign hd hs ih vr vs e bd j sp rest a b f σ Γr lc post A hsk hc hok hf ha hm hn hr hi
  | .assignExisting vr vs e bd (some j) sp, rest, a, b, f, i, σ, Γr, lc, post, A, hsid, hsk, hc, hok, hf, ha, hm, hn, hr, hi => by
      have hji : j = i := by simpa [Stmt.sid] using hsid
      subst hji
      exact lstep_assignExisting hd hs ih vr vs e bd j sp rest a b f σ Γr lc post A hsk hc hok hf ha hm hn hr hi
  | .assignIndex t e (some j) sp, rest, a, b, f, i, σ, Γr, lc, post, A, _, _, hc, hok, hf, ha, hm, hn, hr, hi =>
      lstep_assignIndex hd hs ih t e j sp rest a b f σ Γr lc post A hc hok hf ha hm hn hr hi
  | .ifS c (.mk t ts) none (some j) sp, rest, a, b, f, i, σ, Γr, lc, post, A, _, _, hc, hok, hf, ha, hm, hn, hr, hi =>
      lstep_if_none hs ih c t ts j sp rest a b f σ Γr lc post A hc hok hf ha hm hn hr hi
  | .ifS c (.mk t ts) (some (.mk el es)) (some j) sp, rest, a, b, f, i, σ, Γr, lc, post, A, _, _, hc, hok, hf, ha, hm, hn, hr, hi =>
      lstep_if_some hs ih c t ts el es j sp rest a b f σ Γr lc post A hc hok hf ha hm hn hr hi
  | .loop c (.mk bd bs) (some j) sp, rest, a, b, f, i, σ, Γr, lc, post, A, _, _, hc, hok, hf, ha, hm, hn, hr, hi => by
      simp only [execStmt]
      exact ih.loop c bd bs sp rest a b f j σ Γr lc post A hc hok hf ha hm hn hr hi
  | .block (.mk bd bs) (some j) sp, rest, a, b, f, i, σ, Γr, lc, post, A, _, _, hc, hok, hf, ha, hm, hn, hr, hi =>
      lstep_blockStmt hs ih bd bs j sp rest a b f σ Γr lc post A hc hok hf ha hm hn hr hi
  | .fnDef nm ns ps (.mk body bs) (some g) (some j) sp, rest, a, b, f, i, σ, Γr, lc, post, A, _, _, _, hok, _, _, _, hn, hr, hi => by
      simp only [lokB, Bool.and_eq_true] at hok
      simp only [lvStmt] at hn
      simp only [execStmt]
      exact ⟨Or.inr ⟨rfl, A, hr, flowNeed_normal_other hok.1.1.1.1.1.2 hn⟩, hi⟩
  | .fnDef nm ns ps (.mk body bs) none (some j) sp, rest, a, b, f, i, σ, Γr, lc, post, A, _, _, _, hok, _, _, _, hn, hr, hi => by
      simp only [lokB, Bool.and_eq_true] at hok
      simp only [lvStmt] at hn
      simp only [execStmt]
      exact ⟨Or.inr ⟨rfl, A, hr, flowNeed_normal_other hok.1.2 hn⟩, hi⟩
  | .ret (some e) (some j) sp, rest, a, b, f, i, σ, Γr, lc, post, A, _, _, hc, hok, hf, ha, hm, hn, hr, hi =>
      lstep_ret hs ih e j sp rest a b f σ Γr lc post A hc hok hf ha hm hn hr hi
  | .ret none (some j) sp, rest, a, b, f, i, σ, Γr, lc, post, A, _, _, _, _, _, _, _, _, hr, hi => by
      simp only [execStmt]
      exact ⟨Or.inr ⟨rfl, A, hr, trivial⟩, hi⟩
  | .brk (some j) sp, rest, a, b, f, i, σ, Γr, lc, post, A, _, _, _, hok, _, _, _, hn, hr, hi => by
      simp only [lokB, Bool.and_eq_true] at hok
      simp only [lvStmt] at hn
      have hn2 := need_after hok.1.2 hn
      simp only [execStmt]
      refine ⟨Or.inr ⟨rfl, A, hr, ?_⟩, hi⟩
      simp only [FlowNeed]
      cases hb : lc.brk with
      | none => trivial
      | some bs =>
        simp only [hb, boundary] at hn2 ⊢
        intro x hx hdx
        rcases hx with hx | hx
        · exact hn2 x hx hdx
        · exact absurd hx id
  | .cont (some j) sp, rest, a, b, f, i, σ, Γr, lc, post, A, _, _, _, hok, _, _, _, hn, hr, hi => by
      simp only [lokB, Bool.and_eq_true] at hok
      simp only [lvStmt] at hn
      have hn2 := need_after hok.1.2 hn
      simp only [execStmt]
      refine ⟨Or.inr ⟨rfl, A, hr, ?_⟩, hi⟩
      simp only [FlowNeed]
      cases hb : lc.cont with
      | none => trivial
      | some bs =>
        simp only [hb, boundary] at hn2 ⊢
        intro x hx hdx
        rcases hx with hx | hx
        · exact hn2 x hx hdx
        · exact absurd hx id
  | .expr e (some j) sp, rest, a, b, f, i, σ, Γr, lc, post, A, _, _, hc, hok, hf, ha, hm, hn, hr, hi =>
      lstep_exprStmt hs ih e j sp rest a b f σ Γr lc post A hc hok hf ha hm hn hr hi
  | .assign _ _ _ _ none _, _, _, _, _, _, _, _, _, _, _, hsid, _, _, _, _, _, _, _, _, _
  | .assignExisting _ _ _ _ none _, _, _, _, _, _, _, _, _, _, _, hsid, _, _, _, _, _, _, _, _, _
  | .assignIndex _ _ none _, _, _, _, _, _, _, _, _, _, _, hsid, _, _, _, _, _, _, _, _, _
  | .ifS _ _ _ none _, _, _, _, _, _, _, _, _, _, _, hsid, _, _, _, _, _, _, _, _, _
  | .loop _ _ none _, _, _, _, _, _, _, _, _, _, _, hsid, _, _, _, _, _, _, _, _, _
  | .block _ none _, _, _, _, _, _, _, _, _, _, _, hsid, _, _, _, _, _, _, _, _, _
  | .fnDef _ _ _ _ _ none _, _, _, _, _, _, _, _, _, _, _, hsid, _, _, _, _, _, _, _, _, _
  | .ret _ none _, _, _, _, _, _, _, _, _, _, _, hsid, _, _, _, _, _, _, _, _, _
  | .brk none _, _, _, _, _, _, _, _, _, _, _, hsid, _, _, _, _, _, _, _, _, _
  | .cont none _, _, _, _, _, _, _, _, _, _, _, hsid, _, _, _, _, _, _, _, _, _
  | .expr _ none _, _, _, _, _, _, _, _, _, _, _, hsid, _, _, _, _, _, _, _, _, _ => by simp [Stmt.sid] at hsid

/-! ### Blocks -/

theorem hoist_okL : ∀ (f : Nat) (σ : List (Option Nat)) (lc : LoopCtx) (ss : List Stmt) (post : LS),
    lokListB L f σ lc ss post = true → ∀ fd ∈ hoist ss, fnOkB L fd.id fd.params fd.body = true
  | _, _, _, [], _, _ => by simp [hoist]
  | f, σ, lc, s :: ss, post, h => by
      simp only [lokListB, Bool.and_eq_true] at h
      have ih := hoist_okL f σ lc ss post h.2
      match s, h.1 with
      | .fnDef _ _ ps (.mk bd _) (some g) (some j) _, h1 =>
        simp only [lokB, Bool.and_eq_true] at h1
        intro fd hfd
        simp only [hoist] at hfd
        rcases List.mem_cons.mp hfd with rfl | hfd
        · simp only [fnOkB, Bool.and_eq_true]
          exact ⟨⟨⟨h1.1.1.1.2, h1.1.1.2⟩, h1.1.2⟩, h1.2⟩
        · exact ih fd hfd
      | .fnDef _ _ ps (.mk bd _) (some g) none _, h1 =>
        simp only [lokB, Bool.and_eq_true] at h1
        intro fd hfd
        simp only [hoist] at hfd
        rcases List.mem_cons.mp hfd with rfl | hfd
        · simp only [fnOkB, Bool.and_eq_true]
          exact h1
        · exact ih fd hfd
      | .fnDef _ _ _ (.mk _ _) none _ _, _ => simpa [hoist] using ih
      | .assign .., _ | .assignExisting .., _ | .assignIndex .., _ | .ifS .., _ | .loop .., _ | .block .., _
      | .ret .., _ | .brk .., _ | .cont .., _ | .expr .., _ => simpa [hoist] using ih

theorem flowNeed_extra {lc : LoopCtx} {post : List Nat} {extra A' A'' : Nat → Prop} {r : Except Err (Flow V)}
    (h1 : ∀ x, A' x → A'' x) (h2 : ∀ x, extra x → A'' x)
    (h : FlowNeed L lc post (fun _ => False) A' r) : FlowNeed L lc post extra A'' r := by
  match r, h with
  | .error _, _ => trivial
  | .ok (.ret _), _ => trivial
  | .ok .normal, h =>
    intro x hx hdx
    rcases hx with hx | hx
    · exact h1 x (h x (Or.inl hx) hdx)
    · exact h2 x hx
  | .ok .brk, h =>
    simp only [FlowNeed] at h ⊢
    cases hbk : lc.brk with
    | none => trivial
    | some bs =>
      simp only [hbk] at h ⊢
      intro x hx hdx
      rcases hx with hx | hx
      · exact h1 x (h x (Or.inl hx) hdx)
      · exact h2 x hx
  | .ok .cont, h =>
    simp only [FlowNeed] at h ⊢
    cases hbk : lc.cont with
    | none => trivial
    | some bs =>
      simp only [hbk] at h ⊢
      intro x hx hdx
      rcases hx with hx | hx
      · exact h1 x (h x (Or.inl hx) hdx)
      · exact h2 x hx

theorem blockOk_parts {f : Nat} {σ : List (Option Nat)} {ss : List Stmt} (h : L.blockOkB f σ ss = true) :
    ∀ tg, blockTag L.ss ss = some tg → some tg ∉ σ ∧ L.scopeOwner tg = some f := by
  intro tg htg
  simp only [LSetup.blockOkB, htg, Bool.and_eq_true, Bool.not_eq_true', beq_iff_eq] at h
  exact ⟨by simpa using h.1, h.2⟩

theorem lstep_block (hss : P.sscope = L.ss) (ih : LSim P L n) (ss : List Stmt) (a b : St V) (f : Nat) (σ : SigM)
    (Γr : List Frame) (lc : LoopCtx) (post : LS) (A : Nat → Prop)
    (hcs : ConsStmts L.T true ss) (hok : lokListB L f (blockTag L.ss ss :: tagsOf σ) lc ss post = true)
    (hblk : L.blockOkB f (tagsOf σ) ss = true) (hf : L.BR f = true) (ha : ActOk L f σ Γr) (hm : MOkList L σ ss)
    (hn : Need L (lvStmts L.c f L.nl lc ss post).1.live A)
    (hr : LRel L (mkTop A σ ++ Γr) a b) (hi : LInv L b) :
    LOutF L σ Γr lc post.live (blockLocals L ss) (execBlock P L.cfg (n + 1) ss a) (execBlock P plain (n + 1) ss b) ∧
      LInv L (execBlock P plain (n + 1) ss b).2 := by
  simp only [execBlock, hss]
  have hbp := blockOk_parts hblk
  have hr1 : LRel L (mkTop A ((blockTag L.ss ss, fun _ => False) :: σ) ++ Γr)
      { a with env := ⟨blockTag L.ss ss, []⟩ :: a.env, fns := hoist ss :: a.fns }
      { b with env := ⟨blockTag L.ss ss, []⟩ :: b.env, fns := hoist ss :: b.fns } :=
    ⟨hr.1, by simp [hr.2.1], erel_push hr.2.2 (blockTag L.ss ss) A (fun _ => False) []⟩
  have hi1 : LInv L { b with env := ⟨blockTag L.ss ss, []⟩ :: b.env, fns := hoist ss :: b.fns } :=
    ⟨⟨FnsOk.push hi.1.1 (hoist_ok true ss hcs), hi.1.2⟩,
     by
      intro sc hsc
      rcases List.mem_cons.mp hsc with rfl | h'
      · exact hoist_okL f _ lc ss post hok
      · exact hi.2 sc h'⟩
  have hact : ActOk L f ((blockTag L.ss ss, fun _ => False) :: σ) Γr :=
    { own := by
        intro tg htg
        simp only [tagsOf, List.map_cons, List.mem_cons] at htg
        rcases htg with htg | htg
        · exact (hbp tg htg.symm).2
        · exact ha.own tg htg
      susp := ha.susp
      nodup := ⟨fun tg htg => (hbp tg htg).1, ha.nodup⟩ }
  have hmok : MOkList L ((blockTag L.ss ss, fun _ => False) :: σ) ss := by
    intro p hp l hl
    rcases List.mem_cons.mp hp with rfl | hp
    · exact absurd hl id
    · exact hm p hp l hl
  obtain ⟨⟨M', ho⟩, hq⟩ := ih.stmts ss _ _ f (blockTag L.ss ss) (fun _ => False) σ Γr lc post A hcs hok hf hact hmok hn hr1 hi1
  generalize execStmts P plain n ss { b with env := ⟨blockTag L.ss ss, []⟩ :: b.env, fns := hoist ss :: b.fns } = r2 at ho hq ⊢
  generalize execStmts P L.cfg n ss { a with env := ⟨blockTag L.ss ss, []⟩ :: a.env, fns := hoist ss :: a.fns } = r1 at ho ⊢
  obtain ⟨x2, s2⟩ := r2
  obtain ⟨x1, s1⟩ := r1
  refine ⟨?_, linv_pop hq⟩
  rcases ho with hbad | ⟨heq, A', hrel, hfn⟩
  · exact Or.inl hbad
  · refine Or.inr ⟨heq, fun x => A' x ∨ blockLocals L ss x, ?_, flowNeed_extra (fun _ => Or.inl) (fun _ => Or.inr) hfn⟩
    have hp : LRel L (mkTop A' σ ++ Γr) { s1 with env := s1.env.drop 1, fns := s1.fns.drop 1 }
        { s2 with env := s2.env.drop 1, fns := s2.fns.drop 1 } := lrel_pop hrel
    refine ⟨hp.1, hp.2.1, erel_top_weaken hp.2.2 ?_⟩
    intro y tg hy hin hA
    rcases hA with hA | ⟨tg', hb', hy'⟩
    · exact hA
    · rw [hy] at hy'; cases hy'
      exact absurd hin (hbp tg hb').1

/-! ### Statement lists -/

theorem ownStore_skipped (hs : LSetupOk L) {f i : Nat} {σ : List (Option Nat)} {isDecl : Bool} {l : Nat} {e : Expr} {st : LS}
    {rest : List Stmt} (hT : (i, true) ∈ L.T) (hsk : L.cfg.skip i = true) (h : L.ownStoreB f σ i isDecl l e st rest = true) :
    L.c.writes i = [l] ∧ L.q f e = true ∧ (l ∉ st.live ∨ L.D2 l = true) ∧ (isDecl = true → noRefListB L.c l rest = true) ∧
      (isDecl = false → ∃ tg, L.ds l = some tg ∧ some tg ∈ σ) := by
  simp only [LSetup.ownStoreB, Bool.and_eq_true, beq_iff_eq, hsk, Bool.not_true, Bool.false_or, Bool.or_eq_true] at h
  obtain ⟨⟨⟨hw, htag⟩, _⟩, hrule⟩ := h
  rcases hrule with hdead | hrule
  · simp only [LSetup.deadB] at hdead
    exact absurd (by simpa using hdead) (hs.func i hT)
  · refine ⟨hw, hrule.1.1, ?_, ?_, ?_⟩
    · have := hrule.1.2
      simp only [Bool.not_eq_true', List.contains_eq_mem, decide_eq_false_iff_not] at this
      exact this
    · intro hd
      have := hrule.2
      simpa [hd] using this
    · intro hd
      simp only [hd, Bool.false_eq_true, ↓reduceIte] at htag
      exact inTags_iff.mp htag

theorem skipped_store (hs : LSetupOk L) {f i : Nat} {σ : List (Option Nat)} {lc : LoopCtx} {st : LS} {rest : List Stmt} :
    ∀ {s : Stmt}, s.sid = some i → (i, true) ∈ L.T → L.cfg.skip i = true → lokB L f σ lc s st rest = true →
    (∃ vr vs e l sp, s = .assign vr vs e (some l) (some i) sp ∧ L.c.writes i = [l] ∧ L.q f e = true ∧
        (l ∉ st.live ∨ L.D2 l = true) ∧ noRefListB L.c l rest = true) ∨
    (∃ vr vs e l sp tg, s = .assignExisting vr vs e (some l) (some i) sp ∧ L.c.writes i = [l] ∧ L.ds l = some tg ∧ some tg ∈ σ ∧
        L.q f e = true ∧ (l ∉ st.live ∨ L.D2 l = true))
  | .assign vr vs e bd (some j) sp, hsid, hT, hsk, hok => by
      have hji : j = i := by simpa [Stmt.sid] using hsid
      subst hji
      simp only [lokB, Bool.and_eq_true] at hok
      cases bd with
      | none => simp only [] at hok; rw [other_dead hs hT hok.2] at hsk; cases hsk
      | some l =>
        simp only [Bool.and_eq_true] at hok
        obtain ⟨h1, h2, h3, h4, _⟩ := ownStore_skipped hs hT hsk hok.2.2
        exact Or.inl ⟨vr, vs, e, l, sp, rfl, h1, h2, h3, h4 rfl⟩
  | .assignExisting vr vs e bd (some j) sp, hsid, hT, hsk, hok => by
      have hji : j = i := by simpa [Stmt.sid] using hsid
      subst hji
      simp only [lokB, Bool.and_eq_true] at hok
      cases bd with
      | none => simp only [] at hok; rw [other_dead hs hT hok.2] at hsk; cases hsk
      | some l =>
        have h2 := hok.2
        simp only [] at h2
        split at h2
        · obtain ⟨h1, h2, h3, _, h5⟩ := ownStore_skipped hs hT hsk h2
          obtain ⟨tg, ht1, ht2⟩ := h5 rfl
          exact Or.inr ⟨vr, vs, e, l, sp, tg, rfl, h1, ht1, ht2, h2, h3⟩
        · simp only [Bool.and_eq_true] at h2
          rw [other_dead hs hT h2.2] at hsk; cases hsk
  | .assignIndex _ _ (some j) _, hsid, hT, hsk, hok | .ifS _ (.mk _ _) none (some j) _, hsid, hT, hsk, hok
  | .ifS _ (.mk _ _) (some (.mk _ _)) (some j) _, hsid, hT, hsk, hok | .loop _ (.mk _ _) (some j) _, hsid, hT, hsk, hok
  | .block (.mk _ _) (some j) _, hsid, hT, hsk, hok | .fnDef _ _ _ (.mk _ _) (some _) (some j) _, hsid, hT, hsk, hok
  | .fnDef _ _ _ (.mk _ _) none (some j) _, hsid, hT, hsk, hok | .ret (some _) (some j) _, hsid, hT, hsk, hok
  | .ret none (some j) _, hsid, hT, hsk, hok | .brk (some j) _, hsid, hT, hsk, hok
  | .cont (some j) _, hsid, hT, hsk, hok | .expr _ (some j) _, hsid, hT, hsk, hok => by
      have hji : j = i := by simpa [Stmt.sid] using hsid
      subst hji
      simp only [lokB, Bool.and_eq_true] at hok
      first
        | (rw [other_dead hs hT hok.2] at hsk; cases hsk)
        | (rw [other_dead hs hT hok.1.2] at hsk; cases hsk)
        | (rw [other_dead hs hT hok.1.1.2] at hsk; cases hsk)
        | (rw [other_dead hs hT hok.1.1.1.2] at hsk; cases hsk)
        | (rw [other_dead hs hT hok.1.1.1.1.2] at hsk; cases hsk)
        | (rw [other_dead hs hT hok.1.1.1.1.1.2] at hsk; cases hsk)
  | .assign _ _ _ _ none _, hsid, _, _, _ | .assignExisting _ _ _ _ none _, hsid, _, _, _
  | .assignIndex _ _ none _, hsid, _, _, _ | .ifS _ _ _ none _, hsid, _, _, _ | .loop _ _ none _, hsid, _, _, _
  | .block _ none _, hsid, _, _, _ | .fnDef _ _ _ _ _ none _, hsid, _, _, _ | .ret _ none _, hsid, _, _, _
  | .brk none _, hsid, _, _, _ | .cont none _, hsid, _, _, _ | .expr _ none _, hsid, _, _, _ => by
      simp [Stmt.sid] at hsid

theorem noRefList_cons {l : Nat} {s : Stmt} {ss : List Stmt} (h : noRefListB L.c l (s :: ss) = true) :
    noRefB L.c l s = true ∧ noRefListB L.c l ss = true := by
  simpa [noRefListB] using h

/-- The plain run of a declaration with a droppable initialiser. -/
theorem qassign (hqt : QuietIn P L) {f : Nat} {e : Expr} (hqe : L.q f e = true) (m : Nat) (st : St V) (hi : LInv L st)
    (vr : Bytes) (vs : Span) (l : Nat) (sid : Option Nat) (sp : Span) :
    (Bad (execStmt P plain m (.assign vr vs e (some l) sid sp) st).1 ∧
        LInv L (execStmt P plain m (.assign vr vs e (some l) sid sp) st).2) ∨
      ∃ val st2, execStmt P plain m (.assign vr vs e (some l) sid sp) st =
          (.ok .normal, { st2 with env := defineEnv l val st2.env }) ∧
        st2.env = st.env ∧ st2.out = st.out ∧ st2.fns = st.fns ∧ LInv L st2 := by
  cases m with
  | zero => exact Or.inl ⟨Or.inl (by simp [execStmt]), by simpa [execStmt] using hi⟩
  | succ m =>
    obtain ⟨h1, h2, h3, h4⟩ := hqt f e m st hqe hi.2
    have hinv := ((main_all P (plain_harmless L.T) m).expr e st hi.1).2
    simp only [execStmt]
    generalize evalExpr P plain m e st = r at h1 h2 h3 h4 hinv ⊢
    obtain ⟨x, s'⟩ := r
    simp only at h1 h2 h3 h4 hinv
    have hi' : LInv L s' := ⟨hinv, by rw [h4]; exact hi.2⟩
    rcases h1 with ⟨v, hv⟩ | hb
    · subst hv
      exact Or.inr ⟨v, s', rfl, h2, h3, h4, hi'⟩
    · rcases hb with hb | hb | hb <;> subst hb
      · exact Or.inl ⟨bad_fuel, hi'⟩
      · exact Or.inl ⟨bad_unbound, hi'⟩
      · exact Or.inl ⟨bad_panic, hi'⟩

/-- The plain run of a store with a droppable initialiser. -/
theorem qassignExisting (hqt : QuietIn P L) {f : Nat} {e : Expr} (hqe : L.q f e = true) (m : Nat) (st : St V) (hi : LInv L st)
    (vr : Bytes) (vs : Span) (l : Nat) (sid : Option Nat) (sp : Span) :
    (Bad (execStmt P plain m (.assignExisting vr vs e (some l) sid sp) st).1 ∧
        LInv L (execStmt P plain m (.assignExisting vr vs e (some l) sid sp) st).2) ∨
      ∃ val env' st2, assignEnv P.dscope l val st2.env = some env' ∧
        execStmt P plain m (.assignExisting vr vs e (some l) sid sp) st = (.ok .normal, { st2 with env := env' }) ∧
        st2.env = st.env ∧ st2.out = st.out ∧ st2.fns = st.fns ∧ LInv L st2 := by
  cases m with
  | zero => exact Or.inl ⟨Or.inl (by simp [execStmt]), by simpa [execStmt] using hi⟩
  | succ m =>
    obtain ⟨h1, h2, h3, h4⟩ := hqt f e m st hqe hi.2
    have hinv := ((main_all P (plain_harmless L.T) m).expr e st hi.1).2
    simp only [execStmt]
    generalize evalExpr P plain m e st = r at h1 h2 h3 h4 hinv ⊢
    obtain ⟨x, s'⟩ := r
    simp only at h1 h2 h3 h4 hinv
    have hi' : LInv L s' := ⟨hinv, by rw [h4]; exact hi.2⟩
    rcases h1 with ⟨v, hv⟩ | hb
    · subst hv
      simp only [Option.bind_some]
      cases ha : assignEnv P.dscope l v s'.env with
      | none => exact Or.inl ⟨bad_unbound, hi'⟩
      | some env' => exact Or.inr ⟨v, env', s', ha, rfl, h2, h3, h4, hi'⟩
    · rcases hb with hb | hb | hb <;> subst hb
      · exact Or.inl ⟨bad_fuel, hi'⟩
      · exact Or.inl ⟨bad_unbound, hi'⟩
      · exact Or.inl ⟨bad_panic, hi'⟩

theorem lstep_stmts (hd : P.dscope = L.ds) (hs : LSetupOk L) (hqt : QuietIn P L) (ih : LSim P L n) :
    ∀ (ss : List Stmt) (a b : St V) (f : Nat) (tg : Option Nat) (M : Nat → Prop) (σ : SigM) (Γr : List Frame)
      (lc : LoopCtx) (post : LS) (A : Nat → Prop),
    ConsStmts L.T true ss → lokListB L f (tagsOf ((tg, M) :: σ)) lc ss post = true →
    L.BR f = true → ActOk L f ((tg, M) :: σ) Γr → MOkList L ((tg, M) :: σ) ss →
    Need L (lvStmts L.c f L.nl lc ss post).1.live A →
    LRel L (mkTop A ((tg, M) :: σ) ++ Γr) a b → LInv L b →
    (∃ M', LOutF L ((tg, M') :: σ) Γr lc post.live (fun _ => False) (execStmts P L.cfg (n + 1) ss a)
        (execStmts P plain (n + 1) ss b)) ∧
      LInv L (execStmts P plain (n + 1) ss b).2
  | [], a, b, f, tg, M, σ, Γr, lc, post, A, _, _, _, _, _, hn, hr, hi => by
      refine ⟨⟨M, Or.inr ⟨rfl, A, hr, ?_⟩⟩, hi⟩
      intro x hx hdx
      rcases hx with hx | hx
      · exact hn x (by simpa [lvStmts] using hx) hdx
      · exact absurd hx id
  | s :: ss, a, b, f, tg, M, σ, Γr, lc, post, A, hcs, hok, hf, ha, hm, hn, hr, hi => by
      obtain ⟨hc1, hc2⟩ := hcs
      simp only [lokListB, Bool.and_eq_true] at hok
      obtain ⟨hok1, hok2⟩ := hok
      rw [lvStmts_cons] at hn
      have hm1 : MOkStmt L ((tg, M) :: σ) s := fun p hp l hl => (noRefList_cons (hm p hp l hl)).1
      have hm2 : MOkList L ((tg, M) :: σ) ss := fun p hp l hl => (noRefList_cons (hm p hp l hl)).2
      simp only [execStmts]
      cases hsid : s.sid with
      | none => exact ⟨⟨M, Or.inr ⟨rfl, A, hr, trivial⟩⟩, hi⟩
      | some i =>
        have hiT : (i, true) ∈ L.T := consStmt_inTbl hc1 i hsid
        have hpl : plain.skip i = false := rfl
        simp only [hpl, Bool.false_eq_true, ↓reduceIte]
        have hi' : LInv L { b with trace := i :: b.trace } :=
          ⟨⟨hi.1.1, by
              intro j hj
              rcases List.mem_cons.mp hj with rfl | hj
              · exact hiT
              · exact hi.1.2 j hj⟩, hi.2⟩
        have hmn := (main_all P (plain_harmless L.T) n).stmt s { b with trace := i :: b.trace } hc1 hi'.1
        have hafter := hmn.2.2
        cases hsk : L.cfg.skip i with
        | false =>
          simp only [Bool.false_eq_true, ↓reduceIte]
          have hr' : LRel L (mkTop A ((tg, M) :: σ) ++ Γr) { a with trace := i :: a.trace } { b with trace := i :: b.trace } := hr
          obtain ⟨ho, hq⟩ := ih.stmt s ss _ _ f i ((tg, M) :: σ) Γr lc (lvStmts L.c f L.nl lc ss post).1 A hsid hsk hc1 hok1 hf ha hm1 hn hr' hi'
          generalize execStmt P plain n s { b with trace := i :: b.trace } = r2 at ho hq hafter ⊢
          generalize execStmt P L.cfg n s { a with trace := i :: a.trace } = r1 at ho ⊢
          obtain ⟨x2, s2⟩ := r2
          obtain ⟨x1, s1⟩ := r1
          rcases ho with hbad | ⟨heq, A', hrel', hfn⟩
          · rcases hbad with hb | hb | hb <;> (simp only at hb; subst hb)
            · exact ⟨⟨M, Or.inl bad_fuel⟩, hq⟩
            · exact ⟨⟨M, Or.inl bad_unbound⟩, hq⟩
            · exact ⟨⟨M, Or.inl bad_panic⟩, hq⟩
          · simp only at heq
            subst heq
            rcases x1 with er | fl
            · exact ⟨⟨M, Or.inr ⟨rfl, A', hrel', trivial⟩⟩, hq⟩
            · cases fl with
              | normal =>
                have haf : afterStmt true s = true := hafter rfl
                rw [haf] at hc2
                exact ih.stmts ss s1 s2 f tg M σ Γr lc post A' hc2 hok2 hf ha hm2
                  (fun x hx hdx => hfn x (Or.inl hx) hdx) hrel' hq
              | ret v => exact ⟨⟨M, Or.inr ⟨rfl, A', hrel', trivial⟩⟩, hq⟩
              | brk => exact ⟨⟨M, Or.inr ⟨rfl, A', hrel', hfn⟩⟩, hq⟩
              | cont => exact ⟨⟨M, Or.inr ⟨rfl, A', hrel', hfn⟩⟩, hq⟩
        | true =>
          simp only [↓reduceIte]
          rcases skipped_store hs hsid hiT hsk hok1 with ⟨vr, vs, e, l, sp, rfl, hw, hqe, hdeadl, hnoref⟩ |
            ⟨vr, vs, e, l, sp, tgl, rfl, hw, hdl, hinl, hqe, hdeadl⟩
          · -- a removed declaration
            have hc2' : ConsStmts L.T true ss := by simpa [afterStmt] using hc2
            simp only [lvStmt] at hn
            have hn' : Need L (lvStmts L.c f L.nl lc ss post).1.live A := by
              intro x hx hdx
              have hxl : x ≠ l := by
                rintro rfl
                rcases hdeadl with h | h
                · exact h hx
                · rw [h] at hdx; cases hdx
              refine hn x (mem_transfer.mpr (Or.inr (Or.inr ⟨hx, ?_⟩))) hdx
              rw [hw]; simpa using hxl
            rcases qassign hqt hqe n { b with trace := i :: b.trace } hi' vr vs l (some i) sp with ⟨hb, hinv⟩ | ⟨val, st2, hv, he2, ho2, hf2, hi2⟩
            · generalize execStmt P plain n (.assign vr vs e (some l) (some i) sp) { b with trace := i :: b.trace } = r2 at hb hinv ⊢
              obtain ⟨x2, s2⟩ := r2
              rcases hb with hb | hb | hb <;> (simp only at hb; subst hb)
              · exact ⟨⟨M, Or.inl bad_fuel⟩, hinv⟩
              · exact ⟨⟨M, Or.inl bad_unbound⟩, hinv⟩
              · exact ⟨⟨M, Or.inl bad_panic⟩, hinv⟩
            · rw [hv]
              simp only []
              have hr2 : LRel L (mkTop A ((tg, fun y => M y ∨ y = l) :: σ) ++ Γr) a
                  { st2 with env := defineEnv l val st2.env } :=
                ⟨hr.1.trans ho2.symm, hr.2.1.trans hf2.symm, by
                  rw [he2]
                  exact erel_define_plain (x := l) (v := val) (fr := ⟨tg, A, M⟩) hr.2.2⟩
              have hi2' : LInv L { st2 with env := defineEnv l val st2.env } := hi2
              have hm2' : MOkList L ((tg, fun y => M y ∨ y = l) :: σ) ss := by
                intro p hp l' hl'
                rcases List.mem_cons.mp hp with rfl | hp
                · rcases hl' with hl' | hl'
                  · exact hm2 (tg, M) (by simp) l' hl'
                  · subst hl'; exact hnoref
                · exact hm2 p (List.mem_cons_of_mem _ hp) l' hl'
              exact ih.stmts ss a _ f tg (fun y => M y ∨ y = l) σ Γr lc post A hc2' hok2 hf (actOk_tags ha rfl) hm2' hn' hr2 hi2'
          · -- a removed store
            have hc2' : ConsStmts L.T true ss := by simpa [afterStmt] using hc2
            simp only [lvStmt] at hn
            rcases qassignExisting hqt hqe n { b with trace := i :: b.trace } hi' vr vs l (some i) sp with
              ⟨hb, hinv⟩ | ⟨val, env', st2, hae, hv, he2, ho2, hf2, hi2⟩
            · generalize execStmt P plain n (.assignExisting vr vs e (some l) (some i) sp) { b with trace := i :: b.trace } = r2 at hb hinv ⊢
              obtain ⟨x2, s2⟩ := r2
              rcases hb with hb | hb | hb <;> (simp only at hb; subst hb)
              · exact ⟨⟨M, Or.inl bad_fuel⟩, hinv⟩
              · exact ⟨⟨M, Or.inl bad_unbound⟩, hinv⟩
              · exact ⟨⟨M, Or.inl bad_panic⟩, hinv⟩
            · rw [hv]
              simp only []
              rw [hd, he2] at hae
              have hr2 : LRel L (mkTop (fun y => A y ∧ y ≠ l) ((tg, M) :: σ) ++ Γr) a { st2 with env := env' } :=
                ⟨hr.1.trans ho2.symm, hr.2.1.trans hf2.symm, erel_assign_plain_top hr.2.2 hdl hinl ha.nodup hae⟩
              have hi2' : LInv L { st2 with env := env' } := hi2
              have hn' : Need L (lvStmts L.c f L.nl lc ss post).1.live (fun y => A y ∧ y ≠ l) := by
                intro x hx hdx
                have hxl : x ≠ l := by
                  rintro rfl
                  rcases hdeadl with h | h
                  · exact h hx
                  · rw [h] at hdx; cases hdx
                refine ⟨hn x (mem_transfer.mpr (Or.inr (Or.inr ⟨hx, ?_⟩))) hdx, hxl⟩
                rw [hw]; simpa using hxl
              exact ih.stmts ss a _ f tg M σ Γr lc post _ hc2' hok2 hf ha hm2 hn' hr2 hi2'

end sstep

end NaijaVerif.C03
