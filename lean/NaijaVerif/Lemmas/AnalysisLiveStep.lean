import NaijaVerif.Lemmas.AnalysisLiveSim
/-
Statement level of the liveness simulation: `LSim P L n → LSim P L (n+1)`.
-/
namespace NaijaVerif.C03
open NaijaVerif NaijaVerif.Analysis NaijaVerif.AEval

variable {V : Type}

/-! ### Facts about the liveness model -/

theorem mem_foldl_uni {α : Type} (F : α → List Nat) {x : Nat} : ∀ (l : List α) (init : List Nat),
    x ∈ l.foldl (fun acc g => uni (F g) acc) init ↔ x ∈ init ∨ ∃ g ∈ l, x ∈ F g
  | [], init => by simp
  | g :: l, init => by
      simp only [List.foldl_cons]
      rw [mem_foldl_uni F l, mem_uni_iff]
      constructor
      · rintro ((h | h) | ⟨g', hg', h⟩)
        · exact Or.inr ⟨g, by simp, h⟩
        · exact Or.inl h
        · exact Or.inr ⟨g', List.mem_cons_of_mem _ hg', h⟩
      · rintro (h | ⟨g', hg', h⟩)
        · exact Or.inl (Or.inr h)
        · rcases List.mem_cons.mp hg' with rfl | hg'
          · exact Or.inl (Or.inl h)
          · exact Or.inr ⟨g', hg', h⟩

theorem mem_calleeReads {c : Ctx} {f i x : Nat} :
    x ∈ c.calleeReads f i ↔ ∃ g ∈ c.callees i, x ∈ c.transReads g ∧ c.owner x = some f := by
  simp only [Ctx.calleeReads]
  rw [mem_foldl_uni (fun g => (c.transReads g).filter (fun l => c.owner l == some f))]
  simp

theorem mem_transfer {c : Ctx} {f i x : Nat} {st : LS} :
    x ∈ (c.transfer f i st).live ↔ x ∈ c.reads i ∨ x ∈ c.calleeReads f i ∨ (x ∈ st.live ∧ x ∉ c.writes i) := by
  simp only [Ctx.transfer, mem_uni_iff, mem_dif_iff, or_assoc]

section helpers
variable {L : LSetup}

/-- A statement whose `writes` only repeats read variables: everything live after it is live before it. -/
theorem need_after {f i : Nat} {st : LS} {A : Nat → Prop} (hw : L.writesOkB i = true)
    (h : Need L (L.c.transfer f i st).live A) : Need L st.live A := by
  intro x hx hd
  refine h x (mem_transfer.mpr ?_) hd
  by_cases hwx : x ∈ L.c.writes i
  · exact Or.inl (subset_iff.mp hw x hwx)
  · exact Or.inr (Or.inr ⟨hx, hwx⟩)

theorem need_mono {l1 l2 : List Nat} {A : Nat → Prop} (hsub : ∀ x ∈ l1, x ∈ l2) (h : Need L l2 A) : Need L l1 A :=
  fun x hx hd => h x (hsub x hx) hd

/-- The context in which statement `i` evaluates its expressions. -/
theorem exprCtx_of (hs : LSetupOk L) {f i : Nat} {σ : SigM} {A : Nat → Prop} {st : LS}
    (hT : (i, true) ∈ L.T) (hfn : L.c.fnOf i = f) (hbr : L.BR f = true)
    (hn : Need L (L.c.transfer f i st).live A)
    (hm : ∀ p ∈ σ, ∀ l, p.2 l → (!L.c.live i || L.refFreeB l i) = true) : ExprCtx L f σ A i where
  aReads := by
    intro x hx
    exact hn x (mem_transfer.mpr (Or.inl hx)) ((hs.used i hT (by rw [hfn]; exact hbr)).1 x hx)
  aCallee := by
    intro g hg x hx hown
    exact hn x (mem_transfer.mpr (Or.inr (Or.inl (mem_calleeReads.mpr ⟨g, hg, hx, hown⟩))))
      ((hs.used i hT (by rw [hfn]; exact hbr)).2 g hg x hx)
  mOk := by
    intro p hp l hl
    have := hm p hp l hl
    rw [hs.liveT i hT] at this
    simpa using this
  inT := hT
  fn := hfn
  br := hbr

theorem actOk_tags {f : Nat} {σ σ' : SigM} {Γr : List Frame} (h : ActOk L f σ Γr) (ht : tagsOf σ' = tagsOf σ) :
    ActOk L f σ' Γr :=
  ⟨by rw [ht]; exact h.own, h.susp, by rw [ht]; exact h.nodup⟩

theorem base_parts {f i : Nat} {σ : List (Option Nat)} {es : List Expr} (h : L.baseB f σ i es = true) :
    L.c.fnOf i = f ∧ L.efitList f σ i es = true := by
  simpa [LSetup.baseB] using h

theorem other_dead (hs : LSetupOk L) {i : Nat} (hT : (i, true) ∈ L.T) (h : L.otherB i = true) : L.cfg.skip i = false := by
  cases hsk : L.cfg.skip i with
  | false => rfl
  | true =>
    simp only [LSetup.otherB, hsk, Bool.not_true, Bool.false_or, LSetup.deadB] at h
    exact absurd (by simpa using h) (hs.func i hT)

end helpers

/-! ### Stores of the running activation -/

section stores
variable {L : LSetup}

/-- A kept declaration: both runs declare `l` in the innermost scope, which is the scope that declares `l`. -/
theorem erel_define_top {A : Nat → Prop} {tg l : Nat} {M : Nat → Prop} {σ : SigM} {Γr : List Frame} {v : V}
    {a b : List (Scope V)} (h : ERel L.ds (mkTop A ((some tg, M) :: σ) ++ Γr) a b) (hl : L.ds l = some tg)
    (hnd : TagsNodup (tagsOf ((some tg, M) :: σ))) :
    ERel L.ds (mkTop (fun y => A y ∨ y = l) ((some tg, M) :: σ) ++ Γr) (defineEnv l v a) (defineEnv l v b) := by
  have h1 := erel_define (x := l) (v := v) (fr := ⟨some tg, A, M⟩) (Γ := mkTop A σ ++ Γr) h
  refine erel_mono ?_ h1
  refine ⟨⟨rfl, fun y _ _ _ => ⟨id, id⟩⟩, GLe.append (gle_top σ ?_) (GLe.refl _ Γr)⟩
  intro y tg' hy hin hA
  rcases hA with hA | hA
  · exact hA
  · subst hA
    rw [hl] at hy
    cases hy
    exact absurd hin (hnd.1 tg rfl)

/-- A kept store to an own variable. -/
theorem erel_assign_top {A : Nat → Prop} {tg l : Nat} {σ : SigM} {Γr : List Frame} {v : V}
    {a b : List (Scope V)} (h : ERel L.ds (mkTop A σ ++ Γr) a b) (hl : L.ds l = some tg)
    (hin : some tg ∈ tagsOf σ) (hnd : TagsNodup (tagsOf σ)) (hm : ∀ M, (some tg, M) ∈ σ → ¬ M l) :
    ORel (ERel L.ds (mkTop (fun y => A y ∨ y = l) σ ++ Γr)) (assignEnv L.ds l v a) (assignEnv L.ds l v b) := by
  have h1 := erel_assign (v := v) hl h (by
    intro fr hfr
    obtain ⟨M, hM, hff⟩ := findFrame_top (A := A) (Γr := Γr) hin
    rw [hff] at hfr; cases hfr
    exact hm M hM)
  cases ea : assignEnv L.ds l v a <;> cases eb : assignEnv L.ds l v b <;> simp only [ea, eb, ORel] at h1 ⊢
  refine erel_mono (gle_upd_top (tg := tg) (A' := fun y => A y ∨ y = l) (fun _ => ⟨rfl, rfl⟩) ?_ σ Γr hnd hin ?_) h1
  · intro fr y _ hfr hA
    simp only [Frame.addA, hfr]
    exact hA
  · intro y tg' hy hne hA
    rcases hA with hA | hA
    · exact hA
    · subst hA
      rw [hl] at hy; cases hy
      exact absurd rfl hne

/-- A store to an own variable that only the plain run performs. -/
theorem erel_assign_plain_top {A : Nat → Prop} {tg l : Nat} {σ : SigM} {Γr : List Frame} {v : V}
    {a b b' : List (Scope V)} (h : ERel L.ds (mkTop A σ ++ Γr) a b) (hl : L.ds l = some tg)
    (hin : some tg ∈ tagsOf σ) (hnd : TagsNodup (tagsOf σ)) (hb : assignEnv L.ds l v b = some b') :
    ERel L.ds (mkTop (fun y => A y ∧ y ≠ l) σ ++ Γr) a b' := by
  have h1 := erel_assign_plain hl h hb
  refine erel_mono (gle_upd_top (tg := tg) (A' := fun y => A y ∧ y ≠ l) (fun _ => ⟨rfl, rfl⟩) ?_ σ Γr hnd hin ?_) h1
  · intro fr y _ hfr hA
    simp only [Frame.delA, hfr]
    exact hA
  · intro y tg' _ _ hA
    exact hA.1

/-- A store to a captured variable the function may write. -/
theorem erel_assign_capt {f : Nat} {A : Nat → Prop} {l : Nat} {σ : SigM} {Γr : List Frame} {v : V}
    {a b : List (Scope V)} (ha : ActOk L f σ Γr) (h : ERel L.ds (mkTop A σ ++ Γr) a b)
    (hw : l ∈ L.c.transWrites f) (hout : L.inTags (tagsOf σ) l = false) :
    ORel (ERel L.ds (mkTop A σ ++ Γr)) (assignEnv L.ds l v a) (assignEnv L.ds l v b) := by
  cases hl : L.ds l with
  | none => simp [assignEnv, hl, ORel]
  | some tg =>
    have hnot : some tg ∉ tagsOf σ := by
      intro hin
      have : L.inTags (tagsOf σ) l = true := inTags_iff.mpr ⟨tg, hl, hin⟩
      rw [this] at hout; cases hout
    have h1 := erel_assign (v := v) hl h (by
      intro fr hfr
      rw [findFrame_rest hnot] at hfr
      have hm := findFrame_mem hfr
      exact (ha.susp fr hm.1 l tg hl hm.2).2 hw)
    cases ea : assignEnv L.ds l v a <;> cases eb : assignEnv L.ds l v b <;> simp only [ea, eb, ORel] at h1 ⊢
    exact erel_mono (gle_upd_addA _) h1

end stores

end NaijaVerif.C03
