import NaijaVerif.Lemmas.AnalysisRefineRevCall
/-
BRIDGE, converse direction, part 4: argument lists, statements, blocks and loops.
-/
namespace NaijaVerif.C03
open NaijaVerif NaijaVerif.Analysis

variable {N : Type} [NumOps N] {B : Brg}

/-- As `ev'_sub` for a value relation other than equality: `y` is the fragment's value, `y'` the one of `Eval`. -/
macro "ev'_subr " X:term " as " y:ident y':ident s1:ident t1:ident hy:ident hs1:ident " with " ih:ident hr:ident hne:ident : tactic =>
  `(tactic| (
  generalize $X = r1__ at $hr:ident $ih:ident
  rcases r1__ with ⟨$y':ident, $s1:ident⟩ | ⟨kd__, esp__, $s1:ident⟩ | ⟨site__, $s1:ident⟩ | _
  rotate_left
  · simp only [Res.err_bind] at $hr:ident
    subst $hr
    obtain ⟨a1__, n1__, hsim__, hG__⟩ := $ih (ne_fuel_err _ _ _)
    obtain ⟨er__, $t1:ident, ha__, herr__⟩ := RSim.inv_err hsim__
    subst ha__
    dsimp only at hG__
    refine Ev'.rw n1__ (fun n hn => by rw [hG__ n hn]) ?_
    exact Ev'.const (RSim.err herr__)
  · simp only [Res.panic_bind] at $hr:ident
    subst $hr
    obtain ⟨a1__, n1__, hsim__, hG__⟩ := $ih (ne_fuel_panic _ _)
    obtain ⟨er__, $t1:ident, ha__, herr__⟩ := RSim.inv_panic hsim__
    subst ha__
    dsimp only at hG__
    refine Ev'.rw n1__ (fun n hn => by rw [hG__ n hn]) ?_
    exact Ev'.const (RSim.err herr__)
  · simp only [Res.fuel_bind] at $hr:ident
    exact absurd (Eq.symm $hr) $hne
  obtain ⟨a1__, n1__, hsim__, hG__⟩ := $ih (ne_fuel_ok _ _)
  obtain ⟨$y:ident, $t1:ident, ha__, $hy:ident, $hs1:ident⟩ := RSim.inv_ok hsim__
  subst ha__
  dsimp only at hG__
  refine Ev'.rw n1__ (fun n hn => by rw [hG__ n hn]) ?_
  clear hG__ $ih
  simp only [Res.ok_bind] at $hr:ident
  try dsimp only))

/-! ### Lists -/

theorem rev_sel {f : Nat} (IH : SimAt' (N := N) B f) (es : List Expr) (s : Eval.State N) (t : AEval.St (VE N))
    (hok : okExprs B.o es = true) (hs : B.Sim s t) (hne : Eval.evalSel B.rc (f + 1) (es.map .ok) s ≠ .fuel) :
    Ev' B Eq (Eval.evalSel B.rc (f + 1) (es.map .ok) s) (fun n => AEval.evalList B.P B.ac n es t) := by
  apply Ev'.shift
  cases es with
  | nil =>
    simp only [AEval.evalList, List.map_nil, Eval.evalSel]
    exact Ev'.const (RSim.ok rfl hs)
  | cons e rest =>
    simp only [okExprs, Bool.and_eq_true] at hok
    generalize hr : Eval.evalSel B.rc (f + 1) ((e :: rest).map .ok) s = res at hne ⊢
    simp only [List.map_cons, Eval.evalSel] at hr
    simp only [AEval.evalList]
    have ih1 := IH.expr e s t hok.1 hs
    ev'_sub (Eval.evalExpr B.rc f e s) as v s1 t1 hs1 with ih1 hr hne
    have ih2 := IH.sel rest s1 t1 hok.2 hs1
    ev'_sub (Eval.evalSel B.rc f (rest.map .ok) s1) as vs s2 t2 hs2 with ih2 hr hne
    subst hr
    exact Ev'.const (RSim.ok rfl hs2)

/-! ### Statements -/

theorem rev_stmt (hB : B.Ok N) {f : Nat} (IH : SimAt' (N := N) B f) (st : Stmt) (s : Eval.State N) (t : AEval.St (VE N))
    (hok : okStmt B.o st = true) (hs : B.Sim s t) (hne : Eval.execStmt B.rc (f + 1) st s ≠ .fuel)
    (hidx : ∀ tg e sid sp, st = .assignIndex tg e sid sp →
      Ev' B FlowSim (Eval.execStmt B.rc (f + 1) st s) (fun n => AEval.execStmt B.P B.ac n st t)) :
    Ev' B FlowSim (Eval.execStmt B.rc (f + 1) st s) (fun n => AEval.execStmt B.P B.ac n st t) := by
  cases st with
  | assignIndex tg e sid sp => exact hidx tg e sid sp rfl
  | assign var vsp e b sid sp =>
    apply Ev'.shift
    simp only [okStmt, Bool.and_eq_true] at hok
    obtain ⟨l, rfl⟩ := Option.isSome_iff_exists.mp hok.1.2
    generalize hr : Eval.execStmt B.rc (f + 1) (.assign var vsp e (some l) sid sp) s = res at hne ⊢
    simp only [Eval.execStmt] at hr
    simp only [AEval.execStmt]
    have ih1 := IH.expr e s t hok.1.1 hs
    ev'_sub (Eval.evalExpr B.rc f e s) as v s1 t1 hs1 with ih1 hr hne
    subst hr
    exact Ev'.const (RSim.ok trivial (define_sim l var v hs1))
  | assignExisting var vsp e b sid sp =>
    apply Ev'.shift
    simp only [okStmt, Bool.and_eq_true] at hok
    obtain ⟨l, rfl⟩ := Option.isSome_iff_exists.mp hok.1.2
    generalize hr : Eval.execStmt B.rc (f + 1) (.assignExisting var vsp e (some l) sid sp) s = res at hne ⊢
    simp only [Eval.execStmt] at hr
    simp only [AEval.execStmt, Option.bind_some, P_dscope]
    have ih1 := IH.expr e s t hok.1.1 hs
    ev'_sub (Eval.evalExpr B.rc f e s) as v s1 t1 hs1 with ih1 hr hne
    have ha := assign_st_sim hB.lookup hs1 l var v
    cases he : Eval.assign B.rc s1 (some l) var v with
    | none =>
      cases haa : AEval.assignEnv B.ds l v t1.env with
      | some _ => simp [he, haa, ORel2] at ha
      | none =>
        simp only [he] at hr
        subst hr
        refine Ev'.const (RSim.err ?_)
        simp only [Option.isSome_some, ↓reduceIte, Eval.trap, hB.panics, Bool.false_or]
        exact ⟨Or.inr ⟨rfl, rfl⟩, hs1.out⟩
    | some s2 =>
      cases haa : AEval.assignEnv B.ds l v t1.env with
      | none => simp [he, haa, ORel2] at ha
      | some env' =>
        simp only [he, haa, ORel2] at ha
        simp only [he] at hr
        subst hr
        exact Ev'.const (RSim.ok trivial ha)
  | ifS c tb eb sid sp =>
    apply Ev'.shift
    obtain ⟨tss, tsp⟩ := tb
    simp only [okStmt, Bool.and_eq_true] at hok
    generalize hr : Eval.execStmt B.rc (f + 1) (.ifS c (.mk tss tsp) eb sid sp) s = res at hne ⊢
    simp only [Eval.execStmt] at hr
    simp only [AEval.execStmt]
    have ih1 := IH.expr c s t hok.1.1.1 hs
    ev'_sub (Eval.evalExpr B.rc f c s) as v s1 t1 hs1 with ih1 hr hne
    simp only [P_cond]
    have hc := ofExcept_sim hB hs1 (Eval.truthy .ifCond v) c.span
    generalize Eval.truthy .ifCond v = cv at hr hc ⊢
    cases cv with
    | error flt =>
      have hb := ErrSim.bind (δ := Eval.Flow N) (show ErrSim (faultErr flt) t1 _ from hc)
        (fun _ st1' => .ok .cont st1')
      rw [← hr, hb.2]
      exact Ev'.const (RSim.err hb.1)
    | ok cb =>
      simp only [liftE, Eval.Res.ofExcept, Res.ok_bind] at hr ⊢
      cases cb with
      | true =>
        simp only [↓reduceIte] at hr
        subst hr
        exact IH.block (.mk tss tsp) s1 t1 hok.1.1.2 hs1 hne
      | false =>
        simp only [Bool.false_eq_true, ↓reduceIte] at hr
        cases eb with
        | none => subst hr; exact Ev'.const (RSim.ok trivial hs1)
        | some ebk =>
          obtain ⟨ess, esp⟩ := ebk
          subst hr
          exact IH.block (.mk ess esp) s1 t1 hok.1.2 hs1 hne
  | loop c b sid sp =>
    apply Ev'.shift
    obtain ⟨bss, bsp⟩ := b
    simp only [okStmt, Bool.and_eq_true] at hok
    simp only [AEval.execStmt]
    simp only [Eval.execStmt] at hne ⊢
    exact IH.loop c (.mk bss bsp) c.span s t hok.1.1 hok.1.2 hs hne
  | block b sid sp =>
    apply Ev'.shift
    obtain ⟨bss, bsp⟩ := b
    simp only [okStmt, Bool.and_eq_true] at hok
    simp only [AEval.execStmt]
    simp only [Eval.execStmt] at hne ⊢
    exact IH.block (.mk bss bsp) s t hok.1 hs hne
  | fnDef name nsp ps body fn sid sp =>
    apply Ev'.shift
    simp only [AEval.execStmt, Eval.execStmt]
    exact Ev'.const (RSim.ok trivial hs)
  | ret e sid sp =>
    apply Ev'.shift
    cases e with
    | none =>
      simp only [AEval.execStmt, Eval.execStmt, P_null]
      exact Ev'.const (RSim.ok rfl hs)
    | some e =>
      simp only [okStmt, Bool.and_eq_true] at hok
      generalize hr : Eval.execStmt B.rc (f + 1) (.ret (some e) sid sp) s = res at hne ⊢
      simp only [Eval.execStmt] at hr
      simp only [AEval.execStmt]
      have ih1 := IH.expr e s t hok.1 hs
      ev'_sub (Eval.evalExpr B.rc f e s) as v s1 t1 hs1 with ih1 hr hne
      subst hr
      exact Ev'.const (RSim.ok rfl hs1)
  | brk sid sp =>
    apply Ev'.shift
    simp only [AEval.execStmt, Eval.execStmt]
    exact Ev'.const (RSim.ok trivial hs)
  | cont sid sp =>
    apply Ev'.shift
    simp only [AEval.execStmt, Eval.execStmt]
    exact Ev'.const (RSim.ok trivial hs)
  | expr e sid sp =>
    apply Ev'.shift
    simp only [okStmt, Bool.and_eq_true] at hok
    generalize hr : Eval.execStmt B.rc (f + 1) (.expr e sid sp) s = res at hne ⊢
    simp only [Eval.execStmt] at hr
    simp only [AEval.execStmt]
    have ih1 := IH.expr e s t hok.1 hs
    ev'_sub (Eval.evalExpr B.rc f e s) as v s1 t1 hs1 with ih1 hr hne
    subst hr
    exact Ev'.const (RSim.ok trivial hs1)

/-! ### Statement lists, blocks, loops -/

theorem rev_stmts (hB : B.Ok N) {f : Nat} (IH : SimAt' (N := N) B f) (ss : List Stmt) (s : Eval.State N)
    (t : AEval.St (VE N)) (hok : okStmts B.o ss = true) (hs : B.Sim s t)
    (hne : Eval.execStmts B.rc (f + 1) ss s ≠ .fuel) :
    Ev' B FlowSim (Eval.execStmts B.rc (f + 1) ss s) (fun n => AEval.execStmts B.P B.ac n ss t) := by
  apply Ev'.shift
  cases ss with
  | nil =>
    simp only [AEval.execStmts, Eval.execStmts]
    exact Ev'.const (RSim.ok trivial hs)
  | cons st rest =>
    simp only [okStmts, Bool.and_eq_true] at hok
    obtain ⟨i, hi⟩ := okStmt_sid hok.1
    generalize hr : Eval.execStmts B.rc (f + 1) (st :: rest) s = res at hne ⊢
    simp only [Eval.execStmts, hi, hB.skip] at hr
    simp only [AEval.execStmts, hi]
    rcases Bool.eq_false_or_eq_true (B.ac.skip i) with hsk | hsk
    · simp only [hsk, ↓reduceIte] at hr ⊢
      subst hr
      exact IH.stmts rest s t hok.2 hs hne
    · simp only [hsk, Bool.false_eq_true, ↓reduceIte] at hr ⊢
      have hs' := sim_trace hs (i :: t.trace)
      have ih1 := IH.stmt st s _ hok.1 hs'
      ev'_subr (Eval.execStmt B.rc f st s) as fl fl' s1 t1 hfl hs1 with ih1 hr hne
      cases fl with
      | normal => cases fl' <;> first | (subst hr; exact IH.stmts rest s1 t1 hok.2 hs1 hne) | cases hfl
      | ret v => cases fl' <;> first | (subst hr; exact Ev'.const (RSim.ok hfl hs1)) | cases hfl
      | brk => cases fl' <;> first | (subst hr; exact Ev'.const (RSim.ok hfl hs1)) | cases hfl
      | cont => cases fl' <;> first | (subst hr; exact Ev'.const (RSim.ok hfl hs1)) | cases hfl

theorem rev_block (hB : B.Ok N) {f : Nat} (IH : SimAt' (N := N) B f) (b : Block) (s : Eval.State N)
    (t : AEval.St (VE N)) (hok : okBlock B.o b = true) (hs : B.Sim s t)
    (hne : Eval.execBlock B.rc (f + 1) b s ≠ .fuel) :
    Ev' B FlowSim (Eval.execBlock B.rc (f + 1) b s) (fun n => AEval.execBlock B.P B.ac n b.stmts t) := by
  apply Ev'.shift
  obtain ⟨ss, bsp⟩ := b
  simp only [okBlock, Bool.and_eq_true] at hok
  obtain ⟨htag, hnd⟩ := hB.orc.blk ss hok.1
  generalize hr : Eval.execBlock B.rc (f + 1) (.mk ss bsp) s = res at hne ⊢
  simp only [Eval.execBlock, Block.stmts, Block.span] at hr
  simp only [Block.stmts, AEval.execBlock, P_sscope]
  have hs1 := block_enter_sim (rc := B.rc) hB.drop hs B.ss ss htag hnd hok.2 bsp
  have ih1 := IH.stmts ss _ _ hok.2 hs1
  generalize Eval.execStmts (N := N) B.rc f ss _ = r1 at hr ih1
  rcases r1 with ⟨fl', s2⟩ | ⟨kd, esp, s2⟩ | ⟨site, s2⟩ | _
  · obtain ⟨a1, n1, hsim1, hG1⟩ := ih1 (ne_fuel_ok _ _)
    obtain ⟨fl, t2, ha1, hfl, hs2⟩ := RSim.inv_ok hsim1
    subst ha1
    dsimp only at hG1
    refine Ev'.rw n1 (fun n hn => by rw [hG1 n hn]) ?_
    simp only [Res.ok_bind] at hr
    subst hr
    exact Ev'.const (RSim.ok hfl (pop_sim hs2 s.chain))
  · simp only [Res.err_bind] at hr
    subst hr
    obtain ⟨a1, n1, hsim1, hG1⟩ := ih1 (ne_fuel_err _ _ _)
    obtain ⟨er, t2, ha1, herr⟩ := RSim.inv_err hsim1
    subst ha1
    dsimp only at hG1
    refine Ev'.rw n1 (fun n hn => by rw [hG1 n hn]) ?_
    refine Ev'.const (RSim.err ?_)
    exact ⟨(herr (δ := Eval.Flow N)).1, (herr (δ := Eval.Flow N)).2⟩
  · simp only [Res.panic_bind] at hr
    subst hr
    obtain ⟨a1, n1, hsim1, hG1⟩ := ih1 (ne_fuel_panic _ _)
    obtain ⟨er, t2, ha1, herr⟩ := RSim.inv_panic hsim1
    subst ha1
    dsimp only at hG1
    refine Ev'.rw n1 (fun n hn => by rw [hG1 n hn]) ?_
    refine Ev'.const (RSim.err ?_)
    exact ⟨(herr (δ := Eval.Flow N)).1, (herr (δ := Eval.Flow N)).2⟩
  · simp only [Res.fuel_bind] at hr
    exact absurd hr.symm hne

theorem rev_loop (hB : B.Ok N) {f : Nat} (IH : SimAt' (N := N) B f) (c : Expr) (b : Block) (sp : Span) (s : Eval.State N)
    (t : AEval.St (VE N)) (hokc : okExpr B.o c = true) (hokb : okBlock B.o b = true) (hs : B.Sim s t)
    (hne : Eval.loopW B.rc (f + 1) c b sp s ≠ .fuel) :
    Ev' B FlowSim (Eval.loopW B.rc (f + 1) c b sp s) (fun n => AEval.execLoop B.P B.ac n c b.stmts t) := by
  apply Ev'.shift
  generalize hr : Eval.loopW B.rc (f + 1) c b sp s = res at hne ⊢
  simp only [Eval.loopW] at hr
  simp only [AEval.execLoop]
  have ih1 := IH.expr c s t hokc hs
  ev'_sub (Eval.evalExpr B.rc f c s) as v s1 t1 hs1 with ih1 hr hne
  simp only [P_cond, ← liftE_truthy_loop]
  have hc := ofExcept_sim hB hs1 (Eval.truthy .loopCond v) sp
  generalize Eval.truthy .loopCond v = cv at hr hc ⊢
  cases cv with
  | error flt =>
    have hb := ErrSim.bind (δ := Eval.Flow N) (show ErrSim (faultErr flt) t1 _ from hc) (fun _ st1' => .ok .cont st1')
    rw [← hr, hb.2]
    exact Ev'.const (RSim.err hb.1)
  | ok cb =>
    simp only [liftE, Eval.Res.ofExcept, Res.ok_bind] at hr ⊢
    cases cb with
    | false =>
      simp only [Bool.false_eq_true, ↓reduceIte] at hr
      subst hr
      exact Ev'.const (RSim.ok trivial hs1)
    | true =>
      simp only [↓reduceIte] at hr
      have ih2 := IH.block b s1 t1 hokb hs1
      ev'_subr (Eval.execBlock B.rc f b s1) as fl fl' s2 t2 hfl hs2 with ih2 hr hne
      cases fl with
      | normal => cases fl' <;> first | (subst hr; exact IH.loop c b sp s2 t2 hokc hokb hs2 hne) | cases hfl
      | cont => cases fl' <;> first | (subst hr; exact IH.loop c b sp s2 t2 hokc hokb hs2 hne) | cases hfl
      | brk => cases fl' <;> first | (subst hr; exact Ev'.const (RSim.ok trivial hs2)) | cases hfl
      | ret v => cases fl' <;> first | (subst hr; exact Ev'.const (RSim.ok hfl hs2)) | cases hfl

end NaijaVerif.C03
