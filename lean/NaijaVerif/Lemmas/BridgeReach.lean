import NaijaVerif.Lemmas.BridgeOk
/-
Bridge resolver → evaluator, part 5b: the optimisation plan and the functions REACHABLE through calls.

`keptBlock plan` (`Lemmas/BridgeOk.lean`) asks EVERY function the plan keeps to call kept functions
only.  That is more than the plan of the real analyses delivers, and more than the run needs: a
definition in dead code is hoisted whatever `plan.stmts` says (only `plan.fns` decides) and is not
removed when its definition statement is unreachable; if nobody calls it, the functions only IT calls
are "unused" and removed — `keptBlock` fails although nothing of that definition can ever run.

The right condition is about a set `K` of function ids that is closed under the calls of the code that
can run (the analysis works that way: `Ctx.bodyReachable`, diagnostics.rs
`compute_function_reachability`): `KeptReach K plan root` —
  (i)  the plan removes no function of `K`;
  (ii) in the top-level code and in the body of every definition whose id is in `K`, outside the
       statements the plan removes (`stmtSkipped`, the evaluator's own skip test) and outside nested
       definitions, every user call is bound to a function of `K`;
the bodies of definitions outside `K` are exempt: they are hoisted but never looked up.

`ok_reach_block` turns it into the static guarantees `okBlock` for the EXTENDED plan `planK` (the
plan plus "every function outside `K`"), which `Lemmas/BridgeSafe.lean` accepts in place of the plan
of the run (`PlanExt`: same statements skipped, more functions removed).

`reachK plan root` is a canonical `K`, computed from the call annotations by a closure iteration
(executable; evaluated by the driver on the real plan and AST: `planReaches`).
-/
namespace NaijaVerif.Bridge
open NaijaVerif

/-- A call annotation lies in `K`; an unbound call (never accepted: `SCfg.fnOk`) is not constrained,
as in `keptExpr`. -/
def inK (K : Nat → Bool) : Option Nat → Bool
  | some i => K i
  | none => true

mutual
  /-- Every user call of the expression is bound to a function of `K`. -/
  def reachExpr (K : Nat → Bool) : Expr → Bool
    | .num _ _ | .bool _ _ | .null _ | .str _ _ | .var _ _ _ => true
    | .binary _ l r _ => reachExpr K l && reachExpr K r
    | .unary _ x _ => reachExpr K x
    | .array es _ => reachExprs K es
    | .index a i _ _ => reachExpr K a && reachExpr K i
    | .member o _ _ _ => reachExpr K o
    | .call (.member obj _ _ _) args _ _ => reachExpr K obj && reachExprs K args
    | .call (.var name _ _) args fn _ =>
        reachExprs K args && ((Eval.GlobalB.ofName name).isSome || inK K fn)
    | .call _ args _ _ => reachExprs K args
  def reachExprs (K : Nat → Bool) : List Expr → Bool
    | [] => true
    | e :: es => reachExpr K e && reachExprs K es
end

mutual
  /-- (ii) for one statement: nested blocks are walked, the body of a nested definition only when
  its id is in `K`. -/
  def reachStmt (K : Nat → Bool) (plan : Option Eval.Plan) : Stmt → Bool
    | .assign _ _ e _ _ _ => reachExpr K e
    | .assignExisting _ _ e _ _ _ => reachExpr K e
    | .assignIndex t e _ _ => reachExpr K t && reachExpr K e
    | .ifS c t e _ _ => reachExpr K c && reachBlock K plan t && reachOptBlock K plan e
    | .loop c b _ _ => reachExpr K c && reachBlock K plan b
    | .block b _ _ => reachBlock K plan b
    | .fnDef _ _ _ body fn _ _ => !inK K fn || reachBlock K plan body
    | .ret (some e) _ _ => reachExpr K e
    | .ret none _ _ => true
    | .brk _ _ => true
    | .cont _ _ => true
    | .expr e _ _ => reachExpr K e
  def reachStmts (K : Nat → Bool) (plan : Option Eval.Plan) : List Stmt → Bool
    | [] => true
    | s :: rest => (stmtSkipped plan s || reachStmt K plan s) && reachStmts K plan rest
  def reachBlock (K : Nat → Bool) (plan : Option Eval.Plan) : Block → Bool
    | .mk ss _ => reachStmts K plan ss
  def reachOptBlock (K : Nat → Bool) (plan : Option Eval.Plan) : Option Block → Bool
    | none => true
    | some b => reachBlock K plan b
end

/-- **The condition on the plan**: `K` is kept by the plan and closed under the calls of the code
that is neither removed nor the body of a definition outside `K`. -/
def KeptReach (K : Nat → Bool) (plan : Option Eval.Plan) (root : Block) : Prop :=
  (∀ i, K i = true → Eval.Plan.prunesFn plan (some i) = false) ∧ reachBlock K plan root = true

/-- The decidable form, for a finite set of function ids. -/
def keptReach (K : List Nat) (plan : Option Eval.Plan) (root : Block) : Bool :=
  K.all (fun i => !Eval.Plan.prunesFn plan (some i)) && reachBlock (fun i => K.contains i) plan root

theorem keptReach_spec {K : List Nat} {plan : Option Eval.Plan} {root : Block} (h : keptReach K plan root = true) :
    KeptReach (fun i => K.contains i) plan root := by
  simp only [keptReach, Bool.and_eq_true, List.all_eq_true, Bool.not_eq_true'] at h
  exact ⟨fun i hi => h.1 i (by simpa using hi), h.2⟩

theorem keptReach_of {K : List Nat} {plan : Option Eval.Plan} {root : Block}
    (h : KeptReach (fun i => K.contains i) plan root) : keptReach K plan root = true := by
  simp only [keptReach, Bool.and_eq_true, List.all_eq_true, Bool.not_eq_true']
  exact ⟨fun i hi => h.1 i (by simpa using hi), h.2⟩

/-! ### The old condition is the instance "K = every function the plan keeps" -/

/-- The functions the plan does not remove. -/
def keptFns (plan : Option Eval.Plan) : Nat → Bool := fun i => !Eval.Plan.prunesFn plan (some i)

theorem inK_keptFns (plan : Option Eval.Plan) (fn : Option Nat) :
    inK (keptFns plan) fn = !Eval.Plan.prunesFn plan fn := by
  cases fn with
  | some i => rfl
  | none => cases plan <;> rfl

theorem reachExpr_keptFns (plan : Option Eval.Plan) (e : Expr) : reachExpr (keptFns plan) e = keptExpr plan e := by
  induction e using Expr.rec (motive_2 := fun es => reachExprs (keptFns plan) es = keptExprs plan es) with
  | nil => simp [reachExprs, keptExprs]
  | cons e es ih1 ih2 => simp [reachExprs, keptExprs, ih1, ih2]
  | num => simp [reachExpr, keptExpr]
  | bool => simp [reachExpr, keptExpr]
  | null => simp [reachExpr, keptExpr]
  | str => simp [reachExpr, keptExpr]
  | var => simp [reachExpr, keptExpr]
  | binary _ _ _ _ ih1 ih2 => simp [reachExpr, keptExpr, ih1, ih2]
  | unary _ _ _ ih => simp [reachExpr, keptExpr, ih]
  | array _ _ ih => simp [reachExpr, keptExpr, ih]
  | index _ _ _ _ ih1 ih2 => simp [reachExpr, keptExpr, ih1, ih2]
  | member _ _ _ _ ih => simp [reachExpr, keptExpr, ih]
  | call callee args fn sp ih1 ih2 =>
    cases callee with
    | var => simp only [reachExpr, keptExpr, ih2, inK_keptFns]
    | member => simp only [reachExpr, keptExpr] at ih1 ⊢; simp only [ih1, ih2]
    | _ => simp only [reachExpr, keptExpr, ih2]

theorem reachBlock_keptFns (plan : Option Eval.Plan) (b : Block) :
    reachBlock (keptFns plan) plan b = keptBlock plan b := by
  have hE := reachExpr_keptFns plan
  induction b using Block.rec
    (motive_1 := fun s => reachStmt (keptFns plan) plan s = keptStmt plan s)
    (motive_4 := fun ss => reachStmts (keptFns plan) plan ss = keptStmts plan ss)
    (motive_3 := fun ob => reachOptBlock (keptFns plan) plan ob = keptOptBlock plan ob) with
  | fnDef _ _ _ _ fn _ _ ih => simp only [reachStmt, keptStmt, ih, inK_keptFns, Bool.not_not]
  | assign _ _ e => simp only [reachStmt, keptStmt, hE]
  | assignExisting _ _ e => simp only [reachStmt, keptStmt, hE]
  | assignIndex t e => simp only [reachStmt, keptStmt, hE]
  | ifS c _ _ _ _ ih1 ih2 => simp only [reachStmt, keptStmt, hE, ih1, ih2]
  | loop c _ _ _ ih => simp only [reachStmt, keptStmt, hE, ih]
  | block _ _ _ ih => simp only [reachStmt, keptStmt, ih]
  | ret e => cases e with
    | none => simp only [reachStmt, keptStmt]
    | some e => simp only [reachStmt, keptStmt, hE]
  | brk => simp only [reachStmt, keptStmt]
  | cont => simp only [reachStmt, keptStmt]
  | expr e => simp only [reachStmt, keptStmt, hE]
  | mk _ _ ih => simp only [reachBlock, keptBlock, ih]
  | nil => simp only [reachStmts, keptStmts]
  | cons _ _ ih1 ih2 => simp only [reachStmts, keptStmts, ih1, ih2]
  | none => simp only [reachOptBlock, keptOptBlock]
  | some _ ih => simp only [reachOptBlock, keptOptBlock, ih]

/-- **`keptBlock` is the special case** `K` = all functions the plan does not remove. -/
theorem keptReach_of_keptBlock {plan : Option Eval.Plan} {root : Block} (h : keptBlock plan root = true) :
    KeptReach (keptFns plan) plan root :=
  ⟨fun i hi => by simpa [keptFns] using hi, by rw [reachBlock_keptFns]; exact h⟩

/-! ### The extended plan -/

/-- The plan, plus every function id below `n` outside `K`.  Skips the same statements. -/
def planK (n : Nat) (K : Nat → Bool) (plan : Option Eval.Plan) : Eval.Plan :=
  { stmts := (match plan with | some p => p.stmts | none => []),
    fns := (match plan with | some p => p.fns | none => []) ++ (List.range n).filter (fun i => !K i) }

theorem planK_stmt (n : Nat) (K : Nat → Bool) (plan : Option Eval.Plan) (sid : Option Nat) :
    Eval.Plan.prunesStmt (some (planK n K plan)) sid = Eval.Plan.prunesStmt plan sid := by
  cases plan <;> cases sid <;> simp [Eval.Plan.prunesStmt, planK]

theorem planK_fn (n : Nat) (K : Nat → Bool) (plan : Option Eval.Plan) (i : Nat) :
    Eval.Plan.prunesFn (some (planK n K plan)) (some i) =
      (Eval.Plan.prunesFn plan (some i) || (decide (i < n) && !K i)) := by
  cases plan <;> simp [Eval.Plan.prunesFn, planK, List.mem_filter, List.mem_range, Bool.decide_and]

theorem planK_fn_of_pruned (n : Nat) (K : Nat → Bool) (plan : Option Eval.Plan) (fn : Option Nat)
    (h : Eval.Plan.prunesFn plan fn = true) : Eval.Plan.prunesFn (some (planK n K plan)) fn = true := by
  cases fn with
  | none => cases plan <;> simp [Eval.Plan.prunesFn] at h
  | some i => rw [planK_fn, h]; rfl

theorem planK_skipped (n : Nat) (K : Nat → Bool) (plan : Option Eval.Plan) (s : Stmt) :
    stmtSkipped (some (planK n K plan)) s = stmtSkipped plan s := by
  cases s <;> simp only [stmtSkipped, planK_stmt]

theorem fnOk_lt {C : SCfg} {fn : Option Nat} {k : Nat} (h : C.fnOk fn k = true) : ∃ i, fn = some i ∧ i < C.arity.length := by
  cases fn with
  | none => simp [SCfg.fnOk] at h
  | some i =>
    refine ⟨i, rfl, ?_⟩
    simp only [SCfg.fnOk, beq_iff_eq] at h
    exact (List.getElem?_eq_some_iff.1 h).1

/-! ### From the program as such to the program under the extended plan -/

theorem ok_reach_expr (C : SCfg) (K : Nat → Bool) (plan : Option Eval.Plan)
    (hK : ∀ i, K i = true → Eval.Plan.prunesFn plan (some i) = false) (e : Expr) :
    okExpr (C.withPlan none) e = true → reachExpr K e = true →
      okExpr (C.withPlan (some (planK C.arity.length K plan))) e = true := by
  induction e using Expr.rec (motive_2 := fun es =>
      okExprs (C.withPlan none) es = true → reachExprs K es = true →
        okExprs (C.withPlan (some (planK C.arity.length K plan))) es = true) with
  | nil => simp [okExprs]
  | cons e es ih1 ih2 =>
    rename_i h1 h2
    simp only [okExprs, reachExprs, Bool.and_eq_true] at h1 h2 ⊢
    exact ⟨ih1 h1.1 h2.1, ih2 h1.2 h2.2⟩
  | num => intro h _; simpa [okExpr, SCfg.withPlan] using h
  | bool => intro _ _; simp [okExpr]
  | null => intro _ _; simp [okExpr]
  | str => intro _ _; simp [okExpr]
  | var => intro _ _; simp [okExpr]
  | binary _ _ _ _ ih1 ih2 =>
    intro h1 h2
    simp only [okExpr, reachExpr, Bool.and_eq_true] at h1 h2 ⊢
    exact ⟨ih1 h1.1 h2.1, ih2 h1.2 h2.2⟩
  | unary _ _ _ ih =>
    intro h1 h2
    simp only [okExpr, reachExpr] at h1 h2 ⊢
    exact ih h1 h2
  | array _ _ ih =>
    intro h1 h2
    simp only [okExpr, reachExpr] at h1 h2 ⊢
    exact ih h1 h2
  | index _ _ _ _ ih1 ih2 =>
    intro h1 h2
    simp only [okExpr, reachExpr, Bool.and_eq_true] at h1 h2 ⊢
    exact ⟨ih1 h1.1 h2.1, ih2 h1.2 h2.2⟩
  | member _ _ _ _ ih =>
    intro h1 h2
    simp only [okExpr, reachExpr] at h1 h2 ⊢
    exact ih h1 h2
  | call callee args fn sp ih1 ih2 =>
    intro h1 h2
    cases callee with
    | var name b vsp =>
      simp only [okExpr, reachExpr, Bool.and_eq_true] at h1 h2 ⊢
      refine ⟨ih2 h1.1 h2.1, ?_⟩
      cases hg : (Eval.GlobalB.ofName name).isSome with
      | true => simpa [hg] using h1.2
      | false =>
        have a1 := h1.2
        have a2 := h2.2
        simp only [hg, Bool.false_eq_true, if_false, Bool.and_eq_true, Bool.false_or] at a1 a2 ⊢
        have hfn : (C.withPlan none).fnOk fn args.length = true := a1.1
        obtain ⟨i, rfl, _⟩ := fnOk_lt hfn
        have hKi : K i = true := a2
        refine ⟨by simpa [SCfg.fnOk, SCfg.withPlan] using a1.1, ?_⟩
        have e : (C.withPlan (some (planK C.arity.length K plan))).plan = some (planK C.arity.length K plan) := rfl
        rw [e, planK_fn, hK i hKi, hKi]
        simp
    | member obj f fs ms =>
      simp only [okExpr, reachExpr, Bool.and_eq_true] at h1 h2 ih1 ⊢
      exact ⟨ih1 h1.1 h2.1, ih2 h1.2 h2.2⟩
    | num => simp only [okExpr, reachExpr] at h1 h2 ⊢; exact ih2 h1 h2
    | bool => simp only [okExpr, reachExpr] at h1 h2 ⊢; exact ih2 h1 h2
    | null => simp only [okExpr, reachExpr] at h1 h2 ⊢; exact ih2 h1 h2
    | str => simp only [okExpr, reachExpr] at h1 h2 ⊢; exact ih2 h1 h2
    | array => simp only [okExpr, reachExpr] at h1 h2 ⊢; exact ih2 h1 h2
    | index => simp only [okExpr, reachExpr] at h1 h2 ⊢; exact ih2 h1 h2
    | binary => simp only [okExpr, reachExpr] at h1 h2 ⊢; exact ih2 h1 h2
    | unary => simp only [okExpr, reachExpr] at h1 h2 ⊢; exact ih2 h1 h2
    | call => simp only [okExpr, reachExpr] at h1 h2 ⊢; exact ih2 h1 h2

/-- **A program with the static guarantees as such** (`plan := none`, `resolve_ok`) **has them under
the extended plan** when `K` is kept by the plan and closed under the calls of the checked code. -/
theorem ok_reach_block (C : SCfg) (K : Nat → Bool) (plan : Option Eval.Plan)
    (hK : ∀ i, K i = true → Eval.Plan.prunesFn plan (some i) = false) (b : Block) : ∀ d,
    okBlock (C.withPlan none) d b = true → reachBlock K plan b = true →
      okBlock (C.withPlan (some (planK C.arity.length K plan))) d b = true := by
  have hE := ok_reach_expr C K plan hK
  have hplan : (C.withPlan (some (planK C.arity.length K plan))).plan = some (planK C.arity.length K plan) := rfl
  induction b using Block.rec
    (motive_1 := fun s => ∀ d, okStmt (C.withPlan none) d s = true → reachStmt K plan s = true →
      okStmt (C.withPlan (some (planK C.arity.length K plan))) d s = true)
    (motive_4 := fun ss => ∀ d, okStmts (C.withPlan none) d ss = true → reachStmts K plan ss = true →
      okStmts (C.withPlan (some (planK C.arity.length K plan))) d ss = true)
    (motive_3 := fun ob => ∀ d, okOptBlock (C.withPlan none) d ob = true → reachOptBlock K plan ob = true →
      okOptBlock (C.withPlan (some (planK C.arity.length K plan))) d ob = true) with
  | fnDef _ _ ps body fn _ _ ih =>
    rename_i d h1 h2
    simp only [okStmt, reachStmt, Bool.and_eq_true, Bool.or_eq_true, Bool.not_eq_true'] at h1 h2 ⊢
    refine ⟨by simpa [SCfg.fnOk, SCfg.withPlan] using h1.1, ?_⟩
    have hfn : (C.withPlan none).fnOk fn ps.length = true := h1.1
    obtain ⟨i, rfl, hlt⟩ := fnOk_lt hfn
    have hlt' : i < C.arity.length := hlt
    have hbody : okBlock (C.withPlan none) false body = true := by
      rcases h1.2 with h | h
      · have : Eval.Plan.prunesFn (C.withPlan none).plan (some i) = false := rfl
        rw [this] at h; cases h
      · exact h
    rcases h2 with h2 | h2
    · left
      have hKi : K i = false := h2
      rw [hplan, planK_fn, hKi]
      simp [hlt']
    · exact Or.inr (ih false hbody h2)
  | assign _ _ e => rename_i d h1 h2; simp only [okStmt, reachStmt] at h1 h2 ⊢; exact hE e h1 h2
  | assignExisting _ _ e => rename_i d h1 h2; simp only [okStmt, reachStmt] at h1 h2 ⊢; exact hE e h1 h2
  | assignIndex t e =>
    rename_i d h1 h2
    simp only [okStmt, reachStmt, Bool.and_eq_true] at h1 h2 ⊢
    exact ⟨⟨hE t h1.1.1 h2.1, hE e h1.1.2 h2.2⟩, by simpa [SCfg.withPlan] using h1.2⟩
  | ifS c _ _ _ _ ih1 ih2 =>
    rename_i d h1 h2
    simp only [okStmt, reachStmt, Bool.and_eq_true] at h1 h2 ⊢
    exact ⟨⟨hE c h1.1.1 h2.1.1, ih1 d h1.1.2 h2.1.2⟩, ih2 d h1.2 h2.2⟩
  | loop c _ _ _ ih =>
    rename_i d h1 h2
    simp only [okStmt, reachStmt, Bool.and_eq_true] at h1 h2 ⊢
    exact ⟨hE c h1.1 h2.1, ih true h1.2 h2.2⟩
  | block _ _ _ ih => rename_i d h1 h2; simp only [okStmt, reachStmt] at h1 h2 ⊢; exact ih d h1 h2
  | ret e =>
    rename_i d h1 h2
    cases e with
    | none => simp [okStmt]
    | some e => simp only [okStmt, reachStmt] at h1 h2 ⊢; exact hE e h1 h2
  | brk => rename_i d h1 _; simpa [okStmt] using h1
  | cont => rename_i d h1 _; simpa [okStmt] using h1
  | expr e => rename_i d h1 h2; simp only [okStmt, reachStmt] at h1 h2 ⊢; exact hE e h1 h2
  | mk _ _ ih => intro d h1 h2; simp only [okBlock, reachBlock] at h1 h2 ⊢; exact ih d h1 h2
  | nil => simp [okStmts]
  | cons s _ ih1 ih2 =>
    rename_i d h1 h2
    simp only [okStmts, reachStmts, Bool.and_eq_true, Bool.or_eq_true] at h1 h2 ⊢
    refine ⟨?_, ih2 d h1.2 h2.2⟩
    rcases h2.1 with hk | hk
    · exact Or.inl (by rw [hplan, planK_skipped]; exact hk)
    · right
      rcases h1.1 with a | a
      · have e : (C.withPlan none).plan = none := rfl
        rw [e, stmtSkipped_none] at a; cases a
      · exact ih1 d a hk
  | none => simp [okOptBlock]
  | some _ ih => rename_i d h1 h2; simp only [okOptBlock, reachOptBlock] at h1 h2 ⊢; exact ih d h1 h2

/-! ### A canonical `K`, computed from the annotations (executable) -/

mutual
  /-- Ids of the user calls of an expression. -/
  def callsExpr : Expr → List Nat
    | .num _ _ | .bool _ _ | .null _ | .str _ _ | .var _ _ _ => []
    | .binary _ l r _ => callsExpr l ++ callsExpr r
    | .unary _ x _ => callsExpr x
    | .array es _ => callsExprs es
    | .index a i _ _ => callsExpr a ++ callsExpr i
    | .member o _ _ _ => callsExpr o
    | .call (.member obj _ _ _) args _ _ => callsExpr obj ++ callsExprs args
    | .call (.var name _ _) args fn _ =>
        (if (Eval.GlobalB.ofName name).isSome then [] else fn.toList) ++ callsExprs args
    | .call _ args _ _ => callsExprs args
  def callsExprs : List Expr → List Nat
    | [] => []
    | e :: es => callsExpr e ++ callsExprs es
end

mutual
  /-- Ids of the user calls of the statements the plan does not skip, nested definitions excluded. -/
  def callsStmt (plan : Option Eval.Plan) : Stmt → List Nat
    | .assign _ _ e _ _ _ => callsExpr e
    | .assignExisting _ _ e _ _ _ => callsExpr e
    | .assignIndex t e _ _ => callsExpr t ++ callsExpr e
    | .ifS c t e _ _ => callsExpr c ++ callsBlock plan t ++ callsOptBlock plan e
    | .loop c b _ _ => callsExpr c ++ callsBlock plan b
    | .block b _ _ => callsBlock plan b
    | .fnDef _ _ _ _ _ _ _ => []
    | .ret (some e) _ _ => callsExpr e
    | .ret none _ _ => []
    | .brk _ _ => []
    | .cont _ _ => []
    | .expr e _ _ => callsExpr e
  def callsStmts (plan : Option Eval.Plan) : List Stmt → List Nat
    | [] => []
    | s :: rest => (if stmtSkipped plan s then [] else callsStmt plan s) ++ callsStmts plan rest
  def callsBlock (plan : Option Eval.Plan) : Block → List Nat
    | .mk ss _ => callsStmts plan ss
  def callsOptBlock (plan : Option Eval.Plan) : Option Block → List Nat
    | none => []
    | some b => callsBlock plan b
end

mutual
  /-- Every definition of the program (nested ones included) that carries an id, with its body. -/
  def defsStmt : Stmt → List (Nat × Block)
    | .fnDef _ _ _ body fn _ _ => (match fn with | some g => [(g, body)] | none => []) ++ defsBlock body
    | .ifS _ t e _ _ => defsBlock t ++ defsOptBlock e
    | .loop _ b _ _ => defsBlock b
    | .block b _ _ => defsBlock b
    | .assign _ _ _ _ _ _ => []
    | .assignExisting _ _ _ _ _ _ => []
    | .assignIndex _ _ _ _ => []
    | .ret _ _ _ => []
    | .brk _ _ => []
    | .cont _ _ => []
    | .expr _ _ _ => []
  def defsStmts : List Stmt → List (Nat × Block)
    | [] => []
    | s :: rest => defsStmt s ++ defsStmts rest
  def defsBlock : Block → List (Nat × Block)
    | .mk ss _ => defsStmts ss
  def defsOptBlock : Option Block → List (Nat × Block)
    | none => []
    | some b => defsBlock b
end

def addIds (xs : List Nat) (K : List Nat) : List Nat := xs.foldl (fun acc x => if acc.contains x then acc else x :: acc) K

/-- One round: the calls of the bodies of the definitions already in `K`. -/
def reachStep (plan : Option Eval.Plan) (defs : List (Nat × Block)) (K : List Nat) : List Nat :=
  defs.foldl (fun acc d => if K.contains d.1 then addIds (callsBlock plan d.2) acc else acc) K

def iterN {α : Type} (f : α → α) : Nat → α → α
  | 0, x => x
  | n + 1, x => iterN f n (f x)

/-- The functions reachable through calls from the top-level code: the root (id 0), what the kept
top-level statements call, and — one round per definition — what the bodies of reached definitions
call. -/
def reachK (plan : Option Eval.Plan) (root : Block) : List Nat :=
  let defs := defsBlock root
  iterN (reachStep plan defs) defs.length (addIds (callsBlock plan root) [0])

/-- The decidable hypothesis on the plan, with the canonical `K`. -/
def planReaches (plan : Option Eval.Plan) (root : Block) : Bool := keptReach (reachK plan root) plan root

/-! ### Every statement numbered (what the resolver does to the program it annotates) -/

mutual
  /-- Every statement carries a `StmtId` and every definition a `FunctionId`. -/
  def numStmt : Stmt → Bool
    | .fnDef _ _ _ body fn sid _ => fn.isSome && sid.isSome && numBlock body
    | .assign _ _ _ _ sid _ => sid.isSome
    | .assignExisting _ _ _ _ sid _ => sid.isSome
    | .assignIndex _ _ sid _ => sid.isSome
    | .ifS _ t e sid _ => sid.isSome && numBlock t && numOptBlock e
    | .loop _ b sid _ => sid.isSome && numBlock b
    | .block b sid _ => sid.isSome && numBlock b
    | .ret _ sid _ => sid.isSome
    | .brk sid _ => sid.isSome
    | .cont sid _ => sid.isSome
    | .expr _ sid _ => sid.isSome
  def numStmts : List Stmt → Bool
    | [] => true
    | s :: rest => numStmt s && numStmts rest
  def numBlock : Block → Bool
    | .mk ss _ => numStmts ss
  def numOptBlock : Option Block → Bool
    | none => true
    | some b => numBlock b
end

end NaijaVerif.Bridge
