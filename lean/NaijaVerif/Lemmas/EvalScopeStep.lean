import NaijaVerif.Lemmas.EvalScopeSim
/-
C04, dynamic half — the induction step of the simulation, one theorem per evaluator function, and
the result for every fuel (`ag_all`).
-/
namespace NaijaVerif.Eval
open NaijaVerif

variable {N : Type} [NumOps N]

theorem ag_sel_step {cfg : RunCfg} {f : Nat} (h : AgAll (N := N) cfg f) (Γ : List Binder)
    (es : List (Except (PanicSite × Span) Expr)) (st : State N) (hm : MR cfg Γ st) (hws : WsSel Γ es) :
    Ag cfg Γ st (evalSel cfg.dyn (f + 1) es st) (evalSel cfg.lex (f + 1) es st) := by
  have hF0 : Frame st st := Frame.refl st
  cases es with
  | nil => simp only [evalSel]; ag_close h
  | cons e rest =>
    cases e with
    | error s => simp only [evalSel]; ag_close h
    | ok e => simp only [evalSel]; ag_close h

theorem ag_idxs_step {cfg : RunCfg} {f : Nat} (h : AgAll (N := N) cfg f) (Γ : List Binder)
    (is : List (Expr × Span)) (st : State N) (hm : MR cfg Γ st) (hws : ∀ q ∈ is, wsExpr Γ q.1 = true) :
    Ag cfg Γ st (evalIdxs cfg.dyn (f + 1) is st) (evalIdxs cfg.lex (f + 1) is st) := by
  have hF0 : Frame st st := Frame.refl st
  cases is with
  | nil => simp only [evalIdxs]; ag_close h
  | cons q rest =>
    obtain ⟨e, isp⟩ := q
    have h1 : wsExpr Γ e = true := hws (e, isp) List.mem_cons_self
    have h2 : ∀ q ∈ rest, wsExpr Γ q.1 = true := fun q hq => hws q (List.mem_cons_of_mem _ hq)
    simp only [evalIdxs]; ag_close h

theorem ag_mutOp_step {cfg : RunCfg} {f : Nat} (h : AgAll (N := N) cfg f) (Γ : List Binder)
    (m : MutM) (args : List Expr) (sp : Span) (st : State N) (hm : MR cfg Γ st) (hws : wsExprs Γ args = true) :
    Ag cfg Γ st (evalMutOp cfg.dyn (f + 1) m args sp st) (evalMutOp cfg.lex (f + 1) m args sp st) := by
  have hF0 : Frame st st := Frame.refl st
  cases m with
  | cmd c => cases c <;> simp only [evalMutOp] <;> ag_close h
  | _ => simp only [evalMutOp] <;> ag_close h

theorem ag_stmts_step {cfg : RunCfg} {f : Nat} (h : AgAll (N := N) cfg f) (Γ : List Binder)
    (ss : List Stmt) (st : State N) (hm : MR cfg Γ st) (hws : wsStmts Γ ss = true) :
    Ag cfg Γ st (execStmts cfg.dyn (f + 1) ss st) (execStmts cfg.lex (f + 1) ss st) := by
  have hF0 : Frame st st := Frame.refl st
  cases ss with
  | nil => simp only [execStmts]; ag_close h
  | cons s rest =>
    simp only [wsStmts, Bool.and_eq_true] at hws
    obtain ⟨h1, h2⟩ := hws
    by_cases hp : Plan.prunesStmt cfg.plan s.sid = true
    · simp only [execStmts, dyn_plan, lex_plan, hp, ↓reduceIte]; ag_close h
    · simp only [execStmts, dyn_plan, lex_plan, hp]; ag_close h

theorem ag_loop_step {cfg : RunCfg} {f : Nat} (h : AgAll (N := N) cfg f) (Γ : List Binder)
    (c : Expr) (b : Block) (sp : Span) (st : State N) (hm : MR cfg Γ st) (hc : wsExpr Γ c = true)
    (hb : wsBlock Γ b = true) :
    Ag cfg Γ st (loopW cfg.dyn (f + 1) c b sp st) (loopW cfg.lex (f + 1) c b sp st) := by
  have hF0 : Frame st st := Frame.refl st
  simp only [loopW]; ag_close h

theorem ag_block_step {cfg : RunCfg} {f : Nat} (h : AgAll (N := N) cfg f) (Γ : List Binder)
    (b : Block) (st : State N) (hm : MR cfg Γ st) (hws : wsBlock Γ b = true) :
    Ag cfg Γ st (execBlock cfg.dyn (f + 1) b st) (execBlock cfg.lex (f + 1) b st) := by
  cases b with
  | mk ss sp =>
    simp only [wsBlock, Bool.and_eq_true] at hws
    obtain ⟨hfr, hss⟩ := hws
    simp only [execBlock, Block.stmts, Block.span]
    rw [hoist_cfg cfg cfg.dyn rfl, hoist_cfg cfg cfg.lex rfl]
    obtain ⟨T, e, hmT⟩ := hm.enterBlock (.block sp) ss hfr hss
    rw [e]
    refine Ag.bindX (h.stmts _ ss _ hmT hss) ?_
    intro flow st2 hm2 hF2
    obtain ⟨hm3, hF3⟩ := hm.pop (sti := { pushScope st (.block sp) st.chain [] (declIds ss) with env := T :: st.env })
      rfl (Nat.le_succ _) hF2 hm2.slots
    exact Ag.ok hm3 hF3 _

theorem ag_stmt_step {cfg : RunCfg} {f : Nat} (h : AgAll (N := N) cfg f) (Γ : List Binder)
    (s : Stmt) (st : State N) (hm : MR cfg Γ st) (hws : wsStmt Γ s = true) :
    Ag cfg Γ st (execStmt cfg.dyn (f + 1) s st) (execStmt cfg.lex (f + 1) s st) := by
  have hF0 : Frame st st := Frame.refl st
  cases s with
  | assign var vsp e bind sid sp =>
    simp only [wsStmt, Bool.and_eq_true] at hws
    obtain ⟨he, hb⟩ := hws
    simp only [execStmt]
    refine Ag.bind (h.expr _ _ _ hm he) ?_
    intro v st1 hm1 hF1
    obtain ⟨hm2, hF2⟩ := hm1.define hb var v
    exact Ag.ok hm2 (hF1.trans hF2) _
  | assignExisting var vsp e bind sid sp =>
    simp only [wsStmt, Bool.and_eq_true] at hws
    obtain ⟨he, hb⟩ := hws
    simp only [execStmt]
    refine Ag.bind (h.expr _ _ _ hm he) ?_
    intro v st1 hm1 hF1
    rw [assign_agree hm1 hb]
    cases ha : assign cfg.lex st1 bind var v with
    | none => exact Ag.trap
    | some st2 =>
      simp only [assign] at ha
      split at ha
      · cases ha
        obtain ⟨hm2, hF2⟩ := hm1.updateAt _ _
        exact Ag.ok hm2 (hF1.trans hF2) _
      · cases ha
  | assignIndex target e sid sp =>
    simp only [wsStmt, Bool.and_eq_true] at hws
    obtain ⟨ht, he⟩ := hws
    simp only [execStmt]
    refine Ag.bind (h.expr _ _ _ hm he) ?_
    intro v st1 hm1 hF1
    cases hlv : lvOf target with
    | other => exact Ag.trap
    | badRoot => exact Ag.trap
    | path name bind idxs =>
      obtain ⟨hb, hidx⟩ := lvOf_ws ht hlv
      simp only
      refine Ag.bind (Ag.rebase hF1 (h.idxs _ _ _ hm1 hidx)) ?_
      intro path st2 hm2 hF2
      refine Ag.bind (Ag.ofAssignIndex hm2 hF2 hb) ?_
      intro _ st3 hm3 hF3
      exact Ag.ok hm3 hF3 _
  | ifS cond thenB elseB sid sp =>
    simp only [wsStmt, Bool.and_eq_true] at hws
    obtain ⟨⟨hc, ht⟩, he⟩ := hws
    cases elseB with
    | none => simp only [execStmt]; ag_close h
    | some eb =>
      have he' : wsBlock Γ eb = true := by simpa [wsOptBlock] using he
      simp only [execStmt]; ag_close h
  | loop cond body sid sp =>
    simp only [wsStmt, Bool.and_eq_true] at hws
    obtain ⟨hc, hb⟩ := hws
    simp only [execStmt]; ag_close h
  | block b sid sp =>
    simp only [wsStmt] at hws
    simp only [execStmt]; ag_close h
  | fnDef => simp only [execStmt]; ag_close h
  | ret e sid sp =>
    cases e with
    | none => simp only [execStmt]; ag_close h
    | some e =>
      simp only [wsStmt] at hws
      simp only [execStmt]; ag_close h
  | brk => simp only [execStmt]; ag_close h
  | cont => simp only [execStmt]; ag_close h
  | expr e sid sp =>
    simp only [wsStmt] at hws
    simp only [execStmt]; ag_close h

theorem ag_expr_step {cfg : RunCfg} {f : Nat} (h : AgAll (N := N) cfg f) (Γ : List Binder)
    (e : Expr) (st : State N) (hm : MR cfg Γ st) (hws : wsExpr Γ e = true) :
    Ag cfg Γ st (evalExpr cfg.dyn (f + 1) e st) (evalExpr cfg.lex (f + 1) e st) := by
  have hF0 : Frame st st := Frame.refl st
  cases e with
  | num lex sp => simp only [evalExpr]; ag_close h
  | bool b sp => simp only [evalExpr]; ag_close h
  | null sp => simp only [evalExpr]; ag_close h
  | str parts sp =>
    cases parts with
    | static s => simp only [evalExpr]; ag_close h
    | interp segs =>
      simp only [wsExpr] at hws
      simp only [evalExpr]
      rw [interp_agree hm segs [] hws]
      ag_close h
  | var name bind sp =>
    simp only [wsExpr] at hws
    simp only [evalExpr]
    rw [lookupVal_agree hm hws]
    ag_close h
  | binary op l r sp =>
    simp only [wsExpr, Bool.and_eq_true] at hws
    obtain ⟨hl, hr⟩ := hws
    simp only [evalExpr]; ag_close h
  | unary op x sp =>
    simp only [wsExpr] at hws
    simp only [evalExpr]; ag_close h
  | array es sp =>
    simp only [wsExpr] at hws
    simp only [evalExpr]; ag_close h
  | index a i isp sp =>
    simp only [wsExpr, Bool.and_eq_true] at hws
    obtain ⟨ha, hi⟩ := hws
    simp only [evalExpr]; ag_close h
  | member obj field fsp sp => simp only [evalExpr]; ag_close h
  | call callee args fn sp =>
    cases callee with
    | member obj field fsp msp =>
      simp only [wsExpr, Bool.and_eq_true] at hws
      obtain ⟨hobj, hargs⟩ := hws
      simp only [evalExpr]
      cases hmm : MutM.ofName field with
      | some m =>
        simp only
        refine Ag.bind (h.mutOp _ _ _ _ _ hm hargs) ?_
        intro op st1 hm1 hF1
        cases hlv : lvOf obj with
        | other => exact Ag.err
        | badRoot => exact Ag.trap
        | path name bind idxs =>
          obtain ⟨hb, hidx⟩ := lvOf_ws hobj hlv
          simp only
          refine Ag.bind (Ag.rebase hF1 (h.idxs _ _ _ hm1 hidx)) ?_
          intro path st2 hm2 hF2
          exact Ag.ofApplyMut hm2 hF2 hb
      | none =>
        simp only
        ag_close h
    | var name b vsp =>
      simp only [wsExpr, Bool.and_eq_true] at hws
      obtain ⟨hargs, hfn⟩ := hws
      simp only [evalExpr]
      cases hg : GlobalB.ofName name with
      | some gb => simp only; ag_close h
      | none =>
        have hfb : fnBoundIn Γ fn = true := by simpa [hg] using hfn
        simp only
        rw [lookupFn_agree hm hfb]
        cases hfd : lookupFn cfg.lex st fn name with
        | none => exact Ag.trap
        | some fd =>
          simp only
          refine Ag.bind (h.sel _ _ _ hm (WsSel.map_ok hargs)) ?_
          intro vs st1 hm1 hF1
          split
          · exact Ag.trap
          · cases hids : paramIds fd with
            | none => exact Ag.trap
            | some ids =>
              have hfd1 : lookupFn cfg.lex st1 fn name = some fd := by
                rw [lookupFn_frame hF1]; exact hfd
              obtain ⟨j, _, hmP, hbody⟩ := hm1.enterCall hfd1 hids vs
              simp only
              refine Ag.bindX (h.block _ fd.body _ hmP hbody) ?_
              intro flow st3 hm3 hF3
              obtain ⟨hm4, hF4⟩ := hm1.pop
                (sti := pushScope st1 (.params fd.id) fd.chain (paramSlots fd.params ids vs) (ids.filterMap id))
                rfl (Nat.le_succ _) hF3 hm3.slots
              have hF04 := hF1.trans hF4
              cases flow with
              | cont => exact Ag.ok hm4 hF04 _
              | ret v => exact Ag.ok hm4 hF04 _
              | brk => exact Ag.trap
              | next => exact Ag.trap
    | _ => simp only [evalExpr]; ag_close h

/-- One more unit of fuel. -/
theorem ag_step {cfg : RunCfg} {f : Nat} (h : AgAll (N := N) cfg f) : AgAll (N := N) cfg (f + 1) :=
  ⟨ag_expr_step h, ag_sel_step h, ag_idxs_step h, ag_mutOp_step h, ag_stmt_step h, ag_stmts_step h,
   ag_block_step h, ag_loop_step h⟩

/-- **The simulation**, for every fuel. -/
theorem ag_all (cfg : RunCfg) : ∀ f, AgAll (N := N) cfg f
  | 0 => ag_zero cfg
  | f + 1 => ag_step (ag_all cfg f)

end NaijaVerif.Eval
