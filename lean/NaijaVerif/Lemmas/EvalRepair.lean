import NaijaVerif.Lemmas.EvalBasic
/-
The two settings of `cfg.panics` describe the same runs: `cfg.repaired` (= `{cfg with panics :=
false}`, every panic site reports the runtime error `site.fallback`) simulates `cfg` step by step —
a run that does not panic is unchanged, a run that panics at `site` with output `out` becomes a run
that ends with the runtime error `site.fallback` and the same output.  Consequently (i) the sites
enumerated in `PanicSite` are the ONLY sources of a panic in the model (`repaired_never_panics`),
and (ii) "never panics" for the pinned code is equivalent to "the repaired code never reports an
error that stems from a site".
-/
namespace NaijaVerif.Eval
open NaijaVerif

variable {N : Type}

/-- The configuration of the repaired code. -/
def RunCfg.repaired (cfg : RunCfg) : RunCfg := { cfg with panics := false }

/-- `r'` (repaired) simulates `r`: a panic at a FIXED site becomes the runtime error
`site.fallback`, everything else (a panic at a residual site included) is unchanged. -/
def Sim {α : Type} (r r' : Res N α) : Prop :=
  match r with
  | .panic s st => (s.fixed = true → ∃ sp, r' = .err s.fallback sp st) ∧ (s.fixed = false → r' = .panic s st)
  | _ => r' = r

theorem Sim.refl_ok {α : Type} (a : α) (st : State N) : Sim (Res.ok a st) (Res.ok a st) := rfl
theorem Sim.refl_err {α : Type} (k : RtKind) (sp : Span) (st : State N) :
    Sim (Res.err k sp st : Res N α) (Res.err k sp st) := rfl
theorem Sim.refl_fuel {α : Type} : Sim (Res.fuel : Res N α) Res.fuel := rfl

theorem Sim.bind {α β : Type} {r r' : Res N α} {k k' : α → State N → Res N β}
    (h : Sim r r') (hk : ∀ a st, Sim (k a st) (k' a st)) : Sim (r.bind k) (r'.bind k') := by
  cases r with
  | ok a st => simp only [Sim] at h; subst h; exact hk a st
  | err kd sp st => simp only [Sim] at h; subst h; exact rfl
  | panic s st =>
    obtain ⟨h1, h2⟩ := h
    cases hf : s.fixed with
    | true =>
      obtain ⟨sp, h⟩ := h1 hf
      subst h
      exact ⟨fun _ => ⟨sp, rfl⟩, fun hc => (by rw [hf] at hc; cases hc)⟩
    | false =>
      have h := h2 hf
      subst h
      exact ⟨fun hc => (by rw [hf] at hc; cases hc), fun _ => rfl⟩
  | fuel => simp only [Sim] at h; subst h; exact rfl

theorem sim_trap {α : Type} (cfg : RunCfg) (site : PanicSite) (sp : Span) (st : State N) :
    Sim (trap cfg site sp st : Res N α) (trap cfg.repaired site sp st) := by
  unfold NaijaVerif.Eval.trap RunCfg.repaired
  cases hf : site.fixed with
  | false => simp [Sim, hf]
  | true =>
    cases cfg.panics with
    | true => simp [Sim, hf]
    | false => simp [Sim]

theorem sim_ofFault {α : Type} (cfg : RunCfg) (flt : Fault) (sp : Span) (st : State N) :
    Sim (Res.ofFault cfg flt sp st : Res N α) (Res.ofFault cfg.repaired flt sp st) := by
  cases flt with
  | rt k s => exact rfl
  | panic s => exact sim_trap cfg s sp st

theorem sim_ofExcept {α : Type} (cfg : RunCfg) (x : Except Fault α) (sp : Span) (st : State N) :
    Sim (Res.ofExcept cfg x sp st) (Res.ofExcept cfg.repaired x sp st) := by
  cases x with
  | ok a => exact rfl
  | error flt => exact sim_ofFault cfg flt sp st

/-! The helpers that read only `lookup` / `plan` / `policy` / `std` do not see the switch. -/

@[simp] theorem repaired_lookupVal [NumOps N] (cfg : RunCfg) (st : State N) (b : Option Nat) (n : Bytes) :
    lookupVal cfg.repaired st b n = lookupVal cfg st b n := rfl
@[simp] theorem repaired_slotOf (cfg : RunCfg) (st : State N) (b : Option Nat) (n : Bytes) :
    slotOf cfg.repaired st b n = slotOf cfg st b n := rfl
@[simp] theorem repaired_assign (cfg : RunCfg) (st : State N) (b : Option Nat) (n : Bytes) (v : Value N) :
    assign cfg.repaired st b n v = assign cfg st b n v := rfl
@[simp] theorem repaired_lookupFn (cfg : RunCfg) (st : State N) (a : Option Nat) (n : Bytes) :
    lookupFn cfg.repaired st a n = lookupFn cfg st a n := rfl
@[simp] theorem repaired_std (cfg : RunCfg) : cfg.repaired.std = cfg.std := rfl
@[simp] theorem repaired_plan (cfg : RunCfg) : cfg.repaired.plan = cfg.plan := rfl

theorem repaired_hoist (cfg : RunCfg) (ss : List Stmt) (st : State N) :
    hoist cfg.repaired ss st = hoist cfg ss st := by
  induction ss generalizing st with
  | nil => rfl
  | cons s rest ih =>
    cases s <;> simp only [hoist, repaired_plan, ih]

variable [NumOps N]

theorem repaired_interp (cfg : RunCfg) (st : State N) (segs : List Seg) (acc : Bytes) :
    interp cfg.repaired st segs acc = interp cfg st segs acc := by
  induction segs generalizing acc with
  | nil => rfl
  | cons s rest ih =>
    cases s with
    | lit x => simp only [interp, ih]
    | var n b => simp only [interp, repaired_lookupVal, ih]

theorem sim_applyMut (cfg : RunCfg) (st : State N) (name : Bytes) (bind : Option Nat)
    (path : List (Nat × Span)) (op : MutOp N) (sp : Span) :
    Sim (applyMut cfg st name bind path op sp) (applyMut cfg.repaired st name bind path op sp) := by
  unfold applyMut
  simp only [repaired_slotOf]
  split
  · exact sim_trap ..
  · split
    · exact sim_trap ..
    · split
      · exact sim_ofFault ..
      · split
        · exact sim_ofFault ..
        · exact rfl

theorem sim_assignIndex (cfg : RunCfg) (st : State N) (name : Bytes) (bind : Option Nat)
    (path : List (Nat × Span)) (v : Value N) (sp : Span) :
    Sim (assignIndex cfg st name bind path v sp) (assignIndex cfg.repaired st name bind path v sp) := by
  unfold assignIndex
  simp only [repaired_slotOf]
  split
  · exact sim_trap ..
  · split
    · exact sim_trap ..
    · split
      · exact sim_ofFault ..
      · exact rfl

theorem sim_runCommand (cfg : RunCfg) (c : Proc.Cmd) (sp : Span) (st : State N) :
    Sim (runCommand cfg c sp st) (runCommand cfg.repaired c sp st) := by
  have : runCommand cfg.repaired c sp st = runCommand cfg c sp st := rfl
  rw [this]
  cases h : runCommand cfg c sp st with
  | panic s t =>
    exfalso
    unfold runCommand at h
    split at h
    · simp at h
    · split at h
      · simp at h
      · split at h <;> simp at h
  | _ => exact rfl

theorem sim_globalCall (cfg : RunCfg) (b : GlobalB) (v : Value N) (sp : Span) (st : State N) :
    Sim (globalCall cfg b v sp st) (globalCall cfg.repaired b v sp st) := by
  cases b with
  | command =>
    unfold globalCall
    cases v <;> first | exact rfl | exact sim_trap ..
  | readLine => unfold globalCall; simp only; split <;> exact rfl
  | _ => exact rfl

/-- All eight functions under `cfg.repaired` simulate those under `cfg` at the same fuel. -/
structure SimAll (cfg : RunCfg) (f : Nat) : Prop where
  expr : ∀ (e : Expr) (st : State N), Sim (evalExpr cfg f e st) (evalExpr cfg.repaired f e st)
  sel : ∀ es (st : State N), Sim (evalSel cfg f es st) (evalSel cfg.repaired f es st)
  idxs : ∀ is (st : State N), Sim (evalIdxs cfg f is st) (evalIdxs cfg.repaired f is st)
  mutOp : ∀ m args sp (st : State N), Sim (evalMutOp cfg f m args sp st) (evalMutOp cfg.repaired f m args sp st)
  stmt : ∀ s (st : State N), Sim (execStmt cfg f s st) (execStmt cfg.repaired f s st)
  stmts : ∀ ss (st : State N), Sim (execStmts cfg f ss st) (execStmts cfg.repaired f ss st)
  block : ∀ b (st : State N), Sim (execBlock cfg f b st) (execBlock cfg.repaired f b st)
  loop : ∀ c b sp (st : State N), Sim (loopW cfg f c b sp st) (loopW cfg.repaired f c b sp st)

macro "sim_close" h:ident : tactic => `(tactic| (
  repeat (first
    | exact Sim.refl_ok _ _
    | exact Sim.refl_err _ _ _
    | exact Sim.refl_fuel
    | exact sim_trap _ _ _ _
    | exact sim_ofExcept _ _ _ _
    | exact sim_ofFault _ _ _ _
    | exact sim_applyMut _ _ _ _ _ _ _
    | exact sim_assignIndex _ _ _ _ _ _ _
    | exact sim_runCommand _ _ _ _
    | exact sim_globalCall _ _ _ _ _
    | exact SimAll.expr $h _ _
    | exact SimAll.sel $h _ _
    | exact SimAll.idxs $h _ _
    | exact SimAll.mutOp $h _ _ _ _
    | exact SimAll.stmt $h _ _
    | exact SimAll.stmts $h _ _
    | exact SimAll.block $h _ _
    | exact SimAll.loop $h _ _ _ _
    | (apply Sim.bind)
    | (intro _ _)
    | split)))

theorem sim_zero (cfg : RunCfg) : SimAll (N := N) cfg 0 :=
  ⟨fun _ _ => by simp only [evalExpr]; exact rfl, fun _ _ => by simp only [evalSel]; exact rfl,
   fun _ _ => by simp only [evalIdxs]; exact rfl, fun _ _ _ _ => by simp only [evalMutOp]; exact rfl,
   fun _ _ => by simp only [execStmt]; exact rfl, fun _ _ => by simp only [execStmts]; exact rfl,
   fun _ _ => by simp only [execBlock]; exact rfl, fun _ _ _ _ => by simp only [loopW]; exact rfl⟩

theorem sim_step {cfg : RunCfg} {f : Nat} (h : SimAll (N := N) cfg f) : SimAll (N := N) cfg (f + 1) := by
  refine ⟨?_, ?_, ?_, ?_, ?_, ?_, ?_, ?_⟩
  · intro e st
    cases e with
    | str parts sp =>
      cases parts <;> simp only [evalExpr, repaired_interp] <;> sim_close h
    | call callee args fn sp =>
      cases callee <;> simp only [evalExpr, repaired_lookupFn, repaired_std] <;> sim_close h
    | _ => simp only [evalExpr, repaired_lookupVal] <;> sim_close h
  · intro es st
    cases es with
    | nil => simp only [evalSel]; exact rfl
    | cons e rest => cases e <;> simp only [evalSel] <;> sim_close h
  · intro is st
    cases is with
    | nil => simp only [evalIdxs]; exact rfl
    | cons e rest => obtain ⟨e, isp⟩ := e; simp only [evalIdxs]; sim_close h
  · intro m args sp st
    cases m with
    | cmd c => cases c <;> simp only [evalMutOp] <;> sim_close h
    | _ => simp only [evalMutOp] <;> sim_close h
  · intro s st
    cases s with
    | ret e _ _ => cases e <;> simp only [execStmt] <;> sim_close h
    | _ => simp only [execStmt, repaired_assign] <;> sim_close h
  · intro ss st
    cases ss with
    | nil => simp only [execStmts]; exact rfl
    | cons s rest =>
      by_cases hp : Plan.prunesStmt cfg.plan s.sid = true
      · simp only [execStmts, repaired_plan, hp, ↓reduceIte]; sim_close h
      · simp only [execStmts, repaired_plan, hp, ↓reduceIte]; sim_close h
  · intro b st
    simp only [execBlock, repaired_hoist]; sim_close h
  · intro c b sp st
    simp only [loopW]; sim_close h

theorem sim_all (cfg : RunCfg) : ∀ f, SimAll (N := N) cfg f
  | 0 => sim_zero cfg
  | f + 1 => sim_step (sim_all cfg f)

end NaijaVerif.Eval
