import NaijaVerif.Lemmas.AnalysisSim
/-
The relational simulation behind T3, T4 and the extended plan theorem of C03.

A pruned run (`cfg.skip`, `cfg.dropFn`) is compared with the plain run.  The states are related by
`Rel`: same output, same function scopes, and environments that agree except on two sets of locals
(given as predicates): `D2` — locals no statement ever reads (their values may differ) and
`D1 ⊆ D2` — locals all of whose stores are removed (their slots may be missing).  The ghost fields
(`trace`, `looked`) are not compared.  The plain run additionally satisfies the invariants of T1
(`Inv`) and of T3 (every function looked up is body-reachable).
-/
namespace NaijaVerif.C03
open NaijaVerif NaijaVerif.Analysis NaijaVerif.AEval

variable {V : Type}

/-! ### Environments that agree outside `D1`/`D2` -/

/-- `Option`-lifted relation: both defined and related, or both undefined. -/
def ORel {α : Type} (r : α → α → Prop) : Option α → Option α → Prop
  | some a, some b => r a b
  | none, none => True
  | _, _ => False


def SlotsRel (D2 : Nat → Bool) : List (Slot V) → List (Slot V) → Prop
  | [], [] => True
  | a :: as, b :: bs => a.id = b.id ∧ (D2 a.id = true ∨ a.val = b.val) ∧ SlotsRel D2 as bs
  | _, _ => False

def keep (D1 : Nat → Bool) : List (Slot V) → List (Slot V)
  | [] => []
  | s :: ss => if D1 s.id then keep D1 ss else s :: keep D1 ss

def ScopeRel (D1 D2 : Nat → Bool) (a b : List (Slot V)) : Prop := SlotsRel D2 (keep D1 a) (keep D1 b)

def EnvRel (D1 D2 : Nat → Bool) : List (Scope V) → List (Scope V) → Prop
  | [], [] => True
  | a :: as, b :: bs => a.tag = b.tag ∧ ScopeRel D1 D2 a.slots b.slots ∧ EnvRel D1 D2 as bs
  | _, _ => False

theorem SlotsRel.refl (D2 : Nat → Bool) : ∀ l : List (Slot V), SlotsRel D2 l l
  | [] => trivial
  | _ :: as => ⟨rfl, Or.inr rfl, SlotsRel.refl D2 as⟩

theorem findSlot_keep {D1 : Nat → Bool} {id : Nat} (h : D1 id = false) : ∀ sc : List (Slot V),
    findSlot id (keep D1 sc) = findSlot id sc
  | [] => rfl
  | s :: ss => by
      have ih := findSlot_keep h ss
      by_cases hs : s.id = id
      · simp [keep, findSlot, hs, h]
      · have hne : (s.id == id) = false := by simpa using hs
        cases hc : D1 s.id <;> simp [keep, hc, findSlot, hne, ih]

theorem findSlot_rel {D2 : Nat → Bool} {id : Nat} (h : D2 id = false) : ∀ (a b : List (Slot V)), SlotsRel D2 a b →
    findSlot id a = findSlot id b
  | [], [], _ => rfl
  | [], _ :: _, hr => by cases hr
  | _ :: _, [], hr => by cases hr
  | x :: xs, y :: ys, hr => by
      obtain ⟨hid, hv, hrest⟩ := hr
      have ih := findSlot_rel h xs ys hrest
      simp only [findSlot, ← hid]
      by_cases hx : x.id = id
      · have : x.val = y.val := by
          rcases hv with hv | hv
          · rw [hx, h] at hv; cases hv
          · exact hv
        simp [hx, this]
      · have hne : (x.id == id) = false := by simpa using hx
        simp [hne, ih]

/-- The scopes found for a tag are related (or there is none on either side). -/
theorem findScope_rel {D1 D2 : Nat → Bool} (tg : Nat) :
    ∀ (a b : List (Scope V)), EnvRel D1 D2 a b →
      ORel (fun x y => ScopeRel D1 D2 x.slots y.slots) (findScope tg a) (findScope tg b)
  | [], [], _ => by simp [findScope, ORel]
  | [], _ :: _, hr => by cases hr
  | _ :: _, [], hr => by cases hr
  | x :: xs, y :: ys, hr => by
      obtain ⟨ht, hs, hrest⟩ := hr
      simp only [findScope, ← ht]
      split
      · exact hs
      · exact findScope_rel tg xs ys hrest

theorem lookup_rel {D1 D2 : Nat → Bool} (hd : ∀ l, D1 l = true → D2 l = true) {id : Nat} (h : D2 id = false)
    (ds : Nat → Option Nat) (a b : List (Scope V)) (hr : EnvRel D1 D2 a b) :
    lookupEnv ds id a = lookupEnv ds id b := by
  have h1 : D1 id = false := by
    cases hc : D1 id with
    | false => rfl
    | true => rw [hd id hc] at h; cases h
  simp only [lookupEnv]
  cases ds id with
  | none => rfl
  | some tg =>
    have hf := findScope_rel tg a b hr
    cases ea : findScope tg a with
    | none => cases eb : findScope tg b <;> simp only [ea, eb, ORel] at hf ⊢
    | some sa =>
      cases eb : findScope tg b with
      | none => simp only [ea, eb, ORel] at hf
      | some sb =>
        simp only [ea, eb, ORel] at hf ⊢
        rw [← findSlot_keep h1 sa.slots, ← findSlot_keep h1 sb.slots]
        exact findSlot_rel h _ _ hf

theorem readAll_rel {D1 D2 : Nat → Bool} (hd : ∀ l, D1 l = true → D2 l = true) (ds : Nat → Option Nat)
    {a b : List (Scope V)}
    (hr : EnvRel D1 D2 a b) : ∀ ids : List (Option Nat), (∀ id, some id ∈ ids → D2 id = false) →
    readAll ds a ids = readAll ds b ids
  | [], _ => rfl
  | none :: _, _ => rfl
  | some id :: ids, h => by
      have e1 := lookup_rel hd (h id (by simp)) ds a b hr
      have e2 := readAll_rel hd ds hr ids (fun i hi => h i (List.mem_cons_of_mem _ hi))
      simp only [readAll, e1, e2]

theorem setSlot_rel {D2 : Nat → Bool} {id : Nat} {v1 v2 : V} (hv : D2 id = true ∨ v1 = v2) :
    ∀ (a b : List (Slot V)), SlotsRel D2 a b → ORel (SlotsRel D2) (setSlot id v1 a) (setSlot id v2 b)
  | [], [], _ => by simp [setSlot, ORel]
  | [], _ :: _, hr => by cases hr
  | _ :: _, [], hr => by cases hr
  | x :: xs, y :: ys, hr => by
      obtain ⟨hid, hvv, hrest⟩ := hr
      have ih := setSlot_rel hv xs ys hrest
      simp only [setSlot, ← hid]
      by_cases hx : x.id = id
      · simp only [hx, beq_self_eq_true, ↓reduceIte, ORel]
        refine ⟨rfl, ?_, hrest⟩
        · rcases hv with hv | hv
          · exact Or.inl (by simpa [hx] using hv)
          · exact Or.inr hv
      · have hne : (x.id == id) = false := by simpa using hx
        simp only [hne, Bool.false_eq_true, ↓reduceIte]
        cases h1 : setSlot id v1 xs <;> cases h2 : setSlot id v2 ys <;> simp [h1, h2, ORel] at ih ⊢
        exact ⟨hid, hvv, ih⟩

theorem setSlot_keep {D1 : Nat → Bool} {id : Nat} {v : V} (h : D1 id = false) : ∀ sc : List (Slot V),
    (setSlot id v sc).map (keep D1) = setSlot id v (keep D1 sc)
  | [] => rfl
  | s :: ss => by
      have ih := setSlot_keep (v := v) h ss
      by_cases hs : s.id = id
      · simp [setSlot, keep, hs, h]
      · have hne : (s.id == id) = false := by simpa using hs
        cases hc : D1 s.id
        · simp only [setSlot, hne, keep, hc, Bool.false_eq_true, ↓reduceIte]
          rw [← ih]
          cases setSlot id v ss <;> simp [keep, hc]
        · simp only [setSlot, hne, keep, hc, Bool.false_eq_true, ↓reduceIte]
          rw [← ih]
          cases setSlot id v ss <;> simp [keep, hc]

theorem setIn_rel {D1 D2 : Nat → Bool} {tg id : Nat} {v1 v2 : V} (h1 : D1 id = false) (hv : D2 id = true ∨ v1 = v2) :
    ∀ (a b : List (Scope V)), EnvRel D1 D2 a b →
    ORel (EnvRel D1 D2) (setIn tg id v1 a) (setIn tg id v2 b)
  | [], [], _ => by simp [setIn, ORel]
  | [], _ :: _, hr => by cases hr
  | _ :: _, [], hr => by cases hr
  | x :: xs, y :: ys, hr => by
      obtain ⟨ht, hs, hrest⟩ := hr
      have ih := setIn_rel (tg := tg) h1 hv xs ys hrest
      have hk := setSlot_rel hv _ _ hs
      rw [← setSlot_keep h1 x.slots, ← setSlot_keep h1 y.slots] at hk
      simp only [setIn, ← ht]
      split
      · cases e1 : setSlot id v1 x.slots <;> cases e2 : setSlot id v2 y.slots <;> simp [e1, e2, ORel] at hk ⊢
        exact ⟨rfl, hk, hrest⟩
      · cases f1 : setIn tg id v1 xs <;> cases f2 : setIn tg id v2 ys <;> simp [f1, f2, ORel] at ih ⊢
        exact ⟨ht, hs, ih⟩

theorem assign_rel {D1 D2 : Nat → Bool} {id : Nat} {v1 v2 : V} (h1 : D1 id = false) (hv : D2 id = true ∨ v1 = v2)
    (ds : Nat → Option Nat) (a b : List (Scope V)) (hr : EnvRel D1 D2 a b) :
    ORel (EnvRel D1 D2) (assignEnv ds id v1 a) (assignEnv ds id v2 b) := by
  simp only [assignEnv]
  cases ds id with
  | none => simp [ORel]
  | some tg => exact setIn_rel h1 hv a b hr

theorem keep_setSlot_dead {D1 : Nat → Bool} {id : Nat} {v : V} (h1 : D1 id = true) :
    ∀ (b b' : List (Slot V)), setSlot id v b = some b' → keep D1 b' = keep D1 b
  | [], _, hs => by simp [setSlot] at hs
  | s :: ss, b', hs => by
      simp only [setSlot] at hs
      by_cases hx : s.id = id
      · simp only [hx, beq_self_eq_true, ↓reduceIte, Option.some.injEq] at hs
        subst hs
        simp [keep, hx, h1]
      · have hne : (s.id == id) = false := by simpa using hx
        simp only [hne, Bool.false_eq_true, ↓reduceIte] at hs
        cases e : setSlot id v ss with
        | none => simp [e] at hs
        | some t =>
          simp only [e, Option.map_some, Option.some.injEq] at hs
          subst hs
          simp [keep, keep_setSlot_dead h1 ss t e]

theorem slotsRel_setSlot_plain {D2 : Nat → Bool} {id : Nat} {v : V} (h2 : D2 id = true) :
    ∀ (x y y' : List (Slot V)), SlotsRel D2 x y → setSlot id v y = some y' → SlotsRel D2 x y'
  | [], [], _, _, hy => by simp [setSlot] at hy
  | [], _ :: _, _, hxy, _ => by cases hxy
  | _ :: _, [], _, hxy, _ => by cases hxy
  | p :: ps, q :: qs, y', hxy, hy => by
      obtain ⟨hid, hvv, hrest⟩ := hxy
      simp only [setSlot] at hy
      by_cases hq : q.id = id
      · simp only [hq, beq_self_eq_true, ↓reduceIte, Option.some.injEq] at hy
        subst hy
        exact ⟨hid.trans hq, Or.inl (by rw [hid, hq]; exact h2), hrest⟩
      · have hne : (q.id == id) = false := by simpa using hq
        simp only [hne, Bool.false_eq_true, ↓reduceIte] at hy
        cases e : setSlot id v qs with
        | none => simp [e] at hy
        | some t =>
          simp only [e, Option.map_some, Option.some.injEq] at hy
          subst hy
          exact ⟨hid, hvv, slotsRel_setSlot_plain h2 ps qs t hrest e⟩

/-- A store only the plain run performs, into a never-read local. -/
theorem setSlot_plain {D1 D2 : Nat → Bool} {id : Nat} {v : V} (h2 : D2 id = true) (a b b' : List (Slot V))
    (hr : ScopeRel D1 D2 a b) (hs : setSlot id v b = some b') : ScopeRel D1 D2 a b' := by
  cases h1 : D1 id with
  | true =>
    simp only [ScopeRel, keep_setSlot_dead h1 b b' hs]
    exact hr
  | false =>
    have hk := setSlot_keep (v := v) h1 b
    rw [hs] at hk
    simp only [Option.map_some] at hk
    exact slotsRel_setSlot_plain h2 _ _ _ hr hk.symm

theorem setIn_plain {D1 D2 : Nat → Bool} {tg id : Nat} {v : V} (h2 : D2 id = true) :
    ∀ (a b b' : List (Scope V)), EnvRel D1 D2 a b → setIn tg id v b = some b' → EnvRel D1 D2 a b'
  | [], [], _, _, h => by simp [setIn] at h
  | [], _ :: _, _, hr, _ => by cases hr
  | _ :: _, [], _, hr, _ => by cases hr
  | x :: xs, y :: ys, b', hr, h => by
      obtain ⟨ht, hs, hrest⟩ := hr
      simp only [setIn] at h
      split at h
      · cases e : setSlot id v y.slots with
        | none => simp [e] at h
        | some y' =>
          simp only [e, Option.map_some, Option.some.injEq] at h
          subst h
          exact ⟨ht, setSlot_plain h2 x.slots y.slots y' hs e, hrest⟩
      · cases f : setIn tg id v ys with
        | none => simp [f] at h
        | some t =>
          simp only [f, Option.map_some, Option.some.injEq] at h
          subst h
          exact ⟨ht, hs, setIn_plain h2 xs ys t hrest f⟩

theorem assign_plain {D1 D2 : Nat → Bool} {id : Nat} {v : V} (h2 : D2 id = true) (ds : Nat → Option Nat)
    (a b b' : List (Scope V)) (hr : EnvRel D1 D2 a b) (h : assignEnv ds id v b = some b') : EnvRel D1 D2 a b' := by
  simp only [assignEnv] at h
  cases hd : ds id with
  | none => simp [hd] at h
  | some tg =>
    simp only [hd] at h
    exact setIn_plain h2 a b b' hr h

theorem define_rel {D1 D2 : Nat → Bool} {id : Nat} {v : V} :
    ∀ (a b : List (Scope V)), EnvRel D1 D2 a b → EnvRel D1 D2 (defineEnv id v a) (defineEnv id v b)
  | [], [], _ => trivial
  | [], _ :: _, hr => by cases hr
  | _ :: _, [], hr => by cases hr
  | x :: xs, y :: ys, hr => by
      obtain ⟨ht, hs, hrest⟩ := hr
      refine ⟨ht, ?_, hrest⟩
      simp only [ScopeRel, keep]
      cases hc : D1 id
      · simp only [Bool.false_eq_true, ↓reduceIte]
        exact ⟨rfl, Or.inr rfl, hs⟩
      · simp only [↓reduceIte]
        exact hs

/-- A declaration only the plain run performs, of a local whose slot may be missing. -/
theorem define_plain {D1 D2 : Nat → Bool} {id : Nat} {v : V} (h1 : D1 id = true) :
    ∀ (a b : List (Scope V)), EnvRel D1 D2 a b → EnvRel D1 D2 a (defineEnv id v b)
  | [], [], _ => trivial
  | [], _ :: _, hr => by cases hr
  | _ :: _, [], hr => by cases hr
  | x :: xs, y :: ys, hr => by
      obtain ⟨ht, hs, hrest⟩ := hr
      refine ⟨ht, ?_, hrest⟩
      simp only [ScopeRel, keep, h1, ↓reduceIte]
      exact hs

theorem EnvRel.drop {D1 D2 : Nat → Bool} : ∀ {a b : List (Scope V)}, EnvRel D1 D2 a b →
    EnvRel D1 D2 (a.drop 1) (b.drop 1)
  | [], [], _ => trivial
  | [], _ :: _, hr => by cases hr
  | _ :: _, [], hr => by cases hr
  | _ :: _, _ :: _, hr => hr.2.2

theorem EnvRel.push {D1 D2 : Nat → Bool} {a b : List (Scope V)} (sc : Scope V)
    (h : EnvRel D1 D2 a b) : EnvRel D1 D2 (sc :: a) (sc :: b) :=
  ⟨rfl, SlotsRel.refl D2 _, h⟩


/-! ### Syntactic side conditions -/

def segsOk (D : Nat → Bool) : List Seg → Bool
  | [] => true
  | .lit _ :: ss => segsOk D ss
  | .var _ (some id) :: ss => !D id && segsOk D ss
  | .var _ none :: ss => segsOk D ss

mutual
  /-- Every user call in `e` goes to a function in `X`, and `e` reads no local of `D`. -/
  def eOk (X D : Nat → Bool) : Expr → Bool
    | .var _ (some id) _ => !D id
    | .var _ none _ => true
    | .str (.interp segs) _ => segsOk D segs
    | .str (.static _) _ | .num _ _ | .bool _ _ | .null _ => true
    | .call (.var _ _ _) args fn _ => (match fn with | some f => X f | none => true) && eOkList X D args
    | .call (.member o _ _ _) args _ _ => eOk X D o && eOkList X D args
    | .call _ args _ _ => eOkList X D args
    | .binary _ l r _ => eOk X D l && eOk X D r
    | .index a i _ _ => eOk X D a && eOk X D i
    | .array es _ => eOkList X D es
    | .unary _ e _ => eOk X D e
    | .member o _ _ _ => eOk X D o
  def eOkList (X D : Nat → Bool) : List Expr → Bool
    | [] => true
    | e :: es => eOk X D e && eOkList X D es
end

mutual
  theorem eOk_mono {X Y D : Nat → Bool} (h : ∀ g, X g = true → Y g = true) : ∀ e : Expr,
      eOk X D e = true → eOk Y D e = true
    | .var _ (some _) _, he | .var _ none _, he | .str (.interp _) _, he | .str (.static _) _, he
    | .num _ _, he | .bool _ _, he | .null _, he => by simpa [eOk] using he
    | .call (.var _ _ _) args fn _, he => by
        simp only [eOk, Bool.and_eq_true] at he ⊢
        refine ⟨?_, eOkList_mono h args he.2⟩
        cases fn with
        | none => rfl
        | some f => exact h f he.1
    | .call (.member o _ _ _) args _ _, he => by
        simp only [eOk, Bool.and_eq_true] at he ⊢
        exact ⟨eOk_mono h o he.1, eOkList_mono h args he.2⟩
    | .call (.index _ _ _ _) args _ _, he | .call (.str _ _) args _ _, he | .call (.num _ _) args _ _, he
    | .call (.binary _ _ _ _) args _ _, he | .call (.call _ _ _ _) args _ _, he
    | .call (.array _ _) args _ _, he | .call (.unary _ _ _) args _ _, he
    | .call (.bool _ _) args _ _, he | .call (.null _) args _ _, he => by
        simp only [eOk] at he ⊢
        exact eOkList_mono h args he
    | .binary _ l r _, he => by
        simp only [eOk, Bool.and_eq_true] at he ⊢
        exact ⟨eOk_mono h l he.1, eOk_mono h r he.2⟩
    | .index a i _ _, he => by
        simp only [eOk, Bool.and_eq_true] at he ⊢
        exact ⟨eOk_mono h a he.1, eOk_mono h i he.2⟩
    | .array es _, he => by simp only [eOk] at he ⊢; exact eOkList_mono h es he
    | .unary _ e _, he => by simp only [eOk] at he ⊢; exact eOk_mono h e he
    | .member o _ _ _, he => by simp only [eOk] at he ⊢; exact eOk_mono h o he
  theorem eOkList_mono {X Y D : Nat → Bool} (h : ∀ g, X g = true → Y g = true) : ∀ es : List Expr,
      eOkList X D es = true → eOkList Y D es = true
    | [], _ => by simp [eOkList]
    | e :: es, he => by
        simp only [eOkList, Bool.and_eq_true] at he ⊢
        exact ⟨eOk_mono h e he.1, eOkList_mono h es he.2⟩
end

theorem segsOk_ids {D : Nat → Bool} : ∀ (segs : List Seg), segsOk D segs = true →
    ∀ id, some id ∈ segIds segs → D id = false
  | [], _, _, hi => by simp [segIds] at hi
  | .lit _ :: ss, h, id, hi => by
      simp only [segsOk] at h; simp only [segIds] at hi
      exact segsOk_ids ss h id hi
  | .var _ (some j) :: ss, h, id, hi => by
      simp only [segsOk, Bool.and_eq_true, Bool.not_eq_true'] at h
      simp only [segIds, List.mem_cons, Option.some.injEq] at hi
      rcases hi with rfl | hi
      · exact h.1
      · exact segsOk_ids ss h.2 id hi
  | .var _ none :: ss, h, id, hi => by
      simp only [segsOk] at h
      simp only [segIds, List.mem_cons] at hi
      rcases hi with hi | hi
      · cases hi
      · exact segsOk_ids ss h id hi

theorem eOk_interpIds {X D : Nat → Bool} (e : Expr) (h : eOk X D e = true) :
    ∀ id, some id ∈ interpIds e → D id = false := by
  intro id hi
  cases e with
  | str p sp =>
    cases p with
    | «static» b => simp [interpIds] at hi
    | interp segs =>
      simp only [eOk] at h
      simp only [interpIds] at hi
      exact segsOk_ids segs h id hi
  | _ => simp [interpIds] at hi

theorem eOk_lvalue {X D : Nat → Bool} : ∀ (o : Expr) (root : Nat) (path : List Expr), eOk X D o = true →
    lvalue o = some (root, path) → D root = false ∧ eOkList X D path = true
  | .var _ (some id) _, root, path, h, hl => by
      simp only [lvalue, Option.some.injEq, Prod.mk.injEq] at hl
      obtain ⟨rfl, rfl⟩ := hl
      simp only [eOk, Bool.not_eq_true'] at h
      exact ⟨h, rfl⟩
  | .var _ none _, _, _, _, hl => by simp [lvalue] at hl
  | .index a i _ _, root, path, h, hl => by
      simp only [eOk, Bool.and_eq_true] at h
      simp only [lvalue] at hl
      cases hla : lvalue a with
      | none => simp [hla] at hl
      | some rp =>
        obtain ⟨r, p⟩ := rp
        simp only [hla, Option.map_some, Option.some.injEq, Prod.mk.injEq] at hl
        obtain ⟨rfl, rfl⟩ := hl
        have ih := eOk_lvalue a r p h.1 hla
        refine ⟨ih.1, ?_⟩
        have app : ∀ (l : List Expr), eOkList X D l = true → eOkList X D (l ++ [i]) = true := by
          intro l
          induction l with
          | nil => intro _; simp [eOkList, h.2]
          | cons x xs ihx =>
            intro hx
            simp only [eOkList, Bool.and_eq_true, List.cons_append] at hx ⊢
            exact ⟨hx.1, ihx hx.2⟩
        exact app p ih.2
  | .str _ _, _, _, _, hl | .num _ _, _, _, _, hl | .binary _ _ _ _, _, _, _, hl | .call _ _ _ _, _, _, _, hl
  | .array _ _, _, _, _, hl | .unary _ _ _, _, _, _, hl | .bool _ _, _, _, _, hl | .member _ _ _ _, _, _, _, hl
  | .null _, _, _, _, hl => by simp [lvalue] at hl

/-! ### The setting of the simulation -/

/-- The endings of the plain run for which nothing is claimed: fuel exhaustion (stack / time budget),
use of a variable before its declaration, and a crash of the interpreter itself (`panic`: a failed
`expect` / `unreachable!`, which property C06 excludes for accepted programs). -/
def Bad {α : Type} (r : Except Err α) : Prop := r = .error .fuel ∨ r = .error .unbound ∨ r = .error .panic

/-- Fuel exhaustion and use-before-declaration only (what a `PureNoTrap` expression can still end in). -/
def Bad2 {α : Type} (r : Except Err α) : Prop := r = .error .fuel ∨ r = .error .unbound

theorem Bad2.bad {α : Type} {r : Except Err α} (h : Bad2 r) : Bad r := h.elim Or.inl (fun h => Or.inr (Or.inl h))

theorem bad_fuel {α : Type} : Bad (.error .fuel : Except Err α) := Or.inl rfl
theorem bad_unbound {α : Type} : Bad (.error .unbound : Except Err α) := Or.inr (Or.inl rfl)
theorem bad_panic {α : Type} : Bad (.error .panic : Except Err α) := Or.inr (Or.inr rfl)

/-- Evaluating `e` never changes the state and never fails (other than by fuel or an unbound variable). -/
def Quiet (P : Prims V) (e : Expr) : Prop :=
  ∀ (cfg : Cfg) (n : Nat) (st : St V),
    (evalExpr P cfg n e st).2 = st ∧ ((∃ v, (evalExpr P cfg n e st).1 = .ok v) ∨ Bad2 (evalExpr P cfg n e st).1)

structure Setup where
  T : List (Nat × Bool)
  fnOf : Nat → Nat
  callees : Nat → List Nat
  BR : Nat → Bool
  D1 : Nat → Bool
  D2 : Nat → Bool
  cfg : Cfg

structure SetupOk (S : Setup) : Prop where
  closed : ∀ i, (i, true) ∈ S.T → S.BR (S.fnOf i) = true → ∀ g ∈ S.callees i, S.BR g = true
  drop : ∀ g, S.BR g = true → S.cfg.dropFn g = false
  d12 : ∀ l, S.D1 l = true → S.D2 l = true
  func : ∀ i, (i, true) ∈ S.T → (i, false) ∉ S.T

def Setup.base (S : Setup) (f i : Nat) (es : List Expr) : Prop :=
  S.fnOf i = f ∧ eOkList (fun g => (S.callees i).contains g) S.D2 es = true

/-- A store may be skipped only if it is unreachable or a quiet store to a never-read local (a
declaration: to a local all of whose stores are removed); a store that is kept must not target a
local whose slot may be missing. -/
def Setup.storeRule (S : Setup) (P : Prims V) (i : Nat) (isDecl : Bool) (b : Option Nat) (e : Expr) : Prop :=
  (S.cfg.skip i = true → (i, false) ∈ S.T ∨
    ∃ l, b = some l ∧ (if isDecl then S.D1 l = true else S.D2 l = true) ∧ Quiet P e) ∧
  (S.cfg.skip i = false → ∀ l, b = some l → S.D1 l = false)

def Setup.otherRule (S : Setup) (i : Nat) : Prop := S.cfg.skip i = true → (i, false) ∈ S.T

mutual
  /-- What the simulation needs to know about a statement owned by function `f`. -/
  def SOk (P : Prims V) (S : Setup) (f : Nat) : Stmt → Prop
    | .assign _ _ e b (some i) _ => S.base f i [e] ∧ S.storeRule P i true b e
    | .assignExisting _ _ e b (some i) _ => S.base f i [e] ∧ S.storeRule P i false b e
    | .assignIndex t e (some i) _ => S.base f i [t, e] ∧ S.otherRule i
    | .ifS c (.mk t _) none (some i) _ => S.base f i [c] ∧ S.otherRule i ∧ SOkList P S f t
    | .ifS c (.mk t _) (some (.mk e _)) (some i) _ =>
        S.base f i [c] ∧ S.otherRule i ∧ SOkList P S f t ∧ SOkList P S f e
    | .loop c (.mk b _) (some i) _ => S.base f i [c] ∧ S.otherRule i ∧ SOkList P S f b
    | .block (.mk b _) (some i) _ => S.base f i [] ∧ S.otherRule i ∧ SOkList P S f b
    | .fnDef _ _ _ (.mk body _) (some g) (some i) _ => S.base f i [] ∧ S.otherRule i ∧ SOkList P S g body
    | .fnDef _ _ _ (.mk _ _) none (some i) _ => S.base f i [] ∧ S.otherRule i
    | .ret (some e) (some i) _ => S.base f i [e] ∧ S.otherRule i
    | .ret none (some i) _ => S.base f i [] ∧ S.otherRule i
    | .brk (some i) _ => S.base f i [] ∧ S.otherRule i
    | .cont (some i) _ => S.base f i [] ∧ S.otherRule i
    | .expr e (some i) _ => S.base f i [e] ∧ S.otherRule i
    | .fnDef _ _ _ (.mk body _) (some g) none _ => SOkList P S g body
    | .assign _ _ _ _ none _ | .assignExisting _ _ _ _ none _ | .assignIndex _ _ none _
    | .ifS _ (.mk _ _) none none _ | .ifS _ (.mk _ _) (some (.mk _ _)) none _ | .loop _ (.mk _ _) none _
    | .block (.mk _ _) none _ | .fnDef _ _ _ (.mk _ _) none none _ | .ret _ none _ | .brk none _ | .cont none _
    | .expr _ none _ => True
  def SOkList (P : Prims V) (S : Setup) (f : Nat) : List Stmt → Prop
    | [] => True
    | s :: ss => SOk P S f s ∧ SOkList P S f ss
end

def FnsOk2 (P : Prims V) (S : Setup) (fns : List (List FnDef)) : Prop :=
  ∀ sc ∈ fns, ∀ fd ∈ sc, SOkList P S fd.id fd.body

/-- Invariant of the plain run: T1's invariant, every registered function is well-formed for the
simulation, and every function looked up so far is body-reachable (T3). -/
def Inv2 (P : Prims V) (S : Setup) (st : St V) : Prop :=
  Inv S.T st ∧ FnsOk2 P S st.fns ∧ (∀ g ∈ st.looked, S.BR g = true)

/-- Pruned state vs plain state. -/
def Rel (S : Setup) (a b : St V) : Prop :=
  a.out = b.out ∧ a.fns = b.fns ∧ EnvRel S.D1 S.D2 a.env b.env

/-- Outcome of the pruned run vs outcome of the plain run. -/
def Out {α : Type} (S : Setup) (a b : R V α) : Prop := Bad b.1 ∨ (a.1 = b.1 ∧ Rel S a.2 b.2)

structure Sim (P : Prims V) (S : Setup) (n : Nat) : Prop where
  expr : ∀ (e : Expr) (a b : St V), eOk S.BR S.D2 e = true → Rel S a b → Inv2 P S b →
    Out S (evalExpr P S.cfg n e a) (evalExpr P plain n e b) ∧ Inv2 P S (evalExpr P plain n e b).2
  list : ∀ (es : List Expr) (a b : St V), eOkList S.BR S.D2 es = true → Rel S a b → Inv2 P S b →
    Out S (evalList P S.cfg n es a) (evalList P plain n es b) ∧ Inv2 P S (evalList P plain n es b).2
  block : ∀ (ss : List Stmt) (a b : St V) (f : Nat), ConsStmts S.T true ss → SOkList P S f ss → S.BR f = true →
    Rel S a b → Inv2 P S b →
    Out S (execBlock P S.cfg n ss a) (execBlock P plain n ss b) ∧ Inv2 P S (execBlock P plain n ss b).2
  stmts : ∀ (ss : List Stmt) (a b : St V) (f : Nat), ConsStmts S.T true ss → SOkList P S f ss → S.BR f = true →
    Rel S a b → Inv2 P S b →
    Out S (execStmts P S.cfg n ss a) (execStmts P plain n ss b) ∧ Inv2 P S (execStmts P plain n ss b).2
  stmt : ∀ (s : Stmt) (a b : St V) (f i : Nat), s.sid = some i → S.cfg.skip i = false → ConsStmt S.T true s →
    SOk P S f s → S.BR f = true → Rel S a b → Inv2 P S b →
    Out S (execStmt P S.cfg n s a) (execStmt P plain n s b) ∧ Inv2 P S (execStmt P plain n s b).2
  loop : ∀ (c : Expr) (bd : List Stmt) (a b : St V) (f : Nat), eOk S.BR S.D2 c = true → ConsStmts S.T true bd →
    SOkList P S f bd → S.BR f = true → Rel S a b → Inv2 P S b →
    Out S (execLoop P S.cfg n c bd a) (execLoop P plain n c bd b) ∧ Inv2 P S (execLoop P plain n c bd b).2

theorem sim_zero (P : Prims V) (S : Setup) : Sim P S 0 := by
  constructor
  · intro e a b _ _ hi; exact ⟨Or.inl (Or.inl (by simp [evalExpr])), by simpa [evalExpr] using hi⟩
  · intro es a b _ _ hi; exact ⟨Or.inl (Or.inl (by simp [evalList])), by simpa [evalList] using hi⟩
  · intro ss a b f _ _ _ _ hi; exact ⟨Or.inl (Or.inl (by simp [execBlock])), by simpa [execBlock] using hi⟩
  · intro ss a b f _ _ _ _ hi; exact ⟨Or.inl (Or.inl (by simp [execStmts])), by simpa [execStmts] using hi⟩
  · intro s a b f i _ _ _ _ _ _ hi; exact ⟨Or.inl (Or.inl (by simp [execStmt])), by simpa [execStmt] using hi⟩
  · intro c bd a b f _ _ _ _ _ hi; exact ⟨Or.inl (Or.inl (by simp [execLoop])), by simpa [execLoop] using hi⟩

end NaijaVerif.C03
