import NaijaVerif.Lemmas.AnalysisRefineExpr
/-
BRIDGE, part 8: calls of built-in functions and of user functions.
-/
namespace NaijaVerif.C03
open NaijaVerif NaijaVerif.Analysis

variable {N : Type} [NumOps N] {B : Brg}

/-! ### Built-in functions -/

theorem sim_global (hB : B.Ok N) {n : Nat} (IH : SimAt (N := N) B n) (name : Bytes) (b0 : Option Nat) (vsp : Span)
    (args : List Expr) (fn : Option Nat) (sp : Span) (g : Eval.GlobalB) (hg : Eval.GlobalB.ofName name = some g)
    (s : Eval.State N) (t : AEval.St (VE N)) (hok : okExprs B.o args = true) (hs : B.Sim s t)
    (hnf : NF (AEval.evalExpr B.P B.ac (n + 1) (.call (.var name b0 vsp) args fn sp) t)) :
    Ev B Eq (AEval.evalExpr B.P B.ac (n + 1) (.call (.var name b0 vsp) args fn sp) t)
      (fun f => Eval.evalExpr B.rc f (.call (.var name b0 vsp) args fn sp) s) := by
  apply Ev.shift
  simp only [AEval.evalExpr, P_isGlobal, hg, Option.isSome_some, ↓reduceIte] at hnf ⊢
  simp only [Eval.evalExpr, hg]
  have h1 := IH.list args s t hok hs
  ev_sub (AEval.evalList B.P B.ac n args t) as vs t1 s1 hs1 with h1 hnf
  simp only [P_isShout, hg, P_null, P_global] at hnf ⊢
  have hpan : ∀ a : AEval.R (VE N) (VE N), a = (.error .panic, t1) →
      Ev B Eq a (fun _ => Eval.trap B.rc .builtinArity sp s1) := by
    intro a ha; subst ha
    exact Ev.const (RSim.err (trap_sim hB hs1.out .builtinArity sp))
  have e1 : (some Eval.GlobalB.typeOf == some Eval.GlobalB.shout) = false := by decide
  have e2 : (some Eval.GlobalB.readLine == some Eval.GlobalB.shout) = false := by decide
  have e3 : (some Eval.GlobalB.toString == some Eval.GlobalB.shout) = false := by decide
  have e4 : (some Eval.GlobalB.command == some Eval.GlobalB.shout) = false := by decide
  match vs with
  | [] => exact hpan _ (by cases g <;> simp [globalE, hg])
  | _ :: _ :: _ => exact hpan _ (by cases g <;> simp [globalE, hg])
  | [v] =>
    cases g with
    | shout => simp only [beq_self_eq_true, ↓reduceIte]; exact Ev.const (RSim.ok rfl (shout_sim hs1 v))
    | typeOf => simp only [e1, Bool.false_eq_true, ↓reduceIte, globalE, hg]; exact Ev.const (RSim.ok rfl hs1)
    | readLine =>
      simp only [e2, Bool.false_eq_true, ↓reduceIte, globalE, hg, Eval.globalCall, hs1.input]
      exact Ev.const (RSim.ok rfl hs1)
    | toString => simp only [e3, Bool.false_eq_true, ↓reduceIte, globalE, hg]; exact Ev.const (RSim.ok rfl hs1)
    | command =>
      simp only [e4, Bool.false_eq_true, ↓reduceIte, globalE, hg]
      cases v with
      | str p => exact Ev.const (RSim.ok rfl hs1)
      | num _ => exact Ev.const (RSim.err (trap_sim hB hs1.out .commandArg sp))
      | bool _ => exact Ev.const (RSim.err (trap_sim hB hs1.out .commandArg sp))
      | arr _ => exact Ev.const (RSim.err (trap_sim hB hs1.out .commandArg sp))
      | host _ => exact Ev.const (RSim.err (trap_sim hB hs1.out .commandArg sp))
      | null => exact Ev.const (RSim.err (trap_sim hB hs1.out .commandArg sp))

/-! ### User functions -/

theorem visible_dynamic (hB : B.Ok N) (chain : List Nat) : Eval.visible (N := N) B.rc chain = fun _ => true := by
  funext sc
  simp [Eval.visible, hB.lookup]

theorem lookupFn_sim (hB : B.Ok N) {s : Eval.State N} {t : AEval.St (VE N)} (hs : B.Sim s t) (g : Nat) (name : Bytes) :
    ORel2 (FnRel B.o) (Eval.lookupFn B.rc s (some g) name) (AEval.findFnC B.ac g t.fns) := by
  simp only [Eval.lookupFn, visible_dynamic hB, AEval.findFnC]
  exact findFn_sim g hs.env

theorem sim_looked {s : Eval.State N} {t : AEval.St (VE N)} (hs : B.Sim s t) (l : List Nat) :
    B.Sim s { t with looked := l } := ⟨hs.env, hs.out, hs.input⟩

theorem paramIds_eq {fe : Eval.FnEntry} {g : Nat} (hid : fe.id = some g) (hb : ∀ p ∈ fe.params, p.bind.isSome = true) :
    Eval.paramIds fe = some (fe.params.map (·.bind)) := by
  simp only [Eval.paramIds, hid]
  rw [if_pos]
  simpa using hb

theorem sim_userCall (hB : B.Ok N) {n : Nat} (IH : SimAt (N := N) B n) (name : Bytes) (b0 : Option Nat) (vsp : Span)
    (args : List Expr) (g : Nat) (sp : Span) (hg : Eval.GlobalB.ofName name = none)
    (s : Eval.State N) (t : AEval.St (VE N)) (hok : okExprs B.o args = true) (hs : B.Sim s t)
    (hnf : NF (AEval.evalExpr B.P B.ac (n + 1) (.call (.var name b0 vsp) args (some g) sp) t)) :
    Ev B Eq (AEval.evalExpr B.P B.ac (n + 1) (.call (.var name b0 vsp) args (some g) sp) t)
      (fun f => Eval.evalExpr B.rc f (.call (.var name b0 vsp) args (some g) sp) s) := by
  apply Ev.shift
  simp only [AEval.evalExpr, P_isGlobal, hg, Option.isSome_none, Bool.false_eq_true, ↓reduceIte] at hnf ⊢
  simp only [Eval.evalExpr, hg]
  have hs0 : B.Sim s { t with looked := g :: t.looked } := sim_looked hs _
  have hfn := lookupFn_sim hB hs g name
  cases hfe : Eval.lookupFn B.rc s (some g) name with
  | none =>
    cases hfa : AEval.findFnC B.ac g t.fns with
    | some fa => simp [hfe, hfa, ORel2] at hfn
    | none =>
      simp only [Option.isSome_some, ↓reduceIte]
      exact Ev.const (RSim.err (trap_sim hB hs0.out .fnById sp))
  | some fe =>
    cases hfa : AEval.findFnC B.ac g t.fns with
    | none => simp [hfe, hfa, ORel2] at hfn
    | some fa =>
      simp only [hfe, hfa, ORel2] at hfn
      simp only [hfa] at hnf ⊢
      obtain ⟨hpb, hpn, hpt⟩ := hB.orc.par fa.params hfn.okp
      have h1 := IH.list args s _ hok hs0
      ev_sub (AEval.evalList (V := VE N) B.P B.ac n args _) as vs t1 s1 hs1 with h1 hnf
      rw [hfn.params]
      cases hbp : AEval.bindParams fa.params vs with
      | none =>
        have hlen : vs.length ≠ fa.params.length := by
          intro h
          have := (bindParams_some_iff fa.params vs hpb).mpr h
          simp [hbp] at this
        simp only [hlen, ne_eq, not_false_eq_true, ↓reduceIte]
        exact Ev.const (RSim.err (trap_sim hB hs1.out .callArity sp))
      | some slots =>
        have hlen : vs.length = fa.params.length := (bindParams_some_iff fa.params vs hpb).mp (by simp [hbp])
        have hpi : Eval.paramIds fe = some (fa.params.map (·.bind)) := by
          rw [← hfn.params]; exact paramIds_eq hfn.id (by rw [hfn.params]; exact hpb)
        simp only [hbp] at hnf ⊢
        simp only [hlen, ne_eq, not_true_eq_false, ↓reduceIte, hpi, P_dscope]
        have hs2 := params_sim hs1 fa.params vs slots hbp hpn hpt (.params fe.id) fe.chain
        rw [← hfn.body] at hnf ⊢
        have h2 := IH.block fe.body _ _ hfn.okb hs2
        simp only [P_dscope] at hnf h2
        generalize AEval.execBlock (V := VE N) B.P B.ac n fe.body.stmts _ = a3 at hnf h2 ⊢
        rcases a3 with ⟨er | fl, t3⟩
        · exact Ev.bind_err_out (h2 (nf_err hnf)) rfl
        refine Ev.bind_ok (h2 (nf_ok _ _)) (fun fl' s3 hfl hs3 => ?_)
        have hs4 := pop_sim hs3 s1.chain
        simp only [P_null]
        cases fl with
        | normal => cases fl' <;> first | exact Ev.const (RSim.ok rfl hs4) | cases hfl
        | ret v => cases fl' <;> first | (cases hfl; exact Ev.const (RSim.ok rfl hs4)) | cases hfl
        | brk => cases fl' <;> first | exact Ev.const (RSim.err (trap_sim hB hs4.out .flowEscape sp)) | cases hfl
        | cont => cases fl' <;> first | exact Ev.const (RSim.err (trap_sim hB hs4.out .flowEscape sp)) | cases hfl

end NaijaVerif.C03
