import NaijaVerif.Lemmas.AnalysisRefineRel
/-
BRIDGE, part 7: the simulation statement (`SimAt n`: every function of the fragment at fuel `n`
against the corresponding function of `Eval` at all sufficiently large fuel) and its expression
cases other than calls.
-/
namespace NaijaVerif.C03
open NaijaVerif NaijaVerif.Analysis

variable {N : Type} [NumOps N]

def FlowSim : AEval.Flow (VE N) → Eval.Flow N → Prop
  | .normal, .cont => True
  | .ret v, .ret w => v = w
  | .brk, .brk => True
  | .cont, .next => True
  | _, _ => False

/-- The fragment's computation does not end in fuel exhaustion. -/
def NF {α : Type} (a : AEval.R (VE N) α) : Prop := a.1 ≠ .error .fuel

structure SimAt (B : Brg) (n : Nat) : Prop where
  expr : ∀ (e : Expr) (s : Eval.State N) (t : AEval.St (VE N)), okExpr B.o e = true → B.Sim s t →
    NF (AEval.evalExpr B.P B.ac n e t) →
    Ev B Eq (AEval.evalExpr B.P B.ac n e t) (fun f => Eval.evalExpr B.rc f e s)
  list : ∀ (es : List Expr) (s : Eval.State N) (t : AEval.St (VE N)), okExprs B.o es = true → B.Sim s t →
    NF (AEval.evalList B.P B.ac n es t) →
    Ev B Eq (AEval.evalList B.P B.ac n es t) (fun f => Eval.evalSel B.rc f (es.map .ok) s)
  block : ∀ (b : Block) (s : Eval.State N) (t : AEval.St (VE N)), okBlock B.o b = true → B.Sim s t →
    NF (AEval.execBlock B.P B.ac n b.stmts t) →
    Ev B FlowSim (AEval.execBlock B.P B.ac n b.stmts t) (fun f => Eval.execBlock B.rc f b s)
  stmts : ∀ (ss : List Stmt) (s : Eval.State N) (t : AEval.St (VE N)), okStmts B.o ss = true → B.Sim s t →
    NF (AEval.execStmts B.P B.ac n ss t) →
    Ev B FlowSim (AEval.execStmts B.P B.ac n ss t) (fun f => Eval.execStmts B.rc f ss s)
  stmt : ∀ (st : Stmt) (s : Eval.State N) (t : AEval.St (VE N)), okStmt B.o st = true → B.Sim s t →
    NF (AEval.execStmt B.P B.ac n st t) →
    Ev B FlowSim (AEval.execStmt B.P B.ac n st t) (fun f => Eval.execStmt B.rc f st s)
  loop : ∀ (c : Expr) (b : Block) (sp : Span) (s : Eval.State N) (t : AEval.St (VE N)), okExpr B.o c = true →
    okBlock B.o b = true → B.Sim s t → NF (AEval.execLoop B.P B.ac n c b.stmts t) →
    Ev B FlowSim (AEval.execLoop B.P B.ac n c b.stmts t) (fun f => Eval.loopW B.rc f c b sp s)

variable {B : Brg}

/-! ### The fields of the instance -/

theorem P_null : (B.P (N := N)).null = .null := rfl
theorem P_node : (B.P (N := N)).node = nodeE := rfl
theorem P_falsy : (B.P (N := N)).falsy = Eval.andStops := rfl
theorem P_truthy : (B.P (N := N)).truthy = Eval.orStops := rfl
theorem P_logicRhs (v : VE N) : (B.P (N := N)).logicRhs v = liftE (Eval.logicRhs .andRhs v) := rfl
theorem P_logicShort_and : (B.P (N := N)).logicShort .and = .bool false := rfl
theorem P_logicShort_or : (B.P (N := N)).logicShort .or = .bool true := rfl
theorem P_cond (v : VE N) : (B.P (N := N)).cond v = liftE (Eval.truthy .ifCond v) := rfl
theorem P_isGlobal (name : Bytes) : (B.P (N := N)).isGlobal name = (Eval.GlobalB.ofName name).isSome := rfl
theorem P_isShout (name : Bytes) : (B.P (N := N)).isShout name = (Eval.GlobalB.ofName name == some .shout) := rfl
theorem P_global : (B.P (N := N)).global = globalE := rfl
theorem P_isMut (field : Bytes) : (B.P (N := N)).isMut field = (Eval.MutM.ofName field).isSome := rfl
theorem P_memberSel : (B.P (N := N)).memberSel = memberSelE := rfl
theorem P_member (o : Expr) (field : Bytes) (fs sp : Span) (args : List Expr) (fn : Option Nat) (sp2 : Span)
    (recv : VE N) (vs : List (VE N)) :
    (B.P (N := N)).member (.call (.member o field fs sp) args fn sp2) recv vs = memberE B.rc field recv vs := rfl
theorem P_argMissing : (B.P (N := N)).argMissing = tmErr := rfl
theorem P_mutSteps (field : Bytes) : (B.P (N := N)).mutSteps field =
    match Eval.MutM.ofName field with | some m => mutStepsM m | none => [] := rfl
theorem P_mutMember : (B.P (N := N)).mutMember = mutMemberE := rfl
theorem P_setPath : (B.P (N := N)).setPath = setPathE := rfl
theorem P_idx : (B.P (N := N)).idx = idxChk := rfl
theorem P_lvErr : (B.P (N := N)).lvErr = tmErr := rfl
theorem P_dscope : (B.P (N := N)).dscope = B.ds := rfl
theorem P_sscope : (B.P (N := N)).sscope = B.ss := rfl

theorem nf_ok {α : Type} (x : α) (t : AEval.St (VE N)) : NF ((.ok x, t) : AEval.R (VE N) α) := by
  intro h; cases h

theorem nf_err {α β : Type} {er : AEval.Err} {t t' : AEval.St (VE N)}
    (h : NF ((.error er, t) : AEval.R (VE N) α)) : NF ((.error er, t') : AEval.R (VE N) β) := by
  intro h'; cases h'; exact h rfl

/-- Split on the result `X` of a sub-computation of the fragment (`h : NF X → Ev … X F`, `hnf` the
no-fuel hypothesis of the whole): the error branch is closed by `Ev.bind_err`, the value branch
continues with the value `v`, the fragment's state `t1`, and the related state `s1` of `Eval`. -/
macro "ev_sub " X:term " as " v:ident t1:ident s1:ident hs1:ident " with " h:ident hnf:ident : tactic => `(tactic| (
  generalize $X = a__ at $hnf:ident $h:ident ⊢
  rcases a__ with ⟨er__ | $v:ident, $t1:ident⟩
  · exact Ev.bind_err ($h (nf_err $hnf))
  refine Ev.bind_ok ($h (nf_ok _ _)) (fun y__ $s1 hy__ $hs1 => ?_)
  subst hy__
  clear $h
  dsimp only at $hnf:ident ⊢))

/-- As `ev_sub` for a value relation other than equality: `y` is the related value of `Eval`. -/
macro "ev_subr " X:term " as " v:ident t1:ident y:ident s1:ident hy:ident hs1:ident " with " h:ident hnf:ident : tactic =>
  `(tactic| (
  generalize $X = a__ at $hnf:ident $h:ident ⊢
  rcases a__ with ⟨er__ | $v:ident, $t1:ident⟩
  · exact Ev.bind_err ($h (nf_err $hnf))
  refine Ev.bind_ok ($h (nf_ok _ _)) (fun $y $s1 $hy $hs1 => ?_)
  clear $h
  dsimp only at $hnf:ident ⊢))

/-! ### Variables -/

theorem sim_var (hB : B.Ok N) (name : Bytes) (b : Option Nat) (sp : Span) (s : Eval.State N) (t : AEval.St (VE N))
    (hok : okExpr B.o (.var name b sp) = true) (hs : B.Sim s t) (n : Nat) :
    Ev B Eq (AEval.evalExpr B.P B.ac (n + 1) (.var name b sp) t) (fun f => Eval.evalExpr B.rc f (.var name b sp) s) := by
  apply Ev.shift
  simp only [okExpr] at hok
  obtain ⟨l, rfl⟩ := Option.isSome_iff_exists.mp hok
  simp only [AEval.evalExpr, Eval.evalExpr, Option.bind_some, lookupVal_sim hB.lookup hs, P_dscope]
  cases AEval.lookupEnv B.ds l t.env with
  | some v => exact Ev.const (RSim.ok rfl hs)
  | none =>
    refine Ev.const (RSim.err ?_)
    have := trap_sim (β := VE N) hB hs.out .varLookup sp
    simp only [Eval.trap, hB.panics, Bool.false_or] at this ⊢
    exact ⟨Or.inr ⟨rfl, rfl⟩, hs.out⟩

/-! ### `and` / `or` -/

theorem liftE_logicRhs_or (v : VE N) : liftE (Eval.logicRhs .orRhs v) = liftE (Eval.logicRhs .andRhs v) := by
  cases v <;> rfl

theorem sim_and (hB : B.Ok N) {n : Nat} (IH : SimAt (N := N) B n) (l r : Expr) (sp : Span) (s : Eval.State N)
    (t : AEval.St (VE N)) (hok : okExpr B.o (.binary .and l r sp) = true) (hs : B.Sim s t)
    (hnf : NF (AEval.evalExpr B.P B.ac (n + 1) (.binary .and l r sp) t)) :
    Ev B Eq (AEval.evalExpr B.P B.ac (n + 1) (.binary .and l r sp) t)
      (fun f => Eval.evalExpr B.rc f (.binary .and l r sp) s) := by
  apply Ev.shift
  simp only [okExpr, Bool.and_eq_true] at hok
  simp only [AEval.evalExpr] at hnf ⊢
  simp only [Eval.evalExpr]
  have h1 := IH.expr l s t hok.1 hs
  ev_sub (AEval.evalExpr B.P B.ac n l t) as lv t1 s1 hs1 with h1 hnf
  simp only [P_falsy, P_logicShort_and, P_logicRhs] at hnf ⊢
  rcases Bool.eq_false_or_eq_true (Eval.andStops lv) with hst | hst
  · simp only [hst, ↓reduceIte]; exact Ev.const (RSim.ok rfl hs1)
  · simp only [hst, Bool.false_eq_true, ↓reduceIte] at hnf ⊢
    have h2 := IH.expr r s1 t1 hok.2 hs1
    ev_sub (AEval.evalExpr B.P B.ac n r t1) as rv t2 s2 hs2 with h2 hnf
    exact Ev.const (ofExcept_sim hB hs2 _ _)

theorem sim_or (hB : B.Ok N) {n : Nat} (IH : SimAt (N := N) B n) (l r : Expr) (sp : Span) (s : Eval.State N)
    (t : AEval.St (VE N)) (hok : okExpr B.o (.binary .or l r sp) = true) (hs : B.Sim s t)
    (hnf : NF (AEval.evalExpr B.P B.ac (n + 1) (.binary .or l r sp) t)) :
    Ev B Eq (AEval.evalExpr B.P B.ac (n + 1) (.binary .or l r sp) t)
      (fun f => Eval.evalExpr B.rc f (.binary .or l r sp) s) := by
  apply Ev.shift
  simp only [okExpr, Bool.and_eq_true] at hok
  simp only [AEval.evalExpr] at hnf ⊢
  simp only [Eval.evalExpr]
  have h1 := IH.expr l s t hok.1 hs
  ev_sub (AEval.evalExpr B.P B.ac n l t) as lv t1 s1 hs1 with h1 hnf
  simp only [P_truthy, P_logicShort_or, P_logicRhs] at hnf ⊢
  rcases Bool.eq_false_or_eq_true (Eval.orStops lv) with hst | hst
  · simp only [hst, ↓reduceIte]; exact Ev.const (RSim.ok rfl hs1)
  · simp only [hst, Bool.false_eq_true, ↓reduceIte] at hnf ⊢
    have h2 := IH.expr r s1 t1 hok.2 hs1
    ev_sub (AEval.evalExpr B.P B.ac n r t1) as rv t2 s2 hs2 with h2 hnf
    rw [← liftE_logicRhs_or]
    exact Ev.const (ofExcept_sim hB hs2 _ _)

/-! ### Nodes without control flow -/

theorem evalList_nil_nf {P : AEval.Prims (VE N)} {ac : AEval.Cfg} {n : Nat} {t : AEval.St (VE N)}
    (hnf : NF (AEval.evalList P ac n [] t)) : AEval.evalList P ac n [] t = (.ok [], t) := by
  cases n with
  | zero => exact absurd rfl hnf
  | succ n => simp only [AEval.evalList]

theorem nf_finishNode {P : AEval.Prims (VE N)} {e : Expr} {a : AEval.R (VE N) (List (VE N))}
    (hnf : NF (AEval.finishNode P e a)) : NF a := by
  obtain ⟨res, t1⟩ := a
  cases res with
  | ok _ => exact nf_ok _ _
  | error er =>
    intro h
    cases h
    exact hnf rfl

/-- One operand: the list evaluation is the evaluation of the operand, one level of fuel below. -/
theorem evalList_one {P : AEval.Prims (VE N)} {ac : AEval.Cfg} {n : Nat} {x : Expr} {t : AEval.St (VE N)}
    (hnf : NF (AEval.evalList P ac n [x] t)) : ∃ m, n = m + 2 ∧ AEval.evalList P ac n [x] t =
      match AEval.evalExpr P ac (m + 1) x t with
      | (.error er, t1) => (.error er, t1)
      | (.ok v, t1) => (.ok [v], t1) := by
  cases n with
  | zero => exact absurd rfl hnf
  | succ n =>
    cases n with
    | zero =>
      exfalso; apply hnf
      simp only [AEval.evalList, AEval.evalExpr]
    | succ m =>
      refine ⟨m, rfl, ?_⟩
      simp only [AEval.evalList]
      generalize AEval.evalExpr P ac (m + 1) x t = a
      rcases a with ⟨_ | _, _⟩ <;> rfl

/-- A node without operands and without interpolated variables. -/
theorem sim_leaf (e : Expr) (s : Eval.State N) (t : AEval.St (VE N)) (n : Nat)
    (hch : AEval.children e = []) (hint : AEval.interpIds e = [])
    (hun : AEval.evalExpr B.P B.ac (n + 1) e t = AEval.finishNode B.P e (AEval.evalList B.P B.ac n [] t))
    (hnf : NF (AEval.evalExpr B.P B.ac (n + 1) e t))
    (r : Eval.Res N (VE N)) (hr : RSim B Eq ((nodeE e [], t) : AEval.R (VE N) (VE N)) r)
    (hE : ∀ f, Eval.evalExpr B.rc (f + 1) e s = r) :
    Ev B Eq (AEval.evalExpr B.P B.ac (n + 1) e t) (fun f => Eval.evalExpr B.rc f e s) := by
  apply Ev.shift
  rw [hun] at hnf ⊢
  rw [evalList_nil_nf (nf_finishNode hnf)]
  simp only [AEval.finishNode, hint, AEval.readAll, P_node, List.append_nil]
  exact Ev.congr (Ev.const hr) hE

theorem sim_unary (hB : B.Ok N) {n : Nat} (IH : ∀ m, m ≤ n → SimAt (N := N) B m) (op : UnOp) (x : Expr) (sp : Span)
    (s : Eval.State N) (t : AEval.St (VE N)) (hok : okExpr B.o (.unary op x sp) = true) (hs : B.Sim s t)
    (hnf : NF (AEval.evalExpr B.P B.ac (n + 1) (.unary op x sp) t)) :
    Ev B Eq (AEval.evalExpr B.P B.ac (n + 1) (.unary op x sp) t)
      (fun f => Eval.evalExpr B.rc f (.unary op x sp) s) := by
  apply Ev.shift
  simp only [okExpr] at hok
  simp only [AEval.evalExpr, AEval.children] at hnf ⊢
  obtain ⟨m, rfl, hE⟩ := evalList_one (nf_finishNode hnf)
  rw [hE] at hnf ⊢
  simp only [Eval.evalExpr]
  have h1 := (IH (m + 1) (by omega)).expr x s t hok hs
  ev_sub (AEval.evalExpr B.P B.ac (m + 1) x t) as v t1 s1 hs1 with h1 hnf
  simp only [AEval.finishNode, AEval.interpIds, AEval.readAll, P_node, nodeE, List.append_nil]
  exact Ev.const (ofExcept_sim hB hs1 _ _)

theorem eval_arith (rc : Eval.RunCfg) (f : Nat) {op : BinOp} {o : Eval.ArithOp} (h : Eval.ArithOp.ofBin op = some o)
    (l r : Expr) (sp : Span) (s : Eval.State N) :
    Eval.evalExpr rc (f + 1) (.binary op l r sp) s =
      (Eval.evalExpr rc f l s).bind fun lv st1 =>
        (Eval.evalExpr rc f r st1).bind fun rv st2 => Eval.Res.ofExcept rc (Eval.arith o lv rv sp) sp st2 := by
  cases op <;> cases h <;> simp only [Eval.evalExpr]

theorem sim_arith (hB : B.Ok N) {n : Nat} (IH : ∀ m, m ≤ n → SimAt (N := N) B m) {op : BinOp} {o : Eval.ArithOp}
    (hop : Eval.ArithOp.ofBin op = some o) (l r : Expr) (sp : Span)
    (s : Eval.State N) (t : AEval.St (VE N)) (hok : okExpr B.o (.binary op l r sp) = true) (hs : B.Sim s t)
    (hnf : NF (AEval.evalExpr B.P B.ac (n + 1) (.binary op l r sp) t)) :
    Ev B Eq (AEval.evalExpr B.P B.ac (n + 1) (.binary op l r sp) t)
      (fun f => Eval.evalExpr B.rc f (.binary op l r sp) s) := by
  apply Ev.shift
  simp only [okExpr, Bool.and_eq_true] at hok
  have hun : AEval.evalExpr B.P B.ac (n + 1) (.binary op l r sp) t =
      AEval.finishNode B.P (.binary op l r sp) (AEval.evalList B.P B.ac n [l, r] t) := by
    cases op <;> first | (simp only [Eval.ArithOp.ofBin] at hop; cases hop; done) | simp only [AEval.evalExpr, AEval.children]
  rw [hun] at hnf ⊢
  simp only [eval_arith B.rc _ hop]
  cases n with
  | zero => exact absurd rfl (nf_finishNode hnf)
  | succ k =>
    simp only [AEval.evalList] at hnf ⊢
    have h1 := (IH k (by omega)).expr l s t hok.1 hs
    ev_sub (AEval.evalExpr B.P B.ac k l t) as a t1 s1 hs1 with h1 hnf
    have hnf2 : NF (AEval.evalList B.P B.ac k [r] t1) := by
      have := nf_finishNode hnf
      generalize AEval.evalList B.P B.ac k [r] t1 = a2 at this
      rcases a2 with ⟨er | vs, t2⟩
      · exact this
      · exact nf_ok _ _
    obtain ⟨m, rfl, hE⟩ := evalList_one hnf2
    rw [hE] at hnf ⊢
    have h2 := (IH (m + 1) (by omega)).expr r s1 t1 hok.2 hs1
    ev_sub (AEval.evalExpr B.P B.ac (m + 1) r t1) as b t2 s2 hs2 with h2 hnf
    simp only [AEval.finishNode, AEval.interpIds, AEval.readAll, P_node, nodeE, List.append_nil, hop]
    exact Ev.const (ofExcept_sim hB hs2 _ _)

theorem sim_index (hB : B.Ok N) {n : Nat} (IH : ∀ m, m ≤ n → SimAt (N := N) B m) (a i : Expr) (isp sp : Span)
    (s : Eval.State N) (t : AEval.St (VE N)) (hok : okExpr B.o (.index a i isp sp) = true) (hs : B.Sim s t)
    (hnf : NF (AEval.evalExpr B.P B.ac (n + 1) (.index a i isp sp) t)) :
    Ev B Eq (AEval.evalExpr B.P B.ac (n + 1) (.index a i isp sp) t)
      (fun f => Eval.evalExpr B.rc f (.index a i isp sp) s) := by
  apply Ev.shift
  simp only [okExpr, Bool.and_eq_true] at hok
  simp only [AEval.evalExpr, AEval.children] at hnf ⊢
  simp only [Eval.evalExpr]
  cases n with
  | zero => exact absurd rfl (nf_finishNode hnf)
  | succ k =>
    simp only [AEval.evalList] at hnf ⊢
    have h1 := (IH k (by omega)).expr a s t hok.1 hs
    ev_sub (AEval.evalExpr B.P B.ac k a t) as av t1 s1 hs1 with h1 hnf
    have hnf2 : NF (AEval.evalList B.P B.ac k [i] t1) := by
      have := nf_finishNode hnf
      generalize AEval.evalList B.P B.ac k [i] t1 = a2 at this
      rcases a2 with ⟨er | vs, t2⟩
      · exact this
      · exact nf_ok _ _
    obtain ⟨m, rfl, hE⟩ := evalList_one hnf2
    rw [hE] at hnf ⊢
    have h2 := (IH (m + 1) (by omega)).expr i s1 t1 hok.2 hs1
    ev_sub (AEval.evalExpr B.P B.ac (m + 1) i t1) as iv t2 s2 hs2 with h2 hnf
    simp only [AEval.finishNode, AEval.interpIds, AEval.readAll, P_node, nodeE, List.append_nil]
    exact Ev.const (ofExcept_sim hB hs2 _ _)

theorem sim_array {n : Nat} (IH : SimAt (N := N) B n) (es : List Expr) (sp : Span)
    (s : Eval.State N) (t : AEval.St (VE N)) (hok : okExpr B.o (.array es sp) = true) (hs : B.Sim s t)
    (hnf : NF (AEval.evalExpr B.P B.ac (n + 1) (.array es sp) t)) :
    Ev B Eq (AEval.evalExpr B.P B.ac (n + 1) (.array es sp) t)
      (fun f => Eval.evalExpr B.rc f (.array es sp) s) := by
  apply Ev.shift
  simp only [okExpr] at hok
  simp only [AEval.evalExpr, AEval.children] at hnf ⊢
  simp only [Eval.evalExpr]
  have h1 := IH.list es s t hok hs
  have hnf1 := nf_finishNode hnf
  generalize AEval.evalList B.P B.ac n es t = a1 at hnf1 h1 ⊢
  rcases a1 with ⟨er | vs, t1⟩
  · exact Ev.bind_err (h1 hnf1)
  refine Ev.bind_ok (h1 (nf_ok _ _)) (fun y s1 hy hs1 => ?_)
  subst hy
  simp only [AEval.finishNode, AEval.interpIds, AEval.readAll, P_node, nodeE, List.append_nil]
  exact Ev.const (RSim.ok rfl hs1)

/-! ### Interpolated strings -/

theorem interp_sim (hB : B.Ok N) {s : Eval.State N} {t : AEval.St (VE N)} (hs : B.Sim s t) :
    ∀ (segs : List Seg) (acc : Bytes), segs.all okSeg = true →
      Eval.interp B.rc s segs acc = (AEval.readAll B.ds t.env (AEval.segIds segs)).map (fun rs => buildInterp segs rs acc)
  | [], acc, _ => by simp [Eval.interp, AEval.segIds, AEval.readAll, buildInterp]
  | .lit x :: rest, acc, h => by
      simp only [List.all_cons, Bool.and_eq_true] at h
      simp only [Eval.interp, AEval.segIds, interp_sim hB hs rest (acc ++ x) h.2, buildInterp]
  | .var name b :: rest, acc, h => by
      simp only [List.all_cons, okSeg, Bool.and_eq_true] at h
      obtain ⟨l, rfl⟩ := Option.isSome_iff_exists.mp h.1
      simp only [Eval.interp, AEval.segIds, AEval.readAll, lookupVal_sim hB.lookup hs]
      cases hl : AEval.lookupEnv B.ds l t.env with
      | none => simp
      | some v =>
        simp only [interp_sim hB hs rest (acc ++ v.display) h.2]
        cases AEval.readAll B.ds t.env (AEval.segIds rest) with
        | none => simp
        | some rs => simp [buildInterp]

theorem sim_interp (hB : B.Ok N) (segs : List Seg) (sp : Span) (s : Eval.State N) (t : AEval.St (VE N)) (n : Nat)
    (hok : okExpr B.o (.str (.interp segs) sp) = true) (hs : B.Sim s t)
    (hnf : NF (AEval.evalExpr B.P B.ac (n + 1) (.str (.interp segs) sp) t)) :
    Ev B Eq (AEval.evalExpr B.P B.ac (n + 1) (.str (.interp segs) sp) t)
      (fun f => Eval.evalExpr B.rc f (.str (.interp segs) sp) s) := by
  apply Ev.shift
  simp only [okExpr] at hok
  simp only [AEval.evalExpr, AEval.children] at hnf ⊢
  rw [evalList_nil_nf (nf_finishNode hnf)]
  simp only [Eval.evalExpr, AEval.finishNode, AEval.interpIds, P_dscope, interp_sim hB hs segs [] hok, P_node,
    List.nil_append]
  cases AEval.readAll B.ds t.env (AEval.segIds segs) with
  | none =>
    refine Ev.const (RSim.err ?_)
    simp only [Option.map_none, Eval.trap, hB.panics, Bool.false_or]
    exact ⟨Or.inr ⟨rfl, rfl⟩, hs.out⟩
  | some rs => exact Ev.const (RSim.ok rfl hs)

end NaijaVerif.C03
