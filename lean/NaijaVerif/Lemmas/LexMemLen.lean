import NaijaVerif.Lemmas.LexMemSum
/-
The buffer loop (`Model/LexMem.lean`) and the content loop (`Model/Lex.lean`) agree on the length of
the buffer: `buffer.len()` is the length of the token's content, and it never exceeds the capacity.
-/
namespace NaijaVerif.Lex
open NaijaVerif NaijaVerif.Utf8

theorem Buf.reserveExact_len (b : Buf) (n : Nat) : (b.reserveExact n).len = b.len := by
  simp only [Buf.reserveExact]; split <;> rfl

theorem Buf.reserveExact_fits (b : Buf) (n : Nat) (h : b.len ≤ b.cap) :
    (b.reserveExact n).len ≤ (b.reserveExact n).cap := by
  simp only [Buf.reserveExact]; split <;> (try dsimp only) <;> omega

/-- **the buffer holds the content**: `buffer.len()` of the buffer loop is the length of the content
the other loop builds, and it never exceeds the capacity -/
theorem bufLoop_len (hint : Nat → Bytes → Nat → Nat → Nat) (start q : Nat) :
    ∀ (f : Nat) (c : Cur) (buf : Bytes) (esc : Bool) (ds : List Diag) (off : Nat) (b : Buf),
      (esc = false → off = 0 ∧ b.len = 0 ∧ buf = []) → (esc = true → b.len = buf.length ∧ 1 ≤ b.len) →
      b.len ≤ b.cap →
      ((bufLoop hint q f c.rest off esc b).owned = true →
        (bufLoop hint q f c.rest off esc b).len = (scanStrLoop start q f c buf esc ds).content.length) ∧
      (bufLoop hint q f c.rest off esc b).len ≤ (bufLoop hint q f c.rest off esc b).cap := by
  intro f
  induction f with
  | zero =>
    intro c buf esc ds off b _ h2 hfit
    exact ⟨fun ho => (h2 ho).1, hfit⟩
  | succ f ih =>
    intro c buf esc ds off b h1 h2 hfit
    simp only [scanStrLoop, bufLoop]
    by_cases hnl : (c.rest.takeWhile notNl).length < (c.rest.takeWhile (notQuoteEsc q)).length
    · simp only [hnl, if_true]
      refine ⟨fun ho => ?_, hfit⟩
      have ho : esc = true := ho
      simp [ho, (h2 ho).1]
    · simp only [hnl, if_false]
      cases hdw : c.rest.dropWhile (notQuoteEsc q) with
      | nil =>
        refine ⟨fun ho => ?_, hfit⟩
        have ho : esc = true := ho
        simp [ho, (h2 ho).1]
      | cons x after =>
        simp only []
        by_cases hx : (x == q) = true
        · simp only [hx, if_true]
          constructor
          · intro ho
            have ho : esc = true := ho
            subst ho
            simp only [Bool.true_and, if_true, List.length_append, ← (h2 rfl).1]
            split
            · rw [Buf.push_len]
            next hq =>
              have : ¬ 0 < (c.rest.takeWhile (notQuoteEsc q)).length := by simpa using hq
              omega
          · split
            · exact Buf.push_fits _ _ hfit
            · exact hfit
        · simp only [hx]
          -- the buffer after the run before the backslash
          have hb1 : ∃ b1 : Buf,
              (if (b.len == 0) = true then (b.reserveExact (hint q c.rest (c.rest.takeWhile (notQuoteEsc q)).length
                  (c.rest.takeWhile notNl).length)).push (off + (c.rest.takeWhile (notQuoteEsc q)).length)
                else if 0 < (c.rest.takeWhile (notQuoteEsc q)).length then b.push (c.rest.takeWhile (notQuoteEsc q)).length
                else b) = b1 ∧
              b1.len = (buf ++ c.rest.takeWhile (notQuoteEsc q)).length ∧ b1.len ≤ b1.cap := by
            refine ⟨_, rfl, ?_, ?_⟩
            · cases hesc : esc with
              | false =>
                obtain ⟨h0, hl0, hbuf⟩ := h1 hesc
                subst h0 hbuf
                simp [hl0, Buf.push_len, Buf.reserveExact_len]
              | true =>
                obtain ⟨hl, hpos⟩ := h2 hesc
                have : (b.len == 0) = false := by simp; omega
                simp only [this, Bool.false_eq_true, if_false, List.length_append]
                split
                · rw [Buf.push_len, hl]
                · omega
            · split
              · exact Buf.push_fits _ _ (Buf.reserveExact_fits _ _ hfit)
              · split
                · exact Buf.push_fits _ _ hfit
                · exact hfit
          obtain ⟨b1, hb1e, hb1l, hb1f⟩ := hb1
          simp only [hb1e]
          cases after with
          | nil => exact ⟨fun _ => hb1l, hb1f⟩
          | cons e tl =>
            simp only []
            cases he : escapeOf q e with
            | some y =>
              simp only []
              refine ih ⟨_, List.drop 1 (e :: tl)⟩ _ true _ _ (b1.push 1) ?_ ?_ ?_
              · intro h; cases h
              · intro _; exact ⟨by rw [Buf.push_len, hb1l]; simp only [List.length_append, List.length_cons, List.length_nil], by rw [Buf.push_len]; omega⟩
              · exact Buf.push_fits _ _ hb1f
            | none =>
              simp only []
              have hk : 1 ≤ charLen e := Utf8.charLen_pos e
              refine ih ⟨_, List.drop (charLen e) (e :: tl)⟩ _ true _ _ (b1.push ((e :: tl).take (charLen e)).length) ?_ ?_ ?_
              · intro h; cases h
              · intro _
                exact ⟨by rw [Buf.push_len, hb1l]; simp only [List.length_append],
                  by rw [Buf.push_len]; simp only [List.length_take, List.length_cons]; omega⟩
              · exact Buf.push_fits _ _ hb1f


/-- the payload of an owned string token is the content `scan_string` built -/
theorem step_str_content {c c' : Cur} {t : SpTok} {ds : List Diag}
    (hs : step c = .tok t c' ds) (ho : isOwnedStr t = true) :
    ∃ q body, (skipWs c).rest = q :: body ∧ t.span.lo = (skipWs c).pos ∧
      t.tok = .str (scanString (skipWs c).pos q ⟨(skipWs c).pos + 1, body⟩).content
        (scanString (skipWs c).pos q ⟨(skipWs c).pos + 1, body⟩).escaped := by
  have hstr := isOwnedStr_isStr ho
  simp only [step] at hs
  split at hs
  · cases hs
  next b r hr =>
    split at hs
    · cases hs
    · split at hs
      next hqc =>
        injection hs with h1 h2 h3
        subst h1 h2
        exact ⟨b, r, hr, rfl, rfl⟩
      · split at hs
        next tk hp =>
          injection hs with h1 h2 h3
          subst h1
          have := punctTable_not_str _ (lookup_mem _ _ _ hp)
          simp only [] at hstr this
          rw [this] at hstr; cases hstr
        · split at hs
          · split at hs
            · injection hs with h1 h2 h3
              subst h1
              simp [Tok.isStr] at hstr
            · cases hs
          · split at hs
            · injection hs with h1 h2 h3
              subst h1
              have := scanWord_not_str (skipWs c)
              simp only [] at hstr
              rw [this] at hstr; cases hstr
            · split at hs <;> cases hs

/-- `buffer.len()` is the length of the token's content, and the content fits the capacity -/
def Holds (src : Bytes) (t : SpTok) : Prop :=
  ∃ content, t.tok = .str content true ∧ (strBuf hintFixed src t.span.lo).len = content.length ∧
    content.length ≤ strCap src t.span.lo

theorem holds_of_step {src : Bytes} {c c' : Cur} {t : SpTok} {ds : List Diag} (hc : c.Ok src)
    (hs : step c = .tok t c' ds) (ho : isOwnedStr t = true) : Holds src t := by
  obtain ⟨q, body, hr, hlo, htok⟩ := step_str_content hs ho
  obtain ⟨q', body', _, hr', _, _, hesc⟩ := step_str_owned hs ho
  rw [hr] at hr'
  injection hr' with hq hb
  subst hq hb
  have hw := skipWs_ok hc
  have hat : src.drop t.span.lo = q :: body := by rw [hlo, ← hw.1.1, hr]
  have hbuf : strBuf hintFixed src t.span.lo = bufLoop hintFixed q (body.length + 1) body 0 false ⟨0, 0⟩ := by
    simp only [strBuf, hat]
  have hsync := bufLoop_sync hintFixed (skipWs c).pos q (body.length + 1) ⟨(skipWs c).pos + 1, body⟩ [] false [] 0 ⟨0, 0⟩
  have hlen := bufLoop_len hintFixed (skipWs c).pos q (body.length + 1) ⟨(skipWs c).pos + 1, body⟩ [] false [] 0 ⟨0, 0⟩
    (fun _ => ⟨rfl, rfl, rfl⟩) (fun h => by cases h) (Nat.le_refl _)
  have hown : (bufLoop hintFixed q (body.length + 1) body 0 false ⟨0, 0⟩).owned = true := by
    rw [← hsync.2]; exact hesc
  refine ⟨(scanString (skipWs c).pos q ⟨(skipWs c).pos + 1, body⟩).content, ?_, ?_, ?_⟩
  · rw [htok, hesc]
  · rw [hbuf]; exact hlen.1 hown
  · show _ ≤ (strBuf hintFixed src t.span.lo).cap
    rw [hbuf]
    have h1 := hlen.1 hown
    have h2 := hlen.2
    show (scanStrLoop (skipWs c).pos q (body.length + 1) ⟨(skipWs c).pos + 1, body⟩ [] false []).content.length ≤ _
    dsimp only at h1 h2 ⊢
    omega

/-- a fact about each owned string token, lifted from `next_token` to the token stream -/
theorem lexGo_forall_owned {src : Bytes} (P : SpTok → Prop)
    (hP : ∀ (c c' : Cur) (t : SpTok) (ds : List Diag), c.Ok src → step c = .tok t c' ds → isOwnedStr t = true → P t) :
    ∀ (f : Nat) (c : Cur), c.Ok src → ∀ t ∈ (lexGo f c).1, isOwnedStr t = true → P t := by
  intro f
  induction f with
  | zero => intro c _ t ht; simp [lexGo] at ht
  | succ f ih =>
    intro c hc t ht ho
    have hok := step_ok hc
    cases hs : step c with
    | eof p => rw [lexGo_toks_eof hs] at ht; cases ht
    | skip c' ds =>
      rw [hs] at hok
      rw [lexGo_toks_skip hs] at ht
      exact ih c' hok.1 t ht ho
    | tok t' c' ds =>
      rw [hs] at hok
      rw [lexGo_toks_tok hs] at ht
      rcases List.mem_cons.mp ht with rfl | ht
      · exact hP c c' _ ds hc hs ho
      · exact ih c' hok.1 t ht ho

theorem lex_holds {src : Bytes} (h : validUtf8 src = true) :
    ∀ t ∈ (lex src).1, isOwnedStr t = true → Holds src t := by
  intro t ht ho
  exact lexGo_forall_owned (Holds src) (fun _ _ _ _ hc hs ho => holds_of_step hc hs ho) _ _ (ok_start h) t
    (mem_lex_owned ht ho) ho

end NaijaVerif.Lex
