import NaijaVerif.Lemmas.ResolveStructGlobal
import NaijaVerif.Lemmas.ResolveFactsRange
/-
`C03.sumOkB` (conjunct of `globalOkB`), part 1: the analysis model.

`sumOkB c` says: for every direct callee `g` of a (reachable) statement of function `f`, the transitive
capture reads / writes of `g` are among those of `f`.  The summaries are unions over `calleesStar`, the
`nFns`-round iteration of "add the direct callees of every member" from `[f]`.  For all facts whose
function-level direct callees are function ids (`DirLt`):
* the iteration has converged — `calleesStar f` is closed under direct callees (pigeonhole: a round that
  adds something makes a duplicate-free list longer; its members are ids below `nFns`, or `f` itself);
* `calleesStar g` is contained in every closed set that contains `g`;
hence `g ∈ direct_callees(f)` gives `calleesStar g ⊆ calleesStar f`, and `sumOkB` follows once every
statement-level callee is a function-level callee of the statement's function (`StmtDir`, what the
resolver records — `Lemmas/ResolveStructSumWalk.lean`).
-/
namespace NaijaVerif.ResolveStruct
open NaijaVerif NaijaVerif.Analysis NaijaVerif.C03 NaijaVerif.Bridge

section star
variable (c : Ctx)

/-- `direct_callees` of a function. -/
def dcs (g : Nat) : List Nat := (c.direct g).directCallees

/-- One round of `calleesStar`. -/
def starStep (s : List Nat) : List Nat := s.foldl (fun acc g => uni (dcs c g) acc) s

theorem calleesStar_eq (f : Nat) : c.calleesStar f = iter (starStep c) c.nFns [f] := rfl

theorem starStep_eq (s : List Nat) : starStep c s = addAll (fun _ => true) (dcs c) s s := by
  simp [starStep, addAll]

theorem mem_starStep {s : List Nat} {x : Nat} : x ∈ starStep c s ↔ x ∈ s ∨ ∃ g ∈ s, x ∈ dcs c g := by
  rw [starStep_eq, mem_addAll]
  simp

theorem starStep_grows (s : List Nat) : starStep c s = s ∨ s.length < (starStep c s).length := by
  obtain ⟨l, hl⟩ := addAll_suffix (fun _ => true) (dcs c) s s
  rw [← starStep_eq] at hl
  cases l with
  | nil => exact Or.inl hl
  | cons a l => right; rw [hl]; simp only [List.cons_append, List.length_cons, List.length_append]; omega

theorem starStep_nodup {s : List Nat} (h : s.Nodup) : (starStep c s).Nodup := by
  rw [starStep_eq]; exact addAll_nodup _ _ _ _ h

/-- A set closed under direct callees. -/
def DClosed (S : List Nat) : Prop := ∀ g ∈ S, ∀ h ∈ dcs c g, h ∈ S

theorem dclosed_of_fixed {s : List Nat} (h : starStep c s = s) : DClosed c s := by
  intro g hg x hx
  rw [← h, mem_starStep]
  exact Or.inr ⟨g, hg, hx⟩

theorem iter_starStep_sub {S : List Nat} (hS : DClosed c S) : ∀ (n : Nat) (s : List Nat), (∀ x ∈ s, x ∈ S) →
    ∀ x ∈ iter (starStep c) n s, x ∈ S
  | 0, _, hs => hs
  | n + 1, s, hs => by
      simp only [iter]
      refine iter_starStep_sub hS n _ ?_
      intro x hx
      rcases (mem_starStep c).1 hx with hx | ⟨g, hg, hx⟩
      · exact hs x hx
      · exact hS g (hs g hg) x hx

theorem iter_starStep_mem : ∀ (n : Nat) (s : List Nat), ∀ x ∈ s, x ∈ iter (starStep c) n s
  | 0, _, _, hx => hx
  | n + 1, s, x, hx => by
      simp only [iter]
      exact iter_starStep_mem n _ x ((mem_starStep c).2 (Or.inl hx))

/-- Pigeonhole with one extra element: a duplicate-free list of numbers that are below `n` or equal to
`a` has at most `n + 1` elements. -/
theorem length_le_of_nodup_lt_or {l : List Nat} {n a : Nat} (hn : l.Nodup) (hlt : ∀ x ∈ l, x < n ∨ x = a) :
    l.length ≤ n + 1 := by
  have h1 : (l.erase a).Nodup := hn.erase a
  have h2 : ∀ x ∈ l.erase a, x < n := by
    intro x hx
    have hne : x ≠ a := fun h => by
      subst h
      exact (List.Nodup.mem_erase_iff hn).1 hx |>.1 rfl
    rcases hlt x (List.mem_of_mem_erase hx) with h | h
    · exact h
    · exact absurd h hne
  have h3 := length_le_of_nodup_lt h1 h2
  have h4 : l.length ≤ (l.erase a).length + 1 := by
    rw [List.length_erase]
    split <;> omega
  omega

variable {c} (N a : Nat) (hA : ∀ g, ∀ h ∈ dcs c g, h < N)
include hA

theorem starStep_lt {s : List Nat} (hs : ∀ x ∈ s, x < N ∨ x = a) : ∀ x ∈ starStep c s, x < N ∨ x = a := by
  intro x hx
  rcases (mem_starStep c).1 hx with hx | ⟨g, _, hx⟩
  · exact hs x hx
  · exact Or.inl (hA g x hx)

theorem iter_starStep_fixed : ∀ (n : Nat) (s : List Nat), s.Nodup → (∀ x ∈ s, x < N ∨ x = a) → N + 1 ≤ s.length + n →
    starStep c (iter (starStep c) n s) = iter (starStep c) n s
  | 0, s, hn, hlt, hlen => by
      simp only [iter]
      rcases starStep_grows c s with h | h
      · exact h
      · have := length_le_of_nodup_lt_or (starStep_nodup c hn) (starStep_lt N a hA hlt)
        omega
  | n + 1, s, hn, hlt, hlen => by
      simp only [iter]
      rcases starStep_grows c s with h | h
      · rw [h, iter_fixed _ h n]; exact h
      · exact iter_starStep_fixed n _ (starStep_nodup c hn) (starStep_lt N a hA hlt) (by omega)

end star

/-- Every function-level direct callee is a function id. -/
def DirLt (c : Ctx) : Prop := ∀ g, ∀ h ∈ dcs c g, h < c.nFns

/-- Every statement-level direct callee is a function-level direct callee of the statement's function. -/
def StmtDir (c : Ctx) : Prop := ∀ sid, ∀ g ∈ c.callees sid, g ∈ dcs c (c.fnOf sid)

section sum
variable {c : Ctx} (hA : DirLt c)
include hA

/-- **`calleesStar` has converged.** -/
theorem calleesStar_closed (f : Nat) : DClosed c (c.calleesStar f) := by
  apply dclosed_of_fixed
  rw [calleesStar_eq]
  exact iter_starStep_fixed c.nFns f hA c.nFns [f] (by simp) (by simp) (by simp only [List.length_singleton]; omega)

omit hA in
theorem calleesStar_self (f : Nat) : f ∈ c.calleesStar f := by
  rw [calleesStar_eq]; exact iter_starStep_mem c _ _ f (by simp)

/-- The callees of a callee are callees. -/
theorem calleesStar_sub {f g : Nat} (hg : g ∈ dcs c f) : ∀ x ∈ c.calleesStar g, x ∈ c.calleesStar f := by
  have hcl := calleesStar_closed hA f
  have hgf : g ∈ c.calleesStar f := hcl f (calleesStar_self f) g hg
  rw [calleesStar_eq c g]
  exact iter_starStep_sub c hcl _ _ (by simpa using hgf)

omit hA in
theorem mem_transReads {f x : Nat} : x ∈ c.transReads f ↔ ∃ h ∈ c.calleesStar f, x ∈ (c.direct h).captureReads := by
  simp only [Ctx.transReads]
  rw [mem_foldl_uni (fun g => (c.direct g).captureReads)]
  simp

omit hA in
theorem mem_transWrites {f x : Nat} : x ∈ c.transWrites f ↔ ∃ h ∈ c.calleesStar f, x ∈ (c.direct h).captureWrites := by
  simp only [Ctx.transWrites]
  rw [mem_foldl_uni (fun g => (c.direct g).captureWrites)]
  simp

/-- **`sumOkB`** for all facts whose function-level callees are function ids and cover the
statement-level callees. -/
theorem sumOkB_of (hS : StmtDir c) : sumOkB c = true := by
  simp only [sumOkB, List.all_eq_true, Bool.or_eq_true, Bool.not_eq_true', Bool.and_eq_true]
  intro r _
  right
  intro g hg
  have hsub := calleesStar_sub hA (hS r.sid g hg)
  constructor
  · rw [subset_iff]
    intro x hx
    obtain ⟨h, hh, hx⟩ := mem_transReads.1 hx
    exact mem_transReads.2 ⟨h, hsub h hh, hx⟩
  · rw [subset_iff]
    intro x hx
    obtain ⟨h, hh, hx⟩ := mem_transWrites.1 hx
    exact mem_transWrites.2 ⟨h, hsub h hh, hx⟩

end sum

end NaijaVerif.ResolveStruct
