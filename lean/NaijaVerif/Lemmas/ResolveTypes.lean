import NaijaVerif.Lemmas.ResolveScope
/-
The typing half of C09, part 1: expressions.

`Lock ds T`: the diagnostics `ds` the checker model emits for a program fragment and the typing
violations `T` the specification lists for it are *in step* — both empty, or both sides reject (the
checker reports something, and either the specification lists a typing violation or one of the
reported diagnostics is a scoping one, which `ResolveScope` shows to be a scoping violation).
Under related environments (`Rel`: every variable / function lookup of the checker has the declared
type / result type the specification gives the name) every expression is in step, and a clean
expression has the same static type on both sides.

The exact equation `typeDs ds = T` does not hold (see `Props/C09.lean`): after a first diagnostic the
checker goes on with a recovery type where the specification has none.
-/
namespace NaijaVerif.Resolve
open NaijaVerif NaijaVerif.Spec

/-- The diagnostics of the typing rules, as (rule, span). -/
def typeDs (ds : List RDiag) : List Viol :=
  (ds.filter (fun d => !d.rule.isScoping)).map (fun d => (d.rule, d.span))

/-! ### In step -/

/-- Both sides reject. -/
def Dirty (ds : List RDiag) (T : List Viol) : Prop :=
  ds ≠ [] ∧ (T ≠ [] ∨ ∃ d ∈ ds, d.rule.isScoping = true)

def Lock (ds : List RDiag) (T : List Viol) : Prop := (ds = [] ∧ T = []) ∨ Dirty ds T

theorem Lock.nil : Lock [] [] := Or.inl ⟨rfl, rfl⟩

theorem Lock.clean {ds : List RDiag} {T : List Viol} (h : Lock ds T) (hd : ds = []) : T = [] := by
  rcases h with h | h
  · exact h.2
  · exact absurd hd h.1

theorem Dirty.mono {ds : List RDiag} {T : List Viol} (h : Dirty ds T) (a b : List RDiag) (A B : List Viol) :
    Dirty (a ++ ds ++ b) (A ++ T ++ B) := by
  obtain ⟨h1, h2⟩ := h
  refine ⟨by simp [h1], ?_⟩
  rcases h2 with h2 | ⟨d, hd, hs⟩
  · exact Or.inl (by simp [h2])
  · exact Or.inr ⟨d, by simp [hd], hs⟩

theorem Dirty.left {ds : List RDiag} {T : List Viol} (h : Dirty ds T) (b : List RDiag) (B : List Viol) :
    Dirty (ds ++ b) (T ++ B) := by simpa using h.mono [] b [] B

theorem Dirty.right {ds : List RDiag} {T : List Viol} (h : Dirty ds T) (a : List RDiag) (A : List Viol) :
    Dirty (a ++ ds) (A ++ T) := by simpa using h.mono a [] A []

/-- Sequential composition: the second fragment only has to be in step when the first is clean. -/
theorem Lock.append {ds1 ds2 : List RDiag} {T1 T2 : List Viol} (h1 : Lock ds1 T1)
    (h2 : ds1 = [] → Lock ds2 T2) : Lock (ds1 ++ ds2) (T1 ++ T2) := by
  rcases h1 with ⟨hd, ht⟩ | h
  · subst hd; subst ht; simpa using h2 rfl
  · exact Or.inr (h.left _ _)

/-- The fragment in the middle rejects on both sides. -/
theorem Lock.ofDirty {ds : List RDiag} {T : List Viol} (h : Dirty ds T) : Lock ds T := Or.inr h

theorem Lock.ofScoping {ds : List RDiag} (h : ∀ d ∈ ds, d.rule.isScoping = true) : Lock ds [] := by
  cases ds with
  | nil => exact Lock.nil
  | cons d ds => exact Or.inr ⟨by simp, Or.inr ⟨d, by simp, h d (by simp)⟩⟩

/-- A check of a typing rule under the same condition on both sides. -/
theorem Lock.own (c : Bool) (r : Rule) (s : Span) : Lock (errIf c (RDiag.at r s)) (vIf c r s) := by
  cases c
  · exact Lock.nil
  · exact Or.inr ⟨by simp [errIf], Or.inl (by simp [vIf])⟩

/-- A check of a scoping rule (the specification lists it in its scoping part). -/
theorem Lock.ownS (c : Bool) (r : Rule) (s : Span) (hr : r.isScoping = true) :
    Lock (errIf c (RDiag.at r s)) [] := by
  apply Lock.ofScoping
  intro d hd
  cases c <;> simp [errIf] at hd
  subst hd; exact hr

theorem errIf_eq_nil (c : Bool) (d : RDiag) : errIf c d = [] ↔ c = false := by
  cases c <;> simp [errIf]

theorem vIf_eq_nil (c : Bool) (r : Rule) (s : Span) : vIf c r s = [] ↔ c = false := by
  cases c <;> simp [vIf]

/-- Several diagnostics of one rule on the checker's side, one violation on the specification's. -/
theorem Lock.ofIff {ds : List RDiag} (c : Bool) (r : Rule) (s : Span) (h : ds = [] ↔ c = false) :
    Lock ds (vIf c r s) := by
  cases c
  · exact Or.inl ⟨h.mpr rfl, rfl⟩
  · refine Or.inr ⟨fun hd => ?_, Or.inl (by simp [vIf])⟩
    exact absurd (h.mp hd) (by simp)

/-! ### The operator tables: the model's closed forms against the documented ones -/

theorem binaryOk_doc (op : BinOp) (a b : VType) : binaryOk op (some a) (some b) = Doc.binaryOk op a b := by
  cases op <;> cases a <;> cases b <;> rfl

theorem inferBinary_doc (op : BinOp) (a b : VType) (h : Doc.binaryOk op a b = true) :
    inferBinary op a b = some (resultType op a b) := by
  cases op <;> cases a <;> cases b <;> first | rfl | (exact absurd h (by decide))

theorem unaryOk_doc (op : UnOp) (t : VType) : unaryOk op (some t) = Doc.unaryOk op t := by
  cases op <;> cases t <;> rfl

theorem inferUnary_doc (op : UnOp) (t : VType) (h : Doc.unaryOk op t = true) :
    inferUnary op t = some (match op with | .not => VType.bool | .neg => VType.number) := by
  cases op <;> cases t <;> first | rfl | (exact absurd h (by decide))

theorem condOk_doc (t : VType) : condOk (some t) = Doc.condOk t := by cases t <;> rfl
theorem indexBaseOk_doc (t : VType) : indexBaseOk (some t) = Doc.indexBaseOk t := by cases t <;> rfl
theorem indexIdxOk_doc (t : VType) : indexIdxOk (some t) = Doc.indexIdxOk t := by cases t <;> rfl
theorem stringArgOk_doc (t : VType) : stringArgOk (some t) = Doc.stringArgOk t := by cases t <;> rfl
theorem numberArgOk_doc (t : VType) : numberArgOk (some t) = Doc.numberArgOk t := by cases t <;> rfl
theorem argOk_string (t : VType) : Doc.argOk (some .string) t = Doc.stringArgOk t := by cases t <;> rfl
theorem argOk_number (t : VType) : Doc.argOk (some .number) t = Doc.numberArgOk t := by cases t <;> rfl

/-! ### `infer_expr_type` on empty shadow lists -/

theorem inferExprSh_nil (env : Env) (cur : Scope) : ∀ e : Expr, inferExprSh {} env cur e = inferExpr env cur e
  | .num _ _ | .null _ | .str _ _ | .bool _ _ | .array _ _ | .index _ _ _ _ | .member _ _ _ _ => by
      simp [inferExprSh, inferExpr]
  | .var v _ _ => by simp [inferExprSh, inferExpr]
  | .binary op l r _ => by
      simp only [inferExprSh, inferExpr, inferExprSh_nil env cur l, inferExprSh_nil env cur r]
  | .unary op e _ => by simp only [inferExprSh, inferExpr, inferExprSh_nil env cur e]
  | .call callee args fn s => by
      cases callee with
      | var fname vb vs => simp [inferExprSh, inferExpr]
      | member obj field fs ms => simp only [inferExprSh, inferExpr, inferExprSh_nil env cur obj]
      | _ => simp [inferExprSh, inferExpr]

/-! ### Related environments -/

/-- What a variable / function name means to `infer_expr_type` under the shadow lists. -/
def varTy (sh : Shadow) (env : Env) (cur : Scope) (x : Bytes) : Option VType :=
  if sh.vars.contains x then some .dynamic else (lookupVar env cur x).map (·.ty)

def fnTy (sh : Shadow) (env : Env) (x : Bytes) : Option VType :=
  if sh.fns.contains x then some .dynamic else (lookupFn env x).map (·.ret)

/-- The specification's environment gives every name the type the checker's lookups give it. -/
structure RelSh (sh : Shadow) (env : Env) (cur : Scope) (te : TEnv) : Prop where
  vars : ∀ x, tLookup te.vars x = varTy sh env cur x
  fns : ∀ x, tLookup te.fns x = fnTy sh env x

abbrev Rel (env : Env) (cur : Scope) (te : TEnv) : Prop := RelSh {} env cur te

theorem Rel.var {env : Env} {cur : Scope} {te : TEnv} (h : Rel env cur te) (x : Bytes) :
    tLookup te.vars x = (lookupVar env cur x).map (·.ty) := by
  simpa [varTy] using h.vars x

theorem Rel.fn {env : Env} {cur : Scope} {te : TEnv} (h : Rel env cur te) (x : Bytes) :
    tLookup te.fns x = (lookupFn env x).map (·.ret) := by
  simpa [fnTy] using h.fns x

/-! ### An expression that breaks no typing rule has the same static type on both sides -/

theorem append_nil_iff3 {α : Type} {a b c : List α} : a ++ b ++ c = [] ↔ a = [] ∧ b = [] ∧ c = [] := by
  simp [List.append_eq_nil_iff]

theorem typeOf_eq_infer (sh : Shadow) (env : Env) (cur : Scope) (te : TEnv) (h : RelSh sh env cur te) :
    ∀ e : Expr, exprT te e = [] → typeOf te e = inferExprSh sh env cur e
  | .num _ _, _ | .null _, _ | .str _ _, _ | .bool _ _, _ | .array _ _, _ | .index _ _ _ _, _
  | .member _ _ _ _, _ => by simp [typeOf, inferExprSh]
  | .var v _ _, _ => by simp only [typeOf, inferExprSh]; exact h.vars v
  | .binary op l r s, ht => by
      simp only [exprT, append_nil_iff3] at ht
      have hl := typeOf_eq_infer sh env cur te h l ht.1
      have hr := typeOf_eq_infer sh env cur te h r ht.2.1
      simp only [typeOf, inferExprSh, ← hl, ← hr]
      cases hl' : typeOf te l with
      | none => rfl
      | some a =>
        cases hr' : typeOf te r with
        | none => rfl
        | some b =>
          have hok : Doc.binaryOk op a b = true := by
            have := ht.2.2
            simp only [hl', hr', vIf_eq_nil] at this
            simpa using this
          simp [hok, inferBinary_doc op a b hok]
  | .unary op e s, ht => by
      simp only [exprT, List.append_eq_nil_iff] at ht
      have he := typeOf_eq_infer sh env cur te h e ht.1
      simp only [typeOf, inferExprSh, ← he]
      cases he' : typeOf te e with
      | none => rfl
      | some t =>
        have hok : Doc.unaryOk op t = true := by
          have := ht.2
          simp only [he', tyIf, vIf_eq_nil] at this
          simpa using this
        cases op <;> cases t <;> first | rfl | exact absurd hok (by decide)
  | .call callee args fn s, ht => by
      cases callee with
      | var fname vb vs =>
        simp only [typeOf, inferExprSh]
        cases GlobalB.ofName fname with
        | some g => rfl
        | none => simp only []; exact h.fns fname
      | member obj field fs ms =>
        simp only [exprT, append_nil_iff3] at ht
        have ho := typeOf_eq_infer sh env cur te h obj ht.1
        simp only [typeOf, inferExprSh, ← ho]
        cases typeOf te obj with
        | none => rfl
        | some rt => cases MemberKind.ofType rt <;> rfl
      | num _ _ => simp [exprT] at ht
      | bool _ _ => simp [exprT] at ht
      | null _ => simp [exprT] at ht
      | str _ _ => simp [exprT] at ht
      | array _ _ => simp [exprT] at ht
      | index _ _ _ _ => simp [exprT] at ht
      | binary _ _ _ _ => simp [exprT] at ht
      | unary _ _ _ => simp [exprT] at ht
      | call _ _ _ _ => simp [exprT] at ht

theorem exprsT_nil_mem (te : TEnv) : ∀ (es : List Expr), exprsT te es = [] → ∀ a ∈ es, exprT te a = []
  | [], _, a, ha => by simp at ha
  | e :: es, h, a, ha => by
      simp only [exprsT, List.append_eq_nil_iff] at h
      rcases List.mem_cons.mp ha with rfl | ha
      · exact h.1
      · exact exprsT_nil_mem te es h.2 a ha

/-! ### Method arguments: the checker's per-argument checks against the documented parameter types -/

/-- What the documented parameter list of a method must look like for the checks the code makes. -/
def argSpecOk (m : MemberB) : Bool :=
  match m.argCheck with
  | .none => (Doc.methodArgs m.kind m.name).all (·.isNone)
  | .string0 => Doc.methodArgs m.kind m.name == [some .string]
  | .string0If2 => Doc.methodArgs m.kind m.name == [some .string, none] && m.arity == 2
  | .number0 => Doc.methodArgs m.kind m.name == [some .number]
  | .strings2 => Doc.methodArgs m.kind m.name == [some .string, some .string]
  | .numbers2 => Doc.methodArgs m.kind m.name == [some .number, some .number]

/-- Whole table: the argument checks of `check_expr` are the documented parameter types. -/
theorem argSpec_table : memberTable.all argSpecOk = true := by decide +kernel

theorem argsOk_allNone (te : TEnv) : ∀ (ws : List (Option VType)) (args : List Expr),
    ws.all (·.isNone) = true → argsOk te ws args = true
  | [], _, _ => by simp [argsOk]
  | _ :: _, [], _ => by simp [argsOk]
  | w :: ws, a :: as, h => by
      simp only [List.all_cons, Bool.and_eq_true] at h
      cases w with
      | some _ => simp at h
      | none =>
        simp only [argsOk, Doc.argOk]
        rw [argsOk_allNone te ws as h.2]
        cases typeOf te a <;> rfl

/-- One argument against one documented parameter type. -/
def specArg (te : TEnv) (w : Option VType) (a : Expr) : Bool :=
  match typeOf te a with
  | some t => Doc.argOk w t
  | none => true

theorem argsOk_cons (te : TEnv) (w : Option VType) (ws : List (Option VType)) (a : Expr) (as : List Expr) :
    argsOk te (w :: ws) (a :: as) = (specArg te w a && argsOk te ws as) := rfl

theorem argsOk_nil_left (te : TEnv) (args : List Expr) : argsOk te [] args = true := by
  cases args <;> rfl

theorem argsOk_nil_right (te : TEnv) (ws : List (Option VType)) : argsOk te ws [] = true := by
  cases ws <;> rfl

theorem specArg_none (te : TEnv) (a : Expr) : specArg te none a = true := by
  unfold specArg; cases typeOf te a <;> rfl

theorem strOk_eq (env : Env) (cur : Scope) (te : TEnv) (a : Expr) (h : typeOf te a = inferExpr env cur a) :
    stringArgOk (inferExpr env cur a) = specArg te (some .string) a := by
  unfold specArg
  rw [h]
  cases inferExpr env cur a with
  | none => rfl
  | some t => simp only [stringArgOk_doc, argOk_string]

theorem numOk_eq (env : Env) (cur : Scope) (te : TEnv) (a : Expr) (h : typeOf te a = inferExpr env cur a) :
    numberArgOk (inferExpr env cur a) = specArg te (some .number) a := by
  unfold specArg
  rw [h]
  cases inferExpr env cur a with
  | none => rfl
  | some t => simp only [numberArgOk_doc, argOk_number]

theorem argDiags_iff (env : Env) (cur : Scope) (te : TEnv) (args : List Expr)
    (hA : ∀ a ∈ args, typeOf te a = inferExpr env cur a) (m : MemberB) (hm : m ∈ memberTable)
    (hlen : args.length = m.arity) (ms : Span) :
    argDiags env cur m.argCheck args ms = [] ↔ argsOk te (Doc.methodArgs m.kind m.name) args = true := by
  have ht := List.all_eq_true.mp argSpec_table m hm
  unfold argSpecOk at ht
  cases hck : m.argCheck with
  | none =>
    simp only [hck] at ht
    simp [argDiags, argsOk_allNone te _ args ht]
  | string0 =>
    simp only [hck, beq_iff_eq] at ht
    rw [ht]
    match args, hA with
    | [], _ => simp [argDiags, argsOk_nil_right]
    | a :: rest, hA =>
      rw [argsOk_cons, argsOk_nil_left, ← strOk_eq env cur te a (hA a (by simp))]
      simp [argDiags, errIf_eq_nil]
  | number0 =>
    simp only [hck, beq_iff_eq] at ht
    rw [ht]
    match args, hA with
    | [], _ => simp [argDiags, argsOk_nil_right]
    | a :: rest, hA =>
      rw [argsOk_cons, argsOk_nil_left, ← numOk_eq env cur te a (hA a (by simp))]
      simp [argDiags, errIf_eq_nil]
  | string0If2 =>
    simp only [hck, Bool.and_eq_true, beq_iff_eq] at ht
    rw [ht.1]
    rw [ht.2] at hlen
    match args, hlen, hA with
    | [a, b], _, hA =>
      rw [argsOk_cons, argsOk_cons, argsOk_nil_left, specArg_none, ← strOk_eq env cur te a (hA a (by simp))]
      simp [argDiags, errIf_eq_nil]
  | strings2 =>
    simp only [hck, beq_iff_eq] at ht
    rw [ht]
    match args, hA with
    | [], _ => simp [argDiags, argsOk_nil_right]
    | [a], hA =>
      rw [argsOk_cons, argsOk_nil_right, ← strOk_eq env cur te a (hA a (by simp))]
      simp [argDiags, errIf_eq_nil]
    | a :: b :: rest, hA =>
      rw [argsOk_cons, argsOk_cons, argsOk_nil_left, ← strOk_eq env cur te a (hA a (by simp)),
        ← strOk_eq env cur te b (hA b (by simp))]
      simp [argDiags, errIf_eq_nil]
  | numbers2 =>
    simp only [hck, beq_iff_eq] at ht
    rw [ht]
    match args, hA with
    | [], _ => simp [argDiags, argsOk_nil_right]
    | [a], hA =>
      rw [argsOk_cons, argsOk_nil_right, ← numOk_eq env cur te a (hA a (by simp))]
      simp [argDiags, errIf_eq_nil]
    | a :: b :: rest, hA =>
      rw [argsOk_cons, argsOk_cons, argsOk_nil_left, ← numOk_eq env cur te a (hA a (by simp)),
        ← numOk_eq env cur te b (hA b (by simp))]
      simp [argDiags, errIf_eq_nil]

/-! ### Receivers -/

/-- A receiver the checker has nothing to say about starts at a declared variable iff it starts at a
variable. -/
theorem rootLocal_of_clean (env : Env) (cur : Scope) (sid : Nat) :
    ∀ (e : Expr) (f : Facts), (checkExpr env cur sid e f).ds = [] →
      (exprRootLocal env cur e).isSome = isVarRooted e
  | .var v _ s, f, h => by
      simp only [checkExpr] at h
      cases hl : lookupVar env cur v with
      | some e => simp [exprRootLocal, isVarRooted, hl]
      | none => simp [hl] at h
  | .index a i _ _, f, h => by
      simp only [checkExpr, List.append_eq_nil_iff] at h
      simp only [exprRootLocal, isVarRooted]
      exact rootLocal_of_clean env cur sid a f h.1.1.1
  | .member o _ _ _, f, h => by simp [checkExpr] at h
  | .num _ _, _, _ | .bool _ _, _, _ | .null _, _, _ | .str _ _, _, _ | .array _ _, _, _
  | .binary _ _ _ _, _, _ | .unary _ _ _, _, _ | .call _ _ _ _, _, _ => by
      simp [exprRootLocal, isVarRooted]

theorem checkSegs_allScoping (env : Env) (cur : Scope) (sid : Nat) (span : Span) :
    ∀ (segs : List Seg) (f : Facts), ∀ d ∈ (checkSegs env cur sid span segs f).ds, d.rule.isScoping = true
  | [], f, d, hd => by simp [checkSegs] at hd
  | .lit _ :: rest, f, d, hd => by
      simp only [checkSegs] at hd
      exact checkSegs_allScoping env cur sid span rest f d hd
  | .var n _ :: rest, f, d, hd => by
      simp only [checkSegs] at hd
      cases hl : lookupVar env cur n with
      | some e =>
        simp only [hl] at hd
        exact checkSegs_allScoping env cur sid span rest _ d hd
      | none =>
        simp only [hl, List.mem_cons] at hd
        rcases hd with rfl | hd
        · rfl
        · exact checkSegs_allScoping env cur sid span rest _ d hd

theorem memberOf_mem {k : MemberKind} {n : Bytes} {m : MemberB} (h : memberOf k n = some m) : m ∈ memberTable :=
  List.mem_of_find?_eq_some h

/-- The checks of a method call on a receiver of static type `rt`, the arguments having the same
static types on both sides. -/
theorem checkMethod_lock (env : Env) (cur : Scope) (sid : Nat) (te : TEnv) (rt : VType) (obj : Expr)
    (field : Bytes) (args : List Expr) (ms : Span) (f : Facts)
    (hroot : (exprRootLocal env cur obj).isSome = isVarRooted obj)
    (hargs : ∀ a ∈ args, typeOf te a = inferExpr env cur a) :
    Lock (checkMethod env cur sid rt obj field args ms f).1
      (if rt = .dynamic then [] else
        match (MemberKind.ofType rt).bind (fun k => memberOf k field) with
        | none => [(Rule.methodUnknown, ms)]
        | some m =>
            vIf (m.mutRecv && m.kind == .processCommand && !isVarRooted obj) .tyMutReceiver ms
              ++ vIf (args.length != m.arity) .arityMethod ms
              ++ vIf (!argsOk te (Doc.methodArgs m.kind m.name) args) .tyMethodArg ms) := by
  unfold checkMethod
  cases hb : (MemberKind.ofType rt).bind (fun k => memberOf k field) with
  | none =>
    by_cases hrt : rt = .dynamic
    · subst hrt; simp [errIf]; exact Lock.nil
    · simp only [hrt, if_false]
      refine Or.inr ⟨?_, Or.inl (by simp)⟩
      simp [errIf, hrt]
  | some m =>
    have hrt : rt ≠ .dynamic := by
      intro h; subst h; simp [MemberKind.ofType] at hb
    have hm : m ∈ memberTable := by
      cases hk : MemberKind.ofType rt with
      | none => simp [hk] at hb
      | some k => simp only [hk, Option.bind_some] at hb; exact memberOf_mem hb
    simp only [hrt, if_false]
    have hc1 : (m.mutRecv && (exprRootLocal env cur obj).isNone && m.kind == .processCommand)
        = (m.mutRecv && m.kind == .processCommand && !isVarRooted obj) := by
      rw [← hroot]
      cases m.mutRecv <;> cases (m.kind == MemberKind.processCommand) <;> cases exprRootLocal env cur obj <;> rfl
    rw [hc1]
    refine Lock.append (Lock.append (Lock.own _ _ _) (fun _ => Lock.own _ _ _)) (fun hc => ?_)
    have hlen : args.length = m.arity := by
      have := (List.append_eq_nil_iff.mp hc).2
      rw [errIf_eq_nil] at this
      simpa using this
    apply Lock.ofIff
    rw [argDiags_iff env cur te args hargs m hm hlen ms]
    cases argsOk te (Doc.methodArgs m.kind m.name) args <;> simp

/-! ### Expressions are in step -/

/-- A clean sub-expression has the same static type on both sides. -/
theorem clean_type {env : Env} {cur : Scope} {te : TEnv} (h : Rel env cur te) {e : Expr} {ds : List RDiag}
    (hL : Lock ds (exprT te e)) (hd : ds = []) : typeOf te e = inferExpr env cur e := by
  rw [← inferExprSh_nil]; exact typeOf_eq_infer {} env cur te h e (hL.clean hd)

/-- A callee that is neither a name nor a method: both sides reject. -/
theorem badCallee_dirty (a b : List RDiag) (A B : List Viol) (s : Span) :
    Dirty (a ++ [RDiag.at .badCallee s] ++ b) (A ++ [(Rule.badCallee, s)] ++ B) :=
  Dirty.mono ⟨by simp, Or.inl (by simp)⟩ a b A B

mutual
  theorem checkExpr_lock (env : Env) (cur : Scope) (sid : Nat) (te : TEnv) (h : Rel env cur te) :
      ∀ (e : Expr) (f : Facts),
        Lock (checkExpr env cur sid e f).ds (exprT te e) ∧
        ((checkExpr env cur sid e f).ds = [] → (inferExpr env cur e).isSome = true)
    | .num _ _, f => by simp [checkExpr, exprT, inferExpr, Lock.nil]
    | .bool _ _, f => by simp [checkExpr, exprT, inferExpr, Lock.nil]
    | .null _, f => by simp [checkExpr, exprT, inferExpr, Lock.nil]
    | .str (.static _) _, f => by simp [checkExpr, exprT, inferExpr, Lock.nil]
    | .str (.interp segs) s, f => by
        simp only [checkExpr, exprT, inferExpr, Option.isSome_some, implies_true, and_true]
        exact Lock.ofScoping (checkSegs_allScoping env cur sid s segs f)
    | .array es _, f => by
        simp only [checkExpr, exprT, inferExpr, Option.isSome_some, implies_true, and_true]
        exact checkExprs_lock env cur sid te h es f
    | .index a i isp s, f => by
        obtain ⟨hLa, hSa⟩ := checkExpr_lock env cur sid te h a f
        obtain ⟨hLi, hSi⟩ := checkExpr_lock env cur sid te h i (checkExpr env cur sid a f).facts
        simp only [checkExpr, exprT, inferExpr, Option.isSome_some, implies_true, and_true]
        refine Lock.append (Lock.append (Lock.append hLa (fun _ => hLi)) (fun hc => ?_)) (fun hc => ?_)
        · obtain ⟨hc1, _⟩ := List.append_eq_nil_iff.mp hc
          obtain ⟨ta, hta⟩ := Option.isSome_iff_exists.mp (hSa hc1)
          rw [clean_type h hLa hc1, hta, tyIf, indexBaseOk_doc]
          exact Lock.own _ _ _
        · obtain ⟨hc12, _⟩ := List.append_eq_nil_iff.mp hc
          obtain ⟨_, hc2⟩ := List.append_eq_nil_iff.mp hc12
          obtain ⟨ti, hti⟩ := Option.isSome_iff_exists.mp (hSi hc2)
          rw [clean_type h hLi hc2, hti, tyIf, indexIdxOk_doc]
          exact Lock.own _ _ _
    | .var v _ s, f => by
        simp only [checkExpr, exprT, inferExpr]
        cases hl : lookupVar env cur v with
        | some e => simp [Lock.nil]
        | none =>
          simp only [List.cons_ne_nil, false_implies, and_true]
          exact Lock.ofScoping (by intro d hd; simp at hd; subst hd; rfl)
    | .binary op l r s, f => by
        obtain ⟨hLl, hSl⟩ := checkExpr_lock env cur sid te h l f
        obtain ⟨hLr, hSr⟩ := checkExpr_lock env cur sid te h r (checkExpr env cur sid l f).facts
        simp only [checkExpr, exprT, inferExpr]
        constructor
        · refine Lock.append (Lock.append hLl (fun _ => hLr)) (fun hc => ?_)
          obtain ⟨hc1, hc2⟩ := List.append_eq_nil_iff.mp hc
          obtain ⟨a, ha⟩ := Option.isSome_iff_exists.mp (hSl hc1)
          obtain ⟨b, hb⟩ := Option.isSome_iff_exists.mp (hSr hc2)
          rw [clean_type h hLl hc1, clean_type h hLr hc2, ha, hb, binaryOk_doc]
          exact Lock.own _ _ _
        · intro hc
          obtain ⟨hc12, hc3⟩ := List.append_eq_nil_iff.mp hc
          obtain ⟨hc1, hc2⟩ := List.append_eq_nil_iff.mp hc12
          obtain ⟨a, ha⟩ := Option.isSome_iff_exists.mp (hSl hc1)
          obtain ⟨b, hb⟩ := Option.isSome_iff_exists.mp (hSr hc2)
          rw [ha, hb, errIf_eq_nil, binaryOk_doc] at hc3
          rw [ha, hb]
          simp only []
          rw [inferBinary_doc op a b (by simpa using hc3)]
          rfl
    | .unary op e s, f => by
        obtain ⟨hLe, hSe⟩ := checkExpr_lock env cur sid te h e f
        simp only [checkExpr, exprT, inferExpr]
        constructor
        · refine Lock.append hLe (fun hc => ?_)
          obtain ⟨t, ht⟩ := Option.isSome_iff_exists.mp (hSe hc)
          rw [clean_type h hLe hc, ht, tyIf, unaryOk_doc]
          exact Lock.own _ _ _
        · intro hc
          obtain ⟨hc1, hc2⟩ := List.append_eq_nil_iff.mp hc
          obtain ⟨t, ht⟩ := Option.isSome_iff_exists.mp (hSe hc1)
          rw [ht, errIf_eq_nil, unaryOk_doc] at hc2
          rw [ht]
          simp only []
          rw [inferUnary_doc op t (by simpa using hc2)]
          rfl
    | .member o fld fs s, f => by
        simp only [checkExpr, exprT]
        refine ⟨Or.inr (Dirty.right ⟨by simp, Or.inl (by simp)⟩ _ _), fun hc => ?_⟩
        simp at hc
    | .call callee args fn s, f => by
        cases callee with
        | var fname vb vs =>
          simp only [checkExpr, exprT, inferExpr]
          cases hg : GlobalB.ofName fname with
          | some g =>
            simp only [Option.isSome_some, implies_true, and_true]
            have hLa := checkExprs_lock env cur sid te h args f
            rcases hLa with ⟨hra, hTa⟩ | hdirty
            · -- the arguments are clean: their static types agree
              have hA : ∀ a ∈ args, typeOf te a = inferExpr env cur a := fun a ha => by
                rw [← inferExprSh_nil]; exact typeOf_eq_infer {} env cur te h a (exprsT_nil_mem te args hTa a ha)
              rw [hra, hTa]
              simp only [List.append_nil]
              have hS := Lock.ownS (args.length != g.arity) .arityGlobal s rfl
              have hcmd : ∀ a ∈ args, Lock (errIf (!stringArgOk (inferExpr env cur a)) (RDiag.at .tyCommandArg s))
                  (tyIf (typeOf te a) Doc.stringArgOk .tyCommandArg s) := fun a ha => by
                rw [hA a ha]
                cases inferExpr env cur a with
                | none => simp [errIf, stringArgOk, tyIf, Lock.nil]
                | some t => simp only [tyIf, stringArgOk_doc]; exact Lock.own _ _ _
              cases g <;> cases args with
              | nil => simpa using hS
              | cons a rest =>
                first
                | (simpa using hS)
                | (have := Lock.append hS (fun _ => hcmd a (by simp))
                   simpa using this)
            · exact Or.inr (hdirty.right _ _)
          | none =>
            simp only []
            cases hl : lookupFn env fname with
            | some g =>
              simp only [Option.map_some, Option.isSome_some, implies_true, and_true]
              have := Lock.append (Lock.ownS (args.length != g.arity) .arityUser s rfl)
                (fun _ => checkExprs_lock env cur sid te h args
                  (recStmtCallee (recUserCall (recDirectCallee f env.owner g.id) env.owner g.id) sid g.id))
              simpa using this
            | none =>
              simp only [List.cons_ne_nil, false_implies, and_true]
              exact Or.inr ⟨by simp, Or.inr ⟨RDiag.at .undeclaredFn s, by simp, rfl⟩⟩
        | member obj field fs ms =>
          obtain ⟨hLo, hSo⟩ := checkExpr_lock env cur sid te h obj f
          simp only [checkExpr, exprT, inferExpr]
          constructor
          · by_cases hro : (checkExpr env cur sid obj f).ds = []
            · obtain ⟨rt, hrt⟩ := Option.isSome_iff_exists.mp (hSo hro)
              have hto := clean_type h hLo hro
              rw [hto, hrt]
              simp only []
              have hLa := checkExprs_lock env cur sid te h args
                (checkMethod env cur sid rt obj field args ms (checkExpr env cur sid obj f).facts).2
              rcases hLa with ⟨hra, hTa⟩ | hdirty
              · have hA : ∀ a ∈ args, typeOf te a = inferExpr env cur a := fun a ha => by
                  rw [← inferExprSh_nil]; exact typeOf_eq_infer {} env cur te h a (exprsT_nil_mem te args hTa a ha)
                refine Lock.append (Lock.append hLo (fun _ => ?_)) (fun _ => Or.inl ⟨hra, hTa⟩)
                exact checkMethod_lock env cur sid te rt obj field args ms _
                  (rootLocal_of_clean env cur sid obj f hro) hA
              · exact Or.inr (hdirty.right _ _)
            · rcases hLo with ⟨hd, _⟩ | hD
              · exact absurd hd hro
              · exact Or.inr ((hD.left _ _).left _ _)
          · intro hc
            obtain ⟨hc12, _⟩ := List.append_eq_nil_iff.mp hc
            obtain ⟨hc1, _⟩ := List.append_eq_nil_iff.mp hc12
            obtain ⟨rt, hrt⟩ := Option.isSome_iff_exists.mp (hSo hc1)
            rw [hrt]
            simp only []
            cases MemberKind.ofType rt with
            | none => rfl
            | some k => simp only []; cases memberOf k field <;> rfl
        | num l s' =>
          rw [checkExpr.eq_def, exprT.eq_def]
          exact ⟨Or.inr (badCallee_dirty _ _ _ _ s), fun hc => by simp at hc⟩
        | bool b s' =>
          rw [checkExpr.eq_def, exprT.eq_def]
          exact ⟨Or.inr (badCallee_dirty _ _ _ _ s), fun hc => by simp at hc⟩
        | null s' =>
          rw [checkExpr.eq_def, exprT.eq_def]
          exact ⟨Or.inr (badCallee_dirty _ _ _ _ s), fun hc => by simp at hc⟩
        | str p s' =>
          rw [checkExpr.eq_def, exprT.eq_def]
          exact ⟨Or.inr (badCallee_dirty _ _ _ _ s), fun hc => by simp at hc⟩
        | array es s' =>
          rw [checkExpr.eq_def, exprT.eq_def]
          exact ⟨Or.inr (badCallee_dirty _ _ _ _ s), fun hc => by simp at hc⟩
        | index a i isp s' =>
          rw [checkExpr.eq_def, exprT.eq_def]
          exact ⟨Or.inr (badCallee_dirty _ _ _ _ s), fun hc => by simp at hc⟩
        | binary op l r s' =>
          rw [checkExpr.eq_def, exprT.eq_def]
          exact ⟨Or.inr (badCallee_dirty _ _ _ _ s), fun hc => by simp at hc⟩
        | unary op e s' =>
          rw [checkExpr.eq_def, exprT.eq_def]
          exact ⟨Or.inr (badCallee_dirty _ _ _ _ s), fun hc => by simp at hc⟩
        | call c' a' f' s' =>
          rw [checkExpr.eq_def, exprT.eq_def]
          exact ⟨Or.inr (badCallee_dirty _ _ _ _ s), fun hc => by simp at hc⟩
  theorem checkExprs_lock (env : Env) (cur : Scope) (sid : Nat) (te : TEnv) (h : Rel env cur te) :
      ∀ (es : List Expr) (f : Facts), Lock (checkExprs env cur sid es f).ds (exprsT te es)
    | [], f => by simp [checkExprs, exprsT, Lock.nil]
    | e :: es, f => by
        simp only [checkExprs, exprsT]
        exact Lock.append (checkExpr_lock env cur sid te h e f).1
          (fun _ => checkExprs_lock env cur sid te h es _)
end

end NaijaVerif.Resolve
