import NaijaVerif.Lemmas.AnalysisRefinePrims
/-
BRIDGE, part 2: the primitives of `Model/Eval.lean` satisfy the laws `Lawful` the C03 theorems ask of
the primitive semantics (what the fixed classification relies on).
-/
namespace NaijaVerif.C03
open NaijaVerif NaijaVerif.Analysis

variable {N : Type} [NumOps N]

/-- `v` has the literal type `t`. -/
def tyE : Eval.Value N → LTy → Prop
  | .num _, .num => True
  | .str _, .str => True
  | .bool _, .bool => True
  | .null, .null => True
  | _, _ => False

theorem globalB_cases (name : Bytes) :
    (name = b!"shout" ∧ Eval.GlobalB.ofName name = some .shout) ∨
    (name = b!"typeof" ∧ Eval.GlobalB.ofName name = some .typeOf) ∨
    (name = b!"read_line" ∧ Eval.GlobalB.ofName name = some .readLine) ∨
    (name = b!"to_string" ∧ Eval.GlobalB.ofName name = some .toString) ∨
    (name = b!"command" ∧ Eval.GlobalB.ofName name = some .command) ∨
    (name ≠ b!"shout" ∧ name ≠ b!"typeof" ∧ name ≠ b!"read_line" ∧ name ≠ b!"to_string" ∧ name ≠ b!"command" ∧
      Eval.GlobalB.ofName name = none) := by
  by_cases h1 : name = b!"shout"
  · exact Or.inl ⟨h1, by subst h1; rfl⟩
  by_cases h2 : name = b!"typeof"
  · exact Or.inr (Or.inl ⟨h2, by subst h2; rfl⟩)
  by_cases h3 : name = b!"read_line"
  · exact Or.inr (Or.inr (Or.inl ⟨h3, by subst h3; rfl⟩))
  by_cases h4 : name = b!"to_string"
  · exact Or.inr (Or.inr (Or.inr (Or.inl ⟨h4, by subst h4; rfl⟩)))
  by_cases h5 : name = b!"command"
  · exact Or.inr (Or.inr (Or.inr (Or.inr (Or.inl ⟨h5, by subst h5; rfl⟩))))
  · exact Or.inr (Or.inr (Or.inr (Or.inr (Or.inr ⟨h1, h2, h3, h4, h5, by simp [Eval.GlobalB.ofName, h1, h2, h3, h4, h5]⟩))))

theorem globalClass_other {name : Bytes} (h1 : name ≠ b!"shout") (h2 : name ≠ b!"typeof") (h3 : name ≠ b!"read_line")
    (h4 : name ≠ b!"to_string") (h5 : name ≠ b!"command") : globalClass name = none := by
  have e1 : (b!"shout" == name) = false := by simpa using fun e => h1 e.symm
  have e2 : (b!"typeof" == name) = false := by simpa using fun e => h2 e.symm
  have e3 : (b!"read_line" == name) = false := by simpa using fun e => h3 e.symm
  have e4 : (b!"to_string" == name) = false := by simpa using fun e => h4 e.symm
  have e5 : (b!"command" == name) = false := by simpa using fun e => h5 e.symm
  simp only [globalClass, Gen.Builtins.globals, List.find?, e1, e2, e3, e4, e5, Option.map_none]

theorem mutM_impure (field : Bytes) (h : (Eval.MutM.ofName field).isSome = true) : memberClass field = some .impure := by
  by_cases c0 : field = b!"push"
  · subst c0; decide
  by_cases c1 : field = b!"pop"
  · subst c1; decide
  by_cases c2 : field = b!"reverse"
  · subst c2; decide
  by_cases c3 : field = b!"arg"
  · subst c3; decide
  by_cases c4 : field = b!"cwd"
  · subst c4; decide
  by_cases c5 : field = b!"env"
  · subst c5; decide
  by_cases c6 : field = b!"stdin_text"
  · subst c6; decide
  by_cases c7 : field = b!"stdin_inherit"
  · subst c7; decide
  by_cases c8 : field = b!"stdin_null"
  · subst c8; decide
  by_cases c9 : field = b!"stdout_capture"
  · subst c9; decide
  by_cases c10 : field = b!"stdout_inherit"
  · subst c10; decide
  by_cases c11 : field = b!"stdout_null"
  · subst c11; decide
  by_cases c12 : field = b!"stderr_capture"
  · subst c12; decide
  by_cases c13 : field = b!"stderr_inherit"
  · subst c13; decide
  by_cases c14 : field = b!"stderr_null"
  · subst c14; decide
  by_cases c15 : field = b!"timeout_ms"
  · subst c15; decide
  by_cases d0 : field = b!"len"
  · subst d0; exact absurd h (by decide)
  by_cases d1 : field = b!"join"
  · subst d1; exact absurd h (by decide)
  by_cases d2 : field = b!"run"
  · subst d2; exact absurd h (by decide)
  · simp [Eval.MutM.ofName, Eval.ArrM.ofName, Eval.CmdM.ofName, c0, c1, c2, c3, c4, c5, c6, c7, c8, c9, c10, c11, c12, c13, c14, c15, d0, d1, d2] at h

theorem tyE_num {v : Eval.Value N} (h : tyE v .num) : ∃ n, v = .num n := by cases v <;> simp [tyE] at h; exact ⟨_, rfl⟩
theorem tyE_str {v : Eval.Value N} (h : tyE v .str) : ∃ s, v = .str s := by cases v <;> simp [tyE] at h; exact ⟨_, rfl⟩
theorem tyE_bool {v : Eval.Value N} (h : tyE v .bool) : ∃ b, v = .bool b := by cases v <;> simp [tyE] at h; exact ⟨_, rfl⟩
theorem tyE_null {v : Eval.Value N} (h : tyE v .null) : v = .null := by cases v <;> simp [tyE] at h; rfl

theorem lawful_unary (op : UnOp) (x : Expr) (sp : Span) (a : Eval.Value N) (ta t : LTy) (ha : tyE a ta)
    (ht : litUnary op ta = some t) : ∃ v, nodeE (.unary op x sp) [a] = .ok v ∧ tyE v t := by
  cases op <;> cases ta <;> simp [litUnary] at ht <;> subst ht
  · obtain ⟨b, rfl⟩ := tyE_bool ha; exact ⟨_, rfl, trivial⟩
  · have := tyE_null ha; subst this; exact ⟨_, rfl, trivial⟩
  · obtain ⟨n, rfl⟩ := tyE_num ha; exact ⟨_, rfl, trivial⟩

theorem lawful_binary (op : BinOp) (l r : Expr) (sp : Span) (a b : Eval.Value N) (ta tb t : LTy)
    (hl : Analysis.isLogic op = false) (hd : op ≠ .divide) (hm : op ≠ .mod) (ha : tyE a ta) (hb : tyE b tb)
    (ht : litBinary op ta tb = some t) : ∃ v, nodeE (.binary op l r sp) [a, b] = .ok v ∧ tyE v t := by
  cases op <;> simp [Analysis.isLogic] at hl <;> (try exact absurd rfl hd) <;> (try exact absurd rfl hm) <;>
    cases ta <;> cases tb <;> simp [litBinary, Analysis.isArith, Analysis.isCmp, Analysis.isLogic] at ht <;> subst ht <;>
    (first
      | (obtain ⟨n1, rfl⟩ := tyE_num ha)
      | (obtain ⟨n1, rfl⟩ := tyE_str ha)
      | (obtain ⟨n1, rfl⟩ := tyE_bool ha)
      | (have := tyE_null ha; subst this)) <;>
    (first
      | (obtain ⟨n2, rfl⟩ := tyE_num hb)
      | (obtain ⟨n2, rfl⟩ := tyE_str hb)
      | (obtain ⟨n2, rfl⟩ := tyE_bool hb)
      | (have := tyE_null hb; subst this)) <;>
    exact ⟨_, rfl, trivial⟩

/-- **The primitives of `Model/Eval.lean` are `Lawful`.** -/
theorem evalPrims_lawful (cfg : Eval.RunCfg) (ds ss : Nat → Option Nat) :
    Lawful (evalPrims (N := N) cfg ds ss) tyE where
  global_iff := by
    intro name
    show (Eval.GlobalB.ofName name).isSome = (globalClass name).isSome
    rcases globalB_cases name with ⟨rfl, h⟩ | ⟨rfl, h⟩ | ⟨rfl, h⟩ | ⟨rfl, h⟩ | ⟨rfl, h⟩ | ⟨h1, h2, h3, h4, h5, h⟩
    · rw [h]; decide
    · rw [h]; decide
    · rw [h]; decide
    · rw [h]; decide
    · rw [h]; decide
    · rw [h, globalClass_other h1 h2 h3 h4 h5]; rfl
  shout_impure := by
    intro name hs
    have hs' : Eval.GlobalB.ofName name = some .shout := by simpa [evalPrims] using hs
    rcases globalB_cases name with ⟨rfl, _⟩ | ⟨rfl, h⟩ | ⟨rfl, h⟩ | ⟨rfl, h⟩ | ⟨rfl, h⟩ | ⟨_, _, _, _, _, h⟩
    · decide
    all_goals (rw [h] at hs'; cases hs')
  mut_impure := fun f h => mutM_impure f h
  num := fun _ _ => ⟨_, rfl, trivial⟩
  bool := fun _ _ => ⟨_, rfl, trivial⟩
  null := fun _ => ⟨_, rfl, trivial⟩
  str := by
    intro p sp rs
    cases p with
    | «static» s => exact ⟨_, rfl, trivial⟩
    | interp segs => exact ⟨_, rfl, trivial⟩
  array := fun _ _ _ => ⟨_, rfl⟩
  unary := lawful_unary
  binary := lawful_binary
  logicShort := by intro op; cases op <;> trivial
  logicRhs := by
    intro b tb hb htb
    rcases htb with rfl | rfl
    · obtain ⟨x, rfl⟩ := tyE_bool hb; exact ⟨_, rfl, trivial⟩
    · have := tyE_null hb; subst this; exact ⟨_, rfl, trivial⟩
  pureGlobal := by
    intro name a hc hn
    show ∃ v, globalE name [a] = .ok v
    rcases globalB_cases name with ⟨rfl, _⟩ | ⟨rfl, h⟩ | ⟨rfl, h⟩ | ⟨rfl, h⟩ | ⟨rfl, h⟩ | ⟨h1, h2, h3, h4, h5, _⟩
    · exact absurd hc (by decide)
    · exact ⟨.str a.typeOf, by simp [globalE, h]⟩
    · exact absurd hc (by decide)
    · exact ⟨.str a.display, by simp [globalE, h]⟩
    · exact absurd rfl hn
    · rw [globalClass_other h1 h2 h3 h4 h5] at hc; cases hc
  command := by
    intro a ha
    obtain ⟨s, rfl⟩ := tyE_str ha
    exact ⟨_, rfl⟩
  cond := by
    intro v hv
    rcases hv with hv | hv
    · obtain ⟨b, rfl⟩ := tyE_bool hv; exact ⟨b, rfl⟩
    · have := tyE_null hv; subst this; exact ⟨false, rfl⟩

end NaijaVerif.C03
