/-
Helper lemmas for C17 (`Props/C17.lean`): the system-call model conserves the text, `memchr` with
a sound `scanned` offset equals a search from the start, the loop invariant of the fixed
`read_line`, and the UTF-8 automaton splits at ASCII bytes.
-/
import NaijaVerif.Model.ReadLine

namespace NaijaVerif.ReadLine

/-! ### `read(2)` over the chunk stream -/

theorem sysRead_flatten (count : Nat) (input : List (List Nat)) :
    (sysRead count input).1 ++ (sysRead count input).2.flatten = input.flatten := by
  fun_induction sysRead count input with
  | case1 => simp
  | case2 cs ih => simpa using ih
  | case3 b c cs h => simp
  | case4 b c cs h =>
      simp only [List.flatten_cons]
      rw [← List.append_assoc, List.take_append_drop]

theorem sysRead_length_le (count : Nat) (input : List (List Nat)) :
    (sysRead count input).1.length ≤ count := by
  fun_induction sysRead count input with
  | case1 => simp
  | case2 cs ih => exact ih
  | case3 b c cs h => exact h
  | case4 b c cs h => simp [List.length_take]; omega

/-- With room for at least one byte, `read` returns nothing only at the end of the input. -/
theorem sysRead_nil (count : Nat) (input : List (List Nat)) (hc : 0 < count)
    (h : (sysRead count input).1 = []) : input.flatten = [] := by
  fun_induction sysRead count input with
  | case1 => simp
  | case2 cs ih => simpa using ih h
  | case3 b c cs hle => simp at h
  | case4 b c cs hle =>
      simp only at h
      cases count with
      | zero => omega
      | succ n => simp at h

/-! ### `memchr` -/

theorem findIdx_eq_length_of_not_mem (l : List Nat) (x : Nat) (h : x ∉ l) :
    l.findIdx (· == x) = l.length := by
  rw [List.findIdx_eq_length]
  intro y hy
  have hne : y ≠ x := fun e => h (e ▸ hy)
  simpa using hne

theorem not_mem_of_findIdx_eq_length (l : List Nat) (x : Nat)
    (h : l.findIdx (· == x) = l.length) : x ∉ l := by
  rw [List.findIdx_eq_length] at h
  intro hx
  have := h x hx
  simp at this

/-- Searching from `off` is searching from the start when the skipped prefix has no needle. -/
theorem memchr_eq_findIdx (needle : Nat) (hay : List Nat) (off : Nat) (hoff : off ≤ hay.length)
    (hpre : needle ∉ hay.take off) :
    memchr needle hay off = hay.findIdx (· == needle) := by
  have hmin : min off hay.length = off := Nat.min_eq_left hoff
  simp only [memchr, hmin]
  conv => rhs; rw [← List.take_append_drop off hay]
  rw [List.findIdx_append]
  have h1 := findIdx_eq_length_of_not_mem _ _ hpre
  rw [h1]
  simp [List.length_take, hmin]
  omega

theorem memchr_zero (needle : Nat) (hay : List Nat) :
    memchr needle hay 0 = hay.findIdx (· == needle) :=
  memchr_eq_findIdx needle hay 0 (Nat.zero_le _) (by simp)

/-! ### Lines of a text -/

theorem splitLine_eq (t : List Nat) :
    splitLine t = (t.take (t.findIdx (· == newline)), t.drop (t.findIdx (· == newline) + 1)) := by
  induction t with
  | nil => simp [splitLine]
  | cons b bs ih =>
      unfold splitLine
      by_cases hb : b = newline
      · simp [hb, List.findIdx_cons]
      · have hb' : (b == newline) = false := by simpa using hb
        simp [hb, hb', List.findIdx_cons, ih]

theorem splitLine_append_newline (l r : List Nat) (h : newline ∉ l) :
    splitLine (l ++ newline :: r) = (l, r) := by
  induction l with
  | nil => simp [splitLine]
  | cons b bs ih =>
      have hb : b ≠ newline := fun e => h (by simp [e])
      have hbs : newline ∉ bs := fun e => h (by simp [e])
      simp [splitLine, hb, ih hbs]

theorem splitLine_no_newline (l : List Nat) (h : newline ∉ l) : splitLine l = (l, []) := by
  induction l with
  | nil => simp [splitLine]
  | cons b bs ih =>
      have hb : b ≠ newline := fun e => h (by simp [e])
      have hbs : newline ∉ bs := fun e => h (by simp [e])
      simp [splitLine, hb, ih hbs]

theorem splitLine_fst_no_newline (t : List Nat) : newline ∉ (splitLine t).1 := by
  induction t with
  | nil => simp [splitLine]
  | cons b bs ih =>
      unfold splitLine
      by_cases hb : b = newline
      · simp [hb]
      · simp only [hb, if_false, List.mem_cons, not_or]
        exact ⟨fun e => hb e.symm, ih⟩

theorem drop_min_length (l : List Nat) (n : Nat) : l.drop (min l.length n) = l.drop n := by
  by_cases h : n ≤ l.length
  · rw [Nat.min_eq_right h]
  · have h' : l.length ≤ n := by omega
    rw [Nat.min_eq_left h', List.drop_length, List.drop_eq_nil_of_le h']

/-! ### The loop of the fixed `read_line` -/

/-- What holds at the `break` of the loop. -/
structure LoopPost (s : St) (e : Nat) (s' : St) : Prop where
  text  : s'.text = s.text
  fits  : s'.pending.length ≤ s'.cap
  index : e = s'.pending.findIdx (· == newline)
  stop  : e < s'.pending.length ∨ s'.input.flatten = []

theorem grow_gt (c0 len cap : Nat) (hc0 : 0 < c0) (hle : len ≤ cap) : len < grow c0 len cap := by
  unfold grow
  split <;> omega

theorem grow_ge (c0 len cap : Nat) : cap ≤ grow c0 len cap := by
  unfold grow
  split <;> omega

theorem readLoop_spec (c0 : Nat) (hc0 : 0 < c0) :
    ∀ (fuel scanned : Nat) (s : St), s.input.flatten.length < fuel →
      scanned ≤ s.pending.length → newline ∉ s.pending.take scanned → s.pending.length ≤ s.cap →
      ∃ e s', readLoop c0 fuel scanned s = some (e, s') ∧ LoopPost s e s' := by
  intro fuel
  induction fuel with
  | zero => intro scanned s h; omega
  | succ fuel ih =>
      intro scanned s hfuel hsc hpre hfit
      have hm := memchr_eq_findIdx newline s.pending scanned hsc hpre
      unfold readLoop
      simp only [hm]
      by_cases hfound : s.pending.findIdx (· == newline) < s.pending.length
      · simp only [hfound, if_true]
        exact ⟨_, _, rfl, ⟨rfl, hfit, rfl, Or.inl hfound⟩⟩
      · simp only [hfound, if_false]
        have hnone : s.pending.findIdx (· == newline) = s.pending.length := by
          have := List.findIdx_le_length (p := (· == newline)) (xs := s.pending)
          omega
        have hnot : newline ∉ s.pending := not_mem_of_findIdx_eq_length _ _ hnone
        have hgt := grow_gt c0 s.pending.length s.cap hc0 hfit
        have hcnt : 0 < grow c0 s.pending.length s.cap - s.pending.length := by omega
        have hfl := sysRead_flatten (grow c0 s.pending.length s.cap - s.pending.length) s.input
        have hle := sysRead_length_le (grow c0 s.pending.length s.cap - s.pending.length) s.input
        have hnil := sysRead_nil (grow c0 s.pending.length s.cap - s.pending.length) s.input hcnt
        generalize hr : sysRead (grow c0 s.pending.length s.cap - s.pending.length) s.input = r at *
        obtain ⟨got, rest⟩ := r
        simp only at hfl hle hnil
        cases got with
        | nil =>
            have hin : s.input.flatten = [] := hnil rfl
            have hrest : rest.flatten = [] := by simpa [hin] using hfl
            refine ⟨_, _, rfl, ⟨?_, ?_, ?_, Or.inr hrest⟩⟩
            · simp [St.text, hin, hrest]
            · simp only; omega
            · simp only; exact hnone.symm
        | cons g gs =>
            have hlen : rest.flatten.length < fuel := by
              have : (g :: gs).length + rest.flatten.length = s.input.flatten.length := by
                rw [← List.length_append, hfl]
              simp only [List.length_cons] at this; omega
            obtain ⟨e, s', hrun, hpost⟩ :=
              ih s.pending.length
                { pending := s.pending ++ g :: gs,
                  cap := grow c0 s.pending.length s.cap, input := rest }
                hlen (by simp) (by simpa using hnot) (by simp at hle ⊢; omega)
            refine ⟨e, s', hrun, ⟨?_, hpost.fits, hpost.index, hpost.stop⟩⟩
            rw [hpost.text]
            simp only [St.text, List.append_assoc]
            rw [hfl]

/-- A text either continues behind a newline or is its own last line. -/
theorem splitLine_cases (t : List Nat) :
    t = (splitLine t).1 ++ newline :: (splitLine t).2 ∨ (t = (splitLine t).1 ∧ (splitLine t).2 = []) := by
  induction t with
  | nil => simp [splitLine]
  | cons b bs ih =>
      unfold splitLine
      by_cases hb : b = newline
      · simp [hb]
      · simp only [hb, if_false]
        rcases ih with h | ⟨h1, h2⟩
        · left; simp only [List.cons_append]; rw [← h]
        · right; exact ⟨by rw [← h1], h2⟩

/-! ### The pinned loop on a line-wise stream -/

theorem sysRead_fits (n : Nat) (c : List Nat) (cs : List (List Nat)) (hc : c ≠ []) (h : c.length ≤ n) :
    sysRead n (c :: cs) = (c, cs) := by
  cases c with
  | nil => exact absurd rfl hc
  | cons b c' =>
      have h' : (b :: c').length ≤ n := h
      simp only [sysRead, h', if_true]

theorem readLineOld_nil (c0 : Nat) : readLineOld c0 [] = some ([], []) := by
  simp [readLineOld, readLoopOld, sysRead]

theorem readLinesOldFrom_nil (c0 k : Nat) : readLinesOldFrom c0 k [] = some (takeLines k []) := by
  induction k with
  | zero => rfl
  | succ k ih => simp [readLinesOldFrom, readLineOld_nil, ih, takeLines, splitLine]

theorem readLineOld_line (c0 : Nat) (hc0 : 0 < c0) (l : List Nat) (cs : List (List Nat))
    (hl : newline ∉ l) (hlen : (l ++ [newline]).length ≤ c0) :
    readLineOld c0 ((l ++ [newline]) :: cs) = some (l, cs) := by
  have hne : l ++ [newline] ≠ [] := by simp
  have hcap : (if 0 = c0 then c0 * 2 else c0) = c0 := by
    have : ¬ (0 = c0) := by omega
    simp only [this, if_false]
  unfold readLineOld
  simp only [List.flatten_cons, List.length_append, readLoopOld,
    List.length_nil, Nat.sub_zero, hcap]
  rw [sysRead_fits c0 _ cs hne hlen]
  have hidx : memchr newline (l ++ [newline]) 0 = l.length := by
    rw [memchr_zero, List.findIdx_append, findIdx_eq_length_of_not_mem _ _ hl]
    simp [List.findIdx_cons]
  cases hl' : l ++ [newline] with
  | nil => exact absurd hl' hne
  | cons b t =>
      simp only [List.nil_append]
      rw [← hl', hidx]
      simp

theorem dropLast_append_of_getLast? (l : List Nat) (a : Nat) (h : l.getLast? = some a) :
    l.dropLast ++ [a] = l := by
  have hne : l ≠ [] := by intro e; simp [e] at h
  have h2 := List.dropLast_concat_getLast hne
  have h3 : l.getLast hne = a := by
    rw [List.getLast?_eq_some_getLast hne] at h
    exact Option.some.inj h
  rw [h3] at h2
  exact h2

/-! ### UTF-8 automaton -/

theorem u8step_canon (s s' : U8) (b : Nat) (h : u8step s b = some s') (h0 : s'.need = 0) :
    s' = U8.start := by
  unfold u8step at h
  repeat' split at h
  all_goals (cases h <;> first | rfl | (exfalso; simp only at h0; omega) | (exfalso; simp at h0))

theorem u8run_canon : ∀ (l : List Nat) (s s' : U8), u8run s l = some s' →
    (s.need = 0 → s = U8.start) → s'.need = 0 → s' = U8.start := by
  intro l
  induction l with
  | nil => intro s s' h hs h0; simp [u8run] at h; subst h; exact hs h0
  | cons b bs ih =>
      intro s s' h hs h0
      simp only [u8run] at h
      split at h
      · cases h
      · next q hq => exact ih q s' h (u8step_canon s q b hq) h0

/-- An ASCII byte is accepted only between characters, and leaves the decoder there. -/
theorem u8step_ascii (s s' : U8) (b : Nat) (hb : b < 128) (h : u8step s b = some s') :
    s.need = 0 ∧ s' = U8.start := by
  unfold u8step at h
  by_cases hn : s.need = 0
  · simp only [hn, if_true] at h
    have : b < 0x80 := hb
    simp only [this, if_true] at h
    cases h; exact ⟨hn, rfl⟩
  · simp only [hn, if_false] at h
    split at h
    · next hc => omega
    · cases h

theorem u8run_append (s : U8) (l r : List Nat) :
    u8run s (l ++ r) = (u8run s l).bind (fun q => u8run q r) := by
  induction l generalizing s with
  | nil => simp [u8run]
  | cons b bs ih =>
      simp only [List.cons_append, u8run]
      split
      · simp
      · next q hq => exact ih q

/-- Valid UTF-8 cut at an ASCII byte gives two valid pieces. -/
theorem validUtf8_split (l r : List Nat) (b : Nat) (hb : b < 128)
    (h : validUtf8 (l ++ b :: r) = true) : validUtf8 l = true ∧ validUtf8 r = true := by
  simp only [validUtf8, beq_iff_eq] at h ⊢
  rw [u8run_append] at h
  cases hq : u8run U8.start l with
  | none => simp [hq] at h
  | some q =>
      simp only [hq, Option.bind_some, u8run] at h
      split at h
      · cases h
      · next q' hq' =>
        obtain ⟨hn, rfl⟩ := u8step_ascii q q' b hb hq'
        have : q = U8.start := u8run_canon l U8.start q hq (fun _ => rfl) hn
        exact ⟨by rw [this], h⟩

end NaijaVerif.ReadLine
