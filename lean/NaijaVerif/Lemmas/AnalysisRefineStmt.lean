import NaijaVerif.Lemmas.AnalysisRefineCall
/-
BRIDGE, part 9: argument lists, statements, blocks and loops.
-/
namespace NaijaVerif.C03
open NaijaVerif NaijaVerif.Analysis

variable {N : Type} [NumOps N] {B : Brg}

/-! ### Lists -/

theorem sim_list {n : Nat} (IH : SimAt (N := N) B n) (es : List Expr) (s : Eval.State N) (t : AEval.St (VE N))
    (hok : okExprs B.o es = true) (hs : B.Sim s t) (hnf : NF (AEval.evalList B.P B.ac (n + 1) es t)) :
    Ev B Eq (AEval.evalList B.P B.ac (n + 1) es t) (fun f => Eval.evalSel B.rc f (es.map .ok) s) := by
  apply Ev.shift
  cases es with
  | nil =>
    simp only [AEval.evalList, List.map_nil, Eval.evalSel]
    exact Ev.const (RSim.ok rfl hs)
  | cons e rest =>
    simp only [okExprs, Bool.and_eq_true] at hok
    simp only [AEval.evalList] at hnf ⊢
    simp only [List.map_cons, Eval.evalSel]
    have h1 := IH.expr e s t hok.1 hs
    ev_sub (AEval.evalExpr B.P B.ac n e t) as v t1 s1 hs1 with h1 hnf
    have h2 := IH.list rest s1 t1 hok.2 hs1
    ev_sub (AEval.evalList B.P B.ac n rest t1) as vs t2 s2 hs2 with h2 hnf
    exact Ev.const (RSim.ok rfl hs2)

/-! ### Statements -/

theorem liftE_truthy_loop (v : VE N) : liftE (Eval.truthy .loopCond v) = liftE (Eval.truthy .ifCond v) := by
  cases v <;> rfl

theorem sim_stmt (hB : B.Ok N) {n : Nat} (IH : SimAt (N := N) B n) (st : Stmt) (s : Eval.State N) (t : AEval.St (VE N))
    (hok : okStmt B.o st = true) (hs : B.Sim s t) (hnf : NF (AEval.execStmt B.P B.ac (n + 1) st t))
    (hidx : ∀ tg e sid sp, st = .assignIndex tg e sid sp →
      Ev B FlowSim (AEval.execStmt B.P B.ac (n + 1) st t) (fun f => Eval.execStmt B.rc f st s)) :
    Ev B FlowSim (AEval.execStmt B.P B.ac (n + 1) st t) (fun f => Eval.execStmt B.rc f st s) := by
  cases st with
  | assignIndex tg e sid sp => exact hidx tg e sid sp rfl
  | assign var vsp e b sid sp =>
    apply Ev.shift
    simp only [okStmt, Bool.and_eq_true] at hok
    obtain ⟨l, rfl⟩ := Option.isSome_iff_exists.mp hok.1.2
    simp only [AEval.execStmt] at hnf ⊢
    simp only [Eval.execStmt]
    have h1 := IH.expr e s t hok.1.1 hs
    ev_sub (AEval.evalExpr B.P B.ac n e t) as v t1 s1 hs1 with h1 hnf
    exact Ev.const (RSim.ok trivial (define_sim l var v hs1))
  | assignExisting var vsp e b sid sp =>
    apply Ev.shift
    simp only [okStmt, Bool.and_eq_true] at hok
    obtain ⟨l, rfl⟩ := Option.isSome_iff_exists.mp hok.1.2
    simp only [AEval.execStmt, Option.bind_some, P_dscope] at hnf ⊢
    simp only [Eval.execStmt]
    have h1 := IH.expr e s t hok.1.1 hs
    ev_sub (AEval.evalExpr B.P B.ac n e t) as v t1 s1 hs1 with h1 hnf
    have ha := assign_st_sim hB.lookup hs1 l var v
    cases he : Eval.assign B.rc s1 (some l) var v with
    | none =>
      cases haa : AEval.assignEnv B.ds l v t1.env with
      | some _ => simp [he, haa, ORel2] at ha
      | none =>
        refine Ev.const (RSim.err ?_)
        simp only [Option.isSome_some, ↓reduceIte, Eval.trap, hB.panics, Bool.false_or]
        exact ⟨Or.inr ⟨rfl, rfl⟩, hs1.out⟩
    | some s2 =>
      cases haa : AEval.assignEnv B.ds l v t1.env with
      | none => simp [he, haa, ORel2] at ha
      | some env' =>
        simp only [he, haa, ORel2] at ha
        exact Ev.const (RSim.ok trivial ha)
  | ifS c tb eb sid sp =>
    apply Ev.shift
    obtain ⟨tss, tsp⟩ := tb
    simp only [okStmt, Bool.and_eq_true] at hok
    simp only [AEval.execStmt] at hnf ⊢
    simp only [Eval.execStmt]
    have h1 := IH.expr c s t hok.1.1.1 hs
    ev_sub (AEval.evalExpr B.P B.ac n c t) as v t1 s1 hs1 with h1 hnf
    simp only [P_cond] at hnf ⊢
    have hc := ofExcept_sim hB hs1 (Eval.truthy .ifCond v) c.span
    generalize Eval.truthy .ifCond v = cv at hnf hc ⊢
    cases cv with
    | error flt => exact Ev.bind_err (Ev.const hc)
    | ok cb =>
      simp only [liftE, Eval.Res.ofExcept, Eval.Res.bind] at hnf ⊢
      cases cb with
      | true =>
        simp only [↓reduceIte]
        exact IH.block (.mk tss tsp) s1 t1 hok.1.1.2 hs1 hnf
      | false =>
        simp only [Bool.false_eq_true, ↓reduceIte]
        cases eb with
        | none => exact Ev.const (RSim.ok trivial hs1)
        | some ebk =>
          obtain ⟨ess, esp⟩ := ebk
          exact IH.block (.mk ess esp) s1 t1 hok.1.2 hs1 hnf
  | loop c b sid sp =>
    apply Ev.shift
    obtain ⟨bss, bsp⟩ := b
    simp only [okStmt, Bool.and_eq_true] at hok
    simp only [AEval.execStmt] at hnf ⊢
    simp only [Eval.execStmt]
    exact IH.loop c (.mk bss bsp) c.span s t hok.1.1 hok.1.2 hs hnf
  | block b sid sp =>
    apply Ev.shift
    obtain ⟨bss, bsp⟩ := b
    simp only [okStmt, Bool.and_eq_true] at hok
    simp only [AEval.execStmt] at hnf ⊢
    simp only [Eval.execStmt]
    exact IH.block (.mk bss bsp) s t hok.1 hs hnf
  | fnDef name nsp ps body fn sid sp =>
    apply Ev.shift
    simp only [AEval.execStmt, Eval.execStmt]
    exact Ev.const (RSim.ok trivial hs)
  | ret e sid sp =>
    apply Ev.shift
    cases e with
    | none =>
      simp only [AEval.execStmt, Eval.execStmt, P_null]
      exact Ev.const (RSim.ok rfl hs)
    | some e =>
      simp only [okStmt, Bool.and_eq_true] at hok
      simp only [AEval.execStmt] at hnf ⊢
      simp only [Eval.execStmt]
      have h1 := IH.expr e s t hok.1 hs
      ev_sub (AEval.evalExpr B.P B.ac n e t) as v t1 s1 hs1 with h1 hnf
      exact Ev.const (RSim.ok rfl hs1)
  | brk sid sp =>
    apply Ev.shift
    simp only [AEval.execStmt, Eval.execStmt]
    exact Ev.const (RSim.ok trivial hs)
  | cont sid sp =>
    apply Ev.shift
    simp only [AEval.execStmt, Eval.execStmt]
    exact Ev.const (RSim.ok trivial hs)
  | expr e sid sp =>
    apply Ev.shift
    simp only [okStmt, Bool.and_eq_true] at hok
    simp only [AEval.execStmt] at hnf ⊢
    simp only [Eval.execStmt]
    have h1 := IH.expr e s t hok.1 hs
    ev_sub (AEval.evalExpr B.P B.ac n e t) as v t1 s1 hs1 with h1 hnf
    exact Ev.const (RSim.ok trivial hs1)

/-! ### Statement lists, blocks, loops -/

theorem sim_trace {s : Eval.State N} {t : AEval.St (VE N)} (hs : B.Sim s t) (l : List Nat) :
    B.Sim s { t with trace := l } := ⟨hs.env, hs.out, hs.input⟩

theorem sim_stmts (hB : B.Ok N) {n : Nat} (IH : SimAt (N := N) B n) (ss : List Stmt) (s : Eval.State N)
    (t : AEval.St (VE N)) (hok : okStmts B.o ss = true) (hs : B.Sim s t)
    (hnf : NF (AEval.execStmts B.P B.ac (n + 1) ss t)) :
    Ev B FlowSim (AEval.execStmts B.P B.ac (n + 1) ss t) (fun f => Eval.execStmts B.rc f ss s) := by
  apply Ev.shift
  cases ss with
  | nil =>
    simp only [AEval.execStmts, Eval.execStmts]
    exact Ev.const (RSim.ok trivial hs)
  | cons st rest =>
    simp only [okStmts, Bool.and_eq_true] at hok
    obtain ⟨i, hi⟩ := okStmt_sid hok.1
    simp only [AEval.execStmts, hi] at hnf ⊢
    simp only [Eval.execStmts, hi, hB.skip]
    rcases Bool.eq_false_or_eq_true (B.ac.skip i) with hsk | hsk
    · simp only [hsk, ↓reduceIte] at hnf ⊢
      exact IH.stmts rest s t hok.2 hs hnf
    · simp only [hsk, Bool.false_eq_true, ↓reduceIte] at hnf ⊢
      have hs' := sim_trace hs (i :: t.trace)
      have h1 := IH.stmt st s _ hok.1 hs'
      generalize AEval.execStmt (V := VE N) B.P B.ac n st _ = a1 at hnf h1 ⊢
      rcases a1 with ⟨er | fl, t1⟩
      · exact Ev.bind_err (h1 (nf_err hnf))
      refine Ev.bind_ok (h1 (nf_ok _ _)) (fun fl' s1 hfl hs1 => ?_)
      cases fl with
      | normal =>
        cases fl' <;> first | exact IH.stmts rest s1 t1 hok.2 hs1 hnf | cases hfl
      | ret v => cases fl' <;> first | exact Ev.const (RSim.ok hfl hs1) | cases hfl
      | brk => cases fl' <;> first | exact Ev.const (RSim.ok hfl hs1) | cases hfl
      | cont => cases fl' <;> first | exact Ev.const (RSim.ok hfl hs1) | cases hfl

theorem sim_block (hB : B.Ok N) {n : Nat} (IH : SimAt (N := N) B n) (b : Block) (s : Eval.State N)
    (t : AEval.St (VE N)) (hok : okBlock B.o b = true) (hs : B.Sim s t)
    (hnf : NF (AEval.execBlock B.P B.ac (n + 1) b.stmts t)) :
    Ev B FlowSim (AEval.execBlock B.P B.ac (n + 1) b.stmts t) (fun f => Eval.execBlock B.rc f b s) := by
  apply Ev.shift
  obtain ⟨ss, bsp⟩ := b
  simp only [okBlock, Bool.and_eq_true] at hok
  obtain ⟨htag, hnd⟩ := hB.orc.blk ss hok.1
  simp only [Block.stmts, AEval.execBlock, P_sscope] at hnf ⊢
  simp only [Eval.execBlock, Block.stmts, Block.span]
  have hs1 := block_enter_sim (rc := B.rc) hB.drop hs B.ss ss htag hnd hok.2 bsp
  have h1 := IH.stmts ss _ _ hok.2 hs1
  generalize AEval.execStmts (V := VE N) B.P B.ac n ss _ = a1 at hnf h1 ⊢
  rcases a1 with ⟨er | fl, t1⟩
  · exact Ev.bind_err_out (h1 (nf_err hnf)) rfl
  refine Ev.bind_ok (h1 (nf_ok _ _)) (fun fl' s2 hfl hs2 => ?_)
  exact Ev.const (RSim.ok hfl (pop_sim hs2 s.chain))

theorem sim_loop (hB : B.Ok N) {n : Nat} (IH : SimAt (N := N) B n) (c : Expr) (b : Block) (sp : Span) (s : Eval.State N)
    (t : AEval.St (VE N)) (hokc : okExpr B.o c = true) (hokb : okBlock B.o b = true) (hs : B.Sim s t)
    (hnf : NF (AEval.execLoop B.P B.ac (n + 1) c b.stmts t)) :
    Ev B FlowSim (AEval.execLoop B.P B.ac (n + 1) c b.stmts t) (fun f => Eval.loopW B.rc f c b sp s) := by
  apply Ev.shift
  simp only [AEval.execLoop] at hnf ⊢
  simp only [Eval.loopW]
  have h1 := IH.expr c s t hokc hs
  ev_sub (AEval.evalExpr B.P B.ac n c t) as v t1 s1 hs1 with h1 hnf
  simp only [P_cond, ← liftE_truthy_loop] at hnf ⊢
  have hc := ofExcept_sim hB hs1 (Eval.truthy .loopCond v) sp
  generalize Eval.truthy .loopCond v = cv at hnf hc ⊢
  cases cv with
  | error flt => exact Ev.bind_err (Ev.const hc)
  | ok cb =>
    simp only [liftE, Eval.Res.ofExcept, Eval.Res.bind] at hnf ⊢
    cases cb with
    | false =>
      simp only [Bool.false_eq_true, ↓reduceIte]
      exact Ev.const (RSim.ok trivial hs1)
    | true =>
      simp only [↓reduceIte]
      have h2 := IH.block b s1 t1 hokb hs1
      generalize AEval.execBlock (V := VE N) B.P B.ac n b.stmts t1 = a2 at hnf h2 ⊢
      rcases a2 with ⟨er | fl, t2⟩
      · exact Ev.bind_err (h2 (nf_err hnf))
      refine Ev.bind_ok (h2 (nf_ok _ _)) (fun fl' s2 hfl hs2 => ?_)
      cases fl with
      | normal => cases fl' <;> first | exact IH.loop c b sp s2 t2 hokc hokb hs2 hnf | cases hfl
      | cont => cases fl' <;> first | exact IH.loop c b sp s2 t2 hokc hokb hs2 hnf | cases hfl
      | brk => cases fl' <;> first | exact Ev.const (RSim.ok trivial hs2) | cases hfl
      | ret v => cases fl' <;> first | exact Ev.const (RSim.ok hfl hs2) | cases hfl

end NaijaVerif.C03
