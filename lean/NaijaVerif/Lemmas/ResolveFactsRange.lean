import NaijaVerif.Lemmas.ResolveFacts
import NaijaVerif.Lemmas.BridgeReachClosed
/-
What the resolver model records about CALLS in the per-statement facts, part 3: the callees are
function ids.

A callee is recorded (`record_stmt_callee`) only for a signature found by `lookup_func`, and every
signature in a function scope carries a `FunctionId` allocated by `predeclare` (`pushFunction`) —
below the number of functions the facts end with.  Stated against that final number `N`: under
`SigsLt N env.fns` and `functions.length ≤ N` at the end of the walk, `CLt N` (every recorded callee
is below `N`) is preserved.  Hence `Bridge.calleesInRange` of the resolver model's facts, for EVERY
input program, and with `Lemmas/BridgeReachClosed.lean`: `bodyReachable` has converged.
-/
namespace NaijaVerif.ResolveFacts
open NaijaVerif NaijaVerif.Resolve

/-- Every recorded direct callee is below `N`. -/
def CLt (N : Nat) (f : Facts) : Prop := ∀ p ∈ skey f, ∀ g ∈ p.2, g < N

theorem CLt.of_eq {N : Nat} {f f' : Facts} (h : skey f' = skey f) (hc : CLt N f) : CLt N f' := by
  unfold CLt; rw [h]; exact hc

theorem CLt.push {N : Nat} {f : Facts} (o s : Nat) (hc : CLt N f) : CLt N (pushStmt f o s) := by
  intro p hp g hg
  rw [skey_pushStmt, List.mem_append] at hp
  rcases hp with hp | hp
  · exact hc p hp g hg
  · simp only [List.mem_singleton] at hp
    subst hp
    cases hg

theorem CLt.addCallee {N : Nat} {f : Facts} (sid : Nat) {g : Nat} (hg : g < N) (hc : CLt N f) :
    CLt N (recStmtCallee f sid g) := by
  intro p hp x hx
  rw [skey_recStmtCallee] at hp
  rcases mem_modifyAt hp with hp | ⟨a, ha, rfl⟩
  · exact hc p hp x hx
  · rcases mem_addNew.1 hx with hx | rfl
    · exact hc a ha x hx
    · exact hg

/-- Every signature in scope carries an id below `N`. -/
def SigsLt (N : Nat) (fns : List (List FnSig)) : Prop := ∀ s ∈ fns, ∀ g ∈ s, g.id < N

theorem SigsLt.lookup {N : Nat} {env : Env} (h : SigsLt N env.fns) {x : Bytes} {g : FnSig}
    (hl : lookupFn env x = some g) : g.id < N := by
  obtain ⟨s, hs, hg⟩ := lookupFns_mem hl
  exact h s hs g hg

/-! ### Expressions -/

section expr
variable {N : Nat} (env : Env) (cur : Scope) (sid : Nat) (hs : SigsLt N env.fns)
include hs

set_option linter.unusedSectionVars false in
mutual
  theorem checkExpr_clt : ∀ (e : Expr) (f : Facts), CLt N f → CLt N (checkExpr env cur sid e f).facts
    | .num _ _, f, h => by simp only [checkExpr]; exact h
    | .bool _ _, f, h => by simp only [checkExpr]; exact h
    | .null _, f, h => by simp only [checkExpr]; exact h
    | .str (.static _) _, f, h => by simp only [checkExpr]; exact h
    | .str (.interp segs) s, f, h => by simp only [checkExpr]; exact CLt.of_eq (checkSegs_skey env cur sid s segs f) h
    | .array es _, f, h => by simp only [checkExpr]; exact checkExprs_clt es f h
    | .index a i _ _, f, h => by simp only [checkExpr]; exact checkExpr_clt i _ (checkExpr_clt a f h)
    | .var v _ s, f, h => by
        simp only [checkExpr]
        split
        · exact CLt.of_eq (by simp) h
        · exact h
    | .binary _ l r _, f, h => by simp only [checkExpr]; exact checkExpr_clt r _ (checkExpr_clt l f h)
    | .unary _ e _, f, h => by simp only [checkExpr]; exact checkExpr_clt e f h
    | .member o _ _ _, f, h => by simp only [checkExpr]; exact checkExpr_clt o f h
    | .call callee args fn s, f, h => by
        have hc := checkExpr_clt callee
        cases callee with
        | var fname vb vs =>
          simp only [checkExpr]
          split
          · exact checkExprs_clt args f h
          · split
            · next g hl =>
              refine checkExprs_clt args _ (CLt.addCallee sid (hs.lookup hl) (CLt.of_eq ?_ h))
              simp
            · exact checkExprs_clt args f h
        | member obj field fs ms =>
          simp only [checkExpr]
          refine checkExprs_clt args _ ?_
          split
          · exact CLt.of_eq (checkMethod_skey _ _ _ _ _ _ _ _ _) (checkExpr_clt obj f h)
          · exact checkExpr_clt obj f h
        | num _ _ => rw [checkExpr_call_other _ _ _ _ _ _ _ _ rfl]; exact checkExprs_clt args _ (hc f h)
        | bool _ _ => rw [checkExpr_call_other _ _ _ _ _ _ _ _ rfl]; exact checkExprs_clt args _ (hc f h)
        | null _ => rw [checkExpr_call_other _ _ _ _ _ _ _ _ rfl]; exact checkExprs_clt args _ (hc f h)
        | str _ _ => rw [checkExpr_call_other _ _ _ _ _ _ _ _ rfl]; exact checkExprs_clt args _ (hc f h)
        | array _ _ => rw [checkExpr_call_other _ _ _ _ _ _ _ _ rfl]; exact checkExprs_clt args _ (hc f h)
        | index _ _ _ _ => rw [checkExpr_call_other _ _ _ _ _ _ _ _ rfl]; exact checkExprs_clt args _ (hc f h)
        | binary _ _ _ _ => rw [checkExpr_call_other _ _ _ _ _ _ _ _ rfl]; exact checkExprs_clt args _ (hc f h)
        | unary _ _ _ => rw [checkExpr_call_other _ _ _ _ _ _ _ _ rfl]; exact checkExprs_clt args _ (hc f h)
        | call _ _ _ _ => rw [checkExpr_call_other _ _ _ _ _ _ _ _ rfl]; exact checkExprs_clt args _ (hc f h)
  theorem checkExprs_clt : ∀ (es : List Expr) (f : Facts), CLt N f → CLt N (checkExprs env cur sid es f).facts
    | [], f, h => h
    | e :: es, f, h => by simp only [checkExprs]; exact checkExprs_clt es _ (checkExpr_clt e f h)
end

end expr

/-! ### Statements and blocks -/

/-- The shape of `checkBlock`, with what it does to the key. -/
theorem checkBlock_eq' (env : Env) (parent : Option Nat) (ss : List Stmt) (sp : Span) (f : Facts) :
    ∃ (f2 : Facts) (sigs : List FnSig) (env1 : Env), skey f2 = skey f ∧ env1.owner = env.owner ∧
      sigs.map sigKey3 = (predeclare env1 ss [] f2).sigs.map sigKey3 ∧
      checkBlock env parent (.mk ss sp) f =
        ⟨.mk (checkStmts { env1 with fns := sigs :: env.fns } {} ss (predeclare env1 ss [] f2).facts).val sp,
         (predeclare env1 ss [] f2).ds ++
           (checkStmts { env1 with fns := sigs :: env.fns } {} ss (predeclare env1 ss [] f2).facts).ds,
         (checkStmts { env1 with fns := sigs :: env.fns } {} ss (predeclare env1 ss [] f2).facts).facts⟩ := by
  refine ⟨_, _, { env with scope := f.scopes.length }, ?_, rfl, retIter_keys3 _ _ _ _ _, rfl⟩
  split <;> simp

section stmt
variable {N : Nat}

set_option linter.unusedSectionVars false in
mutual
  theorem checkStmt_clt (env : Env) (cur : Cur) (hs : SigsLt N env.fns) : ∀ (s : Stmt) (f : Facts),
      (checkStmt env cur s f).facts.functions.length ≤ N → CLt N f → CLt N (checkStmt env cur s f).facts
    | .assign x xs e _ _ sp, f, _, h => by
        have h1 := checkExpr_clt env cur.vars f.stmtEffects.length hs e _ (h.push env.owner env.scope)
        simp only [checkStmt]
        split
        · exact CLt.of_eq (by simp) h1
        · exact CLt.of_eq (by simp) h1
    | .assignExisting x xs e _ _ sp, f, _, h => by
        simp only [checkStmt]
        split
        · next ent _ =>
          refine CLt.of_eq (by simp) (checkExpr_clt env cur.vars f.stmtEffects.length hs e
            (recCapWrite (recStmtWrite (pushStmt f env.owner env.scope) env.owner f.stmtEffects.length ent.id)
              env.owner ent.id) (CLt.of_eq (by simp) (h.push env.owner env.scope)))
        · exact CLt.of_eq (by simp) (checkExpr_clt env cur.vars f.stmtEffects.length hs e _ (h.push env.owner env.scope))
    | .assignIndex t e _ sp, f, _, h => by
        have h1 := checkExpr_clt env cur.vars f.stmtEffects.length hs e _
          (checkExpr_clt env cur.vars f.stmtEffects.length hs t _ (h.push env.owner env.scope))
        simp only [checkStmt]
        refine CLt.of_eq ?_ h1
        split <;> simp
    | .ifS c t e _ sp, f, hN, h => by
        simp only [checkStmt] at hN ⊢
        have h1 : CLt N (joinClass (checkExpr env cur.vars f.stmtEffects.length c (pushStmt f env.owner env.scope)).facts
            f.stmtEffects.length (condClass env cur.vars
              (checkExpr env cur.vars f.stmtEffects.length c (pushStmt f env.owner env.scope)).facts c)) :=
          CLt.of_eq (by simp) (checkExpr_clt env cur.vars f.stmtEffects.length hs c _ (h.push env.owner env.scope))
        have hre := checkOptBlock_grow { env with vars := cur.vars :: env.vars } (some env.scope) e
        refine checkOptBlock_clt { env with vars := cur.vars :: env.vars } (some env.scope) hs e _ hN ?_
        exact checkBlock_clt { env with vars := cur.vars :: env.vars } (some env.scope) hs t _
          (Nat.le_trans (hre _).nf hN) h1
    | .loop c b _ sp, f, hN, h => by
        simp only [checkStmt] at hN ⊢
        have h1 : CLt N (joinClass (checkExpr env cur.vars f.stmtEffects.length c (pushStmt f env.owner env.scope)).facts
            f.stmtEffects.length (condClass env cur.vars
              (checkExpr env cur.vars f.stmtEffects.length c (pushStmt f env.owner env.scope)).facts c)) :=
          CLt.of_eq (by simp) (checkExpr_clt env cur.vars f.stmtEffects.length hs c _ (h.push env.owner env.scope))
        exact checkBlock_clt { env with vars := cur.vars :: env.vars, inLoop := env.inLoop + 1 } (some env.scope) hs b _ hN h1
    | .block b _ sp, f, hN, h => by
        simp only [checkStmt] at hN ⊢
        exact checkBlock_clt { env with vars := cur.vars :: env.vars } (some env.scope) hs b _ hN
          (h.push env.owner env.scope)
    | .fnDef name nsp ps body _ _ sp, f, hN, h => by
        simp only [checkStmt] at hN ⊢
        split
        · exact CLt.of_eq (by simp) (h.push env.owner env.scope)
        · next g hsig =>
          simp only [hsig] at hN
          refine checkBlock_clt _ _ ?_ body _ hN (CLt.of_eq ?_ (h.push env.owner env.scope))
          · exact hs
          · rw [declareParams_skey]; simp
    | .ret e _ sp, f, _, h => by
        cases e with
        | some e =>
          simp only [checkStmt]
          exact CLt.of_eq (by simp) (checkExpr_clt env cur.vars f.stmtEffects.length hs e _ (h.push env.owner env.scope))
        | none =>
          simp only [checkStmt]
          exact CLt.of_eq (by simp) (h.push env.owner env.scope)
    | .brk _ sp, f, _, h => by simp only [checkStmt]; exact h.push env.owner env.scope
    | .cont _ sp, f, _, h => by simp only [checkStmt]; exact h.push env.owner env.scope
    | .expr e _ sp, f, _, h => by
        simp only [checkStmt]
        exact CLt.of_eq (by simp) (checkExpr_clt env cur.vars f.stmtEffects.length hs e _ (h.push env.owner env.scope))
  theorem checkStmts_clt (env : Env) (hs : SigsLt N env.fns) : ∀ (ss : List Stmt) (cur : Cur) (f : Facts),
      (checkStmts env cur ss f).facts.functions.length ≤ N → CLt N f → CLt N (checkStmts env cur ss f).facts
    | [], cur, f, _, h => by simp only [checkStmts]; exact h
    | s :: ss, cur, f, hN, h => by
        simp only [checkStmts] at hN ⊢
        exact checkStmts_clt env hs ss _ _ hN
          (checkStmt_clt env cur hs s f (Nat.le_trans (checkStmts_grow env ss _ _).nf hN) h)
  theorem checkBlock_clt (env : Env) (parent : Option Nat) (hs : SigsLt N env.fns) : ∀ (b : Block) (f : Facts),
      (checkBlock env parent b f).facts.functions.length ≤ N → CLt N f → CLt N (checkBlock env parent b f).facts
    | .mk ss sp, f, hN, h => by
        obtain ⟨f2, sigs, env1, hk, _, hsig, heq⟩ := checkBlock_eq' env parent ss sp f
        rw [heq] at hN ⊢
        simp only at hN ⊢
        obtain ⟨_, _, hpsig⟩ := predeclare_grow env1 ss [] f2
        have hgrow := checkStmts_grow { env1 with fns := sigs :: env.fns } ss {} (predeclare env1 ss [] f2).facts
        have hs2 : SigsLt N (sigs :: env.fns) := by
          intro s hs' g hg
          rcases List.mem_cons.1 hs' with hs' | hs'
          · rw [hs'] at hg
            obtain ⟨g0, hg0, hkey⟩ := keys3_mem hsig hg
            have hid : g0.id = g.id := by
              have := congrArg (fun k => k.2.1) hkey; simpa [sigKey3] using this
            rcases hpsig g0 hg0 with hm | ⟨_, hlt, _⟩
            · cases hm
            · rw [← hid]
              exact Nat.lt_of_lt_of_le hlt (Nat.le_trans hgrow.nf hN)
          · exact hs s hs' g hg
        exact checkStmts_clt { env1 with fns := sigs :: env.fns } hs2 ss {} _ hN
          (CLt.of_eq (by rw [predeclare_skey, hk]) h)
  theorem checkOptBlock_clt (env : Env) (parent : Option Nat) (hs : SigsLt N env.fns) : ∀ (b : Option Block) (f : Facts),
      (checkOptBlock env parent b f).facts.functions.length ≤ N → CLt N f →
      CLt N (checkOptBlock env parent b f).facts
    | none, f, _, h => by simp only [checkOptBlock]; exact h
    | some b, f, hN, h => by
        simp only [checkOptBlock] at hN ⊢
        exact checkBlock_clt env parent hs b f hN h
end

end stmt

/-- **Every direct callee the resolver model records for a statement is a function id**, for EVERY
input program. -/
theorem resolveWith_calleesInRange (spanLen : Bool) (q : Block) :
    Bridge.calleesInRange (resolveWith spanLen q).facts = true := by
  have h : CLt (resolveWith spanLen q).facts.functions.length (resolveWith spanLen q).facts :=
    checkBlock_clt (rootEnv spanLen) none (fun s hs => by cases hs) q rootFacts (Nat.le_refl _)
      (fun p hp => by cases hp)
  simp only [Bridge.calleesInRange, List.all_eq_true, decide_eq_true_eq]
  intro e he g hg
  exact h (e.function, e.directCallees) (List.mem_map_of_mem (f := fun e : StmtEffect => (e.function, e.directCallees)) he) g hg

/-- … hence the call-graph reachability the analyses compute from them has converged. -/
theorem resolveWith_brClosed (spanLen : Bool) (q : Block) :
    (Analysis.mkCtx (resolveWith spanLen q).root (resolveWith spanLen q).facts).brClosed = true :=
  Bridge.bodyReachable_closed_of_range _ _ (resolveWith_calleesInRange spanLen q)

end NaijaVerif.ResolveFacts
