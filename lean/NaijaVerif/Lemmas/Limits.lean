/-
Helper lemmas for `Props/C18.lean`: saturating folds, `Iterator::max`, the reference formulation
`firstOf` of the staged check and its equality with `List.find?`, monotonicity of the counting pass.
-/
import NaijaVerif.Model.Limits
import NaijaVerif.Model.CfgCount

namespace NaijaVerif.Limits
open NaijaVerif NaijaVerif.CfgCount

theorem satMul_le (a b : Nat) : satMul a b ≤ u64Max := Nat.min_le_right _ _

theorem satAdd_le (a b : Nat) : satAdd a b ≤ u64Max := Nat.min_le_right _ _


theorem foldl_satAdd (fs : List FnCount) (a : Nat) (ha : a ≤ u64Max) :
    fs.foldl (fun ev f => satAdd ev (fnEvents f)) a = min (a + (fs.map fnEvents).sum) u64Max := by
  induction fs generalizing a with
  | nil => simp [Nat.min_eq_left ha]
  | cons f fs ih =>
    simp only [List.foldl_cons, List.map_cons, List.sum_cons]
    rw [ih _ (satAdd_le _ _)]
    unfold satAdd
    generalize (fs.map fnEvents).sum = s
    generalize fnEvents f = e
    omega


/-! ### `Iterator::max` -/

theorem foldl_max_ge (xs : List Nat) (a : Nat) : a ≤ xs.foldl max a ∧ ∀ x ∈ xs, x ≤ xs.foldl max a := by
  induction xs generalizing a with
  | nil => simp
  | cons y ys ih =>
    simp only [List.foldl_cons, List.mem_cons]
    have h := ih (max a y)
    refine ⟨Nat.le_trans (Nat.le_max_left a y) h.1, ?_⟩
    rintro x (rfl | hx)
    · exact Nat.le_trans (Nat.le_max_right a x) h.1
    · exact h.2 x hx

theorem foldl_max_mem (xs : List Nat) (a : Nat) : xs.foldl max a = a ∨ xs.foldl max a ∈ xs := by
  induction xs generalizing a with
  | nil => simp
  | cons y ys ih =>
    simp only [List.foldl_cons, List.mem_cons]
    rcases ih (max a y) with h | h
    · rw [h]
      rcases Nat.le_total a y with hay | hay
      · right; left; exact Nat.max_eq_right hay
      · left; exact Nat.max_eq_left hay
    · right; right; exact h

/-- `maxList` returns an element that bounds all the others. -/
theorem maxList_spec (xs : List Nat) (v : Nat) (h : maxList xs = some v) :
    v ∈ xs ∧ ∀ x ∈ xs, x ≤ v := by
  cases xs with
  | nil => simp [maxList] at h
  | cons y ys =>
    simp only [maxList, Option.some.injEq] at h
    subst h
    have hge := foldl_max_ge ys y
    refine ⟨?_, ?_⟩
    · rcases foldl_max_mem ys y with h | h
      · rw [h]; simp
      · exact List.mem_cons_of_mem _ h
    · intro x hx
      rcases List.mem_cons.mp hx with rfl | hx
      · exact hge.1
      · exact hge.2 x hx

theorem maxList_none_iff (xs : List Nat) : maxList xs = none ↔ xs = [] := by
  cases xs <;> simp [maxList]

/-- The per-function maximum (0 over no functions) is within a cap iff every function is. -/
theorem maxList_getD_le_iff (xs : List Nat) (cap : Nat) :
    (maxList xs).getD 0 ≤ cap ↔ ∀ x ∈ xs, x ≤ cap := by
  cases h : maxList xs with
  | none => simp [(maxList_none_iff xs).mp h]
  | some v =>
    have hs := maxList_spec xs v h
    simp only [Option.getD_some]
    exact ⟨fun hv x hx => Nat.le_trans (hs.2 x hx) hv, fun hall => hall v hs.1⟩


/-- A per-function stage is an ordinary stage on the maximum (the skipped empty case never trips). -/
theorem checkMax_eq (m : Metric) (xs : List Nat) (cap : Nat) :
    checkMax m xs cap = check m ((maxList xs).getD 0) cap := by
  unfold checkMax
  cases maxList xs <;> simp [check]

/-- Reference formulation: walk a stage list, return the first metric above its cap. -/
def firstOf (caps : Caps) (c : Counts) : List Metric → Option Limit
  | [] => none
  | m :: ms => check m (observed c m) (caps.get m) <|> firstOf caps c ms

theorem orElse_assoc {α : Type} (a b c : Option α) : ((a <|> b) <|> c) = (a <|> (b <|> c)) := by
  cases a <;> simp

theorem firstExceeded_eq_firstOf (caps : Caps) (c : Counts) :
    firstExceeded caps c = firstOf caps c stages := by
  simp only [firstExceeded, checkMax_eq, firstOf, stages, observed, Caps.get]
  simp

theorem firstOf_eq_find (caps : Caps) (c : Counts) (ms : List Metric) :
    firstOf caps c ms =
      (ms.find? (fun m => decide (observed c m > caps.get m))).map
        (fun m => ⟨m, observed c m, caps.get m⟩) := by
  induction ms with
  | nil => rfl
  | cons m ms ih =>
    simp only [firstOf, List.find?_cons, check]
    by_cases h : observed c m > caps.get m
    · simp [h]
    · simp [h, ih]


theorem summaryBound_ge (f l : Nat) : min (f * (f + 2)) u64Max ≤ summaryBound f l := by
  unfold summaryBound satMul satAdd u64Max
  have h1 : min (f + 2) (2 ^ 64 - 1) ≤ min (f + (min (l * 2) (2 ^ 64 - 1) + 2)) (2 ^ 64 - 1) := by omega
  have h2 : f * min (f + 2) (2 ^ 64 - 1) ≤ f * min (f + (min (l * 2) (2 ^ 64 - 1) + 2)) (2 ^ 64 - 1) :=
    Nat.mul_le_mul_left f h1
  by_cases hf : f + 2 ≤ 2 ^ 64 - 1
  · rw [Nat.min_eq_left hf] at h2; omega
  · have hf1 : 1 ≤ f := by omega
    have h3 : min (f + 2) (2 ^ 64 - 1) = 2 ^ 64 - 1 := by omega
    rw [h3] at h2
    have h4 : 2 ^ 64 - 1 ≤ f * (2 ^ 64 - 1) := Nat.le_mul_of_pos_left _ hf1
    omega


theorem ensure_blocks_ge (fb : FB) (cur : Bool) : fb.blocks ≤ (ensure fb cur).blocks := by
  unfold ensure; split <;> simp

mutual
  /-- The counting pass only ever adds blocks. -/
  theorem countStmt_blocks_mono : ∀ (s : Stmt) (fb : FB) (cur : Bool),
      fb.blocks ≤ (countStmt s fb cur).1.blocks
    | .assign .., fb, cur | .assignExisting .., fb, cur | .assignIndex .., fb, cur
    | .expr .., fb, cur | .fnDef .., fb, cur | .ret .., fb, cur | .brk .., fb, cur
    | .cont .., fb, cur => by
        simp only [countStmt]; exact ensure_blocks_ge { fb with ops := fb.ops + 1 } cur
    | .block b _ _, fb, cur => by
        simp only [countStmt]
        exact Nat.le_trans (ensure_blocks_ge { fb with ops := fb.ops + 1 } cur)
          (countBlock_blocks_mono b _ _)
    | .ifS _ t e _ _, fb, cur => by
        simp only [countStmt]
        have h0 := ensure_blocks_ge { fb with ops := fb.ops + 1 } cur
        have h1 := countBlock_blocks_mono t
          { ensure { fb with ops := fb.ops + 1 } cur with
            blocks := (ensure { fb with ops := fb.ops + 1 } cur).blocks + 2 } true
        have h2 := countElse_blocks_mono e (countBlock t
          { ensure { fb with ops := fb.ops + 1 } cur with
            blocks := (ensure { fb with ops := fb.ops + 1 } cur).blocks + 2 } true).1
        simp only at h0 h1 h2
        split <;> simp <;> omega
    | .loop _ b _ _, fb, cur => by
        simp only [countStmt]
        have h0 := ensure_blocks_ge { fb with ops := fb.ops + 1 } cur
        have h1 := countBlock_blocks_mono b
          { ensure { fb with ops := fb.ops + 1 } cur with
            blocks := (ensure { fb with ops := fb.ops + 1 } cur).blocks + 3 } true
        simp only at h0 h1
        omega
  theorem countElse_blocks_mono : ∀ (e : Option Block) (fb : FB),
      fb.blocks ≤ (countElse e fb).1.blocks
    | none, fb => by simp [countElse]
    | some b, fb => by simp only [countElse]; exact countBlock_blocks_mono b fb true
  theorem countStmts_blocks_mono : ∀ (ss : List Stmt) (fb : FB) (cur : Bool),
      fb.blocks ≤ (countStmts ss fb cur).1.blocks
    | [], fb, cur => by simp [countStmts]
    | s :: ss, fb, cur => by
        simp only [countStmts]
        exact Nat.le_trans (countStmt_blocks_mono s fb cur) (countStmts_blocks_mono ss _ _)
  theorem countBlock_blocks_mono : ∀ (b : Block) (fb : FB) (cur : Bool),
      fb.blocks ≤ (countBlock b fb cur).1.blocks
    | .mk ss _, fb, cur => by simp only [countBlock]; exact countStmts_blocks_mono ss fb cur
end


end NaijaVerif.Limits
