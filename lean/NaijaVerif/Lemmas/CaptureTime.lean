/-
Timing side of C16: what holds of the capture transition system when the main thread is *prompt*
(`Capture.prompt`: time passes only while the main thread is blocked — it is not descheduled with a
statement ready to run and `sleep` does not oversleep).  The invariant below says that the wait loop
then looks at the child at least once per poll interval until the deadline, so a child that is still
asleep one poll interval after the deadline is never seen to end by itself — whatever the stdin
writer thread is doing, because the wait loop does not wait for it.
-/
import NaijaVerif.Lemmas.Capture
namespace NaijaVerif.Capture
set_option linter.unusedSimpArgs false

/-- The poll interval as the code uses it: `wait_poll_ms.max(1)`. -/
def Cfg.pollTicks (cfg : Cfg) : Nat := max cfg.poll 1

/-- The main thread is past the wait loop on the success path, or has produced a result that only
that path produces (an `ok`, or an error other than `OutputLimitExceeded` and `Timeout`). -/
def Pc.okPath : Pc → Bool
  | .joinWr _ | .joinOut _ | .flagOut _ | .joinErr _ _ | .flagErr _ _ => true
  | .done (.ok _ _ _) => true
  | .done (.error (.badUtf8 _)) | .done (.error (.readFailed _)) | .done (.error .writeFailed) => true
  | _ => false

structure TimeInv (cfg : Cfg) (plan : Plan) (s : State) : Prop where
  /-- the child was started when the clock was: both count the same ticks -/
  ageNow : s.age = s.now
  /-- a child that ended by itself did so no earlier than planned -/
  endedLate : s.child.cause? = some .plan → plan.endAfter ≤ s.age
  /-- the wait loop looks at the flag, the child and the clock early enough -/
  waitEarly : (s.pc = .load ∨ s.pc = .tryWait ∨ s.pc = .deadline) → s.now < cfg.timeout + cfg.pollTicks
  /-- it sleeps only before the deadline, and is woken in time -/
  sleepEarly : ∀ w, s.pc = .sleep w → w < cfg.timeout + cfg.pollTicks ∧ s.now ≤ w
  /-- so a child it has seen end by itself ended early enough -/
  okEarly : s.pc.okPath = true → s.child.cause? = some .plan → plan.endAfter < cfg.timeout + cfg.pollTicks
  /-- … and that child was not killed by the runner -/
  notKilled : s.pc.okPath = true → s.child.cause? ≠ some .killed

theorem TimeInv.init (cfg : Cfg) (plan : Plan) : TimeInv cfg plan (init cfg plan) := by
  refine ⟨rfl, ?_, ?_, ?_, ?_, ?_⟩
  · simp [Capture.init, Child.cause?]
  · intro _; simp only [Capture.init, Cfg.pollTicks]; omega
  · intro w h; simp [Capture.init] at h
  · simp [Capture.init, Pc.okPath]
  · simp [Capture.init, Pc.okPath]

/-- Steps of the child's writes, the readers, the writer and the stdin pipe leave the main thread,
the clocks and the child's fate alone. -/
theorem step_frame {cfg : Cfg} {plan : Plan} {s s' : State} {l : Label}
    (hs : step cfg plan s l = some s') (h1 : l ≠ .main) (h2 : l ≠ .tick) (h3 : l ≠ .childEnd)
    (h4 : ∀ x, l ≠ .childSigpipe x) :
    s'.pc = s.pc ∧ s'.now = s.now ∧ s'.age = s.age ∧ s'.child = s.child := by
  cases l with
  | main => exact absurd rfl h1
  | tick => exact absurd rfl h2
  | childEnd => exact absurd rfl h3
  | childSigpipe x => exact absurd rfl (h4 x)
  | childWrite x n =>
    simp only [step] at hs
    split at hs
    · simp only [Option.map_eq_some_iff] at hs
      obtain ⟨d, _, rfl⟩ := hs
      cases x <;> simp [State.setSide]
    · cases hs
  | childDrop x n =>
    simp only [step] at hs
    split at hs
    · simp only [Option.map_eq_some_iff] at hs
      obtain ⟨d, _, rfl⟩ := hs
      cases x <;> simp [State.setSide]
    · cases hs
  | childClose x =>
    simp only [step] at hs
    split at hs
    · simp only [Option.map_eq_some_iff] at hs
      obtain ⟨d, _, rfl⟩ := hs
      cases x <;> simp [State.setSide]
    · cases hs
  | rdRead x =>
    simp only [step, Option.map_eq_some_iff] at hs
    obtain ⟨d, _, rfl⟩ := hs
    cases x <;> simp [State.setSide]
  | rdEof x =>
    simp only [step, Option.map_eq_some_iff] at hs
    obtain ⟨d, _, rfl⟩ := hs
    cases x <;> simp [State.setSide]
  | rdFail x =>
    simp only [step, Option.map_eq_some_iff] at hs
    obtain ⟨d, _, rfl⟩ := hs
    cases x <;> simp [State.setSide]
  | rdCheck x =>
    simp only [step, Option.map_eq_some_iff] at hs
    obtain ⟨d, _, rfl⟩ := hs
    cases x <;> simp [State.setSide]
  | wrWrite n =>
    simp only [step, Option.map_eq_some_iff] at hs
    obtain ⟨i, _, rfl⟩ := hs
    simp
  | wrEnd =>
    simp only [step, Option.map_eq_some_iff] at hs
    obtain ⟨i, _, rfl⟩ := hs
    simp
  | wrEpipe =>
    simp only [step, Option.map_eq_some_iff] at hs
    obtain ⟨i, _, rfl⟩ := hs
    simp
  | wrFail =>
    simp only [step, Option.map_eq_some_iff] at hs
    obtain ⟨i, _, rfl⟩ := hs
    simp
  | childRead n =>
    simp only [step] at hs
    split at hs
    · simp only [Option.map_eq_some_iff] at hs
      obtain ⟨i, _, rfl⟩ := hs
      simp
    · cases hs
  | childCloseIn =>
    simp only [step] at hs
    split at hs
    · simp only [Option.map_eq_some_iff] at hs
      obtain ⟨i, _, rfl⟩ := hs
      simp
    · cases hs

theorem TimeInv.frame {cfg plan} {s s' : State} (h : TimeInv cfg plan s)
    (hpc : s'.pc = s.pc) (hnow : s'.now = s.now) (hage : s'.age = s.age) (hc : s'.child = s.child) :
    TimeInv cfg plan s' := by
  obtain ⟨h1, h2, h3, h4, h5, h6⟩ := h
  refine ⟨?_, ?_, ?_, ?_, ?_, ?_⟩
  · rw [hage, hnow]; exact h1
  · rw [hc, hage]; exact h2
  · rw [hpc, hnow]; exact h3
  · rw [hpc, hnow]; exact h4
  · rw [hpc, hc]; exact h5
  · rw [hpc, hc]; exact h6

/-- On the success path after the wait loop, and once a result exists, the child has been reaped. -/
theorem Inv.okPath_reaped {cfg plan} {s : State} (h : Inv cfg plan s) (hp : s.pc.okPath = true) :
    s.child.isReaped = true := by
  have hi := h.pcInv
  unfold PcInv at hi
  cases hpc : s.pc <;> simp only [hpc, Pc.okPath] at hp hi <;> try (cases hp)
  case joinWr => exact hi.1
  case joinOut => exact hi.1
  case flagOut => exact hi.1.1
  case joinErr => exact hi.1.1
  case flagErr => exact hi.1.1
  case done r => exact hi.1

theorem TimeInv.main {cfg plan} {s s' : State} (hi : Inv cfg plan s) (h : TimeInv cfg plan s)
    (hs : stepMain cfg s = some s') : TimeInv cfg plan s' := by
  obtain ⟨h1, h2, h3, h4, h5, h6⟩ := h
  have hP : 1 ≤ cfg.pollTicks := by simp only [Cfg.pollTicks]; omega
  have hpi := hi.pcInv
  unfold PcInv at hpi
  cases hpc : s.pc with
  | load =>
    simp only [stepMain, hpc] at hs
    have := h3 (Or.inl hpc)
    split at hs <;> cases hs <;> refine ⟨h1, h2, ?_, ?_, ?_, ?_⟩ <;> simp_all [Pc.okPath]
  | tryWait =>
    simp only [stepMain, hpc] at hs hpi
    have hw := h3 (Or.inr (Or.inl hpc))
    split at hs
    · next st c hc =>
      cases hs
      refine ⟨h1, ?_, ?_, ?_, ?_, ?_⟩
      · simpa [hc, Child.cause?] using h2
      · simp
      · simp
      · intro _ hcp
        have := h2 (by simpa [hc, Child.cause?] using hcp)
        omega
      · intro _; simpa [hc, Child.cause?] using hpi.2
    · cases hs; refine ⟨h1, h2, ?_, ?_, ?_, ?_⟩ <;> simp_all [Pc.okPath]
    · cases hs
  | deadline =>
    simp only [stepMain, hpc] at hs
    split at hs <;> cases hs
    · refine ⟨h1, h2, ?_, ?_, ?_, ?_⟩ <;> simp_all [Pc.okPath]
    · next hnd =>
      refine ⟨h1, h2, ?_, ?_, ?_, ?_⟩
      · simp
      · intro w hw
        simp only [Pc.sleep.injEq] at hw
        subst hw
        simp only [Cfg.pollTicks] at hP ⊢
        omega
      · simp [Pc.okPath]
      · simp [Pc.okPath]
  | sleep w =>
    simp only [stepMain, hpc] at hs
    have := h4 w hpc
    split at hs <;> cases hs
    refine ⟨h1, h2, ?_, ?_, ?_, ?_⟩
    · intro _; simp only; omega
    · simp
    · simp [Pc.okPath]
    · simp [Pc.okPath]
  | kill e =>
    simp only [stepMain, hpc] at hs
    split at hs <;> cases hs <;> refine ⟨h1, ?_, ?_, ?_, ?_, ?_⟩ <;> simp_all [Pc.okPath, Child.cause?]
  | reap e =>
    simp only [stepMain, hpc] at hs
    split at hs
    · next st c hc =>
      cases hs
      refine ⟨h1, ?_, ?_, ?_, ?_, ?_⟩ <;> simp_all [Pc.okPath, Child.cause?]
    · cases hs
  | eJoinWr e =>
    simp only [stepMain, hpc] at hs
    split at hs <;> cases hs
    refine ⟨h1, h2, ?_, ?_, ?_, ?_⟩ <;> simp_all [Pc.okPath]
  | eJoinOut e =>
    simp only [stepMain, hpc] at hs
    split at hs <;> cases hs
    refine ⟨h1, h2, ?_, ?_, ?_, ?_⟩ <;> simp_all [Pc.okPath]
  | eJoinErr e =>
    simp only [stepMain, hpc] at hs hpi
    have he : ErrOk cfg s e := hpi.2
    split at hs <;> cases hs
    cases e with
    | ole x => refine ⟨h1, h2, ?_, ?_, ?_, ?_⟩ <;> simp_all [Pc.okPath]
    | timeout => refine ⟨h1, h2, ?_, ?_, ?_, ?_⟩ <;> simp_all [Pc.okPath]
    | badUtf8 x => exact he.elim
    | readFailed x => exact he.elim
    | writeFailed => exact he.elim
  | joinWr st =>
    have h5' := h5 (by simp [hpc, Pc.okPath])
    have h6' := h6 (by simp [hpc, Pc.okPath])
    simp only [stepMain, hpc] at hs
    split at hs <;> cases hs <;> refine ⟨h1, h2, ?_, ?_, ?_, ?_⟩ <;> simp_all [Pc.okPath]
  | joinOut st =>
    have h5' := h5 (by simp [hpc, Pc.okPath])
    have h6' := h6 (by simp [hpc, Pc.okPath])
    simp only [stepMain, hpc] at hs
    split at hs <;> cases hs <;> refine ⟨h1, h2, ?_, ?_, ?_, ?_⟩ <;> simp_all [Pc.okPath]
  | flagOut st =>
    have h5' := h5 (by simp [hpc, Pc.okPath])
    have h6' := h6 (by simp [hpc, Pc.okPath])
    simp only [stepMain, hpc] at hs
    split at hs
    · cases hs; refine ⟨h1, h2, ?_, ?_, ?_, ?_⟩ <;> simp_all [Pc.okPath]
    · split at hs <;> cases hs <;> refine ⟨h1, h2, ?_, ?_, ?_, ?_⟩ <;> simp_all [Pc.okPath]
  | joinErr st ro =>
    have h5' := h5 (by simp [hpc, Pc.okPath])
    have h6' := h6 (by simp [hpc, Pc.okPath])
    simp only [stepMain, hpc] at hs
    split at hs <;> cases hs <;> refine ⟨h1, h2, ?_, ?_, ?_, ?_⟩ <;> simp_all [Pc.okPath]
  | flagErr st ro =>
    have h5' := h5 (by simp [hpc, Pc.okPath])
    have h6' := h6 (by simp [hpc, Pc.okPath])
    simp only [stepMain, hpc] at hs
    split at hs
    · cases hs; refine ⟨h1, h2, ?_, ?_, ?_, ?_⟩ <;> simp_all [Pc.okPath]
    · split at hs <;> cases hs <;> refine ⟨h1, h2, ?_, ?_, ?_, ?_⟩ <;> simp_all [Pc.okPath]
  | done r => simp [stepMain, hpc] at hs
  | preJoinWr => simp [stepMain, hpc] at hs
  | drainFlag w => simp [stepMain, hpc] at hs
  | blockWait => simp [stepMain, hpc] at hs

/-- One step of a prompt execution. -/
theorem TimeInv.step {cfg plan} {s s' : State} {l : Label} (hi : Inv cfg plan s)
    (h : TimeInv cfg plan s) (hs : Capture.step cfg plan s l = some s')
    (hp : l = .tick → stepMain cfg s = none) : TimeInv cfg plan s' := by
  by_cases hm : l = .main
  · subst hm; exact h.main hi (by simpa [Capture.step] using hs)
  by_cases ht : l = .tick
  · subst ht
    have hblocked := hp rfl
    obtain ⟨h1, h2, h3, h4, h5, h6⟩ := h
    simp only [Capture.step] at hs
    split at hs
    · cases hs
    · next hnd =>
      cases hs
      refine ⟨?_, ?_, ?_, ?_, ?_, ?_⟩
      · simp only; omega
      · intro hc; have := h2 hc; simp only; omega
      · -- the wait loop's statements are never blocked: no tick can happen there
        intro hpc
        exfalso
        have hpi := hi.pcInv
        unfold PcInv at hpi
        rcases hpc with hpc | hpc | hpc <;> simp only at hpc <;> simp only [stepMain, hpc] at hblocked hpi
        · split at hblocked <;> cases hblocked
        · cases hc : s.child <;> simp_all [Child.isReaped]
        · split at hblocked <;> cases hblocked
      · intro w hpc
        simp only at hpc
        have := h4 w hpc
        simp only [stepMain, hpc] at hblocked
        split at hblocked
        · cases hblocked
        · simp only; omega
      · exact h5
      · exact h6
  by_cases he : l = .childEnd
  · subst he
    obtain ⟨h1, h2, h3, h4, h5, h6⟩ := h
    simp only [Capture.step] at hs
    split at hs
    · next hc =>
      obtain ⟨ha, _, _, hend⟩ := hc
      split at hs
      · cases hs
        refine ⟨h1, fun _ => hend, h3, h4, ?_, by simp [Child.cause?]⟩
        intro hok
        have := hi.okPath_reaped hok
        rw [(Child.isAlive_iff _).mp ha] at this
        cases this
      · cases hs
    · cases hs
  by_cases hsp : ∃ x, l = .childSigpipe x
  · obtain ⟨x, rfl⟩ := hsp
    obtain ⟨h1, h2, h3, h4, h5, h6⟩ := h
    simp only [Capture.step] at hs
    split at hs
    · cases hs
      exact ⟨h1, by simp [Child.cause?], h3, h4, by simp [Child.cause?], by simp [Child.cause?]⟩
    · cases hs
  · obtain ⟨a, b, c, d⟩ := step_frame hs hm ht he (fun x hx => hsp ⟨x, hx⟩)
    exact h.frame a b c d

theorem TimeInv.run {cfg plan} {s s' : State} {ls : List Label} (hi : Inv cfg plan s)
    (h : TimeInv cfg plan s) (hr : Capture.run cfg plan s ls = some s')
    (hp : prompt (stepMain cfg) (Capture.step cfg plan) s ls = true) : TimeInv cfg plan s' := by
  induction ls generalizing s with
  | nil => simp [Capture.run] at hr; exact hr ▸ h
  | cons l ls ih =>
    simp only [Capture.run] at hr
    simp only [prompt, Bool.and_eq_true, Bool.or_eq_true, bne_iff_ne, ne_eq, Option.isNone_iff_eq_none] at hp
    split at hr
    · next s₁ hs =>
      simp only [hs] at hp
      refine ih (hi.step hs) (h.step hi hs ?_) hr hp.2
      intro hl
      rcases hp.1 with h1 | h1
      · exact absurd hl h1
      · exact h1
    · cases hr

/-! ### The wait loop does not look at the stdin side -/

/-- Is the main thread in the wait loop or on the kill path (before any `join`)? -/
def Pc.inWait : Pc → Bool
  | .load | .tryWait | .deadline | .sleep _ | .kill _ | .reap _ => true
  | _ => false

/-- In the wait loop and on the kill path the main thread's step is the same whatever the state of
the stdin pipe and its writer thread: it neither reads nor waits for them. -/
theorem stepMain_inWait_indep (cfg : Cfg) (s : State) (i' : Inp) (hw : s.pc.inWait = true) :
    stepMain cfg { s with i := i' } = (stepMain cfg s).map (fun t => { t with i := i' }) := by
  cases hpc : s.pc <;> simp only [hpc, Pc.inWait] at hw <;> try (cases hw)
  all_goals simp only [stepMain, hpc]
  all_goals (repeat' split) <;> simp_all

/-- … nor at the reader threads, their buffers, the pipes, or what the child has done with its ends of
them: in the wait loop and on the kill path the main thread's step is the same whatever the two
stream sides are. End of file on a captured stream changes nothing about when the child and the clock
are looked at. -/
theorem stepMain_inWait_indep_sides (cfg : Cfg) (s : State) (o' e' : Side) (hw : s.pc.inWait = true) :
    stepMain cfg { s with o := o', e := e' } =
      (stepMain cfg s).map (fun t => { t with o := o', e := e' }) := by
  cases hpc : s.pc <;> simp only [hpc, Pc.inWait] at hw <;> try (cases hw)
  all_goals simp only [stepMain, hpc]
  all_goals (repeat' split) <;> simp_all

end NaijaVerif.Capture
