import NaijaVerif.Model.Eval
import NaijaVerif.Lemmas.AnalysisNoTrap
import NaijaVerif.Lemmas.AnalysisRefineOk
/-
BRIDGE from the C03 evaluator fragment (`Model/AnalysisEval.lean`, abstract primitives) to the
shared evaluator model (`Model/Eval.lean`), which is tied to the real runtime by the `run` stream.

`BridgeToEval` below is the statement; it is PROVED as `bridge_to_eval` in
`Lemmas/AnalysisRefineTop.lean` (files `Lemmas/AnalysisRefine*.lean`: state relation `StSim`, result
relation `RSim`, "eventually constant" combinators `Ev`, the simulation `bsim` by induction on the
fragment's fuel).  The CONVERSE is proved as well (`bridge_from_eval`, simulation `rsim` by induction on
`Eval`'s fuel, files `Lemmas/AnalysisRefineRev*.lean`): on annotated programs the two evaluators are
equivalent up to fuel.  What the statement says and assumes:

* the fragment is instantiated with `evalPrims cfg ds ss` (`Model/AnalysisPrims.lean`): `Eval`'s own
  primitive steps (`Lawful` by `evalPrims_lawful`; the same instance the `arun` stream runs against the
  real runtime);
* `cfg.lookup = .dynamic` (the code since the D-04 fix: a bound reference is looked up only in the most
  recent instance of its declaring scope — the fragment does the same with scope tags),
  `cfg.panics = false` (the current code), `cfg.input = []` (the fragment has no `read_line` input);
* the program is annotated (`okBlock o prog`, `Lemmas/AnalysisRefineOk.lean`: every reference, target,
  parameter, statement and user call carries its id) and the oracle `o` is sound (`OrcOk`: number
  lexemes parse; the scope tag of every block / parameter list is the declaring scope of exactly its
  own declarations; distinct function ids per block).  `orcOf` (`Lemmas/AnalysisRefineTop.lean`)
  computes the oracle from the facts; the driver evaluates `okBlock (orcOf …)` on every case of the tie;
* `Err.rt k` ↔ `Outcome.rt`, `Err.unbound` ↔ `RtKind.undefinedVariable`, `Err.panic` ↔ `Outcome.panic`
  (residual sites), `Err.fuel` ↔ `fuelOut`;
* fuel: the two evaluators count fuel differently, so the statement is "a run of the fragment that is
  not cut short by its fuel is matched by the run of `Eval` for some (all sufficiently large) fuel".
-/
namespace NaijaVerif.C03
open NaijaVerif

/-- Printed values and the ending of an `Eval` run: `0` normal, `2` a crash of the interpreter,
`10 + code` the runtime error of that kind (spans are not compared: the fragment does not keep them). -/
def evalObs {N : Type} : Eval.Outcome N → Option (List (Eval.Value N) × Nat)
  | .ok out => some (out, 0)
  | .rt k _ out => some (out, 10 + rtCode k)
  | .panic _ out => some (out, 2)
  | .fuelOut => none

/-- The same for a run of the fragment (output is kept newest first there; `Err.unbound` is the
runtime error `Undefined variable`). -/
def fragObs {V : Type} (r : AEval.R V (AEval.Flow V)) : Option (List V × Nat) :=
  match r.1 with
  | .ok _ => some (r.2.out.reverse, 0)
  | .error (.rt k) => some (r.2.out.reverse, 10 + k)
  | .error .unbound => some (r.2.out.reverse, 10 + rtCode .undefinedVariable)
  | .error .panic => some (r.2.out.reverse, 2)
  | .error .fuel => none

def toEvalPlan (p : Analysis.Plan) : Eval.Plan := { stmts := p.stmts, fns := p.fns }

/-- **BRIDGE STATEMENT** (proved: `bridge_to_eval`, `Lemmas/AnalysisRefineTop.lean`). -/
def BridgeToEval : Prop :=
  ∀ (N : Type) [NumOps N] (cfg : Eval.RunCfg) (ds ss : Nat → Option Nat) (o : Orc),
    cfg.lookup = .dynamic → cfg.panics = false → cfg.input = [] → OrcOk N ds ss o →
    ∀ (prog : Block) (plan : Option Analysis.Plan) (fuel : Nat), okBlock o prog = true →
      fragObs (AEval.run (evalPrims (N := N) cfg ds ss) plan fuel prog) ≠ none →
      ∃ fuel', evalObs (Eval.run (N := N) { cfg with plan := plan.map toEvalPlan } fuel' prog) =
        fragObs (AEval.run (evalPrims (N := N) cfg ds ss) plan fuel prog)

end NaijaVerif.C03
