import NaijaVerif.Model.Eval
import NaijaVerif.Lemmas.AnalysisNoTrap
/-
BRIDGE from the C03 evaluator fragment (`Model/AnalysisEval.lean`, abstract primitives) to the
shared evaluator model (`Model/Eval.lean`).  STATED ONLY: `BridgeToEval` below is a `def … : Prop`;
it is not proved, it is not imported by `Props/C03.lean`, and no theorem uses it as a hypothesis.

What has to be supplied for the C03 theorems to transfer to `Eval.run`:

* a `Prims (Eval.Value N)` instance `P` whose fields are `Eval`'s own primitive steps:
  `node e vs`      = the value / runtime error `Eval.evalExpr` computes for the node `e` once its
                     operands have the values `vs` (literals, `binop`, `unop`, `indexValue`, array and
                     string construction with the interpolated values appended, non-mutating methods);
  `falsy`/`truthy`/`logicRhs`/`logicShort`/`cond` = the `and`/`or`/condition cases of `Eval`;
  `isGlobal`/`isShout`/`global` = `GlobalB.ofName` / `shout` / `typeof`, `to_string`, `command`, `read_line`
                     (`read_line` consumes `State.input`, which the fragment does not model: the
                     bridge is for programs without `read_line`);
  `isMut`/`mutMember`/`setPath` = the l-value path of `push`/`pop`/`reverse`, the command setters
                     and index assignment;
  `Err.rt k` ↔ `Outcome.rt`, `Err.unbound` ↔ `RtKind.undefinedVariable`, `Err.panic` ↔ `Outcome.panic`
  (with `cfg.panics = false` the panic sites report `PanicSite.fallback`), `Err.fuel` ↔ `fuelOut`;
* `Lawful P ty` for `ty v t` = "`v` is a number / string / bool / null value";
* `cfg.lookup = .dynamicWholeStack` (the fragment searches the whole dynamic stack by `LocalId`; the
  declaring-scope lookup being introduced in `Eval` agrees with it on well-scoped programs — that is
  C04's theorem, not C03's);
* fuel: the two evaluators count fuel differently (the fragment decrements on every syntactic
  level and every list element), so the statement is "for every run of one that does not end in fuel
  there is a fuel for the other with the same observable result".
-/
namespace NaijaVerif.C03
open NaijaVerif

/-- Printed values and the class of the ending of an `Eval` run. -/
def evalObs {N : Type} : Eval.Outcome N → Option (List (Eval.Value N) × Nat)
  | .ok out => some (out, 0)
  | .rt _ _ out => some (out, 1)
  | .panic _ out => some (out, 2)
  | .fuelOut => none

/-- The same for a run of the fragment (output is kept newest first there). -/
def fragObs {V : Type} (r : AEval.R V (AEval.Flow V)) : Option (List V × Nat) :=
  match r.1 with
  | .ok _ => some (r.2.out.reverse, 0)
  | .error (.rt _) | .error .unbound => some (r.2.out.reverse, 1)
  | .error .panic => some (r.2.out.reverse, 2)
  | .error .fuel => none

def toEvalPlan (p : Analysis.Plan) : Eval.Plan := { stmts := p.stmts, fns := p.fns }

/-- BRIDGE STATEMENT (not proved; not used anywhere as a hypothesis). -/
def BridgeToEval : Prop :=
  ∀ (N : Type) [NumOps N] (cfg : Eval.RunCfg), cfg.lookup = .dynamicWholeStack → cfg.input = [] →
    ∃ (P : AEval.Prims (Eval.Value N)) (ty : Eval.Value N → Analysis.LTy → Prop), Lawful P ty ∧
      ∀ (prog : Block) (plan : Option Analysis.Plan) (fuel : Nat),
        fragObs (AEval.run P plan fuel prog) ≠ none →
        ∃ fuel', evalObs (Eval.run (N := N) { cfg with plan := plan.map toEvalPlan } fuel' prog) =
          fragObs (AEval.run P plan fuel prog)

end NaijaVerif.C03
