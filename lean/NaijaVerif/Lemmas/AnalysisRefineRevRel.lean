import NaijaVerif.Lemmas.AnalysisRefineMember2
/-
BRIDGE, converse direction, part 1.  `Ev' r G`: the fragment's computation `G`, as a function of its
fuel, is eventually constant at a result related to the result `r` of `Eval`.  `SimAt' f`: every
function of `Eval` at fuel `f`, when it does not exhaust the fuel, is matched by the corresponding
function of the fragment for all sufficiently large fuel.  Together with `bsim` (the direction
fragment → `Eval`) this makes the two evaluators equivalent on annotated programs, up to fuel.
-/
namespace NaijaVerif.C03
open NaijaVerif NaijaVerif.Analysis

variable {N : Type} [NumOps N]

def Ev' {α β : Type} (B : Brg) (vr : α → β → Prop) (r : Eval.Res N β) (G : Nat → AEval.R (VE N) α) : Prop :=
  ∃ a n0, RSim B vr a r ∧ ∀ n, n0 ≤ n → G n = a

section
variable {α β γ δ : Type} {B : Brg}

theorem Ev'.shift {vr : α → β → Prop} {r : Eval.Res N β} {G : Nat → AEval.R (VE N) α}
    (h : Ev' B vr r (fun n => G (n + 1))) : Ev' B vr r G := by
  obtain ⟨a, n0, ha, hG⟩ := h
  refine ⟨a, n0 + 1, ha, fun n hn => ?_⟩
  obtain ⟨n', rfl⟩ : ∃ n', n = n' + 1 := ⟨n - 1, by omega⟩
  exact hG n' (by omega)

theorem Ev'.unshift {vr : α → β → Prop} {r : Eval.Res N β} {G : Nat → AEval.R (VE N) α}
    (h : Ev' B vr r G) : Ev' B vr r (fun n => G (n + 1)) := by
  obtain ⟨a, n0, ha, hG⟩ := h
  exact ⟨a, n0, ha, fun n hn => hG (n + 1) (by omega)⟩

theorem Ev'.const {vr : α → β → Prop} {r : Eval.Res N β} {a : AEval.R (VE N) α} (h : RSim B vr a r) :
    Ev' B vr r (fun _ => a) := ⟨a, 0, h, fun _ _ => rfl⟩

/-- Replace the fragment's computation by one that agrees with it from some fuel on. -/
theorem Ev'.rw {vr : α → β → Prop} {r : Eval.Res N β} {G G' : Nat → AEval.R (VE N) α} (n1 : Nat)
    (hg : ∀ n, n1 ≤ n → G n = G' n) (h : Ev' B vr r G') : Ev' B vr r G := by
  obtain ⟨a, n0, ha, hG⟩ := h
  exact ⟨a, max n0 n1, ha, fun n hn => by rw [hg n (by omega), hG n (by omega)]⟩

theorem RSim.inv_ok {vr : α → β → Prop} {a : AEval.R (VE N) α} {y : β} {s1 : Eval.State N}
    (h : RSim B vr a (.ok y s1)) : ∃ x t1, a = (.ok x, t1) ∧ vr x y ∧ B.Sim s1 t1 := by
  obtain ⟨res, t1⟩ := a
  cases res with
  | error er => exact (h : ErrSim er t1 (Eval.Res.ok y s1)).elim
  | ok x =>
    obtain ⟨y', s', he, hv, hs⟩ := (show ∃ y' s', Eval.Res.ok y s1 = .ok y' s' ∧ vr x y' ∧ B.Sim s' t1 from h)
    cases he
    exact ⟨x, t1, rfl, hv, hs⟩

theorem RSim.inv_err {vr : α → β → Prop} {a : AEval.R (VE N) α} {k : Eval.RtKind} {sp : Span} {s1 : Eval.State N}
    (h : RSim B vr a (.err k sp s1)) : ∃ er t1, a = (.error er, t1) ∧ ∀ {δ : Type}, ErrSim (β := δ) er t1 (.err k sp s1) := by
  obtain ⟨res, t1⟩ := a
  cases res with
  | ok x =>
    obtain ⟨y', s', he, _⟩ := (show ∃ y' s', Eval.Res.err k sp s1 = .ok y' s' ∧ vr x y' ∧ B.Sim s' t1 from h)
    cases he
  | error er => exact ⟨er, t1, rfl, fun {_} => (h : ErrSim er t1 (Eval.Res.err k sp s1))⟩

theorem RSim.inv_panic {vr : α → β → Prop} {a : AEval.R (VE N) α} {site : Eval.PanicSite} {s1 : Eval.State N}
    (h : RSim B vr a (.panic site s1)) :
    ∃ er t1, a = (.error er, t1) ∧ ∀ {δ : Type}, ErrSim (β := δ) er t1 (.panic site s1) := by
  obtain ⟨res, t1⟩ := a
  cases res with
  | ok x =>
    obtain ⟨y', s', he, _⟩ := (show ∃ y' s', Eval.Res.panic site s1 = .ok y' s' ∧ vr x y' ∧ B.Sim s' t1 from h)
    cases he
  | error er => exact ⟨er, t1, rfl, fun {_} => (h : ErrSim er t1 (Eval.Res.panic site s1))⟩

theorem RSim.not_fuel {vr : α → β → Prop} {a : AEval.R (VE N) α} (h : RSim B vr a (.fuel : Eval.Res N β)) : False := by
  obtain ⟨res, t1⟩ := a
  cases res with
  | ok x =>
    obtain ⟨y', s', he, _⟩ := (show ∃ y' s', (Eval.Res.fuel : Eval.Res N β) = .ok y' s' ∧ vr x y' ∧ B.Sim s' t1 from h)
    cases he
  | error er => exact (h : ErrSim er t1 (Eval.Res.fuel : Eval.Res N β))

theorem Res.err_bind (k : Eval.RtKind) (sp : Span) (s : Eval.State N) (f : α → Eval.State N → Eval.Res N β) :
    (Eval.Res.err k sp s : Eval.Res N α).bind f = .err k sp s := rfl
theorem Res.panic_bind (site : Eval.PanicSite) (s : Eval.State N) (f : α → Eval.State N → Eval.Res N β) :
    (Eval.Res.panic site s : Eval.Res N α).bind f = .panic site s := rfl
theorem Res.fuel_bind (f : α → Eval.State N → Eval.Res N β) : (Eval.Res.fuel : Eval.Res N α).bind f = .fuel := rfl

theorem ne_fuel_ok (y : β) (s : Eval.State N) : (Eval.Res.ok y s : Eval.Res N β) ≠ .fuel := by intro h; cases h
theorem ne_fuel_err (k : Eval.RtKind) (sp : Span) (s : Eval.State N) : (Eval.Res.err k sp s : Eval.Res N β) ≠ .fuel := by
  intro h; cases h
theorem ne_fuel_panic (site : Eval.PanicSite) (s : Eval.State N) : (Eval.Res.panic site s : Eval.Res N β) ≠ .fuel := by
  intro h; cases h

end

/-- Split on the result of the sub-computation `X` of `Eval` (`ih : X ≠ fuel → Ev' … X G1`, `hr : X.bind k = res`,
`hne : res ≠ fuel`): the error, crash and fuel branches are closed; the value branch continues with the value `y`,
the states `s1` (of `Eval`) and `t1` (of the fragment), and the fragment's computation rewritten with its result. -/
macro "ev'_sub " X:term " as " y:ident s1:ident t1:ident hs1:ident " with " ih:ident hr:ident hne:ident : tactic =>
  `(tactic| (
  generalize $X = r1__ at $hr:ident $ih:ident
  rcases r1__ with ⟨y__, $s1:ident⟩ | ⟨kd__, esp__, $s1:ident⟩ | ⟨site__, $s1:ident⟩ | _
  rotate_left
  · simp only [Res.err_bind] at $hr:ident
    subst $hr
    obtain ⟨a1__, n1__, hsim__, hG__⟩ := $ih (ne_fuel_err _ _ _)
    obtain ⟨er__, $t1:ident, ha__, herr__⟩ := RSim.inv_err hsim__
    subst ha__
    dsimp only at hG__
    refine Ev'.rw n1__ (fun n hn => by rw [hG__ n hn]) ?_
    exact Ev'.const (RSim.err herr__)
  · simp only [Res.panic_bind] at $hr:ident
    subst $hr
    obtain ⟨a1__, n1__, hsim__, hG__⟩ := $ih (ne_fuel_panic _ _)
    obtain ⟨er__, $t1:ident, ha__, herr__⟩ := RSim.inv_panic hsim__
    subst ha__
    dsimp only at hG__
    refine Ev'.rw n1__ (fun n hn => by rw [hG__ n hn]) ?_
    exact Ev'.const (RSim.err herr__)
  · simp only [Res.fuel_bind] at $hr:ident
    exact absurd (Eq.symm $hr) $hne
  obtain ⟨a1__, n1__, hsim__, hG__⟩ := $ih (ne_fuel_ok _ _)
  obtain ⟨$y:ident, $t1:ident, ha__, hxy__, $hs1:ident⟩ := RSim.inv_ok hsim__
  subst ha__
  subst hxy__
  dsimp only at hG__
  refine Ev'.rw n1__ (fun n hn => by rw [hG__ n hn]) ?_
  clear hG__ $ih
  simp only [Res.ok_bind] at $hr:ident
  try dsimp only))

/-! ### The statement -/

structure SimAt' (B : Brg) (f : Nat) : Prop where
  expr : ∀ (e : Expr) (s : Eval.State N) (t : AEval.St (VE N)), okExpr B.o e = true → B.Sim s t →
    Eval.evalExpr B.rc f e s ≠ .fuel →
    Ev' B Eq (Eval.evalExpr B.rc f e s) (fun n => AEval.evalExpr B.P B.ac n e t)
  sel : ∀ (es : List Expr) (s : Eval.State N) (t : AEval.St (VE N)), okExprs B.o es = true → B.Sim s t →
    Eval.evalSel B.rc f (es.map .ok) s ≠ .fuel →
    Ev' B Eq (Eval.evalSel B.rc f (es.map .ok) s) (fun n => AEval.evalList B.P B.ac n es t)
  block : ∀ (b : Block) (s : Eval.State N) (t : AEval.St (VE N)), okBlock B.o b = true → B.Sim s t →
    Eval.execBlock B.rc f b s ≠ .fuel →
    Ev' B FlowSim (Eval.execBlock B.rc f b s) (fun n => AEval.execBlock B.P B.ac n b.stmts t)
  stmts : ∀ (ss : List Stmt) (s : Eval.State N) (t : AEval.St (VE N)), okStmts B.o ss = true → B.Sim s t →
    Eval.execStmts B.rc f ss s ≠ .fuel →
    Ev' B FlowSim (Eval.execStmts B.rc f ss s) (fun n => AEval.execStmts B.P B.ac n ss t)
  stmt : ∀ (st : Stmt) (s : Eval.State N) (t : AEval.St (VE N)), okStmt B.o st = true → B.Sim s t →
    Eval.execStmt B.rc f st s ≠ .fuel →
    Ev' B FlowSim (Eval.execStmt B.rc f st s) (fun n => AEval.execStmt B.P B.ac n st t)
  loop : ∀ (c : Expr) (b : Block) (sp : Span) (s : Eval.State N) (t : AEval.St (VE N)), okExpr B.o c = true →
    okBlock B.o b = true → B.Sim s t → Eval.loopW B.rc f c b sp s ≠ .fuel →
    Ev' B FlowSim (Eval.loopW B.rc f c b sp s) (fun n => AEval.execLoop B.P B.ac n c b.stmts t)

end NaijaVerif.C03
