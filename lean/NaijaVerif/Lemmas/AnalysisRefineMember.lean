import NaijaVerif.Lemmas.AnalysisRefineMut
import NaijaVerif.Lemmas.AnalysisRefineAll
/-
BRIDGE, part 13: index assignments and member calls (`IndexCase`, `MemberCase` of
`Lemmas/AnalysisRefineAll.lean`).
-/
namespace NaijaVerif.C03
open NaijaVerif NaijaVerif.Analysis

variable {N : Type} [NumOps N] {B : Brg}

/-! ### Index assignment -/

theorem indexCase (hB : B.Ok N) : IndexCase N B := by
  intro n IH tg e sid sp s t hok hs hnf
  have IHn := IH n (Nat.le_refl n)
  apply Ev.shift
  simp only [okStmt, Bool.and_eq_true] at hok
  simp only [AEval.execStmt, P_lvErr, P_argMissing, P_idx, P_dscope, P_setPath] at hnf ⊢
  simp only [Eval.execStmt]
  have h1 := IHn.expr e s t hok.1.2 hs
  ev_sub (AEval.evalExpr B.P B.ac n e t) as v t1 s1 hs1 with h1 hnf
  have hlv := lv_sim B.o tg hok.1.1.2
  cases hl : AEval.lvalue tg with
  | none =>
    simp only [hl] at hlv ⊢
    have := trap_sim (β := Eval.Flow N) hB hs1.out .indexTargetRoot sp
    rcases hlv with h | h <;> simp only [h] <;> exact Ev.const (RSim.err this)
  | some rp =>
    obtain ⟨root, path⟩ := rp
    simp only [hl] at hlv hnf ⊢
    obtain ⟨name, idxs, hlo, hmap, hq⟩ := hlv
    simp only [hlo]
    subst hmap
    have h2 := idxs_sim hB IHn idxs hq s1 t1 hs1
    generalize AEval.evalChecked (AEval.evalExpr (V := VE N) B.P B.ac n) tmErr
      (AEval.pathItems idxChk (idxs.map (·.1))) t1 = a2 at hnf h2 ⊢
    rcases a2 with ⟨er | pvs, t2⟩
    · exact Ev.bind_err (h2 (nf_err hnf))
    refine Ev.bind_ok (h2 (nf_ok _ _)) (fun pth s2 hpth hs2 => ?_)
    dsimp only
    have h := assignIndex_sim hB hs2 name root pvs v pth hpth sp (FlowSim (N := N)) .normal .cont trivial
    refine Ev.const ?_
    revert h
    cases AEval.lookupEnv B.ds root t2.env with
    | none => exact id
    | some old =>
      dsimp only
      cases setPathE old pvs v with
      | error er => exact id
      | ok new => dsimp only; cases AEval.assignEnv B.ds root new t2.env <;> exact id

/-! ### Arguments of the mutating methods -/

theorem Ev.unshift {α β : Type} {vr : α → β → Prop} {a : AEval.R (VE N) α} {F : Nat → Eval.Res N β}
    (h : Ev B vr a F) : Ev B vr a (fun f => F (f + 1)) := by
  obtain ⟨r, f0, hr, hF⟩ := h
  exact ⟨r, f0, hr, fun f hf => hF (f + 1) (by omega)⟩

theorem Res.bind_assoc {α β γ : Type} (x : Eval.Res N α) (k1 : α → Eval.State N → Eval.Res N β)
    (k2 : β → Eval.State N → Eval.Res N γ) :
    (x.bind k1).bind k2 = x.bind (fun a s => (k1 a s).bind k2) := by
  cases x <;> rfl

theorem Res.ok_bind {α β : Type} (a : α) (s : Eval.State N) (k : α → Eval.State N → Eval.Res N β) :
    (Eval.Res.ok a s).bind k = k a s := rfl

/-- The relation between the checked argument values the fragment keeps and the mutation `Eval` builds. -/
def OpRel (m : Eval.MutM) (vs : List (VE N)) (op : Eval.MutOp N) : Prop := mutOpOf m vs = op

/-- One argument, used as it is (`push`, `arg`, `stdin_text`). -/
theorem mutop_one (hB : B.Ok N) {n : Nat} (IH : SimAt (N := N) B n) (m : Eval.MutM) (args : List Expr)
    (hargs : okExprs B.o args = true) (sp : Span) (s : Eval.State N) (t : AEval.St (VE N)) (hs : B.Sim s t)
    (site : Eval.PanicSite) (hsite : siteErr site = tmErr) (mk : VE N → Eval.MutOp N)
    (hA : mutStepsM (N := N) m = [(0, .ok)]) (hop : ∀ v, mutOpOf m [v] = mk v)
    (hE : ∀ f, Eval.evalMutOp B.rc (f + 1) m args sp s =
      (Eval.evalSel B.rc f (Eval.pick args [(0, site)] sp) s).bind fun vs s1 =>
        match vs with
        | [v] => .ok (mk v) s1
        | _ => Eval.trap B.rc site sp s1)
    (hnf : NF (AEval.evalChecked (AEval.evalExpr B.P B.ac n) tmErr (AEval.stepArgs args (mutStepsM m)) t)) :
    Ev B (OpRel m) (AEval.evalChecked (AEval.evalExpr B.P B.ac n) tmErr (AEval.stepArgs args (mutStepsM m)) t)
      (fun f => Eval.evalMutOp B.rc f m args sp s) := by
  apply Ev.shift
  simp only [hE]
  rw [hA] at hnf ⊢
  apply Ev.shift
  apply Ev.shift
  simp only [AEval.stepArgs, List.map_cons, List.map_nil, Eval.pick] at hnf ⊢
  cases hi : args[0]? with
  | none =>
    simp only [hi, AEval.evalChecked, Eval.evalSel]
    have := trap_sim (β := List (VE N)) hB hs.out site sp
    rw [hsite] at this
    exact Ev.const (RSim.err (ErrSim.bind this _).1)
  | some e =>
    simp only [hi, AEval.evalChecked] at hnf ⊢
    simp only [Eval.evalSel, Res.bind_assoc, Res.ok_bind]
    have h1 := fun hn => Ev.unshift (IH.expr e s t (okExprs_get hargs hi) hs hn)
    ev_sub (AEval.evalExpr B.P B.ac n e t) as v t1 s1 hs1 with h1 hnf
    exact Ev.const (RSim.ok (hop v) hs1)

/-- No argument (`pop`, `reverse`, the flag setters of a command). -/
theorem mutop_zero (m : Eval.MutM) (args : List Expr) (sp : Span) (s : Eval.State N) (t : AEval.St (VE N))
    (hs : B.Sim s t) (op : Eval.MutOp N) (hA : mutStepsM (N := N) m = []) (hop : mutOpOf m [] = op)
    (hE : ∀ f, Eval.evalMutOp B.rc (f + 1) m args sp s = .ok op s) :
    Ev B (OpRel m) (AEval.evalChecked (AEval.evalExpr B.P B.ac n) tmErr (AEval.stepArgs args (mutStepsM m)) t)
      (fun f => Eval.evalMutOp B.rc f m args sp s) := by
  apply Ev.shift
  simp only [hE, hA, AEval.stepArgs, List.map_nil, AEval.evalChecked]
  exact Ev.const (RSim.ok hop hs)

/-- One argument with a check on its value (`cwd`, `timeout_ms`). -/
theorem mutop_chk (hB : B.Ok N) {n : Nat} (IH : SimAt (N := N) B n) (m : Eval.MutM) (args : List Expr)
    (hargs : okExprs B.o args = true) (sp : Span) (s : Eval.State N) (t : AEval.St (VE N)) (hs : B.Sim s t)
    (site : Eval.PanicSite) (hsite : siteErr site = tmErr) {γ : Type} (chkE : VE N → Span → Except Eval.Fault γ)
    (mk : γ → Eval.MutOp N)
    (hspan : ∀ v sp', liftE (chkE v sp') = liftE (chkE v noSpan))
    (hA : mutStepsM (N := N) m = [(0, fun v => (liftE (chkE v noSpan)).map fun _ => v)])
    (hop : ∀ v x, chkE v noSpan = .ok x → mutOpOf m [v] = mk x)
    (hE : ∀ f, Eval.evalMutOp B.rc (f + 1) m args sp s =
      (Eval.evalSel B.rc f (Eval.pick args [(0, site)] sp) s).bind fun vs s1 =>
        match vs with
        | [v] => (Eval.Res.ofExcept B.rc (chkE v sp) sp s1).bind fun x s2 => .ok (mk x) s2
        | _ => Eval.trap B.rc site sp s1)
    (hnf : NF (AEval.evalChecked (AEval.evalExpr B.P B.ac n) tmErr (AEval.stepArgs args (mutStepsM m)) t)) :
    Ev B (OpRel m) (AEval.evalChecked (AEval.evalExpr B.P B.ac n) tmErr (AEval.stepArgs args (mutStepsM m)) t)
      (fun f => Eval.evalMutOp B.rc f m args sp s) := by
  apply Ev.shift
  simp only [hE]
  rw [hA] at hnf ⊢
  apply Ev.shift
  apply Ev.shift
  simp only [AEval.stepArgs, List.map_cons, List.map_nil, Eval.pick] at hnf ⊢
  cases hi : args[0]? with
  | none =>
    simp only [AEval.evalChecked, Eval.evalSel]
    have := trap_sim (β := List (VE N)) hB hs.out site sp
    rw [hsite] at this
    exact Ev.const (RSim.err (ErrSim.bind this _).1)
  | some e =>
    simp only [hi, AEval.evalChecked] at hnf ⊢
    simp only [Eval.evalSel, Res.bind_assoc, Res.ok_bind]
    have h1 := fun hn => Ev.unshift (IH.expr e s t (okExprs_get hargs hi) hs hn)
    ev_sub (AEval.evalExpr B.P B.ac n e t) as v t1 s1 hs1 with h1 hnf
    have hc := ofExcept_sim hB hs1 (chkE v sp) sp
    rw [hspan v sp] at hc
    cases hx : chkE v noSpan with
    | error flt =>
      rw [hx] at hc
      simp only [liftE, Except.map]
      exact Ev.const (RSim.err (ErrSim.bind hc _).1)
    | ok x =>
      rw [hx] at hc
      obtain ⟨y, s2, hr, rfl, hs2⟩ := (show ∃ y s', _ = Eval.Res.ok y s' ∧ x = y ∧ B.Sim s' t1 from hc)
      simp only [liftE, Except.map, hr, Res.ok_bind]
      exact Ev.const (RSim.ok (hop v x hx) hs2)

theorem requiredString_span (v : VE N) (sp' : Span) :
    liftE (Eval.requiredString v sp') = liftE (Eval.requiredString v noSpan) := by cases v <;> rfl

theorem timeoutMs_span (v : VE N) (sp' : Span) :
    liftE (Eval.timeoutMs v sp') = liftE (Eval.timeoutMs v noSpan) := by
  cases v with
  | num x => simp only [Eval.timeoutMs]; split <;> rfl
  | str _ => rfl
  | bool _ => rfl
  | arr _ => rfl
  | host _ => rfl
  | null => rfl

/-- `env(key, value)`: the key is checked before the value is evaluated. -/
theorem mutop_env (hB : B.Ok N) {n : Nat} (IH : SimAt (N := N) B n) (args : List Expr)
    (hargs : okExprs B.o args = true) (sp : Span) (s : Eval.State N) (t : AEval.St (VE N)) (hs : B.Sim s t)
    (hnf : NF (AEval.evalChecked (AEval.evalExpr B.P B.ac n) tmErr (AEval.stepArgs args (mutStepsM (.cmd .env))) t)) :
    Ev B (OpRel (.cmd .env))
      (AEval.evalChecked (AEval.evalExpr B.P B.ac n) tmErr (AEval.stepArgs args (mutStepsM (.cmd .env))) t)
      (fun f => Eval.evalMutOp B.rc f (.cmd .env) args sp s) := by
  apply Ev.shift
  apply Ev.shift
  apply Ev.shift
  simp only [Eval.evalMutOp, mutStepsM, AEval.stepArgs, List.map_cons, List.map_nil, Eval.pick] at hnf ⊢
  cases h0 : args[0]? with
  | none =>
    simp only [AEval.evalChecked, Eval.evalSel]
    exact Ev.bind_err (Ev.const (RSim.err (vr := Eq) (trap_sim (β := List (VE N)) hB hs.out .cmdEnv0 sp)))
  | some e0 =>
    simp only [h0, AEval.evalChecked] at hnf ⊢
    simp only [Eval.evalSel, Res.bind_assoc, Res.ok_bind]
    have h1 := fun hn => Ev.unshift (IH.expr e0 s t (okExprs_get hargs h0) hs hn)
    ev_sub (AEval.evalExpr B.P B.ac n e0 t) as kv t1 s1 hs1 with h1 hnf
    have hc := ofExcept_sim hB hs1 (Eval.requiredString kv sp) sp
    rw [requiredString_span kv sp] at hc
    simp only [chkString] at hnf ⊢
    cases hx : Eval.requiredString kv noSpan with
    | error flt =>
      rw [hx] at hc
      simp only [liftE, Except.map]
      exact Ev.bind_err (Ev.const hc)
    | ok key =>
      rw [hx] at hc hnf
      obtain ⟨y, s1', hr, rfl, hs1'⟩ := (show ∃ y s', _ = Eval.Res.ok y s' ∧ key = y ∧ B.Sim s' t1 from hc)
      simp only [liftE, Except.map, hr, Res.ok_bind] at hnf ⊢
      cases h1a : args[1]? with
      | none =>
        dsimp only
        exact Ev.bind_err (Ev.const (RSim.err (vr := Eq) (trap_sim (β := List (VE N)) hB hs1'.out .cmdEnv1 sp)))
      | some e1 =>
        simp only [h1a, AEval.evalChecked] at hnf
        try simp only [AEval.evalChecked]
        try dsimp only at hnf ⊢
        simp only [Eval.evalSel, Res.bind_assoc, Res.ok_bind]
        have h2 := fun hn => Ev.unshift (IH.expr e1 s1' t1 (okExprs_get hargs h1a) hs1' hn)
        ev_sub (AEval.evalExpr B.P B.ac n e1 t1) as v t2 s2 hs2 with h2 hnf
        refine Ev.const (RSim.ok ?_ hs2)
        have hk : strOf kv = key := by
          cases kv <;> simp only [Eval.requiredString] at hx <;> cases hx
          rfl
        simp only [OpRel, mutOpOf, hk]

/-- The defining equation of `evalMutOp` for one method, up to the name of the `match` it uses. -/
macro "mutop_eq" : tactic => `(tactic| (
  intro f
  simp only [Eval.evalMutOp]
  try congr 1))

/-- **Arguments of a mutating method**: the fragment's checked argument values against the mutation
`Eval` builds, for every method. -/
theorem mutop_sim (hB : B.Ok N) {n : Nat} (IH : SimAt (N := N) B n) (m : Eval.MutM) (args : List Expr)
    (hargs : okExprs B.o args = true) (sp : Span) (s : Eval.State N) (t : AEval.St (VE N)) (hs : B.Sim s t)
    (hnf : NF (AEval.evalChecked (AEval.evalExpr B.P B.ac n) tmErr (AEval.stepArgs args (mutStepsM m)) t)) :
    Ev B (OpRel m) (AEval.evalChecked (AEval.evalExpr B.P B.ac n) tmErr (AEval.stepArgs args (mutStepsM m)) t)
      (fun f => Eval.evalMutOp B.rc f m args sp s) := by
  cases m with
  | push =>
    exact mutop_one hB IH .push args hargs sp s t hs .pushArg0 rfl (fun v => .push v) rfl (fun _ => rfl)
      (by mutop_eq) hnf
  | pop => exact mutop_zero .pop args sp s t hs .pop rfl rfl (by mutop_eq)
  | reverse => exact mutop_zero .reverse args sp s t hs .reverse rfl rfl (by mutop_eq)
  | cmd c =>
    cases c with
    | arg =>
      exact mutop_one hB IH (.cmd .arg) args hargs sp s t hs .cmdArg0 rfl (fun v => .cmd (.arg v.display)) rfl
        (fun _ => rfl) (by mutop_eq) hnf
    | stdinText =>
      exact mutop_one hB IH (.cmd .stdinText) args hargs sp s t hs .cmdStdinText0 rfl
        (fun v => .cmd (.stdinText v.display)) rfl (fun _ => rfl) (by mutop_eq) hnf
    | cwd =>
      refine mutop_chk hB IH (.cmd .cwd) args hargs sp s t hs .cmdCwd0 rfl Eval.requiredString
        (fun x => .cmd (.cwd x)) requiredString_span rfl ?_ (by mutop_eq) hnf
      intro v x hx
      cases v <;> simp only [Eval.requiredString] at hx <;> cases hx
      rfl
    | timeoutMs =>
      refine mutop_chk hB IH (.cmd .timeoutMs) args hargs sp s t hs .cmdTimeout0 rfl Eval.timeoutMs
        (fun ms => .cmd (.timeout ms)) timeoutMs_span rfl ?_ (by mutop_eq) hnf
      intro v x hx
      simp only [mutOpOf, msOf, hx]
    | env => exact mutop_env hB IH args hargs sp s t hs hnf
    | stdinInherit =>
      exact mutop_zero (.cmd .stdinInherit) args sp s t hs _ rfl rfl (by mutop_eq)
    | stdinNull =>
      exact mutop_zero (.cmd .stdinNull) args sp s t hs _ rfl rfl (by mutop_eq)
    | stdoutCapture =>
      exact mutop_zero (.cmd .stdoutCapture) args sp s t hs _ rfl rfl (by mutop_eq)
    | stdoutInherit =>
      exact mutop_zero (.cmd .stdoutInherit) args sp s t hs _ rfl rfl (by mutop_eq)
    | stdoutNull =>
      exact mutop_zero (.cmd .stdoutNull) args sp s t hs _ rfl rfl (by mutop_eq)
    | stderrCapture =>
      exact mutop_zero (.cmd .stderrCapture) args sp s t hs _ rfl rfl (by mutop_eq)
    | stderrInherit =>
      exact mutop_zero (.cmd .stderrInherit) args sp s t hs _ rfl rfl (by mutop_eq)
    | stderrNull =>
      exact mutop_zero (.cmd .stderrNull) args sp s t hs _ rfl rfl (by mutop_eq)
    | run => exact mutop_zero (.cmd .run) args sp s t hs _ rfl rfl (by mutop_eq)

end NaijaVerif.C03
