import NaijaVerif.Model.AnalysisPrims
import NaijaVerif.Lemmas.AnalysisNoTrap
/-
BRIDGE, part 1: the primitives of the shared evaluator model `Model/Eval.lean` as an instance of the
abstract `Prims` of the C03 evaluator `Model/AnalysisEval.lean` — `evalPrims`.  The definitions live
in the core-only `Model/AnalysisPrims.lean` (the driver runs them against the real runtime); this
file only re-exports them together with `Lemmas/AnalysisNoTrap.lean`, where the laws `Lawful` are stated.
-/
