import NaijaVerif.Lemmas.AnalysisRefinePath
/-
BRIDGE, part 12: mutation through an l-value (`applyMut`, `assignIndex` of `Eval`) against the
fragment's lookup / `mutMember` / `setPath` / store sequence.
-/
namespace NaijaVerif.C03
open NaijaVerif NaijaVerif.Analysis

variable {N : Type} [NumOps N] {B : Brg}

/-! ### The pure path operations do not depend on the spans of the path -/

theorem liftE_eq_cases {α : Type} {x y : Except Eval.Fault α} (h : liftE x = liftE y) :
    (∃ a, x = .ok a ∧ y = .ok a) ∨ (∃ f1 f2, x = .error f1 ∧ y = .error f2 ∧ faultErr f1 = faultErr f2) := by
  cases x with
  | ok a =>
    cases y with
    | ok b => simp only [liftE, Except.ok.injEq] at h; subst h; exact Or.inl ⟨a, rfl, rfl⟩
    | error f => simp [liftE] at h
  | error f1 =>
    cases y with
    | ok b => simp [liftE] at h
    | error f2 => simp only [liftE, Except.error.injEq] at h; exact Or.inr ⟨f1, f2, rfl, rfl, h⟩

theorem walkMut_span : ∀ (v : VE N) (p1 p2 : List (Nat × Span)), p1.map (·.1) = p2.map (·.1) →
    liftE (Eval.walkMut v p1) = liftE (Eval.walkMut v p2)
  | v, [], [], _ => rfl
  | _, [], _ :: _, h => by simp at h
  | _, _ :: _, [], h => by simp at h
  | v, (i, sp1) :: p1, (j, sp2) :: p2, h => by
      simp only [List.map_cons, List.cons.injEq] at h
      obtain ⟨rfl, h⟩ := h
      cases v with
      | arr xs =>
        simp only [Eval.walkMut]
        cases xs[i]? with
        | none => rfl
        | some x => exact walkMut_span x p1 p2 h
      | num _ => rfl
      | str _ => rfl
      | bool _ => rfl
      | host _ => rfl
      | null => rfl

theorem walkAssign_span (s1 s2 : Span) : ∀ (v : VE N) (p1 p2 : List (Nat × Span)), p1.map (·.1) = p2.map (·.1) →
    liftE (Eval.walkAssign s1 v p1) = liftE (Eval.walkAssign s2 v p2)
  | v, [], [], _ => by cases v <;> rfl
  | _, [], _ :: _, h => by simp at h
  | _, _ :: _, [], h => by simp at h
  | v, [(i, sp1)], [(j, sp2)], h => by
      simp only [List.map_cons, List.map_nil, List.cons.injEq, and_true] at h
      subst h
      cases v with
      | arr xs => simp only [Eval.walkAssign]; split <;> rfl
      | num _ => rfl
      | str _ => rfl
      | bool _ => rfl
      | host _ => rfl
      | null => rfl
  | _, [_], _ :: _ :: _, h => by simp at h
  | _, _ :: _ :: _, [_], h => by simp at h
  | v, (i, sp1) :: q1 :: p1, (j, sp2) :: q2 :: p2, h => by
      simp only [List.map_cons, List.cons.injEq] at h
      obtain ⟨rfl, h⟩ := h
      cases v with
      | arr xs =>
        simp only [Eval.walkAssign]
        cases xs[i]? with
        | none => rfl
        | some x => exact walkAssign_span s1 s2 x (q1 :: p1) (q2 :: p2) (by simpa using h)
      | num _ => rfl
      | str _ => rfl
      | bool _ => rfl
      | host _ => rfl
      | null => rfl

theorem apply_span (op : Eval.MutOp N) (cell : VE N) (s1 s2 : Span) :
    liftE (op.apply cell s1) = liftE (op.apply cell s2) := by
  cases op <;> cases cell <;> first | rfl | (rename_i h; cases h <;> rfl)

/-! ### The store at a path -/

theorem pathOf_fst (pvs : List (VE N)) : (pathOf pvs).map (·.1) = pvs.map idxDec := by
  simp [pathOf, Function.comp_def]

/-- Storing a value computed from the old one at the slot `findOwned` finds. -/
theorem update_sim {s : Eval.State N} {t : AEval.St (VE N)} (hs : B.Sim s t) (root : Nat) (pos : Nat × Nat)
    (hpos : Eval.findOwned root s.env = some pos) (old : VE N) (hget : Eval.getAt s.env pos = some old)
    (g : VE N → VE N) :
    ∃ env', AEval.assignEnv B.ds root (g old) t.env = some env' ∧
      B.Sim { s with env := Eval.updateAt s.env pos g } { t with env := env' } := by
  have ha := assign_sim (o := B.o) (ds := B.ds) (drop := B.ac.dropFn) root (g old) hs.env
  simp only [assignE, hpos, Option.map_some] at ha
  cases hae : AEval.assignEnv B.ds root (g old) t.env with
  | none => simp [hae, ORel2] at ha
  | some env' =>
    simp only [hae, ORel2] at ha
    refine ⟨env', rfl, ?_, hs.out, hs.input⟩
    rw [updateAt_congr g s.env pos hget]
    exact ha

theorem lookup_split {s : Eval.State N} {t : AEval.St (VE N)} (hs : B.Sim s t) (root : Nat) :
    (∃ pos old, Eval.findOwned root s.env = some pos ∧ Eval.getAt s.env pos = some old ∧
        AEval.lookupEnv B.ds root t.env = some old) ∨
    (AEval.lookupEnv B.ds root t.env = none ∧
      (Eval.findOwned root s.env = none ∨ ∃ pos, Eval.findOwned root s.env = some pos ∧ Eval.getAt s.env pos = none)) := by
  have h := lookup_sim (o := B.o) (ds := B.ds) (drop := B.ac.dropFn) root hs.env
  cases hp : Eval.findOwned root s.env with
  | none => rw [hp] at h; exact Or.inr ⟨h.symm, Or.inl rfl⟩
  | some pos =>
    rw [hp] at h
    simp only [Option.bind_some] at h
    cases hg : Eval.getAt s.env pos with
    | none => rw [hg] at h; exact Or.inr ⟨h.symm, Or.inr ⟨pos, rfl, hg⟩⟩
    | some old => rw [hg] at h; exact Or.inl ⟨pos, old, rfl, hg, h.symm⟩

theorem unbound_err (hB : B.Ok N) {s : Eval.State N} {t : AEval.St (VE N)} (hs : B.Sim s t) {β : Type}
    (site : Eval.PanicSite) (hf : site.fixed = true) (hk : site.fallback = .undefinedVariable) (sp : Span) :
    ErrSim (β := β) .unbound t (Eval.trap B.rc site sp s) := by
  simp only [Eval.trap, hB.panics, hf, Bool.false_or, Bool.not_true, Bool.false_eq_true, ↓reduceIte, hk]
  exact ⟨Or.inr ⟨rfl, rfl⟩, hs.out⟩

/-- `applyMut` against the fragment's lookup, `mutMember`, store. -/
theorem applyMut_sim (hB : B.Ok N) {s : Eval.State N} {t : AEval.St (VE N)} (hs : B.Sim s t) (field name : Bytes)
    (m : Eval.MutM) (hm : Eval.MutM.ofName field = some m) (root : Nat) (pvs vs : List (VE N))
    (path : List (Nat × Span)) (hp : PathRel pvs path) (sp : Span) :
    RSim B Eq
      (match AEval.lookupEnv B.ds root t.env with
       | none => ((.error .unbound, t) : AEval.R (VE N) (VE N))
       | some old =>
         match mutMemberE field old pvs vs with
         | .error e => (.error e, t)
         | .ok (new, res) =>
           match AEval.assignEnv B.ds root new t.env with
           | none => (.error .panic, t)
           | some env' => (.ok res, { t with env := env' }))
      (Eval.applyMut B.rc s name (some root) path (mutOpOf m vs) sp) := by
  simp only [Eval.applyMut, slotOf_dynamic hB.lookup]
  rcases lookup_split hs root with ⟨pos, old, hpos, hget, hlk⟩ | ⟨hlk, hnone⟩
  · simp only [hlk, hpos, hget, mutMemberE, hm]
    have hpath : (pathOf pvs).map (·.1) = path.map (·.1) := by rw [pathOf_fst]; exact hp.symm
    rcases liftE_eq_cases (walkMut_span old (pathOf pvs) path hpath) with ⟨cell, h1, h2⟩ | ⟨f1, f2, h1, h2, hf⟩
    · simp only [h1, h2]
      rcases liftE_eq_cases (apply_span (mutOpOf m vs) cell noSpan sp) with ⟨cr, h3, h4⟩ | ⟨g1, g2, h3, h4, hg⟩
      · obtain ⟨cell', res⟩ := cr
        simp only [h3, h4, hpath]
        obtain ⟨env', hae, hsim⟩ := update_sim hs root pos hpos old hget
          (fun r => Eval.setPath r (path.map (·.1)) cell')
        simp only [hae]
        exact RSim.ok rfl hsim
      · simp only [h3, h4, hg]
        exact RSim.err (fault_sim hB hs.out g2 sp)
    · simp only [h1, h2, hf]
      exact RSim.err (fault_sim hB hs.out f2 sp)
  · simp only [hlk]
    rcases hnone with hpos | ⟨pos, hpos, hget⟩
    · simp only [hpos]
      refine RSim.err ?_
      cases mutOpOf m vs <;> cases path.isEmpty <;> exact unbound_err hB hs _ rfl rfl sp
    · simp only [hpos, hget]
      exact RSim.err (unbound_err hB hs _ rfl rfl sp)

/-- `assign_index` against the fragment's lookup, `setPath`, store. -/
theorem assignIndex_sim (hB : B.Ok N) {s : Eval.State N} {t : AEval.St (VE N)} (hs : B.Sim s t) (name : Bytes)
    (root : Nat) (pvs : List (VE N)) (v : VE N) (path : List (Nat × Span)) (hp : PathRel pvs path) (sp : Span)
    {α β : Type} (vr : α → β → Prop) (x : α) (y : β) (hxy : vr x y) :
    RSim B vr
      (match AEval.lookupEnv B.ds root t.env with
       | none => ((.error .unbound, t) : AEval.R (VE N) α)
       | some old =>
         match setPathE old pvs v with
         | .error e => (.error e, t)
         | .ok new =>
           match AEval.assignEnv B.ds root new t.env with
           | none => (.error .panic, t)
           | some env' => (.ok x, { t with env := env' }))
      ((Eval.assignIndex B.rc s name (some root) path v sp).bind fun _ st3 => .ok y st3) := by
  simp only [Eval.assignIndex, slotOf_dynamic hB.lookup]
  rcases lookup_split hs root with ⟨pos, old, hpos, hget, hlk⟩ | ⟨hlk, hnone⟩
  · simp only [hlk, hpos, hget, setPathE]
    have hpath : (pathOf pvs).map (·.1) = path.map (·.1) := by rw [pathOf_fst]; exact hp.symm
    rcases liftE_eq_cases (walkAssign_span noSpan sp old (pathOf pvs) path hpath) with ⟨u, h1, h2⟩ | ⟨f1, f2, h1, h2, hf⟩
    · simp only [h1, h2, hpath, Eval.Res.bind]
      obtain ⟨env', hae, hsim⟩ := update_sim hs root pos hpos old hget (fun r => Eval.setPath r (path.map (·.1)) v)
      simp only [hae]
      exact RSim.ok hxy hsim
    · simp only [h1, h2, hf]
      exact RSim.err (ErrSim.bind (fault_sim hB hs.out f2 sp) _).1
  · simp only [hlk]
    rcases hnone with hpos | ⟨pos, hpos, hget⟩
    · simp only [hpos]
      exact RSim.err (ErrSim.bind (unbound_err hB hs _ rfl rfl sp) _).1
    · simp only [hpos, hget]
      exact RSim.err (ErrSim.bind (unbound_err hB hs _ rfl rfl sp) _).1

end NaijaVerif.C03
