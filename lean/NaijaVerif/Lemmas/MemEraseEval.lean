import NaijaVerif.Lemmas.MemErase
/-
Erasure, part 2: the evaluator's case combinators and the whole evaluator in lock step
(`Cfg.fixed` against `Cfg.noReclaim`), by induction on the fuel.
-/
namespace NaijaVerif.Mem
open NaijaVerif NaijaVerif.Pool

theorem static_rel : REval (pure (.leaf staticStr)) (pure (.leaf staticStr)) :=
  RTriple.pure _ _ (fun _ _ h => ⟨h, by simp [VRel]⟩)

theorem interpE_rel (segs : List Seg) : REval (interpE segs) (interpE segs) := by
  unfold interpE
  exact RTriple.bindU (readSegs_rel segs) (fun _ _ => newStr_rel)

theorem varE_rel (id : Nat) : REval (varE Cfg.fixed id) (varE Cfg.noReclaim id) := by
  unfold varE
  exact RTriple.bindV (getVar_rel id) (fun _ _ hv => copyRead_rel hv)

theorem discardE_rel {e₁ e₂ : M MVal} (he : REval e₁ e₂) : REval (discardE e₁) (discardE e₂) := by
  unfold discardE
  exact RTriple.bindV he (fun _ _ _ => scalar_rel)

theorem andOrE_rel {l₁ l₂ r₁ r₂ : M MVal} (hl : REval l₁ l₂) (hr : REval r₁ r₂) :
    REval (andOrE l₁ r₁) (andOrE l₂ r₂) := by
  unfold andOrE
  refine RTriple.bindV hl (fun _ _ _ => ?_)
  refine RTriple.bindE tokSc_rel (fun b => ?_)
  cases b with
  | true => simp only [if_true]; exact RTriple.bindV hr (fun _ _ _ => scalar_rel)
  | false => simp only [Bool.false_eq_true, if_false]; exact scalar_rel

theorem binE_rel (op : BinOp) (sp : Span) {l₁ l₂ r₁ r₂ : M MVal} (hl : REval l₁ l₂)
    (hr : REval r₁ r₂) : REval (binE op sp l₁ r₁) (binE op sp l₂ r₂) := by
  unfold binE
  refine RTriple.bindV hl (fun lv₁ lv₂ hlv => ?_)
  refine RTriple.bindU (pushT_rel hlv) (fun _ _ => ?_)
  refine RTriple.bindV hr (fun rv₁ rv₂ hrv => ?_)
  refine RTriple.bindV popT_rel (fun lv₁' lv₂' hlv' => ?_)
  exact binop_rel op sp hlv' hrv

theorem arrayE_rel {e₁ e₂ : M Nat} (he : RStep e₁ e₂) : REval (arrayE e₁) (arrayE e₂) := by
  unfold arrayE
  refine RTriple.bind (allocFrame_rel false 0) (fun b₁ b₂ => ?_)
  refine RTriple.pre (P := fun s₁ s₂ => R s₁ s₂ ∧ (b₁.ct = b₂.ct ∧ b₁.isStr = b₂.isStr))
    (RTriple.assume (fun hb => ?_)) (fun _ _ h => h)
  refine RTriple.bindU (pushT_rel (by simp only [VRel, VRelL]; exact ⟨hb.1, trivial⟩)) (fun _ _ => ?_)
  refine RTriple.bindE he (fun n => ?_)
  refine RTriple.bind (popN_rel n (by simp [VRelL])) (fun xs₁ xs₂ => ?_)
  refine RTriple.pre (P := fun s₁ s₂ => R s₁ s₂ ∧ VRelL xs₁ xs₂)
    (RTriple.assume (fun hx => ?_)) (fun _ _ h => h)
  refine RTriple.bindV popT_rel (fun sh₁ sh₂ hs => ?_)
  cases sh₁ <;> cases sh₂ <;> simp only [VRel] at hs
  · exact RTriple.halt _ _
  · exact RTriple.halt _ _
  · exact RTriple.pure _ _ (fun _ _ h => ⟨h, by simp only [VRel]; exact ⟨hs.1, hx⟩⟩)

theorem indexE_rel (isp : Span) {a₁ a₂ i₁ i₂ : M MVal} (ha : REval a₁ a₂) (hi : REval i₁ i₂) :
    REval (indexE isp a₁ i₁) (indexE isp a₂ i₂) := by
  unfold indexE
  refine RTriple.bindV ha (fun av₁ av₂ hav => ?_)
  refine RTriple.bindU (pushT_rel hav) (fun _ _ => ?_)
  refine RTriple.bindV hi (fun iv₁ iv₂ hiv => ?_)
  refine RTriple.bindV popT_rel (fun x₁ x₂ hx => ?_)
  cases x₁ <;> cases x₂ <;> simp only [VRel] at hx
  · -- not an array on either side
    cases iv₁ <;> cases iv₂ <;> exact RTriple.halt _ _
  · cases iv₁ <;> cases iv₂ <;> exact RTriple.halt _ _
  · rename_i b₁ xs₁ b₂ xs₂
    cases iv₁ <;> cases iv₂ <;> simp only [VRel] at hiv
    · refine RTriple.bindE (errAt_rel 6 isp) (fun _ => ?_)
      refine RTriple.bindE (errAt_rel 4 isp) (fun _ => ?_)
      refine RTriple.bindE tokIx_rel (fun k => ?_)
      refine RTriple.bindU (readH_rel 53 hx.1) (fun _ _ => ?_)
      have hk := VRelL.getElem? k hx.2
      cases h₁ : xs₁[k]? <;> cases h₂ : xs₂[k]? <;> rw [h₁, h₂] at hk
      · exact RTriple.halt _ _
      · exact hk.elim
      · exact hk.elim
      · exact RTriple.pure _ _ (fun _ _ h => ⟨h, hk⟩)
    · exact shapeError_rel
    · exact shapeError_rel

theorem pushFailE_rel {a₁ a₂ : M MVal} (ha : REval a₁ a₂) :
    REval (pushFailE Cfg.fixed a₁) (pushFailE Cfg.noReclaim a₂) := by
  unfold pushFailE
  refine RTriple.bindV ha (fun v₁ v₂ hv => ?_)
  exact RTriple.bindV (promoteIf_rel hv) (fun _ _ _ => shapeError_rel)

theorem argsFailE_rel {a₁ a₂ : M Unit} (ha : RStep a₁ a₂) : REval (argsFailE a₁) (argsFailE a₂) := by
  unfold argsFailE
  exact RTriple.bindE ha (fun _ => shapeError_rel)

theorem pushE_rel (id : Nat) {a₁ a₂ : M MVal} {i₁ i₂ : M (List Nat)} (ha : REval a₁ a₂)
    (hi : RStep i₁ i₂) : REval (pushE Cfg.fixed id a₁ i₁) (pushE Cfg.noReclaim id a₂ i₂) := by
  unfold pushE
  refine RTriple.bindV ha (fun v₁ v₂ hv => ?_)
  refine RTriple.bindV (promoteIf_rel hv) (fun p₁ p₂ hp => ?_)
  refine RTriple.bindU (pushT_rel hp) (fun _ _ => ?_)
  refine RTriple.bindE hi (fun path => ?_)
  refine RTriple.bind ?_ (fun q₁ q₂ => RTriple.assume (fun hq => ?_))
  · exact popClean_rel
  · refine RTriple.bindV (modifyVar_rel id path ?_) (fun _ _ _ => scalar_rel)
    intro x₁ x₂ hx
    cases x₁ <;> cases x₂ <;> simp only [VRel] at hx <;> simp only
    exact ⟨by simp only [VRel]; exact ⟨hx.1, VRelL.append hx.2 (by simp only [VRelL]; exact ⟨hq, trivial⟩)⟩,
      by simp [VRel]⟩

end NaijaVerif.Mem
