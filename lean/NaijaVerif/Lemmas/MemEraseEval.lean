import NaijaVerif.Lemmas.MemErase
/-
Erasure, part 2: the evaluator's case combinators and the whole evaluator in lock step
(`Cfg.fixed` against `Cfg.noReclaim`), by induction on the fuel.
-/
namespace NaijaVerif.Mem
open NaijaVerif NaijaVerif.Pool

theorem static_rel : REval (pure (.leaf staticStr)) (pure (.leaf staticStr)) :=
  RTriple.pure _ _ (fun _ _ h => ⟨h, by simp [VRel]⟩)

theorem interpE_rel (segs : List Seg) : REval (interpE segs) (interpE segs) := by
  unfold interpE
  exact RTriple.bindU (readSegs_rel segs) (fun _ _ => newStr_rel)

theorem varE_rel (id : Nat) : REval (varE Cfg.fixed id) (varE Cfg.noReclaim id) := by
  unfold varE
  exact RTriple.bindV (getVar_rel id) (fun _ _ hv => copyRead_rel hv)

theorem discardE_rel {e₁ e₂ : M MVal} (he : REval e₁ e₂) : REval (discardE e₁) (discardE e₂) := by
  unfold discardE
  exact RTriple.bindV he (fun _ _ _ => scalar_rel)

theorem andOrE_rel {l₁ l₂ r₁ r₂ : M MVal} (hl : REval l₁ l₂) (hr : REval r₁ r₂) :
    REval (andOrE l₁ r₁) (andOrE l₂ r₂) := by
  unfold andOrE
  refine RTriple.bindV hl (fun _ _ _ => ?_)
  refine RTriple.bindE tokSc_rel (fun b => ?_)
  cases b with
  | true => simp only [if_true]; exact RTriple.bindV hr (fun _ _ _ => scalar_rel)
  | false => simp only [Bool.false_eq_true, if_false]; exact scalar_rel

theorem binE_rel (op : BinOp) (sp : Span) {l₁ l₂ r₁ r₂ : M MVal} (hl : REval l₁ l₂)
    (hr : REval r₁ r₂) : REval (binE op sp l₁ r₁) (binE op sp l₂ r₂) := by
  unfold binE
  refine RTriple.bindV hl (fun lv₁ lv₂ hlv => ?_)
  refine RTriple.bindU (pushT_rel hlv) (fun _ _ => ?_)
  refine RTriple.bindV hr (fun rv₁ rv₂ hrv => ?_)
  refine RTriple.bindV popT_rel (fun lv₁' lv₂' hlv' => ?_)
  exact binop_rel op sp hlv' hrv

theorem arrayE_rel {e₁ e₂ : M Nat} (he : RStep e₁ e₂) : REval (arrayE e₁) (arrayE e₂) := by
  unfold arrayE
  refine RTriple.bind (allocFrame_rel false 0) (fun b₁ b₂ => ?_)
  refine RTriple.pre (P := fun s₁ s₂ => R s₁ s₂ ∧ (b₁.ct = b₂.ct ∧ b₁.isStr = b₂.isStr))
    (RTriple.assume (fun hb => ?_)) (fun _ _ h => h)
  refine RTriple.bindU (pushT_rel (by simp only [VRel, VRelL]; exact ⟨hb.1, trivial⟩)) (fun _ _ => ?_)
  refine RTriple.bindE he (fun n => ?_)
  refine RTriple.bind (popN_rel n (by simp [VRelL])) (fun xs₁ xs₂ => ?_)
  refine RTriple.pre (P := fun s₁ s₂ => R s₁ s₂ ∧ VRelL xs₁ xs₂)
    (RTriple.assume (fun hx => ?_)) (fun _ _ h => h)
  refine RTriple.bindV popT_rel (fun sh₁ sh₂ hs => ?_)
  cases sh₁ <;> cases sh₂ <;> simp only [VRel] at hs
  · exact RTriple.halt _ _
  · exact RTriple.halt _ _
  · exact RTriple.pure _ _ (fun _ _ h => ⟨h, by simp only [VRel]; exact ⟨hs.1, hx⟩⟩)

theorem indexE_rel (isp : Span) {a₁ a₂ i₁ i₂ : M MVal} (ha : REval a₁ a₂) (hi : REval i₁ i₂) :
    REval (indexE isp a₁ i₁) (indexE isp a₂ i₂) := by
  unfold indexE
  refine RTriple.bindV ha (fun av₁ av₂ hav => ?_)
  refine RTriple.bindU (pushT_rel hav) (fun _ _ => ?_)
  refine RTriple.bindV hi (fun iv₁ iv₂ hiv => ?_)
  refine RTriple.bindV popT_rel (fun x₁ x₂ hx => ?_)
  cases x₁ <;> cases x₂ <;> simp only [VRel] at hx
  · -- not an array on either side
    cases iv₁ <;> cases iv₂ <;> exact RTriple.halt _ _
  · cases iv₁ <;> cases iv₂ <;> exact RTriple.halt _ _
  · rename_i b₁ xs₁ b₂ xs₂
    cases iv₁ <;> cases iv₂ <;> simp only [VRel] at hiv
    · refine RTriple.bindE (errAt_rel 6 isp) (fun _ => ?_)
      refine RTriple.bindE (errAt_rel 4 isp) (fun _ => ?_)
      refine RTriple.bindE tokIx_rel (fun k => ?_)
      refine RTriple.bindU (readH_rel 53 hx.1) (fun _ _ => ?_)
      have hk := VRelL.getElem? k hx.2
      cases h₁ : xs₁[k]? <;> cases h₂ : xs₂[k]? <;> rw [h₁, h₂] at hk
      · exact RTriple.halt _ _
      · exact hk.elim
      · exact hk.elim
      · exact RTriple.pure _ _ (fun _ _ h => ⟨h, hk⟩)
    · exact shapeError_rel
    · exact shapeError_rel

theorem pushFailE_rel {a₁ a₂ : M MVal} (ha : REval a₁ a₂) :
    REval (pushFailE Cfg.fixed a₁) (pushFailE Cfg.noReclaim a₂) := by
  unfold pushFailE
  refine RTriple.bindV ha (fun v₁ v₂ hv => ?_)
  exact RTriple.bindV (promoteIf_rel hv) (fun _ _ _ => shapeError_rel)

theorem argsFailE_rel {a₁ a₂ : M Unit} (ha : RStep a₁ a₂) : REval (argsFailE a₁) (argsFailE a₂) := by
  unfold argsFailE
  exact RTriple.bindE ha (fun _ => shapeError_rel)

theorem pushE_rel (id : Nat) {a₁ a₂ : M MVal} {i₁ i₂ : M (List Nat)} (ha : REval a₁ a₂)
    (hi : RStep i₁ i₂) : REval (pushE Cfg.fixed id a₁ i₁) (pushE Cfg.noReclaim id a₂ i₂) := by
  unfold pushE
  refine RTriple.bindV ha (fun v₁ v₂ hv => ?_)
  refine RTriple.bindV (promoteIf_rel hv) (fun p₁ p₂ hp => ?_)
  refine RTriple.bindU (pushT_rel hp) (fun _ _ => ?_)
  refine RTriple.bindE hi (fun path => ?_)
  refine RTriple.bindV popClean_rel (fun q₁ q₂ hq => ?_)
  refine RTriple.bindV (modifyVar_rel id path ?_) (fun _ _ _ => scalar_rel)
  intro x₁ x₂ hx
  cases x₁ <;> cases x₂ <;> simp only [VRel] at hx <;> simp only
  exact ⟨by simp only [VRel]; exact ⟨hx.1, VRelL.append hx.2 (by simp only [VRelL]; exact ⟨hq, trivial⟩)⟩,
    by simp [VRel]⟩

theorem popRevE_rel (isPop : Bool) (id : Nat) {i₁ i₂ : M (List Nat)} (hi : RStep i₁ i₂) :
    REval (popRevE isPop id i₁) (popRevE isPop id i₂) := by
  unfold popRevE
  refine RTriple.bindE hi (fun path => ?_)
  cases isPop with
  | true =>
    simp only [if_true]
    refine modifyVar_rel id path ?_
    intro x₁ x₂ hx
    cases x₁ <;> cases x₂ <;> simp only [VRel] at hx <;> simp only
    exact ⟨by simp only [VRel]; exact ⟨hx.1, hx.2.dropLast⟩, hx.2.getLast⟩
  | false =>
    simp only [Bool.false_eq_true, if_false]
    refine modifyVar_rel id path ?_
    intro x₁ x₂ hx
    cases x₁ <;> cases x₂ <;> simp only [VRel] at hx <;> simp only
    exact ⟨by simp only [VRel]; exact ⟨hx.1, hx.2.reverse⟩, by simp [VRel]⟩

theorem cmdMutE_rel (id : Nat) {a₁ a₂ : M Unit} {i₁ i₂ : M (List Nat)} (ha : RStep a₁ a₂)
    (hi : RStep i₁ i₂) : REval (cmdMutE id a₁ i₁) (cmdMutE id a₂ i₂) := by
  unfold cmdMutE
  refine RTriple.bindE ha (fun _ => ?_)
  refine RTriple.bindE hi (fun path => ?_)
  refine RTriple.bindV (modifyVar_rel id path ?_) (fun _ _ _ => scalar_rel)
  intro x₁ x₂ hx
  cases x₁ <;> cases x₂ <;> simp only [VRel] at hx <;> simp only
  rename_i h₁ h₂
  rw [hx.2]
  cases h₂.isStr with
  | true => simp
  | false => simp only [Bool.false_eq_true, if_false]; exact ⟨by simp only [VRel]; exact hx, by simp [VRel]⟩

theorem methodKind_rel {v₁ v₂ : MVal} (h : VRel v₁ v₂) (field : Bytes) :
    methodKind v₁ field = methodKind v₂ field := by
  cases v₁ <;> cases v₂ <;> simp only [VRel] at h <;> simp only [methodKind]
  rw [h.2]

theorem methodE_rel (field : Bytes) (sp : Span) {r₁ r₂ : M MVal} {a₁ a₂ : M Nat} (hr : REval r₁ r₂)
    (ha : RStep a₁ a₂) : REval (methodE field sp r₁ a₁) (methodE field sp r₂ a₂) := by
  unfold methodE
  refine RTriple.bindV hr (fun rv₁ rv₂ hrv => ?_)
  rw [methodKind_rel hrv field]
  cases hk : methodKind rv₂ field with
  | bad => exact shapeError_rel
  | num =>
    simp only
    refine RTriple.bindU (pushT_rel hrv) (fun _ _ => ?_)
    refine RTriple.bindE ha (fun n => ?_)
    refine RTriple.bind (popN_rel n (by simp [VRelL])) (fun as₁ as₂ => RTriple.assume (fun has => ?_))
    refine RTriple.bindV popT_rel (fun q₁ q₂ hq => ?_)
    refine RTriple.bindU (readV_rel 55 hq) (fun _ _ => ?_)
    refine RTriple.bindU (readHs_rel 56 has.cts) (fun _ _ => ?_)
    exact RTriple.bindE (errAt_rel 5 sp) (fun _ => scalar_rel)
  | str =>
    simp only
    refine RTriple.bindU (pushT_rel hrv) (fun _ _ => ?_)
    refine RTriple.bindE ha (fun n => ?_)
    refine RTriple.bind (popN_rel n (by simp [VRelL])) (fun as₁ as₂ => RTriple.assume (fun has => ?_))
    refine RTriple.bindV popT_rel (fun q₁ q₂ hq => ?_)
    refine RTriple.bindU (readV_rel 55 hq) (fun _ _ => ?_)
    refine RTriple.bindU (readHs_rel 56 has.cts) (fun _ _ => ?_)
    exact newStr_rel
  | split =>
    simp only
    refine RTriple.bindU (pushT_rel hrv) (fun _ _ => ?_)
    refine RTriple.bindE ha (fun n => ?_)
    refine RTriple.bind (popN_rel n (by simp [VRelL])) (fun as₁ as₂ => RTriple.assume (fun has => ?_))
    refine RTriple.bindV popT_rel (fun q₁ q₂ hq => ?_)
    refine RTriple.bindU (readV_rel 55 hq) (fun _ _ => ?_)
    refine RTriple.bindU (readHs_rel 56 has.cts) (fun _ _ => ?_)
    refine RTriple.bindE tokSplit_rel (fun m => ?_)
    refine RTriple.bind (allocFrame_rel false 0) (fun b₁ b₂ => RTriple.assume (fun hb => ?_))
    refine RTriple.bind (allocStrs_rel m) (fun xs₁ xs₂ => ?_)
    exact RTriple.pure _ _ (fun _ _ h => ⟨h.1, by simp only [VRel]; exact ⟨hb.1, h.2⟩⟩)
  | run =>
    simp only
    refine RTriple.bindU (pushT_rel hrv) (fun _ _ => ?_)
    refine RTriple.bindE ha (fun n => ?_)
    refine RTriple.bind (popN_rel n (by simp [VRelL])) (fun as₁ as₂ => RTriple.assume (fun has => ?_))
    refine RTriple.bindV popT_rel (fun q₁ q₂ hq => ?_)
    refine RTriple.bindU (readV_rel 55 hq) (fun _ _ => ?_)
    refine RTriple.bindU (readHs_rel 56 has.cts) (fun _ _ => ?_)
    refine RTriple.bindE (errAt_rel 7 sp) (fun _ => ?_)
    refine RTriple.bindE freshCt_rel (fun ct => ?_)
    refine RTriple.bind (allocPersist_rel false ct) (fun h₁ h₂ => ?_)
    exact RTriple.pure _ _ (fun _ _ h => ⟨h.1, by simp only [VRel]; exact h.2⟩)

theorem ioCheck_rel (name : Bytes) (sp : Span) :
    RTriple R (ioCheck name sp) (ioCheck name sp) (fun _ _ => R) := by
  unfold ioCheck
  split
  · exact (errAt_rel 1 sp).post (fun _ _ _ _ h => h.1)
  · exact RTriple.pure _ _ (fun _ _ h => h)

theorem builtinE_rel (name : Bytes) (sp : Span) {a₁ a₂ : M MVal} (ha : REval a₁ a₂) :
    REval (builtinE Cfg.fixed name sp a₁) (builtinE Cfg.noReclaim name sp a₂) := by
  unfold builtinE
  refine RTriple.bindV ha (fun v₁ v₂ hv => ?_)
  split
  · refine RTriple.bindU (readV_rel 57 hv) (fun _ _ => ?_)
    refine RTriple.bindU ((RTriple.both (emit_heapOnly _) (emit_heapOnly _)).post
      (fun _ _ _ _ h => h.1)) (fun _ _ => ?_)
    refine RTriple.bindV (promoteIf_rel hv) (fun p₁ p₂ hp => ?_)
    exact RTriple.bindU (storeOut_rel hp) (fun _ _ => scalar_rel)
  · split
    · exact static_rel
    · split
      · refine RTriple.bindU (readV_rel 58 hv) (fun _ _ => ?_)
        refine RTriple.bindE freshCt_rel (fun ct => ?_)
        refine RTriple.bind (allocFrame_rel false ct) (fun h₁ h₂ => ?_)
        exact RTriple.pure _ _ (fun _ _ h => ⟨h.1, by simp only [VRel]; exact h.2⟩)
      · refine RTriple.bindU (readV_rel 59 hv) (fun _ _ => ?_)
        exact RTriple.bindU (ioCheck_rel name sp) (fun _ _ => newStr_rel)

theorem callE_rel (nargs : Nat) (params : List (Option Nat)) {a₁ a₂ : M Nat} {b₁ b₂ : M Flow}
    (ha : RStep a₁ a₂) (hb : RStep b₁ b₂) :
    REval (callE Cfg.fixed nargs params a₁ b₁) (callE Cfg.noReclaim nargs params a₂ b₂) := by
  unfold callE
  refine RTriple.bindE (tokCall_rel nargs) (fun _ => ?_)
  refine RTriple.bindU (pushMark_rel 1) (fun _ _ => ?_)
  refine RTriple.bindE ha (fun n => ?_)
  refine RTriple.bindU ((RTriple.both (emit_heapOnly _) (emit_heapOnly _)).post
    (fun _ _ _ _ h => h.1)) (fun _ _ => ?_)
  refine RTriple.bind (popN_rel n (by simp [VRelL])) (fun vs₁ vs₂ => RTriple.assume (fun hvs => ?_))
  refine RTriple.bindU pushScope_rel (fun _ _ => ?_)
  refine RTriple.bindU (bindParams_rel params hvs) (fun _ _ => ?_)
  refine RTriple.bindE hb (fun fl => ?_)
  refine RTriple.bindU popScope_rel (fun _ _ => ?_)
  refine RTriple.bindU ((RTriple.both (emit_heapOnly _) (emit_heapOnly _)).post
    (fun _ _ _ _ h => h.1)) (fun _ _ => ?_)
  refine RTriple.bindV (m₁ := match fl with
      | .ret => popT
      | .normal => pure .scalar
      | _ => halt (.stuck 24)) (m₂ := match fl with
      | .ret => popT
      | .normal => pure .scalar
      | _ => halt (.stuck 24)) ?_ (fun rv₁ rv₂ hrv => ?_)
  · cases fl
    · exact scalar_rel
    · exact popT_rel
    · exact RTriple.halt _ _
    · exact RTriple.halt _ _
  · simp only [Cfg.fixed, Cfg.noReclaim, if_true, Bool.false_eq_true, if_false]
    exact relocate_rel hrv

/-! ### Statement combinators -/

theorem defineE_rel (id : Nat) {e₁ e₂ : M MVal} (he : REval e₁ e₂) :
    RStep (defineE Cfg.fixed id e₁) (defineE Cfg.noReclaim id e₂) := by
  unfold defineE
  refine RTriple.bindV he (fun v₁ v₂ hv => ?_)
  exact RTriple.bindU (define_rel id hv) (fun _ _ => RTriple.pure _ _ (fun _ _ h => ⟨h, rfl⟩))

theorem assignE_rel (id : Nat) {e₁ e₂ : M MVal} (he : REval e₁ e₂) :
    RStep (assignE Cfg.fixed id e₁) (assignE Cfg.noReclaim id e₂) := by
  unfold assignE assign
  refine RTriple.bindV he (fun v₁ v₂ hv => ?_)
  exact RTriple.bindU (overwrite_rel id hv) (fun _ _ => RTriple.pure _ _ (fun _ _ h => ⟨h, rfl⟩))

theorem assignIndexE_rel (id : Nat) {e₁ e₂ : M MVal} {i₁ i₂ : M (List Nat)} (he : REval e₁ e₂)
    (hi : RStep i₁ i₂) :
    RStep (assignIndexE Cfg.fixed id e₁ i₁) (assignIndexE Cfg.noReclaim id e₂ i₂) := by
  unfold assignIndexE
  refine RTriple.bindV he (fun v₁ v₂ hv => ?_)
  refine RTriple.bindU (pushT_rel hv) (fun _ _ => ?_)
  refine RTriple.bindE hi (fun path => ?_)
  refine RTriple.bindV popT_rel (fun q₁ q₂ hq => ?_)
  refine RTriple.bindV (promoteIf_rel hq) (fun p₁ p₂ hp => ?_)
  refine RTriple.bindV (modifyVar_rel id path (g₁ := fun o => some (p₁, o)) (g₂ := fun o => some (p₂, o))
    (fun x₁ x₂ hx => ⟨hp, hx⟩)) (fun old₁ old₂ _ => ?_)
  refine RTriple.bindU (m₁ := freeIf Cfg.fixed old₁) (m₂ := freeIf Cfg.noReclaim old₂) ?_
    (fun _ _ => RTriple.pure _ _ (fun _ _ h => ⟨h, rfl⟩))
  simp only [freeIf, Cfg.fixed, Cfg.noReclaim, if_true, Bool.false_eq_true, if_false]
  exact (RTriple.leftPure (freeTop_heapOnly old₁) ()).post (fun _ _ _ _ h => h.1)

theorem ifE_rel {c₁ c₂ : M MVal} {t₁ t₂ e₁ e₂ : M Flow} (hc : REval c₁ c₂) (ht : RStep t₁ t₂)
    (he : RStep e₁ e₂) : RStep (ifE c₁ t₁ e₁) (ifE c₂ t₂ e₂) := by
  unfold ifE
  refine RTriple.bindV hc (fun _ _ _ => ?_)
  refine RTriple.bindE tokBr_rel (fun b => ?_)
  cases b with
  | true => simp only [if_true]; exact ht
  | false => simp only [Bool.false_eq_true, if_false]; exact he

theorem loopE_rel {c₁ c₂ : M MVal} {b₁ b₂ a₁ a₂ : M Flow} (hc : REval c₁ c₂) (hb : RStep b₁ b₂)
    (ha : RStep a₁ a₂) : RStep (loopE Cfg.fixed c₁ b₁ a₁) (loopE Cfg.noReclaim c₂ b₂ a₂) := by
  unfold loopE
  refine RTriple.bindV hc (fun _ _ _ => ?_)
  refine RTriple.bindE tokLp_rel (fun go => ?_)
  cases go with
  | false => simp only [Bool.false_eq_true, if_false]; exact RTriple.pure _ _ (fun _ _ h => ⟨h, rfl⟩)
  | true =>
    simp only [if_true]
    refine RTriple.bindU (pushMark_rel 0) (fun _ _ => ?_)
    refine RTriple.bindE hb (fun fl => ?_)
    cases fl with
    | brk => exact RTriple.bindU dropMark_rel (fun _ _ => RTriple.pure _ _ (fun _ _ h => ⟨h, rfl⟩))
    | ret =>
      exact RTriple.bindU dropMarkUnderTop_rel (fun _ _ => RTriple.pure _ _ (fun _ _ h => ⟨h, rfl⟩))
    | normal => exact RTriple.bindU (resetToMark_rel 0) (fun _ _ => ha)
    | cont => exact RTriple.bindU (resetToMark_rel 0) (fun _ _ => ha)

theorem blockE_rel (stmts : List Stmt) {b₁ b₂ : M Flow} (hb : RStep b₁ b₂) :
    RStep (blockE stmts b₁) (blockE stmts b₂) := by
  unfold blockE
  refine RTriple.bindU pushScope_rel (fun _ _ => ?_)
  refine RTriple.bindU (addFns_rel _) (fun _ _ => ?_)
  refine RTriple.bindE hb (fun fl => ?_)
  exact RTriple.bindU popScope_rel (fun _ _ => RTriple.pure _ _ (fun _ _ h => ⟨h, rfl⟩))

theorem seqE_rel {s₁ s₂ r₁ r₂ : M Flow} (hs : RStep s₁ s₂) (hr : RStep r₁ r₂) :
    RStep (seqE s₁ r₁) (seqE s₂ r₂) := by
  unfold seqE
  refine RTriple.bindE hs (fun fl => ?_)
  cases fl with
  | normal => exact hr
  | ret => exact RTriple.pure _ _ (fun _ _ h => ⟨h, rfl⟩)
  | brk => exact RTriple.pure _ _ (fun _ _ h => ⟨h, rfl⟩)
  | cont => exact RTriple.pure _ _ (fun _ _ h => ⟨h, rfl⟩)

theorem retE_rel {e₁ e₂ : M MVal} (he : REval e₁ e₂) : RStep (retE e₁) (retE e₂) := by
  unfold retE
  refine RTriple.bindV he (fun v₁ v₂ hv => ?_)
  exact RTriple.bindU (pushT_rel hv) (fun _ _ => RTriple.pure _ _ (fun _ _ h => ⟨h, rfl⟩))

theorem exprStmtE_rel {e₁ e₂ : M MVal} (he : REval e₁ e₂) : RStep (exprStmtE e₁) (exprStmtE e₂) := by
  unfold exprStmtE
  exact RTriple.bindV he (fun _ _ _ => RTriple.pure _ _ (fun _ _ h => ⟨h, rfl⟩))

theorem idxE_rel (isp : Span) {e₁ e₂ : M MVal} {r₁ r₂ : M (List Nat)} (he : REval e₁ e₂)
    (hr : RStep r₁ r₂) : RStep (idxE isp e₁ r₁) (idxE isp e₂ r₂) := by
  unfold idxE
  refine RTriple.bindV he (fun v₁ v₂ hv => ?_)
  cases v₁ <;> cases v₂ <;> simp only [VRel] at hv
  · refine RTriple.bindE (errAt_rel 6 isp) (fun _ => ?_)
    refine RTriple.bindE (errAt_rel 4 isp) (fun _ => ?_)
    refine RTriple.bindE tokIx_rel (fun k => ?_)
    refine RTriple.bindE hr (fun ks => ?_)
    exact RTriple.pure _ _ (fun _ _ h => ⟨h, rfl⟩)
  · exact shapeError_rel
  · exact shapeError_rel

theorem pushArgE_rel {e₁ e₂ : M MVal} {r₁ r₂ : M Nat} (he : REval e₁ e₂) (hr : RStep r₁ r₂) :
    RStep (pushArgE e₁ r₁) (pushArgE e₂ r₂) := by
  unfold pushArgE
  refine RTriple.bindV he (fun v₁ v₂ hv => ?_)
  refine RTriple.bindU (pushT_rel hv) (fun _ _ => ?_)
  exact RTriple.bindE hr (fun n => RTriple.pure _ _ (fun _ _ h => ⟨h, rfl⟩))

theorem dropArgE_rel (sp : Span) {e₁ e₂ : M MVal} {r₁ r₂ : M Unit} (he : REval e₁ e₂)
    (hr : RStep r₁ r₂) : RStep (dropArgE sp e₁ r₁) (dropArgE sp e₂ r₂) := by
  unfold dropArgE
  refine RTriple.bindV he (fun v₁ v₂ hv => ?_)
  refine RTriple.bindE (errAt_rel 5 sp) (fun _ => ?_)
  refine RTriple.bindE (errAt_rel 7 sp) (fun _ => ?_)
  exact RTriple.bindU (readV_rel 61 hv) (fun _ _ => hr)

/-! ### The evaluator in lock step -/

structure AllRel (f : Nat) : Prop where
  eval : ∀ e, REval (eval Cfg.fixed f e) (eval Cfg.noReclaim f e)
  evalPush : ∀ es, RStep (evalPush Cfg.fixed f es) (evalPush Cfg.noReclaim f es)
  evalDrop : ∀ sp es, RStep (evalDrop Cfg.fixed f sp es) (evalDrop Cfg.noReclaim f sp es)
  evalIdxs : ∀ es, RStep (evalIdxs Cfg.fixed f es) (evalIdxs Cfg.noReclaim f es)
  exec : ∀ st, RStep (exec Cfg.fixed f st) (exec Cfg.noReclaim f st)
  loopGo : ∀ c b, RStep (loopGo Cfg.fixed f c b) (loopGo Cfg.noReclaim f c b)
  execBlock : ∀ b, RStep (execBlock Cfg.fixed f b) (execBlock Cfg.noReclaim f b)
  execStmts : ∀ ss, RStep (execStmts Cfg.fixed f ss) (execStmts Cfg.noReclaim f ss)

theorem allRel_zero : AllRel 0 where
  eval := fun e => by unfold Mem.eval; exact RTriple.halt _ _
  evalPush := fun es => by unfold Mem.evalPush; exact RTriple.halt _ _
  evalDrop := fun sp es => by unfold Mem.evalDrop; exact RTriple.halt _ _
  evalIdxs := fun es => by unfold Mem.evalIdxs; exact RTriple.halt _ _
  exec := fun st => by unfold Mem.exec; exact RTriple.halt _ _
  loopGo := fun c b => by unfold Mem.loopGo; exact RTriple.halt _ _
  execBlock := fun b => by unfold Mem.execBlock; exact RTriple.halt _ _
  execStmts := fun ss => by unfold Mem.execStmts; exact RTriple.halt _ _

theorem eval_succ_rel {f : Nat} (ih : AllRel f) (e : Expr) :
    REval (Mem.eval Cfg.fixed (f + 1) e) (Mem.eval Cfg.noReclaim (f + 1) e) := by
  unfold Mem.eval
  refine RTriple.bindE (errAt_rel 3 e.span) (fun _ => ?_)
  cases e with
  | num _ _ => exact scalar_rel
  | bool _ _ => exact scalar_rel
  | null _ => exact scalar_rel
  | str parts _ =>
    cases parts with
    | static _ => exact static_rel
    | interp segs => exact interpE_rel segs
  | var _ bind _ =>
    cases bind with
    | none => exact RTriple.halt _ _
    | some id => exact varE_rel id
  | binary op l r sp =>
    cases op <;> first
      | exact andOrE_rel (ih.eval l) (ih.eval r)
      | exact binE_rel _ sp (ih.eval l) (ih.eval r)
  | unary _ e _ => exact discardE_rel (ih.eval e)
  | array es _ => exact arrayE_rel (ih.evalPush es)
  | index a i isp _ => exact indexE_rel isp (ih.eval a) (ih.eval i)
  | member _ _ _ _ => exact RTriple.halt _ _
  | call callee args fn sp =>
    cases callee with
    | member obj field _ _ =>
      simp only
      split
      · split
        · split
          · split
            · exact pushFailE_rel (ih.eval _)
            · exact RTriple.halt _ _
          · exact shapeError_rel
        · split
          · split
            · exact pushE_rel _ (ih.eval _) (ih.evalIdxs _)
            · exact RTriple.halt _ _
          · exact popRevE_rel _ _ (ih.evalIdxs _)
      · split
        · split
          · exact argsFailE_rel (ih.evalDrop _ _)
          · exact cmdMutE_rel _ (ih.evalDrop _ _) (ih.evalIdxs _)
        · exact methodE_rel field sp (ih.eval obj) (ih.evalPush args)
    | var name _ _ =>
      simp only
      split
      · split
        · exact builtinE_rel name sp (ih.eval _)
        · exact RTriple.halt _ _
      · split
        · exact RTriple.halt _ _
        · refine RTriple.bindE (getFn_rel _) (fun fd => ?_)
          exact callE_rel _ _ (ih.evalPush args) (ih.execBlock fd.body)
    | index _ _ _ _ => exact RTriple.halt _ _
    | str _ _ => exact RTriple.halt _ _
    | num _ _ => exact RTriple.halt _ _
    | binary _ _ _ _ => exact RTriple.halt _ _
    | call _ _ _ _ => exact RTriple.halt _ _
    | array _ _ => exact RTriple.halt _ _
    | unary _ _ _ => exact RTriple.halt _ _
    | bool _ _ => exact RTriple.halt _ _
    | null _ => exact RTriple.halt _ _

theorem flowPure_rel (fl : Flow) : RStep (pure fl : M Flow) (pure fl) :=
  RTriple.pure _ _ (fun _ _ h => ⟨h, rfl⟩)

theorem exec_succ_rel {f : Nat} (ih : AllRel f) (st : Stmt) :
    RStep (Mem.exec Cfg.fixed (f + 1) st) (Mem.exec Cfg.noReclaim (f + 1) st) := by
  unfold Mem.exec
  cases st with
  | assign _ _ e bind _ _ =>
    cases bind with
    | none => exact RTriple.halt _ _
    | some id => exact defineE_rel id (ih.eval e)
  | assignExisting _ _ e bind _ _ =>
    cases bind with
    | none => exact RTriple.halt _ _
    | some id => exact assignE_rel id (ih.eval e)
  | assignIndex target e _ _ =>
    simp only
    split
    · exact RTriple.halt _ _
    · exact assignIndexE_rel _ (ih.eval e) (ih.evalIdxs _)
  | ifS c t e _ _ =>
    refine ifE_rel (ih.eval c) (ih.execBlock t) ?_
    cases e with
    | none => exact flowPure_rel _
    | some eb => exact ih.execBlock eb
  | loop c b _ _ => exact ih.loopGo c b
  | block b _ _ => exact ih.execBlock b
  | fnDef _ _ _ _ _ _ _ => exact flowPure_rel _
  | ret e _ _ =>
    cases e with
    | none => exact retE_rel scalar_rel
    | some e => exact retE_rel (ih.eval e)
  | brk _ _ => exact flowPure_rel _
  | cont _ _ => exact flowPure_rel _
  | expr e _ _ => exact exprStmtE_rel (ih.eval e)

theorem allRel_succ {f : Nat} (ih : AllRel f) : AllRel (f + 1) where
  eval := eval_succ_rel ih
  evalPush := fun es => by
    unfold Mem.evalPush
    cases es with
    | nil => exact RTriple.pure _ _ (fun _ _ h => ⟨h, rfl⟩)
    | cons e es => exact pushArgE_rel (ih.eval e) (ih.evalPush es)
  evalDrop := fun sp es => by
    unfold Mem.evalDrop
    cases es with
    | nil => exact RTriple.pure _ _ (fun _ _ h => ⟨h, rfl⟩)
    | cons e es => exact dropArgE_rel sp (ih.eval e) (ih.evalDrop sp es)
  evalIdxs := fun es => by
    unfold Mem.evalIdxs
    cases es with
    | nil => exact RTriple.pure _ _ (fun _ _ h => ⟨h, rfl⟩)
    | cons e es =>
      obtain ⟨e, isp⟩ := e
      exact idxE_rel isp (ih.eval e) (ih.evalIdxs es)
  exec := exec_succ_rel ih
  loopGo := fun c b => by
    unfold Mem.loopGo
    exact loopE_rel (ih.eval c) (ih.execBlock b) (ih.loopGo c b)
  execBlock := fun b => by
    unfold Mem.execBlock
    cases b with
    | mk stmts _ => exact blockE_rel stmts (ih.execStmts stmts)
  execStmts := fun ss => by
    unfold Mem.execStmts
    cases ss with
    | nil => exact flowPure_rel _
    | cons s ss => exact seqE_rel (ih.exec s) (ih.execStmts ss)

theorem allRel : ∀ f, AllRel f
  | 0 => allRel_zero
  | f + 1 => allRel_succ (allRel f)

theorem rel_init (ctl : List CTok) (lay₁ lay₂ : List Nat) : R (St.init ctl lay₁) (St.init ctl lay₂) :=
  ⟨rfl, by simp [St.init, EnvRel, SlotsRel], rfl, by simp [St.init, VRelL], by simp [St.init, TempsRel],
   rfl, rfl⟩

end NaijaVerif.Mem
