import NaijaVerif.Lemmas.ParseRoundTrip
/-
The image of the expression parser lies in the well-formedness predicate `WF` of the round trip, up
to the decidable side condition on string templates: every expression the parser returns has no
binding annotations (`NoAnn`), and `WF (eraseExpr e) ↔ NoAnn e ∧ StrsOk e`.
-/
namespace NaijaVerif.Parse
open NaijaVerif

mutual
  /-- No binding annotations (the parser leaves them to the resolver). -/
  def NoAnn : Expr → Prop
    | .var _ b _ => b = none
    | .call c args fn _ => fn = none ∧ NoAnn c ∧ NoAnns args
    | .unary _ e _ => NoAnn e
    | .binary _ l r _ => NoAnn l ∧ NoAnn r
    | .member o _ _ _ => NoAnn o
    | .index a i _ _ => NoAnn a ∧ NoAnn i
    | .array es _ => NoAnns es
    | _ => True
  def NoAnns : List Expr → Prop
    | [] => True
    | e :: es => NoAnn e ∧ NoAnns es
end

mutual
  /-- Every string literal's parts scan back from their rendering (`strOk`). -/
  def StrsOk : Expr → Prop
    | .str parts _ => strOk parts
    | .call c args _ _ => StrsOk c ∧ StrsOks args
    | .unary _ e _ => StrsOk e
    | .binary _ l r _ => StrsOk l ∧ StrsOk r
    | .member o _ _ _ => StrsOk o
    | .index a i _ _ => StrsOk a ∧ StrsOk i
    | .array es _ => StrsOks es
    | _ => True
  def StrsOks : List Expr → Prop
    | [] => True
    | e :: es => StrsOk e ∧ StrsOks es
end

theorem wf_erase : ∀ n,
    (∀ e, esize e ≤ n → (WF (eraseExpr e) ↔ NoAnn e ∧ StrsOk e)) ∧
    (∀ es, esizes es ≤ n → (WFs (eraseExprs es) ↔ NoAnns es ∧ StrsOks es)) := by
  intro n
  induction n with
  | zero =>
    refine ⟨fun e h => ?_, fun es h => ?_⟩
    · have := esize_pos e; omega
    · cases es with
      | nil => simp [eraseExprs, WFs, NoAnns, StrsOks]
      | cons e es => simp [esizes] at h
  | succ n ih =>
    obtain ⟨ihe, ihl⟩ := ih
    refine ⟨fun e h => ?_, fun es h => ?_⟩
    · cases e <;> simp only [esize] at h <;>
        simp only [eraseExpr, WF, NoAnn, StrsOk, true_and, and_true, and_self]
      case index a i s1 s2 => rw [ihe a (by omega), ihe i (by omega)]; constructor <;> (intro h; simp_all)
      case binary op l r s => rw [ihe l (by omega), ihe r (by omega)]; constructor <;> (intro h; simp_all)
      case call c args fn s =>
        rw [ihe c (by omega), ihl args (by omega)]; constructor <;> (intro h; simp_all)
      case array es s => exact ihl es (by omega)
      case unary op e s => exact ihe e (by omega)
      case member o f s1 s2 => exact ihe o (by omega)
    · cases es with
      | nil => simp [eraseExprs, WFs, NoAnns, StrsOks]
      | cons e es =>
        simp only [esizes] at h
        simp only [eraseExprs, WFs, NoAnns, StrsOks]
        rw [ihe e (by omega), ihl es (by omega)]
        constructor <;> (intro h; simp_all)

/-- `WF` of a span-erased expression = no annotations + string templates that scan back. -/
theorem wf_eraseExpr (e : Expr) : WF (eraseExpr e) ↔ NoAnn e ∧ StrsOk e :=
  (wf_erase (esize e)).1 e (Nat.le_refl _)

theorem atomOf_noAnn {t : SpTok} {e : Expr} (h : atomOf t = some e) : NoAnn e := by
  unfold atomOf at h
  split at h <;> simp at h <;> subst h <;> simp [NoAnn]

/-- Everything the expression parser returns is free of binding annotations. -/
theorem expr_noAnn : ∀ f,
    (∀ bp st e st', parseExpr f bp st = some (e, st') → NoAnn e) ∧
    (∀ bp l st e st', parseCont f bp l st = some (e, st') → NoAnn l → NoAnn e) ∧
    (∀ c st es st', parseElems f c st = some (es, st') → NoAnns es) := by
  intro f
  induction f with
  | zero => simp [parseExpr, parseCont, parseElems]
  | succ f ih =>
    obtain ⟨ihe, ihc, ihl⟩ := ih
    refine ⟨?_, ?_, ?_⟩
    · intro bp st e st' h
      rw [parseExpr] at h
      psplit h
      all_goals first
        | exact ihc _ _ _ _ _ h (atomOf_noAnn ‹_›)
        | exact ihc _ _ _ _ _ h (by simp only [NoAnn]; first | exact ihe _ _ _ _ ‹_› | exact ihl _ _ _ _ ‹_› | trivial)
        | grind [NoAnn, NoAnns]
    · intro bp l st e st' h hl
      rw [parseCont] at h
      psplit h
      all_goals first
        | (simp at h; obtain ⟨rfl, rfl⟩ := h; exact hl)
        | exact ihc _ _ _ _ _ h (by simp only [NoAnn]; first | exact hl | exact ⟨hl, ihe _ _ _ _ ‹_›⟩ | exact ⟨rfl, hl, ihl _ _ _ _ ‹_›⟩ | grind [NoAnn, NoAnns])
        | grind [NoAnn, NoAnns]
    · intro c st es st' h
      rw [parseElems] at h
      psplit h
      all_goals grind [NoAnn, NoAnns]

end NaijaVerif.Parse
