import NaijaVerif.Lemmas.Mem
/-
Preservation of **Safe** by the evaluator's case combinators and, by induction on the fuel, by the
whole of `MemEval` under the FIXED discipline (helper lemmas for `Props/C02.lean`).
-/
namespace NaijaVerif.Mem
open NaijaVerif NaijaVerif.Pool

/-- An expression-level step: from a safe state with nothing in hand to a safe state holding the
result. -/
abbrev EvalOK (m : M MVal) : Prop := Triple (Safe []) m (fun v => Safe v.handles)

/-- A statement-level step: everything pending is on the temporaries stack. -/
abbrev StepOK (m : M α) : Prop := Triple (Safe []) m (fun _ => Safe [])

theorem Safe.drop {xs : List Handle} {s : St} (h : Safe xs s) : Safe [] s := h.mono (Sub.nil _)

theorem handlesL_append : ∀ (xs ys : List MVal),
    MVal.handlesL (xs ++ ys) = MVal.handlesL xs ++ MVal.handlesL ys
  | [], ys => by simp [MVal.handlesL]
  | x :: xs, ys => by simp [MVal.handlesL, handlesL_append xs ys]

theorem handlesL_reverse (xs : List MVal) (p : Handle → Bool) :
    (MVal.handlesL xs.reverse).countP p = (MVal.handlesL xs).countP p := by
  induction xs with
  | nil => rfl
  | cons a xs ih =>
    simp only [List.reverse_cons, handlesL_append, MVal.handlesL, List.countP_append,
      List.append_nil] at ih ⊢
    omega

theorem handlesL_dropLast (xs : List MVal) (p : Handle → Bool) :
    (MVal.handlesL xs.dropLast).countP p + ((xs.getLast?).getD .scalar).handles.countP p
      = (MVal.handlesL xs).countP p := by
  induction xs with
  | nil => simp [MVal.handlesL, MVal.handles]
  | cons a xs ih =>
    cases xs with
    | nil => simp [MVal.handlesL, MVal.handles]
    | cons b ys =>
      simp only [List.dropLast_cons_cons, List.getLast?_cons_cons, MVal.handlesL, List.countP_append] at ih ⊢
      omega

theorem popClean_spec (xs : List Handle) :
    Triple (Safe xs) (popClean Cfg.fixed)
      (fun v s => Safe (v.handles ++ xs) s ∧ NoFrame v.handles) := by
  simp only [popClean, Cfg.fixed, if_true]
  intro s h
  refine ⟨fun v s' hm => ?_, fun o s' hm => ?_⟩
  · have hp := (popT_spec xs s h).1 v s'
    unfold popCleanChecked at hm
    unfold popT at hp
    split at hm
    · rename_i w r ht
      rw [ht] at hp
      split at hm
      · rename_i hall
        cases hm
        refine ⟨hp rfl, ?_⟩
        intro a ha
        have := List.all_eq_true.mp hall a ha
        simpa using this
      · cases hm
    · cases hm
  · unfold popCleanChecked at hm
    split at hm
    · split at hm <;> cases hm
      trivial
    · cases hm; trivial

theorem Safe.static {xs : List Handle} {s : St} (h : Safe xs s) : Safe (staticStr :: xs) s where
  ok := by
    intro b hb
    simp only [List.cons_append, List.mem_cons] at hb
    rcases hb with rfl | hb
    · exact ⟨rfl, .inr (.inl rfl), fun hp => by simp [staticStr, Region.isPool] at hp⟩
    · exact h.ok b hb
  uniq := by
    intro X
    have := h.uniq X
    simp only [List.cons_append, cnt_cons, staticStr, Region.isPool, Bool.false_and]
    simpa using this
  clean := h.clean
  xsBelow := by
    intro b hb k hk
    simp only [List.mem_cons] at hb
    rcases hb with rfl | hb
    · simp [staticStr] at hk
    · exact h.xsBelow b hb k hk
  temps := h.temps
  slotsOk := h.slotsOk
  poolOk := h.poolOk

/-! ### Expression combinators -/

theorem scalar_ok : EvalOK (pure .scalar) :=
  Triple.pure _ (fun _ h => by simpa [MVal.handles] using h)

theorem static_ok : EvalOK (pure (.leaf staticStr)) :=
  Triple.pure _ (fun _ h => by simpa [MVal.handles] using h.static)

theorem interpE_ok (segs : List Seg) : EvalOK (interpE segs) := by
  unfold interpE
  refine Triple.bind (readSegs_spec [] segs) (fun _ => ?_)
  refine Triple.bind (freshCt_spec _) (fun ct => ?_)
  refine Triple.bind (allocFrame_spec [] true ct) (fun h' => ?_)
  exact Triple.pure _ (fun s h => by simpa [MVal.handles] using h.1)

theorem varE_ok (id : Nat) : EvalOK (varE Cfg.fixed id) := by
  unfold varE
  refine Triple.bind (getVar_spec [] id) (fun v => ?_)
  intro s hs
  have := copyRead_spec s.env v [] (fun a ha => hs.2.mem ha) s ⟨hs.1, rfl⟩
  exact ⟨fun v' s' hm => by simpa using (this.1 v' s' hm).1, this.2⟩

theorem discardE_ok {e : M MVal} (he : EvalOK e) : EvalOK (discardE e) := by
  unfold discardE
  refine Triple.bind he (fun _ => ?_)
  exact Triple.pure _ (fun s h => by simpa [MVal.handles] using h.drop)

theorem andOrE_ok {l r : M MVal} (hl : EvalOK l) (hr : EvalOK r) : EvalOK (andOrE l r) := by
  unfold andOrE
  refine Triple.bind hl (fun _ => ?_)
  refine Triple.bind (Q := fun _ => Safe []) ((tokSc_spec _).pre (fun s h => h.drop)) (fun b => ?_)
  split
  · refine Triple.bind hr (fun _ => ?_)
    exact Triple.pure _ (fun s h => by simpa [MVal.handles] using h.drop)
  · exact scalar_ok

theorem binE_ok (op : BinOp) (sp : Span) {l r : M MVal} (hl : EvalOK l) (hr : EvalOK r) :
    EvalOK (binE op sp l r) := by
  unfold binE
  refine Triple.bind hl (fun lv => ?_)
  refine Triple.bind (Q := fun _ => Safe []) ((pushT_spec [] lv).pre (fun s h => by simpa using h)) (fun _ => ?_)
  refine Triple.bind hr (fun rv => ?_)
  refine Triple.bind (popT_spec rv.handles) (fun lv' => ?_)
  exact binop_spec op lv' rv sp

theorem arrayE_ok {elems : M Nat} (he : StepOK elems) : EvalOK (arrayE elems) := by
  unfold arrayE
  refine Triple.bind (allocFrame_spec [] false _) (fun b => ?_)
  refine Triple.bind (Q := fun _ => Safe []) ?_ (fun _ => ?_)
  · exact (pushT_spec [] (.arr b [])).pre (fun s h => by simpa [MVal.handles, MVal.handlesL] using h.1)
  · refine Triple.bind he (fun n => ?_)
    refine Triple.bind (Q := fun xs => Safe (MVal.handlesL xs ++ [])) ?_ (fun xs => ?_)
    · exact (popN_spec [] n []).pre (fun s h => by simpa [MVal.handlesL] using h)
    · refine Triple.bind (popT_spec _) (fun shell => ?_)
      split
      · exact Triple.pure _ (fun s h => h.mono (by sub_tac))
      · exact Triple.halt_benign _ trivial

theorem indexE_ok (isp : Span) {a i : M MVal} (ha : EvalOK a) (hi : EvalOK i) :
    EvalOK (indexE isp a i) := by
  unfold indexE
  refine Triple.bind ha (fun av => ?_)
  refine Triple.bind (Q := fun _ => Safe []) ((pushT_spec [] av).pre (fun s h => by simpa using h)) (fun _ => ?_)
  refine Triple.bind hi (fun iv => ?_)
  refine Triple.bind (popT_spec iv.handles) (fun av' => ?_)
  split
  · rename_i b xs
    refine Triple.bind (errAt_spec _ _ _) (fun _ => ?_)
    refine Triple.bind (errAt_spec _ _ _) (fun _ => ?_)
    refine Triple.bind (tokIx_spec _) (fun k => ?_)
    refine Triple.bind (Q := fun _ => Safe ((MVal.arr b xs).handles ++ MVal.scalar.handles)) ?_ (fun _ => ?_)
    · exact (readH_spec _ 53 b).pre (fun s h => ⟨h, by simp [MVal.handles]⟩)
    · split
      · rename_i x hx
        refine Triple.pure _ (fun s h => h.mono ?_)
        have := handlesL_getElem hx
        intro p; have := this p
        simp only [MVal.handles, List.countP_append, List.countP_cons, List.countP_nil]; omega
      · exact Triple.halt_benign _ trivial
  · exact shapeError_spec
  · exact Triple.halt_benign _ trivial

theorem pushE_ok (id : Nat) {arg : M MVal} {idxs : M (List Nat)} (ha : EvalOK arg)
    (hi : StepOK idxs) : EvalOK (pushE Cfg.fixed id arg idxs) := by
  unfold pushE
  refine Triple.bind ha (fun v => ?_)
  refine Triple.bind (Q := fun v' s => Safe (v'.handles ++ []) s ∧ NoFrame v'.handles)
    ((promoteIf_spec v []).pre (fun s h => by simpa using h)) (fun v' => ?_)
  refine Triple.bind (Q := fun _ => Safe []) ((pushT_spec [] v').pre (fun s h => h.1)) (fun _ => ?_)
  refine Triple.bind hi (fun path => ?_)
  refine Triple.bind (popClean_spec []) (fun v'' => ?_)
  refine Triple.assume (fun hv => ?_)
  refine Triple.bind (Q := fun r => Safe (r.handles ++ [])) ?_ (fun _ => ?_)
  · refine modifyVar_spec [] v''.handles id path _ ?_ hv
    intro a a' r hg
    split at hg
    · cases hg
      simp only [MVal.handles, handlesL_append, MVal.handlesL]; sub_tac
    · cases hg
  · exact Triple.pure _ (fun s h => by simpa [MVal.handles] using h.drop)

theorem pushFailE_ok {arg : M MVal} (ha : EvalOK arg) : EvalOK (pushFailE Cfg.fixed arg) := by
  unfold pushFailE
  refine Triple.bind ha (fun v => ?_)
  refine Triple.bind (Q := fun v' s => Safe (v'.handles ++ []) s ∧ NoFrame v'.handles)
    ((promoteIf_spec v []).pre (fun s h => by simpa using h)) (fun v' => ?_)
  exact shapeError_spec

theorem argsFailE_ok {args : M Unit} (ha : StepOK args) : EvalOK (argsFailE args) := by
  unfold argsFailE
  exact Triple.bind ha (fun _ => shapeError_spec)

theorem popRevE_ok (isPop : Bool) (id : Nat) {idxs : M (List Nat)} (hi : StepOK idxs) :
    EvalOK (popRevE isPop id idxs) := by
  unfold popRevE
  refine Triple.bind hi (fun path => ?_)
  split
  · refine Triple.post (modifyVar_spec [] [] id path _ ?_ NoFrame.nil) (fun r s h => by simpa using h)
    intro a a' r hg
    split at hg
    · rename_i b xs
      cases hg
      intro p
      have := handlesL_dropLast xs p
      simp only [MVal.handles, List.countP_append, List.countP_cons, List.countP_nil]; omega
    · cases hg
  · refine Triple.post (modifyVar_spec [] [] id path _ ?_ NoFrame.nil) (fun r s h => by simpa using h)
    intro a a' r hg
    split at hg
    · rename_i b xs
      cases hg
      intro p
      have := handlesL_reverse xs p
      simp only [MVal.handles, List.countP_append, List.countP_cons, List.countP_nil]; omega
    · cases hg

theorem cmdMutE_ok (id : Nat) {args : M Unit} {idxs : M (List Nat)} (ha : StepOK args)
    (hi : StepOK idxs) : EvalOK (cmdMutE id args idxs) := by
  unfold cmdMutE
  refine Triple.bind ha (fun _ => ?_)
  refine Triple.bind hi (fun path => ?_)
  refine Triple.bind (Q := fun r => Safe (r.handles ++ [])) ?_ (fun _ => ?_)
  · refine modifyVar_spec [] [] id path _ ?_ NoFrame.nil
    intro a a' r hg
    split at hg
    · split at hg
      · cases hg
      · cases hg; sub_tac
    · cases hg
  · exact Triple.pure _ (fun s h => by simpa [MVal.handles] using h.drop)

theorem methodE_ok (field : Bytes) (sp : Span) {recv : M MVal} {args : M Nat} (hr : EvalOK recv)
    (ha : StepOK args) : EvalOK (methodE field sp recv args) := by
  unfold methodE
  refine Triple.bind hr (fun rv => ?_)
  split
  · exact shapeError_spec
  · rename_i k hk
    refine Triple.bind (Q := fun _ => Safe []) ((pushT_spec [] rv).pre (fun s h => by simpa using h)) (fun _ => ?_)
    refine Triple.bind ha (fun n => ?_)
    refine Triple.bind (Q := fun as => Safe (MVal.handlesL as ++ [])) ?_ (fun as => ?_)
    · exact (popN_spec [] n []).pre (fun s h => by simpa [MVal.handlesL] using h)
    · refine Triple.bind (popT_spec _) (fun rv' => ?_)
      refine Triple.bind (readV_extras _ 55 rv' (fun a ha => by simp [ha])) (fun _ => ?_)
      refine Triple.bind (readHs_extras _ 56 _ (fun a ha => by simp [ha])) (fun _ => ?_)
      split
      · refine Triple.bind (errAt_spec _ _ _) (fun _ => ?_)
        exact Triple.pure _ (fun s h => by simpa [MVal.handles] using h.drop)
      · refine Triple.bind (freshCt_spec _) (fun ct => ?_)
        refine Triple.bind (allocFrame_spec _ true ct) (fun h' => ?_)
        exact Triple.pure _ (fun s h => h.1.mono (by sub_tac))
      · refine Triple.bind (tokSplit_spec _) (fun n => ?_)
        refine Triple.bind (allocFrame_spec _ false _) (fun b => ?_)
        refine Triple.bind (Q := fun xs s => Safe (MVal.handlesL xs ++ (b :: (rv'.handles ++ (MVal.handlesL as ++ [])))) s)
          ((allocStrs_spec _ n).pre (fun s h => h.1)) (fun xs => ?_)
        exact Triple.pure _ (fun s h => h.mono (by sub_tac))
      · refine Triple.bind (errAt_spec _ _ _) (fun _ => ?_)
        refine Triple.bind (freshCt_spec _) (fun ct => ?_)
        refine Triple.bind (allocPersist_spec _ false ct) (fun h' => ?_)
        exact Triple.pure _ (fun s h => h.1.mono (by sub_tac))
      · exact shapeError_spec

theorem builtinE_ok (name : Bytes) (sp : Span) {arg : M MVal} (ha : EvalOK arg) :
    EvalOK (builtinE Cfg.fixed name sp arg) := by
  unfold builtinE
  refine Triple.bind ha (fun v => ?_)
  split
  · refine Triple.bind (readV_extras _ 57 v (fun a ha => ha)) (fun _ => ?_)
    refine Triple.bind (emit_spec _ _) (fun _ => ?_)
    refine Triple.bind (Q := fun v' s => Safe (v'.handles ++ []) s ∧ NoFrame v'.handles)
      ((promoteIf_spec v []).pre (fun s h => by simpa using h)) (fun v' => ?_)
    refine Triple.assume (fun hv => ?_)
    refine Triple.bind (storeOut_spec [] v' hv) (fun _ => ?_)
    exact scalar_ok
  · split
    · exact Triple.pure _ (fun s h => by simpa [MVal.handles] using h.drop.static)
    · split
      · refine Triple.bind (readV_extras _ 58 v (fun a ha => ha)) (fun _ => ?_)
        refine Triple.bind (freshCt_spec _) (fun ct => ?_)
        refine Triple.bind (allocFrame_spec _ false ct) (fun h' => ?_)
        exact Triple.pure _ (fun s h => h.1.mono (by sub_tac))
      · refine Triple.bind (readV_extras _ 59 v (fun a ha => ha)) (fun _ => ?_)
        refine Triple.bind (Q := fun _ => Safe v.handles) ?_ (fun _ => ?_)
        · unfold ioCheck
          split
          · exact errAt_spec _ _ _
          · exact Triple.pure _ (fun _ h => h)
        · refine Triple.bind (freshCt_spec _) (fun ct => ?_)
          refine Triple.bind (allocFrame_spec _ true ct) (fun h' => ?_)
          exact Triple.pure _ (fun s h => h.1.mono (by sub_tac))

theorem callE_ok (nargs : Nat) (params : List (Option Nat)) {args : M Nat} {body : M Flow}
    (ha : StepOK args) (hb : StepOK body) : EvalOK (callE Cfg.fixed nargs params args body) := by
  unfold callE
  refine Triple.bind (tokCall_spec _ _) (fun _ => ?_)
  refine Triple.bind (pushMark_spec _ _) (fun _ => ?_)
  refine Triple.bind ha (fun n => ?_)
  refine Triple.bind (emit_spec _ _) (fun _ => ?_)
  refine Triple.bind (Q := fun vs => Safe (MVal.handlesL vs ++ [])) ?_ (fun vs => ?_)
  · exact (popN_spec [] n []).pre (fun s h => by simpa [MVal.handlesL] using h)
  · refine Triple.bind (pushScope_spec _) (fun _ => ?_)
    refine Triple.bind (bindParams_spec [] params vs) (fun _ => ?_)
    refine Triple.bind hb (fun fl => ?_)
    refine Triple.bind (popScope_spec _) (fun _ => ?_)
    refine Triple.bind (emit_spec _ _) (fun _ => ?_)
    refine Triple.bind (Q := fun rv => Safe rv.handles) ?_ (fun rv => ?_)
    · split
      · exact (popT_spec []).post (fun v s h => by simpa using h)
      · exact scalar_ok
      · exact Triple.halt_benign _ trivial
    · simp only [Cfg.fixed, if_true]
      exact relocate_spec rv

/-! ### Statement combinators -/

theorem defineE_ok (id : Nat) {e : M MVal} (he : EvalOK e) : StepOK (defineE Cfg.fixed id e) := by
  unfold defineE
  refine Triple.bind he (fun v => ?_)
  refine Triple.bind ((define_spec [] id v).pre (fun s h => by simpa using h)) (fun _ => ?_)
  exact Triple.pure _ (fun _ h => h)

theorem assignE_ok (id : Nat) {e : M MVal} (he : EvalOK e) : StepOK (assignE Cfg.fixed id e) := by
  unfold assignE assign
  refine Triple.bind he (fun v => ?_)
  refine Triple.bind ((overwrite_spec [] id v).pre (fun s h => by simpa using h)) (fun _ => ?_)
  exact Triple.pure _ (fun _ h => h)

theorem assignIndexE_ok (id : Nat) {e : M MVal} {idxs : M (List Nat)} (he : EvalOK e)
    (hi : StepOK idxs) : StepOK (assignIndexE Cfg.fixed id e idxs) := by
  unfold assignIndexE
  refine Triple.bind he (fun v => ?_)
  refine Triple.bind (Q := fun _ => Safe []) ((pushT_spec [] v).pre (fun s h => by simpa using h)) (fun _ => ?_)
  refine Triple.bind hi (fun path => ?_)
  refine Triple.bind (popT_spec []) (fun v1 => ?_)
  refine Triple.bind (promoteIf_spec v1 []) (fun v' => ?_)
  refine Triple.assume (fun hv => ?_)
  refine Triple.bind (Q := fun old => Safe (old.handles ++ [])) ?_ (fun old => ?_)
  · refine modifyVar_spec [] v'.handles id path _ ?_ hv
    intro a a' r hg
    cases hg
    sub_tac
  · refine Triple.bind (Q := fun _ => Safe []) ?_ (fun _ => Triple.pure _ (fun _ h => h))
    simp only [freeIf, Cfg.fixed, if_true]
    exact freeTop_spec [] old

theorem ifE_ok {c : M MVal} {t e : M Flow} (hc : EvalOK c) (ht : StepOK t) (he : StepOK e) :
    StepOK (ifE c t e) := by
  unfold ifE
  refine Triple.bind hc (fun _ => ?_)
  refine Triple.bind (Q := fun _ => Safe []) ((tokBr_spec _).pre (fun s h => h.drop)) (fun b => ?_)
  split
  · exact ht
  · exact he

theorem loopE_ok {c : M MVal} {body again : M Flow} (hc : EvalOK c) (hb : StepOK body)
    (ha : StepOK again) : StepOK (loopE Cfg.fixed c body again) := by
  unfold loopE
  refine Triple.bind hc (fun _ => ?_)
  refine Triple.bind (Q := fun _ => Safe []) ((tokLp_spec _).pre (fun s h => h.drop)) (fun go => ?_)
  split
  · refine Triple.bind (pushMark_spec _ _) (fun _ => ?_)
    refine Triple.bind hb (fun fl => ?_)
    split
    · exact Triple.bind (dropMark_spec _) (fun _ => Triple.pure _ (fun _ h => h))
    · exact Triple.bind (dropMarkUnderTop_spec _) (fun _ => Triple.pure _ (fun _ h => h))
    · exact Triple.bind (resetToMark_spec [] 0 NoFrame.nil) (fun _ => ha)
  · exact Triple.pure _ (fun _ h => h)

theorem blockE_ok (stmts : List Stmt) {body : M Flow} (hb : StepOK body) :
    StepOK (blockE stmts body) := by
  unfold blockE
  refine Triple.bind (pushScope_spec _) (fun _ => ?_)
  refine Triple.bind (addFns_spec _ _) (fun _ => ?_)
  refine Triple.bind hb (fun fl => ?_)
  refine Triple.bind (popScope_spec _) (fun _ => ?_)
  exact Triple.pure _ (fun _ h => h)

theorem seqE_ok {s rest : M Flow} (hs : StepOK s) (hr : StepOK rest) : StepOK (seqE s rest) := by
  unfold seqE
  refine Triple.bind hs (fun fl => ?_)
  split
  · exact hr
  · exact Triple.pure _ (fun _ h => h)

theorem retE_ok {e : M MVal} (he : EvalOK e) : StepOK (retE e) := by
  unfold retE
  refine Triple.bind he (fun v => ?_)
  refine Triple.bind (Q := fun _ => Safe []) ((pushT_spec [] v).pre (fun s h => by simpa using h)) (fun _ => ?_)
  exact Triple.pure _ (fun _ h => h)

theorem exprStmtE_ok {e : M MVal} (he : EvalOK e) : StepOK (exprStmtE e) := by
  unfold exprStmtE
  refine Triple.bind he (fun _ => ?_)
  exact Triple.pure _ (fun _ h => h.drop)

theorem idxE_ok (isp : Span) {e : M MVal} {rest : M (List Nat)} (he : EvalOK e) (hr : StepOK rest) :
    StepOK (idxE isp e rest) := by
  unfold idxE
  refine Triple.bind he (fun v => ?_)
  split
  · refine Triple.bind (Q := fun _ => Safe []) ((errAt_spec _ _ _).pre (fun s h => h.drop)) (fun _ => ?_)
    refine Triple.bind (errAt_spec _ _ _) (fun _ => ?_)
    refine Triple.bind (tokIx_spec _) (fun k => ?_)
    refine Triple.bind hr (fun ks => ?_)
    exact Triple.pure _ (fun _ h => h)
  · exact shapeError_spec

theorem pushArgE_ok {e : M MVal} {rest : M Nat} (he : EvalOK e) (hr : StepOK rest) :
    StepOK (pushArgE e rest) := by
  unfold pushArgE
  refine Triple.bind he (fun v => ?_)
  refine Triple.bind (Q := fun _ => Safe []) ((pushT_spec [] v).pre (fun s h => by simpa using h)) (fun _ => ?_)
  refine Triple.bind hr (fun n => ?_)
  exact Triple.pure _ (fun _ h => h)

theorem dropArgE_ok (sp : Span) {e : M MVal} {rest : M Unit} (he : EvalOK e) (hr : StepOK rest) :
    StepOK (dropArgE sp e rest) := by
  unfold dropArgE
  refine Triple.bind he (fun v => ?_)
  refine Triple.bind (errAt_spec _ _ _) (fun _ => ?_)
  refine Triple.bind (errAt_spec _ _ _) (fun _ => ?_)
  refine Triple.bind (Q := fun _ => Safe []) ?_ (fun _ => hr)
  exact (readV_extras _ 61 v (fun a ha => ha)).post (fun _ s h => h.drop)

/-! ### The evaluator -/

/-- What the induction on the fuel proves for every entry point at once. -/
structure AllOK (f : Nat) : Prop where
  eval : ∀ e, EvalOK (eval Cfg.fixed f e)
  evalPush : ∀ es, StepOK (evalPush Cfg.fixed f es)
  evalDrop : ∀ sp es, StepOK (evalDrop Cfg.fixed f sp es)
  evalIdxs : ∀ es, StepOK (evalIdxs Cfg.fixed f es)
  exec : ∀ st, StepOK (exec Cfg.fixed f st)
  loopGo : ∀ c b, StepOK (loopGo Cfg.fixed f c b)
  execBlock : ∀ b, StepOK (execBlock Cfg.fixed f b)
  execStmts : ∀ ss, StepOK (execStmts Cfg.fixed f ss)

theorem fuelOut_ok {P : St → Prop} {Q : α → St → Prop} : Triple P (halt .fuelOut : M α) Q :=
  Triple.halt_benign _ trivial

theorem stuck_ok {P : St → Prop} {Q : α → St → Prop} (n : Nat) : Triple P (halt (.stuck n) : M α) Q :=
  Triple.halt_benign _ trivial

theorem allOK_zero : AllOK 0 where
  eval := fun e => by unfold Mem.eval; exact fuelOut_ok
  evalPush := fun es => by unfold Mem.evalPush; exact fuelOut_ok
  evalDrop := fun sp es => by unfold Mem.evalDrop; exact fuelOut_ok
  evalIdxs := fun es => by unfold Mem.evalIdxs; exact fuelOut_ok
  exec := fun st => by unfold Mem.exec; exact fuelOut_ok
  loopGo := fun c b => by unfold Mem.loopGo; exact fuelOut_ok
  execBlock := fun b => by unfold Mem.execBlock; exact fuelOut_ok
  execStmts := fun ss => by unfold Mem.execStmts; exact fuelOut_ok

theorem eval_succ_ok {f : Nat} (ih : AllOK f) (e : Expr) : EvalOK (Mem.eval Cfg.fixed (f + 1) e) := by
  unfold Mem.eval
  refine Triple.bind (errAt_spec _ _ _) (fun _ => ?_)
  cases e with
  | num _ _ => exact scalar_ok
  | bool _ _ => exact scalar_ok
  | null _ => exact scalar_ok
  | str parts _ =>
    cases parts with
    | static _ => exact static_ok
    | interp segs => exact interpE_ok segs
  | var _ bind _ =>
    cases bind with
    | none => exact stuck_ok _
    | some id => exact varE_ok id
  | binary op l r sp =>
    cases op <;> first
      | exact andOrE_ok (ih.eval l) (ih.eval r)
      | exact binE_ok _ sp (ih.eval l) (ih.eval r)
  | unary _ e _ => exact discardE_ok (ih.eval e)
  | array es _ => exact arrayE_ok (ih.evalPush es)
  | index a i isp _ => exact indexE_ok isp (ih.eval a) (ih.eval i)
  | member _ _ _ _ => exact stuck_ok _
  | call callee args fn sp =>
    cases callee with
    | member obj field _ _ =>
      simp only
      split
      · split
        · split
          · split
            · exact pushFailE_ok (ih.eval _)
            · exact stuck_ok _
          · exact shapeError_spec
        · split
          · split
            · exact pushE_ok _ (ih.eval _) (ih.evalIdxs _)
            · exact stuck_ok _
          · exact popRevE_ok _ _ (ih.evalIdxs _)
      · split
        · split
          · exact argsFailE_ok (ih.evalDrop _ _)
          · exact cmdMutE_ok _ (ih.evalDrop _ _) (ih.evalIdxs _)
        · exact methodE_ok field sp (ih.eval obj) (ih.evalPush args)
    | var name _ _ =>
      simp only
      split
      · split
        · exact builtinE_ok name sp (ih.eval _)
        · exact stuck_ok _
      · split
        · exact stuck_ok _
        · refine Triple.bind (getFn_spec _ _) (fun fd => ?_)
          exact callE_ok _ _ (ih.evalPush args) (ih.execBlock fd.body)
    | index _ _ _ _ => exact stuck_ok _
    | str _ _ => exact stuck_ok _
    | num _ _ => exact stuck_ok _
    | binary _ _ _ _ => exact stuck_ok _
    | call _ _ _ _ => exact stuck_ok _
    | array _ _ => exact stuck_ok _
    | unary _ _ _ => exact stuck_ok _
    | bool _ _ => exact stuck_ok _
    | null _ => exact stuck_ok _

theorem exec_succ_ok {f : Nat} (ih : AllOK f) (st : Stmt) : StepOK (Mem.exec Cfg.fixed (f + 1) st) := by
  unfold Mem.exec
  cases st with
  | assign _ _ e bind _ _ =>
    cases bind with
    | none => exact stuck_ok _
    | some id => exact defineE_ok id (ih.eval e)
  | assignExisting _ _ e bind _ _ =>
    cases bind with
    | none => exact stuck_ok _
    | some id => exact assignE_ok id (ih.eval e)
  | assignIndex target e _ _ =>
    simp only
    split
    · exact stuck_ok _
    · exact assignIndexE_ok _ (ih.eval e) (ih.evalIdxs _)
  | ifS c t e _ _ =>
    refine ifE_ok (ih.eval c) (ih.execBlock t) ?_
    cases e with
    | none => exact Triple.pure _ (fun _ h => h)
    | some eb => exact ih.execBlock eb
  | loop c b _ _ => exact ih.loopGo c b
  | block b _ _ => exact ih.execBlock b
  | fnDef _ _ _ _ _ _ _ => exact Triple.pure _ (fun _ h => h)
  | ret e _ _ =>
    cases e with
    | none => exact retE_ok scalar_ok
    | some e => exact retE_ok (ih.eval e)
  | brk _ _ => exact Triple.pure _ (fun _ h => h)
  | cont _ _ => exact Triple.pure _ (fun _ h => h)
  | expr e _ _ => exact exprStmtE_ok (ih.eval e)

theorem allOK_succ {f : Nat} (ih : AllOK f) : AllOK (f + 1) where
  eval := eval_succ_ok ih
  evalPush := fun es => by
    unfold Mem.evalPush
    cases es with
    | nil => exact Triple.pure _ (fun _ h => h)
    | cons e es => exact pushArgE_ok (ih.eval e) (ih.evalPush es)
  evalDrop := fun sp es => by
    unfold Mem.evalDrop
    cases es with
    | nil => exact Triple.pure _ (fun _ h => h)
    | cons e es => exact dropArgE_ok sp (ih.eval e) (ih.evalDrop sp es)
  evalIdxs := fun es => by
    unfold Mem.evalIdxs
    cases es with
    | nil => exact Triple.pure _ (fun _ h => h)
    | cons e es =>
      obtain ⟨e, isp⟩ := e
      exact idxE_ok isp (ih.eval e) (ih.evalIdxs es)
  exec := exec_succ_ok ih
  loopGo := fun c b => by
    unfold Mem.loopGo
    exact loopE_ok (ih.eval c) (ih.execBlock b) (ih.loopGo c b)
  execBlock := fun b => by
    unfold Mem.execBlock
    cases b with
    | mk stmts _ => exact blockE_ok stmts (ih.execStmts stmts)
  execStmts := fun ss => by
    unfold Mem.execStmts
    cases ss with
    | nil => exact Triple.pure _ (fun _ h => h)
    | cons s ss => exact seqE_ok (ih.exec s) (ih.execStmts ss)

theorem allOK : ∀ f, AllOK f
  | 0 => allOK_zero
  | f + 1 => allOK_succ (allOK f)

/-! ### The initial state is safe -/

theorem pools0_getElem {c : Nat} {p : Pool} (h : pools0[c]? = some p) :
    p = Pool.new 0 (slotSizeOf c) (slotCountOf c) := by
  unfold pools0 at h
  rw [List.getElem?_map] at h
  rcases hr : (List.range classCount)[c]? with _ | c'
  · rw [hr] at h; cases h
  · rw [hr] at h
    simp only [Option.map_some, Option.some.injEq] at h
    have : c' = c := by
      rw [List.getElem?_eq_some_iff] at hr
      obtain ⟨_, hr⟩ := hr
      simpa using hr.symm
    subst this; exact h.symm

theorem safe_init (ctl : List CTok) (lay : List Nat) : Safe [] (St.init ctl lay) where
  ok := by intro a ha; simp [St.init, St.allH, envH, slotsH, MVal.handlesL, tempsH] at ha
  uniq := by intro X; simp [St.init, St.allH, envH, slotsH, MVal.handlesL, tempsH, cnt]
  clean := by intro a ha; simp [St.init, envH, slotsH, MVal.handlesL] at ha
  xsBelow := by intro a ha; cases ha
  temps := trivial
  slotsOk := by intro c i x h; simp [St.init] at h
  poolOk := by
    constructor
    · intro c p hp
      have := pools0_getElem hp
      subst this
      exact ⟨Pool.inv_new _ _ _, fun i => by simp [Pool.new, St.init]⟩
    · simp [St.init]

/-- The whole run under the fixed discipline, from the initial state. -/
theorem run_benign (fuel : Nat) (prog : Block) (ctl : List CTok) (lay : List Nat) :
    ∀ o, (run Cfg.fixed fuel prog ctl lay).stopped = some o → o.benign := by
  intro o ho
  have h : StepOK (do let fl ← execBlock Cfg.fixed fuel prog; popScope; pure fl : M Flow) := by
    refine Triple.bind ((allOK fuel).execBlock prog) (fun fl => ?_)
    refine Triple.bind (popScope_spec _) (fun _ => ?_)
    exact Triple.pure _ (fun _ h => h)
  have := h (St.init ctl lay) (safe_init ctl lay)
  unfold run at ho
  cases hr : (do let fl ← execBlock Cfg.fixed fuel prog; popScope; pure fl : M Flow) (St.init ctl lay) with
  | ok a s' => rw [hr] at ho; cases ho
  | stop o' s' =>
    rw [hr] at ho
    simp only [Res.stopped, Option.some.injEq] at ho
    subst ho
    exact this.2 o' s' hr

end NaijaVerif.Mem
