import NaijaVerif.Model.LexMem
import NaijaVerif.Lemmas.LexInv
/-
The string buffer of `scan_string` (`Model/LexMem.lean`), one token at a time:

* arithmetic of `Vec` growth;
* the geometry of the reservation (`hintFixed`): it ends before the first quote / line end after the
  escape, and a scan that does not run into the end of input gets at least that far;
* `bufLoop_after`: the loop after the first escape; `bufLoop_first`: the whole token.
-/
namespace NaijaVerif.Lex

/-- `omega` after reducing projections of structure literals -/
macro "om" : tactic => `(tactic| ((try dsimp only) <;> omega))

/-! ## growth -/

theorem Buf.push_len (b : Buf) (n : Nat) : (b.push n).len = b.len + n := by
  simp only [Buf.push, Buf.reserve]; split <;> rfl

theorem Buf.push_zero (b : Buf) : b.push 0 = b := by
  simp [Buf.push, Buf.reserve]

theorem Buf.push_cap_ge (b : Buf) (n : Nat) : b.cap ≤ (b.push n).cap := by
  simp only [Buf.push, Buf.reserve]; split <;> (try dsimp only) <;> omega

/-- amortised growth at most doubles what is needed -/
theorem Buf.push_cap_le (b : Buf) (n : Nat) (h : 1 ≤ b.cap ∨ 2 ≤ b.len + n) :
    (b.push n).cap ≤ max b.cap (2 * (b.len + n) + 4) := by
  simp only [Buf.push, Buf.reserve]; split <;> (try dsimp only) <;> omega

theorem Buf.push_fits (b : Buf) (n : Nat) (h : b.len ≤ b.cap) : (b.push n).len ≤ (b.push n).cap := by
  simp only [Buf.push, Buf.reserve]; split <;> (try dsimp only) <;> omega

theorem Buf.push_nogrow (b : Buf) (n : Nat) (h : b.len + n ≤ b.cap) : (b.push n).cap = b.cap := by
  simp only [Buf.push, Buf.reserve]; split <;> (try dsimp only) <;> omega

theorem Buf.reserveExact_empty (n : Nat) : (Buf.reserveExact ⟨0, 0⟩ n) = ⟨n, 0⟩ := by
  simp only [Buf.reserveExact]; split
  · simp
  · have : n = 0 := by omega
    subst this; rfl

/-! ## `takeWhile` -/

theorem takeWhile_length_le_add_drop (p : Nat → Bool) : ∀ (l : Bytes) (m : Nat),
    (l.takeWhile p).length ≤ m + ((l.drop m).takeWhile p).length := by
  intro l
  induction l with
  | nil => intro m; simp
  | cons a r ih =>
    intro m
    cases m with
    | zero => simp
    | succ m =>
      simp only [List.takeWhile_cons, List.drop_succ_cons]
      have := ih m
      split <;> simp <;> omega

theorem takeWhile_length_mono {p r : Nat → Bool} (h : ∀ x, p x = true → r x = true) : ∀ (l : Bytes),
    (l.takeWhile p).length ≤ (l.takeWhile r).length := by
  intro l
  induction l with
  | nil => simp
  | cons a t ih =>
    simp only [List.takeWhile_cons]
    by_cases hp : p a = true
    · simp [hp, h a hp, ih]
    · simp [hp]

theorem takeWhile_length_le_of_stop (p : Nat → Bool) : ∀ (l : Bytes) (n x : Nat) (t : Bytes),
    l.drop n = x :: t → p x = false → (l.takeWhile p).length ≤ n := by
  intro l
  induction l with
  | nil => intro n x t h; simp at h
  | cons a r ih =>
    intro n x t h hx
    cases n with
    | zero =>
      simp only [List.drop_zero, List.cons.injEq] at h
      obtain ⟨rfl, _⟩ := h
      simp [hx]
    | succ n =>
      simp only [List.drop_succ_cons] at h
      have := ih n x t h hx
      simp only [List.takeWhile_cons]
      split <;> simp <;> omega

theorem min_takeWhile_le (p r : Nat → Bool) : ∀ (l : Bytes),
    min (l.takeWhile p).length (l.takeWhile r).length ≤ (l.takeWhile (fun x => p x && r x)).length := by
  intro l
  induction l with
  | nil => simp
  | cons a t ih =>
    simp only [List.takeWhile_cons]
    cases hp : p a <;> cases hr : r a <;> simp <;> omega

theorem takeWhile_length_split (p : Nat → Bool) : ∀ (l : Bytes) (m : Nat), m ≤ (l.takeWhile p).length →
    (l.takeWhile p).length = m + ((l.drop m).takeWhile p).length := by
  intro l
  induction l with
  | nil => intro m h; simp at h; subst h; simp
  | cons a t ih =>
    intro m h
    cases m with
    | zero => simp
    | succ m =>
      simp only [List.takeWhile_cons] at h ⊢
      split
      next hp =>
        simp only [hp, if_true, List.length_cons] at h
        simp only [List.length_cons, List.drop_succ_cons]
        have := ih m (by omega)
        omega
      next hp =>
        simp [hp] at h

theorem takeWhile_all {p : Nat → Bool} : ∀ {l : Bytes}, ∀ x ∈ l.takeWhile p, p x = true := by
  intro l
  induction l with
  | nil => intro x hx; simp at hx
  | cons a t ih =>
    intro x hx
    simp only [List.takeWhile_cons] at hx
    split at hx
    next hp =>
      rcases List.mem_cons.mp hx with rfl | hx
      · exact hp
      · exact ih x hx
    next => simp at hx

theorem dropWhile_nil_all {p : Nat → Bool} : ∀ {l : Bytes}, l.dropWhile p = [] → ∀ x ∈ l, p x = true := by
  intro l
  induction l with
  | nil => intro _ x hx; simp at hx
  | cons a t ih =>
    intro h x hx
    simp only [List.dropWhile_cons] at h
    split at h
    next hp =>
      rcases List.mem_cons.mp hx with rfl | hx
      · exact hp
      · exact ih h x hx
    next => simp at h

/-- the byte the `takeWhile` stops at fails the test -/
theorem dropWhile_head_not {p : Nat → Bool} {l : Bytes} {x : Nat} {t : Bytes} (h : l.dropWhile p = x :: t) :
    p x = false := by
  have := List.head?_dropWhile_not p l
  simp [h] at this; simpa using this

theorem dropWhile_length {p : Nat → Bool} {l : Bytes} {x : Nat} {t : Bytes} (h : l.dropWhile p = x :: t) :
    l.length = (l.takeWhile p).length + 1 + t.length := by
  have := congrArg List.length (List.takeWhile_append_dropWhile (p := p) (l := l))
  rw [h] at this; simp at this; omega

/-! ## the reservation -/

/-- a byte the reservation may run over: not the quote, not a line end -/
def free (q : Nat) (x : Nat) : Bool := (x != q && x != 10) && notNl x

/-- length of the run of such bytes at the head of `l` -/
def freeRun (q : Nat) (l : Bytes) : Nat := (l.takeWhile (free q)).length

theorem freeRun_le_add_drop (q : Nat) (l : Bytes) (m : Nat) : freeRun q l ≤ m + freeRun q (l.drop m) :=
  takeWhile_length_le_add_drop _ l m

theorem freeRun_le_length (q : Nat) (l : Bytes) : freeRun q l ≤ l.length :=
  takeWhile_length_le _ l

theorem freeRun_le_nl (q : Nat) (l : Bytes) : freeRun q l ≤ (l.takeWhile notNl).length :=
  takeWhile_length_mono (by intro x h; simp only [free, Bool.and_eq_true] at h; exact h.2) l

theorem freeRun_le_quote (q : Nat) (l : Bytes) (n : Nat) (t : Bytes) (h : l.drop n = q :: t) : freeRun q l ≤ n :=
  takeWhile_length_le_of_stop _ l n q t h (by simp [free])

theorem memchr2From_le (a b : Nat) (hay : Bytes) (s : Nat) : memchr2From a b hay s ≤ hay.length := by
  have := takeWhile_length_le (fun x => x != a && x != b) (hay.drop s)
  simp only [List.length_drop] at this
  simp only [memchr2From]; omega

theorem memchr2From_ge (a b : Nat) (hay : Bytes) (s : Nat) : min s hay.length ≤ memchr2From a b hay s := by
  simp only [memchr2From]; omega

theorem hintFixed_le_length (q : Nat) (body : Bytes) (qe nl : Nat) : hintFixed q body qe nl ≤ body.length := by
  have := memchr2From_le q 10 body (qe + 2)
  simp only [hintFixed]; omega

/-- **the reservation ends before the first quote or line end after the escape** -/
theorem hintFixed_le (q : Nat) (body : Bytes) (qe : Nat) :
    hintFixed q body qe (body.takeWhile notNl).length ≤ qe + 2 + freeRun q (body.drop (qe + 2)) := by
  simp only [hintFixed]
  by_cases h : (body.takeWhile notNl).length ≤ qe + 2
  · omega
  · have h1 := takeWhile_length_split notNl body (qe + 2) (by omega)
    have h2 : memchr2From q 10 body (qe + 2) ≤
        qe + 2 + ((body.drop (qe + 2)).takeWhile (fun x => x != q && x != 10)).length := by
      simp only [memchr2From]; omega
    have h3 := min_takeWhile_le (fun x => x != q && x != 10) notNl (body.drop (qe + 2))
    have h4 : freeRun q (body.drop (qe + 2)) =
        ((body.drop (qe + 2)).takeWhile (fun x => (x != q && x != 10) && notNl x)).length := rfl
    omega

/-! ## the loop after the first escape -/

/-- the only backslash `l` may contain is its last byte -/
def Tail (l : Bytes) : Prop := 92 ∉ l.dropLast

theorem Tail.of_not_mem {l : Bytes} (h : 92 ∉ l) : Tail l :=
  fun hm => h (List.dropLast_subset l hm)

theorem Tail.suffix {p l : Bytes} (h : Tail (p ++ l)) : Tail l := by
  intro hm
  apply h
  by_cases hl : l = []
  · subst hl; simp at hm
  · rw [List.dropLast_append_of_ne_nil hl]
    exact List.mem_append_right _ hm

theorem Tail.drop {l : Bytes} (h : Tail l) (k : Nat) : Tail (l.drop k) := by
  have : l = l.take k ++ l.drop k := (List.take_append_drop k l).symm
  rw [this] at h
  exact h.suffix

/-- what the loop guarantees when it is entered with a non-empty buffer -/
structure After (q : Nat) (rest : Bytes) (b : Buf) (r : BufRes) : Prop where
  owned : r.owned = true
  len_ge : b.len ≤ r.len
  cap_ge : b.cap ≤ r.cap
  cap_le : r.cap ≤ max b.cap (2 * r.len + 4)
  rest_le : r.rest.length ≤ rest.length
  /-- a regular exit (closing quote or line end): the content is no longer than what was consumed, and
  the scan got past the free run -/
  normal : r.atEof = false → r.len + r.rest.length ≤ b.len + rest.length ∧ freeRun q rest + r.rest.length ≤ rest.length
  /-- an end-of-input exit: the quote does not occur again, a backslash only as the last byte -/
  eof : r.atEof = true → q ∉ r.rest ∧ Tail r.rest ∧ r.len ≤ b.len + rest.length

theorem not_mem_of_dropWhile_nil {q : Nat} {rest : Bytes} (h : rest.dropWhile (notQuoteEsc q) = []) :
    q ∉ rest ∧ 92 ∉ rest := by
  have h := dropWhile_nil_all h
  constructor
  · intro hm; have := h q hm; simp [notQuoteEsc] at this
  · intro hm; have := h 92 hm; simp [notQuoteEsc] at this

theorem bufLoop_after (hint : Nat → Bytes → Nat → Nat → Nat) (q : Nat) : ∀ (f : Nat) (rest : Bytes) (off : Nat) (b : Buf),
    rest.length < f → 1 ≤ b.len → After q rest b (bufLoop hint q f rest off true b) := by
  intro f
  induction f with
  | zero => intro rest off b h; om
  | succ f ih =>
    intro rest off b hf hb
    have hb0 : (b.len == 0) = false := by simp; om
    simp only [bufLoop]
    split
    next hnl =>
      -- line end
      have h1 := freeRun_le_nl q rest
      have h2 := takeWhile_length_le notNl rest
      refine ⟨rfl, Nat.le_refl _, Nat.le_refl _, by om, by simp, ?_, by simp⟩
      intro _
      simp only [List.length_drop]; om
    next hnl =>
      split
      next hdw =>
        have := not_mem_of_dropWhile_nil hdw
        refine ⟨rfl, Nat.le_refl _, Nat.le_refl _, by om, Nat.le_refl _, by simp, ?_⟩
        intro _
        exact ⟨this.1, Tail.of_not_mem this.2, by om⟩
      next x after hdw =>
        have hlen := dropWhile_length hdw
        have hdrop : rest.drop (rest.takeWhile (notQuoteEsc q)).length = x :: after := by
          rw [← dropWhile_eq_drop]; exact hdw
        split
        next hx =>
          -- closing quote
          have hxq : x = q := by simpa using hx
          subst hxq
          have hfr := freeRun_le_quote x rest _ after hdrop
          have hpl := Buf.push_len b (rest.takeWhile (notQuoteEsc x)).length
          have hpc := Buf.push_cap_le b (rest.takeWhile (notQuoteEsc x)).length
          have hpg := Buf.push_cap_ge b (rest.takeWhile (notQuoteEsc x)).length
          simp only [Bool.true_and]
          split
          next hpos =>
            have hpos' : 0 < (rest.takeWhile (notQuoteEsc x)).length := by simpa using hpos
            refine ⟨rfl, by om, hpg, ?_, by om, ?_, by simp⟩
            · have := hpc (Or.inr (by om)); om
            · intro _; om
          next hpos =>
            refine ⟨rfl, Nat.le_refl _, Nat.le_refl _, by om, by om, ?_, by simp⟩
            intro _; om
        next hx =>
          -- backslash
          simp only [hb0, Bool.false_eq_true, if_false]
          -- the run before the backslash
          have hb1 : ∃ b1 : Buf, (if 0 < (rest.takeWhile (notQuoteEsc q)).length then b.push (rest.takeWhile (notQuoteEsc q)).length else b) = b1 ∧
              b1.len = b.len + (rest.takeWhile (notQuoteEsc q)).length ∧ b.cap ≤ b1.cap ∧
              b1.cap ≤ max b.cap (2 * b1.len + 4) := by
            refine ⟨_, rfl, ?_⟩
            split
            next hpos =>
              have := Buf.push_cap_le b (rest.takeWhile (notQuoteEsc q)).length (Or.inr (by om))
              rw [Buf.push_len]
              exact ⟨rfl, Buf.push_cap_ge _ _, this⟩
            next hpos => exact ⟨by om, Nat.le_refl _, by om⟩
          obtain ⟨b1, hb1e, hb1l, hb1g, hb1c⟩ := hb1
          rw [hb1e]
          split
          next =>
            -- backslash is the last byte
            refine ⟨rfl, by om, hb1g, hb1c, Nat.le_refl _, by simp, ?_⟩
            intro _
            have hr : rest = rest.takeWhile (notQuoteEsc q) ++ [x] := by
              have := (List.takeWhile_append_dropWhile (p := notQuoteEsc q) (l := rest)).symm
              rw [hdw] at this; exact this
            have hall : ∀ y ∈ rest.takeWhile (notQuoteEsc q), y ≠ q ∧ y ≠ 92 := by
              intro y hy
              have := takeWhile_all y hy
              simpa [notQuoteEsc] using this
            refine ⟨?_, ?_, by simp only [List.length_nil] at hlen; om⟩
            · intro hm
              rw [hr] at hm
              rcases List.mem_append.mp hm with hm | hm
              · exact (hall q hm).1 rfl
              · simp at hm; subst hm; simp at hx
            · intro hm
              rw [hr, List.dropLast_concat] at hm
              exact (hall 92 hm).2 rfl
          next e tl =>
            have hrest : ∀ k, ((e :: tl).drop k).length = rest.length - ((rest.takeWhile (notQuoteEsc q)).length + 1 + k) := by
              intro k; simp only [List.length_drop]; simp only [List.length_cons] at hlen ⊢; om
            have hdk : ∀ k, (e :: tl).drop k = rest.drop ((rest.takeWhile (notQuoteEsc q)).length + 1 + k) := by
              intro k
              have : e :: tl = rest.drop ((rest.takeWhile (notQuoteEsc q)).length + 1) := by
                rw [← List.drop_drop, hdrop]; rfl
              rw [this, List.drop_drop]
            -- one more escape: `p` bytes pushed, `1 + k` consumed, `1 ≤ p ≤ k`
            have key : ∀ (k p off' : Nat), 1 ≤ p → p ≤ k → p ≤ (e :: tl).length →
                After q rest b (bufLoop hint q f ((e :: tl).drop k) off' true (b1.push p)) := by
              intro k p off' hp1 hpk hpl
              have hr := hrest k
              have hA := ih ((e :: tl).drop k) off' (b1.push p) (by om) (by rw [Buf.push_len]; om)
              have hpl' := Buf.push_len b1 p
              have hpc := Buf.push_cap_le b1 p (Or.inr (by om))
              have hpg := Buf.push_cap_ge b1 p
              have hfr := freeRun_le_add_drop q rest ((rest.takeWhile (notQuoteEsc q)).length + 1 + k)
              rw [← hdk k] at hfr
              have hfl := freeRun_le_length q rest
              refine ⟨hA.owned, ?_, ?_, ?_, ?_, ?_, ?_⟩
              · have := hA.len_ge; om
              · have := hA.cap_ge; om
              · have := hA.cap_le; have := hA.len_ge; om
              · have := hA.rest_le; om
              · intro hn
                have := hA.normal hn
                have := hA.rest_le
                omega
              · intro he
                have := hA.eof he
                exact ⟨this.1, this.2.1, by om⟩
            split
            next y hy => exact key 1 1 _ (Nat.le_refl _) (Nat.le_refl _) (by simp)
            next hnone =>
              have hk : 1 ≤ charLen e := Utf8.charLen_pos e
              refine key (charLen e) ((e :: tl).take (charLen e)).length _ ?_ ?_ ?_
              · simp only [List.length_take, List.length_cons]; om
              · simp only [List.length_take]; om
              · simp only [List.length_take]; om

/-! ## the whole token -/

/-- the byte a `memchr2(quote, '\\')` stops at, if it is not the quote, is the backslash -/
theorem stop_is_backslash {q x : Nat} {rest after : Bytes} (h : rest.dropWhile (notQuoteEsc q) = x :: after)
    (hx : (x == q) = false) : x = 92 := by
  have := dropWhile_head_not h
  simp only [notQuoteEsc, Bool.and_eq_false_iff, bne_eq_false_iff_eq] at this
  rcases this with h1 | h1
  · simp [h1] at hx
  · exact h1

/-- what holds of the buffer of a whole string token (`body` = the text after the opening quote) -/
structure First (q : Nat) (body : Bytes) (r : BufRes) : Prop where
  rest_le : r.rest.length ≤ body.length
  /-- no escape: nothing was reserved -/
  borrowed : r.owned = false → r.cap = 0
  /-- regular exit: at most twice the extent of the token (opening quote included) -/
  normal : r.owned = true → r.atEof = false → r.cap ≤ 2 * (1 + body.length - r.rest.length)
  /-- end-of-input exit: at most twice what is left of the source, and the quote is used up -/
  eof : r.owned = true → r.atEof = true → r.cap ≤ 2 * (1 + body.length) ∧ q ∉ r.rest ∧ Tail r.rest
  /-- when the only backslash is the last byte of the source, the reservation is exact -/
  tail : r.owned = true → Tail body → r.atEof = true ∧ r.cap ≤ body.length

theorem bufLoop_first (q : Nat) (f : Nat) (body : Bytes) (hf : body.length < f) :
    First q body (bufLoop hintFixed q f body 0 false ⟨0, 0⟩) := by
  cases f with
  | zero => omega
  | succ f =>
    simp only [bufLoop]
    split
    next hnl =>
      exact ⟨by simp, fun _ => rfl, by simp, by simp, by simp⟩
    next hnl =>
      split
      next hdw => exact ⟨by simp, fun _ => rfl, by simp, by simp, by simp⟩
      next x after hdw =>
        have hlen := dropWhile_length hdw
        have hdrop : body.drop (body.takeWhile (notQuoteEsc q)).length = x :: after := by
          rw [← dropWhile_eq_drop]; exact hdw
        split
        next hx =>
          simp only [Bool.false_and, Bool.false_eq_true, if_false]
          exact ⟨by om, fun _ => rfl, by simp, by simp, by simp⟩
        next hx =>
          have hx' : (x == q) = false := by simpa using hx
          have hx92 := stop_is_backslash hdw hx'
          subst hx92
          -- the reservation covers the run before the backslash and the backslash
          have hnlgt : (body.takeWhile (notQuoteEsc q)).length < (body.takeWhile notNl).length := by
            rcases Nat.lt_or_ge (body.takeWhile (notQuoteEsc q)).length (body.takeWhile notNl).length with h | h
            · exact h
            · have he : (body.takeWhile notNl).length = (body.takeWhile (notQuoteEsc q)).length := by omega
              have h2 : body.dropWhile notNl = 92 :: after := by rw [dropWhile_eq_drop, he]; exact hdrop
              have := dropWhile_head_not h2
              simp [notNl] at this
          have hm := memchr2From_ge q 10 body ((body.takeWhile (notQuoteEsc q)).length + 2)
          have hhl := hintFixed_le_length q body (body.takeWhile (notQuoteEsc q)).length (body.takeWhile notNl).length
          have hge : (body.takeWhile (notQuoteEsc q)).length + 1 ≤
              hintFixed q body (body.takeWhile (notQuoteEsc q)).length (body.takeWhile notNl).length := by
            simp only [hintFixed]; omega
          simp only [Nat.zero_add, BEq.rfl, if_true, Buf.reserveExact_empty]
          have hb1 : ∃ b1 : Buf, Buf.push ⟨hintFixed q body (body.takeWhile (notQuoteEsc q)).length (body.takeWhile notNl).length, 0⟩
                (body.takeWhile (notQuoteEsc q)).length = b1 ∧
              b1.cap = hintFixed q body (body.takeWhile (notQuoteEsc q)).length (body.takeWhile notNl).length ∧
              b1.len = (body.takeWhile (notQuoteEsc q)).length := by
            refine ⟨_, rfl, ?_, ?_⟩
            · rw [Buf.push_nogrow]; om
            · rw [Buf.push_len]; om
          obtain ⟨b1, hb1e, hb1c, hb1l⟩ := hb1
          rw [hb1e]
          have hbody : body = body.takeWhile (notQuoteEsc q) ++ 92 :: after := by
            have := (List.takeWhile_append_dropWhile (p := notQuoteEsc q) (l := body)).symm
            rw [hdw] at this; exact this
          have hall : ∀ y ∈ body.takeWhile (notQuoteEsc q), y ≠ q ∧ y ≠ 92 := by
            intro y hy
            have := takeWhile_all y hy
            simpa [notQuoteEsc] using this
          split
          next =>
            -- the first backslash is the last byte
            have hq : q ∉ body := by
              intro hmem
              rw [hbody] at hmem
              rcases List.mem_append.mp hmem with hmem | hmem
              · exact (hall q hmem).1 rfl
              · simp at hmem; subst hmem; simp at hx'
            have ht : Tail body := by
              intro hmem
              rw [hbody, List.dropLast_concat] at hmem
              exact (hall 92 hmem).2 rfl
            refine ⟨by om, by simp, by simp, ?_, ?_⟩
            · intro _ _; exact ⟨by om, hq, ht⟩
            · intro _ _; exact ⟨rfl, by om⟩
          next e tl =>
            have hrest : ∀ k, ((e :: tl).drop k).length = body.length - ((body.takeWhile (notQuoteEsc q)).length + 1 + k) := by
              intro k; simp only [List.length_drop]; simp only [List.length_cons] at hlen ⊢; omega
            have hdk : ∀ k, (e :: tl).drop k = body.drop ((body.takeWhile (notQuoteEsc q)).length + 1 + k) := by
              intro k
              have : e :: tl = body.drop ((body.takeWhile (notQuoteEsc q)).length + 1) := by
                rw [← List.drop_drop, hdrop]; rfl
              rw [this, List.drop_drop]
            have hnt : ¬ Tail body := by
              intro ht
              apply ht
              rw [hbody, List.dropLast_append_of_ne_nil (by simp)]
              apply List.mem_append_right
              simp
            have hgeo := hintFixed_le q body (body.takeWhile (notQuoteEsc q)).length
            have key : ∀ (k p off' : Nat), 1 ≤ p → p ≤ k → p ≤ (e :: tl).length →
                First q body (bufLoop hintFixed q f ((e :: tl).drop k) off' true (b1.push p)) := by
              intro k p off' hp1 hpk hpl
              have hr := hrest k
              have hA := bufLoop_after hintFixed q f ((e :: tl).drop k) off' (b1.push p) (by omega)
                (by rw [Buf.push_len]; omega)
              have hpl' := Buf.push_len b1 p
              have hpc := Buf.push_cap_le b1 p (Or.inl (by omega))
              have hfr := freeRun_le_add_drop q (body.drop ((body.takeWhile (notQuoteEsc q)).length + 2)) (k - 1)
              rw [List.drop_drop, show (body.takeWhile (notQuoteEsc q)).length + 2 + (k - 1) =
                (body.takeWhile (notQuoteEsc q)).length + 1 + k by omega, ← hdk k] at hfr
              have h1 := hA.cap_le
              have h2 := hA.len_ge
              have h3 := hA.rest_le
              simp only [List.length_cons] at hpl hlen
              refine ⟨by omega, ?_, ?_, ?_, ?_⟩
              · intro h; rw [hA.owned] at h; cases h
              · intro _ hn
                have := hA.normal hn
                omega
              · intro _ he
                have := hA.eof he
                exact ⟨by omega, this.1, this.2.1⟩
              · intro _ ht; exact absurd ht hnt
            split
            next y hy => exact key 1 1 _ (Nat.le_refl _) (Nat.le_refl _) (by simp)
            next hnone =>
              have hk : 1 ≤ charLen e := Utf8.charLen_pos e
              refine key (charLen e) ((e :: tl).take (charLen e)).length _ ?_ ?_ ?_
              · simp only [List.length_take, List.length_cons]; omega
              · simp only [List.length_take]; omega
              · simp only [List.length_take]; omega

end NaijaVerif.Lex
