import NaijaVerif.Lemmas.ParseFuel
import NaijaVerif.Lemmas.ParseDefs
/-
Parsing commutes with span erasure (property C10, parser part): the parser's decisions depend on
the token kinds only.  `eraseSt` maps a parser state to the state over the span-erased tokens (and
the span-erased diagnostics emitted so far); every helper and every one of the mutually recursive
parse functions maps erased states to erased results.

Proof method.  The commutation lemmas are stated with `eraseSt` pushed *inward*
(`eraseSt (st.expect t k sp) = (eraseSt st).expect t k zspan`: every span argument on the erased
side is the literal `zspan`).  One step of a parse function is proved by unfolding it on both sides,
splitting the un-erased run along every `match`/`if` (`psplit`), normalising the erased run with
`erase_out` (which moves `eraseSt` *outward* over `bump`/`take`/`sync` and the helpers so that the
induction hypotheses and the facts of the un-erased run rewrite it), and leaving to `grind` the
places where an emitted diagnostic carries a span (there the un-erased span has to be found by
matching against the un-erased run, which congruence closure does and rewriting cannot).
-/
namespace NaijaVerif.Parse
open NaijaVerif

/-! ### State primitives -/

@[simp, grind =] theorem zspan_lo : zspan.lo = 0 := rfl
@[simp, grind =] theorem zspan_hi : zspan.hi = 0 := rfl
@[simp, grind =] theorem zspan_mk : (⟨0, 0⟩ : Span) = zspan := rfl

@[simp, grind =] theorem eraseTok_tok (t : SpTok) : (eraseTok t).tok = t.tok := rfl
@[simp, grind =] theorem eraseTok_span (t : SpTok) : (eraseTok t).span = zspan := rfl
@[simp, grind =] theorem eraseSt_cur (st : PState) : (eraseSt st).cur = eraseTok st.cur := rfl
@[simp] theorem eraseSt_rest (st : PState) : (eraseSt st).rest = st.rest.map eraseTok := rfl
@[simp] theorem eraseSt_errs (st : PState) : (eraseSt st).errs = st.errs.map eraseDiag := rfl
theorem eraseSt_cur_tok (st : PState) : (eraseSt st).cur.tok = st.cur.tok := rfl
theorem eraseSt_cur_span (st : PState) : (eraseSt st).cur.span = zspan := rfl

@[simp] theorem eraseTok_eofAt (p : Nat) : eraseTok (eofAt p) = eofAt 0 := rfl

@[simp, grind =] theorem eraseSt_bump (st : PState) : eraseSt st.bump = (eraseSt st).bump := by
  unfold PState.bump
  cases h : st.rest with
  | nil => simp [eraseSt, h]
  | cons t ts => simp [eraseSt, h]

@[simp, grind =] theorem eraseSt_err (st : PState) (k : DiagKind) (sp : Span) (labels : List Span) :
    eraseSt (st.err k sp labels) = (eraseSt st).err k zspan (labels.map fun _ => zspan) := by
  simp [eraseSt, PState.err, eraseDiag]

@[simp, grind =] theorem eraseSt_err1 (st : PState) (k : DiagKind) (sp : Span) :
    eraseSt (st.err1 k sp) = (eraseSt st).err1 k zspan := by
  simp [PState.err1]

@[simp, grind =] theorem eraseSt_take (st : PState) : eraseSt st.take = (eraseSt st).take := rfl

@[simp, grind =] theorem eraseSt_expect (st : PState) (t : Tok) (k : DiagKind) (sp : Span) :
    eraseSt (st.expect t k sp) = (eraseSt st).expect t k zspan := by
  unfold PState.expect
  by_cases h : (st.cur.tok == t) = true <;> simp [h]

theorem syncGo_erase : ∀ (rest : List SpTok) (cur : SpTok),
    syncGo (eraseTok cur) (rest.map eraseTok)
      = (eraseTok (syncGo cur rest).1, (syncGo cur rest).2.map eraseTok) := by
  intro rest
  induction rest with
  | nil => intro cur; by_cases h : isSync cur.tok = true <;> simp [syncGo, h]
  | cons t ts ih =>
    intro cur
    by_cases h : isSync cur.tok = true <;> simp [syncGo, h, ih]

@[simp, grind =] theorem eraseSt_sync (st : PState) : eraseSt st.sync = (eraseSt st).sync := by
  simp [PState.sync, eraseSt, syncGo_erase]

theorem eraseSt_init (toks : List SpTok) : eraseSt (PState.init toks) = PState.init (toks.map eraseTok) := by
  cases toks <;> rfl

/-! ### Expression helpers -/

@[simp, grind =] theorem eraseExpr_span (e : Expr) : (eraseExpr e).span = zspan := by
  cases e <;> simp [eraseExpr, Expr.span]

@[simp, grind =] theorem atomOf_erase (t : SpTok) : atomOf (eraseTok t) = (atomOf t).map eraseExpr := by
  unfold atomOf
  simp only [eraseTok_tok, eraseTok_span]
  split <;> simp [eraseExpr]

@[grind =] theorem parseField_erase (st : PState) :
    parseField (eraseSt st) = ((parseField st).1, zspan, eraseSt (parseField st).2.2) := by
  unfold parseField
  simp only [eraseSt_cur, eraseTok_tok, eraseTok_span]
  split
  · simp
  · split <;> simp

@[grind =] theorem closeBracket_erase (st : PState) :
    closeBracket (eraseSt st) = (0, eraseSt (closeBracket st).2) := by
  unfold closeBracket
  by_cases h : (st.cur.tok == Tok.rbracket) = true <;> simp [h]

/-- The result map of the expression parsers. -/
abbrev erE (r : Expr × PState) : Expr × PState := (eraseExpr r.1, eraseSt r.2)
abbrev erEs (r : List Expr × PState) : List Expr × PState := (eraseExprs r.1, eraseSt r.2)

theorem ite_elems_erase (c : Prop) [Decidable c] (st : PState) (o : Option (List Expr × PState)) :
    (if c then some ([], eraseSt st) else Option.map erEs o)
      = Option.map erEs (if c then some ([], st) else o) := by
  split <;> simp [eraseExprs]

/-- Normalise the erased side: `eraseSt` moves outward over the span-free state operations. -/
macro "erase_out" "[" ts:Lean.Parser.Tactic.simpLemma,* "]" : tactic =>
  `(tactic| simp only [eraseSt_cur, eraseTok_tok, eraseTok_span, zspan_lo, zspan_hi, eraseExpr_span,
      atomOf_erase, zspan_mk, Option.map_some, Option.map_none, ← eraseSt_bump, ← eraseSt_take,
      ← eraseSt_sync, parseField_erase, closeBracket_erase, ite_elems_erase, ↓reduceIte, Bool.false_eq_true, $ts,*, *])

theorem elems_step (f : Nat)
    (ihe : ∀ bp st, parseExpr f bp (eraseSt st) = (parseExpr f bp st).map erE)
    (ihl : ∀ c st, parseElems f c (eraseSt st) = (parseElems f c st).map erEs) :
    ∀ c st, parseElems (f+1) c (eraseSt st) = (parseElems (f+1) c st).map erEs := by
  intro c st
  cases h : parseElems (f+1) c st with
  | none =>
    rw [parseElems] at h ⊢
    psplit h
    all_goals (try erase_out [ihe, ihl])
    all_goals grind [eraseExpr, eraseExprs]
  | some r =>
    obtain ⟨r1, r2⟩ := r
    rw [parseElems] at h ⊢
    psplit h
    all_goals (try erase_out [ihe, ihl])
    all_goals grind [eraseExpr, eraseExprs]

theorem cont_step (f : Nat)
    (ihe : ∀ bp st, parseExpr f bp (eraseSt st) = (parseExpr f bp st).map erE)
    (ihc : ∀ bp l st, parseCont f bp (eraseExpr l) (eraseSt st) = (parseCont f bp l st).map erE)
    (ihl : ∀ c st, parseElems f c (eraseSt st) = (parseElems f c st).map erEs) :
    ∀ bp l st, parseCont (f+1) bp (eraseExpr l) (eraseSt st) = (parseCont (f+1) bp l st).map erE := by
  intro bp l st
  cases h : parseCont (f+1) bp l st with
  | none =>
    rw [parseCont] at h ⊢
    psplit h
    all_goals (try erase_out [ihe, ihc, ihl])
    all_goals grind [eraseExpr, eraseExprs]
  | some r =>
    obtain ⟨r1, r2⟩ := r
    rw [parseCont] at h ⊢
    psplit h
    all_goals (try erase_out [ihe, ihc, ihl])
    all_goals grind [eraseExpr, eraseExprs]

theorem expr_step (f : Nat)
    (ihe : ∀ bp st, parseExpr f bp (eraseSt st) = (parseExpr f bp st).map erE)
    (ihc : ∀ bp l st, parseCont f bp (eraseExpr l) (eraseSt st) = (parseCont f bp l st).map erE)
    (ihl : ∀ c st, parseElems f c (eraseSt st) = (parseElems f c st).map erEs) :
    ∀ bp st, parseExpr (f+1) bp (eraseSt st) = (parseExpr (f+1) bp st).map erE := by
  intro bp st
  cases h : parseExpr (f+1) bp st with
  | none =>
    rw [parseExpr] at h ⊢
    psplit h
    all_goals (try erase_out [ihe, ihc, ihl])
    all_goals grind [eraseExpr, eraseExprs]
  | some r =>
    obtain ⟨r1, r2⟩ := r
    rw [parseExpr] at h ⊢
    psplit h
    all_goals (try erase_out [ihe, ihc, ihl])
    all_goals grind [eraseExpr, eraseExprs]

/-- Expression parsing commutes with span erasure. -/
theorem expr_erase : ∀ f,
    (∀ bp st, parseExpr f bp (eraseSt st)
        = (parseExpr f bp st).map (fun r => (eraseExpr r.1, eraseSt r.2))) ∧
    (∀ bp l st, parseCont f bp (eraseExpr l) (eraseSt st)
        = (parseCont f bp l st).map (fun r => (eraseExpr r.1, eraseSt r.2))) ∧
    (∀ c st, parseElems f c (eraseSt st)
        = (parseElems f c st).map (fun r => (eraseExprs r.1, eraseSt r.2))) := by
  intro f
  induction f with
  | zero => simp [parseExpr, parseCont, parseElems]
  | succ f ih =>
    obtain ⟨ihe, ihc, ihl⟩ := ih
    exact ⟨expr_step f ihe ihc ihl, cont_step f ihe ihc ihl, elems_step f ihe ihl⟩

/-! ### Statement helpers -/

theorem nameOrPlaceholder_erase (st : PState) (sp : Span) :
    nameOrPlaceholder (eraseSt st) zspan
      = ((nameOrPlaceholder st sp).1, eraseSt (nameOrPlaceholder st sp).2) := by
  unfold nameOrPlaceholder
  simp only [eraseSt_cur, eraseTok_tok, eraseTok_span]
  split
  · simp
  · split <;> simp

theorem paramStep_erase (st : PState) :
    paramStep (eraseSt st) = (paramStep st).map (fun r => (eraseParam r.1, eraseSt r.2)) := by
  unfold paramStep
  simp only [eraseSt_cur, eraseTok_tok, eraseTok_span]
  split
  · simp [eraseParam]
  · split <;> simp [eraseParam]

theorem paramStep_erase' (cur : SpTok) (rest : List SpTok) (errs : List Diag) :
    paramStep ⟨eraseTok cur, rest.map eraseTok, errs.map eraseDiag⟩
      = (paramStep ⟨cur, rest, errs⟩).map (fun r => (eraseParam r.1, eraseSt r.2)) :=
  paramStep_erase ⟨cur, rest, errs⟩

theorem paramsGo_erase (cur : SpTok) (errs : List Diag) (rest : List SpTok) :
    paramsGo (eraseTok cur) (errs.map eraseDiag) (rest.map eraseTok)
      = ((paramsGo cur errs rest).1.map eraseParam, eraseSt (paramsGo cur errs rest).2) := by
  fun_induction paramsGo cur errs rest with
  | case1 cur errs h => 
    have := paramStep_erase' cur [] errs
    simp [h] at this
    simp [paramsGo, this, eraseSt]
  | case2 cur errs p st h => 
    have := paramStep_erase' cur [] errs
    simp [h] at this
    simp [paramsGo, this]
  | case3 cur errs t h =>
    have := paramStep_erase' cur [t] errs
    simp [h] at this
    simp [paramsGo, this, eraseSt]
  | case4 cur errs t p st h st1 hcomma =>
    have := paramStep_erase' cur [t] errs
    simp [h] at this
    have hc : ((eraseSt st).bump.cur.tok == Tok.comma) = true := by
      rw [← eraseSt_bump]; exact hcomma
    simp [paramsGo, this, hc, st1]
  | case5 cur errs t p st h st1 hcomma =>
    have := paramStep_erase' cur [t] errs
    simp [h] at this
    have hc : ¬ ((eraseSt st).bump.cur.tok == Tok.comma) = true := by
      rw [← eraseSt_bump]; exact hcomma
    simp [paramsGo, this, hc, st1]
  | case6 cur errs t u us h =>
    have := paramStep_erase' cur (t :: u :: us) errs
    simp [h] at this
    simp [paramsGo, this, eraseSt]
  | case7 cur errs t u us p st h hcomma r ih =>
    have := paramStep_erase' cur (t :: u :: us) errs
    simp [h] at this
    simp [paramsGo, this, hcomma, ih, r]
  | case8 cur errs t u us p st h hcomma =>
    have := paramStep_erase' cur (t :: u :: us) errs
    simp [h] at this
    simp [paramsGo, this, hcomma]

theorem parseParams_erase (st : PState) :
    parseParams (eraseSt st) = ((parseParams st).1.map eraseParam, eraseSt (parseParams st).2) :=
  paramsGo_erase st.cur st.errs st.rest

/-- Span erasure of a function header. -/
def eraseHdr (h : FnHeader) : FnHeader :=
  { name := h.name, doSpan := zspan, rparenSpan := zspan, startSpan := zspan,
    params := h.params.map eraseParam }

theorem parseFnHeader_erase (start : Nat) (st : PState) :
    parseFnHeader 0 (eraseSt st)
      = (eraseHdr (parseFnHeader start st).1, eraseSt (parseFnHeader start st).2) := by
  unfold parseFnHeader
  simp only [eraseSt_cur, eraseTok_span, ← eraseSt_bump, zspan_hi]
  rw [nameOrPlaceholder_erase st.bump st.cur.span]
  generalize nameOrPlaceholder st.bump st.cur.span = q
  obtain ⟨name, s2⟩ := q
  simp only [← eraseSt_bump, eraseSt_cur, eraseTok_span, zspan_hi, zspan_mk]
  rw [← eraseSt_expect s2.bump .lparen .expectedLParen ⟨start, st.bump.cur.span.hi⟩]
  rw [parseParams_erase]
  generalize parseParams (s2.bump.expect .lparen .expectedLParen ⟨start, st.bump.cur.span.hi⟩) = q
  obtain ⟨ps, s4⟩ := q
  simp only [eraseSt_cur, eraseTok_span, zspan_hi, zspan_mk, eraseHdr, eraseSt_expect]
  have hsp : ∀ s : PState, ((eraseSt s).expect .rparen .expectedRParen zspan).cur.span = zspan := by
    intro s; rw [← eraseSt_expect s .rparen .expectedRParen zspan]; rfl
  rw [List.getLast?_map]
  cases ps.getLast? <;> simp [eraseParam, hsp]

theorem parseMakeHeader_erase (st : PState) :
    parseMakeHeader (eraseSt st)
      = ((parseMakeHeader st).1, zspan, eraseSt (parseMakeHeader st).2.2) := by
  unfold parseMakeHeader
  simp only [← eraseSt_bump, eraseSt_cur, eraseTok_tok, eraseTok_span]
  split
  · simp
  · split <;> simp

theorem openCond_erase (sp : Span) (st : PState) :
    openCond zspan (eraseSt st) = eraseSt (openCond sp st) := by
  simp [openCond]

theorem closeCond_erase (start : Nat) (c : Expr) (st : PState) :
    closeCond 0 (eraseExpr c) (eraseSt st) = (zspan, eraseSt (closeCond start c st).2) := by
  unfold closeCond
  simp only [eraseSt_cur, eraseTok_span, eraseExpr_span, zspan_hi, zspan_mk, eraseSt_expect]
  have hsp : ∀ s : PState, ((eraseSt s).expect .rparen .expectedRParen zspan).cur.span = zspan := by
    intro s; rw [← eraseSt_expect s .rparen .expectedRParen zspan]; rfl
  simp [hsp]

theorem finishAssign_erase (start : Nat) (t v : Expr) (st : PState) :
    finishAssign 0 (eraseExpr t) (eraseExpr v) (eraseSt st)
      = (eraseStmt (finishAssign start t v st).1, eraseSt (finishAssign start t v st).2) := by
  unfold finishAssign
  cases t <;> simp [eraseExpr, eraseStmt]

/-! ### Statements -/

abbrev erS (r : Stmt × PState) : Stmt × PState := (eraseStmt r.1, eraseSt r.2)
abbrev erSs (r : List Stmt × PState) : List Stmt × PState := (eraseStmts r.1, eraseSt r.2)
abbrev erB (r : Block × PState) : Block × PState := (eraseBlock r.1, eraseSt r.2)

theorem stmt_step (f : Nat)
    (ihb : ∀ st, parseBlock f (eraseSt st) = (parseBlock f st).map erB) :
    ∀ st, parseStmt (f+1) (eraseSt st) = (parseStmt (f+1) st).map erS := by
  intro st
  have ihe : ∀ bp st, parseExpr f bp (eraseSt st) = (parseExpr f bp st).map erE := (expr_erase f).1
  have ihc : ∀ bp l st, parseCont f bp (eraseExpr l) (eraseSt st) = (parseCont f bp l st).map erE :=
    (expr_erase f).2.1
  have hvar : ∀ v, Expr.var v none zspan = eraseExpr (.var v none st.cur.span) := by
    intro v; simp [eraseExpr]
  cases h : parseStmt (f+1) st with
  | none =>
    rw [parseStmt] at h ⊢
    psplit h
    all_goals (try erase_out [ihe, ihc, ihb, parseFnHeader_erase st.cur.span.lo st, parseMakeHeader_erase,
      openCond_erase st.cur.span st.bump, closeCond_erase st.cur.span.lo, finishAssign_erase st.cur.span.lo,
      hvar, eraseHdr])
    all_goals grind [eraseExpr, eraseStmt, eraseStmts, eraseBlock]
  | some r =>
    obtain ⟨r1, r2⟩ := r
    rw [parseStmt] at h ⊢
    psplit h
    all_goals (try erase_out [ihe, ihc, ihb, parseFnHeader_erase st.cur.span.lo st, parseMakeHeader_erase,
      openCond_erase st.cur.span st.bump, closeCond_erase st.cur.span.lo, finishAssign_erase st.cur.span.lo,
      hvar, eraseHdr])
    all_goals grind [eraseExpr, eraseStmt, eraseStmts, eraseBlock]

theorem stmts_step (f : Nat)
    (ihs : ∀ st, parseStmt f (eraseSt st) = (parseStmt f st).map erS)
    (ihl : ∀ st, parseStmts f (eraseSt st) = (parseStmts f st).map erSs) :
    ∀ st, parseStmts (f+1) (eraseSt st) = (parseStmts (f+1) st).map erSs := by
  intro st
  cases h : parseStmts (f+1) st with
  | none =>
    rw [parseStmts] at h ⊢
    psplit h
    all_goals (try erase_out [ihs, ihl])
    all_goals grind [eraseStmts]
  | some r =>
    obtain ⟨r1, r2⟩ := r
    rw [parseStmts] at h ⊢
    psplit h
    all_goals (try erase_out [ihs, ihl])
    all_goals grind [eraseStmts]

theorem block_step (f : Nat)
    (ihl : ∀ st, parseStmts f (eraseSt st) = (parseStmts f st).map erSs) :
    ∀ st, parseBlock (f+1) (eraseSt st) = (parseBlock (f+1) st).map erB := by
  intro st
  cases h : parseBlock (f+1) st with
  | none =>
    rw [parseBlock] at h ⊢
    psplit h
    all_goals (try erase_out [ihl])
    all_goals grind [eraseBlock]
  | some r =>
    obtain ⟨r1, r2⟩ := r
    rw [parseBlock] at h ⊢
    psplit h
    all_goals (try erase_out [ihl])
    all_goals grind [eraseBlock]

/-- Statement parsing commutes with span erasure. -/
theorem stmt_erase : ∀ f,
    (∀ st, parseStmt f (eraseSt st)
        = (parseStmt f st).map (fun r => (eraseStmt r.1, eraseSt r.2))) ∧
    (∀ st, parseStmts f (eraseSt st)
        = (parseStmts f st).map (fun r => (eraseStmts r.1, eraseSt r.2))) ∧
    (∀ st, parseBlock f (eraseSt st)
        = (parseBlock f st).map (fun r => (eraseBlock r.1, eraseSt r.2))) := by
  intro f
  induction f with
  | zero => simp [parseStmt, parseStmts, parseBlock]
  | succ f ih =>
    obtain ⟨ihs, ihl, ihb⟩ := ih
    exact ⟨stmt_step f ihb, stmts_step f ihs ihl, block_step f ihl⟩

/-- The top-level statement loop commutes with span erasure. -/
theorem top_erase : ∀ f st, parseTopStmts f (eraseSt st)
    = (parseTopStmts f st).map (fun r => (eraseStmts r.1, eraseSt r.2)) := by
  intro f
  induction f with
  | zero => simp [parseTopStmts]
  | succ f ih =>
    intro st
    have ihs : ∀ st, parseStmt f (eraseSt st) = (parseStmt f st).map erS := (stmt_erase f).1
    cases h : parseTopStmts (f+1) st with
    | none =>
      rw [parseTopStmts] at h ⊢
      psplit h
      all_goals (try erase_out [ihs, ih])
      all_goals grind [eraseStmts]
    | some r =>
      obtain ⟨r1, r2⟩ := r
      rw [parseTopStmts] at h ⊢
      psplit h
      all_goals (try erase_out [ihs, ih])
      all_goals grind [eraseStmts]

/-! ### Programs -/

/-- `parse_program` with explicit fuel commutes with span erasure (for every fuel, including
    too little). -/
theorem parseProgramFuel_erase (f : Nat) (toks : List SpTok) :
    parseProgramFuel f (toks.map eraseTok)
      = (parseProgramFuel f toks).map (fun r => (eraseSpans r.1, r.2.map eraseDiag)) := by
  unfold parseProgramFuel
  simp only [← eraseSt_init, top_erase]
  cases h : parseTopStmts f (PState.init toks) with
  | none => simp
  | some r =>
    obtain ⟨ss, st1⟩ := r
    by_cases hc : (st1.cur.tok != Tok.eof) = true <;>
      simp [hc, eraseBlock, PState.err, eraseDiag]

theorem fuelFor_erase (toks : List SpTok) : fuelFor (toks.map eraseTok) = fuelFor toks := by
  simp [fuelFor]

/-- `parse_program` commutes with span erasure. -/
theorem parseProgram_erase (toks : List SpTok) :
    parseProgram (toks.map eraseTok)
      = (eraseSpans (parseProgram toks).1, (parseProgram toks).2.map eraseDiag) := by
  have h1 := parseProgramFuel_stable toks (fuelFor toks) (Nat.le_refl _)
  have h2 := parseProgramFuel_erase (fuelFor toks) toks
  have h3 := parseProgramFuel_stable (toks.map eraseTok) (fuelFor toks)
    (by rw [fuelFor_erase]; exact Nat.le_refl _)
  rw [h1, h3, Option.map_some] at h2
  exact Option.some.inj h2

/-! ### Token lists that differ in spans only -/

theorem eraseTok_congr {toks₁ toks₂ : List SpTok} (h : toks₁.map (·.tok) = toks₂.map (·.tok)) :
    toks₁.map eraseTok = toks₂.map eraseTok := by
  have h' := congrArg (List.map fun t : Tok => (⟨t, zspan⟩ : SpTok)) h
  rw [List.map_map, List.map_map] at h'
  exact h'

theorem eraseDiag_kind (ds : List Diag) : (ds.map eraseDiag).map (·.kind) = ds.map (·.kind) := by
  simp [List.map_map, Function.comp_def, eraseDiag]

end NaijaVerif.Parse
