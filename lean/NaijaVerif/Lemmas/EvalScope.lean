import NaijaVerif.Lemmas.EvalBasic
/-
C04, dynamic half — definitions.

* `Binder`, `wsExpr … wsBlock`, `WellScoped`: the STATIC hypothesis on an annotated program, a
  decidable structural check: every variable reference / assignment target / `{name}` segment
  carries a `LocalId` that a lexically enclosing binder (block or parameter list) declares, every
  `make` one of its own block, every call of a user function a `FunctionId` that a lexically
  enclosing block defines, and along every lexical path the binders declare disjoint ids.
* `Link`, `MR`: the most-recent-instance invariant on evaluator states, at block granularity.
  `Link cfg Γ chain env` walks the dynamic stack `env` (head = innermost) together with the static
  chain `chain` and the lexical context `Γ` (the binders enclosing the current program point):
  a scope ON the chain instantiates the next binder of `Γ` (`take`: I1 for its hoisted functions,
  I2, I4), a scope NOT on the chain declares nothing that a chain scope BELOW it declares (`skip`:
  I3).  `SlotsOK` is I1 for slots.
* `Frame`: what an evaluation leaves alone — the skeleton (instance id, tag, hoisted functions) of
  every scope and the static chain; only VALUES (and new slots of a scope's own declarations) change.
-/
namespace NaijaVerif.Eval
open NaijaVerif

variable {N : Type}

/-! ### The static side -/

/-- What a block or a parameter list declares: `LocalId`s and `FunctionId`s. -/
structure Binder where
  decls : List Nat
  fnIds : List Nat

/-- The `FunctionId`s of the definitions of a statement list (what `hoist` registers). -/
def fnIdsOf : List Stmt → List Nat
  | [] => []
  | .fnDef _ _ _ _ (some i) _ _ :: rest => i :: fnIdsOf rest
  | _ :: rest => fnIdsOf rest

def Binder.ofStmts (ss : List Stmt) : Binder := ⟨declIds ss, fnIdsOf ss⟩
def Binder.ofParams (ps : List Param) : Binder := ⟨ps.filterMap (·.bind), []⟩
/-- The extra root scope of `run_inner` declares nothing. -/
def Binder.root : Binder := ⟨[], []⟩

/-- `l` is declared by a binder of the lexical context. -/
def declared (Γ : List Binder) (l : Nat) : Bool := Γ.any (fun β => β.decls.contains l)
def fnDeclared (Γ : List Binder) (i : Nat) : Bool := Γ.any (fun β => β.fnIds.contains i)

def boundIn (Γ : List Binder) : Option Nat → Bool
  | some l => declared Γ l
  | none => false

def fnBoundIn (Γ : List Binder) : Option Nat → Bool
  | some i => fnDeclared Γ i
  | none => false

/-- The binding of a `make`: a local of the statement's own block. -/
def headDecl : List Binder → Option Nat → Bool
  | β :: _, some l => β.decls.contains l
  | _, _ => false

def headFn : List Binder → Option Nat → Bool
  | β :: _, some i => β.fnIds.contains i
  | _, _ => false

/-- The binder declares nothing an enclosing binder declares. -/
def freshIn (Γ : List Binder) (β : Binder) : Bool :=
  β.decls.all (fun l => !declared Γ l) && β.fnIds.all (fun i => !fnDeclared Γ i)

def wsSeg (Γ : List Binder) : Seg → Bool
  | .lit _ => true
  | .var _ b => boundIn Γ b

mutual
  def wsExpr (Γ : List Binder) : Expr → Bool
    | .num _ _ | .bool _ _ | .null _ => true
    | .str (.static _) _ => true
    | .str (.interp segs) _ => segs.all (wsSeg Γ)
    | .var _ b _ => boundIn Γ b
    | .binary _ l r _ => wsExpr Γ l && wsExpr Γ r
    | .unary _ x _ => wsExpr Γ x
    | .array es _ => wsExprs Γ es
    | .index a i _ _ => wsExpr Γ a && wsExpr Γ i
    | .member o _ _ _ => wsExpr Γ o
    | .call (.member obj _ _ _) args _ _ => wsExpr Γ obj && wsExprs Γ args
    | .call (.var name _ _) args fn _ =>
        wsExprs Γ args && ((GlobalB.ofName name).isSome || fnBoundIn Γ fn)
    | .call _ args _ _ => wsExprs Γ args
  def wsExprs (Γ : List Binder) : List Expr → Bool
    | [] => true
    | e :: es => wsExpr Γ e && wsExprs Γ es
end

mutual
  /-- `Γ` includes the binder of the statement's own block (its head). -/
  def wsStmt (Γ : List Binder) : Stmt → Bool
    | .assign _ _ e b _ _ => wsExpr Γ e && headDecl Γ b
    | .assignExisting _ _ e b _ _ => wsExpr Γ e && boundIn Γ b
    | .assignIndex t e _ _ => wsExpr Γ t && wsExpr Γ e
    | .ifS c t e _ _ => wsExpr Γ c && wsBlock Γ t && wsOptBlock Γ e
    | .loop c b _ _ => wsExpr Γ c && wsBlock Γ b
    | .block b _ _ => wsBlock Γ b
    | .fnDef _ _ ps body fn _ _ =>
        headFn Γ fn && ps.all (fun p => p.bind.isSome) && freshIn Γ (.ofParams ps) &&
          wsBlock (.ofParams ps :: Γ) body
    | .ret (some e) _ _ => wsExpr Γ e
    | .ret none _ _ => true
    | .brk _ _ => true
    | .cont _ _ => true
    | .expr e _ _ => wsExpr Γ e
  def wsStmts (Γ : List Binder) : List Stmt → Bool
    | [] => true
    | s :: rest => wsStmt Γ s && wsStmts Γ rest
  def wsBlock (Γ : List Binder) : Block → Bool
    | .mk ss _ => freshIn Γ (.ofStmts ss) && wsStmts (.ofStmts ss :: Γ) ss
  def wsOptBlock (Γ : List Binder) : Option Block → Bool
    | none => true
    | some b => wsBlock Γ b
end

/-- The hypothesis of the dynamic theorem, a decidable check of the annotated program: every
reference is bound to a declaration of a lexically enclosing binder, ids are not re-used along a
lexical path. -/
def WellScoped (p : Block) : Prop := wsBlock [Binder.root] p = true

instance (p : Block) : Decidable (WellScoped p) := inferInstanceAs (Decidable (_ = true))

/-- Binders along a lexical path declare pairwise disjoint ids. -/
def CtxOK : List Binder → Prop
  | [] => True
  | β :: Γ => freshIn Γ β = true ∧ CtxOK Γ

/-- A hoisted function is well scoped in the context of its definition. -/
def WSFn (Γ : List Binder) (fd : FnEntry) : Prop :=
  fd.params.all (fun p => p.bind.isSome) = true ∧ freshIn Γ (.ofParams fd.params) = true ∧
    wsBlock (.ofParams fd.params :: Γ) fd.body = true

/-! ### The dynamic side -/

/-- What an evaluation never changes in a scope. -/
structure Skel where
  uid : Nat
  decls : List Nat
  fns : List FnEntry

def Scope.skel (s : Scope N) : Skel := ⟨s.uid, s.decls, s.fns⟩

/-- The frame of every evaluation: the static chain and the skeleton of the stack are restored
(a callee changes only VALUES below its own scopes; `make` adds a slot to the innermost scope). -/
structure Frame (st st' : State N) : Prop where
  chain : st'.chain = st.chain
  skel : st'.env.map Scope.skel = st.env.map Scope.skel
  next : st.next ≤ st'.next

theorem Frame.refl (st : State N) : Frame st st := ⟨rfl, rfl, Nat.le_refl _⟩

theorem Frame.trans {a b c : State N} (h1 : Frame a b) (h2 : Frame b c) : Frame a c :=
  ⟨h2.chain.trans h1.chain, h2.skel.trans h1.skel, Nat.le_trans h1.next h2.next⟩

/-- I1 (slots): every slot of a scope holds a local the scope's binder declares. -/
def SlotsOK (env : List (Scope N)) : Prop :=
  ∀ S ∈ env, ∀ sl ∈ S.slots, ∃ l, sl.id = some l ∧ l ∈ S.decls

/-- I1 (functions) + I4 for a scope on the chain that instantiates `β`; `Γ'` is the lexical
context INCLUDING `β`, `ch` the static chain from this scope down: the hoisted functions are
exactly the un-pruned definitions of `β`, each records `ch` and is well scoped in `Γ'`. -/
def FnsOK (cfg : RunCfg) (Γ' : List Binder) (ch : List Nat) (β : Binder) (fns : List FnEntry) : Prop :=
  (∀ fd ∈ fns, ∃ i, fd.id = some i ∧ i ∈ β.fnIds ∧ Plan.prunesFn cfg.plan (some i) = false ∧
      fd.chain = ch ∧ WSFn Γ' fd) ∧
  (∀ i ∈ β.fnIds, Plan.prunesFn cfg.plan (some i) = false → ∃ fd ∈ fns, fd.id = some i)

/-- The dynamic stack against the static chain and the lexical context (I2, I3, I4). -/
inductive Link (cfg : RunCfg) : List Binder → List Nat → List (Scope N) → Prop where
  | nil : Link cfg [] [] []
  /-- a scope that is NOT on the static chain (another activation, or the caller's blocks): it
  declares nothing that a chain scope below it declares (I3) -/
  | skip {Γ : List Binder} {chain : List Nat} {env : List (Scope N)} (S : Scope N) :
      (∀ T ∈ env, T.uid < S.uid) →
      (∀ l ∈ S.decls, declared Γ l = false) →
      (∀ fd ∈ S.fns, ∃ i, fd.id = some i ∧ fnDeclared Γ i = false ∧
          Plan.prunesFn cfg.plan (some i) = false) →
      Link cfg Γ chain env → Link cfg Γ chain (S :: env)
  /-- the next scope of the static chain instantiates the next binder of the context (I2) -/
  | take {Γ : List Binder} {chain : List Nat} {env : List (Scope N)} (S : Scope N) (β : Binder) :
      (∀ T ∈ env, T.uid < S.uid) →
      S.decls = β.decls →
      FnsOK cfg (β :: Γ) (S.uid :: chain) β S.fns →
      Link cfg Γ chain env → Link cfg (β :: Γ) (S.uid :: chain) (S :: env)

/-- **MR**, the most-recent-instance invariant, for a state whose running code sits in the
lexical context `Γ`. -/
structure MR (cfg : RunCfg) (Γ : List Binder) (st : State N) : Prop where
  link : Link cfg Γ st.chain st.env
  ctx : CtxOK Γ
  slots : SlotsOK st.env
  fresh : ∀ S ∈ st.env, S.uid < st.next
  /-- the innermost scope instantiates the innermost binder -/
  top : ∀ β Γ', Γ = β :: Γ' → ∃ S rest, st.env = S :: rest ∧ S.decls = β.decls

end NaijaVerif.Eval
