import NaijaVerif.Lemmas.EvalBasic
/-
C04, dynamic half — definitions.

* The STATIC hypothesis on an annotated program (`Binder`, `wsExpr … wsBlock`, `WellScoped`) is
  defined in `Model/Eval.lean` (the driver evaluates it); here: `CtxOK` (the binders of a lexical
  path declare disjoint ids) and `WSFn` (a hoisted function is well scoped where it is defined).
* `Link`, `MR`: the most-recent-instance invariant on evaluator states, at block granularity.
  `Link cfg Γ chain env` walks the dynamic stack `env` (head = innermost) together with the static
  chain `chain` and the lexical context `Γ` (the binders enclosing the current program point):
  a scope ON the chain instantiates the next binder of `Γ` (`take`: I1 for its hoisted functions,
  I2, I4), a scope NOT on the chain declares nothing that a chain scope BELOW it declares (`skip`:
  I3).  `SlotsOK` is I1 for slots.
* `Frame`: what an evaluation leaves alone — the skeleton (instance id, tag, hoisted functions) of
  every scope and the static chain; only VALUES (and new slots of a scope's own declarations) change.
-/
namespace NaijaVerif.Eval
open NaijaVerif

variable {N : Type}

/-! ### The static side (`Binder`, `wsExpr` … `wsBlock`, `WellScoped` are in `Model/Eval.lean`) -/

/-- Binders along a lexical path declare pairwise disjoint ids. -/
def CtxOK : List Binder → Prop
  | [] => True
  | β :: Γ => freshIn Γ β = true ∧ CtxOK Γ

/-- A hoisted function is well scoped in the context of its definition. -/
def WSFn (Γ : List Binder) (fd : FnEntry) : Prop :=
  fd.params.all (fun p => p.bind.isSome) = true ∧ freshIn Γ (.ofParams fd.params) = true ∧
    wsBlock (.ofParams fd.params :: Γ) fd.body = true

/-! ### The dynamic side -/

/-- What an evaluation never changes in a scope. -/
structure Skel where
  uid : Nat
  decls : List Nat
  fns : List FnEntry

def Scope.skel (s : Scope N) : Skel := ⟨s.uid, s.decls, s.fns⟩

/-- The frame of every evaluation: the static chain and the skeleton of the stack are restored
(a callee changes only VALUES below its own scopes; `make` adds a slot to the innermost scope). -/
structure Frame (st st' : State N) : Prop where
  chain : st'.chain = st.chain
  skel : st'.env.map Scope.skel = st.env.map Scope.skel
  next : st.next ≤ st'.next

theorem Frame.refl (st : State N) : Frame st st := ⟨rfl, rfl, Nat.le_refl _⟩

theorem Frame.trans {a b c : State N} (h1 : Frame a b) (h2 : Frame b c) : Frame a c :=
  ⟨h2.chain.trans h1.chain, h2.skel.trans h1.skel, Nat.le_trans h1.next h2.next⟩

/-- I1 (slots): every slot of a scope holds a local the scope's binder declares. -/
def SlotsOK (env : List (Scope N)) : Prop :=
  ∀ S ∈ env, ∀ sl ∈ S.slots, ∃ l, sl.id = some l ∧ l ∈ S.decls

/-- I1 (functions) + I4 for a scope on the chain that instantiates `β`; `Γ'` is the lexical
context INCLUDING `β`, `ch` the static chain from this scope down: the hoisted functions are
exactly the un-pruned definitions of `β`, each records `ch` and is well scoped in `Γ'`. -/
def FnsOK (cfg : RunCfg) (Γ' : List Binder) (ch : List Nat) (β : Binder) (fns : List FnEntry) : Prop :=
  (∀ fd ∈ fns, ∃ i, fd.id = some i ∧ i ∈ β.fnIds ∧ Plan.prunesFn cfg.plan (some i) = false ∧
      fd.chain = ch ∧ WSFn Γ' fd) ∧
  (∀ i ∈ β.fnIds, Plan.prunesFn cfg.plan (some i) = false → ∃ fd ∈ fns, fd.id = some i)

/-- The dynamic stack against the static chain and the lexical context (I2, I3, I4). -/
inductive Link (cfg : RunCfg) : List Binder → List Nat → List (Scope N) → Prop where
  | nil : Link cfg [] [] []
  /-- a scope that is NOT on the static chain (another activation, or the caller's blocks): it
  declares nothing that a chain scope below it declares (I3) -/
  | skip {Γ : List Binder} {chain : List Nat} {env : List (Scope N)} (S : Scope N) :
      (∀ T ∈ env, T.uid < S.uid) →
      (∀ l ∈ S.decls, declared Γ l = false) →
      (∀ fd ∈ S.fns, ∃ i, fd.id = some i ∧ fnDeclared Γ i = false ∧
          Plan.prunesFn cfg.plan (some i) = false) →
      Link cfg Γ chain env → Link cfg Γ chain (S :: env)
  /-- the next scope of the static chain instantiates the next binder of the context (I2) -/
  | take {Γ : List Binder} {chain : List Nat} {env : List (Scope N)} (S : Scope N) (β : Binder) :
      (∀ T ∈ env, T.uid < S.uid) →
      S.decls = β.decls →
      FnsOK cfg (β :: Γ) (S.uid :: chain) β S.fns →
      Link cfg Γ chain env → Link cfg (β :: Γ) (S.uid :: chain) (S :: env)

/-- **MR**, the most-recent-instance invariant, for a state whose running code sits in the
lexical context `Γ`. -/
structure MR (cfg : RunCfg) (Γ : List Binder) (st : State N) : Prop where
  link : Link cfg Γ st.chain st.env
  ctx : CtxOK Γ
  slots : SlotsOK st.env
  fresh : ∀ S ∈ st.env, S.uid < st.next
  /-- the innermost scope instantiates the innermost binder -/
  top : ∀ β Γ', Γ = β :: Γ' → ∃ S rest, st.env = S :: rest ∧ S.decls = β.decls

end NaijaVerif.Eval
