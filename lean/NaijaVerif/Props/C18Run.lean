/-
C18, run part — tripping an analysis limit never changes the run.

Against the evaluator model of family `run` (`Model/Eval.lean`): `Runtime::run_with_analysis` with no
plan (what the resolver hands over after a limit tripped) behaves exactly like a run with a plan that
prunes nothing; composed with the pipeline decision of `Model/Limits.lean`, the outcome of a run does
not depend on the caps.  The remaining hypothesis of the composition is C03 (the plan the passes
build below the limits does not change the outcome) — that is `Props/C03.lean`'s subject.

For the SHIPPED PIPELINE (`Model/Pipeline.lean`) the composition is carried out: `c18_pipeline_front`
(rejection, program and facts do not depend on the caps), `c18_pipeline_warnings` (the warnings differ
only by the resource-limit warning / the passes' warnings), `c18_pipeline` and `c18_pipeline_tripped`
(any two cap settings run a text to the same observation, for all sufficiently large fuel) — with C03's
`c03_pipeline` as the soundness of the plan, under its side conditions `PipelineSide` on the front
end's result (annotated program and facts only).
-/
import NaijaVerif.Model.Limits
import NaijaVerif.Lemmas.LimitsRun
import NaijaVerif.Model.AnalysisEval
import NaijaVerif.Props.C18
import NaijaVerif.Props.C03

namespace NaijaVerif.Limits
open NaijaVerif NaijaVerif.Eval

variable {N : Type} [NumOps N]

/-- Plans that prune nothing are interchangeable: same outcome for every program, fuel and
configuration. -/
theorem run_noprune (cfg : RunCfg) (p1 p2 : Option Eval.Plan)
    (h1 : NoPrune { cfg with plan := p1 }) (h2 : NoPrune { cfg with plan := p2 }) (fuel : Nat)
    (prog : Block) :
    Eval.run (N := N) { cfg with plan := p1 } fuel prog = Eval.run { cfg with plan := p2 } fuel prog := by
  unfold Eval.run
  rw [(same_all (N := N) cfg p1 p2 h1 h2 fuel).block prog]
  rfl

/-- **No plan = the empty plan.**  `run {plan := none} = run {plan := some ∅}`: what a tripped limit
leaves the runtime with skips nothing. -/
theorem run_plan_none_eq_empty (cfg : RunCfg) (fuel : Nat) (prog : Block) :
    Eval.run (N := N) { cfg with plan := none } fuel prog =
      Eval.run { cfg with plan := some {} } fuel prog :=
  run_noprune cfg none (some {}) (noPrune_none cfg) (noPrune_empty cfg) fuel prog

/-- **The run is the same on both sides of every limit** (for the `run` family's evaluator): given
C03 for the plan `p` the passes build (`hSound`), the outcome does not depend on the caps — with caps
that trip the program runs without a plan, with caps that do not it runs with `p`, and both are the
run with the empty plan. -/
theorem run_same_across_limits_eval (cfg : RunCfg) (fuel : Nat) (prog : Block) (p : Eval.Plan)
    (hSound : Eval.run (N := N) { cfg with plan := some p } fuel prog =
      Eval.run { cfg with plan := some {} } fuel prog)
    (caps caps' : Caps) (c : Counts) (sp : Span) (ws : List Diag) :
    Eval.run (N := N) { cfg with plan := (emitAnalysis caps c sp p ws).plan } fuel prog =
      Eval.run { cfg with plan := (emitAnalysis caps' c sp p ws).plan } fuel prog :=
  run_same_across_limits (fun plan pr => Eval.run (N := N) { cfg with plan := plan } fuel pr) {} prog p
    (run_plan_none_eq_empty cfg fuel prog) hSound caps caps' c sp ws

/-- Above a limit, concretely: the run is the run with the empty plan. -/
theorem run_tripped (cfg : RunCfg) (fuel : Nat) (prog : Block) (p : Eval.Plan) (caps : Caps)
    (c : Counts) (sp : Span) (ws : List Diag) (h : firstExceeded caps c ≠ none) :
    Eval.run (N := N) { cfg with plan := (emitAnalysis caps c sp p ws).plan } fuel prog =
      Eval.run { cfg with plan := some {} } fuel prog := by
  rw [(emitAnalysis_tripped caps c sp p ws h).1]
  exact run_plan_none_eq_empty cfg fuel prog

/-! ### The same two statements for the evaluator fragment the C03 theorems are proved on -/

/-- `AEval.run` (the fragment of `Props/C03.lean`): no plan = the empty plan, by computation. -/
theorem aeval_run_plan_none_eq_empty {V : Type} (P : AEval.Prims V) (fuel : Nat) (root : Block) :
    AEval.run P none fuel root = AEval.run P (some Analysis.Plan.empty) fuel root := rfl

/-- With C03's conclusion for the plan `p` (`run (some p) = run none`, which `c03_partial` proves for
every plan made of unreachable statements), the run is the same whatever the caps. -/
theorem aeval_run_same_across_limits {V : Type} (P : AEval.Prims V) (fuel : Nat) (root : Block)
    (p : Analysis.Plan) (hSound : AEval.run P (some p) fuel root = AEval.run P none fuel root)
    (caps caps' : Caps) (c : Counts) (sp : Span) (ws : List Diag) :
    AEval.run P (emitAnalysis caps c sp p ws).plan fuel root =
      AEval.run P (emitAnalysis caps' c sp p ws).plan fuel root :=
  run_same_across_limits (fun plan r => AEval.run P plan fuel r) Analysis.Plan.empty root p
    (aeval_run_plan_none_eq_empty P fuel root)
    (hSound.trans (aeval_run_plan_none_eq_empty P fuel root)) caps caps' c sp ws

/-! ### The shipped pipeline: the caps never change what a text does -/

section pipeline
open NaijaVerif.Props.C06Accepted (NumLitsParse parsed)
open NaijaVerif.Bridge (isNumLexeme)
open NaijaVerif.PipelinePrune
open NaijaVerif.C03 (PipelineSide evalObs rtCode)

/-- **Rejection does not depend on the caps**: a text rejected (lexical / syntax / semantic
diagnostics) under some caps is rejected with the same diagnostics under all caps, and a text accepted
under some caps is accepted under all, with the same annotated program and the same facts. -/
theorem c18_pipeline_front (caps caps' : Caps) (src : Bytes) :
    (∀ e, Pipeline.frontEnd caps src = .error e → Pipeline.frontEnd caps' src = .error e) ∧
    (∀ a, Pipeline.frontEnd caps src = .ok a →
      ∃ a', Pipeline.frontEnd caps' src = .ok a' ∧ a'.root = a.root ∧ a'.facts = a.facts) := by
  refine ⟨fun e h => frontEnd_error_caps caps' h, fun a h => ?_⟩
  obtain ⟨a', ha'⟩ := frontEnd_ok_caps caps' h
  obtain ⟨h1, h2, _⟩ := frontEnd_shape h
  obtain ⟨h1', h2', _⟩ := frontEnd_shape ha'
  exact ⟨a', ha', h1'.trans h1.symm, h2'.trans h2.symm⟩

/-- **The warnings differ only by the resource-limit warning**: under caps that trip, the analysis
stage hands over no plan and exactly the one resource-limit warning (on the program's span); under caps
that do not, the plan of the analyses and exactly their warnings, none of which is a resource-limit
warning.  Two cap settings on the same side of the preflight give the same warnings and the same plan. -/
theorem c18_pipeline_warnings (caps caps' : Caps) (src : Bytes) (a a' : Pipeline.Accepted)
    (ha : Pipeline.frontEnd caps src = .ok a) (ha' : Pipeline.frontEnd caps' src = .ok a') :
    (tripped caps src = true → a.plan = none ∧ a.warnings = [limitWarning (parsed src).span]) ∧
    (tripped caps src = false → a.plan = some (passPlan a.root a.facts) ∧
      a.warnings = passWarnings a.root a.facts ∧ ∀ d ∈ a.warnings, d.kind ≠ .analysisLimit) ∧
    (tripped caps src = tripped caps' src → a'.plan = a.plan ∧ a'.warnings = a.warnings) := by
  obtain ⟨h1, h2, _, hc⟩ := frontEnd_shape ha
  obtain ⟨h1', h2', _, hc'⟩ := frontEnd_shape ha'
  have hr : a'.root = a.root := h1'.trans h1.symm
  have hf : a'.facts = a.facts := h2'.trans h2.symm
  have hkinds : ∀ d ∈ passWarnings a.root a.facts, d.kind ≠ .analysisLimit := by
    intro d hd
    simp only [passWarnings, List.mem_map] at hd
    obtain ⟨w, _, rfl⟩ := hd
    simp only [Pipeline.warnDiag]
    cases w.kind <;> simp [Analysis.WKind.diag]
  refine ⟨fun ht => ?_, fun ht => ?_, fun heq => ?_⟩
  · rcases hc with ⟨h, _⟩ | ⟨_, hp, hw⟩
    · rw [ht] at h; cases h
    · exact ⟨hp, hw⟩
  · rcases hc with ⟨_, hp, hw⟩ | ⟨h, _⟩
    · exact ⟨hp, hw, by rw [hw]; exact hkinds⟩
    · rw [ht] at h; cases h
  · rcases hc with ⟨ht, hp, hw⟩ | ⟨ht, hp, hw⟩ <;> rcases hc' with ⟨ht', hp', hw'⟩ | ⟨ht', hp', hw'⟩
    · rw [hp, hw, hp', hw', hr, hf]; exact ⟨rfl, rfl⟩
    · rw [ht, ht'] at heq; cases heq
    · rw [ht, ht'] at heq; cases heq
    · rw [hp, hw, hp', hw']; exact ⟨rfl, rfl⟩

/-- **C18 for the shipped pipeline** (`Pipeline.runSource`: lex → parse → resolve → limit preflight →
analyses → run with the plan handed over).  Take any two cap settings — say the defaults and caps that
trip.  If the text is accepted, the side conditions of C03 hold of the front end's result
(`PipelineSide`: on the annotated program and the facts, which do not depend on the caps), and the
run of the program WITHOUT a plan ends within its fuel with the observation `o` (printed values; normal
ending or a runtime error other than `Undefined variable`), then under BOTH cap settings the pipeline
runs the text to that same observation `o`, for all sufficiently large fuel: exceeding an analysis
budget disables the optimisation and nothing else. -/
theorem c18_pipeline (hnum : NumLitsParse N isNumLexeme) (caps caps' : Caps) (cfg : RunCfg)
    (hl : cfg.lookup = .dynamic) (hp : cfg.panics = false) (hin : cfg.input = []) (src : Bytes)
    (a : Pipeline.Accepted) (ha : Pipeline.frontEnd caps src = .ok a) (hside : PipelineSide a)
    (f : Nat) (o : List (Value N) × Nat)
    (hrun : evalObs (Eval.run (N := N) { cfg with plan := none } f a.root) = some o)
    (hund : o.2 ≠ 10 + rtCode .undefinedVariable) :
    ∃ f', ∀ g, f' ≤ g →
      ranObs (Pipeline.runSource (N := N) caps cfg g src) = some o ∧
      ranObs (Pipeline.runSource (N := N) caps' cfg g src) = some o := by
  obtain ⟨a', ha', hr, hf⟩ := (c18_pipeline_front caps caps' src).2 a ha
  have hside' : PipelineSide a' := by
    unfold PipelineSide at hside ⊢; rw [hr, hf]; exact hside
  obtain ⟨f1, h1⟩ := C03.c03_pipeline hnum caps cfg hl hp hin src a ha hside f o hrun hund
  obtain ⟨f2, h2⟩ := C03.c03_pipeline hnum caps' cfg hl hp hin src a' ha' hside' f o (by rw [hr]; exact hrun) hund
  refine ⟨max f1 f2, fun g hg => ⟨?_, ?_⟩⟩
  · rw [runSource_ok cfg g ha]; exact h1 g (by omega)
  · rw [runSource_ok cfg g ha']; exact h2 g (by omega)

/-- The headline reading: what the text does under caps that TRIP (no plan, no optimisation) is what it
does under any other caps (in particular caps under which the analyses run and prune). -/
theorem c18_pipeline_tripped (hnum : NumLitsParse N isNumLexeme) (caps caps' : Caps) (cfg : RunCfg)
    (hl : cfg.lookup = .dynamic) (hp : cfg.panics = false) (hin : cfg.input = []) (src : Bytes)
    (a : Pipeline.Accepted) (ha : Pipeline.frontEnd caps src = .ok a) (hside : PipelineSide a)
    (ht : tripped caps src = true) (f : Nat) (o : List (Value N) × Nat)
    (hrun : ranObs (Pipeline.runSource (N := N) caps cfg f src) = some o)
    (hund : o.2 ≠ 10 + rtCode .undefinedVariable) :
    ∃ f', ∀ g, f' ≤ g → ranObs (Pipeline.runSource (N := N) caps' cfg g src) = some o := by
  have hplan := ((c18_pipeline_warnings caps caps src a a ha ha).1 ht).1
  rw [runSource_ok cfg f ha, hplan] at hrun
  obtain ⟨f', h⟩ := c18_pipeline hnum caps caps' cfg hl hp hin src a ha hside f o hrun hund
  exact ⟨f', fun g hg => (h g hg).2⟩

/-- **C18 for the shipped pipeline, with the proved side conditions discharged**: as `c18_pipeline`, but
the only hypothesis about the front end's result that is left is `structRest2B a.root a.facts` — the
part of C03's `structOkB` not proved of the resolver model (`C03.pipelineSide_of_rest`). -/
theorem c18_pipeline_rest (hnum : NumLitsParse N isNumLexeme) (caps caps' : Caps) (cfg : RunCfg)
    (hl : cfg.lookup = .dynamic) (hp : cfg.panics = false) (hin : cfg.input = []) (src : Bytes)
    (a : Pipeline.Accepted) (ha : Pipeline.frontEnd caps src = .ok a)
    (hrest : ResolveStruct.structRest2B a.root a.facts = true)
    (f : Nat) (o : List (Value N) × Nat)
    (hrun : evalObs (Eval.run (N := N) { cfg with plan := none } f a.root) = some o)
    (hund : o.2 ≠ 10 + rtCode .undefinedVariable) :
    ∃ f', ∀ g, f' ≤ g →
      ranObs (Pipeline.runSource (N := N) caps cfg g src) = some o ∧
      ranObs (Pipeline.runSource (N := N) caps' cfg g src) = some o :=
  c18_pipeline hnum caps caps' cfg hl hp hin src a ha (C03.pipelineSide_of_rest ha hrest) f o hrun hund

end pipeline

/-! ### Non-vacuity -/

-- a plan that does name a statement prunes it: `NoPrune` is a real restriction
example : Plan.prunesStmt (some { stmts := [3] }) (some 3) = true := by decide
example : Plan.prunesFn (some { fns := [1] }) (some 1) = true := by decide
-- and both plans of the theorem satisfy it
example (cfg : RunCfg) : NoPrune { cfg with plan := none } ∧ NoPrune { cfg with plan := some {} } :=
  ⟨noPrune_none cfg, noPrune_empty cfg⟩

/-! ### Non-vacuity of the pipeline theorems -/

section pipeline_examples
open NaijaVerif.Props.C06Accepted (parsed trivialNum ranSummary)
open NaijaVerif.PipelinePrune
open NaijaVerif.C03 (PipelineSide evalObs rtCode)

/-- The text `make x get 1  x get 2  x get 3  shout(x)` through the whole pipeline, under caps nothing
trips on and under caps with `maxStatements = 3`: below the limits the plan removes statement 1 and
the passes warn twice (two dead stores); above, no plan and the one resource-limit warning; the side
conditions of `c18_pipeline` hold of both results; and with the toy numbers both runs print `3` and end
normally. -/
example :
    (Pipeline.frontEnd roomyCaps prunedText).toOption.map (fun a => (a.plan.map (·.stmts), decide (PipelineSide a))) =
      some (some [1], true) ∧
    (Pipeline.frontEnd roomyCaps prunedText).toOption.map (fun a => a.warnings.map (·.kind)) =
      some [DiagKind.unusedAssignment, DiagKind.unusedAssignment] ∧
    (Pipeline.frontEnd tightCaps prunedText).toOption.map (fun a => (a.plan.map (·.stmts), decide (PipelineSide a))) =
      some (none, true) ∧
    (Pipeline.frontEnd tightCaps prunedText).toOption.map (fun a => a.warnings.map (·.kind)) =
      some [DiagKind.analysisLimit] ∧
    tripped roomyCaps prunedText = false ∧ tripped tightCaps prunedText = true ∧
    ranSummary (Pipeline.runSource roomyCaps Toy.cfg 30 prunedText) = some (2, [b!"3"], 0) ∧
    ranSummary (Pipeline.runSource tightCaps Toy.cfg 30 prunedText) = some (1, [b!"3"], 0) := by
  decide +kernel

/-- An instance of `c18_pipeline` on that text (numbers: `trivialNum`, for which `NumLitsParse` holds):
every hypothesis is discharged, and the two cap settings are on different sides of the preflight. -/
example : ∃ o f', ∀ g, f' ≤ g →
    ranObs (@Pipeline.runSource Unit trivialNum roomyCaps Toy.cfg g prunedText) = some o ∧
    ranObs (@Pipeline.runSource Unit trivialNum tightCaps Toy.cfg g prunedText) = some o := by
  cases h : Pipeline.frontEnd roomyCaps prunedText with
  | error e =>
    have : (Pipeline.frontEnd roomyCaps prunedText).toOption.isSome = true := by decide +kernel
    rw [h] at this; cases this
  | ok a =>
    have hside : PipelineSide a := by
      have : (Pipeline.frontEnd roomyCaps prunedText).toOption.all (fun a => decide (PipelineSide a)) = true := by
        decide +kernel
      rw [h] at this; simpa [Except.toOption] using this
    have hroot := (frontEnd_shape h).1
    obtain ⟨o, ho, ho2⟩ : ∃ o, evalObs (@Eval.run Unit trivialNum { Toy.cfg with plan := none } 30 a.root) = some o ∧ o.2 = 0 := by
      rw [hroot]
      exact evalObs_endsOk (by decide +kernel)
    obtain ⟨f', hf'⟩ := @c18_pipeline Unit trivialNum (fun _ _ => rfl) roomyCaps tightCaps Toy.cfg rfl rfl rfl prunedText a h hside
      30 o ho (by rw [ho2]; decide)
    exact ⟨o, f', hf'⟩

end pipeline_examples

end NaijaVerif.Limits
