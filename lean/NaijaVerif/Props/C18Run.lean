/-
C18, run part — tripping an analysis limit never changes the run.

Against the evaluator model of family `run` (`Model/Eval.lean`): `Runtime::run_with_analysis` with no
plan (what the resolver hands over after a limit tripped) behaves exactly like a run with a plan that
prunes nothing; composed with the pipeline decision of `Model/Limits.lean`, the outcome of a run does
not depend on the caps.  The remaining hypothesis of the composition is C03 (the plan the passes
build below the limits does not change the outcome) — that is `Props/C03.lean`'s subject.
-/
import NaijaVerif.Model.Limits
import NaijaVerif.Lemmas.LimitsRun
import NaijaVerif.Model.AnalysisEval
import NaijaVerif.Props.C18

namespace NaijaVerif.Limits
open NaijaVerif NaijaVerif.Eval

variable {N : Type} [NumOps N]

/-- Plans that prune nothing are interchangeable: same outcome for every program, fuel and
configuration. -/
theorem run_noprune (cfg : RunCfg) (p1 p2 : Option Eval.Plan)
    (h1 : NoPrune { cfg with plan := p1 }) (h2 : NoPrune { cfg with plan := p2 }) (fuel : Nat)
    (prog : Block) :
    Eval.run (N := N) { cfg with plan := p1 } fuel prog = Eval.run { cfg with plan := p2 } fuel prog := by
  unfold Eval.run
  rw [(same_all (N := N) cfg p1 p2 h1 h2 fuel).block prog]
  rfl

/-- **No plan = the empty plan.**  `run {plan := none} = run {plan := some ∅}`: what a tripped limit
leaves the runtime with skips nothing. -/
theorem run_plan_none_eq_empty (cfg : RunCfg) (fuel : Nat) (prog : Block) :
    Eval.run (N := N) { cfg with plan := none } fuel prog =
      Eval.run { cfg with plan := some {} } fuel prog :=
  run_noprune cfg none (some {}) (noPrune_none cfg) (noPrune_empty cfg) fuel prog

/-- **The run is the same on both sides of every limit** (for the `run` family's evaluator): given
C03 for the plan `p` the passes build (`hSound`), the outcome does not depend on the caps — with caps
that trip the program runs without a plan, with caps that do not it runs with `p`, and both are the
run with the empty plan. -/
theorem run_same_across_limits_eval (cfg : RunCfg) (fuel : Nat) (prog : Block) (p : Eval.Plan)
    (hSound : Eval.run (N := N) { cfg with plan := some p } fuel prog =
      Eval.run { cfg with plan := some {} } fuel prog)
    (caps caps' : Caps) (c : Counts) (sp : Span) (ws : List Diag) :
    Eval.run (N := N) { cfg with plan := (emitAnalysis caps c sp p ws).plan } fuel prog =
      Eval.run { cfg with plan := (emitAnalysis caps' c sp p ws).plan } fuel prog :=
  run_same_across_limits (fun plan pr => Eval.run (N := N) { cfg with plan := plan } fuel pr) {} prog p
    (run_plan_none_eq_empty cfg fuel prog) hSound caps caps' c sp ws

/-- Above a limit, concretely: the run is the run with the empty plan. -/
theorem run_tripped (cfg : RunCfg) (fuel : Nat) (prog : Block) (p : Eval.Plan) (caps : Caps)
    (c : Counts) (sp : Span) (ws : List Diag) (h : firstExceeded caps c ≠ none) :
    Eval.run (N := N) { cfg with plan := (emitAnalysis caps c sp p ws).plan } fuel prog =
      Eval.run { cfg with plan := some {} } fuel prog := by
  rw [(emitAnalysis_tripped caps c sp p ws h).1]
  exact run_plan_none_eq_empty cfg fuel prog

/-! ### The same two statements for the evaluator fragment the C03 theorems are proved on -/

/-- `AEval.run` (the fragment of `Props/C03.lean`): no plan = the empty plan, by computation. -/
theorem aeval_run_plan_none_eq_empty {V : Type} (P : AEval.Prims V) (fuel : Nat) (root : Block) :
    AEval.run P none fuel root = AEval.run P (some Analysis.Plan.empty) fuel root := rfl

/-- With C03's conclusion for the plan `p` (`run (some p) = run none`, which `c03_partial` proves for
every plan made of unreachable statements), the run is the same whatever the caps. -/
theorem aeval_run_same_across_limits {V : Type} (P : AEval.Prims V) (fuel : Nat) (root : Block)
    (p : Analysis.Plan) (hSound : AEval.run P (some p) fuel root = AEval.run P none fuel root)
    (caps caps' : Caps) (c : Counts) (sp : Span) (ws : List Diag) :
    AEval.run P (emitAnalysis caps c sp p ws).plan fuel root =
      AEval.run P (emitAnalysis caps' c sp p ws).plan fuel root :=
  run_same_across_limits (fun plan r => AEval.run P plan fuel r) Analysis.Plan.empty root p
    (aeval_run_plan_none_eq_empty P fuel root)
    (hSound.trans (aeval_run_plan_none_eq_empty P fuel root)) caps caps' c sp ws

/-! ### Non-vacuity -/

-- a plan that does name a statement prunes it: `NoPrune` is a real restriction
example : Plan.prunesStmt (some { stmts := [3] }) (some 3) = true := by decide
example : Plan.prunesFn (some { fns := [1] }) (some 1) = true := by decide
-- and both plans of the theorem satisfy it
example (cfg : RunCfg) : NoPrune { cfg with plan := none } ∧ NoPrune { cfg with plan := some {} } :=
  ⟨noPrune_none cfg, noPrune_empty cfg⟩

end NaijaVerif.Limits
