import NaijaVerif.Lemmas.ParseRoundTrip
import NaijaVerif.Lemmas.ParseRoundTripStmt
import NaijaVerif.Lemmas.ParseImage
import NaijaVerif.Spec.DocGrammar
/-
C01, parser part: operator precedence and associativity.

* `gen_matches_doc`: the binding-power table extracted from `parser.rs` (`Gen/Pratt.lean`, regenerated
  on every check) implements the documented order (`Spec/DocGrammar.lean`): `times/divide/mod` >
  `add/minus` > `na/pass/small pass` > `and` > `or`, all left-associative, prefix `not`/`minus` tighter
  than every binary operator.  Decided over the whole table.
* `table_wellformed`: the facts about the table the round trip uses (every operator has exactly one
  row, `l_bp < r_bp`, every `l_bp` below every prefix operand power, …).
* `round_trip`: for EVERY expression `e` in the image of the parser (`WF`: spans erased, no binding
  annotations, string parts that scan back), every level `ctx`, every choice `p` of redundant
  parentheses and every continuation that does not start with a continuation token, parsing
  `printAt p ctx e ++ rest` with the real `parseExpr` gives exactly `(e, rest)`, no diagnostics, for
  all sufficiently large fuel.  `round_trip_min` / `round_trip_full` are the instances for minimal and
  full parenthesisation; `parenthesisation_irrelevant` says any two parenthesisations parse alike
  (the "redundant parentheses" half of C10).
Postfix forms bind tighter than the prefix operators by construction of the printer
(`postfixLevel` = prefix operand power + 1) and the theorem covers them (call, index, member, array).
-/
namespace NaijaVerif.C01Parse
open NaijaVerif NaijaVerif.Parse

/-- The extracted table implements the documented precedence and associativity. -/
theorem gen_matches_doc :
    Spec.DocGrammar.docOrder Gen.Pratt.binTable Gen.Pratt.unaryTable = true := by decide

/-- The table facts the round trip relies on hold of the extracted table. -/
theorem table_wellformed : tableOk = true := table_ok

/-- The Pratt loop never continues at `t`: not `.`, `(`, `[`, and not a binary operator. -/
def NotContinuation (t : Tok) : Prop := isPostfixStart t = false ∧ binInfo t = none

theorem stopsAt_zero_iff (t : Tok) : StopsAt 0 t ↔ NotContinuation t := by
  constructor
  · intro h
    refine ⟨h.1 (Nat.zero_le _), ?_⟩
    cases hb : binInfo t with
    | none => rfl
    | some q => obtain ⟨op, l, r⟩ := q; exact absurd (h.2 op l r hb) (Nat.not_lt_zero _)
  · intro h
    exact ⟨fun _ => h.1, fun op l r hb => by rw [h.2] at hb; cases hb⟩

/-- **Round trip**, general form: any level, any redundant parentheses. -/
theorem round_trip (p : Expr → Nat) (e : Expr) (hwf : WF e) (ctx : Nat) (st : PState)
    (hctx : ctx ≤ postfixLevel) (hstop : StopsAt ctx st.cur.tok) (hsp : st.cur.span = zspan) :
    ∃ f0, ∀ f, f0 ≤ f → parseExpr f ctx (pushToks (printAt p ctx e) st) = some (e, st) := by
  obtain ⟨f0, h⟩ := ((key_all p (esize e)).1 e (Nat.le_refl _) hwf).1 ctx ctx st 1 (e, st)
    (Nat.le_refl _) hctx (stops_mono hstop (Nat.le_succ _)) hsp (cont_stop' e hstop hctx)
  exact ⟨f0, fun f hf => parseExpr_mono_le hf h⟩

/-- Minimal parenthesisation parses back: `parseExpr (printMin e ++ rest) = (e, rest)`. -/
theorem round_trip_min (e : Expr) (hwf : WF e) (st : PState)
    (hstop : NotContinuation st.cur.tok) (hsp : st.cur.span = zspan) :
    ∃ f0, ∀ f, f0 ≤ f → parseExpr f 0 (pushToks (printMin e) st) = some (e, st) :=
  round_trip _ e hwf 0 st (Nat.zero_le _) ((stopsAt_zero_iff _).2 hstop) hsp

/-- Full parenthesisation parses back: `parseExpr (printFull e ++ rest) = (e, rest)`. -/
theorem round_trip_full (e : Expr) (hwf : WF e) (st : PState)
    (hstop : NotContinuation st.cur.tok) (hsp : st.cur.span = zspan) :
    ∃ f0, ∀ f, f0 ≤ f → parseExpr f 0 (pushToks (printFull e) st) = some (e, st) :=
  round_trip _ e hwf 0 st (Nat.zero_le _) ((stopsAt_zero_iff _).2 hstop) hsp

/-- Redundant parentheses never change the parse: any two parenthesisations of `e` give the same
    result (for large enough fuel). -/
theorem parenthesisation_irrelevant (p q : Expr → Nat) (e : Expr) (hwf : WF e) (st : PState)
    (hstop : NotContinuation st.cur.tok) (hsp : st.cur.span = zspan) :
    ∃ f0, ∀ f, f0 ≤ f →
      parseExpr f 0 (pushToks (printAt p 0 e) st) = parseExpr f 0 (pushToks (printAt q 0 e) st) := by
  obtain ⟨f1, h1⟩ := round_trip p e hwf 0 st (Nat.zero_le _) ((stopsAt_zero_iff _).2 hstop) hsp
  obtain ⟨f2, h2⟩ := round_trip q e hwf 0 st (Nat.zero_le _) ((stopsAt_zero_iff _).2 hstop) hsp
  exact ⟨max f1 f2, fun f hf => by
    rw [h1 f (Nat.le_trans (Nat.le_max_left _ _) hf), h2 f (Nat.le_trans (Nat.le_max_right _ _) hf)]⟩

/-- **The round trip covers the image of the parser**: every expression `e` the real `parseExpr`
    returns (on any input, including through recovery) is, once its spans are erased, well-formed —
    provided its string templates scan back from their rendering (`StrsOk`, a decidable condition on
    the string literals only; the driver's `rt` self-check finds it true of every expression of every
    corpus and generated program). -/
theorem parsed_is_wellformed (f bp : Nat) (st st' : PState) (e : Expr)
    (h : parseExpr f bp st = some (e, st')) (hs : StrsOk e) : WF (eraseExpr e) :=
  (wf_eraseExpr e).2 ⟨(expr_noAnn f).1 bp st e st' h, hs⟩

/-- … so printing a parsed expression (any redundant parentheses) and parsing it again gives the same
    tree up to spans. -/
theorem reparse_of_parsed (p : Expr → Nat) (f bp : Nat) (st st' : PState) (e : Expr)
    (h : parseExpr f bp st = some (e, st')) (hs : StrsOk e) (st1 : PState)
    (hstop : NotContinuation st1.cur.tok) (hsp : st1.cur.span = zspan) :
    ∃ f0, ∀ g, f0 ≤ g →
      parseExpr g 0 (pushToks (printAt p 0 (eraseExpr e)) st1) = some (eraseExpr e, st1) :=
  round_trip p (eraseExpr e) (parsed_is_wellformed f bp st st' e h hs) 0 st1 (Nat.zero_le _)
    ((stopsAt_zero_iff _).2 hstop) hsp

/-- **Statement-level round trip**: for every canonical program `b` (`CanonBlock p b`: spans erased,
    no annotations, well-formed expressions, a bare `return` only last in its block, expression
    statements and index targets starting with their identifier) and every choice `p` of redundant
    parentheses, `parseProgram (print b) = (b, [])`: the same tree and no diagnostics. -/
theorem program_round_trip (p : Expr → Nat) (b : Block) (hc : CanonBlock p b) :
    parseProgram (programToks p b) = (b, []) :=
  Parse.program_round_trip p b hc

/-- … and, with explicit fuel, for all sufficiently large fuel. -/
theorem program_round_trip_fuel (p : Expr → Nat) (b : Block) (hc : CanonBlock p b) :
    ∃ f0, ∀ f, f0 ≤ f → parseProgramFuel f (programToks p b) = some (b, []) :=
  Parse.program_round_trip_fuel p b hc

/-! ### Non-vacuity -/

/-- `do f(a) start if to say (a pass 1) start return a end x[0] get f(1) add 2 return end` -/
def exProg : Block :=
  .mk [.fnDef [102] zspan [{ name := [97], span := zspan }]
        (.mk [.ifS (.binary .gt (.var [97] none zspan) (.num [49] zspan) zspan)
                (.mk [.ret (some (.var [97] none zspan)) none zspan] zspan) none none zspan,
              .assignIndex (.index (.var [120] none zspan) (.num [48] zspan) zspan zspan)
                (.binary .add (.call (.var [102] none zspan) [.num [49] zspan] none zspan) (.num [50] zspan) zspan)
                none zspan,
              .ret none none zspan] zspan)
        none none zspan] zspan

example : (programToks (fun _ => 0) exProg).map (·.tok) =
    [.do, .ident [102], .lparen, .ident [97], .rparen, .start,
     .ifToSay, .lparen, .ident [97], .pass, .num [49], .rparen, .start, .ret, .ident [97], .end,
     .ident [120], .lbracket, .num [48], .rbracket, .get, .ident [102], .lparen, .num [49], .rparen, .add, .num [50],
     .ret, .end, .eof] := by decide

theorem exProg_canon : CanonBlock (fun _ => 0) exProg := by
  simp only [exProg, CanonBlock, CanonStmts, CanonStmt, CanonParam, WF, WFs, isIndex, isBareRet,
    List.mem_singleton, forall_eq, and_self, true_and, and_true]
  exact ⟨[120], [.lbracket, .num [48], .rbracket], by decide⟩

example : parseProgram (programToks (fun _ => 0) exProg) = (exProg, []) :=
  program_round_trip _ _ exProg_canon


private def n (k : Nat) : Expr := .num [48 + k] zspan
private def endSt : PState := ⟨⟨.eof, zspan⟩, [], []⟩

/-- `1 add 2 times 3` is `1 add (2 times 3)`: printing the latter gives the former … -/
example : printMin (.binary .add (n 1) (.binary .times (n 2) (n 3) zspan) zspan)
    = [.num [49], .add, .num [50], .times, .num [51]] := by decide
/-- … and `(1 add 2) times 3` keeps its parentheses. -/
example : printMin (.binary .times (.binary .add (n 1) (n 2) zspan) (n 3) zspan)
    = [.lparen, .num [49], .add, .num [50], .rparen, .times, .num [51]] := by decide
/-- `1 minus 2 minus 3` is `(1 minus 2) minus 3` (left-associative); the other grouping needs parentheses. -/
example : printMin (.binary .minus (.binary .minus (n 1) (n 2) zspan) (n 3) zspan)
    = [.num [49], .minus, .num [50], .minus, .num [51]] := by decide
example : printMin (.binary .minus (n 1) (.binary .minus (n 2) (n 3) zspan) zspan)
    = [.num [49], .minus, .lparen, .num [50], .minus, .num [51], .rparen] := by decide
/-- `(minus x).abs()` needs its parentheses, `minus x.abs()` is `minus (x.abs())`. -/
example : printMin (.call (.member (.unary .neg (.var [120] none zspan) zspan) [97] zspan zspan) [] none zspan)
    = [.lparen, .minus, .ident [120], .rparen, .dot, .ident [97], .lparen, .rparen] := by decide
example : printMin (.unary .neg (.call (.member (.var [120] none zspan) [97] zspan zspan) [] none zspan) zspan)
    = [.minus, .ident [120], .dot, .ident [97], .lparen, .rparen] := by decide
/-- The hypotheses of the round trip are satisfiable (end of input is not a continuation token),
    and the real parser does return the tree on a concrete input. -/
example : NotContinuation endSt.cur.tok := ⟨by decide, by decide⟩
example : WF (.binary .add (n 1) (.binary .times (n 2) (n 3) zspan) zspan) := by simp [WF, n]
example : (parseExpr 20 0 (pushToks [.num [49], .add, .num [50], .times, .num [51]] endSt)).map (·.1)
    = some (.binary .add (n 1) (.binary .times (n 2) (n 3) zspan) zspan) := by rfl

end NaijaVerif.C01Parse
