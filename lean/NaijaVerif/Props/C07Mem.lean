import NaijaVerif.Lemmas.LexMemFam
import NaijaVerif.Lemmas.LexMemLen
import NaijaVerif.Props.C07Lex
/-
C07, memory part of the lexer (D-19): **what `scan_string` makes the arena hand out is linear in the
source**.

`Model/LexMem.lean` follows the buffer of `scan_string` (`reserve_exact` at the first escape, `Vec`'s
amortised growth at every `push_str` / `push`); `lexCaps src` lists `buffer.capacity()` of every
`ArenaCow::Owned` string token of `src`, the field `caps=` of the `lex` family compares it with the real
lexer on every request.  All theorems are for every valid UTF-8 text (a Rust `&str`) of any length.

* `strCap_le` — one token: at most twice its own extent; a token that ran into the end of input (no
  closing quote and no line end after its last escape) at most twice what is left of the file, and
  there is at most one such token per quote character (`strAtEof_distinct_quotes`);
* `strBuf_holds_content` — the buffer model and the content model agree: `len` = length of the token's
  content ≤ capacity;
* `lexCaps_sum_le` — the whole file: `Σ caps ≤ 3·|src|` (`≤ 2·|src|` unless both `"` and `'` occur);
* `lexCapsPinned_quadratic` / `lexCapsPinned_not_linear` — the code before the fix
  (`reserve_exact(bytes.len())`) has no linear bound: `n` copies of `"\n"` reserve `n·(2n+1)` bytes.

Constants.  Per token the factor 2 is sharp (`"\"\"aaaa…a\n"`: the run of `m` bytes arrives in one
`push_str` that fills the buffer exactly, the next byte doubles it: capacity `2m+4`, extent `m+8`).
For the sum the proof pays `2·|src|` for doubling plus one more `|src|` for a token that runs into
the end of input and reserves (or doubles up to) the rest of the file while later tokens are scanned
again from the middle of it.  The worst family found reaches `5/2` (`example` at the end); the gap to 3
is the proof's (it does not use that the second such token reserves exactly).
-/
namespace NaijaVerif.Props.C07Mem
open NaijaVerif NaijaVerif.Lex NaijaVerif.Utf8

/-! ## one token -/

/-- **Per-token bound.**  Every owned string token `t` of `src` (its buffer is `strCap src t.span.lo`)
is non-empty and inside the text, and its buffer has capacity
* at most `2·(hi − lo)` — twice the token's own extent — when `scan_string` returned at the closing
  quote or at a line end;
* at most `2·(|src| − lo)` when it returned through an end-of-input exit (`strAtEof`). -/
theorem strCap_le (src : Bytes) (h : ValidUtf8 src) :
    ∀ t ∈ (lex src).1, isOwnedStr t = true →
      t.span.lo < t.span.hi ∧ t.span.hi ≤ src.length ∧
      (strAtEof src t.span.lo = false → strCap src t.span.lo ≤ 2 * (t.span.hi - t.span.lo)) ∧
      (strAtEof src t.span.lo = true → strCap src t.span.lo ≤ 2 * (src.length - t.span.lo)) := by
  intro t ht ho
  have := lexGo_tokCap (src := src) _ _ (ok_start h) t (mem_lex_owned ht ho) ho
  exact ⟨this.span.1, this.span.2, this.normal, fun he => (this.eof he).1⟩

/-- A token that ran into the end of input has used up its quote character: it does not occur in the
rest of the file … -/
theorem strAtEof_quote_gone (src : Bytes) (h : ValidUtf8 src) :
    ∀ t ∈ (lex src).1, isOwnedStr t = true → strAtEof src t.span.lo = true →
      ∃ q, (q = 34 ∨ q = 39) ∧ src[t.span.lo]? = some q ∧ q ∉ src.drop t.span.hi := by
  intro t ht ho he
  have := lexGo_tokCap (src := src) _ _ (ok_start h) t (mem_lex_owned ht ho) ho
  obtain ⟨q, hq, hs⟩ := this.quote
  exact ⟨q, hq, hs, (this.eof he).2 q hs⟩

/-- … so a token whose quote character occurs again later is bounded by its own extent … -/
theorem strCap_le_of_quote_later (src : Bytes) (h : ValidUtf8 src) :
    ∀ t ∈ (lex src).1, isOwnedStr t = true → ∀ q, src[t.span.lo]? = some q → q ∈ src.drop t.span.hi →
      strCap src t.span.lo ≤ 2 * (t.span.hi - t.span.lo) := by
  intro t ht ho q hq hmem
  have := lexGo_tokCap (src := src) _ _ (ok_start h) t (mem_lex_owned ht ho) ho
  cases he : strAtEof src t.span.lo with
  | false => exact this.normal he
  | true => exact absurd hmem ((this.eof he).2 q hq)

/-- … and two tokens that ran into the end of input open with different quote characters: at most
one per quote character, at most two in a file. -/
theorem strAtEof_distinct_quotes (src : Bytes) (h : ValidUtf8 src) :
    ∀ a ∈ (lex src).1, ∀ b ∈ (lex src).1, isOwnedStr a = true → isOwnedStr b = true →
      strAtEof src a.span.lo = true → a.span.hi ≤ b.span.lo → src[a.span.lo]? ≠ src[b.span.lo]? := by
  intro a ha b hb hoa hob hea hab heq
  have hA := lexGo_tokCap (src := src) _ _ (ok_start h) a (mem_lex_owned ha hoa) hoa
  have hB := lexGo_tokCap (src := src) _ _ (ok_start h) b (mem_lex_owned hb hob) hob
  obtain ⟨q, _, hq⟩ := hA.quote
  exact (hA.eof hea).2 q hq (mem_drop_of_getElem? (heq ▸ hq) hab)

/-- **The two models agree on the buffer**: for every owned string token `buffer.len()` of the
buffer model is the length of the content the lexer model (`Model/Lex.lean`) gives the token, and the
content fits the capacity. -/
theorem strBuf_holds_content (src : Bytes) (h : ValidUtf8 src) :
    ∀ t ∈ (lex src).1, isOwnedStr t = true →
      ∃ content, t.tok = .str content true ∧ (strBuf hintFixed src t.span.lo).len = content.length ∧
        content.length ≤ strCap src t.span.lo :=
  lex_holds h

/-! ## the whole file -/

/-- **Linear bound** (THE theorem): the buffers of all owned string tokens of a source together have
capacity at most three times the length of the source. -/
theorem lexCaps_sum_le (src : Bytes) (h : ValidUtf8 src) : (lexCaps src).sum ≤ 3 * src.length := by
  have := (lexGo_caps (src := src) (src.length + 1) ⟨0, src⟩ (ok_start h)).1
  rw [lexCaps, capsOf_lex]
  exact Nat.le_trans this (pot_le src)

/-- With only one kind of quote character in the source the factor is 2. -/
theorem lexCaps_sum_le_one_quote (src : Bytes) (h : ValidUtf8 src) (hq : 34 ∉ src ∨ 39 ∉ src) :
    (lexCaps src).sum ≤ 2 * src.length := by
  have : (capsOf strCap src (lexGo (src.length + 1) ⟨0, src⟩).1).sum ≤ pot src :=
    (lexGo_caps (src := src) (src.length + 1) ⟨0, src⟩ (ok_start h)).1
  rw [lexCaps, capsOf_lex]
  have hp : pot src = 2 * src.length := by
    unfold pot
    rw [if_neg (by rcases hq with hq | hq <;> simp [hq])]
    omega
  omega

/-- The same from any reachable cursor: what the lexer still hands out is bounded by what it still has
to read (the invariant the sum theorem is the instance `c = ⟨0, src⟩` of). -/
theorem lexCaps_from_cursor (src : Bytes) (h : ValidUtf8 src) (c : Cur) (hr : C07Lex.Reach src c) (f : Nat) :
    (capsOf strCap src (lexGo f c).1).sum ≤ 3 * (src.length - c.pos) := by
  have hc := C07Lex.reach_ok h hr
  have := (lexGo_caps (src := src) f c hc).1
  have hl := hc.len
  have := pot_le c.rest
  omega

/-! ## the pinned code (before /repo 7525b16) is quadratic -/

/-- `n` copies of `"\n"` (a source of `4n` bytes): the pinned reservation sums to `n·(2n+1)`, the fixed
one to `2n`. -/
theorem lexCapsPinned_quadratic (n : Nat) :
    (escFamily n).length = 4 * n ∧ ValidUtf8 (escFamily n) ∧
    (lexCapsPinned (escFamily n)).sum = n * (2 * n + 1) ∧ (lexCaps (escFamily n)).sum = 2 * n :=
  ⟨escFamily_length n, escFamily_valid n, lexCapsPinned_fam n, lexCaps_fam n⟩

/-- No linear bound holds of the pinned reservation, whatever the constants. -/
theorem lexCapsPinned_not_linear (K K' : Nat) :
    ∃ src, ValidUtf8 src ∧ K * src.length + K' < (lexCapsPinned src).sum := by
  refine ⟨escFamily (2 * K + K' + 1), escFamily_valid _, ?_⟩
  rw [lexCapsPinned_fam, escFamily_length]
  generalize hn : 2 * K + K' + 1 = n
  have h1 : n * (4 * K + 2 * K' + 3) ≤ n * (2 * n + 1) := Nat.mul_le_mul_left n (by omega)
  have h2 : n * (4 * K + 2 * K' + 3) = K * (4 * n) + n * (2 * K' + 3) := by
    rw [show 4 * K + 2 * K' + 3 = 4 * K + (2 * K' + 3) by omega, Nat.mul_add]
    congr 1
    rw [Nat.mul_comm n (4 * K), Nat.mul_comm 4 K, Nat.mul_assoc]
  have h3 : 1 * (2 * K' + 3) ≤ n * (2 * K' + 3) := Nat.mul_le_mul_right _ (by omega)
  omega

/-! ## non-vacuity -/

example : ValidUtf8 (b!"shout(\"a\\nb\", 'c\\'d')") := by decide
/-- escape in the middle: the reservation is the text up to the closing quote -/
example : lexCaps (b!"\"a\\nb\"") = [4] := by decide +kernel
/-- escaped quotes: the reservation stops at the first of them (3), the buffer grows to 8 -/
example : lexCaps (b!"\"\\\"\\\"\\\"\\\"x\"") = [8] := by decide +kernel
/-- growth past the hint, the sharp case of the factor 2: capacity `2·20+4`, extent `28` -/
example : lexCaps (b!"\"\\\"\\\"aaaaaaaaaaaaaaaaaaaa\\n\"") = [44] ∧
    (lex (b!"\"\\\"\\\"aaaaaaaaaaaaaaaaaaaa\\n\"")).1.map (·.span) = [⟨0, 28⟩, ⟨28, 28⟩] := by decide +kernel
/-- several strings on a line, both quote characters, an invalid multi-byte escape, a borrowed one -/
example : lexCaps (b!"shout(\"a\\nb\", 'c\\'d', \"e\", \"\\€\")") = [4, 4, 4] := by decide +kernel
/-- backslash + line end: the hint stops at the line end (1), the string goes on -/
example : lexCaps (b!"\"\\\n\\n\"") = [8] := by decide +kernel
/-- end of input: the first token reserves the rest of the file (10 bytes) for an extent of 3, and the
text behind its escape is lexed again — `strAtEof` -/
example : lexCaps (b!"\"\\n abc def") = [10] ∧ strAtEof (b!"\"\\n abc def") 0 = true ∧
    (lex (b!"\"\\n abc def")).1.map (·.span) = [⟨0, 3⟩, ⟨4, 7⟩, ⟨8, 11⟩, ⟨11, 11⟩] := by decide +kernel
/-- a backslash as the last byte: two tokens (one per quote character) reserve up to the end -/
example : lexCaps (b!"\"x 'y \\") = [6, 3] ∧ strAtEof (b!"\"x 'y \\") 0 = true ∧ strAtEof (b!"\"x 'y \\") 3 = true := by
  decide +kernel
/-- such a token may exceed twice its extent (56 > 2·19): the run before the last backslash is pushed -/
example : lexCaps (b!"\"\\\"\\\"aaaaaaaaaaaa\\nbbbbbbbbbbbbbbbbbbbbbbbbbbbbbb\\") = [56] ∧
    (lex (b!"\"\\\"\\\"aaaaaaaaaaaa\\nbbbbbbbbbbbbbbbbbbbbbbbbbbbbbb\\")).1.map (·.span) = [⟨0, 19⟩, ⟨19, 49⟩, ⟨49, 49⟩] := by
  decide +kernel
/-- no escape, no reservation -/
example : lexCaps (b!"\"abc\" 'def' \"abc") = [] := by decide +kernel
/-- the constant of `lexCaps_sum_le` cannot be lowered below 12/5: 510 bytes for a source of 210 -/
example :
    let src := b!"\"\\\"\\\"" ++ List.replicate 100 97 ++ b!"\\n'" ++ List.replicate 101 98 ++ [92]
    src.length = 210 ∧ lexCaps src = [408, 102] := by decide +kernel
/-- D-19 in numbers: 30 strings, 120 bytes of source; pinned 1830 bytes, fixed 60 -/
example : (lexCapsPinned (escFamily 30)).sum = 1830 ∧ (lexCaps (escFamily 30)).sum = 60 ∧
    10 * (escFamily 30).length < (lexCapsPinned (escFamily 30)).sum := by decide +kernel
/-- the pinned reservation on the D-19 witness shape `shout("a\nb")` × 3 -/
example : lexCapsPinned (b!"shout(\"a\\nb\")\nshout(\"a\\nb\")\nshout(\"a\\nb\")\n") = [35, 21, 7] ∧
    lexCaps (b!"shout(\"a\\nb\")\nshout(\"a\\nb\")\nshout(\"a\\nb\")\n") = [4, 4, 4] := by decide +kernel

end NaijaVerif.Props.C07Mem
