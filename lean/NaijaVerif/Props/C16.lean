/-
C16 — Captured child output is complete or an error, never silently truncated; the child is not
left running.  (partial: OS scheduling, pipes, kill/wait are assumed as `Model/Capture.lean` states
them; everything else is proved for all interleavings, sizes, caps, policies and exit codes.)

Theorems about the transition system of `Model/Capture.lean`; the inductive invariant and its
preservation lemmas are in `Lemmas/Capture.lean`.  `Gen/Capture.lean` (regenerated from
`src/sys/process_common.rs` on every run) is tied to the constants and to the *shape* of
`join_capture` that the theorems are about.
-/
import NaijaVerif.Model.Capture
import NaijaVerif.Lemmas.Capture
import NaijaVerif.Lemmas.CaptureLive
import NaijaVerif.Gen.Capture

namespace NaijaVerif.Capture

/-! ### Tie of the generated constants to the model -/

/-- The reader's chunk is non-empty (a zero-length `read` would look like EOF). -/
theorem gen_chunk_pos : 0 < Gen.Capture.chunk := by decide

/-- Flag encodings: initial value, the CAS's expected value (first writer wins), the code each reader
thread passes, and `stream_from_code`, are the model's. -/
theorem gen_flag_codes :
    Gen.Capture.initFlag = 0 ∧ Gen.Capture.casExpected = Gen.Capture.initFlag ∧
    Gen.Capture.codeOut = code .out ∧ Gen.Capture.codeErr = code .err ∧
    Gen.Capture.fromCodeArm = code .out ∧ Gen.Capture.fromCodeArmIsOut = true ∧
    Gen.Capture.fromCodeOtherIsErr = true := by decide

/-- `fromCode` inverts `code`, and every non-zero flag value the readers can store maps back to the
stream that stored it. -/
theorem fromCode_code (x : Strm) : fromCode (code x) = x := by cases x <;> rfl

/-- The source's `join_capture` is the one the full-strength theorems below are stated for (any
non-zero flag is an overflow, D-16 fixed). If /repo still has (or goes back to) the pinned test
`flag == stream_code(stream)`, this obligation breaks and the check searches for the D-16 schedule. -/
theorem gen_join_checks_any_flag : Gen.Capture.joinAnyFlag = true := by decide

/-- The poll interval is floored at one tick, as `wait_poll_ms.max(1)`; the default is positive anyway. -/
theorem gen_default_poll_pos : 0 < Gen.Capture.defaultPollMs := by decide

/-! ### The inductive invariant holds in every reachable state -/

theorem inv_init (cfg : Cfg) (plan : Plan) : Inv cfg plan (init cfg plan) := Inv.init cfg plan

theorem inv_step (cfg : Cfg) (plan : Plan) (s s' : State) (l : Label) (h : Inv cfg plan s)
    (hs : step cfg plan s l = some s') : Inv cfg plan s' := h.step hs

/-- For every interleaving (any list of labels whose steps are all enabled). -/
theorem inv_reachable (cfg : Cfg) (plan : Plan) (ls : List Label) (s : State)
    (hr : run cfg plan (init cfg plan) ls = some s) : Inv cfg plan s := (Inv.init cfg plan).run hr

/-- Conservation, per stream: as long as the reader has not given up, its buffer, the chunk in its
hand, the pipe and what the child has still to write are exactly the planned bytes, in order —
nothing lost, nothing duplicated, nothing from the other stream. -/
theorem conservation (cfg : Cfg) (plan : Plan) (ls : List Label) (s : State) (x : Strm)
    (hr : run cfg plan (init cfg plan) ls = some s) (hc : cfg.captured x = true)
    (hn : (s.side x).rd ≠ .ovf) :
    (s.side x).acc ++ (s.side x).rd.inHand ++ (s.side x).pipe ++ (s.side x).pending = plan.bytes x := by
  have h := inv_reachable cfg plan ls s hr
  cases x with
  | out =>
    have hna : s.o.rd ≠ .absent := fun ha => by have := h.so.not_captured_of ha; simp_all
    have h1 := h.so.conserve hna hn
    have h2 := h.so.planned hn
    simp only [side_out, Plan.bytes]; rw [h1, h2]
  | err =>
    have hna : s.e.rd ≠ .absent := fun ha => by have := h.se.not_captured_of ha; simp_all
    have h1 := h.se.conserve hna hn
    have h2 := h.se.planned hn
    simp only [side_err, Plan.bytes]; rw [h1, h2]

/-- The reader's buffer never exceeds the cap. -/
theorem buffer_within_cap (cfg : Cfg) (plan : Plan) (ls : List Label) (s : State) (x : Strm)
    (hr : run cfg plan (init cfg plan) ls = some s) : (s.side x).acc.length ≤ cfg.cap := by
  have h := inv_reachable cfg plan ls s hr
  cases x
  · exact h.so.accCap
  · exact h.se.accCap

/-! ### Safety: what a terminal state can be -/

/-- Everything known at a terminal state, in one statement (the corollaries below unpack it). -/
theorem terminal_sound (cfg : Cfg) (plan : Plan) (ls : List Label) (s : State) (r : Outcome)
    (hr : run cfg plan (init cfg plan) ls = some s) (ht : s.result = some r) :
    allowed cfg plan r = true ∧ s.child.isReaped = true ∧ Good cfg plan s r := by
  have h := (inv_reachable cfg plan ls s hr).pcInv
  unfold State.result at ht
  unfold PcInv at h
  split at ht
  · next r' hpc => cases ht; simp only [hpc] at h; exact ⟨h.2.1, h.1, h.2⟩
  · cases ht

/-- **Complete or nothing.** In every terminal state with an `ok` result, for every one of the nine
stdout/stderr policy combinations, every cap and every interleaving: the child ended by itself as
planned and was reaped, the exit code is the planned one (`none` for a signal) — ordinary data,
non-zero included —, each captured stream holds **all** the bytes the child was told to write to it
(so: not truncated, nothing from the other stream), is within the cap and valid UTF-8, and an
uncaptured stream is null. -/
theorem ok_is_complete (cfg : Cfg) (plan : Plan) (ls : List Label) (s : State)
    (st : Option Nat) (out err : Option Bytes)
    (hr : run cfg plan (init cfg plan) ls = some s) (ht : s.result = some (.ok st out err)) :
    s.child = .reaped st .plan ∧ plan.ending.status = some st ∧
    (cfg.polOut = .capture → out = some plan.out ∧ plan.out.length ≤ cfg.cap ∧ validUtf8 plan.out = true) ∧
    (cfg.polOut ≠ .capture → out = none) ∧
    (cfg.polErr = .capture → err = some plan.err ∧ plan.err.length ≤ cfg.cap ∧ validUtf8 plan.err = true) ∧
    (cfg.polErr ≠ .capture → err = none) := by
  obtain ⟨ha, _, hg⟩ := terminal_sound cfg plan ls s _ hr ht
  have hchild := hg.2.2.1 st out err rfl
  simp only [allowed, Bool.and_eq_true, beq_iff_eq, Bool.or_eq_true, Bool.not_eq_true'] at ha
  obtain ⟨⟨⟨⟨⟨⟨hst, hoo⟩, hoe⟩, ho⟩, he⟩, hvo⟩, hve⟩ := ha
  have hco : cfg.captured .out = true ↔ cfg.polOut = .capture := by simp [Cfg.captured, Cfg.pol]
  have hce : cfg.captured .err = true ↔ cfg.polErr = .capture := by simp [Cfg.captured, Cfg.pol]
  refine ⟨hchild, hst, ?_, ?_, ?_, ?_⟩
  · intro hc
    have hc' := hco.mpr hc
    rw [over_eq_false_iff] at hoo; simp only [hc', Bool.true_eq_false, false_or, Plan.bytes] at hoo
    simp only [expect, hc', if_true, Plan.bytes] at ho
    simp only [hc', Bool.true_eq_false, false_or] at hvo
    exact ⟨ho, by omega, hvo⟩
  · intro hc
    have hc' : cfg.captured .out = false := by
      cases h : cfg.captured .out
      · rfl
      · exact absurd (hco.mp h) hc
    simpa [expect, hc'] using ho
  · intro hc
    have hc' := hce.mpr hc
    rw [over_eq_false_iff] at hoe; simp only [hc', Bool.true_eq_false, false_or, Plan.bytes] at hoe
    simp only [expect, hc', if_true, Plan.bytes] at he
    simp only [hc', Bool.true_eq_false, false_or] at hve
    exact ⟨he, by omega, hve⟩
  · intro hc
    have hc' : cfg.captured .err = false := by
      cases h : cfg.captured .err
      · rfl
      · exact absurd (hce.mp h) hc
    simpa [expect, hc'] using he

/-- No terminal state is `ok` with a shortened (or otherwise different) captured stream — stated
for explicit policies to make the nine combinations visible. -/
theorem never_truncated_ok (polOut polErr : Policy) (cfg : Cfg) (plan : Plan) (ls : List Label)
    (s : State) (st : Option Nat) (out err : Option Bytes)
    (hpo : cfg.polOut = polOut) (hpe : cfg.polErr = polErr)
    (hr : run cfg plan (init cfg plan) ls = some s) (ht : s.result = some (.ok st out err)) :
    out = (if polOut = .capture then some plan.out else none) ∧
    err = (if polErr = .capture then some plan.err else none) := by
  obtain ⟨_, _, h1, h2, h3, h4⟩ := ok_is_complete cfg plan ls s st out err hr ht
  subst hpo hpe
  constructor
  · split
    · next hc => exact (h1 hc).1
    · next hc => exact h2 hc
  · split
    · next hc => exact (h3 hc).1
    · next hc => exact h4 hc

/-- `OutputLimitExceeded(x)` only if `x` is captured and the child was told to write more than the
cap to it. -/
theorem ole_only_if_over (cfg : Cfg) (plan : Plan) (ls : List Label) (s : State) (x : Strm)
    (hr : run cfg plan (init cfg plan) ls = some s) (ht : s.result = some (.error (.ole x))) :
    cfg.pol x = .capture ∧ cfg.cap < (plan.bytes x).length := by
  obtain ⟨ha, _, _⟩ := terminal_sound cfg plan ls s _ hr ht
  simpa [allowed, over, Cfg.captured] using ha

/-- `Timeout` only after the deadline. -/
theorem timeout_only_after_deadline (cfg : Cfg) (plan : Plan) (ls : List Label) (s : State)
    (hr : run cfg plan (init cfg plan) ls = some s) (ht : s.result = some (.error .timeout)) :
    cfg.timeout ≤ s.now :=
  (terminal_sound cfg plan ls s _ hr ht).2.2.2.1 rfl

/-- A child that never ends on its own never yields an `ok` result. -/
theorem hang_is_never_ok (cfg : Cfg) (plan : Plan) (ls : List Label) (s : State) (r : Outcome)
    (hh : plan.ending = .never) (hr : run cfg plan (init cfg plan) ls = some s)
    (ht : s.result = some r) : ∃ e, r = .error e := by
  cases r with
  | error e => exact ⟨e, rfl⟩
  | ok st o e =>
    have := (ok_is_complete cfg plan ls s st o e hr ht).2.1
    simp [hh, Ending.status] at this

/-- **The child is not left running.** In every terminal state — success, either kill path
(overflow seen by the waiter, timeout), or an error found while joining — the child has been
reaped: it is neither alive nor a zombie. -/
theorem child_reaped_at_end (cfg : Cfg) (plan : Plan) (ls : List Label) (s : State) (r : Outcome)
    (hr : run cfg plan (init cfg plan) ls = some s) (ht : s.result = some r) :
    ∃ st c, s.child = .reaped st c := by
  have := (terminal_sound cfg plan ls s r hr ht).2.1
  cases hc : s.child <;> simp_all [Child.isReaped]

/-- On the kill paths the order is kill, then wait: the main thread reaches the joins of the error
path only with the child reaped, and `wait` only with the child already a zombie (killed by
`kill`, or dead by itself before). -/
theorem kill_paths_kill_then_reap (cfg : Cfg) (plan : Plan) (ls : List Label) (s : State) (e : Err)
    (hr : run cfg plan (init cfg plan) ls = some s) :
    (s.pc = .reap e → s.child.isZombie = true) ∧
    (s.pc = .eJoinOut e ∨ s.pc = .eJoinErr e → s.child.isReaped = true) := by
  have h := (inv_reachable cfg plan ls s hr).pcInv
  unfold PcInv at h
  refine ⟨fun hpc => ?_, fun hpc => ?_⟩
  · simp only [hpc] at h; exact h.1
  · rcases hpc with hpc | hpc <;> (simp only [hpc] at h; exact h.1)

/-! ### The kind of error: `InvalidUtf8` (D-16) -/

/-- "The corresponding error": `InvalidUtf8(x)` is reported only if what the child wrote to `x` is
not valid UTF-8. Parameterised by which `join_capture` is modelled. -/
def c16_right_kind (fixedJoin : Bool) : Prop :=
  ∀ (cfg : Cfg) (plan : Plan) (ls : List Label) (s : State) (x : Strm),
    cfg.fixedJoin = fixedJoin → run cfg plan (init cfg plan) ls = some s →
    s.result = some (.error (.badUtf8 x)) → validUtf8 (s.side x).written = false

/-- With the fixed `join_capture` (what `gen_join_checks_any_flag` ties to /repo) the clause holds
without exclusion. -/
theorem c16_right_kind_fixed : c16_right_kind true := by
  intro cfg plan ls s x hf hr ht
  obtain ⟨_, _, hg⟩ := terminal_sound cfg plan ls s _ hr ht
  cases x with
  | out =>
    rcases hg.2.2.2.1 rfl with h | ⟨h, _⟩
    · exact h
    · rw [hf] at h; cases h
  | err => exact hg.2.2.2.2 rfl

/-- … and then it is also the *plan* that is invalid, the stream is captured and within the cap. -/
theorem badUtf8_only_if_invalid (cfg : Cfg) (plan : Plan) (ls : List Label) (s : State) (x : Strm)
    (hf : cfg.fixedJoin = true) (hr : run cfg plan (init cfg plan) ls = some s)
    (ht : s.result = some (.error (.badUtf8 x))) :
    cfg.pol x = .capture ∧ (plan.bytes x).length ≤ cfg.cap ∧ validUtf8 (plan.bytes x) = false := by
  obtain ⟨ha, _, _⟩ := terminal_sound cfg plan ls s _ hr ht
  cases x with
  | out =>
    simp only [allowed, hf, Bool.and_eq_true, Bool.not_eq_true', Bool.not_true,
      Bool.false_and, Bool.or_false] at ha
    obtain ⟨hc, hno, hv⟩ := ha
    have hc' : cfg.polOut = .capture := by simpa [Cfg.captured, Cfg.pol] using hc
    rw [over_eq_false_iff] at hno; simp only [hc, Bool.true_eq_false, false_or, Plan.bytes] at hno
    exact ⟨hc', by simp only [Plan.bytes]; omega, hv⟩
  | err =>
    simp only [allowed, Bool.and_eq_true, Bool.or_eq_true, Bool.not_eq_true'] at ha
    obtain ⟨⟨⟨⟨hc, hno⟩, _⟩, hv⟩, _⟩ := ha
    have hc' : cfg.polErr = .capture := by simpa [Cfg.captured, Cfg.pol] using hc
    rw [over_eq_false_iff] at hno; simp only [hc, Bool.true_eq_false, false_or, Plan.bytes] at hno
    exact ⟨hc', by simp only [Plan.bytes]; omega, hv⟩

/-- The pinned commit's `join_capture` (only the stream's own code is recognised): the D-16 witness.
cap 4; stdout `"€€"`, stderr `"₩₩"`, both valid. The waiter loads the flag (still 0); the child
writes 4 bytes of stdout (the reader buffers `€` + the first byte of the next `€`), then all of
stderr (its reader overflows and wins the CAS), then the rest of stdout (its reader overflows,
loses the CAS and keeps its truncated buffer), and exits; `try_wait` sees the exit;
`join_capture(stdout)` sees flag 2 ≠ 1 and validates the truncated buffer. -/
def d16Cfg : Cfg :=
  { cap := 4, chunk := 8192, pipeCap := 65536, polOut := .capture, polErr := .capture,
    timeout := 1000, poll := 1, fixedJoin := false }

def d16Plan : Plan := { out := b!"€€", err := b!"₩₩", ending := .code 0, sigpipeDies := false }

def d16Labels : List Label :=
  [.main, .childWrite .out 4, .rdRead .out, .rdCheck .out, .childWrite .err 6, .rdRead .err,
   .rdCheck .err, .childWrite .out 2, .rdRead .out, .rdCheck .out, .childEnd, .main, .main, .main]

theorem c16_pinned_wrong_kind : ¬ c16_right_kind false := by
  intro h
  have hd : (run d16Cfg d16Plan (init d16Cfg d16Plan) d16Labels).map
      (fun s => (s.result, validUtf8 (s.side .out).written)) =
      some (some (.error (.badUtf8 .out)), true) := by decide
  cases hr : run d16Cfg d16Plan (init d16Cfg d16Plan) d16Labels with
  | none => simp [hr] at hd
  | some s =>
    simp only [hr, Option.map_some, Option.some.injEq, Prod.mk.injEq] at hd
    have := h d16Cfg d16Plan d16Labels s .out rfl hr hd.1
    rw [hd.2] at this; cases this

/-- The same schedule under the fixed `join_capture` yields the corresponding error. -/
example : (run { d16Cfg with fixedJoin := true } d16Plan (init d16Cfg d16Plan) d16Labels).map State.result
    = some (some (.error (.ole .err))) := by decide

/-- Even on the pinned commit the wrong kind needs both streams over the cap. -/
theorem c16_right_kind_pinned_partial (cfg : Cfg) (plan : Plan) (ls : List Label) (s : State) (x : Strm)
    (hex : ¬ (over cfg plan .out = true ∧ over cfg plan .err = true))
    (hr : run cfg plan (init cfg plan) ls = some s) (ht : s.result = some (.error (.badUtf8 x))) :
    validUtf8 (s.side x).written = false := by
  obtain ⟨_, _, hg⟩ := terminal_sound cfg plan ls s _ hr ht
  cases x with
  | out =>
    rcases hg.2.2.2.1 rfl with h | ⟨_, h⟩
    · exact h
    · exact absurd h hex
  | err => exact hg.2.2.2.2 rfl

/-- The exclusion is satisfiable by a non-trivial run (invalid stdout within the cap, stderr over). -/
example : ¬ (over d16Cfg { d16Plan with out := [0xE2, 0x82] } .out = true ∧
    over d16Cfg { d16Plan with out := [0xE2, 0x82] } .err = true) := by decide

/-- A child told to write more than the cap to a captured stream never yields an `ok` result. -/
theorem over_limit_is_never_ok (cfg : Cfg) (plan : Plan) (ls : List Label) (s : State) (r : Outcome) (x : Strm)
    (ho : over cfg plan x = true) (hr : run cfg plan (init cfg plan) ls = some s)
    (ht : s.result = some r) : ∃ e, r = .error e := by
  cases r with
  | error e => exact ⟨e, rfl⟩
  | ok st o e =>
    obtain ⟨ha, _, _⟩ := terminal_sound cfg plan ls s _ hr ht
    simp only [allowed, Bool.and_eq_true, Bool.not_eq_true'] at ha
    cases x <;> simp_all

/-! ### Liveness (for the model's fair runs)

Two facts that together say: if time keeps passing and a thread whose step is enabled eventually
takes it, every run reaches a terminal state — and by the theorems above that state is an error for
an over-limit or overrunning child (`over_limit_is_never_ok`, `hang_is_never_ok`).

* `no_deadlock`: in a reachable non-terminal state the runner can always move by itself (it never
  waits for the child to cooperate): the main thread is enabled, or it sleeps and waits for time, or
  it waits in a join for a reader that is enabled.
* `bounded_work`: a variant `State.mu` is strictly decreased by every step that is not a tick and
  never increased by a tick, so an execution contains at most `μ(init)` non-tick steps — a number
  linear in the timeout and the planned output. No schedule keeps the runner busy for ever. -/

theorem no_deadlock (cfg : Cfg) (plan : Plan) (ls : List Label) (s : State) (hchunk : 0 < cfg.chunk)
    (hr : run cfg plan (init cfg plan) ls = some s) (hnt : s.result = none) :
    (step cfg plan s .main).isSome = true ∨ (∃ w, s.pc = .sleep w ∧ s.now < w) ∨
      (∃ x, readerEnabled cfg plan s x) :=
  progress_of_inv hchunk (inv_reachable cfg plan ls s hr) hnt

/-- A state in which nothing but the child could move and no sleep is pending is terminal. -/
theorem stuck_is_terminal (cfg : Cfg) (plan : Plan) (ls : List Label) (s : State) (hchunk : 0 < cfg.chunk)
    (hr : run cfg plan (init cfg plan) ls = some s)
    (hmain : step cfg plan s .main = none) (hsleep : ∀ w, s.pc = .sleep w → w ≤ s.now)
    (hrd : ∀ x, ¬ readerEnabled cfg plan s x) : ∃ r, s.result = some r := by
  cases hres : s.result with
  | some r => exact ⟨r, rfl⟩
  | none =>
    rcases no_deadlock cfg plan ls s hchunk hr hres with h | ⟨w, hw, hlt⟩ | ⟨x, hx⟩
    · simp [hmain] at h
    · have := hsleep w hw; omega
    · exact absurd hx (hrd x)

theorem step_decreases_variant (cfg : Cfg) (plan : Plan) (s s' : State) (l : Label)
    (h : step cfg plan s l = some s') : (l ≠ .tick → s'.mu cfg < s.mu cfg) ∧ s'.mu cfg ≤ s.mu cfg := by
  by_cases hl : l = .tick
  · subst hl; exact ⟨fun h' => absurd rfl h', step_mu_tick h⟩
  · exact ⟨fun _ => step_mu_lt h hl, Nat.le_of_lt (step_mu_lt h hl)⟩

theorem bounded_work (cfg : Cfg) (plan : Plan) (ls : List Label) (s : State)
    (hr : run cfg plan (init cfg plan) ls = some s) :
    nonTicks ls ≤ 5 * cfg.timeout + 5 * (plan.out.length + plan.err.length) + 14 := by
  have h := run_nonTicks_le hr
  have hi : (init cfg plan).mu cfg ≤ 5 * cfg.timeout + 5 * (plan.out.length + plan.err.length) + 14 := by
    simp only [State.mu, init, Side.init, Pc.mu, Side.mu, Child.mu, List.length_nil]
    have h1 : ∀ p : Policy, (if p = .capture then Rd.idle else Rd.absent).rank ≤ 2 := by
      intro p; split <;> simp [Rd.rank]
    have := h1 cfg.polOut; have := h1 cfg.polErr
    omega
  omega

/-! ### Non-vacuity: concrete executions reach each kind of terminal state -/

/-- ok, exit code 3 as data, stdout captured in full, stderr not captured. -/
example :
    (run { d16Cfg with cap := 5, polErr := .null } { out := b!"hello", err := b!"x", ending := .code 3, sigpipeDies := false }
      (init { d16Cfg with cap := 5, polErr := .null } { out := b!"hello", err := b!"x", ending := .code 3, sigpipeDies := false })
      [.childWrite .out 2, .rdRead .out, .main, .childWrite .err 1, .childWrite .out 3, .rdCheck .out,
       .main, .main, .tick, .rdRead .out, .childEnd, .main, .main, .rdCheck .out, .rdEof .out, .main,
       .main, .main, .main]).map State.result
    = some (some (.ok (some 3) (some (b!"hello")) none)) := by decide

/-- One byte over the cap, child exits before the waiter looks again: the post-exit re-check of the
flag in `join_capture` turns it into the error. -/
example :
    (run d16Cfg { out := b!"hello", err := [], ending := .code 0, sigpipeDies := false }
      (init d16Cfg { out := b!"hello", err := [], ending := .code 0, sigpipeDies := false })
      [.main, .childWrite .out 5, .childEnd, .main, .rdRead .out, .rdCheck .out, .main, .main]).map State.result
    = some (some (.error (.ole .out))) := by decide

/-- A hanging child: timeout after the deadline, killed and reaped. -/
example :
    (run { d16Cfg with timeout := 2 } { out := [], err := [], ending := .never, sigpipeDies := false }
      (init { d16Cfg with timeout := 2 } { out := [], err := [], ending := .never, sigpipeDies := false })
      [.main, .main, .main, .tick, .main, .main, .main, .main, .tick, .main, .main, .main, .main,
       .main, .main, .rdEof .out, .rdEof .err, .main, .main]).map (fun s => (s.result, s.child))
    = some (some (.error .timeout), .reaped none .killed) := by decide

end NaijaVerif.Capture
