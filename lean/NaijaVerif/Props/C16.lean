/-
C16 — Captured child output is complete or an error, never silently truncated; the child is not
left running.  (partial: OS scheduling, pipes, kill/wait are assumed as `Model/Capture.lean` states
them; everything else is proved for all interleavings, sizes, caps, policies and exit codes —
including executions in which a `read` of a captured stream or a `write` of the stdin text fails,
whatever the stdin writer thread and the child's reading of its stdin do, and for children that
**close or redirect a captured stream and keep running**: a reader's end of file says nothing about
the child's life, and nothing here assumes it does.)

Theorems about the transition system of `Model/Capture.lean`; the inductive invariant and its
preservation lemmas are in `Lemmas/Capture.lean`.  `Gen/Capture.lean` (regenerated from
`src/sys/process_common.rs` on every run) is tied to the constants and to the *shape* of
`join_capture` that the theorems are about.
-/
import NaijaVerif.Model.Capture
import NaijaVerif.Lemmas.Capture
import NaijaVerif.Lemmas.CaptureLive
import NaijaVerif.Lemmas.CaptureFault
import NaijaVerif.Lemmas.CaptureTime
import NaijaVerif.Lemmas.CaptureRead
import NaijaVerif.Gen.Capture

namespace NaijaVerif.Capture

/-! ### Tie of the generated constants to the model -/

/-- The reader's chunk is non-empty (a zero-length `read` would look like EOF). -/
theorem gen_chunk_pos : 0 < Gen.Capture.chunk := by decide

/-- Flag encodings: initial value, the CAS's expected value (first writer wins), the code each reader
thread passes, and `stream_from_code`, are the model's. -/
theorem gen_flag_codes :
    Gen.Capture.initFlag = 0 ∧ Gen.Capture.casExpected = Gen.Capture.initFlag ∧
    Gen.Capture.codeOut = code .out ∧ Gen.Capture.codeErr = code .err ∧
    Gen.Capture.fromCodeArm = code .out ∧ Gen.Capture.fromCodeArmIsOut = true ∧
    Gen.Capture.fromCodeOtherIsErr = true := by decide

/-- `fromCode` inverts `code`, and every non-zero flag value the readers can store maps back to the
stream that stored it. -/
theorem fromCode_code (x : Strm) : fromCode (code x) = x := by cases x <;> rfl

/-- The source's `join_capture` is the one the full-strength theorems below are stated for (any
non-zero flag is an overflow, D-16 fixed). If /repo still has (or goes back to) the pinned test
`flag == stream_code(stream)`, this obligation breaks and the check searches for the D-16 schedule. -/
theorem gen_join_checks_any_flag : Gen.Capture.joinAnyFlag = true := by decide

/-- A failing `read` leaves the reader loop through `?` and `join_capture` passes the thread's `Err`
on before it looks at anything else: the `rdFail` step and the `.failed` arms of `joinOut`/`joinErr`.
If /repo treats a failing read like end of file (seeded change C16-c1) this obligation breaks and
the check searches the `rd` stream for the script that shows the shortened result. -/
theorem gen_reader_error_propagates :
    Gen.Capture.readErrorPropagates = true ∧ Gen.Capture.joinPassesReaderError = true := by decide

/-- The stdin writer is joined only after the wait loop (`stepMain`, not `stepMainWF`), and maps
`BrokenPipe` — and nothing else — to `Ok`. If /repo joins it first (seeded change C16-c2) this
obligation breaks and the check searches the stdin scenarios for the run that is not a timeout. -/
theorem gen_writer_joined_after_wait :
    Gen.Capture.writerJoinedAfterWait = true ∧ Gen.Capture.writerEpipeIsOk = true := by decide

/-- The wait loop looks at the flag, at the child (`try_wait`) and at the deadline on **every**
iteration and does nothing else but sleep: its body is, statement for statement, `Pc.load`,
`Pc.tryWait`, `Pc.deadline`, `Pc.sleep` of `stepMain` — no early exit, no test of the reader threads,
and no blocking `wait()` inside `wait_for_child` (the only one is `terminate_child`'s, after `kill`).
If /repo stops polling under some condition (seeded change C16-d1: a blocking `child.wait()` once the
capture readers have finished — `stepMainWE`) this obligation breaks and the check searches the
`close` scenarios for the child that is never timed out. -/
theorem gen_wait_loop_polls_unconditionally :
    Gen.Capture.waitLoopPollsUnconditionally = true ∧ Gen.Capture.waitLoopBlockingWaits = 0 := by decide

/-- The poll interval is floored at one tick, as `wait_poll_ms.max(1)`; the default is positive anyway. -/
theorem gen_default_poll_pos : 0 < Gen.Capture.defaultPollMs := by decide

/-! ### The inductive invariant holds in every reachable state -/

theorem inv_init (cfg : Cfg) (plan : Plan) : Inv cfg plan (init cfg plan) := Inv.init cfg plan

theorem inv_step (cfg : Cfg) (plan : Plan) (s s' : State) (l : Label) (h : Inv cfg plan s)
    (hs : step cfg plan s l = some s') : Inv cfg plan s' := h.step hs

/-- For every interleaving (any list of labels whose steps are all enabled). -/
theorem inv_reachable (cfg : Cfg) (plan : Plan) (ls : List Label) (s : State)
    (hr : run cfg plan (init cfg plan) ls = some s) : Inv cfg plan s := (Inv.init cfg plan).run hr

/-- Conservation, per stream: as long as the reader has not given up (neither stopped on the size
check nor ended by a failing `read`), its buffer, the chunk in its
hand, the pipe and what the child has still to write are exactly the planned bytes — the bytes the
child writes to the stream before it closes it or exits —, in order:
nothing lost, nothing duplicated, nothing from the other stream. Whether the child has closed its end
of the stream in the meantime makes no difference. -/
theorem conservation (cfg : Cfg) (plan : Plan) (ls : List Label) (s : State) (x : Strm)
    (hr : run cfg plan (init cfg plan) ls = some s) (hc : cfg.captured x = true)
    (hn : (s.side x).rd ≠ .ovf) (hnf : (s.side x).rd ≠ .failed) :
    (s.side x).acc ++ (s.side x).rd.inHand ++ (s.side x).pipe ++ (s.side x).pending = plan.bytes x := by
  have h := inv_reachable cfg plan ls s hr
  cases x with
  | out =>
    have hna : s.o.rd ≠ .absent := fun ha => by have := h.so.not_captured_of ha; simp_all
    have h1 := h.so.conserve hna hn
    have h2 := h.so.planned hn hnf
    simp only [side_out, Plan.bytes]; rw [h1, h2]
  | err =>
    have hna : s.e.rd ≠ .absent := fun ha => by have := h.se.not_captured_of ha; simp_all
    have h1 := h.se.conserve hna hn
    have h2 := h.se.planned hn hnf
    simp only [side_err, Plan.bytes]; rw [h1, h2]

/-- The reader's buffer never exceeds the cap. -/
theorem buffer_within_cap (cfg : Cfg) (plan : Plan) (ls : List Label) (s : State) (x : Strm)
    (hr : run cfg plan (init cfg plan) ls = some s) : (s.side x).acc.length ≤ cfg.cap := by
  have h := inv_reachable cfg plan ls s hr
  cases x
  · exact h.so.accCap
  · exact h.se.accCap

/-! ### A child that closes (or redirects) a captured stream and keeps running

`childClose x`: the child's end of the stream is closed while the child lives on — `close(1)`,
`exec 1>&-`, `exec >/dev/null`, a daemon detaching from its terminal. The reader then sees end of file
with the child alive. What is known about that moment: -/

/-- After the close no write to that stream is possible … -/
theorem no_write_after_close (cfg : Cfg) (plan : Plan) (s : State) (x : Strm) (n : Nat)
    (hc : (s.side x).wopen = false) : step cfg plan s (.childWrite x n) = none := by
  simp only [step]
  split
  · simp [Side.write, hc]
  · rfl

/-- … and none was outstanding: the child closes a stream after its last byte to it. -/
theorem closed_after_last_byte (cfg : Cfg) (plan : Plan) (ls : List Label) (s : State) (x : Strm)
    (hr : run cfg plan (init cfg plan) ls = some s) (hc : (s.side x).wopen = false) :
    (s.side x).pending = [] := by
  have h := inv_reachable cfg plan ls s hr
  cases x
  · exact h.so.closedDone hc
  · exact h.se.closedDone hc

/-- **End of file means "closed", not "exited" — and it is complete.** A reader that has seen end of
file did so with the child gone *or* with the child's end of that stream closed (the child possibly
still running); the pipe is drained, and the reader's buffer is **every byte the child wrote to the
stream before closing it**, which is the whole plan for that stream. -/
theorem eof_is_complete (cfg : Cfg) (plan : Plan) (ls : List Label) (s : State) (x : Strm)
    (hr : run cfg plan (init cfg plan) ls = some s) (he : (s.side x).rd = .eof) :
    (s.child.isAlive = false ∨ (s.side x).wopen = false) ∧ (s.side x).pipe = [] ∧
      (s.side x).acc = (s.side x).written ∧
      (s.side x).written ++ (s.side x).pending = plan.bytes x ∧
      (s.child.isAlive = false ∨ (s.side x).acc = plan.bytes x) := by
  have h := inv_reachable cfg plan ls s hr
  have hd := h.eofDead x he
  cases x with
  | out =>
    simp only [side_out] at he hd ⊢
    obtain ⟨hacc, hpl⟩ := h.so.eof_acc he
    refine ⟨hd, h.so.eofEmpty he, hacc, hpl, ?_⟩
    rcases hd with hd | hd
    · exact Or.inl hd
    · right; have := h.so.closedDone hd; rw [this] at hpl; simpa [hacc, Plan.bytes] using hpl
  | err =>
    simp only [side_err] at he hd ⊢
    obtain ⟨hacc, hpl⟩ := h.se.eof_acc he
    refine ⟨hd, h.se.eofEmpty he, hacc, hpl, ?_⟩
    rcases hd with hd | hd
    · exact Or.inl hd
    · right; have := h.se.closedDone hd; rw [this] at hpl; simpa [hacc, Plan.bytes] using hpl

def closeCfg : Cfg :=
  { cap := 4, chunk := 8192, pipeCap := 65536, polOut := .capture, polErr := .capture,
    timeout := 1000, poll := 1, fixedJoin := true }

/-- Non-vacuity: the reader of stdout is at end of file, holding "hi", while the child is alive (and
will be for ever: it hangs); stderr is still open. -/
example :
    (run closeCfg { out := b!"hi", err := b!"x", ending := .never, sigpipeDies := false }
      (init closeCfg { out := b!"hi", err := b!"x", ending := .never, sigpipeDies := false })
      [.childWrite .out 2, .childClose .out, .rdRead .out, .rdCheck .out, .rdEof .out]).map
      (fun s => (s.o.rd, s.o.acc, s.child, s.o.wopen, s.e.wopen))
    = some (.eof, b!"hi", .alive, false, true) := by decide

/-- A stream cannot be closed twice, nor with bytes still to be written to it. -/
example :
    (run closeCfg { out := b!"hi", err := [], ending := .code 0, sigpipeDies := false }
      (init closeCfg { out := b!"hi", err := [], ending := .code 0, sigpipeDies := false })
      [.childWrite .out 1, .childClose .out]) = none ∧
    (run closeCfg { out := b!"hi", err := [], ending := .code 0, sigpipeDies := false }
      (init closeCfg { out := b!"hi", err := [], ending := .code 0, sigpipeDies := false })
      [.childClose .err, .childClose .err]) = none := by decide

/-! ### Safety: what a terminal state can be -/

/-- Everything known at a terminal state, in one statement (the corollaries below unpack it). -/
theorem terminal_sound (cfg : Cfg) (plan : Plan) (ls : List Label) (s : State) (r : Outcome)
    (hr : run cfg plan (init cfg plan) ls = some s) (ht : s.result = some r) :
    allowedIn cfg plan s r = true ∧ s.child.isReaped = true ∧ Good cfg plan s r := by
  have h := (inv_reachable cfg plan ls s hr).pcInv
  unfold State.result at ht
  unfold PcInv at h
  split at ht
  · next r' hpc => cases ht; simp only [hpc] at h; exact ⟨h.2.1, h.1, h.2⟩
  · cases ht

/-- Without a fault of the runner's own I/O (no `read` of a captured stream and no `write` of the
stdin text has failed) the outcome is in the fault-free set `allowed` — the statement as it was before
faults were modelled. -/
theorem terminal_sound_no_fault (cfg : Cfg) (plan : Plan) (ls : List Label) (s : State) (r : Outcome)
    (hr : run cfg plan (init cfg plan) ls = some s) (ht : s.result = some r)
    (hfo : s.o.rd ≠ .failed) (hfe : s.e.rd ≠ .failed) (hfw : s.i.wr ≠ .failed) :
    allowed cfg plan r = true := by
  have h := (terminal_sound cfg plan ls s r hr ht).1
  simp only [allowedIn, Bool.or_eq_true] at h
  rcases h with h | h
  · exact h
  · exfalso
    have e1 : (s.o.rd == Rd.failed) = false := by simpa using hfo
    have e2 : (s.e.rd == Rd.failed) = false := by simpa using hfe
    have e3 : (s.i.wr == Wr.failed) = false := by simpa using hfw
    rw [e1, e2, e3] at h
    cases r with
    | ok st o e => simp [faultAllowed] at h
    | error e => cases e with
      | ole x => simp [faultAllowed] at h
      | timeout => simp [faultAllowed] at h
      | writeFailed => simp [faultAllowed] at h
      | readFailed x => cases x <;> simp [faultAllowed] at h
      | badUtf8 x => cases x <;> simp [faultAllowed] at h

/-- An `ok`, an `OutputLimitExceeded` and a `Timeout` are judged by the fault-free set, faults or not. -/
theorem allowedIn_plain (cfg : Cfg) (plan : Plan) (s : State) (r : Outcome)
    (hk : (∃ st o e, r = .ok st o e) ∨ (∃ x, r = .error (.ole x)) ∨ r = .error .timeout)
    (h : allowedIn cfg plan s r = true) : allowed cfg plan r = true := by
  simp only [allowedIn, Bool.or_eq_true] at h
  rcases h with h | h
  · exact h
  · rcases hk with ⟨st, o, e, rfl⟩ | ⟨x, rfl⟩ | rfl <;> simp [faultAllowed] at h

/-- **Complete or nothing.** In every terminal state with an `ok` result, for every one of the nine
stdout/stderr policy combinations, every cap and every interleaving: the child ended by itself as
planned and was reaped, the exit code is the planned one (`none` for a signal) — ordinary data,
non-zero included —, each captured stream holds **all** the bytes the child was told to write to it
(so: not truncated, nothing from the other stream), is within the cap and valid UTF-8, and an
uncaptured stream is null. -/
theorem ok_is_complete (cfg : Cfg) (plan : Plan) (ls : List Label) (s : State)
    (st : Option Nat) (out err : Option Bytes)
    (hr : run cfg plan (init cfg plan) ls = some s) (ht : s.result = some (.ok st out err)) :
    s.child = .reaped st .plan ∧ plan.ending.status = some st ∧
    (cfg.polOut = .capture → out = some plan.out ∧ plan.out.length ≤ cfg.cap ∧ validUtf8 plan.out = true) ∧
    (cfg.polOut ≠ .capture → out = none) ∧
    (cfg.polErr = .capture → err = some plan.err ∧ plan.err.length ≤ cfg.cap ∧ validUtf8 plan.err = true) ∧
    (cfg.polErr ≠ .capture → err = none) := by
  obtain ⟨ha, _, hg⟩ := terminal_sound cfg plan ls s _ hr ht
  have ha := allowedIn_plain cfg plan s _ (Or.inl ⟨_, _, _, rfl⟩) ha
  have hchild := hg.2.2.1 st out err rfl
  simp only [allowed, Bool.and_eq_true, beq_iff_eq, Bool.or_eq_true, Bool.not_eq_true'] at ha
  obtain ⟨⟨⟨⟨⟨⟨hst, hoo⟩, hoe⟩, ho⟩, he⟩, hvo⟩, hve⟩ := ha
  have hco : cfg.captured .out = true ↔ cfg.polOut = .capture := by simp [Cfg.captured, Cfg.pol]
  have hce : cfg.captured .err = true ↔ cfg.polErr = .capture := by simp [Cfg.captured, Cfg.pol]
  refine ⟨hchild, hst, ?_, ?_, ?_, ?_⟩
  · intro hc
    have hc' := hco.mpr hc
    rw [over_eq_false_iff] at hoo; simp only [hc', Bool.true_eq_false, false_or, Plan.bytes] at hoo
    simp only [expect, hc', if_true, Plan.bytes] at ho
    simp only [hc', Bool.true_eq_false, false_or] at hvo
    exact ⟨ho, by omega, hvo⟩
  · intro hc
    have hc' : cfg.captured .out = false := by
      cases h : cfg.captured .out
      · rfl
      · exact absurd (hco.mp h) hc
    simpa [expect, hc'] using ho
  · intro hc
    have hc' := hce.mpr hc
    rw [over_eq_false_iff] at hoe; simp only [hc', Bool.true_eq_false, false_or, Plan.bytes] at hoe
    simp only [expect, hc', if_true, Plan.bytes] at he
    simp only [hc', Bool.true_eq_false, false_or] at hve
    exact ⟨he, by omega, hve⟩
  · intro hc
    have hc' : cfg.captured .err = false := by
      cases h : cfg.captured .err
      · rfl
      · exact absurd (hce.mp h) hc
    simpa [expect, hc'] using he

/-- No terminal state is `ok` with a shortened (or otherwise different) captured stream — stated
for explicit policies to make the nine combinations visible. -/
theorem never_truncated_ok (polOut polErr : Policy) (cfg : Cfg) (plan : Plan) (ls : List Label)
    (s : State) (st : Option Nat) (out err : Option Bytes)
    (hpo : cfg.polOut = polOut) (hpe : cfg.polErr = polErr)
    (hr : run cfg plan (init cfg plan) ls = some s) (ht : s.result = some (.ok st out err)) :
    out = (if polOut = .capture then some plan.out else none) ∧
    err = (if polErr = .capture then some plan.err else none) := by
  obtain ⟨_, _, h1, h2, h3, h4⟩ := ok_is_complete cfg plan ls s st out err hr ht
  subst hpo hpe
  constructor
  · split
    · next hc => exact (h1 hc).1
    · next hc => exact h2 hc
  · split
    · next hc => exact (h3 hc).1
    · next hc => exact h4 hc

/-- `OutputLimitExceeded(x)` only if `x` is captured and the child was told to write more than the
cap to it. -/
theorem ole_only_if_over (cfg : Cfg) (plan : Plan) (ls : List Label) (s : State) (x : Strm)
    (hr : run cfg plan (init cfg plan) ls = some s) (ht : s.result = some (.error (.ole x))) :
    cfg.pol x = .capture ∧ cfg.cap < (plan.bytes x).length := by
  obtain ⟨ha, _, _⟩ := terminal_sound cfg plan ls s _ hr ht
  have ha := allowedIn_plain cfg plan s _ (Or.inr (Or.inl ⟨_, rfl⟩)) ha
  simpa [allowed, over, Cfg.captured] using ha

/-- `Timeout` only after the deadline. -/
theorem timeout_only_after_deadline (cfg : Cfg) (plan : Plan) (ls : List Label) (s : State)
    (hr : run cfg plan (init cfg plan) ls = some s) (ht : s.result = some (.error .timeout)) :
    cfg.timeout ≤ s.now :=
  (terminal_sound cfg plan ls s _ hr ht).2.2.2.1 rfl

/-- A child that never ends on its own never yields an `ok` result. -/
theorem hang_is_never_ok (cfg : Cfg) (plan : Plan) (ls : List Label) (s : State) (r : Outcome)
    (hh : plan.ending = .never) (hr : run cfg plan (init cfg plan) ls = some s)
    (ht : s.result = some r) : ∃ e, r = .error e := by
  cases r with
  | error e => exact ⟨e, rfl⟩
  | ok st o e =>
    have := (ok_is_complete cfg plan ls s st o e hr ht).2.1
    simp [hh, Ending.status] at this

/-- **The child is not left running.** In every terminal state — success, either kill path
(overflow seen by the waiter, timeout), or an error found while joining — the child has been
reaped: it is neither alive nor a zombie. -/
theorem child_reaped_at_end (cfg : Cfg) (plan : Plan) (ls : List Label) (s : State) (r : Outcome)
    (hr : run cfg plan (init cfg plan) ls = some s) (ht : s.result = some r) :
    ∃ st c, s.child = .reaped st c := by
  have := (terminal_sound cfg plan ls s r hr ht).2.1
  cases hc : s.child <;> simp_all [Child.isReaped]

/-- On the kill paths the order is kill, then wait: the main thread reaches the joins of the error
path only with the child reaped, and `wait` only with the child already a zombie (killed by
`kill`, or dead by itself before). -/
theorem kill_paths_kill_then_reap (cfg : Cfg) (plan : Plan) (ls : List Label) (s : State) (e : Err)
    (hr : run cfg plan (init cfg plan) ls = some s) :
    (s.pc = .reap e → s.child.isZombie = true) ∧
    (s.pc = .eJoinOut e ∨ s.pc = .eJoinErr e → s.child.isReaped = true) := by
  have h := (inv_reachable cfg plan ls s hr).pcInv
  unfold PcInv at h
  refine ⟨fun hpc => ?_, fun hpc => ?_⟩
  · simp only [hpc] at h; exact h.1
  · rcases hpc with hpc | hpc <;> (simp only [hpc] at h; exact h.1)

/-! ### The kind of error: `InvalidUtf8` (D-16) -/

/-- "The corresponding error": `InvalidUtf8(x)` is reported only if what the child wrote to `x` is
not valid UTF-8. Parameterised by which `join_capture` is modelled. -/
def c16_right_kind (fixedJoin : Bool) : Prop :=
  ∀ (cfg : Cfg) (plan : Plan) (ls : List Label) (s : State) (x : Strm),
    cfg.fixedJoin = fixedJoin → run cfg plan (init cfg plan) ls = some s →
    s.result = some (.error (.badUtf8 x)) → validUtf8 (s.side x).written = false

/-- With the fixed `join_capture` (what `gen_join_checks_any_flag` ties to /repo) the clause holds
without exclusion. -/
theorem c16_right_kind_fixed : c16_right_kind true := by
  intro cfg plan ls s x hf hr ht
  obtain ⟨_, _, hg⟩ := terminal_sound cfg plan ls s _ hr ht
  cases x with
  | out =>
    rcases hg.2.2.2.1 rfl with h | ⟨h, _⟩
    · exact h
    · rw [hf] at h; cases h
  | err => exact hg.2.2.2.2 rfl

/-- … and then it is also the *plan* that is invalid, the stream is captured and within the cap —
or (the case read faults add) it is stdout, stderr's reader had failed and closed its pipe, the child
died of `SIGPIPE` writing to it, and what it had written to stdout until then ends inside a character. -/
theorem badUtf8_only_if_invalid (cfg : Cfg) (plan : Plan) (ls : List Label) (s : State) (x : Strm)
    (hf : cfg.fixedJoin = true) (hr : run cfg plan (init cfg plan) ls = some s)
    (ht : s.result = some (.error (.badUtf8 x))) :
    (cfg.pol x = .capture ∧ (plan.bytes x).length ≤ cfg.cap ∧ validUtf8 (plan.bytes x) = false) ∨
    (x = .out ∧ s.e.rd = .failed ∧ plan.sigpipeDies = true ∧ cfg.polOut = .capture ∧
      prefixInvalid cfg.cap plan.out = true) := by
  obtain ⟨ha, _, _⟩ := terminal_sound cfg plan ls s _ hr ht
  simp only [allowedIn, Bool.or_eq_true] at ha
  cases x with
  | out =>
    rcases ha with ha | ha
    · left
      simp only [allowed, hf, Bool.and_eq_true, Bool.not_eq_true', Bool.not_true,
        Bool.false_and, Bool.or_false] at ha
      obtain ⟨hc, hno, hv⟩ := ha
      have hc' : cfg.polOut = .capture := by simpa [Cfg.captured, Cfg.pol] using hc
      rw [over_eq_false_iff] at hno; simp only [hc, Bool.true_eq_false, false_or, Plan.bytes] at hno
      exact ⟨hc', by simp only [Plan.bytes]; omega, hv⟩
    · right
      simp only [faultAllowed, Bool.and_eq_true, beq_iff_eq] at ha
      obtain ⟨⟨⟨h1, h2⟩, h3⟩, h4⟩ := ha
      exact ⟨rfl, h1, h2, by simpa [Cfg.captured, Cfg.pol] using h3, h4⟩
  | err =>
    rcases ha with ha | ha
    · left
      simp only [allowed, Bool.and_eq_true, Bool.or_eq_true, Bool.not_eq_true'] at ha
      obtain ⟨⟨⟨⟨hc, hno⟩, _⟩, hv⟩, _⟩ := ha
      have hc' : cfg.polErr = .capture := by simpa [Cfg.captured, Cfg.pol] using hc
      rw [over_eq_false_iff] at hno; simp only [hc, Bool.true_eq_false, false_or, Plan.bytes] at hno
      exact ⟨hc', by simp only [Plan.bytes]; omega, hv⟩
    · simp [faultAllowed] at ha

/-- The pinned commit's `join_capture` (only the stream's own code is recognised): the D-16 witness.
cap 4; stdout `"€€"`, stderr `"₩₩"`, both valid. The waiter loads the flag (still 0); the child
writes 4 bytes of stdout (the reader buffers `€` + the first byte of the next `€`), then all of
stderr (its reader overflows and wins the CAS), then the rest of stdout (its reader overflows,
loses the CAS and keeps its truncated buffer), and exits; `try_wait` sees the exit; there
is no stdin writer to join; `join_capture(stdout)` sees flag 2 ≠ 1 and validates the truncated buffer. -/
def d16Cfg : Cfg :=
  { cap := 4, chunk := 8192, pipeCap := 65536, polOut := .capture, polErr := .capture,
    timeout := 1000, poll := 1, fixedJoin := false }

def d16Plan : Plan := { out := b!"€€", err := b!"₩₩", ending := .code 0, sigpipeDies := false }

def d16Labels : List Label :=
  [.main, .childWrite .out 4, .rdRead .out, .rdCheck .out, .childWrite .err 6, .rdRead .err,
   .rdCheck .err, .childWrite .out 2, .rdRead .out, .rdCheck .out, .childEnd, .main, .main, .main, .main]

theorem c16_pinned_wrong_kind : ¬ c16_right_kind false := by
  intro h
  have hd : (run d16Cfg d16Plan (init d16Cfg d16Plan) d16Labels).map
      (fun s => (s.result, validUtf8 (s.side .out).written)) =
      some (some (.error (.badUtf8 .out)), true) := by decide
  cases hr : run d16Cfg d16Plan (init d16Cfg d16Plan) d16Labels with
  | none => simp [hr] at hd
  | some s =>
    simp only [hr, Option.map_some, Option.some.injEq, Prod.mk.injEq] at hd
    have := h d16Cfg d16Plan d16Labels s .out rfl hr hd.1
    rw [hd.2] at this; cases this

/-- The same schedule under the fixed `join_capture` yields the corresponding error. -/
example : (run { d16Cfg with fixedJoin := true } d16Plan (init d16Cfg d16Plan) d16Labels).map State.result
    = some (some (.error (.ole .err))) := by decide

/-- Even on the pinned commit the wrong kind needs both streams over the cap. -/
theorem c16_right_kind_pinned_partial (cfg : Cfg) (plan : Plan) (ls : List Label) (s : State) (x : Strm)
    (hex : ¬ (over cfg plan .out = true ∧ over cfg plan .err = true))
    (hr : run cfg plan (init cfg plan) ls = some s) (ht : s.result = some (.error (.badUtf8 x))) :
    validUtf8 (s.side x).written = false := by
  obtain ⟨_, _, hg⟩ := terminal_sound cfg plan ls s _ hr ht
  cases x with
  | out =>
    rcases hg.2.2.2.1 rfl with h | ⟨_, h⟩
    · exact h
    · exact absurd h hex
  | err => exact hg.2.2.2.2 rfl

/-- The exclusion is satisfiable by a non-trivial run (invalid stdout within the cap, stderr over). -/
example : ¬ (over d16Cfg { d16Plan with out := [0xE2, 0x82] } .out = true ∧
    over d16Cfg { d16Plan with out := [0xE2, 0x82] } .err = true) := by decide

/-- A child told to write more than the cap to a captured stream never yields an `ok` result. -/
theorem over_limit_is_never_ok (cfg : Cfg) (plan : Plan) (ls : List Label) (s : State) (r : Outcome) (x : Strm)
    (ho : over cfg plan x = true) (hr : run cfg plan (init cfg plan) ls = some s)
    (ht : s.result = some r) : ∃ e, r = .error e := by
  cases r with
  | error e => exact ⟨e, rfl⟩
  | ok st o e =>
    obtain ⟨ha, _, _⟩ := terminal_sound cfg plan ls s _ hr ht
    have ha := allowedIn_plain cfg plan s _ (Or.inl ⟨_, _, _, rfl⟩) ha
    simp only [allowed, Bool.and_eq_true, Bool.not_eq_true'] at ha
    cases x <;> simp_all

/-! ### Liveness (for the model's fair runs)

Two facts that together say: if time keeps passing and a thread whose step is enabled eventually
takes it, every run reaches a terminal state — and by the theorems above that state is an error for
an over-limit or overrunning child (`over_limit_is_never_ok`, `hang_is_never_ok`).

* `no_deadlock`: in a reachable non-terminal state the runner can always move by itself (it never
  waits for the child to cooperate): the main thread is enabled, or it sleeps and waits for time, or
  it waits in a join for a reader that is enabled, or in `join_writer` for a writer that is enabled
  (the child is gone by then, so the writer ends or gets `EPIPE`: `writer_can_finish`).
* `bounded_work`: a variant `State.mu` is strictly decreased by every step that is not a tick and
  never increased by a tick, so an execution contains at most `μ(init)` non-tick steps — a number
  linear in the timeout, the planned output and the stdin text. No schedule keeps the runner busy
  for ever. -/

theorem no_deadlock (cfg : Cfg) (plan : Plan) (ls : List Label) (s : State) (hchunk : 0 < cfg.chunk)
    (hr : run cfg plan (init cfg plan) ls = some s) (hnt : s.result = none) :
    (step cfg plan s .main).isSome = true ∨ (∃ w, s.pc = .sleep w ∧ s.now < w) ∨
      (∃ x, readerEnabled cfg plan s x) ∨ writerEnabled cfg plan s :=
  progress_of_inv hchunk (inv_reachable cfg plan ls s hr) hnt

/-- A state in which nothing but the child could move and no sleep is pending is terminal. -/
theorem stuck_is_terminal (cfg : Cfg) (plan : Plan) (ls : List Label) (s : State) (hchunk : 0 < cfg.chunk)
    (hr : run cfg plan (init cfg plan) ls = some s)
    (hmain : step cfg plan s .main = none) (hsleep : ∀ w, s.pc = .sleep w → w ≤ s.now)
    (hrd : ∀ x, ¬ readerEnabled cfg plan s x) (hwr : ¬ writerEnabled cfg plan s) :
    ∃ r, s.result = some r := by
  cases hres : s.result with
  | some r => exact ⟨r, rfl⟩
  | none =>
    rcases no_deadlock cfg plan ls s hchunk hr hres with h | ⟨w, hw, hlt⟩ | ⟨x, hx⟩ | hx
    · simp [hmain] at h
    · have := hsleep w hw; omega
    · exact absurd hx (hrd x)
    · exact absurd hx hwr

theorem step_decreases_variant (cfg : Cfg) (plan : Plan) (s s' : State) (l : Label)
    (h : step cfg plan s l = some s') : (l ≠ .tick → s'.mu cfg < s.mu cfg) ∧ s'.mu cfg ≤ s.mu cfg := by
  by_cases hl : l = .tick
  · subst hl; exact ⟨fun h' => absurd rfl h', step_mu_tick h⟩
  · exact ⟨fun _ => step_mu_lt h hl, Nat.le_of_lt (step_mu_lt h hl)⟩

theorem bounded_work (cfg : Cfg) (plan : Plan) (ls : List Label) (s : State)
    (hr : run cfg plan (init cfg plan) ls = some s) :
    nonTicks ls ≤ 5 * cfg.timeout + 5 * (plan.out.length + plan.err.length) + 2 * cfg.stdin.getD 0 + 20 := by
  have h := run_nonTicks_le hr
  have hi : (init cfg plan).mu cfg ≤
      5 * cfg.timeout + 5 * (plan.out.length + plan.err.length) + 2 * cfg.stdin.getD 0 + 20 := by
    simp only [State.mu, init, Side.init, Pc.mu, Side.mu, Child.mu, List.length_nil, if_true]
    have h1 : ∀ p : Policy, (if p = .capture then Rd.idle else Rd.absent).rank ≤ 2 := by
      intro p; split <;> simp [Rd.rank]
    have := h1 cfg.polOut; have := h1 cfg.polErr
    have h2 : (Inp.init cfg.stdin).mu ≤ 2 * cfg.stdin.getD 0 + 2 := by
      cases cfg.stdin <;> simp [Inp.init, Inp.mu]
    omega
  omega

/-! ### Read faults: a failing `read` of a captured stream

The reader loop leaves through `?`; the thread ends with `Err`; `join_capture` turns that into the
run's error. The seeded change C16-c1 (`while let Ok(n) = reader.read(..)`) is the loop that treats
the failure like end of file: `gen_reader_error_propagates` ties the source to the loop modelled
here, and the `rd` requests run the real loop against `readLoop` on scripted readers. -/

theorem result_iff (s : State) (r : Outcome) : s.result = some r ↔ s.pc = .done r := by
  unfold State.result
  constructor
  · intro h; split at h
    · next r' hpc => cases h; exact hpc
    · cases h
  · intro h; simp [h]

/-- **A failed read is an error, never a result.** In every execution in which a `read` of a captured
stream fails — at any point: before the first byte, between two chunks, after the child has gone —
a terminal state holds an error; no `ok`, shortened or otherwise. -/
theorem read_fault_is_never_ok (cfg : Cfg) (plan : Plan) (ls : List Label) (s : State) (r : Outcome)
    (x : Strm) (hr : run cfg plan (init cfg plan) ls = some s) (hf : Label.rdFail x ∈ ls)
    (ht : s.result = some r) : ∃ e, r = .error e := by
  cases r with
  | error e => exact ⟨e, rfl⟩
  | ok st o e =>
    exfalso
    have hfail := run_failed_of_mem hr hf
    obtain ⟨hjo, hje⟩ := (OkJoined.init cfg plan).run (Inv.init cfg plan) hr st o e ((result_iff s _).mp ht)
    cases x
    · exact Side.not_failed_of_joined hjo hfail
    · exact Side.not_failed_of_joined hje hfail

/-- … and it is an error of the right kind: the reader's failure itself (`SpawnFailed`, only for a
stream whose `read` did fail), or one of the errors the fault-free run could also end in
(`OutputLimitExceeded` of a stream the child did overfill; `Timeout` after the deadline;
`InvalidUtf8` of bytes that are not valid UTF-8), and the child is gone. -/
theorem read_fault_error_kind (cfg : Cfg) (plan : Plan) (ls : List Label) (s : State) (e : Err)
    (hr : run cfg plan (init cfg plan) ls = some s) (ht : s.result = some (.error e)) :
    s.child.isReaped = true ∧
    (∀ y, e = .readFailed y → (s.side y).rd = .failed ∧ cfg.pol y = .capture) ∧
    (e = .writeFailed → s.i.wr = .failed) ∧
    (∀ y, e = .ole y → cfg.pol y = .capture ∧ cfg.cap < (plan.bytes y).length) ∧
    (e = .timeout → cfg.timeout ≤ s.now) ∧
    (∀ y, e = .badUtf8 y → cfg.fixedJoin = true → validUtf8 (s.side y).written = false) := by
  obtain ⟨ha, hreap, hg⟩ := terminal_sound cfg plan ls s _ hr ht
  have hinv := inv_reachable cfg plan ls s hr
  refine ⟨hreap, ?_, ?_, ?_, ?_, ?_⟩
  · intro y hy; subst hy
    simp only [allowedIn, allowed, Bool.false_or] at ha
    cases y with
    | out =>
      simp only [faultAllowed, beq_iff_eq] at ha
      refine ⟨ha, ?_⟩
      have := hinv.so.captured_of (by simp [ha])
      simpa [Cfg.captured] using this
    | err =>
      simp only [faultAllowed, beq_iff_eq] at ha
      refine ⟨ha, ?_⟩
      have := hinv.se.captured_of (by simp [ha])
      simpa [Cfg.captured] using this
  · intro hy; subst hy
    simpa [allowedIn, allowed, faultAllowed] using ha
  · intro y hy; subst hy
    exact ole_only_if_over cfg plan ls s y hr ht
  · intro hy; subst hy
    exact timeout_only_after_deadline cfg plan ls s hr ht
  · intro y hy hfix; subst hy
    exact c16_right_kind_fixed cfg plan ls s y hfix hr ht

/-- Non-vacuity: stdout's `read` fails between two chunks (3 of 5 bytes buffered): the run ends in
the reader's error, not in `ok "hel"`; the child is reaped. -/
example :
    (run d16Cfg { out := b!"hello", err := [], ending := .code 0, sigpipeDies := false }
      (init d16Cfg { out := b!"hello", err := [], ending := .code 0, sigpipeDies := false })
      [.main, .childWrite .out 3, .rdRead .out, .rdCheck .out, .rdFail .out, .childDrop .out 2,
       .childEnd, .main, .main, .main]).map (fun s => (s.result, s.child))
    = some (some (.error (.readFailed .out)), .reaped (some 0) .plan) := by decide

/-- Non-vacuity: the very first `read` of stderr fails, stdout is complete and fine: still an error. -/
example :
    (run { d16Cfg with cap := 5 } { out := b!"hello", err := b!"x", ending := .code 0, sigpipeDies := false }
      (init { d16Cfg with cap := 5 } { out := b!"hello", err := b!"x", ending := .code 0, sigpipeDies := false })
      [.rdFail .err, .childWrite .out 5, .childDrop .err 1, .childEnd, .rdRead .out, .rdCheck .out,
       .rdEof .out, .main, .main, .main, .main, .main, .main]).map State.result
    = some (some (.error (.readFailed .err))) := by decide

/-- Non-vacuity: a failed read and an overflow of the other stream: the waiter's kill path wins. -/
example :
    (run d16Cfg { out := b!"hello", err := b!"x", ending := .never, sigpipeDies := false }
      (init d16Cfg { out := b!"hello", err := b!"x", ending := .never, sigpipeDies := false })
      [.rdFail .err, .childWrite .out 5, .rdRead .out, .rdCheck .out, .main, .main, .main, .main,
       .main, .main]).map (fun s => (s.result, s.child))
    = some (some (.error (.ole .out)), .reaped none .killed) := by decide

/-- **The executable reader loop is the transition system's reader.** Iterating the reader steps of
a side (`Side.read`, `Side.check`, `Side.eof`, `Side.fail` — what `step` does for `rdRead`, `rdCheck`,
`rdEof`, `rdFail`) over a script gives the result (`Ok(buf)` / `Err`), the buffer and the flag that
`readLoop` computes, and the thread has then finished. -/
theorem readLoop_is_lts_reader (chunk cap my : Nat) (hchunk : 0 < chunk) (evs : List RdEv)
    (flag : Nat) (d : Side) (hd : d.rd = .idle) (hsz : ∀ c, RdEv.data c ∈ evs → c.length ≤ chunk) :
    RdRes.ofSide (Side.feed chunk cap my flag d evs).1 = (readLoop cap my flag d.acc evs).1 ∧
    (Side.feed chunk cap my flag d evs).2 = (readLoop cap my flag d.acc evs).2 ∧
    (Side.feed chunk cap my flag d evs).1.finished = true :=
  Side.feed_eq_readLoop chunk cap my hchunk evs flag d hd hsz

/-- … and the driver's splitting of long data into reads of at most `chunk` bytes meets its
hypothesis, for the chunk size extracted from the source. -/
theorem expanded_reads_fit (evs : List RdEv) (c : Bytes)
    (h : RdEv.data c ∈ expandEvents Gen.Capture.chunk evs) : c.length ≤ Gen.Capture.chunk :=
  expandEvents_le gen_chunk_pos evs c h

/-- **The loop never shortens silently.** `Ok(buf)` with the flag still clear means: no `read`
failed before the end of the stream, and `buf` is every byte read up to it. -/
theorem readLoop_unflagged_ok_is_complete (cap my : Nat) (hmy : my ≠ 0) (evs : List RdEv)
    (out : Bytes) (h : readLoop cap my 0 [] evs = (.ok out, 0)) : cleanData evs = some out := by
  obtain ⟨rest, h1, h2⟩ := readLoop_clean cap my hmy evs [] out h
  simpa [h2] using h1

/-- A `read` that fails after any amount of data within the cap makes the loop return `Err`. -/
theorem readLoop_fail_is_err (cap my flag : Nat) (pre : List RdEv) (post : List RdEv)
    (hpre : ∀ e ∈ pre, ∃ c, e = RdEv.data c ∧ c ≠ [])
    (hsum : (pre.map RdEv.size).sum ≤ cap) :
    readLoop cap my flag [] (pre ++ .fail :: post) = (.err, flag) :=
  readLoop_err_of_fail cap my flag pre [] post hpre (by simpa using hsum)

/-- `joinCapture` — `join_capture` written as a function of the reader thread's result and the flag
— is what the main thread's `joinOut` and `flagOut` statements compute: a reader `Err` is the run's
error before the flag is looked at. (Its tie to the source is static, `gen_reader_error_propagates`:
`join_capture` is deliberately not hooked.) -/
theorem joinCapture_is_main_thread_join (cfg : Cfg) (s : State) (st : Option Nat)
    (hpc : s.pc = .joinOut st) (hfin : s.o.finished = true) (hna : s.o.rd ≠ .absent) :
    (joinOutSteps cfg s).map State.pc = some
      (match joinCapture cfg.fixedJoin s.flag .out (RdRes.ofSide s.o) with
       | .error e => .done (.error e)
       | .text b => .joinErr st (some b)) :=
  joinCapture_is_lts_join cfg s st hpc hfin hna

/-- The script of the seeded change's demonstration: "hello ", a failing read, "world", end of file. -/
example : readLoop 100 1 0 [] [.data (b!"hello "), .fail, .data (b!"world"), .zero] = (.err, 0) := by decide
example : joinCapture true 0 .out (readLoop 100 1 0 [] [.data (b!"hello "), .fail, .data (b!"world")]).1
    = .error (.readFailed .out) := by decide

/-! ### The stdin writer thread

`join_writer` comes after the wait loop. (i) Nothing in the wait loop or on the kill path reads or
waits for the stdin side, so the deadline, the overflow flag and the kill are acted on whatever the
writer is doing — in particular while it is blocked on a full pipe that the child does not read.
(ii) By the time the main thread joins the writer the child is gone, so the writer can end. The other
order (`stepMainWF`, seeded change C16-c2) fails both. -/

/-- (i) The main thread's step in the wait loop and on the kill path is the same for every state of
the stdin pipe and its writer: same successor, stdin side untouched. -/
theorem wait_loop_ignores_writer (cfg : Cfg) (s : State) (i' : Inp) (hw : s.pc.inWait = true) :
    stepMain cfg { s with i := i' } = (stepMain cfg s).map (fun t => { t with i := i' }) :=
  stepMain_inWait_indep cfg s i' hw

/-- (i) … and it is never blocked there except by its own `sleep`: flag load, `try_wait`, deadline
check, `kill` and `wait` are enabled in every reachable state, whatever the writer does. -/
theorem wait_loop_never_blocks (cfg : Cfg) (plan : Plan) (ls : List Label) (s : State)
    (hr : run cfg plan (init cfg plan) ls = some s) (hw : s.pc.inWait = true) :
    (step cfg plan s .main).isSome = true ∨ ∃ w, s.pc = .sleep w ∧ s.now < w := by
  have hp := (inv_reachable cfg plan ls s hr).pcInv
  unfold PcInv at hp
  cases hpc : s.pc <;> simp only [hpc, Pc.inWait] at hw hp <;> try (cases hw)
  case load => left; simp only [step, stepMain, hpc]; split <;> rfl
  case tryWait =>
    left; simp only [step, stepMain, hpc]
    cases hc : s.child <;> simp_all [Child.isReaped]
  case deadline => left; simp only [step, stepMain, hpc]; split <;> rfl
  case sleep w =>
    by_cases hw : w ≤ s.now
    · left; simp [step, stepMain, hpc, hw]
    · right; exact ⟨w, rfl, by omega⟩
  case kill e => left; simp only [step, stepMain, hpc]; split <;> rfl
  case reap e =>
    left; simp only [step, stepMain, hpc]
    cases hc : s.child <;> simp_all [Child.isZombie]

/-- (ii) **The join of the writer terminates.** When the main thread is at `join_writer` — after the
kill and the `wait`, or after the child ended by itself — the child is gone: either the writer has
already finished, or one step of it is enabled (it ends, or its `write` gets `EPIPE`) after which
`join_writer` returns. -/
theorem join_writer_terminates (cfg : Cfg) (plan : Plan) (ls : List Label) (s : State)
    (hr : run cfg plan (init cfg plan) ls = some s)
    (hpc : (∃ e, s.pc = .eJoinWr e) ∨ (∃ st, s.pc = .joinWr st)) :
    s.child.isReaped = true ∧
    ((step cfg plan s .main).isSome = true ∨
      ∃ l s', (l = .wrEnd ∨ l = .wrEpipe) ∧ step cfg plan s l = some s' ∧
        (step cfg plan s' .main).isSome = true) := by
  have hp := (inv_reachable cfg plan ls s hr).pcInv
  unfold PcInv at hp
  have hreap : s.child.isReaped = true := by
    rcases hpc with ⟨e, hpc⟩ | ⟨st, hpc⟩ <;> simp only [hpc] at hp
    · exact hp.1
    · exact hp.1
  have hdead : s.child.isAlive = false := by
    cases hc : s.child <;> simp_all [Child.isReaped, Child.isAlive]
  refine ⟨hreap, ?_⟩
  cases hfin : s.i.finished
  · right
    have hmain : ∀ i', i'.wr = .fin → (step cfg plan { s with i := i' } .main).isSome = true := by
      intro i' hi'
      rcases hpc with ⟨e, hpc⟩ | ⟨st, hpc⟩ <;> simp [step, stepMain, hpc, hi', Inp.finished]
    rcases writerEnabled_of (cfg := cfg) (plan := plan) hfin hdead with hw | hw
    · simp only [step, Option.isSome_map] at hw
      obtain ⟨i', hi'⟩ := Option.isSome_iff_exists.mp hw
      exact ⟨.wrEnd, { s with i := i' }, Or.inl rfl, by simp [step, hi'], hmain i' (Inp.finish_wr hi').2⟩
    · simp only [step, Option.isSome_map] at hw
      obtain ⟨i', hi'⟩ := Option.isSome_iff_exists.mp hw
      exact ⟨.wrEpipe, { s with i := i' }, Or.inr rfl, by simp [step, hi'], hmain i' (Inp.epipe_wr hi').2⟩
  · left
    rcases hpc with ⟨e, hpc⟩ | ⟨st, hpc⟩
    · simp [step, stepMain, hpc, hfin]
    · simp only [step, stepMain, hpc]
      unfold Inp.finished at hfin
      cases hw : s.i.wr <;> simp_all

/-- The statement about a child that outlives its deadline, for a main-thread program given by its
step function, the transition function, the run function and the initial state: with the main thread
prompt (time passes only while it is blocked), a child that is still asleep one poll interval after
the deadline never yields a result. No condition on the stdin text or on what the child does with it. -/
def c16_outliving (mainF : Cfg → State → Option State)
    (stepF : Cfg → Plan → State → Label → Option State)
    (runF : Cfg → Plan → State → List Label → Option State) (initF : Cfg → Plan → State) : Prop :=
  ∀ (cfg : Cfg) (plan : Plan) (ls : List Label) (s : State) (r : Outcome),
    cfg.timeout + max cfg.poll 1 ≤ plan.endAfter →
    runF cfg plan (initF cfg plan) ls = some s →
    prompt (mainF cfg) (stepF cfg plan) (initF cfg plan) ls = true →
    s.result = some r → ∃ e, r = .error e

/-- The progress statement (`no_deadlock`) for a main-thread program. -/
def c16_progress (mainF : Cfg → State → Option State)
    (runF : Cfg → Plan → State → List Label → Option State) (initF : Cfg → Plan → State) : Prop :=
  ∀ (cfg : Cfg) (plan : Plan) (ls : List Label) (s : State), 0 < cfg.chunk →
    runF cfg plan (initF cfg plan) ls = some s → s.result = none →
    (mainF cfg s).isSome = true ∨ (∃ w, s.pc = .sleep w ∧ s.now < w) ∨
      (∃ x, readerEnabled cfg plan s x) ∨ writerEnabled cfg plan s

theorem timeInv_reachable (cfg : Cfg) (plan : Plan) (ls : List Label) (s : State)
    (hr : run cfg plan (init cfg plan) ls = some s)
    (hp : prompt (stepMain cfg) (step cfg plan) (init cfg plan) ls = true) : TimeInv cfg plan s :=
  (TimeInv.init cfg plan).run (Inv.init cfg plan) hr hp

/-- (i) **A child that outlives the deadline is never a success, whatever the stdin size.** -/
theorem outliving_child_is_never_ok : c16_outliving stepMain step run init := by
  intro cfg plan ls s r hlate hr hp ht
  cases r with
  | error e => exact ⟨e, rfl⟩
  | ok st o e =>
    exfalso
    have hpc := (result_iff s _).mp ht
    have hchild := (ok_is_complete cfg plan ls s st o e hr ht).1
    have := (timeInv_reachable cfg plan ls s hr hp).okEarly (by simp [hpc, Pc.okPath])
      (by simp [hchild, Child.cause?])
    simp only [Cfg.pollTicks] at this
    omega

/-- … and without a fault of the runner's own I/O and without an over-limit stream it is exactly
`Timeout`, with the child killed and reaped. -/
theorem outliving_child_times_out (cfg : Cfg) (plan : Plan) (ls : List Label) (s : State) (r : Outcome)
    (hlate : cfg.timeout + max cfg.poll 1 ≤ plan.endAfter)
    (hr : run cfg plan (init cfg plan) ls = some s)
    (hp : prompt (stepMain cfg) (step cfg plan) (init cfg plan) ls = true)
    (ht : s.result = some r)
    (hfo : s.o.rd ≠ .failed) (hfe : s.e.rd ≠ .failed) (hfw : s.i.wr ≠ .failed)
    (hoo : over cfg plan .out = false) (hoe : over cfg plan .err = false) :
    r = .error .timeout ∧ s.child.isReaped = true := by
  have hti := timeInv_reachable cfg plan ls s hr hp
  have hinv := inv_reachable cfg plan ls s hr
  have hpc := (result_iff s _).mp ht
  obtain ⟨_, hreap, _⟩ := terminal_sound cfg plan ls s r hr ht
  have hall := terminal_sound_no_fault cfg plan ls s r hr ht hfo hfe hfw
  refine ⟨?_, hreap⟩
  -- a result that only the success path produces needs a child that ended by itself
  have hself : s.pc.okPath = true → False := by
    intro hok
    have h1 := hti.okEarly hok
    have h2 := hti.notKilled hok
    cases hc : s.child with
    | alive => simp [hc, Child.isReaped] at hreap
    | zombie st c => simp [hc, Child.isReaped] at hreap
    | reaped st c =>
      cases c with
      | killed => simp [hc, Child.cause?] at h2
      | plan =>
        have := h1 (by simp [hc, Child.cause?])
        simp only [Cfg.pollTicks] at this
        omega
      | sigpipe =>
        rcases (hinv.causeSig (by simp [hc, Child.cause?])).1 with h0 | h0 | h0
        · rcases hinv.flagRange with h | h | h
          · exact h0 h
          · have := hinv.over_of_flag (x := .out) (by simp [code, h]); simp [hoo] at this
          · have := hinv.over_of_flag (x := .err) (by simp [code, h]); simp [hoe] at this
        · exact hfo h0
        · exact hfe h0
  cases r with
  | ok st o e => exact (hself (by simp [hpc, Pc.okPath])).elim
  | error e =>
    cases e with
    | timeout => rfl
    | ole x => cases x <;> simp [allowed, hoo, hoe] at hall
    | badUtf8 x => exact (hself (by simp [hpc, Pc.okPath])).elim
    | readFailed x => exact (hself (by simp [hpc, Pc.okPath])).elim
    | writeFailed => exact (hself (by simp [hpc, Pc.okPath])).elim

theorem no_deadlock_statement : c16_progress stepMain run init := by
  intro cfg plan ls s hchunk hr hnt
  simpa [step] using no_deadlock cfg plan ls s hchunk hr hnt

/-- Non-vacuity of `outliving_child_times_out`, with 3 bytes of stdin text into a pipe of 2 that
the child never reads: the writer blocks after 2 bytes; the main thread polls, sleeps, sees the
deadline (1 tick) while the child is still asleep (it would end at tick 5), kills and reaps it; the
writer's next `write` gets `EPIPE`; the joins return; `Timeout`. The execution is prompt. -/
def slowCfg : Cfg := { d16Cfg with pipeCap := 2, timeout := 1, poll := 1, fixedJoin := true, stdin := some 3 }
def slowPlan : Plan := { out := [], err := [], ending := .code 0, sigpipeDies := false, endAfter := 5 }
def slowLabels : List Label :=
  [.wrWrite 2, .main, .main, .main, .tick, .main, .main, .main, .main, .main, .wrEpipe, .main,
   .rdEof .out, .rdEof .err, .main, .main, .main]

example : (run slowCfg slowPlan (init slowCfg slowPlan) slowLabels).map (fun s => (s.result, s.child, s.i.wr))
    = some (some (.error .timeout), .reaped none .killed, .fin) := by decide
example : prompt (stepMain slowCfg) (step slowCfg slowPlan) (init slowCfg slowPlan) slowLabels = true := by decide
example : slowCfg.timeout + max slowCfg.poll 1 ≤ slowPlan.endAfter := by decide

/-- The same child and stdin text under the *other* order: the main thread sits in `join_writer`
while the writer is blocked; five ticks pass; the child ends by itself; the writer gets `EPIPE`;
`wait_for_child` starts its clock, `try_wait` succeeds at once: an ordinary success for a child that
ran to five times its timeout. The execution is prompt (time passes only while the main thread is
blocked). -/
def wfLabels : List Label :=
  [.wrWrite 2, .tick, .tick, .tick, .tick, .tick, .childEnd, .wrEpipe, .main, .main, .main,
   .rdEof .out, .rdEof .err, .main, .main, .main, .main]

/-- With a child that never ends, the other order is stuck for good after one step of the writer:
the main thread waits for the writer, the writer for room in the pipe, nobody for the clock. -/
def wfStuckPlan : Plan := { slowPlan with ending := .never }

/-- **The other order is wrong** (seeded change C16-c2): joining the stdin writer before the wait
loop violates both statements — a child that outlives its deadline is reported as a success, and a
reachable state exists in which the runner cannot move and is not waiting for time. -/
theorem c16_writer_first_is_wrong :
    ¬ c16_outliving stepMainWF stepWF runWF initWF ∧ ¬ c16_progress stepMainWF runWF initWF := by
  constructor
  · intro h
    have hrun : (runWF slowCfg slowPlan (initWF slowCfg slowPlan) wfLabels).map State.result
        = some (some (.ok (some 0) (some []) (some []))) := by decide
    cases hs : runWF slowCfg slowPlan (initWF slowCfg slowPlan) wfLabels with
    | none => simp [hs] at hrun
    | some s =>
      simp only [hs, Option.map_some, Option.some.injEq] at hrun
      obtain ⟨e, he⟩ := h slowCfg slowPlan wfLabels s _ (by decide) hs (by decide) hrun
      cases he
  · intro h
    have hrun : (runWF slowCfg wfStuckPlan (initWF slowCfg wfStuckPlan) [.wrWrite 2]).map
        (fun s => (s.pc, s.i, s.child)) = some (.preJoinWr, ⟨1, 2, .busy, true⟩, .alive) := by decide
    have hrun' : (runWF slowCfg wfStuckPlan (initWF slowCfg wfStuckPlan) [.wrWrite 2]).map
        (fun s => ((s.o.rd, s.e.rd), (s.o.pipe, s.e.pipe), (s.o.wopen, s.e.wopen))) =
          some ((.idle, .idle), ([], []), (true, true)) := by decide
    cases hs : runWF slowCfg wfStuckPlan (initWF slowCfg wfStuckPlan) [.wrWrite 2] with
    | none => simp [hs] at hrun
    | some s =>
      simp only [hs, Option.map_some, Option.some.injEq, Prod.mk.injEq] at hrun hrun'
      obtain ⟨hpc, hi, hch⟩ := hrun
      obtain ⟨⟨hro, hre⟩, ⟨hpo, hpe⟩, hwo, hwe⟩ := hrun'
      have hres : s.result = none := by simp [State.result, hpc]
      rcases h slowCfg wfStuckPlan [.wrWrite 2] s (by decide) hs hres with hm | ⟨w, hw, _⟩ | ⟨x, hx⟩ | hx
      · simp [stepMainWF, hpc, hi] at hm
      · rw [hpc] at hw; cases hw
      · unfold readerEnabled at hx
        cases x <;>
          simp [step, Side.read, Side.check, Side.eof, hro, hre, hpo, hpe, hwo, hwe, hch, Child.isAlive] at hx
      · unfold writerEnabled at hx
        rcases hx with ⟨n, hn⟩ | hn | hn
        · simp only [step, Option.isSome_map, Inp.write, hi, slowCfg, d16Cfg] at hn
          split at hn
          · next hc => omega
          · simp at hn
        · simp [step, Inp.finish, hi] at hn
        · simp [step, Inp.epipe, hi, Inp.readable, hch, Child.isAlive] at hn

/-- Under the order of the code the same stuck-looking state moves on: the main thread is not in
`join_writer` but in the wait loop, which is enabled. -/
example : ((run slowCfg wfStuckPlan (init slowCfg wfStuckPlan) [.wrWrite 2]).bind
    (fun s => step slowCfg wfStuckPlan s .main)).isSome = true := by decide

/-! ### The wait loop and the reader threads: end of file is not the end of the child

The wait loop looks at the overflow flag, the child and the clock — not at the reader threads. A child
that closes its captured streams and keeps running is therefore polled, timed out and killed like any
other (`outliving_child_is_never_ok`, `outliving_child_times_out`: their executions include every
`childClose`). The loop that takes "all readers have finished" for "the child is on its way out" and
then blocks in `child.wait()` (`stepMainWE`, seeded change C16-d1) is refuted below. -/

/-- The main thread's step in the wait loop and on the kill path is the same for every state of the
two stream sides — reader threads running, finished at end of file, stopped on the limit or failed;
pipes full or empty; the child's ends open or closed: same successor, sides untouched. -/
theorem wait_loop_ignores_readers (cfg : Cfg) (s : State) (o' e' : Side) (hw : s.pc.inWait = true) :
    stepMain cfg { s with o := o', e := e' } =
      (stepMain cfg s).map (fun t => { t with o := o', e := e' }) :=
  stepMain_inWait_indep_sides cfg s o' e' hw

/-- A child that writes "hi", closes both captured streams and goes on for five ticks, against a
timeout of one tick. -/
def weCfg : Cfg := { d16Cfg with timeout := 1, poll := 1, fixedJoin := true }
def wePlan : Plan := { out := b!"hi", err := [], ending := .code 0, sigpipeDies := false, endAfter := 5 }

/-- Under the code's loop: both readers finish at end of file while the child is alive; the main
thread polls, sleeps one interval, sees the deadline, kills and reaps the child: `Timeout`. Prompt. -/
def weGoodLabels : List Label :=
  [.childWrite .out 2, .childClose .out, .childClose .err, .rdRead .out, .rdCheck .out, .rdEof .out,
   .rdEof .err, .main, .main, .main, .tick, .main, .main, .main, .main, .main, .main, .main, .main, .main]

example : (run weCfg wePlan (init weCfg wePlan) weGoodLabels).map (fun s => (s.result, s.child, s.o.acc))
    = some (some (.error .timeout), .reaped none .killed, b!"hi") := by decide
example : prompt (stepMain weCfg) (step weCfg wePlan) (init weCfg wePlan) weGoodLabels = true := by decide
example : weCfg.timeout + max weCfg.poll 1 ≤ wePlan.endAfter := by decide

/-- Under the other loop: same child, same first steps; at the third statement of the first iteration
the readers are found finished and the flag clear, the main thread blocks in `child.wait()`; five
ticks pass (the deadline with them); the child ends by itself; an ordinary result with the complete
output "hi" for a child that ran to five times its timeout and was never killed. Prompt as well (time
passes only while the main thread is blocked). -/
def weLabels : List Label :=
  [.childWrite .out 2, .childClose .out, .childClose .err, .rdRead .out, .rdCheck .out, .rdEof .out,
   .rdEof .err, .main, .main, .main, .main, .tick, .tick, .tick, .tick, .tick, .childEnd,
   .main, .main, .main, .main, .main, .main]

/-- The same child, except that it never ends. -/
def weStuckPlan : Plan := { wePlan with ending := .never }
def weStuckLabels : List Label :=
  [.childWrite .out 2, .childClose .out, .childClose .err, .rdRead .out, .rdCheck .out, .rdEof .out,
   .rdEof .err, .main, .main, .main, .main]

/-- **The loop that stops polling at end of file is wrong** (seeded change C16-d1): a child that
closes its captured streams and outlives its deadline is reported as a success, and a reachable state
exists (the same child never ending) in which the runner cannot move and is not waiting for time —
the run never returns and the child is never killed. -/
theorem c16_wait_after_eof_is_wrong :
    ¬ c16_outliving stepMainWE stepWE runWE init ∧ ¬ c16_progress stepMainWE runWE init := by
  constructor
  · intro h
    have hrun : (runWE weCfg wePlan (init weCfg wePlan) weLabels).map State.result
        = some (some (.ok (some 0) (some (b!"hi")) (some []))) := by decide
    cases hs : runWE weCfg wePlan (init weCfg wePlan) weLabels with
    | none => simp [hs] at hrun
    | some s =>
      simp only [hs, Option.map_some, Option.some.injEq] at hrun
      obtain ⟨e, he⟩ := h weCfg wePlan weLabels s _ (by decide) hs (by decide) hrun
      cases he
  · intro h
    have hrun : (runWE weCfg weStuckPlan (init weCfg weStuckPlan) weStuckLabels).map
        (fun s => (s.pc, s.i, s.child)) = some (.blockWait, ⟨0, 0, .absent, true⟩, .alive) := by decide
    have hrun' : (runWE weCfg weStuckPlan (init weCfg weStuckPlan) weStuckLabels).map
        (fun s => (s.o.rd, s.e.rd)) = some (.eof, .eof) := by decide
    cases hs : runWE weCfg weStuckPlan (init weCfg weStuckPlan) weStuckLabels with
    | none => simp [hs] at hrun
    | some s =>
      simp only [hs, Option.map_some, Option.some.injEq, Prod.mk.injEq] at hrun hrun'
      obtain ⟨hpc, hi, hch⟩ := hrun
      obtain ⟨hro, hre⟩ := hrun'
      have hres : s.result = none := by simp [State.result, hpc]
      rcases h weCfg weStuckPlan weStuckLabels s (by decide) hs hres with hm | ⟨w, hw, _⟩ | ⟨x, hx⟩ | hx
      · simp [stepMainWE, hpc, hch] at hm
      · rw [hpc] at hw; cases hw
      · unfold readerEnabled at hx
        cases x <;> simp [step, Side.read, Side.check, Side.eof, hro, hre] at hx
      · unfold writerEnabled at hx
        rcases hx with ⟨n, hn⟩ | hn | hn
        · simp [step, Inp.write, hi] at hn
        · simp [step, Inp.finish, hi] at hn
        · simp [step, Inp.epipe, hi] at hn

/-- In the state in which the other loop is stuck for ever, the code's loop (which is at its `sleep`)
goes on once the interval has passed. -/
example : ((run weCfg weStuckPlan (init weCfg weStuckPlan)
    [.childWrite .out 2, .childClose .out, .childClose .err, .rdRead .out, .rdCheck .out, .rdEof .out,
     .rdEof .err, .main, .main, .main, .tick]).bind
    (fun s => step weCfg weStuckPlan s .main)).isSome = true := by decide

/-- A child that closes both captured streams early and ends *in time* is an ordinary, complete
success: exit code 3, "hi" on stdout, nothing on stderr. -/
example :
    (run d16Cfg { out := b!"hi", err := [], ending := .code 3, sigpipeDies := false, endAfter := 2 }
      (init d16Cfg { out := b!"hi", err := [], ending := .code 3, sigpipeDies := false, endAfter := 2 })
      [.childClose .err, .rdEof .err, .childWrite .out 2, .childClose .out, .rdRead .out, .rdCheck .out,
       .rdEof .out, .main, .main, .main, .tick, .tick, .childEnd, .main, .main, .main, .main, .main, .main,
       .main, .main]).map State.result
    = some (some (.ok (some 3) (some (b!"hi")) (some []))) := by decide

/-! ### Non-vacuity: concrete executions reach each kind of terminal state -/

/-- ok, exit code 3 as data, stdout captured in full, stderr not captured. -/
example :
    (run { d16Cfg with cap := 5, polErr := .null } { out := b!"hello", err := b!"x", ending := .code 3, sigpipeDies := false }
      (init { d16Cfg with cap := 5, polErr := .null } { out := b!"hello", err := b!"x", ending := .code 3, sigpipeDies := false })
      [.childWrite .out 2, .rdRead .out, .main, .childWrite .err 1, .childWrite .out 3, .rdCheck .out,
       .main, .main, .tick, .rdRead .out, .childEnd, .main, .main, .rdCheck .out, .rdEof .out, .main,
       .main, .main, .main, .main]).map State.result
    = some (some (.ok (some 3) (some (b!"hello")) none)) := by decide

/-- One byte over the cap, child exits before the waiter looks again: the post-exit re-check of the
flag in `join_capture` turns it into the error. -/
example :
    (run d16Cfg { out := b!"hello", err := [], ending := .code 0, sigpipeDies := false }
      (init d16Cfg { out := b!"hello", err := [], ending := .code 0, sigpipeDies := false })
      [.main, .childWrite .out 5, .childEnd, .main, .rdRead .out, .rdCheck .out, .main, .main, .main]).map State.result
    = some (some (.error (.ole .out))) := by decide

/-- A hanging child: timeout after the deadline, killed and reaped. -/
example :
    (run { d16Cfg with timeout := 2 } { out := [], err := [], ending := .never, sigpipeDies := false }
      (init { d16Cfg with timeout := 2 } { out := [], err := [], ending := .never, sigpipeDies := false })
      [.main, .main, .main, .tick, .main, .main, .main, .main, .tick, .main, .main, .main, .main,
       .main, .main, .main, .rdEof .out, .rdEof .err, .main, .main]).map (fun s => (s.result, s.child))
    = some (some (.error .timeout), .reaped none .killed) := by decide

end NaijaVerif.Capture
