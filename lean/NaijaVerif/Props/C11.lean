/-
C11 — Bump arena: disjoint, aligned, in-bounds blocks; reset and grow behave.

Property theorems about `Model/Bump.lean` (the arena of `src/arena/bump.rs` with the D-11 fix:
the absolute address is aligned).  All statements are for arbitrary arenas / requests / histories;
nothing is bounded.  The constants come from `Gen/Arena.lean` (re-extracted from /repo every run).
-/
import NaijaVerif.Model.Bump
import NaijaVerif.Lemmas.Bump
import NaijaVerif.Gen.Arena

namespace NaijaVerif.Bump

/-! ### Tie of the generated constants to the model's -/

theorem gen_chunk : Gen.Arena.allocChunkSize = chunk := by decide

theorem gen_fills :
    Gen.Arena.allocFill = allocFill ∧ Gen.Arena.freeFill = freeFill ∧
    Gen.Arena.guardBytes = guardBytes := by decide

/-- The chunk size is a power of two (what makes the mask formula a rounding). -/
theorem gen_chunk_pow2 : Gen.Arena.allocChunkSize = 2 ^ 16 := by decide

/-! ### Word-level faithfulness: no `usize` operation wraps under the guard

Guard, stated explicitly: the alignment is a power of two `2^k` and `bytes + 2^k ≤ 2^63` (what
`Layout` guarantees: `size` rounded up to `align` does not exceed `isize::MAX`), the reservation lies
below `2^48` (`base < 2^48`, `cap < 2^48`: user-space addresses). -/

/-- The code's `(x + a - 1) & !(a - 1)` on 64-bit words is the arithmetic rounding of the model
whenever `a` is a power of two and `x + a` does not exceed the word. -/
theorem alignUpW_eq (x k : Nat) (h : x + 2 ^ k ≤ 2 ^ 64) : alignUpW x (2 ^ k) = alignUp x (2 ^ k) := by
  have hk : k ≤ 64 := by
    by_cases hk : k ≤ 64
    · exact hk
    · have : 2 ^ 65 ≤ 2 ^ k := Nat.pow_le_pow_right (by decide) (by omega)
      omega
  have hp : 0 < 2 ^ k := Nat.pos_of_ne_zero (by simp)
  unfold alignUpW alignUp word
  have e1 : (x + 2 ^ k + (2 ^ 64 - 1)) % 2 ^ 64 = x + 2 ^ k - 1 := by
    have : x + 2 ^ k + (2 ^ 64 - 1) = (x + 2 ^ k - 1) + 2 ^ 64 := by omega
    rw [this, Nat.add_mod_right, Nat.mod_eq_of_lt (by omega)]
  have e2 : (2 ^ k + (2 ^ 64 - 1)) % 2 ^ 64 = 2 ^ k - 1 := by
    have : 2 ^ k + (2 ^ 64 - 1) = (2 ^ k - 1) + 2 ^ 64 := by omega
    rw [this, Nat.add_mod_right, Nat.mod_eq_of_lt (by omega)]
  have e3 : 2 ^ 64 - 1 - (2 ^ k - 1) = 2 ^ 64 - 2 ^ k := by omega
  rw [e1, e2, e3, and_hiMask _ k hk (by omega)]

/-- Under the guard every intermediate value of `alloc_raw` / `alloc_raw_bump` (fixed code) fits a
64-bit word and the one subtraction does not go below zero, so the `Nat` model computes what the
`usize` code computes. -/
theorem alloc_no_wrap (a : Arena) (bytes k : Nat) (hI : a.Inv)
    (hb : a.base < 2 ^ 48) (hc : a.cap < 2 ^ 48) (hl : bytes + 2 ^ k ≤ 2 ^ 63) :
    a.base + a.offset + 2 ^ k ≤ 2 ^ 64 ∧
    alignUpW (a.base + a.offset) (2 ^ k) = alignUp (a.base + a.offset) (2 ^ k) ∧
    a.base ≤ alignUp (a.base + a.offset) (2 ^ k) ∧
    a.absBeg (2 ^ k) + bytes + guardBytes < 2 ^ 64 ∧
    a.absBeg (2 ^ k) + bytes + chunk - 1 < 2 ^ 64 ∧
    alignUpW (a.absBeg (2 ^ k) + bytes) chunk = alignUp (a.absBeg (2 ^ k) + bytes) chunk := by
  have hp : 0 < 2 ^ k := Nat.pos_of_ne_zero (by simp)
  have ho : a.offset ≤ a.cap := Nat.le_trans hI.offLe hI.commitLe
  have h1 := le_alignUp (a.base + a.offset) (2 ^ k) hp
  have h2 := alignUp_lt (a.base + a.offset) (2 ^ k) hp
  have hs : a.base + a.offset + 2 ^ k ≤ 2 ^ 64 := by omega
  have hbeg : a.absBeg (2 ^ k) + bytes < 2 ^ 48 + 2 ^ 63 := by unfold Arena.absBeg; omega
  refine ⟨hs, alignUpW_eq _ _ hs, by omega, ?_, ?_, ?_⟩
  · unfold guardBytes; omega
  · unfold chunk; omega
  · have : chunk = 2 ^ 16 := by decide
    rw [this]
    apply alignUpW_eq
    omega

example : alignUpW (4096 + 5) 8192 = 8192 ∧ alignUpW 65537 65536 = 131072 := by decide

/-! ### `Arena::new` -/

theorem new_spec (base capacity : Nat) :
    (Arena.new base capacity).Inv ∧ (Arena.new base capacity).offset = 0 ∧
    (Arena.new base capacity).commit = 0 ∧ (Arena.new base capacity).base = base ∧
    max capacity 1 ≤ (Arena.new base capacity).cap ∧
    (Arena.new base capacity).cap < max capacity 1 + chunk := by
  have hc : 0 < chunk := by decide
  refine ⟨⟨by simp [Arena.new], by simp [Arena.new], by simp [Arena.new], ?_⟩, rfl, rfl, rfl, ?_, ?_⟩
  · exact dvd_alignUp _ _
  · exact le_alignUp _ _ hc
  · exact alignUp_lt _ _ hc

example : (Arena.new 4096 1).cap = 65536 ∧ (Arena.new 4096 65537).cap = 131072 := by decide

/-! ### Allocation -/

/-- Where the next block starts (fixed code): at or above the offset, less than one alignment above
it, and at an *absolutely* aligned address — for every alignment, with no assumption on `base`. -/
theorem absBeg_spec (a : Arena) (align : Nat) (ha : 0 < align) :
    a.offset ≤ a.absBeg align ∧ a.absBeg align < a.offset + align ∧
    align ∣ a.base + a.absBeg align := by
  unfold Arena.absBeg
  have h1 := le_alignUp (a.base + a.offset) align ha
  have h2 := alignUp_lt (a.base + a.offset) align ha
  have h3 := dvd_alignUp (a.base + a.offset) align
  refine ⟨by omega, by omega, ?_⟩
  have : a.base + (alignUp (a.base + a.offset) align - a.base) = alignUp (a.base + a.offset) align := by
    omega
  rw [this]; exact h3

/-- The block start depends on `base` only through `(base + offset) % align`; it is the *least*
offset at or above `offset` whose address is aligned. -/
theorem absBeg_closed (a : Arena) (align : Nat) (ha : 0 < align) :
    a.absBeg align = a.offset + (align - (a.base + a.offset) % align) % align :=
  alignUp_sub a.base a.offset align ha

theorem absBeg_least (a : Arena) (align o : Nat) (ha : 0 < align) (ho : a.offset ≤ o)
    (hd : align ∣ a.base + o) : a.absBeg align ≤ o := by
  unfold Arena.absBeg
  have := (alignUp_le_iff (a.base + a.offset) align (a.base + o) ha hd).2 (by omega)
  omega

/-- D-11: the formula of the code before the fix coincides with the fixed one exactly when the base
itself is aligned (so the fix changes nothing for alignments up to the page size) … -/
theorem absBeg_eq_relBeg (a : Arena) (align : Nat) (ha : 0 < align) (hd : align ∣ a.base) :
    a.absBeg align = a.relBeg align := by
  unfold Arena.absBeg Arena.relBeg
  obtain ⟨t, ht⟩ := hd
  have h1 := dvd_alignUp a.offset align
  have h2 := le_alignUp a.offset align ha
  have h3 := alignUp_lt a.offset align ha
  have hup : alignUp (a.base + a.offset) align ≤ a.base + alignUp a.offset align := by
    apply (alignUp_le_iff _ _ _ ha _).2
    · omega
    · exact (Nat.dvd_add_right ⟨t, ht⟩).2 h1
  have hlo : a.base + alignUp a.offset align ≤ alignUp (a.base + a.offset) align := by
    have hd' := dvd_alignUp (a.base + a.offset) align
    have hl' := le_alignUp (a.base + a.offset) align ha
    have : align ∣ alignUp (a.base + a.offset) align - a.base := Nat.dvd_sub hd' ⟨t, ht⟩
    have := (alignUp_le_iff a.offset align _ ha this).2 (by omega)
    omega
  omega

/-- … and is misaligned otherwise.  The full-strength alignment claim for the pre-fix formula: -/
def c11_relBeg_aligned_full : Prop :=
  ∀ (a : Arena) (align : Nat), a.Inv → 0 < align → 4096 ∣ a.base → align ∣ a.base + a.relBeg align

/-- It is false: a page-aligned base and `align = 8192` (the D-11 witness
`Arena::new(1 MiB)`, `allocate(Layout{size 16, align 8192})` with `base ≡ 4096 (mod 8192)`). -/
theorem c11_relBeg_aligned_full_is_false : ¬ c11_relBeg_aligned_full := by
  intro h
  have := h (Arena.new 4096 1048576) 8192 (new_spec _ _).1 (by decide) (by decide)
  revert this
  decide

/-- `alloc` succeeded: the block is in bounds of the committed prefix of the reservation, aligned
absolutely, begins at or above the old offset (wasting less than one alignment), and nothing below
the old offset was written. -/
theorem alloc_ok (a : Arena) (bytes align beg : Nat) (a' : Arena) (hI : a.Inv) (ha : 0 < align)
    (h : a.alloc bytes align = some (beg, a')) :
    a'.Inv ∧ a'.base = a.base ∧ a'.cap = a.cap ∧ a.commit ≤ a'.commit ∧
    beg = a.absBeg align ∧ a.offset ≤ beg ∧ beg < a.offset + align ∧ align ∣ a.base + beg ∧
    a'.offset = beg + bytes ∧ a'.offset ≤ a'.commit ∧ a'.commit ≤ a'.cap ∧
    (∀ i, i < a.offset → a'.mem i = a.mem i) := by
  obtain ⟨s1, s2, s3⟩ := absBeg_spec a align ha
  have hc : 0 < chunk := by decide
  unfold Arena.alloc at h
  simp only [] at h
  split at h
  · split at h
    · cases h
    · rename_i hgt hcap
      simp only [Option.some.injEq, Prod.mk.injEq] at h
      obtain ⟨rfl, rfl⟩ := h
      have hle := le_alignUp (a.absBeg align + bytes) chunk hc
      refine ⟨⟨?_, ?_, ?_, ?_⟩, rfl, rfl, ?_, rfl, s1, s2, s3, rfl, ?_, ?_, ?_⟩
      · exact hle
      · dsimp only; omega
      · exact dvd_alignUp _ _
      · exact hI.capCh
      · dsimp only; omega
      · exact hle
      · dsimp only; omega
      · intro i hi
        simp only [Mem.fill]
        split
        · omega
        · rfl
  · rename_i hle
    simp only [Option.some.injEq, Prod.mk.injEq] at h
    obtain ⟨rfl, rfl⟩ := h
    have := hI.commitLe
    refine ⟨⟨?_, hI.commitLe, hI.commitCh, hI.capCh⟩, rfl, rfl, Nat.le_refl _, rfl, s1, s2, s3, rfl,
      ?_, hI.commitLe, ?_⟩
    · dsimp only; omega
    · dsimp only; omega
    · intro i hi
      simp only [Mem.fill]
      split
      · omega
      · rfl

/-- Exact failure condition: `alloc` fails **iff** the aligned block does not fit the reservation.
(`none` carries no state: the error path of the code writes nothing — clean failure; see also
`step_alloc_fail`.) -/
theorem alloc_err_iff (a : Arena) (bytes align : Nat) (hI : a.Inv) :
    a.alloc bytes align = none ↔ a.cap < a.absBeg align + bytes := by
  have hc : 0 < chunk := by decide
  have hiff := alignUp_le_iff (a.absBeg align + bytes) chunk a.cap hc hI.capCh
  unfold Arena.alloc
  simp only []
  split
  · split
    · simp; omega
    · simp; omega
  · have := hI.commitLe
    simp; omega

/-- A successful allocation never returns memory outside the reservation. -/
theorem alloc_in_reservation (a : Arena) (bytes align beg : Nat) (a' : Arena) (hI : a.Inv)
    (ha : 0 < align) (h : a.alloc bytes align = some (beg, a')) : beg + bytes ≤ a.cap := by
  obtain ⟨_, _, h3, _, _, _, _, _, h9, h10, h11, _⟩ := alloc_ok a bytes align beg a' hI ha h
  omega

example : ((Arena.new 4096 65536).alloc 16 8192).map (fun r => (r.1, r.2.offset, r.2.commit)) =
    some (4096, 4112, 65536) := by decide

example : (Arena.new 4096 65536).alloc 65537 1 = none ∧
    ((Arena.new 4096 65536).alloc 65536 1).isSome = true ∧
    (Arena.new 4096 65536).alloc 61441 8192 = none := by decide

theorem allocZeroed_ok (a : Arena) (bytes align beg : Nat) (a' : Arena) (hI : a.Inv) (ha : 0 < align)
    (h : a.allocZeroed bytes align = some (beg, a')) :
    a'.Inv ∧ a'.base = a.base ∧ a'.cap = a.cap ∧ a.commit ≤ a'.commit ∧
    beg = a.absBeg align ∧ a.offset ≤ beg ∧ beg < a.offset + align ∧ align ∣ a.base + beg ∧
    a'.offset = beg + bytes ∧ a'.offset ≤ a'.commit ∧ a'.commit ≤ a'.cap ∧
    (∀ i, i < a.offset → a'.mem i = a.mem i) ∧ (∀ k, k < bytes → a'.mem (beg + k) = 0) := by
  unfold Arena.allocZeroed at h
  split at h
  · cases h
  · rename_i b0 a0 h0
    simp only [Option.some.injEq, Prod.mk.injEq] at h
    obtain ⟨rfl, rfl⟩ := h
    obtain ⟨i1, i2, i3, i4, i5, i6, i7, i8, i9, i10, i11, i12⟩ := alloc_ok a bytes align b0 a0 hI ha h0
    refine ⟨⟨i1.offLe, i1.commitLe, i1.commitCh, i1.capCh⟩, i2, i3, i4, i5, i6, i7, i8, i9, i10, i11,
      ?_, ?_⟩
    · intro i hi
      simp only [Mem.fill]
      split
      · omega
      · exact i12 i hi
    · intro k hk
      simp only [Mem.fill]
      split
      · rfl
      · omega

theorem allocZeroed_err_iff (a : Arena) (bytes align : Nat) (hI : a.Inv) :
    a.allocZeroed bytes align = none ↔ a.cap < a.absBeg align + bytes := by
  rw [← alloc_err_iff a bytes align hI]
  unfold Arena.allocZeroed
  split <;> simp_all

/-! ### grow / shrink -/

/-- `grow` of a block `[beg, beg+oldSize)` that lies below the offset: the result is in bounds and
aligned, the old contents are preserved in the tail case (in place: same start) and in the non-tail
case (copy to a block at or above the old offset), and nothing else below the old offset changes. -/
theorem grow_ok (a : Arena) (beg oldSize newSize align nb : Nat) (a' : Arena) (hI : a.Inv)
    (ha : 0 < align) (hlive : beg + oldSize ≤ a.offset) (hal : align ∣ a.base + beg)
    (hsz : oldSize ≤ newSize) (h : a.grow beg oldSize newSize align = some (nb, a')) :
    a'.Inv ∧ a'.base = a.base ∧ a'.cap = a.cap ∧ a.commit ≤ a'.commit ∧
    (beg + oldSize = a.offset → nb = beg) ∧ (beg + oldSize ≠ a.offset → a.offset ≤ nb) ∧
    align ∣ a.base + nb ∧ nb + newSize = a'.offset ∧ a'.offset ≤ a'.commit ∧ a'.commit ≤ a'.cap ∧
    (∀ i, i < a.offset → a'.mem i = a.mem i) ∧
    (∀ k, k < oldSize → a'.mem (nb + k) = a.mem (beg + k)) := by
  unfold Arena.grow at h
  split at h
  · rename_i htail
    split at h
    · cases h
    · rename_i b0 a0 h0
      simp only [Option.some.injEq, Prod.mk.injEq] at h
      obtain ⟨rfl, rfl⟩ := h
      obtain ⟨i1, i2, i3, i4, i5, i6, i7, _, i9, i10, i11, i12⟩ :=
        alloc_ok a (newSize - oldSize) 1 b0 a0 hI (by decide) h0
      refine ⟨i1, i2, i3, i4, fun _ => rfl, fun hn => absurd htail hn, hal, by omega, i10, i11, i12, ?_⟩
      intro k hk
      exact i12 _ (by omega)
  · rename_i hnt
    split at h
    · cases h
    · rename_i b0 a0 h0
      simp only [Option.some.injEq, Prod.mk.injEq] at h
      obtain ⟨rfl, rfl⟩ := h
      obtain ⟨i1, i2, i3, i4, i5, i6, i7, i8, i9, i10, i11, i12⟩ :=
        alloc_ok a newSize align b0 a0 hI ha h0
      refine ⟨⟨i1.offLe, i1.commitLe, i1.commitCh, i1.capCh⟩, i2, i3, i4, fun ht => absurd ht hnt,
        fun _ => i6, i8, by dsimp only; omega, i10, i11, ?_, ?_⟩
      · intro i hi
        simp only [Mem.copy]
        split
        · omega
        · exact i12 i hi
      · intro k hk
        simp only [Mem.copy]
        split
        · have : beg + (b0 + k - b0) = beg + k := by omega
          rw [this]; exact i12 _ (by omega)
        · omega

/-- `grow` fails exactly when the extension (tail) / the new block (non-tail) does not fit. -/
theorem grow_err_iff (a : Arena) (beg oldSize newSize align : Nat) (hI : a.Inv) :
    a.grow beg oldSize newSize align = none ↔
      (if beg + oldSize = a.offset then a.cap < a.offset + (newSize - oldSize)
       else a.cap < a.absBeg align + newSize) := by
  unfold Arena.grow
  split
  · rw [← show a.absBeg 1 = a.offset by unfold Arena.absBeg; rw [alignUp_one]; omega,
      ← alloc_err_iff a _ 1 hI]
    split <;> simp_all
  · rw [← alloc_err_iff a _ align hI]
    split <;> simp_all

/-- `shrink` of the tail block lowers the offset to the new end and touches nothing else. -/
theorem shrink_tail (a : Arena) (beg oldSize newSize : Nat) (hI : a.Inv)
    (ht : beg + oldSize = a.offset) (hs : newSize ≤ oldSize) :
    (a.shrink beg oldSize newSize).1 = newSize ∧
    (a.shrink beg oldSize newSize).2.offset = beg + newSize ∧
    (a.shrink beg oldSize newSize).2.Inv ∧
    (a.shrink beg oldSize newSize).2.mem = a.mem ∧
    (a.shrink beg oldSize newSize).2.base = a.base ∧
    (a.shrink beg oldSize newSize).2.cap = a.cap ∧
    (a.shrink beg oldSize newSize).2.commit = a.commit := by
  unfold Arena.shrink
  rw [if_pos ht]
  refine ⟨rfl, by dsimp only; omega, ⟨?_, hI.commitLe, hI.commitCh, hI.capCh⟩, rfl, rfl, rfl, rfl⟩
  have := hI.offLe
  dsimp only; omega

/-- `shrink` of any other block changes nothing (release build; a `debug_assert!` in debug). -/
theorem shrink_nontail (a : Arena) (beg oldSize newSize : Nat) (ht : beg + oldSize ≠ a.offset) :
    a.shrink beg oldSize newSize = (oldSize, a) := by
  unfold Arena.shrink; simp [ht]

/-! ### reset / decommit / scratch release -/

theorem reset_ok (a : Arena) (to : Nat) (hI : a.Inv) (h : to ≤ a.offset) :
    (a.reset to).Inv ∧ (a.reset to).offset = to ∧ (a.reset to).base = a.base ∧
    (a.reset to).cap = a.cap ∧ (a.reset to).commit = a.commit ∧
    (∀ i, i < to → (a.reset to).mem i = a.mem i) := by
  have := hI.offLe
  unfold Arena.reset
  split
  · refine ⟨⟨by dsimp only; omega, hI.commitLe, hI.commitCh, hI.capCh⟩, rfl, rfl, rfl, rfl, ?_⟩
    intro i hi
    simp only [Mem.fill]
    split
    · omega
    · rfl
  · exact ⟨⟨by dsimp only; omega, hI.commitLe, hI.commitCh, hI.capCh⟩, rfl, rfl, rfl, rfl,
      fun _ _ => rfl⟩

/-- After a reset to an earlier mark `m` the next allocation reuses exactly the space above the
mark (it begins at the first aligned address at or above `m`) and everything below `m` is
untouched by the reset and by that allocation. -/
theorem reset_then_alloc (a : Arena) (m bytes align beg : Nat) (a' : Arena) (hI : a.Inv)
    (hm : m ≤ a.offset) (ha : 0 < align) (h : (a.reset m).alloc bytes align = some (beg, a')) :
    beg = alignUp (a.base + m) align - a.base ∧ m ≤ beg ∧ beg < m + align ∧ align ∣ a.base + beg ∧
    a'.offset = beg + bytes ∧ (∀ i, i < m → a'.mem i = a.mem i) := by
  obtain ⟨r1, r2, r3, _, _, r6⟩ := reset_ok a m hI hm
  obtain ⟨_, _, _, _, i5, i6, i7, i8, i9, _, _, i12⟩ := alloc_ok (a.reset m) bytes align beg a' r1 ha h
  rw [r2] at i6 i7 i12
  rw [r3] at i8
  refine ⟨?_, i6, i7, i8, i9, fun i hi => (i12 i hi).trans (r6 i hi)⟩
  rw [i5]; unfold Arena.absBeg; rw [r2, r3]

theorem decommit_ok (a : Arena) (hI : a.Inv) :
    a.decommit.Inv ∧ a.decommit.offset = a.offset ∧ a.decommit.base = a.base ∧
    a.decommit.cap = a.cap ∧ a.decommit.commit ≤ a.commit ∧
    a.decommit.commit = min a.commit (alignUp a.offset chunk) ∧
    (∀ i, i < a.offset → a.decommit.mem i = a.mem i) := by
  have hc : 0 < chunk := by decide
  have hle := le_alignUp a.offset chunk hc
  unfold Arena.decommit
  simp only []
  split
  · rename_i hlt
    refine ⟨⟨hle, ?_, dvd_alignUp _ _, hI.capCh⟩, rfl, rfl, rfl, ?_, ?_, ?_⟩
    · have := hI.commitLe; dsimp only; omega
    · dsimp only; omega
    · dsimp only; omega
    · intro i hi
      simp only [Mem.fill]
      split
      · omega
      · rfl
  · exact ⟨hI, rfl, rfl, rfl, Nat.le_refl _, by omega, fun _ _ => rfl⟩

/-- Releasing a scratch borrow (`reset(saved)` + `decommit()`). -/
theorem release_ok (a : Arena) (saved : Nat) (hI : a.Inv) (h : saved ≤ a.offset) :
    (a.release saved).Inv ∧ (a.release saved).offset = saved ∧ (a.release saved).base = a.base ∧
    (a.release saved).cap = a.cap ∧ (a.release saved).commit ≤ a.commit ∧
    (∀ i, i < saved → (a.release saved).mem i = a.mem i) := by
  obtain ⟨r1, r2, r3, r4, r5, r6⟩ := reset_ok a saved hI h
  obtain ⟨d1, d2, d3, d4, d5, _, d7⟩ := decommit_ok (a.reset saved) r1
  unfold Arena.release
  refine ⟨d1, d2.trans r2, d3.trans r3, d4.trans r4, by omega, ?_⟩
  intro i hi
  rw [d7 i (by omega)]
  exact r6 i hi

/-! ### All histories -/

/-- What the client may rely on for a live block. -/
structure BlockOk (a : Arena) (b : Block) : Prop where
  apos    : 0 < b.align
  inb     : b.beg + b.len ≤ a.offset
  aligned : b.align ∣ a.base + b.beg
  content : ∀ k, k < b.len → a.mem (b.beg + k) = b.data k

structure Good (s : St) : Prop where
  inv    : s.a.Inv
  blocks : ∀ b, b ∈ s.live → BlockOk s.a b
  disj   : s.live.Pairwise Disj

theorem BlockOk.frame {a a' : Arena} {b : Block} (h : BlockOk a b) (hb : a'.base = a.base)
    (ho : b.beg + b.len ≤ a'.offset) (hm : ∀ i, i < b.beg + b.len → a'.mem i = a.mem i) :
    BlockOk a' b :=
  ⟨h.apos, ho, by rw [hb]; exact h.aligned, fun k hk => (hm _ (by omega)).trans (h.content k hk)⟩

theorem init_good (base capacity : Nat) : Good (St.init base capacity) :=
  ⟨(new_spec base capacity).1, by simp [St.init], by simp [St.init]⟩

theorem good_alloc (s : St) (hG : Good s) (id bytes align beg : Nat) (a' : Arena)
    (ha : 0 < align) (h1 : a'.base = s.a.base) (hI : a'.Inv) (h6 : s.a.offset ≤ beg) (h8 : align ∣ s.a.base + beg)
    (h9 : a'.offset = beg + bytes) (h12 : ∀ i, i < s.a.offset → a'.mem i = s.a.mem i) :
    Good { s with a := a'
                  live := { id := id, beg := beg, len := bytes, align := align,
                            data := fun k => a'.mem (beg + k) } :: s.live } := by
  refine ⟨hI, ?_, ?_⟩
  · intro b hb
    simp only [List.mem_cons] at hb
    rcases hb with rfl | hb
    · exact ⟨ha, by dsimp only; omega, by simp only [h1]; exact h8, fun _ _ => rfl⟩
    · have hb' := hG.blocks b hb
      exact hb'.frame h1 (by have := hb'.inb; show b.beg + b.len ≤ a'.offset; omega)
        (fun i hi => h12 i (by have := hb'.inb; omega))
  · simp only [List.pairwise_cons]
    refine ⟨?_, hG.disj⟩
    intro c hc
    have := (hG.blocks c hc).inb
    unfold Disj; dsimp only; omega

/-- Every operation preserves the client-visible invariant. -/
theorem step_good (s : St) (op : Op) (hG : Good s) : Good (step s op) := by
  cases op with
  | alloc id bytes align zeroed =>
    simp only [step]
    split
    · exact hG
    · rename_i hal
      have ha : 0 < align := Nat.pos_of_ne_zero hal
      split
      · exact hG
      · rename_i beg a' h
        cases zeroed with
        | false =>
          simp only [Bool.false_eq_true, if_false] at h
          obtain ⟨i1, i2, _, _, _, i6, _, i8, i9, _, _, i12⟩ := alloc_ok _ _ _ _ _ hG.inv ha h
          exact good_alloc s hG id bytes align beg a' ha i2 i1 i6 i8 i9 i12
        | true =>
          simp only [if_true] at h
          obtain ⟨i1, i2, _, _, _, i6, _, i8, i9, _, _, i12, _⟩ := allocZeroed_ok _ _ _ _ _ hG.inv ha h
          exact good_alloc s hG id bytes align beg a' ha i2 i1 i6 i8 i9 i12
  | grow id newSize =>
    simp only [step]
    split
    · exact hG
    · rename_i b hf
      have hbm := findBlk_mem hf
      have hb := hG.blocks b hbm
      split
      · exact hG
      · rename_i hsz
        split
        · exact hG
        · rename_i nb a' h
          have ha : 0 < b.align := hb.apos
          obtain ⟨i1, i2, _, _, i5, i6, i7, i8, _, _, i11, i12⟩ :=
            grow_ok _ _ _ _ _ _ _ hG.inv ha hb.inb hb.aligned (by omega) h
          refine ⟨i1, ?_, ?_⟩
          · intro c hc
            simp only [List.mem_cons] at hc
            rcases hc with rfl | hc
            · refine ⟨ha, by dsimp only; omega, by simp only [i2]; exact i7, ?_⟩
              intro k hk
              simp only []
              split
              · rename_i hk'
                rw [i12 k hk']; exact hb.content k hk'
              · rfl
            · have hc' := hG.blocks c (mem_dropBlk hc)
              have := hc'.inb
              exact hc'.frame i2 (by show c.beg + c.len ≤ a'.offset; omega) (fun i hi => i11 i (by omega))
          · simp only [List.pairwise_cons]
            refine ⟨?_, pairwise_dropBlk id hG.disj⟩
            intro c hc
            have hd : Disj b c := rel_found_dropped disj_symm hG.disj hf hc
            have hci := (hG.blocks c (mem_dropBlk hc)).inb
            have hbi := hb.inb
            unfold Disj at hd ⊢
            simp only []
            by_cases ht : b.beg + b.len = s.a.offset
            · have := i5 ht; omega
            · have := i6 ht; omega
  | shrink id newSize =>
    simp only [step]
    split
    · exact hG
    · rename_i b hf
      have hbm := findBlk_mem hf
      have hb := hG.blocks b hbm
      split
      · rename_i hleg
        obtain ⟨_, s2, s3, s4, s5, _, _⟩ := shrink_tail s.a b.beg b.len newSize hG.inv hleg.2 hleg.1
        refine ⟨s3, ?_, ?_⟩
        · intro c hc
          simp only [List.mem_cons] at hc
          rcases hc with rfl | hc
          · refine ⟨hb.apos, by dsimp only; omega, by simp only [s5]; exact hb.aligned, ?_⟩
            intro k hk
            simp only [] at hk ⊢
            rw [s4]; exact hb.content k (by omega)
          · rw [mem_below] at hc
            have hc' := hG.blocks c (mem_dropBlk hc.1)
            exact hc'.frame s5 hc.2 (fun i _ => by rw [s4])
        · simp only [List.pairwise_cons]
          refine ⟨?_, pairwise_below _ (pairwise_dropBlk id hG.disj)⟩
          intro c hc
          rw [mem_below] at hc
          have hd : Disj b c := rel_found_dropped disj_symm hG.disj hf hc.1
          have := hc.2
          unfold Disj at hd ⊢
          simp only []
          omega
      · exact hG
  | store id f =>
    simp only [step]
    split
    · exact hG
    · rename_i b hf
      have hbm := findBlk_mem hf
      have hb := hG.blocks b hbm
      refine ⟨⟨hG.inv.offLe, hG.inv.commitLe, hG.inv.commitCh, hG.inv.capCh⟩, ?_, ?_⟩
      · intro c hc
        simp only [List.mem_cons] at hc
        rcases hc with rfl | hc
        · refine ⟨hb.apos, hb.inb, hb.aligned, ?_⟩
          intro k hk
          simp only [Mem.store] at hk ⊢
          split
          · congr 1; omega
          · omega
        · have hc' := hG.blocks c (mem_dropBlk hc)
          have hd : Disj b c := rel_found_dropped disj_symm hG.disj hf hc
          refine ⟨hc'.apos, hc'.inb, hc'.aligned, ?_⟩
          intro k hk
          simp only [Mem.store]
          unfold Disj at hd
          split
          · omega
          · exact hc'.content k hk
      · simp only [List.pairwise_cons]
        refine ⟨?_, pairwise_dropBlk id hG.disj⟩
        intro c hc
        have hd : Disj b c := rel_found_dropped disj_symm hG.disj hf hc
        unfold Disj at hd ⊢
        simp only []
        omega
  | reset to =>
    simp only [step]
    split
    · rename_i hle
      obtain ⟨r1, r2, r3, _, _, r6⟩ := reset_ok s.a to hG.inv hle
      refine ⟨r1, ?_, pairwise_below _ hG.disj⟩
      intro c hc
      rw [mem_below] at hc
      exact (hG.blocks c hc.1).frame r3 (by simp only [r2]; exact hc.2) (fun i hi => r6 i (by omega))
    · exact hG
  | decommit =>
    simp only [step]
    obtain ⟨d1, d2, d3, _, _, _, d7⟩ := decommit_ok s.a hG.inv
    refine ⟨d1, ?_, hG.disj⟩
    intro c hc
    have hc' := hG.blocks c hc
    have := hc'.inb
    exact hc'.frame d3 (by simp only [d2]; omega) (fun i hi => d7 i (by omega))
  | borrow =>
    simp only [step]
    exact ⟨hG.inv, hG.blocks, hG.disj⟩
  | release =>
    simp only [step]
    split
    · exact hG
    · rename_i saved rest hbor
      split
      · rename_i hle
        obtain ⟨r1, r2, r3, _, _, r6⟩ := release_ok s.a saved hG.inv hle
        refine ⟨r1, ?_, pairwise_below _ hG.disj⟩
        intro c hc
        rw [mem_below] at hc
        exact (hG.blocks c hc.1).frame r3 (by simp only [r2]; exact hc.2) (fun i hi => r6 i (by omega))
      · exact ⟨hG.inv, hG.blocks, hG.disj⟩

theorem run_good (ops : List Op) : ∀ s, Good s → Good (run s ops) := by
  induction ops with
  | nil => intro s h; exact h
  | cons op ops ih => intro s h; exact ih _ (step_good s op h)

/-! The reservation itself never moves or changes size. -/

theorem alloc_base_cap {a : Arena} {bytes align beg : Nat} {a' : Arena}
    (h : a.alloc bytes align = some (beg, a')) : a'.base = a.base ∧ a'.cap = a.cap := by
  unfold Arena.alloc at h
  simp only [] at h
  split at h
  · split at h
    · cases h
    · simp only [Option.some.injEq, Prod.mk.injEq] at h
      obtain ⟨_, rfl⟩ := h
      exact ⟨rfl, rfl⟩
  · simp only [Option.some.injEq, Prod.mk.injEq] at h
    obtain ⟨_, rfl⟩ := h
    exact ⟨rfl, rfl⟩

theorem allocZeroed_base_cap {a : Arena} {bytes align beg : Nat} {a' : Arena}
    (h : a.allocZeroed bytes align = some (beg, a')) : a'.base = a.base ∧ a'.cap = a.cap := by
  unfold Arena.allocZeroed at h
  split at h
  · cases h
  · rename_i b0 a0 h0
    simp only [Option.some.injEq, Prod.mk.injEq] at h
    obtain ⟨_, rfl⟩ := h
    exact alloc_base_cap (a' := a0) h0

theorem grow_base_cap {a : Arena} {beg o n align nb : Nat} {a' : Arena}
    (h : a.grow beg o n align = some (nb, a')) : a'.base = a.base ∧ a'.cap = a.cap := by
  unfold Arena.grow at h
  split at h
  · split at h
    · cases h
    · rename_i b0 a0 h0
      simp only [Option.some.injEq, Prod.mk.injEq] at h
      obtain ⟨_, rfl⟩ := h
      exact alloc_base_cap h0
  · split at h
    · cases h
    · rename_i b0 a0 h0
      simp only [Option.some.injEq, Prod.mk.injEq] at h
      obtain ⟨_, rfl⟩ := h
      exact alloc_base_cap (a' := a0) h0

theorem reset_base_cap (a : Arena) (to : Nat) : (a.reset to).base = a.base ∧ (a.reset to).cap = a.cap := by
  unfold Arena.reset; split <;> exact ⟨rfl, rfl⟩

theorem decommit_base_cap (a : Arena) : a.decommit.base = a.base ∧ a.decommit.cap = a.cap := by
  unfold Arena.decommit; simp only []; split <;> exact ⟨rfl, rfl⟩

theorem step_base_cap (s : St) (op : Op) :
    (step s op).a.base = s.a.base ∧ (step s op).a.cap = s.a.cap := by
  cases op with
  | alloc id bytes align zeroed =>
    simp only [step]
    split
    · exact ⟨rfl, rfl⟩
    · split
      · exact ⟨rfl, rfl⟩
      · rename_i beg a' h
        cases zeroed with
        | false => simp only [Bool.false_eq_true, if_false] at h; exact alloc_base_cap h
        | true => simp only [if_true] at h; exact allocZeroed_base_cap h
  | grow id newSize =>
    simp only [step]
    split
    · exact ⟨rfl, rfl⟩
    · split
      · exact ⟨rfl, rfl⟩
      · split
        · exact ⟨rfl, rfl⟩
        · rename_i nb a' h; exact grow_base_cap h
  | shrink id newSize =>
    simp only [step]
    split
    · exact ⟨rfl, rfl⟩
    · split
      · unfold Arena.shrink; dsimp only; split <;> exact ⟨rfl, rfl⟩
      · exact ⟨rfl, rfl⟩
  | store id f =>
    simp only [step]
    split <;> exact ⟨rfl, rfl⟩
  | reset to =>
    simp only [step]
    split
    · exact reset_base_cap _ _
    · exact ⟨rfl, rfl⟩
  | decommit => simp only [step]; exact decommit_base_cap _
  | borrow => exact ⟨rfl, rfl⟩
  | release =>
    simp only [step]
    split
    · exact ⟨rfl, rfl⟩
    · split
      · unfold Arena.release
        have h1 := decommit_base_cap (s.a.reset ‹Nat›)
        have h2 := reset_base_cap s.a ‹Nat›
        exact ⟨h1.1.trans h2.1, h1.2.trans h2.2⟩
      · exact ⟨rfl, rfl⟩

theorem run_base_cap (ops : List Op) : ∀ s, (run s ops).a.base = s.a.base ∧ (run s ops).a.cap = s.a.cap := by
  induction ops with
  | nil => intro s; exact ⟨rfl, rfl⟩
  | cons op ops ih =>
    intro s
    have h1 := ih (step s op)
    have h2 := step_base_cap s op
    exact ⟨h1.1.trans h2.1, h1.2.trans h2.2⟩

/-- Blocks that are `Disj` share no byte. -/
theorem disj_no_common_byte (b c : Block) (h : Disj b c) (i : Nat) :
    ¬ (b.beg ≤ i ∧ i < b.beg + b.len ∧ c.beg ≤ i ∧ i < c.beg + c.len) := by
  unfold Disj at h; omega

/-- **C11 for all histories.** After any sequence of allocate (any size / non-zero alignment),
zeroed allocation, grow, shrink, client writes, reset-to-mark, decommit and nested scratch
borrow/release on a fresh arena: the arena invariant holds; every live block (= handed out and not
given back by a reset/release below its end) lies inside the committed prefix of the reservation,
is aligned *absolutely* as requested, still holds exactly what its owner last wrote (a grown block:
its old contents in the old prefix); and live blocks are pairwise disjoint. -/
theorem c11_history (base capacity : Nat) (ops : List Op) :
    (run (St.init base capacity) ops).a.Inv ∧
    (run (St.init base capacity) ops).a.base = base ∧
    (run (St.init base capacity) ops).a.cap = alignUp (max capacity 1) chunk ∧
    (∀ b, b ∈ (run (St.init base capacity) ops).live →
        b.beg + b.len ≤ (run (St.init base capacity) ops).a.offset ∧
        (run (St.init base capacity) ops).a.offset ≤ (run (St.init base capacity) ops).a.commit ∧
        (run (St.init base capacity) ops).a.commit ≤ (run (St.init base capacity) ops).a.cap ∧
        0 < b.align ∧ b.align ∣ base + b.beg ∧
        ∀ k, k < b.len → (run (St.init base capacity) ops).a.mem (b.beg + k) = b.data k) ∧
    (run (St.init base capacity) ops).live.Pairwise Disj := by
  have hG := run_good ops _ (init_good base capacity)
  have hb := run_base_cap ops (St.init base capacity)
  refine ⟨hG.inv, hb.1, hb.2, ?_, hG.disj⟩
  intro b hbm
  have h := hG.blocks b hbm
  have e : (run (St.init base capacity) ops).a.base = base := hb.1
  exact ⟨h.inb, hG.inv.offLe, hG.inv.commitLe, h.apos, by rw [← e]; exact h.aligned, h.content⟩

/-- Clean failure at the level of histories: a failing allocation / grow leaves the whole client
state (arena and every live block) exactly as it was. -/
theorem step_alloc_fail (s : St) (id bytes align : Nat) (zeroed : Bool)
    (h : (if zeroed then s.a.allocZeroed bytes align else s.a.alloc bytes align) = none) :
    step s (.alloc id bytes align zeroed) = s := by
  simp only [step]
  split
  · rfl
  · rw [h]

theorem step_grow_fail (s : St) (id newSize : Nat) (b : Block) (hf : findBlk s.live id = some b)
    (h : s.a.grow b.beg b.len newSize b.align = none) : step s (.grow id newSize) = s := by
  simp only [step, hf]
  split
  · rfl
  · rw [h]

/-- What `grow` records for the client (ghost): the old data in the old prefix. -/
theorem step_grow_data (s : St) (id newSize nb : Nat) (b : Block) (a' : Arena)
    (hf : findBlk s.live id = some b) (hsz : b.len ≤ newSize)
    (h : s.a.grow b.beg b.len newSize b.align = some (nb, a')) :
    ∃ nbk rest, (step s (.grow id newSize)).live = nbk :: rest ∧ nbk.id = id ∧ nbk.beg = nb ∧
      nbk.len = newSize ∧ ∀ k, k < b.len → nbk.data k = b.data k := by
  simp only [step, hf, h]
  split
  · omega
  · refine ⟨_, _, rfl, rfl, rfl, rfl, ?_⟩
    intro k hk
    simp only [hk, if_true]

/-! Non-vacuity: a history on a one-chunk arena whose base is page- but not 8 KiB-aligned, with a
block aligned to 8192, a grow that has to move (not the tail), a grow in place, a reset below a
block, an allocation that reuses the space, and an allocation that does not fit. -/

def demoOps : List Op :=
  [ .alloc 0 100 8 false, .alloc 1 16 8192 false, .store 0 (fun k => k % 251), .grow 0 300,
    .grow 0 400, .borrow, .alloc 2 1000 64 true, .release, .shrink 0 350, .alloc 3 70000 1 false,
    .reset 104, .alloc 4 8 8 false, .decommit ]

example :
    (run (St.init 4096 65536) demoOps).live.map (fun b => (b.id, b.beg, b.len, b.align)) =
      [(4, 104, 8, 8)] ∧
    (run (St.init 4096 65536) (demoOps.take 10)).live.map (fun b => (b.id, b.beg, b.len, b.align)) =
      [(0, 4112, 350, 8), (1, 4096, 16, 8192)] ∧
    (run (St.init 4096 65536) (demoOps.take 10)).a.offset = 4462 ∧
    (run (St.init 4096 65536) demoOps).a.commit = 65536 := by decide

end NaijaVerif.Bump
