/-
C11 — Bump arena: disjoint, aligned, in-bounds blocks; reset and grow behave.

Property theorems about `Model/Bump.lean` (the arena of `src/arena/bump.rs` with the D-11 fix:
the absolute address is aligned; and `ArenaString` of `src/arena/string.rs` over std's `RawVec`,
section "strings").  All statements are for arbitrary arenas / requests / histories;
nothing is bounded.  The constants come from `Gen/Arena.lean` (re-extracted from /repo every run).
-/
import NaijaVerif.Model.Bump
import NaijaVerif.Lemmas.Bump
import NaijaVerif.Gen.Arena

namespace NaijaVerif.Bump

/-! ### Tie of the generated constants to the model's -/

theorem gen_chunk : Gen.Arena.allocChunkSize = chunk := by decide

theorem gen_fills :
    Gen.Arena.allocFill = allocFill ∧ Gen.Arena.freeFill = freeFill ∧
    Gen.Arena.guardBytes = guardBytes := by decide

/-- The chunk size is a power of two (what makes the mask formula a rounding). -/
theorem gen_chunk_pow2 : Gen.Arena.allocChunkSize = 2 ^ 16 := by decide

/-! ### Word-level faithfulness: no `usize` operation wraps under the guard

Guard, stated explicitly: the alignment is a power of two `2^k` and `bytes + 2^k ≤ 2^63` (what
`Layout` guarantees: `size` rounded up to `align` does not exceed `isize::MAX`), the reservation lies
below `2^48` (`base < 2^48`, `cap < 2^48`: user-space addresses). -/

/-- The code's `(x + a - 1) & !(a - 1)` on 64-bit words is the arithmetic rounding of the model
whenever `a` is a power of two and `x + a` does not exceed the word. -/
theorem alignUpW_eq (x k : Nat) (h : x + 2 ^ k ≤ 2 ^ 64) : alignUpW x (2 ^ k) = alignUp x (2 ^ k) := by
  have hk : k ≤ 64 := by
    by_cases hk : k ≤ 64
    · exact hk
    · have : 2 ^ 65 ≤ 2 ^ k := Nat.pow_le_pow_right (by decide) (by omega)
      omega
  have hp : 0 < 2 ^ k := Nat.pos_of_ne_zero (by simp)
  unfold alignUpW alignUp word
  have e1 : (x + 2 ^ k + (2 ^ 64 - 1)) % 2 ^ 64 = x + 2 ^ k - 1 := by
    have : x + 2 ^ k + (2 ^ 64 - 1) = (x + 2 ^ k - 1) + 2 ^ 64 := by omega
    rw [this, Nat.add_mod_right, Nat.mod_eq_of_lt (by omega)]
  have e2 : (2 ^ k + (2 ^ 64 - 1)) % 2 ^ 64 = 2 ^ k - 1 := by
    have : 2 ^ k + (2 ^ 64 - 1) = (2 ^ k - 1) + 2 ^ 64 := by omega
    rw [this, Nat.add_mod_right, Nat.mod_eq_of_lt (by omega)]
  have e3 : 2 ^ 64 - 1 - (2 ^ k - 1) = 2 ^ 64 - 2 ^ k := by omega
  rw [e1, e2, e3, and_hiMask _ k hk (by omega)]

/-- Under the guard every intermediate value of `alloc_raw` / `alloc_raw_bump` (fixed code) fits a
64-bit word and the one subtraction does not go below zero, so the `Nat` model computes what the
`usize` code computes. -/
theorem alloc_no_wrap (a : Arena) (bytes k : Nat) (hI : a.Inv)
    (hb : a.base < 2 ^ 48) (hc : a.cap < 2 ^ 48) (hl : bytes + 2 ^ k ≤ 2 ^ 63) :
    a.base + a.offset + 2 ^ k ≤ 2 ^ 64 ∧
    alignUpW (a.base + a.offset) (2 ^ k) = alignUp (a.base + a.offset) (2 ^ k) ∧
    a.base ≤ alignUp (a.base + a.offset) (2 ^ k) ∧
    a.absBeg (2 ^ k) + bytes + guardBytes < 2 ^ 64 ∧
    a.absBeg (2 ^ k) + bytes + chunk - 1 < 2 ^ 64 ∧
    alignUpW (a.absBeg (2 ^ k) + bytes) chunk = alignUp (a.absBeg (2 ^ k) + bytes) chunk := by
  have hp : 0 < 2 ^ k := Nat.pos_of_ne_zero (by simp)
  have ho : a.offset ≤ a.cap := Nat.le_trans hI.offLe hI.commitLe
  have h1 := le_alignUp (a.base + a.offset) (2 ^ k) hp
  have h2 := alignUp_lt (a.base + a.offset) (2 ^ k) hp
  have hs : a.base + a.offset + 2 ^ k ≤ 2 ^ 64 := by omega
  have hbeg : a.absBeg (2 ^ k) + bytes < 2 ^ 48 + 2 ^ 63 := by unfold Arena.absBeg; omega
  refine ⟨hs, alignUpW_eq _ _ hs, by omega, ?_, ?_, ?_⟩
  · unfold guardBytes; omega
  · unfold chunk; omega
  · have : chunk = 2 ^ 16 := by decide
    rw [this]
    apply alignUpW_eq
    omega

example : alignUpW (4096 + 5) 8192 = 8192 ∧ alignUpW 65537 65536 = 131072 := by decide

/-! ### `Arena::new` -/

theorem new_spec (base capacity : Nat) :
    (Arena.new base capacity).Inv ∧ (Arena.new base capacity).offset = 0 ∧
    (Arena.new base capacity).commit = 0 ∧ (Arena.new base capacity).base = base ∧
    max capacity 1 ≤ (Arena.new base capacity).cap ∧
    (Arena.new base capacity).cap < max capacity 1 + chunk := by
  have hc : 0 < chunk := by decide
  refine ⟨⟨by simp [Arena.new], by simp [Arena.new], by simp [Arena.new], ?_⟩, rfl, rfl, rfl, ?_, ?_⟩
  · exact dvd_alignUp _ _
  · exact le_alignUp _ _ hc
  · exact alignUp_lt _ _ hc

example : (Arena.new 4096 1).cap = 65536 ∧ (Arena.new 4096 65537).cap = 131072 := by decide

/-! ### Allocation -/

/-- Where the next block starts (fixed code): at or above the offset, less than one alignment above
it, and at an *absolutely* aligned address — for every alignment, with no assumption on `base`. -/
theorem absBeg_spec (a : Arena) (align : Nat) (ha : 0 < align) :
    a.offset ≤ a.absBeg align ∧ a.absBeg align < a.offset + align ∧
    align ∣ a.base + a.absBeg align := by
  unfold Arena.absBeg
  have h1 := le_alignUp (a.base + a.offset) align ha
  have h2 := alignUp_lt (a.base + a.offset) align ha
  have h3 := dvd_alignUp (a.base + a.offset) align
  refine ⟨by omega, by omega, ?_⟩
  have : a.base + (alignUp (a.base + a.offset) align - a.base) = alignUp (a.base + a.offset) align := by
    omega
  rw [this]; exact h3

/-- The block start depends on `base` only through `(base + offset) % align`; it is the *least*
offset at or above `offset` whose address is aligned. -/
theorem absBeg_closed (a : Arena) (align : Nat) (ha : 0 < align) :
    a.absBeg align = a.offset + (align - (a.base + a.offset) % align) % align :=
  alignUp_sub a.base a.offset align ha

theorem absBeg_least (a : Arena) (align o : Nat) (ha : 0 < align) (ho : a.offset ≤ o)
    (hd : align ∣ a.base + o) : a.absBeg align ≤ o := by
  unfold Arena.absBeg
  have := (alignUp_le_iff (a.base + a.offset) align (a.base + o) ha hd).2 (by omega)
  omega

/-- D-11: the formula of the code before the fix coincides with the fixed one exactly when the base
itself is aligned (so the fix changes nothing for alignments up to the page size) … -/
theorem absBeg_eq_relBeg (a : Arena) (align : Nat) (ha : 0 < align) (hd : align ∣ a.base) :
    a.absBeg align = a.relBeg align := by
  unfold Arena.absBeg Arena.relBeg
  obtain ⟨t, ht⟩ := hd
  have h1 := dvd_alignUp a.offset align
  have h2 := le_alignUp a.offset align ha
  have h3 := alignUp_lt a.offset align ha
  have hup : alignUp (a.base + a.offset) align ≤ a.base + alignUp a.offset align := by
    apply (alignUp_le_iff _ _ _ ha _).2
    · omega
    · exact (Nat.dvd_add_right ⟨t, ht⟩).2 h1
  have hlo : a.base + alignUp a.offset align ≤ alignUp (a.base + a.offset) align := by
    have hd' := dvd_alignUp (a.base + a.offset) align
    have hl' := le_alignUp (a.base + a.offset) align ha
    have : align ∣ alignUp (a.base + a.offset) align - a.base := Nat.dvd_sub hd' ⟨t, ht⟩
    have := (alignUp_le_iff a.offset align _ ha this).2 (by omega)
    omega
  omega

/-- … and is misaligned otherwise.  The full-strength alignment claim for the pre-fix formula: -/
def c11_relBeg_aligned_full : Prop :=
  ∀ (a : Arena) (align : Nat), a.Inv → 0 < align → 4096 ∣ a.base → align ∣ a.base + a.relBeg align

/-- It is false: a page-aligned base and `align = 8192` (the D-11 witness
`Arena::new(1 MiB)`, `allocate(Layout{size 16, align 8192})` with `base ≡ 4096 (mod 8192)`). -/
theorem c11_relBeg_aligned_full_is_false : ¬ c11_relBeg_aligned_full := by
  intro h
  have := h (Arena.new 4096 1048576) 8192 (new_spec _ _).1 (by decide) (by decide)
  revert this
  decide

/-- `alloc` succeeded: the block is in bounds of the committed prefix of the reservation, aligned
absolutely, begins at or above the old offset (wasting less than one alignment), and nothing below
the old offset was written. -/
theorem alloc_ok (a : Arena) (bytes align beg : Nat) (a' : Arena) (hI : a.Inv) (ha : 0 < align)
    (h : a.alloc bytes align = some (beg, a')) :
    a'.Inv ∧ a'.base = a.base ∧ a'.cap = a.cap ∧ a.commit ≤ a'.commit ∧
    beg = a.absBeg align ∧ a.offset ≤ beg ∧ beg < a.offset + align ∧ align ∣ a.base + beg ∧
    a'.offset = beg + bytes ∧ a'.offset ≤ a'.commit ∧ a'.commit ≤ a'.cap ∧
    (∀ i, i < a.offset → a'.mem i = a.mem i) := by
  obtain ⟨s1, s2, s3⟩ := absBeg_spec a align ha
  have hc : 0 < chunk := by decide
  unfold Arena.alloc at h
  simp only [] at h
  split at h
  · split at h
    · cases h
    · rename_i hgt hcap
      simp only [Option.some.injEq, Prod.mk.injEq] at h
      obtain ⟨rfl, rfl⟩ := h
      have hle := le_alignUp (a.absBeg align + bytes) chunk hc
      refine ⟨⟨?_, ?_, ?_, ?_⟩, rfl, rfl, ?_, rfl, s1, s2, s3, rfl, ?_, ?_, ?_⟩
      · exact hle
      · dsimp only; omega
      · exact dvd_alignUp _ _
      · exact hI.capCh
      · dsimp only; omega
      · exact hle
      · dsimp only; omega
      · intro i hi
        simp only [Mem.fill]
        split
        · omega
        · rfl
  · rename_i hle
    simp only [Option.some.injEq, Prod.mk.injEq] at h
    obtain ⟨rfl, rfl⟩ := h
    have := hI.commitLe
    refine ⟨⟨?_, hI.commitLe, hI.commitCh, hI.capCh⟩, rfl, rfl, Nat.le_refl _, rfl, s1, s2, s3, rfl,
      ?_, hI.commitLe, ?_⟩
    · dsimp only; omega
    · dsimp only; omega
    · intro i hi
      simp only [Mem.fill]
      split
      · omega
      · rfl

/-- Exact failure condition: `alloc` fails **iff** the aligned block does not fit the reservation.
(`none` carries no state: the error path of the code writes nothing — clean failure; see also
`step_alloc_fail`.) -/
theorem alloc_err_iff (a : Arena) (bytes align : Nat) (hI : a.Inv) :
    a.alloc bytes align = none ↔ a.cap < a.absBeg align + bytes := by
  have hc : 0 < chunk := by decide
  have hiff := alignUp_le_iff (a.absBeg align + bytes) chunk a.cap hc hI.capCh
  unfold Arena.alloc
  simp only []
  split
  · split
    · simp; omega
    · simp; omega
  · have := hI.commitLe
    simp; omega

/-- A successful allocation never returns memory outside the reservation. -/
theorem alloc_in_reservation (a : Arena) (bytes align beg : Nat) (a' : Arena) (hI : a.Inv)
    (ha : 0 < align) (h : a.alloc bytes align = some (beg, a')) : beg + bytes ≤ a.cap := by
  obtain ⟨_, _, h3, _, _, _, _, _, h9, h10, h11, _⟩ := alloc_ok a bytes align beg a' hI ha h
  omega

example : ((Arena.new 4096 65536).alloc 16 8192).map (fun r => (r.1, r.2.offset, r.2.commit)) =
    some (4096, 4112, 65536) := by decide

example : (Arena.new 4096 65536).alloc 65537 1 = none ∧
    ((Arena.new 4096 65536).alloc 65536 1).isSome = true ∧
    (Arena.new 4096 65536).alloc 61441 8192 = none := by decide

theorem allocZeroed_ok (a : Arena) (bytes align beg : Nat) (a' : Arena) (hI : a.Inv) (ha : 0 < align)
    (h : a.allocZeroed bytes align = some (beg, a')) :
    a'.Inv ∧ a'.base = a.base ∧ a'.cap = a.cap ∧ a.commit ≤ a'.commit ∧
    beg = a.absBeg align ∧ a.offset ≤ beg ∧ beg < a.offset + align ∧ align ∣ a.base + beg ∧
    a'.offset = beg + bytes ∧ a'.offset ≤ a'.commit ∧ a'.commit ≤ a'.cap ∧
    (∀ i, i < a.offset → a'.mem i = a.mem i) ∧ (∀ k, k < bytes → a'.mem (beg + k) = 0) := by
  unfold Arena.allocZeroed at h
  split at h
  · cases h
  · rename_i b0 a0 h0
    simp only [Option.some.injEq, Prod.mk.injEq] at h
    obtain ⟨rfl, rfl⟩ := h
    obtain ⟨i1, i2, i3, i4, i5, i6, i7, i8, i9, i10, i11, i12⟩ := alloc_ok a bytes align b0 a0 hI ha h0
    refine ⟨⟨i1.offLe, i1.commitLe, i1.commitCh, i1.capCh⟩, i2, i3, i4, i5, i6, i7, i8, i9, i10, i11,
      ?_, ?_⟩
    · intro i hi
      simp only [Mem.fill]
      split
      · omega
      · exact i12 i hi
    · intro k hk
      simp only [Mem.fill]
      split
      · rfl
      · omega

theorem allocZeroed_err_iff (a : Arena) (bytes align : Nat) (hI : a.Inv) :
    a.allocZeroed bytes align = none ↔ a.cap < a.absBeg align + bytes := by
  rw [← alloc_err_iff a bytes align hI]
  unfold Arena.allocZeroed
  split <;> simp_all

/-! ### grow / shrink -/

/-- `grow` of a block `[beg, beg+oldSize)` that lies below the offset: the result is in bounds and
aligned, the old contents are preserved in the tail case (in place: same start) and in the non-tail
case (copy to a block at or above the old offset), and nothing else below the old offset changes. -/
theorem grow_ok (a : Arena) (beg oldSize newSize align nb : Nat) (a' : Arena) (hI : a.Inv)
    (ha : 0 < align) (hlive : beg + oldSize ≤ a.offset) (hal : align ∣ a.base + beg)
    (hsz : oldSize ≤ newSize) (h : a.grow beg oldSize newSize align = some (nb, a')) :
    a'.Inv ∧ a'.base = a.base ∧ a'.cap = a.cap ∧ a.commit ≤ a'.commit ∧
    (beg + oldSize = a.offset → nb = beg) ∧ (beg + oldSize ≠ a.offset → a.offset ≤ nb) ∧
    align ∣ a.base + nb ∧ nb + newSize = a'.offset ∧ a'.offset ≤ a'.commit ∧ a'.commit ≤ a'.cap ∧
    (∀ i, i < a.offset → a'.mem i = a.mem i) ∧
    (∀ k, k < oldSize → a'.mem (nb + k) = a.mem (beg + k)) := by
  unfold Arena.grow at h
  split at h
  · rename_i htail
    split at h
    · cases h
    · rename_i b0 a0 h0
      simp only [Option.some.injEq, Prod.mk.injEq] at h
      obtain ⟨rfl, rfl⟩ := h
      obtain ⟨i1, i2, i3, i4, i5, i6, i7, _, i9, i10, i11, i12⟩ :=
        alloc_ok a (newSize - oldSize) 1 b0 a0 hI (by decide) h0
      refine ⟨i1, i2, i3, i4, fun _ => rfl, fun hn => absurd htail hn, hal, by omega, i10, i11, i12, ?_⟩
      intro k hk
      exact i12 _ (by omega)
  · rename_i hnt
    split at h
    · cases h
    · rename_i b0 a0 h0
      simp only [Option.some.injEq, Prod.mk.injEq] at h
      obtain ⟨rfl, rfl⟩ := h
      obtain ⟨i1, i2, i3, i4, i5, i6, i7, i8, i9, i10, i11, i12⟩ :=
        alloc_ok a newSize align b0 a0 hI ha h0
      refine ⟨⟨i1.offLe, i1.commitLe, i1.commitCh, i1.capCh⟩, i2, i3, i4, fun ht => absurd ht hnt,
        fun _ => i6, i8, by dsimp only; omega, i10, i11, ?_, ?_⟩
      · intro i hi
        simp only [Mem.copy]
        split
        · omega
        · exact i12 i hi
      · intro k hk
        simp only [Mem.copy]
        split
        · have : beg + (b0 + k - b0) = beg + k := by omega
          rw [this]; exact i12 _ (by omega)
        · omega

/-- `grow` fails exactly when the extension (tail) / the new block (non-tail) does not fit. -/
theorem grow_err_iff (a : Arena) (beg oldSize newSize align : Nat) (hI : a.Inv) :
    a.grow beg oldSize newSize align = none ↔
      (if beg + oldSize = a.offset then a.cap < a.offset + (newSize - oldSize)
       else a.cap < a.absBeg align + newSize) := by
  unfold Arena.grow
  split
  · rw [← show a.absBeg 1 = a.offset by unfold Arena.absBeg; rw [alignUp_one]; omega,
      ← alloc_err_iff a _ 1 hI]
    split <;> simp_all
  · rw [← alloc_err_iff a _ align hI]
    split <;> simp_all

/-- `shrink` of the tail block lowers the offset to the new end and touches nothing else. -/
theorem shrink_tail (a : Arena) (beg oldSize newSize : Nat) (hI : a.Inv)
    (ht : beg + oldSize = a.offset) (hs : newSize ≤ oldSize) :
    (a.shrink beg oldSize newSize).1 = newSize ∧
    (a.shrink beg oldSize newSize).2.offset = beg + newSize ∧
    (a.shrink beg oldSize newSize).2.Inv ∧
    (a.shrink beg oldSize newSize).2.mem = a.mem ∧
    (a.shrink beg oldSize newSize).2.base = a.base ∧
    (a.shrink beg oldSize newSize).2.cap = a.cap ∧
    (a.shrink beg oldSize newSize).2.commit = a.commit := by
  unfold Arena.shrink
  rw [if_pos ht]
  refine ⟨rfl, by dsimp only; omega, ⟨?_, hI.commitLe, hI.commitCh, hI.capCh⟩, rfl, rfl, rfl, rfl⟩
  have := hI.offLe
  dsimp only; omega

/-- `shrink` of any other block changes nothing (release build; a `debug_assert!` in debug). -/
theorem shrink_nontail (a : Arena) (beg oldSize newSize : Nat) (ht : beg + oldSize ≠ a.offset) :
    a.shrink beg oldSize newSize = (oldSize, a) := by
  unfold Arena.shrink; simp [ht]

/-! ### reset / decommit / scratch release -/

theorem reset_ok (a : Arena) (to : Nat) (hI : a.Inv) (h : to ≤ a.offset) :
    (a.reset to).Inv ∧ (a.reset to).offset = to ∧ (a.reset to).base = a.base ∧
    (a.reset to).cap = a.cap ∧ (a.reset to).commit = a.commit ∧
    (∀ i, i < to → (a.reset to).mem i = a.mem i) := by
  have := hI.offLe
  unfold Arena.reset
  split
  · refine ⟨⟨by dsimp only; omega, hI.commitLe, hI.commitCh, hI.capCh⟩, rfl, rfl, rfl, rfl, ?_⟩
    intro i hi
    simp only [Mem.fill]
    split
    · omega
    · rfl
  · exact ⟨⟨by dsimp only; omega, hI.commitLe, hI.commitCh, hI.capCh⟩, rfl, rfl, rfl, rfl,
      fun _ _ => rfl⟩

/-- After a reset to an earlier mark `m` the next allocation reuses exactly the space above the
mark (it begins at the first aligned address at or above `m`) and everything below `m` is
untouched by the reset and by that allocation. -/
theorem reset_then_alloc (a : Arena) (m bytes align beg : Nat) (a' : Arena) (hI : a.Inv)
    (hm : m ≤ a.offset) (ha : 0 < align) (h : (a.reset m).alloc bytes align = some (beg, a')) :
    beg = alignUp (a.base + m) align - a.base ∧ m ≤ beg ∧ beg < m + align ∧ align ∣ a.base + beg ∧
    a'.offset = beg + bytes ∧ (∀ i, i < m → a'.mem i = a.mem i) := by
  obtain ⟨r1, r2, r3, _, _, r6⟩ := reset_ok a m hI hm
  obtain ⟨_, _, _, _, i5, i6, i7, i8, i9, _, _, i12⟩ := alloc_ok (a.reset m) bytes align beg a' r1 ha h
  rw [r2] at i6 i7 i12
  rw [r3] at i8
  refine ⟨?_, i6, i7, i8, i9, fun i hi => (i12 i hi).trans (r6 i hi)⟩
  rw [i5]; unfold Arena.absBeg; rw [r2, r3]

theorem decommit_ok (a : Arena) (hI : a.Inv) :
    a.decommit.Inv ∧ a.decommit.offset = a.offset ∧ a.decommit.base = a.base ∧
    a.decommit.cap = a.cap ∧ a.decommit.commit ≤ a.commit ∧
    a.decommit.commit = min a.commit (alignUp a.offset chunk) ∧
    (∀ i, i < a.offset → a.decommit.mem i = a.mem i) := by
  have hc : 0 < chunk := by decide
  have hle := le_alignUp a.offset chunk hc
  unfold Arena.decommit
  simp only []
  split
  · rename_i hlt
    refine ⟨⟨hle, ?_, dvd_alignUp _ _, hI.capCh⟩, rfl, rfl, rfl, ?_, ?_, ?_⟩
    · have := hI.commitLe; dsimp only; omega
    · dsimp only; omega
    · dsimp only; omega
    · intro i hi
      simp only [Mem.fill]
      split
      · omega
      · rfl
  · exact ⟨hI, rfl, rfl, rfl, Nat.le_refl _, by omega, fun _ _ => rfl⟩

/-- Releasing a scratch borrow (`reset(saved)` + `decommit()`). -/
theorem release_ok (a : Arena) (saved : Nat) (hI : a.Inv) (h : saved ≤ a.offset) :
    (a.release saved).Inv ∧ (a.release saved).offset = saved ∧ (a.release saved).base = a.base ∧
    (a.release saved).cap = a.cap ∧ (a.release saved).commit ≤ a.commit ∧
    (∀ i, i < saved → (a.release saved).mem i = a.mem i) := by
  obtain ⟨r1, r2, r3, r4, r5, r6⟩ := reset_ok a saved hI h
  obtain ⟨d1, d2, d3, d4, d5, _, d7⟩ := decommit_ok (a.reset saved) r1
  unfold Arena.release
  refine ⟨d1, d2.trans r2, d3.trans r3, d4.trans r4, by omega, ?_⟩
  intro i hi
  rw [d7 i (by omega)]
  exact r6 i hi

/-! ### All histories -/

/-- What the client may rely on for a live block. -/
structure BlockOk (a : Arena) (b : Block) : Prop where
  apos    : 0 < b.align
  inb     : b.beg + b.len ≤ a.offset
  aligned : b.align ∣ a.base + b.beg
  content : ∀ k, k < b.len → a.mem (b.beg + k) = b.data k
  /-- a vector living in the block never claims more than the block (`len ≤ capacity`) -/
  usedLe  : b.used ≤ b.len

structure Good (s : St) : Prop where
  inv    : s.a.Inv
  blocks : ∀ b, b ∈ s.live → BlockOk s.a b
  disj   : s.live.Pairwise Disj

theorem BlockOk.frame {a a' : Arena} {b : Block} (h : BlockOk a b) (hb : a'.base = a.base)
    (ho : b.beg + b.len ≤ a'.offset) (hm : ∀ i, i < b.beg + b.len → a'.mem i = a.mem i) :
    BlockOk a' b :=
  ⟨h.apos, ho, by rw [hb]; exact h.aligned, fun k hk => (hm _ (by omega)).trans (h.content k hk), h.usedLe⟩

theorem init_good (base capacity : Nat) : Good (St.init base capacity) :=
  ⟨(new_spec base capacity).1, by simp [St.init], by simp [St.init]⟩

theorem good_alloc (s : St) (hG : Good s) (id bytes align beg : Nat) (a' : Arena)
    (ha : 0 < align) (h1 : a'.base = s.a.base) (hI : a'.Inv) (h6 : s.a.offset ≤ beg) (h8 : align ∣ s.a.base + beg)
    (h9 : a'.offset = beg + bytes) (h12 : ∀ i, i < s.a.offset → a'.mem i = s.a.mem i) :
    Good { s with a := a'
                  live := { id := id, beg := beg, len := bytes, align := align,
                            data := fun k => a'.mem (beg + k) } :: s.live } := by
  refine ⟨hI, ?_, ?_⟩
  · intro b hb
    simp only [List.mem_cons] at hb
    rcases hb with rfl | hb
    · exact ⟨ha, by dsimp only; omega, by simp only [h1]; exact h8, fun _ _ => rfl, Nat.zero_le _⟩
    · have hb' := hG.blocks b hb
      exact hb'.frame h1 (by have := hb'.inb; show b.beg + b.len ≤ a'.offset; omega)
        (fun i hi => h12 i (by have := hb'.inb; omega))
  · simp only [List.pairwise_cons]
    refine ⟨?_, hG.disj⟩
    intro c hc
    have := (hG.blocks c hc).inb
    unfold Disj; dsimp only; omega

theorem good_allocBlk (s : St) (hG : Good s) (id bytes align : Nat) (zeroed : Bool) :
    Good (s.allocBlk id bytes align zeroed) := by
  simp only [St.allocBlk]
  split
  · exact hG
  · rename_i hal
    have ha : 0 < align := Nat.pos_of_ne_zero hal
    split
    · exact hG
    · rename_i beg a' h
      cases zeroed with
      | false =>
        simp only [Bool.false_eq_true, if_false] at h
        obtain ⟨i1, i2, _, _, _, i6, _, i8, i9, _, _, i12⟩ := alloc_ok _ _ _ _ _ hG.inv ha h
        exact good_alloc s hG id bytes align beg a' ha i2 i1 i6 i8 i9 i12
      | true =>
        simp only [if_true] at h
        obtain ⟨i1, i2, _, _, _, i6, _, i8, i9, _, _, i12, _⟩ := allocZeroed_ok _ _ _ _ _ hG.inv ha h
        exact good_alloc s hG id bytes align beg a' ha i2 i1 i6 i8 i9 i12

theorem good_growBlk (s : St) (hG : Good s) (id newSize : Nat) : Good (s.growBlk id newSize) := by
  simp only [St.growBlk]
  split
  · exact hG
  · rename_i b hf
    have hbm := findBlk_mem hf
    have hb := hG.blocks b hbm
    split
    · exact hG
    · rename_i hsz
      split
      · exact hG
      · rename_i nb a' h
        have ha : 0 < b.align := hb.apos
        obtain ⟨i1, i2, _, _, i5, i6, i7, i8, _, _, i11, i12⟩ :=
          grow_ok _ _ _ _ _ _ _ hG.inv ha hb.inb hb.aligned (by omega) h
        refine ⟨i1, ?_, ?_⟩
        · intro c hc
          simp only [List.mem_cons] at hc
          rcases hc with rfl | hc
          · refine ⟨ha, by dsimp only; omega, by simp only [i2]; exact i7, ?_, ?_⟩
            · intro k hk
              simp only []
              split
              · rename_i hk'
                rw [i12 k hk']; exact hb.content k hk'
              · rfl
            · have := hb.usedLe
              dsimp only; omega
          · have hc' := hG.blocks c (mem_dropBlk hc)
            have := hc'.inb
            exact hc'.frame i2 (by show c.beg + c.len ≤ a'.offset; omega) (fun i hi => i11 i (by omega))
        · simp only [List.pairwise_cons]
          refine ⟨?_, pairwise_dropBlk id hG.disj⟩
          intro c hc
          have hd : Disj b c := rel_found_dropped disj_symm hG.disj hf hc
          have hci := (hG.blocks c (mem_dropBlk hc)).inb
          have hbi := hb.inb
          unfold Disj at hd ⊢
          simp only []
          by_cases ht : b.beg + b.len = s.a.offset
          · have := i5 ht; omega
          · have := i6 ht; omega

theorem good_shrinkBlk (s : St) (hG : Good s) (id newSize : Nat) : Good (s.shrinkBlk id newSize) := by
  simp only [St.shrinkBlk]
  split
  · exact hG
  · rename_i b hf
    have hbm := findBlk_mem hf
    have hb := hG.blocks b hbm
    split
    · rename_i hleg
      obtain ⟨_, s2, s3, s4, s5, _, _⟩ := shrink_tail s.a b.beg b.len newSize hG.inv hleg.2.1 hleg.1
      refine ⟨s3, ?_, ?_⟩
      · intro c hc
        simp only [List.mem_cons] at hc
        rcases hc with rfl | hc
        · refine ⟨hb.apos, by dsimp only; omega, by simp only [s5]; exact hb.aligned, ?_, hleg.2.2⟩
          intro k hk
          simp only [] at hk ⊢
          rw [s4]; exact hb.content k (by omega)
        · rw [mem_below] at hc
          have hc' := hG.blocks c (mem_dropBlk hc.1)
          exact hc'.frame s5 hc.2 (fun i _ => by rw [s4])
      · simp only [List.pairwise_cons]
        refine ⟨?_, pairwise_below _ (pairwise_dropBlk id hG.disj)⟩
        intro c hc
        rw [mem_below] at hc
        have hd : Disj b c := rel_found_dropped disj_symm hG.disj hf hc.1
        have := hc.2
        unfold Disj at hd ⊢
        simp only []
        omega
    · exact hG


/-! ### strings: `ArenaString` = `Vec<u8, &Arena>` (src/arena/string.rs)

The string whose buffer is block `id` has capacity `b.len`, length `b.used` and bytes
`b.data 0 … b.data (b.used - 1)`; a string without a buffer has capacity and length 0.  Its
operations reserve through `strEnsure` (`Allocator::allocate` / `grow`) and then write THROUGH THE
BUFFER POINTER (`strWrite`), which no definition confines to the block. -/

/-- std's growth policy as observed on the compiled crate (`nvh dump-tables` drives
`Vec::<u8,&Arena>::reserve` / `reserve_exact` over a grid of capacities, lengths and requests) is
the model's closed form. -/
theorem gen_reserve_policy :
    Gen.Arena.reserveProbe.all (fun r =>
      reserveCap r.1 r.2.1 r.2.2.1 == r.2.2.2.1 && reserveExactCap r.1 r.2.1 r.2.2.1 == r.2.2.2.2) = true ∧
    200 ≤ Gen.Arena.reserveProbe.length := by decide +kernel

/-- `Vec::reserve` keeps its promise: afterwards `additional` more bytes fit behind the LENGTH; it
never lowers the capacity and does nothing when the spare room suffices. -/
theorem reserveCap_spec (cap len additional : Nat) :
    cap ≤ reserveCap cap len additional ∧ (len ≤ cap → len + additional ≤ reserveCap cap len additional) ∧
    (additional ≤ cap - len → reserveCap cap len additional = cap) := by
  unfold reserveCap
  split <;> omega

theorem reserveExactCap_spec (cap len additional : Nat) (h : len ≤ cap) :
    cap ≤ reserveExactCap cap len additional ∧ len + additional ≤ reserveExactCap cap len additional ∧
    (additional ≤ cap - len → reserveExactCap cap len additional = cap) ∧
    (cap - len < additional → reserveExactCap cap len additional = len + additional) := by
  unfold reserveExactCap
  split <;> omega

/-- What `vec_replace_impl` needs of its reserve request: the result fits the capacity afterwards. -/
def RuleFits (rule : Nat → Nat → Nat → Nat → Nat) : Prop :=
  ∀ cap len del srcLen, len ≤ cap → del ≤ len → len - del + srcLen ≤ reserveCap cap len (rule cap len del srcLen)

/-- The pinned code asks for `src_len - del_len` more bytes behind the length: enough. -/
theorem pinnedRule_fits : RuleFits pinnedRule := by
  intro cap len del srcLen h1 h2
  have := (reserveCap_spec cap len (srcLen - del)).2.1 h1
  unfold pinnedRule
  omega

/-- Seeded change C11-c2 (`reserve(new_len - capacity)`): NOT enough — capacity 16, length 10, one
byte replaced by nine: the result has 18 bytes, `reserve(2)` finds 6 spare bytes and does nothing. -/
theorem seededRule_does_not_fit : ¬ RuleFits seededRule := by
  intro h
  have := h 16 10 1 9 (by decide) (by decide)
  revert this
  decide

example : reserveCap 16 10 (seededRule 16 10 1 9) = 16 ∧ reserveCap 16 10 (pinnedRule 16 10 1 9) = 32 ∧
    reserveCap 16 15 (seededRule 16 15 0 45) = 59 ∧ reserveCap 0 0 5 = 8 ∧ reserveExactCap 16 10 7 = 17 := by
  decide

/-- `len ≤ capacity` is part of the invariant. -/
theorem good_dims (s : St) (hG : Good s) (id : Nat) : (strDims s id).2 ≤ (strDims s id).1 := by
  unfold strDims
  split
  · rename_i b hf; exact (hG.blocks b (findBlk_mem hf)).usedLe
  · exact Nat.le_refl _

/-! #### reserving -/

/-- `strEnsure` (= `RawVec::finish_grow`) succeeded: the invariant holds, the string has a buffer of
exactly the capacity asked for (or keeps its larger one) — that block is the one the arena handed
out —, its length and every byte of the old buffer are preserved. -/
theorem strEnsure_spec (s : St) (hG : Good s) (id newCap : Nat) (s1 : St)
    (h : strEnsure s id newCap = some s1) :
    Good s1 ∧ strDims s1 id = (max (strDims s id).1 newCap, (strDims s id).2) ∧
    (∀ b b1, findBlk s.live id = some b → findBlk s1.live id = some b1 → ∀ k, k < b.len → b1.data k = b.data k) ∧
    (findBlk s.live id = none → newCap = 0 → s1 = s) := by
  unfold strEnsure at h
  split at h
  · rename_i hf
    split at h
    · rename_i h0
      cases h
      refine ⟨hG, ?_, ?_, fun _ _ => rfl⟩
      · rw [strDims_none s id hf, h0]; rfl
      · intro b b1 h1; rw [hf] at h1; cases h1
    · rename_i h0
      split at h
      · rename_i hs
        cases h
        refine ⟨good_allocBlk s hG id newCap 1 false, ?_, ?_, fun _ h00 => absurd h00 h0⟩
        · rw [strDims_none s id hf]
          simp only [St.allocBlk]
          rw [if_neg (by decide)]
          simp only [Bool.false_eq_true, if_false]
          split
          · rename_i hn; rw [hn] at hs; cases hs
          · rename_i beg a' ha
            rw [strDims_of _ id _ (findBlk_cons_self _ _)]
            simp
        · intro b b1 h1; rw [hf] at h1; cases h1
      · cases h
  · rename_i b hf
    split at h
    · rename_i hle
      cases h
      refine ⟨hG, ?_, ?_, fun hn => by rw [hf] at hn; cases hn⟩
      · rw [strDims_of s id b hf]; simp only []; rw [Nat.max_eq_left hle]
      · intro b' b1 h1 h2; rw [h1] at h2; cases h2; intro _ _; rfl
    · rename_i hgt
      split at h
      · rename_i hs
        cases h
        refine ⟨good_growBlk s hG id newCap, ?_, ?_, fun hn => by rw [hf] at hn; cases hn⟩
        · rw [strDims_of s id b hf]
          simp only [St.growBlk, hf]
          rw [if_neg (by omega)]
          split
          · rename_i hn; rw [hn] at hs; cases hs
          · rename_i nb a' hg
            have := findBlk_cons_self
              { id := id, beg := nb, len := newCap, align := b.align,
                data := fun k => if k < b.len then b.data k else a'.mem (nb + k), used := b.used }
              (dropBlk s.live id)
            rw [strDims_of _ id _ this]
            simp only []
            rw [Nat.max_eq_right (by omega)]
        · intro b' b1 h1 h2
          rw [hf] at h1; cases h1
          simp only [St.growBlk, hf] at h2
          rw [if_neg (by omega)] at h2
          split at h2
          · rename_i hn; rw [hn] at hs; cases hs
          · rename_i nb a' hg
            have := findBlk_cons_self
              { id := id, beg := nb, len := newCap, align := b.align,
                data := fun k => if k < b.len then b.data k else a'.mem (nb + k), used := b.used }
              (dropBlk s.live id)
            simp only [] at this
            rw [this] at h2
            cases h2
            intro k hk
            simp [hk]
      · cases h

/-- Clean failure of a reservation: it fails **iff** the new buffer (the extension, for the tail
block) does not fit the arena — `Vec::reserve` then calls `handle_alloc_error` and nothing was written. -/
theorem strEnsure_none_iff (s : St) (hG : Good s) (id newCap : Nat) :
    strEnsure s id newCap = none ↔
      (match findBlk s.live id with
       | none => newCap ≠ 0 ∧ s.a.cap < s.a.offset + newCap
       | some b => b.len < newCap ∧
           (if b.beg + b.len = s.a.offset then s.a.cap < s.a.offset + (newCap - b.len)
            else s.a.cap < s.a.absBeg b.align + newCap)) := by
  unfold strEnsure
  cases hf : findBlk s.live id with
  | none =>
    have e : s.a.absBeg 1 = s.a.offset := by unfold Arena.absBeg; rw [alignUp_one]; omega
    have h1 := alloc_err_iff s.a newCap 1 hG.inv
    rw [e] at h1
    by_cases h0 : newCap = 0
    · simp [h0]
    · cases ha : s.a.alloc newCap 1 with
      | none => simp [h0, ← h1, ha]
      | some r => simp [h0, ← h1, ha]
  | some b =>
    have h1 := grow_err_iff s.a b.beg b.len newCap b.align hG.inv
    by_cases h0 : newCap ≤ b.len
    · simp [h0]; omega
    · cases hg : s.a.grow b.beg b.len newCap b.align with
      | none => simp [h0, ← h1, hg]; omega
      | some r => simp [h0, ← h1, hg]


/-! #### writing through the buffer pointer -/

/-- A raw write by the owner of buffer `id` keeps the invariant **provided** it stays inside the
block and the new length does not exceed the capacity — the proof obligation of the unsafe code. -/
theorem good_strWrite (s : St) (hG : Good s) (id : Nat) (w : Nat → Mem → Mem) (used' : Nat)
    (h : ∀ b, findBlk s.live id = some b →
      used' ≤ b.len ∧ ∀ i, (i < b.beg ∨ b.beg + b.len ≤ i) → w b.beg s.a.mem i = s.a.mem i) :
    Good (strWrite s id w used') := by
  unfold strWrite
  split
  · exact hG
  · rename_i b hf
    obtain ⟨hu, hm⟩ := h b hf
    have hb := hG.blocks b (findBlk_mem hf)
    refine ⟨⟨hG.inv.offLe, hG.inv.commitLe, hG.inv.commitCh, hG.inv.capCh⟩, ?_, ?_⟩
    · intro c hc
      simp only [List.mem_cons] at hc
      rcases hc with rfl | hc
      · exact ⟨hb.apos, hb.inb, hb.aligned, fun _ _ => rfl, hu⟩
      · have hc' := hG.blocks c (mem_dropBlk hc)
        have hd : Disj b c := rel_found_dropped disj_symm hG.disj hf hc
        refine ⟨hc'.apos, hc'.inb, hc'.aligned, ?_, hc'.usedLe⟩
        intro k hk
        unfold Disj at hd
        show w b.beg s.a.mem (c.beg + k) = c.data k
        rw [hm _ (by omega)]
        exact hc'.content k hk
    · simp only [List.pairwise_cons]
      refine ⟨?_, pairwise_dropBlk id hG.disj⟩
      intro c hc
      have hd : Disj b c := rel_found_dropped disj_symm hG.disj hf hc
      unfold Disj at hd ⊢
      simp only []
      omega

/-! #### every string operation preserves the invariant -/

theorem good_strReserve (s : St) (hG : Good s) (id additional : Nat) (exact : Bool) :
    Good (s.strReserve id additional exact) := by
  unfold St.strReserve
  simp only []
  split
  · exact hG
  · rename_i s1 h; exact (strEnsure_spec s hG id _ s1 h).1

theorem good_strPush (s : St) (hG : Good s) (id : Nat) (src : List Nat) : Good (s.strPush id src) := by
  unfold St.strPush
  simp only []
  split
  · exact hG
  · rename_i s1 h
    obtain ⟨hG1, hd, _, _⟩ := strEnsure_spec s hG id _ s1 h
    apply good_strWrite s1 hG1
    intro b1 hf1
    rw [strDims_of s1 id b1 hf1] at hd
    have hle := good_dims s hG id
    have hr := (reserveCap_spec (strDims s id).1 (strDims s id).2 src.length).2.1 hle
    have h1 : b1.len = max (strDims s id).1 (reserveCap (strDims s id).1 (strDims s id).2 src.length) :=
      congrArg Prod.fst hd
    refine ⟨by omega, ?_⟩
    intro i hi
    simp only [Mem.store]
    split
    · omega
    · rfl

/-- `vec_replace_impl` with ANY reserve request that satisfies `RuleFits` keeps the invariant. -/
theorem good_strReplaceWith (rule : Nat → Nat → Nat → Nat → Nat) (hr : RuleFits rule) (s : St) (hG : Good s)
    (id lo hi : Nat) (src : List Nat) : Good (s.strReplaceWith rule id lo hi src) := by
  unfold St.strReplaceWith
  simp only []
  split
  · exact hG
  · split
    · exact hG
    · rename_i s1 h
      obtain ⟨hG1, hd, _, _⟩ := strEnsure_spec s hG id _ s1 h
      apply good_strWrite s1 hG1
      intro b1 hf1
      rw [strDims_of s1 id b1 hf1] at hd
      have hle := good_dims s hG id
      have h1 : b1.len = max (strDims s id).1 _ := congrArg Prod.fst hd
      generalize (strDims s id).1 = cap at *
      generalize (strDims s id).2 = len at *
      have hfit := hr cap len (min (hi - min lo len) (len - min lo len)) src.length hle (by omega)
      refine ⟨by omega, ?_⟩
      intro i hi
      simp only [Mem.store, Mem.copy]
      split
      · omega
      · split
        · omega
        · rfl

theorem good_strShrink (s : St) (hG : Good s) (id : Nat) : Good (s.strShrink id) := by
  unfold St.strShrink
  split
  · exact hG
  · rename_i b hf
    split
    · exact hG
    · split
      · rename_i hu
        have hb := hG.blocks b (findBlk_mem hf)
        refine ⟨hG.inv, ?_, ?_⟩
        · intro c hc
          simp only [List.mem_cons] at hc
          rcases hc with rfl | hc
          · have := hb.inb
            exact ⟨hb.apos, by show b.beg + 0 ≤ s.a.offset; omega, hb.aligned,
              fun k hk => absurd hk (Nat.not_lt_zero _), by show b.used ≤ 0; omega⟩
          · exact hG.blocks c (mem_dropBlk hc)
        · simp only [List.pairwise_cons]
          exact ⟨fun c _ => Or.inl rfl, pairwise_dropBlk id hG.disj⟩
      · exact good_shrinkBlk s hG id b.used

/-- Every operation preserves the client-visible invariant. -/
theorem step_good (s : St) (op : Op) (hG : Good s) : Good (step s op) := by
  cases op with
  | alloc id bytes align zeroed => exact good_allocBlk s hG id bytes align zeroed
  | grow id newSize => exact good_growBlk s hG id newSize
  | shrink id newSize => exact good_shrinkBlk s hG id newSize
  | store id f =>
    simp only [step]
    split
    · exact hG
    · rename_i b hf
      have hbm := findBlk_mem hf
      have hb := hG.blocks b hbm
      refine ⟨⟨hG.inv.offLe, hG.inv.commitLe, hG.inv.commitCh, hG.inv.capCh⟩, ?_, ?_⟩
      · intro c hc
        simp only [List.mem_cons] at hc
        rcases hc with rfl | hc
        · refine ⟨hb.apos, hb.inb, hb.aligned, ?_, hb.usedLe⟩
          intro k hk
          simp only [Mem.store] at hk ⊢
          split
          · congr 1; omega
          · omega
        · have hc' := hG.blocks c (mem_dropBlk hc)
          have hd : Disj b c := rel_found_dropped disj_symm hG.disj hf hc
          refine ⟨hc'.apos, hc'.inb, hc'.aligned, ?_, hc'.usedLe⟩
          intro k hk
          simp only [Mem.store]
          unfold Disj at hd
          split
          · omega
          · exact hc'.content k hk
      · simp only [List.pairwise_cons]
        refine ⟨?_, pairwise_dropBlk id hG.disj⟩
        intro c hc
        have hd : Disj b c := rel_found_dropped disj_symm hG.disj hf hc
        unfold Disj at hd ⊢
        simp only []
        omega
  | reset to =>
    simp only [step]
    split
    · rename_i hle
      obtain ⟨r1, r2, r3, _, _, r6⟩ := reset_ok s.a to hG.inv hle
      refine ⟨r1, ?_, pairwise_below _ hG.disj⟩
      intro c hc
      rw [mem_below] at hc
      exact (hG.blocks c hc.1).frame r3 (by simp only [r2]; exact hc.2) (fun i hi => r6 i (by omega))
    · exact hG
  | decommit =>
    simp only [step]
    obtain ⟨d1, d2, d3, _, _, _, d7⟩ := decommit_ok s.a hG.inv
    refine ⟨d1, ?_, hG.disj⟩
    intro c hc
    have hc' := hG.blocks c hc
    have := hc'.inb
    exact hc'.frame d3 (by simp only [d2]; omega) (fun i hi => d7 i (by omega))
  | borrow =>
    simp only [step]
    exact ⟨hG.inv, hG.blocks, hG.disj⟩
  | release =>
    simp only [step]
    split
    · exact hG
    · rename_i saved rest hbor
      split
      · rename_i hle
        obtain ⟨r1, r2, r3, _, _, r6⟩ := release_ok s.a saved hG.inv hle
        refine ⟨r1, ?_, pairwise_below _ hG.disj⟩
        intro c hc
        rw [mem_below] at hc
        exact (hG.blocks c hc.1).frame r3 (by simp only [r2]; exact hc.2) (fun i hi => r6 i (by omega))
      · exact ⟨hG.inv, hG.blocks, hG.disj⟩
  | sReserve id additional exact => exact good_strReserve s hG id additional exact
  | sPush id src => exact good_strPush s hG id src
  | sShrink id => exact good_strShrink s hG id
  | sClear id =>
    simp only [step]
    exact good_strWrite s hG id _ 0 (fun b _ => ⟨Nat.zero_le _, fun _ _ => rfl⟩)
  | sReplace id lo hi src => exact good_strReplaceWith pinnedRule pinnedRule_fits s hG id lo hi src
  | sOnce id old new =>
    simp only [step]
    split
    · exact hG
    · exact good_strReplaceWith pinnedRule pinnedRule_fits s hG id _ _ new


/-! #### what each string operation computes -/

/-- Reserving never changes the string. -/
theorem strEnsure_content (s : St) (hG : Good s) (id newCap : Nat) (s1 : St)
    (h : strEnsure s id newCap = some s1) : strContent s1 id = strContent s id := by
  obtain ⟨_, hd, hdata, _⟩ := strEnsure_spec s hG id newCap s1 h
  cases hf : findBlk s.live id with
  | none =>
    apply list_eq_of_getD
    · rw [strContent_length, strContent_length, hd]
    · intro k hk
      rw [strContent_length, hd, strDims_none s id hf] at hk
      exact absurd hk (Nat.not_lt_zero _)
  | some b =>
    have hb := hG.blocks b (findBlk_mem hf)
    rw [strDims_of s id b hf] at hd
    cases hf1 : findBlk s1.live id with
    | none =>
      rw [strDims_none s1 id hf1] at hd
      have hu : b.used = 0 := (congrArg Prod.snd hd).symm
      apply list_eq_of_getD
      · rw [strContent_length, strContent_length, strDims_none s1 id hf1, strDims_of s id b hf]; exact hu.symm
      · intro k hk
        rw [strContent_length, strDims_none s1 id hf1] at hk
        exact absurd hk (Nat.not_lt_zero _)
    | some b1 =>
      rw [strDims_of s1 id b1 hf1] at hd
      rw [strContent_of s1 id b1 hf1, strContent_of s id b hf]
      exact content_eq_of b b1 (congrArg Prod.snd hd) (fun k hk => hdata b b1 hf hf1 k (by have := hb.usedLe; omega))

/-- `reserve` / `reserve_exact`: either the allocator refuses (the process aborts, nothing changed),
or the capacity is exactly what std's policy says, `additional` more bytes fit behind the length,
and the string is unchanged. -/
theorem str_reserve_spec (s : St) (hG : Good s) (id additional : Nat) (exact : Bool) :
    let cap := (strDims s id).1
    let len := (strDims s id).2
    let want := if exact then reserveExactCap cap len additional else reserveCap cap len additional
    let s' := step s (.sReserve id additional exact)
    (strEnsure s id want = none ∧ s' = s) ∨
    (strDims s' id = (want, len) ∧ len + additional ≤ want ∧ strContent s' id = strContent s id) := by
  intro cap len want s'
  have hle : len ≤ cap := good_dims s hG id
  have hw : cap ≤ want ∧ len + additional ≤ want := by
    show cap ≤ (if exact then _ else _) ∧ len + additional ≤ (if exact then _ else _)
    cases exact
    · have := reserveCap_spec cap len additional
      simp only [Bool.false_eq_true, if_false]; exact ⟨this.1, this.2.1 hle⟩
    · have := reserveExactCap_spec cap len additional hle
      simp only [if_true]; exact ⟨this.1, this.2.1⟩
  cases h : strEnsure s id want with
  | none =>
    left
    refine ⟨rfl, ?_⟩
    show St.strReserve s id additional exact = s
    unfold St.strReserve
    simp only []
    rw [show strEnsure s id (if exact then reserveExactCap (strDims s id).1 (strDims s id).2 additional
        else reserveCap (strDims s id).1 (strDims s id).2 additional) = none from h]
  | some s1 =>
    right
    have e : s' = s1 := by
      show St.strReserve s id additional exact = s1
      unfold St.strReserve
      simp only []
      rw [show strEnsure s id (if exact then reserveExactCap (strDims s id).1 (strDims s id).2 additional
          else reserveCap (strDims s id).1 (strDims s id).2 additional) = some s1 from h]
    obtain ⟨_, hd, _, _⟩ := strEnsure_spec s hG id want s1 h
    rw [e]
    refine ⟨?_, hw.2, strEnsure_content s hG id want s1 h⟩
    rw [hd, Nat.max_eq_right hw.1]

/-- `push_str(src)` (and `push`, `push_repeat`): either the allocator refuses, or the string is the
old one followed by `src`, and it lies within the capacity std's policy gives. -/
theorem str_push_spec (s : St) (hG : Good s) (id : Nat) (src : List Nat) :
    let cap := (strDims s id).1
    let len := (strDims s id).2
    let want := reserveCap cap len src.length
    let s' := step s (.sPush id src)
    (strEnsure s id want = none ∧ s' = s) ∨
    (strContent s' id = strContent s id ++ src ∧ strDims s' id = (want, len + src.length) ∧
     len + src.length ≤ want) := by
  intro cap len want s'
  have hle : len ≤ cap := good_dims s hG id
  have hw := reserveCap_spec cap len src.length
  have hfit : len + src.length ≤ want := hw.2.1 hle
  have hs' : s' = match strEnsure s id want with
      | none => s
      | some s1 => strWrite s1 id (fun beg m => m.store (beg + len) src.length (srcAt src.toArray)) (len + src.length) := by
    show St.strPush s id src = _
    unfold St.strPush
    rfl
  cases h : strEnsure s id want with
  | none => left; rw [hs', h]; exact ⟨rfl, rfl⟩
  | some s1 =>
    right
    rw [h] at hs'
    simp only [] at hs'
    obtain ⟨hG1, hd, _, _⟩ := strEnsure_spec s hG id want s1 h
    have hc1 := strEnsure_content s hG id want s1 h
    rw [Nat.max_eq_right hw.1] at hd
    cases hf1 : findBlk s1.live id with
    | none =>
      rw [strDims_none s1 id hf1] at hd
      have h0 : want = 0 := (congrArg Prod.fst hd).symm
      have hl0 : len = 0 := (congrArg Prod.snd hd).symm
      have hn : src.length = 0 := by omega
      have hsrc : src = [] := List.eq_nil_of_length_eq_zero hn
      rw [hs', strWrite_none s1 id _ _ hf1, hc1, hsrc, strDims_none s1 id hf1, h0, hl0]
      exact ⟨(List.append_nil _).symm, rfl, Nat.le_refl _⟩
    | some b1 =>
      rw [strDims_of s1 id b1 hf1] at hd
      have hcap : b1.len = want := congrArg Prod.fst hd
      have hused : b1.used = len := congrArg Prod.snd hd
      have hb1 := hG1.blocks b1 (findBlk_mem hf1)
      have hblk := strWrite_blk s1 id (fun beg m => m.store (beg + len) src.length (srcAt src.toArray))
        (len + src.length) b1 hf1
      rw [← hs'] at hblk
      refine ⟨?_, ?_, hfit⟩
      · rw [strContent_of s' id _ hblk, ← hc1, strContent_of s1 id b1 hf1]
        apply list_eq_of_getD
        · simp [content_length, hused]
        · intro k hk
          rw [content_length] at hk
          simp only [] at hk
          rw [content_getD _ k hk, getD_append, content_length, hused]
          simp only [Mem.store]
          by_cases hk1 : k < len
          · rw [if_neg (by omega), if_pos hk1, content_getD b1 k (by omega)]
            exact hb1.content k (by omega)
          · rw [if_pos (by omega), if_neg hk1, srcAt_toArray]
            congr 1; omega
      · rw [strDims_of s' id _ hblk]
        simp only [hcap]

/-- `replace_range(lo..hi, src)` (= `vec_replace_impl`, pinned code): the range is clamped to the
string; either the allocator refuses, or the string is `take off ++ src ++ drop (off + del)` of the
old one, its length is within the capacity, and the capacity is what `reserve(src_len - del_len)`
gives by std's policy — in particular every byte the raw copies wrote lies inside the buffer. -/
theorem str_replace_spec (s : St) (hG : Good s) (id lo hi : Nat) (src : List Nat) :
    let c := strContent s id
    let cap := (strDims s id).1
    let off := min lo c.length
    let del := min (hi - off) (c.length - off)
    let want := reserveCap cap c.length (src.length - del)
    let s' := step s (.sReplace id lo hi src)
    (strEnsure s id want = none ∧ s' = s) ∨
    (strContent s' id = replaceBytes c off del src ∧
     strDims s' id = (want, c.length - del + src.length) ∧ c.length - del + src.length ≤ want) := by
  intro c cap off del want s'
  have hlen : c.length = (strDims s id).2 := strContent_length s id
  have hle : c.length ≤ cap := by rw [hlen]; exact good_dims s hG id
  have hw := reserveCap_spec cap c.length (src.length - del)
  have hoff : off ≤ c.length := Nat.min_le_right _ _
  have hdel : off + del ≤ c.length := by
    have : del ≤ c.length - off := Nat.min_le_right _ _
    omega
  have hfit : c.length - del + src.length ≤ want := by have := hw.2.1 hle; omega
  have hs' : s' = if del = 0 ∧ src.length = 0 then s else
      match strEnsure s id want with
      | none => s
      | some s1 => strWrite s1 id
          (fun beg m => (m.copy (beg + off + del) (beg + off + src.length) (c.length - off - del)).store
            (beg + off) src.length (srcAt src.toArray)) (c.length - del + src.length) := by
    show St.strReplaceWith pinnedRule s id lo hi src = _
    unfold St.strReplaceWith pinnedRule
    simp only [← hlen]
    rfl
  by_cases h0 : del = 0 ∧ src.length = 0
  · -- nothing to do
    right
    rw [hs', if_pos h0]
    have hsrc : src = [] := List.eq_nil_of_length_eq_zero h0.2
    have hwant : want = cap := hw.2.2 (by omega)
    refine ⟨?_, ?_, hfit⟩
    · rw [hsrc, h0.1]; simp [replaceBytes]; rfl
    · rw [hwant, h0.1, h0.2]
      show strDims s id = (cap, c.length - 0 + 0)
      rw [hlen]
      exact Prod.ext rfl (by simp)
  · rw [if_neg h0] at hs'
    cases h : strEnsure s id want with
    | none => left; rw [hs', h]; exact ⟨rfl, rfl⟩
    | some s1 =>
      right
      rw [h] at hs'
      simp only [] at hs'
      obtain ⟨hG1, hd, _, _⟩ := strEnsure_spec s hG id want s1 h
      have hc1 := strEnsure_content s hG id want s1 h
      rw [Nat.max_eq_right hw.1] at hd
      cases hf1 : findBlk s1.live id with
      | none =>
        -- no buffer after a successful reservation: the result is empty, so there was nothing to do
        rw [strDims_none s1 id hf1] at hd
        have hwant0 : want = 0 := (congrArg Prod.fst hd).symm
        exfalso
        apply h0
        omega
      | some b1 =>
        rw [strDims_of s1 id b1 hf1] at hd
        have hcap : b1.len = want := congrArg Prod.fst hd
        have hused : b1.used = c.length := by rw [hlen]; exact congrArg Prod.snd hd
        have hb1 := hG1.blocks b1 (findBlk_mem hf1)
        have hblk := strWrite_blk s1 id
          (fun beg m => (m.copy (beg + off + del) (beg + off + src.length) (c.length - off - del)).store
            (beg + off) src.length (srcAt src.toArray)) (c.length - del + src.length) b1 hf1
        rw [← hs'] at hblk
        have hcb : c = b1.content := by rw [← strContent_of s1 id b1 hf1, hc1]
        refine ⟨?_, ?_, hfit⟩
        · rw [strContent_of s' id _ hblk]
          apply list_eq_of_getD
          · rw [content_length, replaceBytes_length c off del src hdel]
          · intro k hk
            rw [content_length] at hk
            simp only [] at hk
            rw [content_getD _ k hk, replaceBytes_getD c off del src hdel k]
            simp only [Mem.store, Mem.copy]
            by_cases hk1 : k < off
            · rw [if_neg (by omega), if_neg (by omega), if_pos hk1, hcb, content_getD b1 k (by omega)]
              exact hb1.content k (by omega)
            · by_cases hk2 : k < off + src.length
              · rw [if_pos (by omega), if_neg hk1, if_pos hk2, srcAt_toArray]
                congr 1; omega
              · rw [if_neg (by omega), if_pos (by omega), if_neg hk1, if_neg hk2, hcb,
                  content_getD b1 _ (by omega)]
                have e : b1.beg + off + del + (b1.beg + k - (b1.beg + off + src.length)) =
                    b1.beg + (k - src.length + del) := by omega
                rw [e]
                exact hb1.content _ (by omega)
        · rw [strDims_of s' id _ hblk]
          simp only [hcap]

/-! `str::find` -/

/-- `findSub` is `str::find`: the index of the FIRST occurrence (so the slice `r .. r + |needle|`
exists), `none` exactly when the needle occurs nowhere. -/
theorem findSub_spec (hay needle : List Nat) :
    (∀ r, findSub hay needle = some r →
      needle <+: hay.drop r ∧ r + needle.length ≤ hay.length ∧ ∀ j, j < r → ¬ needle <+: hay.drop j) ∧
    (findSub hay needle = none → ∀ j, ¬ needle <+: hay.drop j) := by
  refine ⟨?_, findSubFrom_none needle hay 0⟩
  intro r h
  obtain ⟨_, h2, h3⟩ := findSubFrom_some needle hay 0 r h
  rw [Nat.sub_zero] at h2 h3
  refine ⟨h2, ?_, h3⟩
  have := h2.length_le
  rw [List.length_drop] at this
  by_cases hr : r ≤ hay.length
  · omega
  · have hnil : needle = [] := by
      have : hay.drop r = [] := List.drop_eq_nil_of_le (by omega)
      rw [this] at h2
      exact List.prefix_nil.1 h2
    -- an empty needle is found at the first position it is tried at, which is ≤ the length
    exfalso
    subst hnil
    have h0 := h3 0
    simp at h0
    omega

example : findSub [1, 2, 3, 2, 3] [2, 3] = some 1 ∧ findSub [1, 2] [] = some 0 ∧ findSub [] [] = some 0 ∧
    findSub [1, 2, 3] [3, 4] = none ∧ findSub [1, 2, 3] [3] = some 2 := by decide

/-- `replace_once_in_place(old, new)` is by definition `find` followed by `replace_range` at the
index found (the form the driver executes). -/
theorem step_sOnce (s : St) (id : Nat) (old new : List Nat) :
    step s (.sOnce id old new) =
      match findSub (strContent s id) old with
      | none => s
      | some i => step s (.sReplace id i (i + old.length) new) := by
  simp only [step]
  rfl

/-- `replace_once_in_place`: nothing happens when `old` does not occur; otherwise (unless the
allocator refuses) the FIRST occurrence — and only it — is replaced, within the capacity. -/
theorem str_once_spec (s : St) (hG : Good s) (id : Nat) (old new : List Nat) :
    let c := strContent s id
    let s' := step s (.sOnce id old new)
    (findSub c old = none → s' = s) ∧
    (∀ r, findSub c old = some r →
      let want := reserveCap (strDims s id).1 c.length (new.length - old.length)
      (strEnsure s id want = none ∧ s' = s) ∨
      (strContent s' id = c.take r ++ new ++ c.drop (r + old.length) ∧
       strDims s' id = (want, c.length - old.length + new.length) ∧
       c.length - old.length + new.length ≤ want)) := by
  intro c s'
  constructor
  · intro h
    show step s (.sOnce id old new) = s
    rw [step_sOnce, h]
  · intro r h
    have hr := ((findSub_spec c old).1 r h).2.1
    have e : s' = step s (.sReplace id r (r + old.length) new) := by
      show step s (.sOnce id old new) = _
      rw [step_sOnce, h]
    have := str_replace_spec s hG id r (r + old.length) new
    simp only [] at this
    have e1 : min r c.length = r := Nat.min_eq_left (by omega)
    have e2 : min (r + old.length - r) (c.length - r) = old.length := by
      rw [Nat.add_sub_cancel_left]; exact Nat.min_eq_left (by omega)
    rw [e1, e2] at this
    rw [e]
    exact this

/-! clean failure, `clear`, `shrink_to_fit` -/

/-- An operation that ends in `handle_alloc_error` has changed nothing. -/
theorem step_abort_clean (s : St) (op : Op) (h : aborts s op = true) : step s op = s := by
  cases op with
  | sReserve id additional exact =>
    simp only [aborts, Option.isNone_iff_eq_none] at h
    simp only [step, St.strReserve, h]
  | sPush id src =>
    simp only [aborts, Option.isNone_iff_eq_none] at h
    simp only [step, St.strPush, h]
  | sReplace id lo hi src =>
    simp only [aborts, Bool.and_eq_true, Option.isNone_iff_eq_none] at h
    simp only [step, St.strReplaceWith, h.2]
    split <;> rfl
  | sOnce id old new =>
    simp only [aborts] at h
    simp only [step]
    split
    · rfl
    · rename_i r hr
      rw [hr] at h
      simp only [Bool.and_eq_true, Option.isNone_iff_eq_none] at h
      simp only [St.strReplaceWith, h.2]
      split <;> rfl
  | _ => simp [aborts] at h

/-- `clear()`: the string is empty, the buffer (its capacity, its place) stays. -/
theorem str_clear_spec (s : St) (id : Nat) :
    strContent (step s (.sClear id)) id = [] ∧
    strDims (step s (.sClear id)) id = ((strDims s id).1, 0) := by
  simp only [step]
  cases hf : findBlk s.live id with
  | none => rw [strWrite_none s id _ _ hf]; simp [strContent, strDims, hf]
  | some b =>
    have := strWrite_blk s id (fun _ m => m) 0 b hf
    rw [strContent_of _ id _ this, strDims_of _ id _ this, strDims_of s id b hf]
    simp [Block.content]

/-- `shrink_to_fit()`: the string is unchanged; afterwards the capacity equals the length when the
buffer is the tail block (then the arena's offset drops to the end of the string) or the string is
empty (the buffer is given up); a buffer that is not the tail is left alone (in a debug build the
arena asserts; the protocol does not make that call). -/
theorem str_shrink_spec (s : St) (hG : Good s) (id : Nat) :
    let s' := step s (.sShrink id)
    strContent s' id = strContent s id ∧ (strDims s' id).2 = (strDims s id).2 ∧
    (∀ b, findBlk s.live id = some b → b.used = 0 ∨ b.beg + b.len = s.a.offset →
      (strDims s' id).1 = b.used ∧ (0 < b.used → s'.a.offset = b.beg + b.used)) := by
  intro s'
  have hs' : s' = St.strShrink s id := rfl
  cases hf : findBlk s.live id with
  | none =>
    have : s' = s := by rw [hs']; unfold St.strShrink; rw [hf]
    rw [this]
    exact ⟨rfl, rfl, fun b hb => by cases hb⟩
  | some b =>
    have hb := hG.blocks b (findBlk_mem hf)
    have hid : b.id = id := by simpa using List.find?_some hf
    unfold St.strShrink at hs'
    rw [hf] at hs'
    simp only [] at hs'
    by_cases h1 : b.len ≤ b.used
    · rw [if_pos h1] at hs'
      rw [hs']
      refine ⟨rfl, rfl, ?_⟩
      intro b' hb' _
      cases hb'
      rw [strDims_of s id b hf]
      have := hb.usedLe
      have := hb.inb
      exact ⟨by simp only []; omega, fun _ => by omega⟩
    · rw [if_neg h1] at hs'
      by_cases h2 : b.used = 0
      · rw [if_pos h2] at hs'
        have hblk : findBlk s'.live id = some { b with len := 0 } := by
          rw [hs']
          simp [findBlk, hid]
        rw [strContent_of s' id _ hblk, strDims_of s' id _ hblk, strContent_of s id b hf, strDims_of s id b hf]
        refine ⟨by simp [Block.content], rfl, ?_⟩
        intro b' hb' _
        cases hb'
        exact ⟨h2.symm, fun h => by omega⟩
      · rw [if_neg h2] at hs'
        unfold St.shrinkBlk at hs'
        rw [hf] at hs'
        simp only [] at hs'
        by_cases ht : b.beg + b.len = s.a.offset
        · have hg : b.used ≤ b.len ∧ b.beg + b.len = s.a.offset ∧ b.used ≤ b.used :=
            ⟨hb.usedLe, ht, Nat.le_refl _⟩
          rw [if_pos hg] at hs'
          have hblk : findBlk s'.live id = some { b with len := b.used } := by
            rw [hs']
            simp [findBlk, hid]
          rw [strContent_of s' id _ hblk, strDims_of s' id _ hblk, strContent_of s id b hf, strDims_of s id b hf]
          refine ⟨by simp [Block.content], rfl, ?_⟩
          intro b' hb' _
          cases hb'
          refine ⟨rfl, fun _ => ?_⟩
          rw [hs']
          have := (shrink_tail s.a b.beg b.len b.used hG.inv ht hb.usedLe).2.1
          exact this
        · have hg : ¬ (b.used ≤ b.len ∧ b.beg + b.len = s.a.offset ∧ b.used ≤ b.used) := fun h => ht h.2.1
          rw [if_neg hg] at hs'
          rw [hs']
          refine ⟨rfl, rfl, ?_⟩
          intro b' hb' hor
          cases hb'
          rcases hor with h | h
          · exact absurd h h2
          · exact absurd h ht


theorem run_good (ops : List Op) : ∀ s, Good s → Good (run s ops) := by
  induction ops with
  | nil => intro s h; exact h
  | cons op ops ih => intro s h; exact ih _ (step_good s op h)

/-! The reservation itself never moves or changes size. -/

theorem alloc_base_cap {a : Arena} {bytes align beg : Nat} {a' : Arena}
    (h : a.alloc bytes align = some (beg, a')) : a'.base = a.base ∧ a'.cap = a.cap := by
  unfold Arena.alloc at h
  simp only [] at h
  split at h
  · split at h
    · cases h
    · simp only [Option.some.injEq, Prod.mk.injEq] at h
      obtain ⟨_, rfl⟩ := h
      exact ⟨rfl, rfl⟩
  · simp only [Option.some.injEq, Prod.mk.injEq] at h
    obtain ⟨_, rfl⟩ := h
    exact ⟨rfl, rfl⟩

theorem allocZeroed_base_cap {a : Arena} {bytes align beg : Nat} {a' : Arena}
    (h : a.allocZeroed bytes align = some (beg, a')) : a'.base = a.base ∧ a'.cap = a.cap := by
  unfold Arena.allocZeroed at h
  split at h
  · cases h
  · rename_i b0 a0 h0
    simp only [Option.some.injEq, Prod.mk.injEq] at h
    obtain ⟨_, rfl⟩ := h
    exact alloc_base_cap (a' := a0) h0

theorem grow_base_cap {a : Arena} {beg o n align nb : Nat} {a' : Arena}
    (h : a.grow beg o n align = some (nb, a')) : a'.base = a.base ∧ a'.cap = a.cap := by
  unfold Arena.grow at h
  split at h
  · split at h
    · cases h
    · rename_i b0 a0 h0
      simp only [Option.some.injEq, Prod.mk.injEq] at h
      obtain ⟨_, rfl⟩ := h
      exact alloc_base_cap h0
  · split at h
    · cases h
    · rename_i b0 a0 h0
      simp only [Option.some.injEq, Prod.mk.injEq] at h
      obtain ⟨_, rfl⟩ := h
      exact alloc_base_cap (a' := a0) h0

theorem reset_base_cap (a : Arena) (to : Nat) : (a.reset to).base = a.base ∧ (a.reset to).cap = a.cap := by
  unfold Arena.reset; split <;> exact ⟨rfl, rfl⟩

theorem decommit_base_cap (a : Arena) : a.decommit.base = a.base ∧ a.decommit.cap = a.cap := by
  unfold Arena.decommit; simp only []; split <;> exact ⟨rfl, rfl⟩

theorem allocBlk_base_cap (s : St) (id bytes align : Nat) (zeroed : Bool) :
    (s.allocBlk id bytes align zeroed).a.base = s.a.base ∧ (s.allocBlk id bytes align zeroed).a.cap = s.a.cap := by
  simp only [St.allocBlk]
  split
  · exact ⟨rfl, rfl⟩
  · split
    · exact ⟨rfl, rfl⟩
    · rename_i beg a' h
      cases zeroed with
      | false => simp only [Bool.false_eq_true, if_false] at h; exact alloc_base_cap h
      | true => simp only [if_true] at h; exact allocZeroed_base_cap h

theorem growBlk_base_cap (s : St) (id newSize : Nat) :
    (s.growBlk id newSize).a.base = s.a.base ∧ (s.growBlk id newSize).a.cap = s.a.cap := by
  simp only [St.growBlk]
  split
  · exact ⟨rfl, rfl⟩
  · split
    · exact ⟨rfl, rfl⟩
    · split
      · exact ⟨rfl, rfl⟩
      · rename_i nb a' h; exact grow_base_cap h

theorem shrinkBlk_base_cap (s : St) (id newSize : Nat) :
    (s.shrinkBlk id newSize).a.base = s.a.base ∧ (s.shrinkBlk id newSize).a.cap = s.a.cap := by
  simp only [St.shrinkBlk]
  split
  · exact ⟨rfl, rfl⟩
  · split
    · unfold Arena.shrink; dsimp only; split <;> exact ⟨rfl, rfl⟩
    · exact ⟨rfl, rfl⟩

theorem strEnsure_base_cap (s : St) (id newCap : Nat) (s1 : St) (h : strEnsure s id newCap = some s1) :
    s1.a.base = s.a.base ∧ s1.a.cap = s.a.cap := by
  unfold strEnsure at h
  split at h
  · split at h
    · cases h; exact ⟨rfl, rfl⟩
    · split at h
      · cases h; exact allocBlk_base_cap s id newCap 1 false
      · cases h
  · split at h
    · cases h; exact ⟨rfl, rfl⟩
    · split at h
      · cases h; exact growBlk_base_cap s id newCap
      · cases h

theorem strWrite_base_cap (s : St) (id : Nat) (w : Nat → Mem → Mem) (used' : Nat) :
    (strWrite s id w used').a.base = s.a.base ∧ (strWrite s id w used').a.cap = s.a.cap := by
  unfold strWrite
  split <;> exact ⟨rfl, rfl⟩

theorem strReplaceWith_base_cap (rule : Nat → Nat → Nat → Nat → Nat) (s : St) (id lo hi : Nat) (src : List Nat) :
    (s.strReplaceWith rule id lo hi src).a.base = s.a.base ∧ (s.strReplaceWith rule id lo hi src).a.cap = s.a.cap := by
  unfold St.strReplaceWith
  simp only []
  split
  · exact ⟨rfl, rfl⟩
  · split
    · exact ⟨rfl, rfl⟩
    · rename_i s1 h
      have h1 := strWrite_base_cap s1 id
        (fun beg m => (m.copy (beg + min lo (strDims s id).2 + min (hi - min lo (strDims s id).2) ((strDims s id).2 - min lo (strDims s id).2))
          (beg + min lo (strDims s id).2 + src.length)
          ((strDims s id).2 - min lo (strDims s id).2 - min (hi - min lo (strDims s id).2) ((strDims s id).2 - min lo (strDims s id).2))).store
            (beg + min lo (strDims s id).2) src.length (srcAt src.toArray))
        ((strDims s id).2 - min (hi - min lo (strDims s id).2) ((strDims s id).2 - min lo (strDims s id).2) + src.length)
      have h2 := strEnsure_base_cap s id _ s1 h
      exact ⟨h1.1.trans h2.1, h1.2.trans h2.2⟩

theorem step_base_cap (s : St) (op : Op) :
    (step s op).a.base = s.a.base ∧ (step s op).a.cap = s.a.cap := by
  cases op with
  | alloc id bytes align zeroed => exact allocBlk_base_cap s id bytes align zeroed
  | grow id newSize => exact growBlk_base_cap s id newSize
  | shrink id newSize => exact shrinkBlk_base_cap s id newSize
  | store id f =>
    simp only [step]
    split <;> exact ⟨rfl, rfl⟩
  | reset to =>
    simp only [step]
    split
    · exact reset_base_cap _ _
    · exact ⟨rfl, rfl⟩
  | decommit => simp only [step]; exact decommit_base_cap _
  | borrow => exact ⟨rfl, rfl⟩
  | release =>
    simp only [step]
    split
    · exact ⟨rfl, rfl⟩
    · split
      · unfold Arena.release
        have h1 := decommit_base_cap (s.a.reset ‹Nat›)
        have h2 := reset_base_cap s.a ‹Nat›
        exact ⟨h1.1.trans h2.1, h1.2.trans h2.2⟩
      · exact ⟨rfl, rfl⟩
  | sReserve id additional exact =>
    simp only [step, St.strReserve]
    split
    · exact ⟨rfl, rfl⟩
    · rename_i s1 h; exact strEnsure_base_cap s id _ s1 h
  | sPush id src =>
    simp only [step, St.strPush]
    split
    · exact ⟨rfl, rfl⟩
    · rename_i s1 h
      have h1 := strWrite_base_cap s1 id
        (fun beg m => m.store (beg + (strDims s id).2) src.length (srcAt src.toArray)) ((strDims s id).2 + src.length)
      have h2 := strEnsure_base_cap s id _ s1 h
      exact ⟨h1.1.trans h2.1, h1.2.trans h2.2⟩
  | sShrink id =>
    simp only [step, St.strShrink]
    split
    · exact ⟨rfl, rfl⟩
    · split
      · exact ⟨rfl, rfl⟩
      · split
        · exact ⟨rfl, rfl⟩
        · exact shrinkBlk_base_cap s id _
  | sClear id => simp only [step]; exact strWrite_base_cap s id _ 0
  | sReplace id lo hi src => exact strReplaceWith_base_cap pinnedRule s id lo hi src
  | sOnce id old new =>
    simp only [step]
    split
    · exact ⟨rfl, rfl⟩
    · exact strReplaceWith_base_cap pinnedRule s id _ _ new

theorem run_base_cap (ops : List Op) : ∀ s, (run s ops).a.base = s.a.base ∧ (run s ops).a.cap = s.a.cap := by
  induction ops with
  | nil => intro s; exact ⟨rfl, rfl⟩
  | cons op ops ih =>
    intro s
    have h1 := ih (step s op)
    have h2 := step_base_cap s op
    exact ⟨h1.1.trans h2.1, h1.2.trans h2.2⟩

/-- Blocks that are `Disj` share no byte. -/
theorem disj_no_common_byte (b c : Block) (h : Disj b c) (i : Nat) :
    ¬ (b.beg ≤ i ∧ i < b.beg + b.len ∧ c.beg ≤ i ∧ i < c.beg + c.len) := by
  unfold Disj at h; omega

/-- **C11 for all histories.** After any sequence of allocate (any size / non-zero alignment),
zeroed allocation, grow, shrink, client writes, reset-to-mark, decommit, nested scratch
borrow/release AND the `ArenaString` operations (reserve, reserve_exact, push_str / push /
push_repeat, shrink_to_fit, clear, replace_range, replace_once_in_place — whose raw writes the model
does not confine to the buffer) on a fresh arena: the arena invariant holds; every live block (=
handed out and not given back by a reset/release below its end) lies inside the committed prefix of
the reservation, is aligned *absolutely* as requested, still holds exactly what its owner last wrote
(a grown block: its old contents in the old prefix; a string buffer: all `capacity` bytes as the
string operations left them), a string's length never exceeds its capacity (= the size of the block
the arena handed out for it); and live blocks are pairwise disjoint. -/
theorem c11_history (base capacity : Nat) (ops : List Op) :
    (run (St.init base capacity) ops).a.Inv ∧
    (run (St.init base capacity) ops).a.base = base ∧
    (run (St.init base capacity) ops).a.cap = alignUp (max capacity 1) chunk ∧
    (∀ b, b ∈ (run (St.init base capacity) ops).live →
        b.beg + b.len ≤ (run (St.init base capacity) ops).a.offset ∧
        (run (St.init base capacity) ops).a.offset ≤ (run (St.init base capacity) ops).a.commit ∧
        (run (St.init base capacity) ops).a.commit ≤ (run (St.init base capacity) ops).a.cap ∧
        0 < b.align ∧ b.align ∣ base + b.beg ∧
        (∀ k, k < b.len → (run (St.init base capacity) ops).a.mem (b.beg + k) = b.data k) ∧
        b.used ≤ b.len) ∧
    (run (St.init base capacity) ops).live.Pairwise Disj := by
  have hG := run_good ops _ (init_good base capacity)
  have hb := run_base_cap ops (St.init base capacity)
  refine ⟨hG.inv, hb.1, hb.2, ?_, hG.disj⟩
  intro b hbm
  have h := hG.blocks b hbm
  have e : (run (St.init base capacity) ops).a.base = base := hb.1
  exact ⟨h.inb, hG.inv.offLe, hG.inv.commitLe, h.apos, by rw [← e]; exact h.aligned, h.content, h.usedLe⟩

/-- Clean failure at the level of histories: a failing allocation / grow leaves the whole client
state (arena and every live block) exactly as it was. -/
theorem step_alloc_fail (s : St) (id bytes align : Nat) (zeroed : Bool)
    (h : (if zeroed then s.a.allocZeroed bytes align else s.a.alloc bytes align) = none) :
    step s (.alloc id bytes align zeroed) = s := by
  simp only [step, St.allocBlk]
  split
  · rfl
  · rw [h]

theorem step_grow_fail (s : St) (id newSize : Nat) (b : Block) (hf : findBlk s.live id = some b)
    (h : s.a.grow b.beg b.len newSize b.align = none) : step s (.grow id newSize) = s := by
  simp only [step, St.growBlk, hf]
  split
  · rfl
  · rw [h]

/-- What `grow` records for the client (ghost): the old data in the old prefix. -/
theorem step_grow_data (s : St) (id newSize nb : Nat) (b : Block) (a' : Arena)
    (hf : findBlk s.live id = some b) (hsz : b.len ≤ newSize)
    (h : s.a.grow b.beg b.len newSize b.align = some (nb, a')) :
    ∃ nbk rest, (step s (.grow id newSize)).live = nbk :: rest ∧ nbk.id = id ∧ nbk.beg = nb ∧
      nbk.len = newSize ∧ ∀ k, k < b.len → nbk.data k = b.data k := by
  simp only [step, St.growBlk, hf, h]
  split
  · omega
  · refine ⟨_, _, rfl, rfl, rfl, rfl, ?_⟩
    intro k hk
    simp only [hk, if_true]

/-! Non-vacuity: a history on a one-chunk arena whose base is page- but not 8 KiB-aligned, with a
block aligned to 8192, a grow that has to move (not the tail), a grow in place, a reset below a
block, an allocation that reuses the space, and an allocation that does not fit. -/

def demoOps : List Op :=
  [ .alloc 0 100 8 false, .alloc 1 16 8192 false, .store 0 (fun k => k % 251), .grow 0 300,
    .grow 0 400, .borrow, .alloc 2 1000 64 true, .release, .shrink 0 350, .alloc 3 70000 1 false,
    .reset 104, .alloc 4 8 8 false, .decommit ]

example :
    (run (St.init 4096 65536) demoOps).live.map (fun b => (b.id, b.beg, b.len, b.align)) =
      [(4, 104, 8, 8)] ∧
    (run (St.init 4096 65536) (demoOps.take 10)).live.map (fun b => (b.id, b.beg, b.len, b.align)) =
      [(0, 4112, 350, 8), (1, 4096, 16, 8192)] ∧
    (run (St.init 4096 65536) (demoOps.take 10)).a.offset = 4462 ∧
    (run (St.init 4096 65536) demoOps).a.commit = 65536 := by decide

/-! ### Seeded change C11-c2, refuted on the model

`vec_replace_impl` with the reserve request of the seeded change (`reserve(new_len - capacity)`) is
the same definition as the pinned one with `seededRule` in place of `pinnedRule`.  With the pinned
rule the invariant is preserved (`good_strReplaceWith pinnedRule pinnedRule_fits`, used by
`step_good`); with the seeded rule it is not: a string of capacity 16 and length 10 followed by a
32-byte block, one byte replaced by nine.  The result has 18 bytes in a 16-byte buffer (`len >
capacity`), bytes 16 and 17 of the result (the end of the shifted tail) are written into the
neighbouring block. -/

def seededDemo : St :=
  (run (St.init 0 65536)
    [.alloc 0 16 1 false, .sPush 0 [48, 49, 50, 51, 52, 53, 54, 55, 56, 57], .alloc 1 32 1 false,
     .store 1 (fun _ => 0xB2)]).strReplaceWith seededRule 0 0 1 [65, 66, 67, 68, 69, 70, 71, 72, 73]

/-- The claim that the seeded `vec_replace_impl` keeps the invariant … -/
def c11_seeded_replace_safe : Prop :=
  ∀ (s : St) (id lo hi : Nat) (src : List Nat), Good s → Good (s.strReplaceWith seededRule id lo hi src)

/-- … is false. -/
theorem c11_seeded_replace_safe_is_false : ¬ c11_seeded_replace_safe := by
  intro h
  have hG : Good seededDemo := h _ 0 0 1 _ (run_good _ _ (init_good 0 65536))
  have h1 : seededDemo.live.all (fun b => decide (b.used ≤ b.len)) = true :=
    List.all_eq_true.2 (fun b hb => decide_eq_true (hG.blocks b hb).usedLe)
  have h2 : seededDemo.live.all (fun b => decide (b.used ≤ b.len)) = false := by decide
  rw [h1] at h2
  cases h2

example :
    seededDemo.live.map (fun b => (b.id, b.beg, b.len, b.used)) = [(0, 0, 16, 18), (1, 16, 32, 0)] ∧
    -- the neighbour's first two bytes are now '8' '9' (the end of the shifted tail)
    seededDemo.a.mem 16 = 56 ∧ seededDemo.a.mem 17 = 57 ∧ seededDemo.a.mem 18 = 0xB2 := by decide

/-! Non-vacuity for the strings: the same situation under the pinned code (`step`): the string moves
to a fresh 32-byte buffer behind the neighbour, which keeps its bytes; then a replacement that
shrinks, one at the end, `replace_once_in_place`, `clear`, a reservation that does not fit (clean
abort) and `shrink_to_fit` of the tail. -/

def strDemoOps : List Op :=
  [ .alloc 0 16 1 false, .sPush 0 [48, 49, 50, 51, 52, 53, 54, 55, 56, 57], .alloc 1 32 1 false,
    .store 1 (fun _ => 0xB2), .sReplace 0 0 1 [65, 66, 67, 68, 69, 70, 71, 72, 73],
    .sReplace 0 1 9 [], .sReplace 0 10 (2 ^ 64 - 1) [33], .sOnce 0 [50, 51] [120, 121, 122],
    .sReserve 0 70000 true, .sShrink 0 ]

example :
    let s := run (St.init 0 65536) strDemoOps
    let s5 := run (St.init 0 65536) (strDemoOps.take 5)
    s5.live.map (fun b => (b.id, b.beg, b.len, b.used)) = [(0, 48, 32, 18), (1, 16, 32, 0)] ∧
    strContent s5 0 = [65, 66, 67, 68, 69, 70, 71, 72, 73, 49, 50, 51, 52, 53, 54, 55, 56, 57] ∧
    s5.a.mem 16 = 0xB2 ∧ s5.a.mem 47 = 0xB2 ∧
    strContent (run (St.init 0 65536) (strDemoOps.take 6)) 0 = [65, 49, 50, 51, 52, 53, 54, 55, 56, 57] ∧
    strContent (run (St.init 0 65536) (strDemoOps.take 7)) 0 = [65, 49, 50, 51, 52, 53, 54, 55, 56, 57, 33] ∧
    strContent (run (St.init 0 65536) (strDemoOps.take 8)) 0 = [65, 49, 120, 121, 122, 52, 53, 54, 55, 56, 57, 33] ∧
    aborts (run (St.init 0 65536) (strDemoOps.take 8)) (.sReserve 0 70000 true) = true ∧
    s.live.map (fun b => (b.id, b.beg, b.len, b.used)) = [(0, 48, 12, 12), (1, 16, 32, 0)] ∧
    s.a.offset = 60 := by decide

end NaijaVerif.Bump
