import NaijaVerif.Model.Analysis
import NaijaVerif.Model.AnalysisEval
import NaijaVerif.Lemmas.AnalysisReach
import NaijaVerif.Lemmas.AnalysisSim
import NaijaVerif.Lemmas.AnalysisPure
import NaijaVerif.Lemmas.AnalysisRelStep
import NaijaVerif.Lemmas.AnalysisNoTrap
import NaijaVerif.Lemmas.AnalysisCheck
import NaijaVerif.Lemmas.AnalysisBase
import NaijaVerif.Lemmas.AnalysisLiveTop
import NaijaVerif.Lemmas.AnalysisLiveMono
import NaijaVerif.Lemmas.AnalysisLiveModel
import NaijaVerif.Lemmas.AnalysisRefineLawful
import NaijaVerif.Lemmas.AnalysisRefineTop
import NaijaVerif.Lemmas.EvalToy
/-
C03 — analysis-driven pruning never changes what a program does.

Model of the analyses: `Model/Analysis.lean` (tied to `/repo` by the `plan` stream; fixes D-03a … D-03f).
Evaluator: the fragment `Model/AnalysisEval.lean` (control flow, scopes tagged with the resolver
scope they instantiate and variable lookup in the most recent instance of the declaring scope — the
D-04 fix —, hoisting, calls, plan skipping; what a primitive operation computes is abstract).

Proved here, for every program, every primitive semantics and every amount of fuel:
* T1 `t1_unreachable_never_executes`, `t1_completes_normally_only_if_fallthrough`;
* `c03_partial` — a plan of unreachable statements (any subset) gives *exactly* the same run;
* T2 `t2_no_effect` (state half), `t2_no_trap` (no-trap half, under the laws `Lawful` about the
  primitive operations), `t2_quiet` (both), `t2_pruned_initialiser`; the interprocedural version
  (calls of functions with a `PureNoTrap` summary) is `quietIn_safe2` in `Lemmas/AnalysisPureCall.lean`;
* T3 `t3_unused_function_never_looked_up` (hypotheses `BRClosed`, `OwnOk`, decidable, evaluated by
  the driver on every case of the tie);
* T4/T5 and the property itself — `c03_live`, `c03_live_checked`, `c03_full_checked`, **`c03_full_holds`**
  (`c03_full` is proved): the liveness simulation.  The two runs' environments agree, scope by
  scope, on the variables live at the current program point of the activation the scope belongs to
  (the live sets are the model's own: `lvStmts`, callee capture reads through the transitive
  summaries, loops at their fixpoint); suspended activations keep the set they had at their call;
  never-read variables and skipped declarations are the static special cases; a dropped initialiser
  may call user functions with a `PureNoTrap` summary (`quietIn_safe2`).  Statement: for primitive
  semantics that are `Lawful` and take scopes from the facts (`ScopesFrom`), for EVERY plan contained
  in the model's plan, the pruned run prints the same values and ends the same way as the plain run,
  unless the plain run ends in fuel exhaustion, in a use-before-declaration (`unbound`) or in a crash
  of the interpreter (`panic`, excluded for accepted programs by C06) — under `structOkB root facts`:
  decidable conditions on the program and its facts ONLY (no plan): distinct statement ids; the facts
  cover what the statements do (reads, writes, callees, scopes, ownership: `efitList`, `globalOkB`);
  the model's own tables and verdicts are consistent with the occurrences of the statements (row kind,
  recorded class, unused-assignment verdict ⇒ target not live after this occurrence, unused-variable
  verdict ⇒ this target, `declRemovable` ⇒ no later reference in the scope: `storeTabB`); loop fixpoints
  converged; pure summaries backed by pure bodies.  The plan-construction logic of opt.rs is proved
  sufficient once and for all (`modelOk_of_struct`, `rootOkB_model`), and the conditions are monotone
  in the plan (`lokListB_mono`).  The driver evaluates `structOkB` on every case of the tie (`cover`
  requests, `live=1`): it holds on 100 % of the generated and corpus programs.
* `c03_partial_ext` / `c03_partial_checked`: the older static special case (stores to never-read
  variables), kept because its hypotheses are lighter.
* `c03_full_raw_is_false`: without the laws about the primitive operations the statement is false.
* **`c03_concrete`** — the closed corollary for the EXECUTABLE instance: `c03_full_holds` at
  `evalPrims cfg (declScopeOf facts) (stmtScopeOf facts)` (`Model/AnalysisPrims.lean`: the primitive
  steps of the shared evaluator model `Model/Eval.lean`, for any number type and run configuration;
  `Lawful` by `evalPrims_lawful`, `ScopesFrom` by construction).  No hypothesis about the primitive
  semantics is left.  This very instance (at the driver's float numbers) is what the `arun` stream of
  the check runs against the real runtime, plain and pruned, on the real AST, facts and plan.
* **`c03_bridge`** (= `bridge_to_eval : BridgeToEval`) and **`c03_bridge_converse`** (`Lemmas/AnalysisRefine*.lean`)
  — the formal tie of that instance to the SHARED evaluator model `Model/Eval.lean` (the one the `run`
  stream ties to the real runtime), in both directions: a run of the fragment that is not cut short by
  its fuel is matched, for all sufficiently large fuel, by the run of `Eval` (declaring-scope lookup,
  current code, no input), and a run of `Eval` that is not cut short by its fuel is matched by the run
  of the fragment with enough fuel — same printed values, same ending, same kind of runtime error — for
  every annotated program (`okBlock`, with the oracle `orcOf` computed from the facts and evaluated by
  the driver on every case), with or without a plan.  The simulations cover the whole language (member
  calls, mutating methods and index assignment included); the two evaluators count fuel differently,
  hence "for some fuel".
* **`c03_eval`** — C03 for `Eval.run` itself, no hypothesis about the fragment left: if the plain run of
  `Eval` ends (within its fuel) normally or in a runtime error other than `Undefined variable`, then for
  every plan contained in the model's plan the pruned run of `Eval` (with enough fuel) prints the same
  values and ends the same way.  (By `Eval.run_mono` that is THE outcome of the pruned run for all larger
  fuel.)  `c03_termination_transfer`: a run of `Eval` that ends is a run of the fragment that ends.
Still evaluated per program rather than proved: the table-consistency conjuncts of `structOkB`
(`storeTabB`: true by construction of the model's tables for distinct, pre-order statement ids; a
proof needs the position arguments "`i ∈ unusedAsg` refers to THIS occurrence of statement `i`").
Also open: T6 (verdicts) beyond never-read variables.
-/
namespace NaijaVerif.C03
open NaijaVerif NaijaVerif.Analysis NaijaVerif.AEval

/-! ### Reachability facts about the model -/

mutual
  /-- Once a point is unreachable the rest of the sequence is. -/
  theorem afterStmt_false : ∀ s : Stmt, afterStmt false s = false
    | .ret _ _ _ | .brk _ _ | .cont _ _ => by simp [afterStmt]
    | .block (.mk b _) _ _ => by simp [afterStmt, afterStmts_false b]
    | .ifS _ (.mk t _) none _ _ => by simp [afterStmt, afterStmts_false t]
    | .ifS _ (.mk t _) (some (.mk e _)) _ _ => by simp [afterStmt, afterStmts_false t, afterStmts_false e]
    | .fnDef .. | .assign .. | .assignExisting .. | .assignIndex .. | .loop .. | .expr .. => by simp [afterStmt]
  theorem afterStmts_false : ∀ ss : List Stmt, afterStmts false ss = false
    | [] => by simp [afterStmts]
    | s :: ss => by simp [afterStmts, afterStmt_false s, afterStmts_false ss]
end

/-! ### T1 -/

/-- **T1.** Whatever the primitive operations do and however long the run lasts (including runs
that end in an error), no statement the analysis calls unreachable is ever executed. -/
theorem t1_unreachable_never_executes {V : Type} (P : Prims V) (root : Block) (fuel : Nat)
    (hd : SidsDistinct root) :
    ∀ i ∈ (run P none fuel root).2.trace, i ∉ unreachable root := by
  intro i hi hu
  have hm := (main_all P (plain_harmless (tbl root)) fuel).block root.stmts (St.init V) (cons_root root)
    (inv_init _ V)
  have hinv : Inv (tbl root) (run P none fuel root).2 := hm.2.1
  exact tbl_functional hd (hinv.2 i hi) (mem_unreachable.mp hu)

/-- The fall-through flag is sound: the top-level block completes normally only if the analysis
considers its end reachable. -/
theorem t1_completes_normally_only_if_fallthrough {V : Type} (P : Prims V) (root : Block) (fuel : Nat) :
    (run P none fuel root).1 = .ok .normal → afterStmts true root.stmts = true :=
  ((main_all P (plain_harmless (tbl root)) fuel).block root.stmts (St.init V) (cons_root root)
    (inv_init _ V)).2.2

/-! ### The plan theorem -/

/-- The full-strength statement for the model of the fixed analyses: for primitive semantics that
satisfy the laws of the runtime's operators (`Lawful`) and take scopes from the facts, and for facts
that are consistent with the annotated AST (`structOkB`, `Lemmas/AnalysisLiveModel.lean`: conditions
on the program and its facts only, no plan), every plan contained in the model's plan leaves what a
run prints and how it ends unchanged, unless the plain run is cut short by the fuel, uses a variable
before its declaration or crashes the interpreter.  Proved: `c03_full_holds`. -/
def c03_full : Prop :=
  ∀ (V : Type) (P : Prims V) (ty : V → LTy → Prop), Lawful P ty →
    ∀ (root : Block) (facts : Facts) (plan : Plan) (fuel : Nat),
    ScopesFrom P facts → structOkB root facts = true → plan.sub (planModel root facts) = true →
    (run P none fuel root).1 ≠ .error .fuel → (run P none fuel root).1 ≠ .error .unbound →
    (run P none fuel root).1 ≠ .error .panic →
    observable (run P (some plan) fuel root) = observable (run P none fuel root)

/-- The statement without any law about the primitive operations (as it stood in the first rounds):
arbitrary `Prims`, facts only `wf`. -/
def c03_full_raw : Prop :=
  ∀ (V : Type) (P : Prims V) (root : Block) (facts : Facts) (plan : Plan) (fuel : Nat),
    wf root facts = true → plan.sub (planModel root facts) = true →
    (run P none fuel root).1 ≠ .error .fuel → (run P (some plan) fuel root).1 ≠ .error .fuel →
    observable (run P (some plan) fuel root) = observable (run P none fuel root)

theorem harmless_of_unreachable {root : Block} (hd : SidsDistinct root) {plan : Plan}
    (hs : ∀ i ∈ plan.stmts, i ∈ unreachable root) (hf : plan.fns = []) :
    Harmless (tbl root) (Cfg.ofPlan (some plan)) := by
  constructor
  · intro i hi
    simp only [Cfg.ofPlan]
    cases hc : plan.stmts.contains i with
    | false => rfl
    | true =>
      have : i ∈ plan.stmts := by simpa using hc
      exact absurd (mem_unreachable.mp (hs i this)) (tbl_functional hd hi)
  · intro f
    simp [Cfg.ofPlan, hf]

/-- **C03, partial.** A plan made of statements the model calls unreachable — any subset of them —
does not change the run at all: same values printed, same ending, same final state, same statements
executed, for every primitive semantics and every amount of fuel (so also for runs that end in an
error or run out of fuel). -/
theorem c03_partial {V : Type} (P : Prims V) (root : Block) (plan : Plan) (fuel : Nat)
    (hd : SidsDistinct root) (hs : ∀ i ∈ plan.stmts, i ∈ unreachable root) (hf : plan.fns = []) :
    run P (some plan) fuel root = run P none fuel root :=
  ((main_all P (harmless_of_unreachable hd hs hf) fuel).block root.stmts (St.init V) (cons_root root)
    (inv_init _ V)).1

/-- The unreachable statements are part of the model's plan … -/
theorem plan_contains_unreachable (root : Block) (facts : Facts) :
    ∀ i ∈ unreachable root, i ∈ (planModel root facts).stmts := by
  intro i hi
  simp only [planModel, analyse]
  have key : ∀ (a b : List Nat), i ∈ a → i ∈ uni a b := by
    intro a b
    induction a with
    | nil => intro h; cases h
    | cons x xs ih =>
      intro h
      simp only [uni, List.foldr_cons, ins]
      rcases List.mem_cons.mp h with rfl | h'
      · split
        · next hc => simpa using hc
        · simp
      · have := ih h'
        simp only [uni] at this
        split
        · exact this
        · exact List.mem_cons_of_mem _ this
  exact key _ _ hi

/-- … and the observable behaviour (what the property compares) is unchanged by any plan drawn from
that part of the model's plan. -/
theorem c03_partial_observable {V : Type} (P : Prims V) (root : Block) (plan : Plan) (fuel : Nat)
    (hd : SidsDistinct root) (hs : ∀ i ∈ plan.stmts, i ∈ unreachable root) (hf : plan.fns = []) :
    observable (run P (some plan) fuel root) = observable (run P none fuel root) := by
  rw [c03_partial P root plan fuel hd hs hf]

/-- With the plan, unreachable statements stay unexecuted as well (T1 for the pruned run). -/
theorem t1_with_plan {V : Type} (P : Prims V) (root : Block) (plan : Plan) (fuel : Nat)
    (hd : SidsDistinct root) (hs : ∀ i ∈ plan.stmts, i ∈ unreachable root) (hf : plan.fns = []) :
    ∀ i ∈ (run P (some plan) fuel root).2.trace, i ∉ unreachable root := by
  rw [c03_partial P root plan fuel hd hs hf]
  exact t1_unreachable_never_executes P root fuel hd


/-! ### T2 (effect class), state half -/

/-- **T2, state half.** An expression the (fixed) classification does not call `Impure` and that
calls no user function changes nothing: not the variables, not the function scopes, not the output,
whatever value or error it produces — for every primitive semantics whose builtin dispatch agrees
with the effect tables (`TablesAgree`).  User calls are accounted for per statement through the
summaries (`effClass`); the no-trap half needs the runtime's operator tables and is covered by the
tie (`cls=`) and the differential with trapping initialisers. -/
theorem t2_no_effect {V : Type} (P : Prims V) (ha : TablesAgree P) (cfg : Cfg) (capt : Nat → Bool) (e : Expr) (n : Nat) (st : St V)
    (hc : classify capt e ≠ .impure) (hn : noUserCall e = true) :
    (evalExpr P cfg n e st).2 = st :=
  (pure_all P cfg n).expr e st (effectFree_of_class ha capt e hc hn)

/-- Corollary for a pruned initialiser: skipping `make x get e` (or `x get e`) with such an `e`
can only be noticed through the variable `x`: executing it leaves the output, the function scopes
and the statement trace untouched. -/
theorem t2_pruned_initialiser {V : Type} (P : Prims V) (ha : TablesAgree P) (cfg : Cfg) (n : Nat) (st : St V)
    (capt : Nat → Bool) (v : Bytes) (vs : Span) (e : Expr) (b sid : Option Nat) (sp : Span)
    (hc : classify capt e ≠ .impure) (hn : noUserCall e = true) :
    let st' := (execStmt P cfg n (.assign v vs e b sid sp) st).2
    st'.out = st.out ∧ st'.fns = st.fns ∧ st'.trace = st.trace ∧ st'.looked = st.looked := by
  cases n with
  | zero => simp [execStmt]
  | succ n =>
    have h1 := t2_no_effect P ha cfg capt e n st hc hn
    simp only [execStmt]
    generalize evalExpr P cfg n e st = r at h1 ⊢
    obtain ⟨r1, st1⟩ := r
    simp only at h1
    subst h1
    cases r1 with
    | error er => simp
    | ok val => cases b <;> simp

/-! ### T3, T4 and the extended plan theorem (relational simulation) -/

theorem setup_ok (root : Block) (facts : Facts) (plan : Option Plan) (D1 D2 : Nat → Bool)
    (hd : SidsDistinct root) (hcl : BRClosed root facts) (hd12 : ∀ l, D1 l = true → D2 l = true)
    (hfns : ∀ p, plan = some p → ∀ g ∈ p.fns, g ∈ (mkCtx root facts).unusedFns.map (·.2)) :
    SetupOk (setupOf root facts plan D1 D2) where
  closed := hcl
  drop := by
    intro g hg
    cases plan with
    | none => rfl
    | some p =>
      simp only [setupOf, Cfg.ofPlan]
      cases hc : p.fns.contains g with
      | false => rfl
      | true =>
        have hm : g ∈ p.fns := by simpa using hc
        have := unused_not_reachable _ (hfns p rfl g hm)
        simp only [setupOf] at hg
        rw [this] at hg
        cases hg
  d12 := hd12
  func := fun _ h => tbl_functional hd h

theorem inv2_init {V : Type} (P : Prims V) (S : Setup) : Inv2 P S (St.init V) := by
  refine ⟨inv_init _ V, ?_, ?_⟩
  · intro sc hsc fd hfd
    simp [St.init] at hsc
    subst hsc
    cases hfd
  · intro g hg
    simp [St.init] at hg

theorem rel_init {V : Type} (S : Setup) : Rel S (St.init V) (St.init V) :=
  ⟨rfl, rfl, by simp [St.init, EnvRel, ScopeRel, keep, SlotsRel]⟩

/-- Ownership and callee consistency of the facts w.r.t. the annotated AST: every statement's
`function` fact is the function whose body contains it, and every user call in its own expressions
is among its `direct_callees` (checked by `wf`: `Analysis.ownOk`).  This is `SOkList` for the
trivial setting (nothing skipped, nothing dead). -/
def OwnOk {V : Type} (P : Prims V) (root : Block) (facts : Facts) : Prop :=
  SOkList P (setupOf root facts none (fun _ => false) (fun _ => false)) 0 root.stmts

/-- **T3.** In the plain run, every function a call looks up is body-reachable; in particular a
function the analysis reports as unused is never looked up (so not registering it cannot be
noticed) — for every primitive semantics and every amount of fuel, runs that end in errors included. -/
theorem t3_unused_function_never_looked_up {V : Type} (P : Prims V) (root : Block) (facts : Facts) (fuel : Nat)
    (hd : SidsDistinct root) (hcl : BRClosed root facts) (hown : OwnOk P root facts) :
    ∀ g ∈ (run P none fuel root).2.looked, g ∉ (mkCtx root facts).unusedFns.map (·.2) := by
  intro g hg hu
  have hs := setup_ok root facts none (fun _ => false) (fun _ => false) hd hcl (fun _ h => h)
    (fun p hp => by cases hp)
  have hm := (sim_all P hs fuel).block root.stmts (St.init V) (St.init V) 0 (cons_root root) hown
    (root_bodyReachable _) (rel_init _) (inv2_init P _)
  have hl : (mkCtx root facts).bodyReachable.contains g = true := hm.2.2.2 g hg
  rw [unused_not_reachable _ hu] at hl
  cases hl

/-- **C03, partial (extended).**  Let `plan` contain
* statements the model calls unreachable,
* functions the model calls unused,
* stores (`make x get e` / `x get e`) to variables that no statement ever reads (`D2`), with an
  initialiser that neither changes the state nor fails (`Quiet`, see `quiet_of_class`); a removed
  declaration additionally needs every store to its variable to be removed (`D1`),
all of it packaged in the side condition `SOkList` (which also carries the ownership / callee
consistency of the facts).  Then the pruned run prints the same values and ends the same way as the
plain run, unless the plain run is cut short by the fuel or uses a variable before its declaration. -/
theorem c03_partial_ext {V : Type} (P : Prims V) (root : Block) (facts : Facts) (plan : Plan) (fuel : Nat)
    (D1 D2 : Nat → Bool)
    (hd : SidsDistinct root) (hcl : BRClosed root facts) (hd12 : ∀ l, D1 l = true → D2 l = true)
    (hfns : ∀ g ∈ plan.fns, g ∈ (mkCtx root facts).unusedFns.map (·.2))
    (hok : SOkList P (setupOf root facts (some plan) D1 D2) 0 root.stmts)
    (hfuel : (run P none fuel root).1 ≠ .error .fuel) (hunb : (run P none fuel root).1 ≠ .error .unbound)
    (hpan : (run P none fuel root).1 ≠ .error .panic) :
    observable (run P (some plan) fuel root) = observable (run P none fuel root) := by
  have hs := setup_ok root facts (some plan) D1 D2 hd hcl hd12 (fun p hp => by cases hp; exact hfns)
  have hm := (sim_all P hs fuel).block root.stmts (St.init V) (St.init V) 0 (cons_root root) hok
    (root_bodyReachable _) (rel_init _) (inv2_init P _)
  rcases hm.1 with hbad | ⟨heq, hrel⟩
  · rcases hbad with hb | hb | hb
    · exact absurd hb hfuel
    · exact absurd hb hunb
    · exact absurd hb hpan
  · simp only [observable, run]
    have h1 : (execBlock P (Cfg.ofPlan (some plan)) fuel root.stmts (St.init V)).1 =
        (execBlock P plain fuel root.stmts (St.init V)).1 := heq
    have h2 := hrel.1
    simp only [setupOf] at h2
    simp only [plain] at h1 h2
    rw [h1, h2]

/-! ### T2 (effect class), no-trap half -/

/-- **T2, no-trap half.** Under the laws `Lawful` (what the runtime's operator and builtin match
arms do on the operand types the fixed classification insists on), an expression classed
`PureNoTrap` that calls no user function and respects the builtin arities evaluates to a value —
of the type its literals determine — unless the fuel runs out or a variable it reads has no slot
(after D-03e only the running function's own variables are read by such an expression; that those
are bound is the resolver's scoping guarantee, properties C04/C09). -/
theorem t2_no_trap {V : Type} (P : Prims V) (ty : V → LTy → Prop) (L : Lawful P ty) (capt : Nat → Bool) (cfg : Cfg)
    (e : Expr) (n : Nat) (st : St V) (hs : Safe capt e) :
    (∃ v, (evalExpr P cfg n e st).1 = .ok v ∧ ∀ t, literalTy e = some t → ty v t) ∨
      (evalExpr P cfg n e st).1 = .error .fuel ∨ (evalExpr P cfg n e st).1 = .error .unbound :=
  (noTrap_all L capt cfg n).expr e st hs

/-- Both halves together: such an expression is `Quiet`, which is what `c03_partial_ext` asks of a
removed initialiser. -/
theorem t2_quiet {V : Type} (P : Prims V) (ty : V → LTy → Prop) (L : Lawful P ty) (capt : Nat → Bool) (e : Expr)
    (hs : Safe capt e) : Quiet P e :=
  quiet_of_class L capt e hs

/-- **C03, partial (extended), decidable form.**  The side condition of `c03_partial_ext` checked by
the executable `sokListB` with the syntactic safe-initialiser test `safeB` (fixed classification =
`PureNoTrap`, no user call, arities respected), for primitive semantics satisfying `Lawful`. -/
theorem c03_partial_checked {V : Type} (P : Prims V) (ty : V → LTy → Prop) (L : Lawful P ty)
    (root : Block) (facts : Facts) (plan : Plan) (fuel : Nat) (D1 D2 : Nat → Bool)
    (hd : SidsDistinct root) (hcl : (mkCtx root facts).brClosed = true)
    (hd12 : ∀ l, D1 l = true → D2 l = true)
    (hfns : ∀ g ∈ plan.fns, g ∈ (mkCtx root facts).unusedFns.map (·.2))
    (hok : sokListB (setupOf root facts (some plan) D1 D2) (safeB facts) 0 root.stmts = true)
    (hfuel : (run P none fuel root).1 ≠ .error .fuel) (hunb : (run P none fuel root).1 ≠ .error .unbound)
    (hpan : (run P none fuel root).1 ≠ .error .panic) :
    observable (run P (some plan) fuel root) = observable (run P none fuel root) :=
  c03_partial_ext P root facts plan fuel D1 D2 hd (brClosed_of_check root facts hcl) hd12 hfns
    (sokList_of_B (fun f e h => quiet_of_safeB L facts f e h) 0 root.stmts hok) hfuel hunb hpan

/-! ### T5: flow-sensitive dead stores (the liveness simulation) -/

/-- **C03 for a plan that passes the liveness conditions.**  Let the plan contain unreachable
statements, unused functions, and stores (declarations and re-assignments) with quiet initialisers
whose target is not live afterwards — in the very live sets the liveness model computes, callee
capture reads included, loops at their fixpoint — or is never read at all; a removed declaration
additionally has no later reference to its variable in its scope.  These are the statement-by-statement
conditions `rootOkB` (executable; `lokListB` in `Lemmas/AnalysisLiveOk.lean`); `globalOkB` are the
plan-independent consistency conditions on the facts.  Then the pruned run prints the same values
and ends the same way as the plain run, unless the plain run is cut short by the fuel or uses a
variable before its declaration.  Both runs look variables up as the runtime does since the D-04
fix: in the most recent instance of the declaring scope (`ScopesFrom`). -/
theorem c03_live {V : Type} (P : Prims V) (root : Block) (facts : Facts) (plan : Plan) (q : Nat → Expr → Bool) (fuel : Nat)
    (hP : ScopesFrom P facts) (hq : ∀ f e, q f e = true → Quiet P e)
    (hd : SidsDistinct root) (hg : globalOkB root facts = true)
    (hfns : ∀ g ∈ plan.fns, g ∈ (mkCtx root facts).unusedFns.map (·.2))
    (hok : rootOkB (lsetupOf root facts (some plan) q) root = true)
    (hfuel : (run P none fuel root).1 ≠ .error .fuel) (hunb : (run P none fuel root).1 ≠ .error .unbound)
    (hpan : (run P none fuel root).1 ≠ .error .panic) :
    observable (run P (some plan) fuel root) = observable (run P none fuel root) :=
  live_run P root facts plan q fuel hP (quietIn_of_quiet hq) (lsetupOk_of root facts plan q hd hg hfns) hok
    (fun hb => hb.elim hfuel (fun hb => hb.elim hunb hpan))

/-- The same with the syntactic test `safe2B` for droppable initialisers (fixed classification
`PureNoTrap`, builtin arities respected, every user function called has a `PureNoTrap` summary — the
interprocedural half of T2, `quietIn_safe2`: a call of such a function restores variables, function
scopes and output and does not fail) for primitive semantics satisfying `Lawful`: every hypothesis
about the program is decidable and evaluated by the driver on every case of the tie. -/
theorem c03_live_checked {V : Type} (P : Prims V) (ty : V → LTy → Prop) (Lw : Lawful P ty)
    (root : Block) (facts : Facts) (plan : Plan) (fuel : Nat)
    (hP : ScopesFrom P facts) (hd : SidsDistinct root) (hg : globalOkB root facts = true)
    (hfns : ∀ g ∈ plan.fns, g ∈ (mkCtx root facts).unusedFns.map (·.2))
    (hok : rootOkB (lsetupOf root facts (some plan) (safe2B (mkCtx root facts))) root = true)
    (hfuel : (run P none fuel root).1 ≠ .error .fuel) (hunb : (run P none fuel root).1 ≠ .error .unbound)
    (hpan : (run P none fuel root).1 ≠ .error .panic) :
    observable (run P (some plan) fuel root) = observable (run P none fuel root) :=
  live_run P root facts plan _ fuel hP (quietIn_safe2 hP.1 hP.2 Lw (fun _ _ => rfl))
    (lsetupOk_of root facts plan _ hd hg hfns) hok (fun hb => hb.elim hfuel (fun hb => hb.elim hunb hpan))

theorem mem_of_subset {a b : List Nat} (h : subset a b = true) : ∀ i ∈ a, i ∈ b := by
  simpa [subset] using h

/-- **C03 for every plan contained in the model's plan**, under decidable conditions on the program
and its facts only (`modelOkB`: distinct statement ids, the global consistency conditions, and the
liveness conditions evaluated for the model's own plan — they are monotone in the plan, so they
cover every plan contained in it).  `modelOkB` follows from the plan-free `structOkB`
(`modelOk_of_struct`), which is what the driver evaluates on every case of the tie. -/
theorem c03_full_checked {V : Type} (P : Prims V) (ty : V → LTy → Prop) (Lw : Lawful P ty)
    (root : Block) (facts : Facts) (plan : Plan) (fuel : Nat)
    (hP : ScopesFrom P facts) (hm : modelOkB root facts = true) (hsub : plan.sub (planModel root facts) = true)
    (hfuel : (run P none fuel root).1 ≠ .error .fuel) (hunb : (run P none fuel root).1 ≠ .error .unbound)
    (hpan : (run P none fuel root).1 ≠ .error .panic) :
    observable (run P (some plan) fuel root) = observable (run P none fuel root) := by
  simp only [modelOkB, Bool.and_eq_true, decide_eq_true_eq] at hm
  simp only [Plan.sub, Bool.and_eq_true] at hsub
  refine c03_live_checked P ty Lw root facts plan fuel hP hm.1.1 hm.1.2 ?_
    (rootOkB_sub root facts plan _ _ (mem_of_subset hsub.1) hm.2) hfuel hunb hpan
  intro g hg
  have := mem_of_subset hsub.2 g hg
  simpa [planModel, analyse] using this

/-- **C03.**  `c03_full` holds: the liveness conditions for the model's own plan follow from the
structural conditions (`modelOk_of_struct`: whatever `build_optimization_plan` puts into the plan
satisfies the rule of its occurrence), so `c03_full_checked` applies. -/
theorem c03_full_holds : c03_full := by
  intro V P ty Lw root facts plan fuel hP hs hsub hfuel hunb hpan
  exact c03_full_checked P ty Lw root facts plan fuel hP (modelOk_of_struct root facts hs) hsub hfuel hunb hpan

/-- **C03 for the executable instance** (`Model/AnalysisPrims.lean`): the evaluator fragment with the
primitive steps of the evaluator model `Model/Eval.lean` — for every number type, run configuration
(host policy, process runner, std string operations), program, facts, plan contained in the model's
plan and amount of fuel.  The laws `Lawful` are proved for this instance (`evalPrims_lawful`) and its
scopes are the facts' by construction, so the only hypotheses left are about the program and its
facts (`structOkB`, decidable, evaluated by the driver on every case of the tie) and the three
excluded endings of the plain run.  The `arun` stream of the check compares exactly this instance
(at the driver's float numbers) with the real runtime, with and without the real plan. -/
theorem c03_concrete {N : Type} [NumOps N] (cfg : Eval.RunCfg) (root : Block) (facts : Facts) (plan : Plan) (fuel : Nat)
    (hs : structOkB root facts = true) (hsub : plan.sub (planModel root facts) = true)
    (hfuel : (run (evalPrims (N := N) cfg (declScopeOf facts) (stmtScopeOf facts)) none fuel root).1 ≠ .error .fuel)
    (hunb : (run (evalPrims (N := N) cfg (declScopeOf facts) (stmtScopeOf facts)) none fuel root).1 ≠ .error .unbound)
    (hpan : (run (evalPrims (N := N) cfg (declScopeOf facts) (stmtScopeOf facts)) none fuel root).1 ≠ .error .panic) :
    observable (run (evalPrims (N := N) cfg (declScopeOf facts) (stmtScopeOf facts)) (some plan) fuel root) =
      observable (run (evalPrims (N := N) cfg (declScopeOf facts) (stmtScopeOf facts)) none fuel root) :=
  c03_full_holds (Eval.Value N) _ tyE (evalPrims_lawful cfg _ _) root facts plan fuel ⟨rfl, rfl⟩ hs hsub hfuel hunb hpan

/-! ### The shared evaluator model -/

/-- The fragment instantiated with `Eval`'s primitive steps is refined by `Eval` (`BridgeToEval`,
stated in `Lemmas/AnalysisBridge.lean`, proved in `Lemmas/AnalysisRefine*.lean`). -/
theorem c03_bridge : BridgeToEval := bridge_to_eval

theorem fragObs_congr {V : Type} {r1 r2 : R V (Flow V)} (h : observable r1 = observable r2) :
    fragObs r1 = fragObs r2 := by
  obtain ⟨e1, t1⟩ := r1
  obtain ⟨e2, t2⟩ := r2
  simp only [observable, Prod.mk.injEq] at h
  obtain ⟨ho, he⟩ := h
  cases e1 <;> cases e2 <;> simp only [Option.some.injEq, reduceCtorEq] at he <;> simp only [fragObs, ho]
  subst he
  rfl

/-- The converse: every run of `Eval` that does not exhaust its fuel is a run of the fragment. -/
theorem c03_bridge_converse {N : Type} [NumOps N] (cfg : Eval.RunCfg) (ds ss : Nat → Option Nat) (o : Orc)
    (hl : cfg.lookup = .dynamic) (hp : cfg.panics = false) (hin : cfg.input = []) (ho : OrcOk N ds ss o)
    (prog : Block) (plan : Option Plan) (f : Nat) (hok : okBlock o prog = true)
    (hne : evalObs (Eval.run (N := N) { cfg with plan := plan.map toEvalPlan } f prog) ≠ none) :
    ∃ n, fragObs (run (evalPrims (N := N) cfg ds ss) plan n prog) =
      evalObs (Eval.run (N := N) { cfg with plan := plan.map toEvalPlan } f prog) :=
  bridge_from_eval cfg ds ss o hl hp hin ho prog plan f hok hne

/-- A run of `Eval` that ends without exhausting its fuel is matched by a run of the fragment that
does not exhaust its fuel. -/
def TerminationTransfer : Prop :=
  ∀ (N : Type) [NumOps N] (cfg : Eval.RunCfg) (ds ss : Nat → Option Nat) (o : Orc),
    cfg.lookup = .dynamic → cfg.panics = false → cfg.input = [] → OrcOk N ds ss o →
    ∀ (prog : Block) (plan : Option Plan) (f : Nat), okBlock o prog = true →
      evalObs (Eval.run (N := N) { cfg with plan := plan.map toEvalPlan } f prog) ≠ none →
      ∃ n, fragObs (run (evalPrims (N := N) cfg ds ss) plan n prog) ≠ none

theorem c03_termination_transfer : TerminationTransfer := by
  intro N _ cfg ds ss o hl hp hin ho prog plan f hok hne
  obtain ⟨n, hn⟩ := bridge_from_eval cfg ds ss o hl hp hin ho prog plan f hok hne
  exact ⟨n, by rw [hn]; exact hne⟩

/-- **C03 for the shared evaluator model.**  Let `Eval` run the current code (`panics = false`) with
the declaring-scope lookup and no input, on an annotated program whose facts are consistent with it
(`okBlock (orcOf …)`, `structOkB`: decidable, evaluated by the driver on every case of the tie).
If the plain run with fuel `f` ends with the observation `o` — the printed values, and a normal ending
or a runtime error other than `Undefined variable` — then for every plan contained in the model's plan
the pruned run, with enough fuel, ends with the same observation: same printed values, same ending,
same kind of runtime error.  (Runs that exhaust the fuel, crash the interpreter or use a variable
before its declaration are excluded, as in `c03_full`.) -/
theorem c03_eval {N : Type} [NumOps N] (cfg : Eval.RunCfg) (numOk : Bytes → Bool) (root : Block) (facts : Facts)
    (plan : Plan) (f : Nat)
    (hl : cfg.lookup = .dynamic) (hp : cfg.panics = false) (hin : cfg.input = [])
    (hnum : ∀ lex, numOk lex = true → ∃ x : N, NumOps.ofLit lex = some x)
    (hok : okBlock (orcOf numOk facts) root = true)
    (hs : structOkB root facts = true) (hsub : plan.sub (planModel root facts) = true)
    (o : List (Eval.Value N) × Nat)
    (hrun : evalObs (Eval.run (N := N) { cfg with plan := none } f root) = some o)
    (hund : o.2 ≠ 10 + rtCode .undefinedVariable) (hpan : o.2 ≠ 2) :
    ∃ f', evalObs (Eval.run (N := N) { cfg with plan := some (toEvalPlan plan) } f' root) = some o := by
  have ho := orcOf_ok (N := N) numOk facts true hnum
  obtain ⟨n, hn⟩ := bridge_from_eval cfg _ _ _ hl hp hin ho root none f hok
    (by rw [show (none : Option Plan).map toEvalPlan = none from rfl, hrun]; exact fun h => by cases h)
  rw [show (none : Option Plan).map toEvalPlan = none from rfl, hrun] at hn
  -- the three excluded endings of the fragment's plain run
  have hends : (run (evalPrims (N := N) cfg (declScopeOf facts) (stmtScopeOf facts)) none n root).1 ≠ .error .fuel ∧
      (run (evalPrims (N := N) cfg (declScopeOf facts) (stmtScopeOf facts)) none n root).1 ≠ .error .unbound ∧
      (run (evalPrims (N := N) cfg (declScopeOf facts) (stmtScopeOf facts)) none n root).1 ≠ .error .panic := by
    generalize run (evalPrims (N := N) cfg (declScopeOf facts) (stmtScopeOf facts)) none n root = r at hn
    obtain ⟨e, t⟩ := r
    refine ⟨?_, ?_, ?_⟩ <;> intro h <;> simp only at h <;> subst h <;> simp only [fragObs, Option.some.injEq] at hn
    · cases hn
    · exact hund (by rw [← hn])
    · exact hpan (by rw [← hn])
  have hc := c03_concrete (N := N) cfg root facts plan n hs hsub hends.1 hends.2.1 hends.2.2
  obtain ⟨f', hf'⟩ := bridge_to_eval N cfg _ _ _ hl hp hin ho root (some plan) n hok
    (by rw [fragObs_congr hc, hn]; exact fun h => by cases h)
  exact ⟨f', by rw [show (some (toEvalPlan plan)) = (some plan).map toEvalPlan from rfl, hf', fragObs_congr hc, hn]⟩

/-! ### Non-vacuity -/

/-- `return` followed by a statement: the second statement is unreachable, ids are distinct, and
the plan `{1}` satisfies the hypotheses of `c03_partial`. -/
def demo : Block :=
  .mk [.ret none (some 0) ⟨0, 6⟩, .expr (.null ⟨7, 11⟩) (some 1) ⟨7, 11⟩] ⟨0, 11⟩

example : unreachable demo = [1] := by decide
example : SidsDistinct demo := by unfold SidsDistinct; decide
example : ∀ i ∈ (⟨[1], []⟩ : Plan).stmts, i ∈ unreachable demo := by decide
def demoFacts : Facts where
  functions := [default]
  stmtEffects := [default, default]
  functionDirects := [⟨[], [], []⟩]

example : (planModel demo demoFacts).stmts = [1] := by decide


/-- `make x get 1  shout(0)`: the model's plan removes the declaration of the never-read `x`; the
hypotheses of `c03_partial_checked` hold for exactly that plan (with `D1 = D2 = {x}`). -/
def demo2 : Block :=
  .mk [.assign [120] ⟨5, 6⟩ (.num [49] ⟨11, 12⟩) (some 0) (some 0) ⟨0, 12⟩,
       .expr (.call (.var [115, 104, 111, 117, 116] none ⟨13, 18⟩) [.num [48] ⟨19, 20⟩] none ⟨13, 21⟩) (some 1) ⟨13, 21⟩] ⟨0, 21⟩

def demo2Facts : Facts where
  functions := [default]
  scopes := [⟨none, 0⟩]
  scopeLocals := [[0]]
  locals := [⟨[120], 0, 0, some 0, .variable⟩]
  stmtEffects := [⟨0, 0, [], [0], [], .pureNoTrap⟩, ⟨0, 0, [], [], [], .impure⟩]
  functionDirects := [⟨[], [], []⟩]

example : planModel demo2 demo2Facts = ⟨[0], []⟩ := by decide
example : SidsDistinct demo2 := by unfold SidsDistinct; decide
example : (mkCtx demo2 demo2Facts).brClosed = true := by decide
example : sokListB (setupOf demo2 demo2Facts (some ⟨[0], []⟩) (fun l => l == 0) (fun l => l == 0))
    (safeB demo2Facts) 0 demo2.stmts = true := by decide
/-- and the ownership / callee-consistency hypothesis of T3 -/
example : sokListB (setupOf demo2 demo2Facts none (fun _ => false) (fun _ => false))
    (fun _ _ => false) 0 demo2.stmts = true := by decide

/-- `make x get 1  x get 2  x get 3  shout(x)`: `x` IS read, but the value stored by `x get 2` is not
(liveness proper): the model's plan removes exactly that statement, and all decidable conditions of
`c03_full_checked` hold for the program. -/
def demo3 : Block :=
  .mk [.assign [120] ⟨5, 6⟩ (.num [49] ⟨11, 12⟩) (some 0) (some 0) ⟨0, 12⟩,
       .assignExisting [120] ⟨13, 14⟩ (.num [50] ⟨19, 20⟩) (some 0) (some 1) ⟨13, 20⟩,
       .assignExisting [120] ⟨21, 22⟩ (.num [51] ⟨27, 28⟩) (some 0) (some 2) ⟨21, 28⟩,
       .expr (.call (.var [115, 104, 111, 117, 116] none ⟨29, 34⟩) [.var [120] (some 0) ⟨35, 36⟩] none ⟨29, 37⟩) (some 3) ⟨29, 37⟩] ⟨0, 37⟩

def demo3Facts : Facts where
  functions := [default]
  scopes := [⟨none, 0⟩]
  scopeLocals := [[0]]
  locals := [⟨[120], 0, 0, some 0, .variable⟩]
  stmtEffects := [⟨0, 0, [], [0], [], .pureNoTrap⟩, ⟨0, 0, [], [0], [], .pureNoTrap⟩, ⟨0, 0, [], [0], [], .pureNoTrap⟩,
                  ⟨0, 0, [0], [], [], .impure⟩]
  functionDirects := [⟨[], [], []⟩]

example : planModel demo3 demo3Facts = ⟨[1], []⟩ := by decide
example : structOkB demo3 demo3Facts = true := by decide

/-- Non-vacuity of `c03_concrete` (toy `Int` numbers, `Lemmas/EvalToy.lean`): on `demo3` the plan
`{1}` is contained in the model's plan, the plain run ends normally and prints `3`; the pruned run
really skips statement 1 (the traces differ) — and prints the same. -/
def demo3Prims : Prims (Eval.Value Int) := evalPrims Eval.Toy.cfg (declScopeOf demo3Facts) (stmtScopeOf demo3Facts)

example : (⟨[1], []⟩ : Plan).sub (planModel demo3 demo3Facts) = true := by decide
example : (run demo3Prims none 20 demo3).1 = .ok .normal := rfl
example : (run demo3Prims none 20 demo3).2.trace = [3, 2, 1, 0] := rfl
example : (run demo3Prims (some ⟨[1], []⟩) 20 demo3).2.trace = [3, 2, 0] := rfl
example : observable (run demo3Prims none 20 demo3) = ([.num 3], none) := rfl
example : observable (run demo3Prims (some ⟨[1], []⟩) 20 demo3) = ([.num 3], none) := by
  rw [show run demo3Prims (some ⟨[1], []⟩) 20 demo3 =
      run (evalPrims Eval.Toy.cfg (declScopeOf demo3Facts) (stmtScopeOf demo3Facts)) (some ⟨[1], []⟩) 20 demo3 from rfl,
    c03_concrete Eval.Toy.cfg demo3 demo3Facts ⟨[1], []⟩ 20 (by decide) (by decide)
      (by intro h; cases h) (by intro h; cases h) (by intro h; cases h)]
  rfl

/-- Non-vacuity of `c03_eval` / `c03_bridge` on `demo3`: the static side conditions of the bridge hold
(the oracle computed from the facts), and the two runs of `Eval` the theorem speaks about are these. -/
def toyNumOk (lex : Bytes) : Bool := (Eval.Toy.ofLit lex).isSome

example : okBlock (orcOf toyNumOk demo3Facts) demo3 = true := by decide
example : ∀ lex, toyNumOk lex = true → ∃ x : Int, NumOps.ofLit lex = some x := by
  intro lex h
  exact Option.isSome_iff_exists.mp h
example : evalObs (Eval.run (N := Int) { Eval.Toy.cfg with plan := none } 20 demo3) = some ([.num 3], 0) := rfl
example : evalObs (Eval.run (N := Int) { Eval.Toy.cfg with plan := some (toEvalPlan ⟨[1], []⟩) } 20 demo3) =
    some ([.num 3], 0) := rfl
/-- All hypotheses of `c03_eval` hold on `demo3` with the plan `{1}`. -/
example : ∃ f', evalObs (Eval.run (N := Int) { Eval.Toy.cfg with plan := some (toEvalPlan ⟨[1], []⟩) } f' demo3) =
    some ([.num 3], 0) :=
  c03_eval (N := Int) Eval.Toy.cfg toyNumOk demo3 demo3Facts ⟨[1], []⟩ 20 rfl rfl rfl
    (fun _ h => Option.isSome_iff_exists.mp h) (by decide) (by decide) (by decide) ([.num 3], 0) rfl (by decide) (by decide)

/-- A primitive semantics in which the literal `1` fails: not `Lawful`. -/
def badPrims : Prims Unit where
  null := ()
  node := fun e _ => match e with | .num [49] _ => .error (.rt 0) | _ => .ok ()
  falsy := fun _ => false
  truthy := fun _ => false
  logicRhs := fun _ => .ok ()
  logicShort := fun _ => ()
  cond := fun _ => .ok true
  isGlobal := fun n => n == [115, 104, 111, 117, 116]
  isShout := fun n => n == [115, 104, 111, 117, 116]
  global := fun _ _ => .ok ()
  isMut := fun _ => false
  memberSel := fun _ _ => .ok []
  member := fun _ _ _ => .ok ()
  argMissing := .rt 0
  mutSteps := fun _ => []
  mutMember := fun _ _ _ _ => .ok ((), ())
  setPath := fun _ _ _ => .ok ()
  idx := fun v => .ok v
  lvErr := .rt 0
  dscope := fun _ => none
  sscope := fun _ => none

/-- Without the laws about the primitive operations the statement is false: with `badPrims` the
plain run of `make x get 1  shout(0)` ends in an error at the declaration the plan removes. -/
theorem c03_full_raw_is_false : ¬ c03_full_raw := by
  intro h
  have e1 : (run badPrims none 10 demo2).1 = .error (.rt 0) := rfl
  have e2 : (run badPrims (some ⟨[0], []⟩) 10 demo2).1 = .ok .normal := rfl
  have o1 : observable (run badPrims none 10 demo2) = ([], some (.rt 0)) := rfl
  have o2 : observable (run badPrims (some ⟨[0], []⟩) 10 demo2) = ([()], none) := rfl
  have := h Unit badPrims demo2 demo2Facts ⟨[0], []⟩ 10 (by decide) (by decide)
    (by rw [e1]; intro hh; cases hh) (by rw [e2]; intro hh; cases hh)
  rw [o1, o2] at this
  cases this

/-- A toy primitive semantics that satisfies `Lawful`: a value is its literal type, if it has one.
(Non-vacuity of the hypothesis of `c03_full`; the runtime's own operators are argued to satisfy the
laws in `Lemmas/AnalysisBridge.lean`.) -/
def toyPrims : Prims (Option LTy) where
  null := some .null
  node := fun e vs =>
    match e, vs with
    | .num _ _, _ => .ok (some .num)
    | .bool _ _, _ => .ok (some .bool)
    | .null _, _ => .ok (some .null)
    | .str _ _, _ => .ok (some .str)
    | .array _ _, _ => .ok none
    | .unary op _ _, [some a] => match litUnary op a with | some t => .ok (some t) | none => .error (.rt 0)
    | .binary op _ _ _, [some a, some b] => match litBinary op a b with | some t => .ok (some t) | none => .error (.rt 0)
    | _, _ => .error (.rt 0)
  falsy := fun _ => false
  truthy := fun _ => false
  logicRhs := fun v => match v with | some .bool | some .null => .ok (some .bool) | _ => .error (.rt 0)
  logicShort := fun _ => some .bool
  cond := fun v => match v with | some .bool | some .null => .ok true | _ => .error (.rt 0)
  isGlobal := fun n => (globalClass n).isSome
  isShout := fun n => globalClass n == some .impure
  global := fun _ _ => .ok none
  isMut := fun f => memberClass f == some .impure
  memberSel := fun _ _ => .error (.rt 0)
  member := fun _ _ _ => .error (.rt 0)
  argMissing := .rt 0
  mutSteps := fun _ => []
  mutMember := fun _ _ _ _ => .error (.rt 0)
  setPath := fun _ _ _ => .error (.rt 0)
  idx := fun v => .ok v
  lvErr := .rt 0
  dscope := fun _ => none
  sscope := fun _ => none

theorem toyPrims_lawful : Lawful toyPrims (fun v t => v = some t) where
  global_iff := fun _ => rfl
  shout_impure := fun name h => by simpa [toyPrims] using h
  mut_impure := fun f h => by simpa [toyPrims] using h
  num := fun _ _ => ⟨_, rfl, rfl⟩
  bool := fun _ _ => ⟨_, rfl, rfl⟩
  null := fun _ => ⟨_, rfl, rfl⟩
  str := fun _ _ _ => ⟨_, rfl, rfl⟩
  array := fun _ _ _ => ⟨_, rfl⟩
  unary := by
    intro op x sp a ta t ha ht
    subst ha
    exact ⟨some t, by simp [toyPrims, ht], rfl⟩
  binary := by
    intro op l r sp a b ta tb t _ _ _ ha hb ht
    subst ha; subst hb
    exact ⟨some t, by simp [toyPrims, ht], rfl⟩
  logicShort := fun _ => rfl
  logicRhs := by
    intro b tb hb htb
    subst hb
    rcases htb with rfl | rfl <;> exact ⟨_, rfl, rfl⟩
  pureGlobal := fun _ _ _ _ => ⟨_, rfl⟩
  command := fun _ _ => ⟨_, rfl⟩
  cond := by
    intro v hv
    rcases hv with rfl | rfl <;> exact ⟨true, rfl⟩

end NaijaVerif.C03
