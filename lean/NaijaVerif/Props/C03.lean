import NaijaVerif.Model.Analysis
import NaijaVerif.Model.AnalysisEval
import NaijaVerif.Lemmas.AnalysisReach
import NaijaVerif.Lemmas.AnalysisSim
import NaijaVerif.Lemmas.AnalysisPure
import NaijaVerif.Lemmas.AnalysisRelStep
import NaijaVerif.Lemmas.AnalysisNoTrap
import NaijaVerif.Lemmas.AnalysisCheck
import NaijaVerif.Lemmas.AnalysisBase
import NaijaVerif.Lemmas.AnalysisLiveTop
import NaijaVerif.Lemmas.AnalysisLiveMono
import NaijaVerif.Lemmas.AnalysisLiveModel
import NaijaVerif.Lemmas.AnalysisRefineLawful
import NaijaVerif.Lemmas.AnalysisRefineTop
import NaijaVerif.Lemmas.EvalToy
import NaijaVerif.Lemmas.PipelinePrune
import NaijaVerif.Lemmas.ResolveStructLok
/-
C03 — analysis-driven pruning never changes what a program does.

Model of the analyses: `Model/Analysis.lean` (tied to `/repo` by the `plan` stream; fixes D-03a … D-03f).
Evaluator: the fragment `Model/AnalysisEval.lean` (control flow, scopes tagged with the resolver
scope they instantiate and variable lookup in the most recent instance of the declaring scope — the
D-04 fix —, hoisting, calls, plan skipping; what a primitive operation computes is abstract).

Proved here, for every program, every primitive semantics and every amount of fuel:
* T1 `t1_unreachable_never_executes`, `t1_completes_normally_only_if_fallthrough`;
* `c03_partial` — a plan of unreachable statements (any subset) gives *exactly* the same run;
* T2 `t2_no_effect` (state half), `t2_no_trap` (no-trap half, under the laws `Lawful` about the
  primitive operations), `t2_quiet` (both), `t2_pruned_initialiser`; the interprocedural version
  (calls of functions with a `PureNoTrap` summary) is `quietIn_safe2` in `Lemmas/AnalysisPureCall.lean`;
* T3 `t3_unused_function_never_looked_up` (hypotheses `BRClosed`, `OwnOk`, decidable, evaluated by
  the driver on every case of the tie);
* T4/T5 and the property itself — `c03_live`, `c03_live_checked`, `c03_full_checked`, **`c03_full_holds`**
  (`c03_full` is proved): the liveness simulation.  The two runs' environments agree, scope by
  scope, on the variables live at the current program point of the activation the scope belongs to
  (the live sets are the model's own: `lvStmts`, callee capture reads through the transitive
  summaries, loops at their fixpoint); suspended activations keep the set they had at their call;
  never-read variables and skipped declarations are the static special cases; a dropped initialiser
  may call user functions with a `PureNoTrap` summary (`quietIn_safe2`).  Statement: for primitive
  semantics that are `Lawful` and take scopes from the facts (`ScopesFrom`), for EVERY plan contained
  in the model's plan, the pruned run prints the same values and ends the same way as the plain run,
  unless the plain run ends in fuel exhaustion, in a use-before-declaration (`unbound`) or in a crash
  of the interpreter (`panic`, excluded for accepted programs by C06) — under `structOkB root facts`:
  decidable conditions on the program and its facts ONLY (no plan): distinct statement ids; the facts
  cover what the statements do (reads, writes, callees, scopes, ownership: `efitList`, `globalOkB`);
  the model's own tables and verdicts are consistent with the occurrences of the statements (row kind,
  recorded class, unused-assignment verdict ⇒ target not live after this occurrence, unused-variable
  verdict ⇒ this target, `declRemovable` ⇒ no later reference in the scope: `storeTabB`); loop fixpoints
  converged; pure summaries backed by pure bodies.  The plan-construction logic of opt.rs is proved
  sufficient once and for all (`modelOk_of_struct`, `rootOkB_model`), and the conditions are monotone
  in the plan (`lokListB_mono`).  The driver evaluates `structOkB` on every case of the tie (`cover`
  requests, `live=1`): it holds on 100 % of the generated and corpus programs.
* `c03_partial_ext` / `c03_partial_checked`: the older static special case (stores to never-read
  variables), kept because its hypotheses are lighter.
* `c03_full_raw_is_false`: without the laws about the primitive operations the statement is false.
* **`c03_concrete`** — the closed corollary for the EXECUTABLE instance: `c03_full_holds` at
  `evalPrims cfg (declScopeOf facts) (stmtScopeOf facts)` (`Model/AnalysisPrims.lean`: the primitive
  steps of the shared evaluator model `Model/Eval.lean`, for any number type and run configuration;
  `Lawful` by `evalPrims_lawful`, `ScopesFrom` by construction).  No hypothesis about the primitive
  semantics is left.  This very instance (at the driver's float numbers) is what the `arun` stream of
  the check runs against the real runtime, plain and pruned, on the real AST, facts and plan.
* **`c03_bridge`** (= `bridge_to_eval : BridgeToEval`) and **`c03_bridge_converse`** (`Lemmas/AnalysisRefine*.lean`)
  — the formal tie of that instance to the SHARED evaluator model `Model/Eval.lean` (the one the `run`
  stream ties to the real runtime), in both directions: a run of the fragment that is not cut short by
  its fuel is matched, for all sufficiently large fuel, by the run of `Eval` (declaring-scope lookup,
  current code, no input), and a run of `Eval` that is not cut short by its fuel is matched by the run
  of the fragment with enough fuel — same printed values, same ending, same kind of runtime error — for
  every annotated program (`okBlock`, with the oracle `orcOf` computed from the facts and evaluated by
  the driver on every case), with or without a plan.  The simulations cover the whole language (member
  calls, mutating methods and index assignment included); the two evaluators count fuel differently,
  hence "for some fuel".
* **`c03_eval`** — C03 for `Eval.run` itself, no hypothesis about the fragment left: if the plain run of
  `Eval` ends (within its fuel) normally or in a runtime error other than `Undefined variable`, then for
  every plan contained in the model's plan the pruned run of `Eval` (with enough fuel) prints the same
  values and ends the same way.  (By `Eval.run_mono` that is THE outcome of the pruned run for all larger
  fuel.)  `c03_termination_transfer`: a run of `Eval` that ends is a run of the fragment that ends.
* **`c03_pipeline`** — the same for the SHIPPED PIPELINE (`Model/Pipeline.lean`: lex → parse → resolve → limit
  preflight → analyses → run): for every source text and all caps, if `Pipeline.frontEnd` accepts the text
  and `PipelineSide` (= `okBlock (orcOf …)` ∧ `structOkB`, of the front end's program and facts) holds, the
  run with the plan the front end hands over has the observation of the run without a plan, for all
  sufficiently large fuel; the panic exclusion is discharged by C06 (`pipeline_plain_no_panic`).
* **The side conditions as theorems about the resolver model** (`Lemmas/ResolveStruct*.lean`), for every
  accepted output `(resolve q).root`, `(resolve q).facts` (`rdiags = []`):
  - the whole bridge condition `okBlock (orcOf numOk facts) root` — `resolve_okBlock` (annotations from
    `resolve_wellScoped` / `resolve_num` / `resolve_ok`; scope tags of blocks and parameter lists, distinct
    function ids per block: the scope walk `Lemmas/ResolveStructScopeWalk.lean`);
  - of `structOkB` (`structOkB_split`, `structRestB_split`): distinct statement ids (they are the pre-order
    positions `0 … n-1`), ALL of `globalOkB` (`resolve_globalOk`: `brClosed`, `usedOkB` — for every program and
    all facts —, `sumOkB`, `slOkB`, `scOwnB`), and of the statement walk `rootOkB` the owner / callee atoms
    (`resolve_ownWalk`, from `ownOkB`).
  What remains is `structRest2B`: the top-level scope condition and the walk over the other atoms of `lokB`
  (variable part of `efitList`, `writesOkB`, `otherB`, `blockOkB`, the store rule incl. `storeTabB`, loop
  fixpoints, `pureFnB`).  `c03_pipeline_rest` states C03 for the shipped pipeline under `structRest2B` alone.
  `structRest_fails_on_accepted`: as it stands `structRest2B` is NOT true of every accepted program (a store
  whose initialiser calls a mutating method records `writes = [receiver, target]`, the store rule asks for
  `[target]`); the conjunct stays a hypothesis.
Still evaluated per program rather than proved: `structRest2B` (in particular the table-consistency conjuncts
`storeTabB`: true by construction of the model's tables for distinct, pre-order statement ids; a
proof needs the position arguments "`i ∈ unusedAsg` refers to THIS occurrence of statement `i`").
Also open: T6 (verdicts) beyond never-read variables.
-/
namespace NaijaVerif.C03
open NaijaVerif NaijaVerif.Analysis NaijaVerif.AEval

/-! ### Reachability facts about the model -/

mutual
  /-- Once a point is unreachable the rest of the sequence is. -/
  theorem afterStmt_false : ∀ s : Stmt, afterStmt false s = false
    | .ret _ _ _ | .brk _ _ | .cont _ _ => by simp [afterStmt]
    | .block (.mk b _) _ _ => by simp [afterStmt, afterStmts_false b]
    | .ifS _ (.mk t _) none _ _ => by simp [afterStmt, afterStmts_false t]
    | .ifS _ (.mk t _) (some (.mk e _)) _ _ => by simp [afterStmt, afterStmts_false t, afterStmts_false e]
    | .fnDef .. | .assign .. | .assignExisting .. | .assignIndex .. | .loop .. | .expr .. => by simp [afterStmt]
  theorem afterStmts_false : ∀ ss : List Stmt, afterStmts false ss = false
    | [] => by simp [afterStmts]
    | s :: ss => by simp [afterStmts, afterStmt_false s, afterStmts_false ss]
end

/-! ### T1 -/

/-- **T1.** Whatever the primitive operations do and however long the run lasts (including runs
that end in an error), no statement the analysis calls unreachable is ever executed. -/
theorem t1_unreachable_never_executes {V : Type} (P : Prims V) (root : Block) (fuel : Nat)
    (hd : SidsDistinct root) :
    ∀ i ∈ (run P none fuel root).2.trace, i ∉ unreachable root := by
  intro i hi hu
  have hm := (main_all P (plain_harmless (tbl root)) fuel).block root.stmts (St.init V) (cons_root root)
    (inv_init _ V)
  have hinv : Inv (tbl root) (run P none fuel root).2 := hm.2.1
  exact tbl_functional hd (hinv.2 i hi) (mem_unreachable.mp hu)

/-- The fall-through flag is sound: the top-level block completes normally only if the analysis
considers its end reachable. -/
theorem t1_completes_normally_only_if_fallthrough {V : Type} (P : Prims V) (root : Block) (fuel : Nat) :
    (run P none fuel root).1 = .ok .normal → afterStmts true root.stmts = true :=
  ((main_all P (plain_harmless (tbl root)) fuel).block root.stmts (St.init V) (cons_root root)
    (inv_init _ V)).2.2

/-! ### The plan theorem -/

/-- The full-strength statement for the model of the fixed analyses: for primitive semantics that
satisfy the laws of the runtime's operators (`Lawful`) and take scopes from the facts, and for facts
that are consistent with the annotated AST (`structOkB`, `Lemmas/AnalysisLiveModel.lean`: conditions
on the program and its facts only, no plan), every plan contained in the model's plan leaves what a
run prints and how it ends unchanged, unless the plain run is cut short by the fuel, uses a variable
before its declaration or crashes the interpreter.  Proved: `c03_full_holds`. -/
def c03_full : Prop :=
  ∀ (V : Type) (P : Prims V) (ty : V → LTy → Prop), Lawful P ty →
    ∀ (root : Block) (facts : Facts) (plan : Plan) (fuel : Nat),
    ScopesFrom P facts → structOkB root facts = true → plan.sub (planModel root facts) = true →
    (run P none fuel root).1 ≠ .error .fuel → (run P none fuel root).1 ≠ .error .unbound →
    (run P none fuel root).1 ≠ .error .panic →
    observable (run P (some plan) fuel root) = observable (run P none fuel root)

/-- The statement without any law about the primitive operations (as it stood in the first rounds):
arbitrary `Prims`, facts only `wf`. -/
def c03_full_raw : Prop :=
  ∀ (V : Type) (P : Prims V) (root : Block) (facts : Facts) (plan : Plan) (fuel : Nat),
    wf root facts = true → plan.sub (planModel root facts) = true →
    (run P none fuel root).1 ≠ .error .fuel → (run P (some plan) fuel root).1 ≠ .error .fuel →
    observable (run P (some plan) fuel root) = observable (run P none fuel root)

theorem harmless_of_unreachable {root : Block} (hd : SidsDistinct root) {plan : Plan}
    (hs : ∀ i ∈ plan.stmts, i ∈ unreachable root) (hf : plan.fns = []) :
    Harmless (tbl root) (Cfg.ofPlan (some plan)) := by
  constructor
  · intro i hi
    simp only [Cfg.ofPlan]
    cases hc : plan.stmts.contains i with
    | false => rfl
    | true =>
      have : i ∈ plan.stmts := by simpa using hc
      exact absurd (mem_unreachable.mp (hs i this)) (tbl_functional hd hi)
  · intro f
    simp [Cfg.ofPlan, hf]

/-- **C03, partial.** A plan made of statements the model calls unreachable — any subset of them —
does not change the run at all: same values printed, same ending, same final state, same statements
executed, for every primitive semantics and every amount of fuel (so also for runs that end in an
error or run out of fuel). -/
theorem c03_partial {V : Type} (P : Prims V) (root : Block) (plan : Plan) (fuel : Nat)
    (hd : SidsDistinct root) (hs : ∀ i ∈ plan.stmts, i ∈ unreachable root) (hf : plan.fns = []) :
    run P (some plan) fuel root = run P none fuel root :=
  ((main_all P (harmless_of_unreachable hd hs hf) fuel).block root.stmts (St.init V) (cons_root root)
    (inv_init _ V)).1

/-- The unreachable statements are part of the model's plan … -/
theorem plan_contains_unreachable (root : Block) (facts : Facts) :
    ∀ i ∈ unreachable root, i ∈ (planModel root facts).stmts := by
  intro i hi
  simp only [planModel, analyse]
  have key : ∀ (a b : List Nat), i ∈ a → i ∈ uni a b := by
    intro a b
    induction a with
    | nil => intro h; cases h
    | cons x xs ih =>
      intro h
      simp only [uni, List.foldr_cons, ins]
      rcases List.mem_cons.mp h with rfl | h'
      · split
        · next hc => simpa using hc
        · simp
      · have := ih h'
        simp only [uni] at this
        split
        · exact this
        · exact List.mem_cons_of_mem _ this
  exact key _ _ hi

/-- … and the observable behaviour (what the property compares) is unchanged by any plan drawn from
that part of the model's plan. -/
theorem c03_partial_observable {V : Type} (P : Prims V) (root : Block) (plan : Plan) (fuel : Nat)
    (hd : SidsDistinct root) (hs : ∀ i ∈ plan.stmts, i ∈ unreachable root) (hf : plan.fns = []) :
    observable (run P (some plan) fuel root) = observable (run P none fuel root) := by
  rw [c03_partial P root plan fuel hd hs hf]

/-- With the plan, unreachable statements stay unexecuted as well (T1 for the pruned run). -/
theorem t1_with_plan {V : Type} (P : Prims V) (root : Block) (plan : Plan) (fuel : Nat)
    (hd : SidsDistinct root) (hs : ∀ i ∈ plan.stmts, i ∈ unreachable root) (hf : plan.fns = []) :
    ∀ i ∈ (run P (some plan) fuel root).2.trace, i ∉ unreachable root := by
  rw [c03_partial P root plan fuel hd hs hf]
  exact t1_unreachable_never_executes P root fuel hd


/-! ### T2 (effect class), state half -/

/-- **T2, state half.** An expression the (fixed) classification does not call `Impure` and that
calls no user function changes nothing: not the variables, not the function scopes, not the output,
whatever value or error it produces — for every primitive semantics whose builtin dispatch agrees
with the effect tables (`TablesAgree`).  User calls are accounted for per statement through the
summaries (`effClass`); the no-trap half needs the runtime's operator tables and is covered by the
tie (`cls=`) and the differential with trapping initialisers. -/
theorem t2_no_effect {V : Type} (P : Prims V) (ha : TablesAgree P) (cfg : Cfg) (capt : Nat → Bool) (e : Expr) (n : Nat) (st : St V)
    (hc : classify capt e ≠ .impure) (hn : noUserCall e = true) :
    (evalExpr P cfg n e st).2 = st :=
  (pure_all P cfg n).expr e st (effectFree_of_class ha capt e hc hn)

/-- Corollary for a pruned initialiser: skipping `make x get e` (or `x get e`) with such an `e`
can only be noticed through the variable `x`: executing it leaves the output, the function scopes
and the statement trace untouched. -/
theorem t2_pruned_initialiser {V : Type} (P : Prims V) (ha : TablesAgree P) (cfg : Cfg) (n : Nat) (st : St V)
    (capt : Nat → Bool) (v : Bytes) (vs : Span) (e : Expr) (b sid : Option Nat) (sp : Span)
    (hc : classify capt e ≠ .impure) (hn : noUserCall e = true) :
    let st' := (execStmt P cfg n (.assign v vs e b sid sp) st).2
    st'.out = st.out ∧ st'.fns = st.fns ∧ st'.trace = st.trace ∧ st'.looked = st.looked := by
  cases n with
  | zero => simp [execStmt]
  | succ n =>
    have h1 := t2_no_effect P ha cfg capt e n st hc hn
    simp only [execStmt]
    generalize evalExpr P cfg n e st = r at h1 ⊢
    obtain ⟨r1, st1⟩ := r
    simp only at h1
    subst h1
    cases r1 with
    | error er => simp
    | ok val => cases b <;> simp

/-! ### T3, T4 and the extended plan theorem (relational simulation) -/

theorem setup_ok (root : Block) (facts : Facts) (plan : Option Plan) (D1 D2 : Nat → Bool)
    (hd : SidsDistinct root) (hcl : BRClosed root facts) (hd12 : ∀ l, D1 l = true → D2 l = true)
    (hfns : ∀ p, plan = some p → ∀ g ∈ p.fns, g ∈ (mkCtx root facts).unusedFns.map (·.2)) :
    SetupOk (setupOf root facts plan D1 D2) where
  closed := hcl
  drop := by
    intro g hg
    cases plan with
    | none => rfl
    | some p =>
      simp only [setupOf, Cfg.ofPlan]
      cases hc : p.fns.contains g with
      | false => rfl
      | true =>
        have hm : g ∈ p.fns := by simpa using hc
        have := unused_not_reachable _ (hfns p rfl g hm)
        simp only [setupOf] at hg
        rw [this] at hg
        cases hg
  d12 := hd12
  func := fun _ h => tbl_functional hd h

theorem inv2_init {V : Type} (P : Prims V) (S : Setup) : Inv2 P S (St.init V) := by
  refine ⟨inv_init _ V, ?_, ?_⟩
  · intro sc hsc fd hfd
    simp [St.init] at hsc
    subst hsc
    cases hfd
  · intro g hg
    simp [St.init] at hg

theorem rel_init {V : Type} (S : Setup) : Rel S (St.init V) (St.init V) :=
  ⟨rfl, rfl, by simp [St.init, EnvRel, ScopeRel, keep, SlotsRel]⟩

/-- Ownership and callee consistency of the facts w.r.t. the annotated AST: every statement's
`function` fact is the function whose body contains it, and every user call in its own expressions
is among its `direct_callees` (checked by `wf`: `Analysis.ownOk`).  This is `SOkList` for the
trivial setting (nothing skipped, nothing dead). -/
def OwnOk {V : Type} (P : Prims V) (root : Block) (facts : Facts) : Prop :=
  SOkList P (setupOf root facts none (fun _ => false) (fun _ => false)) 0 root.stmts

/-- **T3.** In the plain run, every function a call looks up is body-reachable; in particular a
function the analysis reports as unused is never looked up (so not registering it cannot be
noticed) — for every primitive semantics and every amount of fuel, runs that end in errors included. -/
theorem t3_unused_function_never_looked_up {V : Type} (P : Prims V) (root : Block) (facts : Facts) (fuel : Nat)
    (hd : SidsDistinct root) (hcl : BRClosed root facts) (hown : OwnOk P root facts) :
    ∀ g ∈ (run P none fuel root).2.looked, g ∉ (mkCtx root facts).unusedFns.map (·.2) := by
  intro g hg hu
  have hs := setup_ok root facts none (fun _ => false) (fun _ => false) hd hcl (fun _ h => h)
    (fun p hp => by cases hp)
  have hm := (sim_all P hs fuel).block root.stmts (St.init V) (St.init V) 0 (cons_root root) hown
    (root_bodyReachable _) (rel_init _) (inv2_init P _)
  have hl : (mkCtx root facts).bodyReachable.contains g = true := hm.2.2.2 g hg
  rw [unused_not_reachable _ hu] at hl
  cases hl

/-- **C03, partial (extended).**  Let `plan` contain
* statements the model calls unreachable,
* functions the model calls unused,
* stores (`make x get e` / `x get e`) to variables that no statement ever reads (`D2`), with an
  initialiser that neither changes the state nor fails (`Quiet`, see `quiet_of_class`); a removed
  declaration additionally needs every store to its variable to be removed (`D1`),
all of it packaged in the side condition `SOkList` (which also carries the ownership / callee
consistency of the facts).  Then the pruned run prints the same values and ends the same way as the
plain run, unless the plain run is cut short by the fuel or uses a variable before its declaration. -/
theorem c03_partial_ext {V : Type} (P : Prims V) (root : Block) (facts : Facts) (plan : Plan) (fuel : Nat)
    (D1 D2 : Nat → Bool)
    (hd : SidsDistinct root) (hcl : BRClosed root facts) (hd12 : ∀ l, D1 l = true → D2 l = true)
    (hfns : ∀ g ∈ plan.fns, g ∈ (mkCtx root facts).unusedFns.map (·.2))
    (hok : SOkList P (setupOf root facts (some plan) D1 D2) 0 root.stmts)
    (hfuel : (run P none fuel root).1 ≠ .error .fuel) (hunb : (run P none fuel root).1 ≠ .error .unbound)
    (hpan : (run P none fuel root).1 ≠ .error .panic) :
    observable (run P (some plan) fuel root) = observable (run P none fuel root) := by
  have hs := setup_ok root facts (some plan) D1 D2 hd hcl hd12 (fun p hp => by cases hp; exact hfns)
  have hm := (sim_all P hs fuel).block root.stmts (St.init V) (St.init V) 0 (cons_root root) hok
    (root_bodyReachable _) (rel_init _) (inv2_init P _)
  rcases hm.1 with hbad | ⟨heq, hrel⟩
  · rcases hbad with hb | hb | hb
    · exact absurd hb hfuel
    · exact absurd hb hunb
    · exact absurd hb hpan
  · simp only [observable, run]
    have h1 : (execBlock P (Cfg.ofPlan (some plan)) fuel root.stmts (St.init V)).1 =
        (execBlock P plain fuel root.stmts (St.init V)).1 := heq
    have h2 := hrel.1
    simp only [setupOf] at h2
    simp only [plain] at h1 h2
    rw [h1, h2]

/-! ### T2 (effect class), no-trap half -/

/-- **T2, no-trap half.** Under the laws `Lawful` (what the runtime's operator and builtin match
arms do on the operand types the fixed classification insists on), an expression classed
`PureNoTrap` that calls no user function and respects the builtin arities evaluates to a value —
of the type its literals determine — unless the fuel runs out or a variable it reads has no slot
(after D-03e only the running function's own variables are read by such an expression; that those
are bound is the resolver's scoping guarantee, properties C04/C09). -/
theorem t2_no_trap {V : Type} (P : Prims V) (ty : V → LTy → Prop) (L : Lawful P ty) (capt : Nat → Bool) (cfg : Cfg)
    (e : Expr) (n : Nat) (st : St V) (hs : Safe capt e) :
    (∃ v, (evalExpr P cfg n e st).1 = .ok v ∧ ∀ t, literalTy e = some t → ty v t) ∨
      (evalExpr P cfg n e st).1 = .error .fuel ∨ (evalExpr P cfg n e st).1 = .error .unbound :=
  (noTrap_all L capt cfg n).expr e st hs

/-- Both halves together: such an expression is `Quiet`, which is what `c03_partial_ext` asks of a
removed initialiser. -/
theorem t2_quiet {V : Type} (P : Prims V) (ty : V → LTy → Prop) (L : Lawful P ty) (capt : Nat → Bool) (e : Expr)
    (hs : Safe capt e) : Quiet P e :=
  quiet_of_class L capt e hs

/-- **C03, partial (extended), decidable form.**  The side condition of `c03_partial_ext` checked by
the executable `sokListB` with the syntactic safe-initialiser test `safeB` (fixed classification =
`PureNoTrap`, no user call, arities respected), for primitive semantics satisfying `Lawful`. -/
theorem c03_partial_checked {V : Type} (P : Prims V) (ty : V → LTy → Prop) (L : Lawful P ty)
    (root : Block) (facts : Facts) (plan : Plan) (fuel : Nat) (D1 D2 : Nat → Bool)
    (hd : SidsDistinct root) (hcl : (mkCtx root facts).brClosed = true)
    (hd12 : ∀ l, D1 l = true → D2 l = true)
    (hfns : ∀ g ∈ plan.fns, g ∈ (mkCtx root facts).unusedFns.map (·.2))
    (hok : sokListB (setupOf root facts (some plan) D1 D2) (safeB facts) 0 root.stmts = true)
    (hfuel : (run P none fuel root).1 ≠ .error .fuel) (hunb : (run P none fuel root).1 ≠ .error .unbound)
    (hpan : (run P none fuel root).1 ≠ .error .panic) :
    observable (run P (some plan) fuel root) = observable (run P none fuel root) :=
  c03_partial_ext P root facts plan fuel D1 D2 hd (brClosed_of_check root facts hcl) hd12 hfns
    (sokList_of_B (fun f e h => quiet_of_safeB L facts f e h) 0 root.stmts hok) hfuel hunb hpan

/-! ### T5: flow-sensitive dead stores (the liveness simulation) -/

/-- **C03 for a plan that passes the liveness conditions.**  Let the plan contain unreachable
statements, unused functions, and stores (declarations and re-assignments) with quiet initialisers
whose target is not live afterwards — in the very live sets the liveness model computes, callee
capture reads included, loops at their fixpoint — or is never read at all; a removed declaration
additionally has no later reference to its variable in its scope.  These are the statement-by-statement
conditions `rootOkB` (executable; `lokListB` in `Lemmas/AnalysisLiveOk.lean`); `globalOkB` are the
plan-independent consistency conditions on the facts.  Then the pruned run prints the same values
and ends the same way as the plain run, unless the plain run is cut short by the fuel or uses a
variable before its declaration.  Both runs look variables up as the runtime does since the D-04
fix: in the most recent instance of the declaring scope (`ScopesFrom`). -/
theorem c03_live {V : Type} (P : Prims V) (root : Block) (facts : Facts) (plan : Plan) (q : Nat → Expr → Bool) (fuel : Nat)
    (hP : ScopesFrom P facts) (hq : ∀ f e, q f e = true → Quiet P e)
    (hd : SidsDistinct root) (hg : globalOkB root facts = true)
    (hfns : ∀ g ∈ plan.fns, g ∈ (mkCtx root facts).unusedFns.map (·.2))
    (hok : rootOkB (lsetupOf root facts (some plan) q) root = true)
    (hfuel : (run P none fuel root).1 ≠ .error .fuel) (hunb : (run P none fuel root).1 ≠ .error .unbound)
    (hpan : (run P none fuel root).1 ≠ .error .panic) :
    observable (run P (some plan) fuel root) = observable (run P none fuel root) :=
  live_run P root facts plan q fuel hP (quietIn_of_quiet hq) (lsetupOk_of root facts plan q hd hg hfns) hok
    (fun hb => hb.elim hfuel (fun hb => hb.elim hunb hpan))

/-- The same with the syntactic test `safe2B` for droppable initialisers (fixed classification
`PureNoTrap`, builtin arities respected, every user function called has a `PureNoTrap` summary — the
interprocedural half of T2, `quietIn_safe2`: a call of such a function restores variables, function
scopes and output and does not fail) for primitive semantics satisfying `Lawful`: every hypothesis
about the program is decidable and evaluated by the driver on every case of the tie. -/
theorem c03_live_checked {V : Type} (P : Prims V) (ty : V → LTy → Prop) (Lw : Lawful P ty)
    (root : Block) (facts : Facts) (plan : Plan) (fuel : Nat)
    (hP : ScopesFrom P facts) (hd : SidsDistinct root) (hg : globalOkB root facts = true)
    (hfns : ∀ g ∈ plan.fns, g ∈ (mkCtx root facts).unusedFns.map (·.2))
    (hok : rootOkB (lsetupOf root facts (some plan) (safe2B (mkCtx root facts))) root = true)
    (hfuel : (run P none fuel root).1 ≠ .error .fuel) (hunb : (run P none fuel root).1 ≠ .error .unbound)
    (hpan : (run P none fuel root).1 ≠ .error .panic) :
    observable (run P (some plan) fuel root) = observable (run P none fuel root) :=
  live_run P root facts plan _ fuel hP (quietIn_safe2 hP.1 hP.2 Lw (fun _ _ => rfl))
    (lsetupOk_of root facts plan _ hd hg hfns) hok (fun hb => hb.elim hfuel (fun hb => hb.elim hunb hpan))

theorem mem_of_subset {a b : List Nat} (h : subset a b = true) : ∀ i ∈ a, i ∈ b := by
  simpa [subset] using h

/-- **C03 for every plan contained in the model's plan**, under decidable conditions on the program
and its facts only (`modelOkB`: distinct statement ids, the global consistency conditions, and the
liveness conditions evaluated for the model's own plan — they are monotone in the plan, so they
cover every plan contained in it).  `modelOkB` follows from the plan-free `structOkB`
(`modelOk_of_struct`), which is what the driver evaluates on every case of the tie. -/
theorem c03_full_checked {V : Type} (P : Prims V) (ty : V → LTy → Prop) (Lw : Lawful P ty)
    (root : Block) (facts : Facts) (plan : Plan) (fuel : Nat)
    (hP : ScopesFrom P facts) (hm : modelOkB root facts = true) (hsub : plan.sub (planModel root facts) = true)
    (hfuel : (run P none fuel root).1 ≠ .error .fuel) (hunb : (run P none fuel root).1 ≠ .error .unbound)
    (hpan : (run P none fuel root).1 ≠ .error .panic) :
    observable (run P (some plan) fuel root) = observable (run P none fuel root) := by
  simp only [modelOkB, Bool.and_eq_true, decide_eq_true_eq] at hm
  simp only [Plan.sub, Bool.and_eq_true] at hsub
  refine c03_live_checked P ty Lw root facts plan fuel hP hm.1.1 hm.1.2 ?_
    (rootOkB_sub root facts plan _ _ (mem_of_subset hsub.1) hm.2) hfuel hunb hpan
  intro g hg
  have := mem_of_subset hsub.2 g hg
  simpa [planModel, analyse] using this

/-- **C03.**  `c03_full` holds: the liveness conditions for the model's own plan follow from the
structural conditions (`modelOk_of_struct`: whatever `build_optimization_plan` puts into the plan
satisfies the rule of its occurrence), so `c03_full_checked` applies. -/
theorem c03_full_holds : c03_full := by
  intro V P ty Lw root facts plan fuel hP hs hsub hfuel hunb hpan
  exact c03_full_checked P ty Lw root facts plan fuel hP (modelOk_of_struct root facts hs) hsub hfuel hunb hpan

/-- **C03 for the executable instance** (`Model/AnalysisPrims.lean`): the evaluator fragment with the
primitive steps of the evaluator model `Model/Eval.lean` — for every number type, run configuration
(host policy, process runner, std string operations), program, facts, plan contained in the model's
plan and amount of fuel.  The laws `Lawful` are proved for this instance (`evalPrims_lawful`) and its
scopes are the facts' by construction, so the only hypotheses left are about the program and its
facts (`structOkB`, decidable, evaluated by the driver on every case of the tie) and the three
excluded endings of the plain run.  The `arun` stream of the check compares exactly this instance
(at the driver's float numbers) with the real runtime, with and without the real plan. -/
theorem c03_concrete {N : Type} [NumOps N] (cfg : Eval.RunCfg) (root : Block) (facts : Facts) (plan : Plan) (fuel : Nat)
    (hs : structOkB root facts = true) (hsub : plan.sub (planModel root facts) = true)
    (hfuel : (run (evalPrims (N := N) cfg (declScopeOf facts) (stmtScopeOf facts)) none fuel root).1 ≠ .error .fuel)
    (hunb : (run (evalPrims (N := N) cfg (declScopeOf facts) (stmtScopeOf facts)) none fuel root).1 ≠ .error .unbound)
    (hpan : (run (evalPrims (N := N) cfg (declScopeOf facts) (stmtScopeOf facts)) none fuel root).1 ≠ .error .panic) :
    observable (run (evalPrims (N := N) cfg (declScopeOf facts) (stmtScopeOf facts)) (some plan) fuel root) =
      observable (run (evalPrims (N := N) cfg (declScopeOf facts) (stmtScopeOf facts)) none fuel root) :=
  c03_full_holds (Eval.Value N) _ tyE (evalPrims_lawful cfg _ _) root facts plan fuel ⟨rfl, rfl⟩ hs hsub hfuel hunb hpan

/-! ### The shared evaluator model -/

/-- The fragment instantiated with `Eval`'s primitive steps is refined by `Eval` (`BridgeToEval`,
stated in `Lemmas/AnalysisBridge.lean`, proved in `Lemmas/AnalysisRefine*.lean`). -/
theorem c03_bridge : BridgeToEval := bridge_to_eval

theorem fragObs_congr {V : Type} {r1 r2 : R V (Flow V)} (h : observable r1 = observable r2) :
    fragObs r1 = fragObs r2 := by
  obtain ⟨e1, t1⟩ := r1
  obtain ⟨e2, t2⟩ := r2
  simp only [observable, Prod.mk.injEq] at h
  obtain ⟨ho, he⟩ := h
  cases e1 <;> cases e2 <;> simp only [Option.some.injEq, reduceCtorEq] at he <;> simp only [fragObs, ho]
  subst he
  rfl

/-- The converse: every run of `Eval` that does not exhaust its fuel is a run of the fragment. -/
theorem c03_bridge_converse {N : Type} [NumOps N] (cfg : Eval.RunCfg) (ds ss : Nat → Option Nat) (o : Orc)
    (hl : cfg.lookup = .dynamic) (hp : cfg.panics = false) (hin : cfg.input = []) (ho : OrcOk N ds ss o)
    (prog : Block) (plan : Option Plan) (f : Nat) (hok : okBlock o prog = true)
    (hne : evalObs (Eval.run (N := N) { cfg with plan := plan.map toEvalPlan } f prog) ≠ none) :
    ∃ n, fragObs (run (evalPrims (N := N) cfg ds ss) plan n prog) =
      evalObs (Eval.run (N := N) { cfg with plan := plan.map toEvalPlan } f prog) :=
  bridge_from_eval cfg ds ss o hl hp hin ho prog plan f hok hne

/-- A run of `Eval` that ends without exhausting its fuel is matched by a run of the fragment that
does not exhaust its fuel. -/
def TerminationTransfer : Prop :=
  ∀ (N : Type) [NumOps N] (cfg : Eval.RunCfg) (ds ss : Nat → Option Nat) (o : Orc),
    cfg.lookup = .dynamic → cfg.panics = false → cfg.input = [] → OrcOk N ds ss o →
    ∀ (prog : Block) (plan : Option Plan) (f : Nat), okBlock o prog = true →
      evalObs (Eval.run (N := N) { cfg with plan := plan.map toEvalPlan } f prog) ≠ none →
      ∃ n, fragObs (run (evalPrims (N := N) cfg ds ss) plan n prog) ≠ none

theorem c03_termination_transfer : TerminationTransfer := by
  intro N _ cfg ds ss o hl hp hin ho prog plan f hok hne
  obtain ⟨n, hn⟩ := bridge_from_eval cfg ds ss o hl hp hin ho prog plan f hok hne
  exact ⟨n, by rw [hn]; exact hne⟩

/-- **C03 for the shared evaluator model.**  Let `Eval` run the current code (`panics = false`) with
the declaring-scope lookup and no input, on an annotated program whose facts are consistent with it
(`okBlock (orcOf …)`, `structOkB`: decidable, evaluated by the driver on every case of the tie).
If the plain run with fuel `f` ends with the observation `o` — the printed values, and a normal ending
or a runtime error other than `Undefined variable` — then for every plan contained in the model's plan
the pruned run, with enough fuel, ends with the same observation: same printed values, same ending,
same kind of runtime error.  (Runs that exhaust the fuel, crash the interpreter or use a variable
before its declaration are excluded, as in `c03_full`.) -/
theorem c03_eval {N : Type} [NumOps N] (cfg : Eval.RunCfg) (numOk : Bytes → Bool) (root : Block) (facts : Facts)
    (plan : Plan) (f : Nat)
    (hl : cfg.lookup = .dynamic) (hp : cfg.panics = false) (hin : cfg.input = [])
    (hnum : ∀ lex, numOk lex = true → ∃ x : N, NumOps.ofLit lex = some x)
    (hok : okBlock (orcOf numOk facts) root = true)
    (hs : structOkB root facts = true) (hsub : plan.sub (planModel root facts) = true)
    (o : List (Eval.Value N) × Nat)
    (hrun : evalObs (Eval.run (N := N) { cfg with plan := none } f root) = some o)
    (hund : o.2 ≠ 10 + rtCode .undefinedVariable) (hpan : o.2 ≠ 2) :
    ∃ f', evalObs (Eval.run (N := N) { cfg with plan := some (toEvalPlan plan) } f' root) = some o := by
  have ho := orcOf_ok (N := N) numOk facts true hnum
  obtain ⟨n, hn⟩ := bridge_from_eval cfg _ _ _ hl hp hin ho root none f hok
    (by rw [show (none : Option Plan).map toEvalPlan = none from rfl, hrun]; exact fun h => by cases h)
  rw [show (none : Option Plan).map toEvalPlan = none from rfl, hrun] at hn
  -- the three excluded endings of the fragment's plain run
  have hends : (run (evalPrims (N := N) cfg (declScopeOf facts) (stmtScopeOf facts)) none n root).1 ≠ .error .fuel ∧
      (run (evalPrims (N := N) cfg (declScopeOf facts) (stmtScopeOf facts)) none n root).1 ≠ .error .unbound ∧
      (run (evalPrims (N := N) cfg (declScopeOf facts) (stmtScopeOf facts)) none n root).1 ≠ .error .panic := by
    generalize run (evalPrims (N := N) cfg (declScopeOf facts) (stmtScopeOf facts)) none n root = r at hn
    obtain ⟨e, t⟩ := r
    refine ⟨?_, ?_, ?_⟩ <;> intro h <;> simp only at h <;> subst h <;> simp only [fragObs, Option.some.injEq] at hn
    · cases hn
    · exact hund (by rw [← hn])
    · exact hpan (by rw [← hn])
  have hc := c03_concrete (N := N) cfg root facts plan n hs hsub hends.1 hends.2.1 hends.2.2
  obtain ⟨f', hf'⟩ := bridge_to_eval N cfg _ _ _ hl hp hin ho root (some plan) n hok
    (by rw [fragObs_congr hc, hn]; exact fun h => by cases h)
  exact ⟨f', by rw [show (some (toEvalPlan plan)) = (some plan).map toEvalPlan from rfl, hf', fragObs_congr hc, hn]⟩

/-! ### The shipped pipeline -/

section pipeline
open NaijaVerif.Props.C06Accepted (NumLitsParse parsed)
open NaijaVerif.Bridge (isNumLexeme)
open NaijaVerif.PipelinePrune

/-- The side conditions of `c03_eval` on what the front end produced (`a.root`, `a.facts` — the plan
does not occur): the program is annotated and its scope tags are the facts' (`okBlock (orcOf …)`), and
the facts and the model's tables are consistent with the program (`structOkB`).  Decidable. -/
def PipelineSide (a : Pipeline.Accepted) : Prop :=
  okBlock (orcOf isNumLexeme a.facts) a.root = true ∧ structOkB a.root a.facts = true

instance (a : Pipeline.Accepted) : Decidable (PipelineSide a) := by unfold PipelineSide; exact inferInstance

/-- The plain run of an accepted text never panics (C06 for the run without a plan). -/
theorem pipeline_plain_no_panic {N : Type} [NumOps N] (hnum : NumLitsParse N isNumLexeme) (caps : Limits.Caps)
    (cfg : Eval.RunCfg) (hl : cfg.lookup = .dynamic) (hp : cfg.panics = false) (src : Bytes) (a : Pipeline.Accepted)
    (ha : Pipeline.frontEnd caps src = .ok a) (f : Nat) :
    (Eval.run (N := N) { cfg with plan := none } f a.root).isPanic = false := by
  obtain ⟨hroot, hacc⟩ := Props.C06Accepted.frontEnd_ok ha
  rw [hroot]
  exact Props.C06Accepted.c06_source hnum { cfg with plan := none } hp (Or.inl hl) src hacc
    (Props.C06Accepted.planReach_none _ rfl _) f

/-- **C03 for the shipped pipeline** (`Pipeline.frontEnd`: lex → parse → resolve → limit preflight →
analyses; then `Eval.run` with the plan it hands over).  Whatever the source text and the caps: if the
front end accepts the text and the side conditions hold of its result (`PipelineSide`: conditions on
the annotated program and the facts, no plan), and the run WITHOUT a plan ends — within its fuel — with
the observation `o` (printed values; normal ending or a runtime error other than `Undefined variable`),
then the run WITH the plan the front end hands over ends with the same observation `o`, for all
sufficiently large fuel.  For the current code (`lookup = dynamic`, `panics = false`), no input, and
every number type whose `ofLit` accepts the scanner's lexemes (`NumLitsParse`) — with that, a panic of
the plain run is excluded by C06 (`pipeline_plain_no_panic`) instead of by hypothesis. -/
theorem c03_pipeline {N : Type} [NumOps N] (hnum : NumLitsParse N isNumLexeme) (caps : Limits.Caps)
    (cfg : Eval.RunCfg) (hl : cfg.lookup = .dynamic) (hp : cfg.panics = false) (hin : cfg.input = [])
    (src : Bytes) (a : Pipeline.Accepted) (ha : Pipeline.frontEnd caps src = .ok a) (hside : PipelineSide a)
    (f : Nat) (o : List (Eval.Value N) × Nat)
    (hrun : evalObs (Eval.run (N := N) { cfg with plan := none } f a.root) = some o)
    (hund : o.2 ≠ 10 + rtCode .undefinedVariable) :
    ∃ f', ∀ g, f' ≤ g → evalObs (Eval.run (N := N) { cfg with plan := a.plan } g a.root) = some o := by
  obtain ⟨_, _, _, hcase⟩ := frontEnd_shape ha
  rcases hcase with ⟨_, hplan, _⟩ | ⟨_, hplan, _⟩
  · -- below the limits: the plan of the analysis model
    have hpan : o.2 ≠ 2 := by
      intro h2
      have hnp := pipeline_plain_no_panic hnum caps cfg hl hp src a ha f
      generalize Eval.run (N := N) { cfg with plan := none } f a.root = r at hrun hnp
      cases r with
      | ok out => simp only [evalObs, Option.some.injEq] at hrun; rw [← hrun] at h2; cases h2
      | rt k sp out =>
        simp only [evalObs, Option.some.injEq] at hrun; rw [← hrun] at h2
        simp only at h2; omega
      | panic site out => cases hnp
      | fuelOut => cases hrun
    obtain ⟨f', hf'⟩ := c03_eval (N := N) cfg isNumLexeme a.root a.facts (planModel a.root a.facts) f hl hp hin
      (fun lex h => Option.isSome_iff_exists.mp (hnum lex h)) hside.1 hside.2
      (by simp [Plan.sub, subset]) o hrun hund hpan
    refine ⟨f', fun g hg => ?_⟩
    rw [hplan]
    exact evalObs_mono _ hg _ hf'
  · -- above a limit: no plan, the same run
    refine ⟨f, fun g hg => ?_⟩
    rw [hplan]
    exact evalObs_mono _ hg _ hrun

end pipeline

/-! ### The side conditions are theorems about the resolver model (as far as they are true) -/

section resolver
open NaijaVerif.Props.C06Accepted (NumLitsParse parsed)
open NaijaVerif.Bridge (isNumLexeme)
open NaijaVerif.PipelinePrune
open NaijaVerif.ResolveStruct (structProvedB structRestB ownWalkB structRest2B)

/-- **The bridge condition holds of every accepted output of the resolver model** whose input has number
lexemes accepted by `numOk` (the scanner's guarantee): every reference, target, parameter, statement and
user call is annotated (`resolve_wellScoped`, `resolve_num`, `resolve_ok`), the scope tag of every block
and parameter list is the declaring scope of exactly its own declarations, and the definitions of a
block carry distinct ids (`Lemmas/ResolveStructScopeWalk.lean`). -/
theorem resolve_okBlock (numOk : Bytes → Bool) (q : Block) (hsrc : Bridge.srcBlock ⟨[], numOk, false, none⟩ q = true)
    (h : (Resolve.resolve q).rdiags = []) :
    okBlock (orcOf numOk (Resolve.resolve q).facts) (Resolve.resolve q).root = true :=
  ResolveStruct.resolveWith_okBlock numOk true q hsrc h

/-- `structOkB` is the conjunction of a part proved of the resolver model (`structProvedB`: distinct
statement ids and ALL of `globalOkB` — `brClosed`, `usedOkB`, `sumOkB`, `slOkB`, `scOwnB`) and a remaining
part (`structRestB`: the statement-by-statement conditions `rootOkB` for the empty plan). -/
theorem structOkB_split (root : Block) (facts : Facts) :
    structOkB root facts = (structProvedB root facts && structRestB root facts) :=
  ResolveStruct.structOkB_split root facts

/-- **The proved part**, for every accepted output of the resolver model. -/
theorem resolve_structProved (q : Block) (h : (Resolve.resolve q).rdiags = []) :
    structProvedB (Resolve.resolve q).root (Resolve.resolve q).facts = true :=
  ResolveStruct.resolveWith_structProved true q h

/-- **`globalOkB`**, for every accepted output of the resolver model. -/
theorem resolve_globalOk (q : Block) (h : (Resolve.resolve q).rdiags = []) :
    globalOkB (Resolve.resolve q).root (Resolve.resolve q).facts = true :=
  ResolveStruct.resolveWith_globalOk true q h

/-- `usedOkB` needs no resolver: it holds of every program and all facts. -/
theorem usedOk_always (root : Block) (facts : Facts) : usedOkB (mkCtx root facts) = true :=
  ResolveStruct.usedOkB_holds _

/-- **`structOkB` of an accepted output of the resolver model** from the remaining conjuncts alone. -/
theorem resolve_structOk (q : Block) (h : (Resolve.resolve q).rdiags = [])
    (hrest : structRestB (Resolve.resolve q).root (Resolve.resolve q).facts = true) :
    structOkB (Resolve.resolve q).root (Resolve.resolve q).facts = true :=
  ResolveStruct.resolveWith_structOk true q h hrest

/-- The remaining part, split once more: the statement walk `lokListB` with its atomic conditions as a
parameter (`lokG`, `Lemmas/ResolveStructLok.lean`) is the conjunction of the walk over the atoms that
`ownOkB` proves (`ownWalkB`: the facts of every statement name its function and cover the user calls of
its own expressions) and the walk over the remaining atoms together with the top-level scope condition
(`structRest2B`). -/
theorem structRestB_split (root : Block) (facts : Facts) :
    structRestB root facts = (ownWalkB root facts && structRest2B root facts) :=
  ResolveStruct.structRestB_split root facts

/-- **The walk over the proved atoms** succeeds on every output of the resolver model. -/
theorem resolve_ownWalk (q : Block) : ownWalkB (Resolve.resolve q).root (Resolve.resolve q).facts = true :=
  ResolveStruct.resolveWith_ownWalk true q

/-- **`structOkB` of an accepted output of the resolver model** from `structRest2B` alone. -/
theorem resolve_structOk2 (q : Block) (h : (Resolve.resolve q).rdiags = [])
    (hrest : structRest2B (Resolve.resolve q).root (Resolve.resolve q).facts = true) :
    structOkB (Resolve.resolve q).root (Resolve.resolve q).facts = true :=
  ResolveStruct.resolveWith_structOk2 true q h hrest

/-- A store whose initialiser calls a mutating method (`make b get a.pop()`): the resolver records the
receiver `a` as written BEFORE the target `b`, so `writes` of the statement is `[a, b]`. -/
def receiverWriteText : Bytes := b!"make a get [1]\nmake b get a.pop()\nshout(b)\nshout(a)"

/-- **The remaining part is not a theorem about the resolver model as it stands**: `receiverWriteText` is
accepted, but `structRestB` and `structRest2B` (hence `structOkB`) are false of the resolver's output — the rule for a store
to an own variable (`ownStoreB`) asks for `writes = [target]`.  Neither the pruning nor the verdicts are
wrong on such programs: the initialiser is `Impure`, so the store is never removed, and the
unused-assignment verdict that `liveness.rs` attaches to `op.writes.first()` (here the receiver `a`) says
something true of `a`.  The hypothesis is merely stronger than what the resolver delivers; the conjunct
stays in `structRest2B`. -/
theorem structRest_fails_on_accepted :
    (Resolve.resolve (parsed receiverWriteText)).rdiags = [] ∧
    structRestB (Resolve.resolve (parsed receiverWriteText)).root (Resolve.resolve (parsed receiverWriteText)).facts = false ∧
    structRest2B (Resolve.resolve (parsed receiverWriteText)).root (Resolve.resolve (parsed receiverWriteText)).facts = false ∧
    ((Resolve.resolve (parsed receiverWriteText)).facts.stmtEffects.map (·.writes))[1]? = some [0, 1] := by
  decide +kernel

/-- The side conditions of `c03_pipeline`, from the remaining part `structRest2B` alone: the bridge condition and
the proved part of `structOkB` hold of whatever `Pipeline.frontEnd` accepts. -/
theorem pipelineSide_of_rest {caps : Limits.Caps} {src : Bytes} {a : Pipeline.Accepted}
    (ha : Pipeline.frontEnd caps src = .ok a) (hrest : structRest2B a.root a.facts = true) : PipelineSide a := by
  obtain ⟨hroot, hfacts, hrd, _⟩ := frontEnd_shape ha
  rw [hroot, hfacts] at hrest
  unfold PipelineSide
  rw [hroot, hfacts]
  exact ⟨resolve_okBlock isNumLexeme (parsed src)
      (Bridge.parse_source_ok ⟨[], isNumLexeme, false, none⟩ Bridge.isNumLexeme_zero _ (Bridge.lex_numbers src)) hrd,
    resolve_structOk2 (parsed src) hrd hrest⟩

/-- **C03 for the shipped pipeline, with the proved side conditions discharged**: as `c03_pipeline`, but
the only hypothesis about the front end's result that is left is `structRest2B a.root a.facts` — the part
of `structOkB` not proved of the resolver model (of `rootOkB` for the empty plan: the top-level scope
condition and the walk over the atoms other than owner / callees).  The bridge condition
`okBlock (orcOf …)`, distinct statement ids, `globalOkB` and the owner / callee atoms are theorems. -/
theorem c03_pipeline_rest {N : Type} [NumOps N] (hnum : NumLitsParse N isNumLexeme) (caps : Limits.Caps)
    (cfg : Eval.RunCfg) (hl : cfg.lookup = .dynamic) (hp : cfg.panics = false) (hin : cfg.input = [])
    (src : Bytes) (a : Pipeline.Accepted) (ha : Pipeline.frontEnd caps src = .ok a)
    (hrest : structRest2B a.root a.facts = true)
    (f : Nat) (o : List (Eval.Value N) × Nat)
    (hrun : evalObs (Eval.run (N := N) { cfg with plan := none } f a.root) = some o)
    (hund : o.2 ≠ 10 + rtCode .undefinedVariable) :
    ∃ f', ∀ g, f' ≤ g → evalObs (Eval.run (N := N) { cfg with plan := a.plan } g a.root) = some o :=
  c03_pipeline hnum caps cfg hl hp hin src a ha (pipelineSide_of_rest ha hrest) f o hrun hund

end resolver

/-! ### Non-vacuity -/

/-- `return` followed by a statement: the second statement is unreachable, ids are distinct, and
the plan `{1}` satisfies the hypotheses of `c03_partial`. -/
def demo : Block :=
  .mk [.ret none (some 0) ⟨0, 6⟩, .expr (.null ⟨7, 11⟩) (some 1) ⟨7, 11⟩] ⟨0, 11⟩

example : unreachable demo = [1] := by decide
example : SidsDistinct demo := by unfold SidsDistinct; decide
example : ∀ i ∈ (⟨[1], []⟩ : Plan).stmts, i ∈ unreachable demo := by decide
def demoFacts : Facts where
  functions := [default]
  stmtEffects := [default, default]
  functionDirects := [⟨[], [], []⟩]

example : (planModel demo demoFacts).stmts = [1] := by decide


/-- `make x get 1  shout(0)`: the model's plan removes the declaration of the never-read `x`; the
hypotheses of `c03_partial_checked` hold for exactly that plan (with `D1 = D2 = {x}`). -/
def demo2 : Block :=
  .mk [.assign [120] ⟨5, 6⟩ (.num [49] ⟨11, 12⟩) (some 0) (some 0) ⟨0, 12⟩,
       .expr (.call (.var [115, 104, 111, 117, 116] none ⟨13, 18⟩) [.num [48] ⟨19, 20⟩] none ⟨13, 21⟩) (some 1) ⟨13, 21⟩] ⟨0, 21⟩

def demo2Facts : Facts where
  functions := [default]
  scopes := [⟨none, 0⟩]
  scopeLocals := [[0]]
  locals := [⟨[120], 0, 0, some 0, .variable⟩]
  stmtEffects := [⟨0, 0, [], [0], [], .pureNoTrap⟩, ⟨0, 0, [], [], [], .impure⟩]
  functionDirects := [⟨[], [], []⟩]

example : planModel demo2 demo2Facts = ⟨[0], []⟩ := by decide
example : SidsDistinct demo2 := by unfold SidsDistinct; decide
example : (mkCtx demo2 demo2Facts).brClosed = true := by decide
example : sokListB (setupOf demo2 demo2Facts (some ⟨[0], []⟩) (fun l => l == 0) (fun l => l == 0))
    (safeB demo2Facts) 0 demo2.stmts = true := by decide
/-- and the ownership / callee-consistency hypothesis of T3 -/
example : sokListB (setupOf demo2 demo2Facts none (fun _ => false) (fun _ => false))
    (fun _ _ => false) 0 demo2.stmts = true := by decide

/-- `make x get 1  x get 2  x get 3  shout(x)`: `x` IS read, but the value stored by `x get 2` is not
(liveness proper): the model's plan removes exactly that statement, and all decidable conditions of
`c03_full_checked` hold for the program. -/
def demo3 : Block :=
  .mk [.assign [120] ⟨5, 6⟩ (.num [49] ⟨11, 12⟩) (some 0) (some 0) ⟨0, 12⟩,
       .assignExisting [120] ⟨13, 14⟩ (.num [50] ⟨19, 20⟩) (some 0) (some 1) ⟨13, 20⟩,
       .assignExisting [120] ⟨21, 22⟩ (.num [51] ⟨27, 28⟩) (some 0) (some 2) ⟨21, 28⟩,
       .expr (.call (.var [115, 104, 111, 117, 116] none ⟨29, 34⟩) [.var [120] (some 0) ⟨35, 36⟩] none ⟨29, 37⟩) (some 3) ⟨29, 37⟩] ⟨0, 37⟩

def demo3Facts : Facts where
  functions := [default]
  scopes := [⟨none, 0⟩]
  scopeLocals := [[0]]
  locals := [⟨[120], 0, 0, some 0, .variable⟩]
  stmtEffects := [⟨0, 0, [], [0], [], .pureNoTrap⟩, ⟨0, 0, [], [0], [], .pureNoTrap⟩, ⟨0, 0, [], [0], [], .pureNoTrap⟩,
                  ⟨0, 0, [0], [], [], .impure⟩]
  functionDirects := [⟨[], [], []⟩]

example : planModel demo3 demo3Facts = ⟨[1], []⟩ := by decide
example : structOkB demo3 demo3Facts = true := by decide

/-- Non-vacuity of `c03_concrete` (toy `Int` numbers, `Lemmas/EvalToy.lean`): on `demo3` the plan
`{1}` is contained in the model's plan, the plain run ends normally and prints `3`; the pruned run
really skips statement 1 (the traces differ) — and prints the same. -/
def demo3Prims : Prims (Eval.Value Int) := evalPrims Eval.Toy.cfg (declScopeOf demo3Facts) (stmtScopeOf demo3Facts)

example : (⟨[1], []⟩ : Plan).sub (planModel demo3 demo3Facts) = true := by decide
example : (run demo3Prims none 20 demo3).1 = .ok .normal := rfl
example : (run demo3Prims none 20 demo3).2.trace = [3, 2, 1, 0] := rfl
example : (run demo3Prims (some ⟨[1], []⟩) 20 demo3).2.trace = [3, 2, 0] := rfl
example : observable (run demo3Prims none 20 demo3) = ([.num 3], none) := rfl
example : observable (run demo3Prims (some ⟨[1], []⟩) 20 demo3) = ([.num 3], none) := by
  rw [show run demo3Prims (some ⟨[1], []⟩) 20 demo3 =
      run (evalPrims Eval.Toy.cfg (declScopeOf demo3Facts) (stmtScopeOf demo3Facts)) (some ⟨[1], []⟩) 20 demo3 from rfl,
    c03_concrete Eval.Toy.cfg demo3 demo3Facts ⟨[1], []⟩ 20 (by decide) (by decide)
      (by intro h; cases h) (by intro h; cases h) (by intro h; cases h)]
  rfl

/-- Non-vacuity of `c03_eval` / `c03_bridge` on `demo3`: the static side conditions of the bridge hold
(the oracle computed from the facts), and the two runs of `Eval` the theorem speaks about are these. -/
def toyNumOk (lex : Bytes) : Bool := (Eval.Toy.ofLit lex).isSome

example : okBlock (orcOf toyNumOk demo3Facts) demo3 = true := by decide
example : ∀ lex, toyNumOk lex = true → ∃ x : Int, NumOps.ofLit lex = some x := by
  intro lex h
  exact Option.isSome_iff_exists.mp h
example : evalObs (Eval.run (N := Int) { Eval.Toy.cfg with plan := none } 20 demo3) = some ([.num 3], 0) := rfl
example : evalObs (Eval.run (N := Int) { Eval.Toy.cfg with plan := some (toEvalPlan ⟨[1], []⟩) } 20 demo3) =
    some ([.num 3], 0) := rfl
/-- All hypotheses of `c03_eval` hold on `demo3` with the plan `{1}`. -/
example : ∃ f', evalObs (Eval.run (N := Int) { Eval.Toy.cfg with plan := some (toEvalPlan ⟨[1], []⟩) } f' demo3) =
    some ([.num 3], 0) :=
  c03_eval (N := Int) Eval.Toy.cfg toyNumOk demo3 demo3Facts ⟨[1], []⟩ 20 rfl rfl rfl
    (fun _ h => Option.isSome_iff_exists.mp h) (by decide) (by decide) (by decide) ([.num 3], 0) rfl (by decide) (by decide)

/-- A primitive semantics in which the literal `1` fails: not `Lawful`. -/
def badPrims : Prims Unit where
  null := ()
  node := fun e _ => match e with | .num [49] _ => .error (.rt 0) | _ => .ok ()
  falsy := fun _ => false
  truthy := fun _ => false
  logicRhs := fun _ => .ok ()
  logicShort := fun _ => ()
  cond := fun _ => .ok true
  isGlobal := fun n => n == [115, 104, 111, 117, 116]
  isShout := fun n => n == [115, 104, 111, 117, 116]
  global := fun _ _ => .ok ()
  isMut := fun _ => false
  memberSel := fun _ _ => .ok []
  member := fun _ _ _ => .ok ()
  argMissing := .rt 0
  mutSteps := fun _ => []
  mutMember := fun _ _ _ _ => .ok ((), ())
  setPath := fun _ _ _ => .ok ()
  idx := fun v => .ok v
  lvErr := .rt 0
  dscope := fun _ => none
  sscope := fun _ => none

/-- Without the laws about the primitive operations the statement is false: with `badPrims` the
plain run of `make x get 1  shout(0)` ends in an error at the declaration the plan removes. -/
theorem c03_full_raw_is_false : ¬ c03_full_raw := by
  intro h
  have e1 : (run badPrims none 10 demo2).1 = .error (.rt 0) := rfl
  have e2 : (run badPrims (some ⟨[0], []⟩) 10 demo2).1 = .ok .normal := rfl
  have o1 : observable (run badPrims none 10 demo2) = ([], some (.rt 0)) := rfl
  have o2 : observable (run badPrims (some ⟨[0], []⟩) 10 demo2) = ([()], none) := rfl
  have := h Unit badPrims demo2 demo2Facts ⟨[0], []⟩ 10 (by decide) (by decide)
    (by rw [e1]; intro hh; cases hh) (by rw [e2]; intro hh; cases hh)
  rw [o1, o2] at this
  cases this

/-- A toy primitive semantics that satisfies `Lawful`: a value is its literal type, if it has one.
(Non-vacuity of the hypothesis of `c03_full`; the runtime's own operators are argued to satisfy the
laws in `Lemmas/AnalysisBridge.lean`.) -/
def toyPrims : Prims (Option LTy) where
  null := some .null
  node := fun e vs =>
    match e, vs with
    | .num _ _, _ => .ok (some .num)
    | .bool _ _, _ => .ok (some .bool)
    | .null _, _ => .ok (some .null)
    | .str _ _, _ => .ok (some .str)
    | .array _ _, _ => .ok none
    | .unary op _ _, [some a] => match litUnary op a with | some t => .ok (some t) | none => .error (.rt 0)
    | .binary op _ _ _, [some a, some b] => match litBinary op a b with | some t => .ok (some t) | none => .error (.rt 0)
    | _, _ => .error (.rt 0)
  falsy := fun _ => false
  truthy := fun _ => false
  logicRhs := fun v => match v with | some .bool | some .null => .ok (some .bool) | _ => .error (.rt 0)
  logicShort := fun _ => some .bool
  cond := fun v => match v with | some .bool | some .null => .ok true | _ => .error (.rt 0)
  isGlobal := fun n => (globalClass n).isSome
  isShout := fun n => globalClass n == some .impure
  global := fun _ _ => .ok none
  isMut := fun f => memberClass f == some .impure
  memberSel := fun _ _ => .error (.rt 0)
  member := fun _ _ _ => .error (.rt 0)
  argMissing := .rt 0
  mutSteps := fun _ => []
  mutMember := fun _ _ _ _ => .error (.rt 0)
  setPath := fun _ _ _ => .error (.rt 0)
  idx := fun v => .ok v
  lvErr := .rt 0
  dscope := fun _ => none
  sscope := fun _ => none

theorem toyPrims_lawful : Lawful toyPrims (fun v t => v = some t) where
  global_iff := fun _ => rfl
  shout_impure := fun name h => by simpa [toyPrims] using h
  mut_impure := fun f h => by simpa [toyPrims] using h
  num := fun _ _ => ⟨_, rfl, rfl⟩
  bool := fun _ _ => ⟨_, rfl, rfl⟩
  null := fun _ => ⟨_, rfl, rfl⟩
  str := fun _ _ _ => ⟨_, rfl, rfl⟩
  array := fun _ _ _ => ⟨_, rfl⟩
  unary := by
    intro op x sp a ta t ha ht
    subst ha
    exact ⟨some t, by simp [toyPrims, ht], rfl⟩
  binary := by
    intro op l r sp a b ta tb t _ _ _ ha hb ht
    subst ha; subst hb
    exact ⟨some t, by simp [toyPrims, ht], rfl⟩
  logicShort := fun _ => rfl
  logicRhs := by
    intro b tb hb htb
    subst hb
    rcases htb with rfl | rfl <;> exact ⟨_, rfl, rfl⟩
  pureGlobal := fun _ _ _ _ => ⟨_, rfl⟩
  command := fun _ _ => ⟨_, rfl⟩
  cond := by
    intro v hv
    rcases hv with rfl | rfl <;> exact ⟨true, rfl⟩

/-! ### Non-vacuity of `c03_pipeline` -/

section pipeline_examples
open NaijaVerif.Props.C06Accepted (parsed trivialNum ranSummary)
open NaijaVerif.PipelinePrune

/-- The TEXT `make x get 1  x get 2  x get 3  shout(x)` through `Pipeline.frontEnd`: accepted, the plan
handed to the runtime removes statement 1, and `PipelineSide` holds of the result. -/
example :
    (Pipeline.frontEnd roomyCaps prunedText).toOption.map (fun a => (a.plan.map (·.stmts), decide (PipelineSide a))) =
      some (some [1], true) := by
  decide +kernel

/-- An instance of `c03_pipeline` on that text (numbers: `trivialNum`, for which `NumLitsParse` holds):
all hypotheses are discharged. -/
example : ∃ a o f', Pipeline.frontEnd roomyCaps prunedText = .ok a ∧ a.plan.map (·.stmts) = some [1] ∧ ∀ g, f' ≤ g →
    evalObs (@Eval.run Unit trivialNum { Eval.Toy.cfg with plan := a.plan } g a.root) = some o := by
  cases h : Pipeline.frontEnd roomyCaps prunedText with
  | error e =>
    have : (Pipeline.frontEnd roomyCaps prunedText).toOption.isSome = true := by decide +kernel
    rw [h] at this; cases this
  | ok a =>
    have hside : PipelineSide a ∧ a.plan.map (·.stmts) = some [1] := by
      have : (Pipeline.frontEnd roomyCaps prunedText).toOption.all
          (fun a => decide (PipelineSide a) && decide (a.plan.map (·.stmts) = some [1])) = true := by
        decide +kernel
      rw [h] at this; simpa [Except.toOption] using this
    have hroot := (frontEnd_shape h).1
    obtain ⟨o, ho, ho2⟩ : ∃ o, evalObs (@Eval.run Unit trivialNum { Eval.Toy.cfg with plan := none } 30 a.root) = some o ∧
        o.2 = 0 := by
      rw [hroot]
      exact evalObs_endsOk (by decide +kernel)
    obtain ⟨f', hf'⟩ := @c03_pipeline Unit trivialNum (fun _ _ => rfl) roomyCaps Eval.Toy.cfg rfl rfl rfl prunedText a h
      hside.1 30 o ho (by rw [ho2]; decide)
    exact ⟨a, o, f', rfl, hside.2, hf'⟩

/-- … and of `c03_pipeline_rest`: the remaining hypothesis `structRest2B` holds of that text. -/
example :
    (Pipeline.frontEnd roomyCaps prunedText).toOption.map
      (fun a => ResolveStruct.structRest2B a.root a.facts) = some true := by
  decide +kernel

end pipeline_examples

end NaijaVerif.C03
