import NaijaVerif.Model.Analysis
import NaijaVerif.Model.AnalysisEval
import NaijaVerif.Lemmas.AnalysisReach
import NaijaVerif.Lemmas.AnalysisSim
import NaijaVerif.Lemmas.AnalysisPure
/-
C03 — analysis-driven pruning never changes what a program does.

Model of the analyses: `Model/Analysis.lean` (tied to `/repo` by the `plan` stream).  Evaluator:
the fragment `Model/AnalysisEval.lean` (control flow, scopes, hoisting, calls, plan skipping; what a
primitive operation computes is abstract, so every theorem holds for all primitive semantics).

Proved here, for every program, every primitive semantics and every amount of fuel:
* `t1_unreachable_never_executes` — a statement the analysis calls unreachable is never executed;
* `t1_completes_normally_only_if_fallthrough` — the structural fall-through flag is sound;
* `c03_partial` — a plan that only contains statements the model calls unreachable (any subset,
  so a more conservative implementation is covered) gives *exactly* the same run: same output, same
  ending, same final state, same executed statements;
* `c03_partial_planModel` — the same for any plan contained in the unreachable part of the model's plan;
* facts about the model used by the tie (`plan_contains_unreachable`, `afterStmts_false`).
Stated, not proved (`c03_full`): the theorem for every plan contained in the model's whole plan
(dead stores, unused declarations, unused functions); until then that part rests on the tie and on
the plan / no-plan differential of the check.
-/
namespace NaijaVerif.C03
open NaijaVerif NaijaVerif.Analysis NaijaVerif.AEval

/-! ### Reachability facts about the model -/

mutual
  /-- Once a point is unreachable the rest of the sequence is. -/
  theorem afterStmt_false : ∀ s : Stmt, afterStmt false s = false
    | .ret _ _ _ | .brk _ _ | .cont _ _ => by simp [afterStmt]
    | .block (.mk b _) _ _ => by simp [afterStmt, afterStmts_false b]
    | .ifS _ (.mk t _) none _ _ => by simp [afterStmt, afterStmts_false t]
    | .ifS _ (.mk t _) (some (.mk e _)) _ _ => by simp [afterStmt, afterStmts_false t, afterStmts_false e]
    | .fnDef .. | .assign .. | .assignExisting .. | .assignIndex .. | .loop .. | .expr .. => by simp [afterStmt]
  theorem afterStmts_false : ∀ ss : List Stmt, afterStmts false ss = false
    | [] => by simp [afterStmts]
    | s :: ss => by simp [afterStmts, afterStmt_false s, afterStmts_false ss]
end

/-- Statement ids are distinct (the resolver numbers statements consecutively; `wf` checks it). -/
def SidsDistinct (root : Block) : Prop := ((rows root).map (·.sid)).Nodup

theorem eq_of_nodup_map {α β : Type} {f : α → β} : ∀ {l : List α}, (l.map f).Nodup →
    ∀ a ∈ l, ∀ b ∈ l, f a = f b → a = b
  | [], _, a, ha, _, _, _ => by cases ha
  | x :: xs, h, a, ha, b, hb, hab => by
      simp only [List.map_cons, List.nodup_cons, List.mem_map, not_exists, not_and] at h
      rcases List.mem_cons.mp ha with rfl | ha' <;> rcases List.mem_cons.mp hb with rfl | hb'
      · rfl
      · exact absurd hab.symm (h.1 b hb')
      · exact absurd hab (h.1 a ha')
      · exact eq_of_nodup_map h.2 a ha' b hb' hab

/-- With distinct ids no statement is recorded both reachable and unreachable. -/
theorem tbl_functional {root : Block} (hd : SidsDistinct root) {i : Nat} (ht : (i, true) ∈ tbl root) :
    (i, false) ∉ tbl root := by
  intro hf
  simp only [tbl, List.mem_map] at ht hf
  obtain ⟨r1, h1, e1⟩ := ht
  obtain ⟨r2, h2, e2⟩ := hf
  have hs : r1.sid = r2.sid := by
    have a := congrArg Prod.fst e1
    have b := congrArg Prod.fst e2
    simp at a b
    omega
  have := eq_of_nodup_map hd r1 h1 r2 h2 hs
  subst this
  have a := congrArg Prod.snd e1
  have b := congrArg Prod.snd e2
  simp at a b
  rw [a] at b
  cases b

theorem mem_unreachable {root : Block} {i : Nat} : i ∈ unreachable root ↔ (i, false) ∈ tbl root := by
  simp only [unreachable, tbl, List.mem_map, List.mem_filter]
  constructor
  · rintro ⟨r, ⟨hr, hl⟩, rfl⟩
    refine ⟨r, hr, ?_⟩
    cases h : r.live <;> simp_all
  · rintro ⟨r, hr, he⟩
    have a := congrArg Prod.fst he
    have b := congrArg Prod.snd he
    simp at a b
    exact ⟨r, ⟨hr, by simp [b]⟩, a⟩

/-! ### T1 -/

theorem inv_init (T : List (Nat × Bool)) (V : Type) : Inv T (St.init V) := by
  constructor
  · intro sc hsc fd hfd
    simp [St.init] at hsc
    subst hsc
    cases hfd
  · intro i hi
    simp [St.init] at hi

/-- **T1.** Whatever the primitive operations do and however long the run lasts (including runs
that end in an error), no statement the analysis calls unreachable is ever executed. -/
theorem t1_unreachable_never_executes {V : Type} (P : Prims V) (root : Block) (fuel : Nat)
    (hd : SidsDistinct root) :
    ∀ i ∈ (run P none fuel root).2.trace, i ∉ unreachable root := by
  intro i hi hu
  have hm := (main_all P (plain_harmless (tbl root)) fuel).block root.stmts (St.init V) (cons_root root)
    (inv_init _ V)
  have hinv : Inv (tbl root) (run P none fuel root).2 := hm.2.1
  exact tbl_functional hd (hinv.2 i hi) (mem_unreachable.mp hu)

/-- The fall-through flag is sound: the top-level block completes normally only if the analysis
considers its end reachable. -/
theorem t1_completes_normally_only_if_fallthrough {V : Type} (P : Prims V) (root : Block) (fuel : Nat) :
    (run P none fuel root).1 = .ok .normal → afterStmts true root.stmts = true :=
  ((main_all P (plain_harmless (tbl root)) fuel).block root.stmts (St.init V) (cons_root root)
    (inv_init _ V)).2.2

/-! ### The plan theorem -/

/-- The full-strength statement (for the model of the fixed analyses): every plan contained in the
model's plan leaves what a run prints and how it ends unchanged, unless the run is cut short by the
fuel (stack / time budget).  Not yet proved beyond `c03_partial`. -/
def c03_full : Prop :=
  ∀ (V : Type) (P : Prims V) (root : Block) (facts : Facts) (plan : Plan) (fuel : Nat),
    wf root facts = true → plan.sub (planModel root facts) = true →
    (run P none fuel root).1 ≠ .error .fuel → (run P (some plan) fuel root).1 ≠ .error .fuel →
    observable (run P (some plan) fuel root) = observable (run P none fuel root)

theorem harmless_of_unreachable {root : Block} (hd : SidsDistinct root) {plan : Plan}
    (hs : ∀ i ∈ plan.stmts, i ∈ unreachable root) (hf : plan.fns = []) :
    Harmless (tbl root) (Cfg.ofPlan (some plan)) := by
  constructor
  · intro i hi
    simp only [Cfg.ofPlan]
    cases hc : plan.stmts.contains i with
    | false => rfl
    | true =>
      have : i ∈ plan.stmts := by simpa using hc
      exact absurd (mem_unreachable.mp (hs i this)) (tbl_functional hd hi)
  · intro f
    simp [Cfg.ofPlan, hf]

/-- **C03, partial.** A plan made of statements the model calls unreachable — any subset of them —
does not change the run at all: same values printed, same ending, same final state, same statements
executed, for every primitive semantics and every amount of fuel (so also for runs that end in an
error or run out of fuel). -/
theorem c03_partial {V : Type} (P : Prims V) (root : Block) (plan : Plan) (fuel : Nat)
    (hd : SidsDistinct root) (hs : ∀ i ∈ plan.stmts, i ∈ unreachable root) (hf : plan.fns = []) :
    run P (some plan) fuel root = run P none fuel root :=
  ((main_all P (harmless_of_unreachable hd hs hf) fuel).block root.stmts (St.init V) (cons_root root)
    (inv_init _ V)).1

/-- The unreachable statements are part of the model's plan … -/
theorem plan_contains_unreachable (root : Block) (facts : Facts) :
    ∀ i ∈ unreachable root, i ∈ (planModel root facts).stmts := by
  intro i hi
  simp only [planModel, analyse]
  have key : ∀ (a b : List Nat), i ∈ a → i ∈ uni a b := by
    intro a b
    induction a with
    | nil => intro h; cases h
    | cons x xs ih =>
      intro h
      simp only [uni, List.foldr_cons, ins]
      rcases List.mem_cons.mp h with rfl | h'
      · split
        · next hc => simpa using hc
        · simp
      · have := ih h'
        simp only [uni] at this
        split
        · exact this
        · exact List.mem_cons_of_mem _ this
  exact key _ _ hi

/-- … and the observable behaviour (what the property compares) is unchanged by any plan drawn from
that part of the model's plan. -/
theorem c03_partial_observable {V : Type} (P : Prims V) (root : Block) (plan : Plan) (fuel : Nat)
    (hd : SidsDistinct root) (hs : ∀ i ∈ plan.stmts, i ∈ unreachable root) (hf : plan.fns = []) :
    observable (run P (some plan) fuel root) = observable (run P none fuel root) := by
  rw [c03_partial P root plan fuel hd hs hf]

/-- With the plan, unreachable statements stay unexecuted as well (T1 for the pruned run). -/
theorem t1_with_plan {V : Type} (P : Prims V) (root : Block) (plan : Plan) (fuel : Nat)
    (hd : SidsDistinct root) (hs : ∀ i ∈ plan.stmts, i ∈ unreachable root) (hf : plan.fns = []) :
    ∀ i ∈ (run P (some plan) fuel root).2.trace, i ∉ unreachable root := by
  rw [c03_partial P root plan fuel hd hs hf]
  exact t1_unreachable_never_executes P root fuel hd


/-! ### T2 (effect class), state half -/

/-- **T2, state half.** An expression the (fixed) classification does not call `Impure` and that
calls no user function changes nothing: not the variables, not the function scopes, not the output,
whatever value or error it produces — for every primitive semantics whose builtin dispatch agrees
with the effect tables (`TablesAgree`).  User calls are accounted for per statement through the
summaries (`effClass`); the no-trap half needs the runtime's operator tables and is covered by the
tie (`cls=`) and the differential with trapping initialisers. -/
theorem t2_no_effect {V : Type} (P : Prims V) (ha : TablesAgree P) (cfg : Cfg) (e : Expr) (n : Nat) (st : St V)
    (hc : classify e ≠ .impure) (hn : noUserCall e = true) :
    (evalExpr P cfg n e st).2 = st :=
  (pure_all P cfg n).expr e st (effectFree_of_class ha e hc hn)

/-- Corollary for a pruned initialiser: skipping `make x get e` (or `x get e`) with such an `e`
can only be noticed through the variable `x`: executing it leaves the output, the function scopes
and the statement trace untouched. -/
theorem t2_pruned_initialiser {V : Type} (P : Prims V) (ha : TablesAgree P) (cfg : Cfg) (n : Nat) (st : St V)
    (v : Bytes) (vs : Span) (e : Expr) (b sid : Option Nat) (sp : Span)
    (hc : classify e ≠ .impure) (hn : noUserCall e = true) :
    let st' := (execStmt P cfg n (.assign v vs e b sid sp) st).2
    st'.out = st.out ∧ st'.fns = st.fns ∧ st'.trace = st.trace ∧ st'.looked = st.looked := by
  cases n with
  | zero => simp [execStmt]
  | succ n =>
    have h1 := t2_no_effect P ha cfg e n st hc hn
    simp only [execStmt]
    generalize evalExpr P cfg n e st = r at h1 ⊢
    obtain ⟨r1, st1⟩ := r
    simp only at h1
    subst h1
    cases r1 with
    | error er => simp
    | ok val => cases b <;> simp

/-! ### Non-vacuity -/

/-- `return` followed by a statement: the second statement is unreachable, ids are distinct, and
the plan `{1}` satisfies the hypotheses of `c03_partial`. -/
def demo : Block :=
  .mk [.ret none (some 0) ⟨0, 6⟩, .expr (.null ⟨7, 11⟩) (some 1) ⟨7, 11⟩] ⟨0, 11⟩

example : unreachable demo = [1] := by decide
example : SidsDistinct demo := by unfold SidsDistinct; decide
example : ∀ i ∈ (⟨[1], []⟩ : Plan).stmts, i ∈ unreachable demo := by decide
def demoFacts : Facts where
  functions := [default]
  stmtEffects := [default, default]
  functionDirects := [⟨[], [], []⟩]

example : (planModel demo demoFacts).stmts = [1] := by decide

end NaijaVerif.C03
