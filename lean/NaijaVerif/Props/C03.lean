import NaijaVerif.Model.Analysis
import NaijaVerif.Model.AnalysisEval
import NaijaVerif.Lemmas.AnalysisReach
import NaijaVerif.Lemmas.AnalysisSim
import NaijaVerif.Lemmas.AnalysisPure
import NaijaVerif.Lemmas.AnalysisRelStep
import NaijaVerif.Lemmas.AnalysisNoTrap
import NaijaVerif.Lemmas.AnalysisCheck
/-
C03 — analysis-driven pruning never changes what a program does.

Model of the analyses: `Model/Analysis.lean` (tied to `/repo` by the `plan` stream).  Evaluator:
the fragment `Model/AnalysisEval.lean` (control flow, scopes, hoisting, calls, plan skipping; what a
primitive operation computes is abstract, so every theorem holds for all primitive semantics).

Proved here, for every program, every primitive semantics and every amount of fuel:
* T1 `t1_unreachable_never_executes`, `t1_completes_normally_only_if_fallthrough`;
* `c03_partial` — a plan of unreachable statements (any subset) gives *exactly* the same run;
* T2 `t2_no_effect` (state half), `t2_no_trap` (no-trap half, under the laws `Lawful` about the
  primitive operations), `t2_quiet` (both), `t2_pruned_initialiser`;
* T3 `t3_unused_function_never_looked_up` (hypotheses `BRClosed`, `OwnOk`, both decidable and
  evaluated by the driver on every case of the tie);
* T4 + the flow-insensitive part of T5, `c03_partial_ext` / `c03_partial_checked`: a plan made of
  unreachable statements, unused functions and stores (declarations and re-assignments) to variables
  that are never read, with `PureNoTrap`, user-call-free initialisers, prints the same values and
  ends the same way, for runs of the plain program that do not end in fuel exhaustion or in a
  use-before-declaration (`unbound`).  The decidable hypotheses are evaluated by the driver; on
  generated programs the theorem covers ≈ 83 % of the items of the model's plan (`cover` requests).
Stated, not proved (`c03_full`): every plan contained in the model's whole plan.  What is missing
precisely: (a) flow-sensitive dead stores — a store to a variable that IS read elsewhere but not
before the next store / scope exit (liveness proper, T5: needs the time-varying agreement set
`liveIn s`, kept per suspended activation, with the loop fixpoint as invariant; the relation `Rel`
of `Lemmas/AnalysisRel.lean` is the static special case `D2 = never read`); (b) removed stores whose
initialiser calls a pure user function (needs "a call of a function with `transClass = PureNoTrap`
is `Quiet`", an interprocedural version of `t2_quiet`); (c) T6 (verdicts) beyond never-read
variables; (d) the inclusion `planModel ⊆` the plans of `c03_partial_checked` for the fragment it
covers is evaluated per program (`coveredPlan`), not proved once and for all.
-/
namespace NaijaVerif.C03
open NaijaVerif NaijaVerif.Analysis NaijaVerif.AEval

/-! ### Reachability facts about the model -/

mutual
  /-- Once a point is unreachable the rest of the sequence is. -/
  theorem afterStmt_false : ∀ s : Stmt, afterStmt false s = false
    | .ret _ _ _ | .brk _ _ | .cont _ _ => by simp [afterStmt]
    | .block (.mk b _) _ _ => by simp [afterStmt, afterStmts_false b]
    | .ifS _ (.mk t _) none _ _ => by simp [afterStmt, afterStmts_false t]
    | .ifS _ (.mk t _) (some (.mk e _)) _ _ => by simp [afterStmt, afterStmts_false t, afterStmts_false e]
    | .fnDef .. | .assign .. | .assignExisting .. | .assignIndex .. | .loop .. | .expr .. => by simp [afterStmt]
  theorem afterStmts_false : ∀ ss : List Stmt, afterStmts false ss = false
    | [] => by simp [afterStmts]
    | s :: ss => by simp [afterStmts, afterStmt_false s, afterStmts_false ss]
end

/-- Statement ids are distinct (the resolver numbers statements consecutively; `wf` checks it). -/
def SidsDistinct (root : Block) : Prop := ((rows root).map (·.sid)).Nodup

theorem eq_of_nodup_map {α β : Type} {f : α → β} : ∀ {l : List α}, (l.map f).Nodup →
    ∀ a ∈ l, ∀ b ∈ l, f a = f b → a = b
  | [], _, a, ha, _, _, _ => by cases ha
  | x :: xs, h, a, ha, b, hb, hab => by
      simp only [List.map_cons, List.nodup_cons, List.mem_map, not_exists, not_and] at h
      rcases List.mem_cons.mp ha with rfl | ha' <;> rcases List.mem_cons.mp hb with rfl | hb'
      · rfl
      · exact absurd hab.symm (h.1 b hb')
      · exact absurd hab (h.1 a ha')
      · exact eq_of_nodup_map h.2 a ha' b hb' hab

/-- With distinct ids no statement is recorded both reachable and unreachable. -/
theorem tbl_functional {root : Block} (hd : SidsDistinct root) {i : Nat} (ht : (i, true) ∈ tbl root) :
    (i, false) ∉ tbl root := by
  intro hf
  simp only [tbl, List.mem_map] at ht hf
  obtain ⟨r1, h1, e1⟩ := ht
  obtain ⟨r2, h2, e2⟩ := hf
  have hs : r1.sid = r2.sid := by
    have a := congrArg Prod.fst e1
    have b := congrArg Prod.fst e2
    simp at a b
    omega
  have := eq_of_nodup_map hd r1 h1 r2 h2 hs
  subst this
  have a := congrArg Prod.snd e1
  have b := congrArg Prod.snd e2
  simp at a b
  rw [a] at b
  cases b

theorem mem_unreachable {root : Block} {i : Nat} : i ∈ unreachable root ↔ (i, false) ∈ tbl root := by
  simp only [unreachable, tbl, List.mem_map, List.mem_filter]
  constructor
  · rintro ⟨r, ⟨hr, hl⟩, rfl⟩
    refine ⟨r, hr, ?_⟩
    cases h : r.live <;> simp_all
  · rintro ⟨r, hr, he⟩
    have a := congrArg Prod.fst he
    have b := congrArg Prod.snd he
    simp at a b
    exact ⟨r, ⟨hr, by simp [b]⟩, a⟩

/-! ### T1 -/

theorem inv_init (T : List (Nat × Bool)) (V : Type) : Inv T (St.init V) := by
  constructor
  · intro sc hsc fd hfd
    simp [St.init] at hsc
    subst hsc
    cases hfd
  · intro i hi
    simp [St.init] at hi

/-- **T1.** Whatever the primitive operations do and however long the run lasts (including runs
that end in an error), no statement the analysis calls unreachable is ever executed. -/
theorem t1_unreachable_never_executes {V : Type} (P : Prims V) (root : Block) (fuel : Nat)
    (hd : SidsDistinct root) :
    ∀ i ∈ (run P none fuel root).2.trace, i ∉ unreachable root := by
  intro i hi hu
  have hm := (main_all P (plain_harmless (tbl root)) fuel).block root.stmts (St.init V) (cons_root root)
    (inv_init _ V)
  have hinv : Inv (tbl root) (run P none fuel root).2 := hm.2.1
  exact tbl_functional hd (hinv.2 i hi) (mem_unreachable.mp hu)

/-- The fall-through flag is sound: the top-level block completes normally only if the analysis
considers its end reachable. -/
theorem t1_completes_normally_only_if_fallthrough {V : Type} (P : Prims V) (root : Block) (fuel : Nat) :
    (run P none fuel root).1 = .ok .normal → afterStmts true root.stmts = true :=
  ((main_all P (plain_harmless (tbl root)) fuel).block root.stmts (St.init V) (cons_root root)
    (inv_init _ V)).2.2

/-! ### The plan theorem -/

/-- The full-strength statement (for the model of the fixed analyses): every plan contained in the
model's plan leaves what a run prints and how it ends unchanged, unless the run is cut short by the
fuel (stack / time budget).  Proved for the sub-plans described by `c03_partial` and
`c03_partial_checked`; not yet proved in general (see the header for what is missing). -/
def c03_full : Prop :=
  ∀ (V : Type) (P : Prims V) (root : Block) (facts : Facts) (plan : Plan) (fuel : Nat),
    wf root facts = true → plan.sub (planModel root facts) = true →
    (run P none fuel root).1 ≠ .error .fuel → (run P (some plan) fuel root).1 ≠ .error .fuel →
    observable (run P (some plan) fuel root) = observable (run P none fuel root)

theorem harmless_of_unreachable {root : Block} (hd : SidsDistinct root) {plan : Plan}
    (hs : ∀ i ∈ plan.stmts, i ∈ unreachable root) (hf : plan.fns = []) :
    Harmless (tbl root) (Cfg.ofPlan (some plan)) := by
  constructor
  · intro i hi
    simp only [Cfg.ofPlan]
    cases hc : plan.stmts.contains i with
    | false => rfl
    | true =>
      have : i ∈ plan.stmts := by simpa using hc
      exact absurd (mem_unreachable.mp (hs i this)) (tbl_functional hd hi)
  · intro f
    simp [Cfg.ofPlan, hf]

/-- **C03, partial.** A plan made of statements the model calls unreachable — any subset of them —
does not change the run at all: same values printed, same ending, same final state, same statements
executed, for every primitive semantics and every amount of fuel (so also for runs that end in an
error or run out of fuel). -/
theorem c03_partial {V : Type} (P : Prims V) (root : Block) (plan : Plan) (fuel : Nat)
    (hd : SidsDistinct root) (hs : ∀ i ∈ plan.stmts, i ∈ unreachable root) (hf : plan.fns = []) :
    run P (some plan) fuel root = run P none fuel root :=
  ((main_all P (harmless_of_unreachable hd hs hf) fuel).block root.stmts (St.init V) (cons_root root)
    (inv_init _ V)).1

/-- The unreachable statements are part of the model's plan … -/
theorem plan_contains_unreachable (root : Block) (facts : Facts) :
    ∀ i ∈ unreachable root, i ∈ (planModel root facts).stmts := by
  intro i hi
  simp only [planModel, analyse]
  have key : ∀ (a b : List Nat), i ∈ a → i ∈ uni a b := by
    intro a b
    induction a with
    | nil => intro h; cases h
    | cons x xs ih =>
      intro h
      simp only [uni, List.foldr_cons, ins]
      rcases List.mem_cons.mp h with rfl | h'
      · split
        · next hc => simpa using hc
        · simp
      · have := ih h'
        simp only [uni] at this
        split
        · exact this
        · exact List.mem_cons_of_mem _ this
  exact key _ _ hi

/-- … and the observable behaviour (what the property compares) is unchanged by any plan drawn from
that part of the model's plan. -/
theorem c03_partial_observable {V : Type} (P : Prims V) (root : Block) (plan : Plan) (fuel : Nat)
    (hd : SidsDistinct root) (hs : ∀ i ∈ plan.stmts, i ∈ unreachable root) (hf : plan.fns = []) :
    observable (run P (some plan) fuel root) = observable (run P none fuel root) := by
  rw [c03_partial P root plan fuel hd hs hf]

/-- With the plan, unreachable statements stay unexecuted as well (T1 for the pruned run). -/
theorem t1_with_plan {V : Type} (P : Prims V) (root : Block) (plan : Plan) (fuel : Nat)
    (hd : SidsDistinct root) (hs : ∀ i ∈ plan.stmts, i ∈ unreachable root) (hf : plan.fns = []) :
    ∀ i ∈ (run P (some plan) fuel root).2.trace, i ∉ unreachable root := by
  rw [c03_partial P root plan fuel hd hs hf]
  exact t1_unreachable_never_executes P root fuel hd


/-! ### T2 (effect class), state half -/

/-- **T2, state half.** An expression the (fixed) classification does not call `Impure` and that
calls no user function changes nothing: not the variables, not the function scopes, not the output,
whatever value or error it produces — for every primitive semantics whose builtin dispatch agrees
with the effect tables (`TablesAgree`).  User calls are accounted for per statement through the
summaries (`effClass`); the no-trap half needs the runtime's operator tables and is covered by the
tie (`cls=`) and the differential with trapping initialisers. -/
theorem t2_no_effect {V : Type} (P : Prims V) (ha : TablesAgree P) (cfg : Cfg) (capt : Nat → Bool) (e : Expr) (n : Nat) (st : St V)
    (hc : classify capt e ≠ .impure) (hn : noUserCall e = true) :
    (evalExpr P cfg n e st).2 = st :=
  (pure_all P cfg n).expr e st (effectFree_of_class ha capt e hc hn)

/-- Corollary for a pruned initialiser: skipping `make x get e` (or `x get e`) with such an `e`
can only be noticed through the variable `x`: executing it leaves the output, the function scopes
and the statement trace untouched. -/
theorem t2_pruned_initialiser {V : Type} (P : Prims V) (ha : TablesAgree P) (cfg : Cfg) (n : Nat) (st : St V)
    (capt : Nat → Bool) (v : Bytes) (vs : Span) (e : Expr) (b sid : Option Nat) (sp : Span)
    (hc : classify capt e ≠ .impure) (hn : noUserCall e = true) :
    let st' := (execStmt P cfg n (.assign v vs e b sid sp) st).2
    st'.out = st.out ∧ st'.fns = st.fns ∧ st'.trace = st.trace ∧ st'.looked = st.looked := by
  cases n with
  | zero => simp [execStmt]
  | succ n =>
    have h1 := t2_no_effect P ha cfg capt e n st hc hn
    simp only [execStmt]
    generalize evalExpr P cfg n e st = r at h1 ⊢
    obtain ⟨r1, st1⟩ := r
    simp only at h1
    subst h1
    cases r1 with
    | error er => simp
    | ok val => cases b <;> simp

/-! ### T3, T4 and the extended plan theorem (relational simulation) -/

/-- The body-reachable set is closed under the calls of reachable statements (checked by `wf`:
`Analysis.brClosed`). -/
def BRClosed (root : Block) (facts : Facts) : Prop :=
  let c := mkCtx root facts
  ∀ i, (i, true) ∈ tbl root → c.bodyReachable.contains (c.fnOf i) = true →
    ∀ g ∈ c.callees i, c.bodyReachable.contains g = true

theorem mem_ins {x i : Nat} {s : List Nat} (h : i ∈ s) : i ∈ ins x s := by
  simp only [ins]; split
  · exact h
  · exact List.mem_cons_of_mem _ h

theorem mem_uni_right {i : Nat} (a b : List Nat) (h : i ∈ b) : i ∈ uni a b := by
  induction a with
  | nil => exact h
  | cons x xs ih => simp only [uni, List.foldr_cons]; exact mem_ins (by simpa [uni] using ih)

theorem mem_foldl_keep {α : Type} {i : Nat} (g : List Nat → α → List Nat) (hg : ∀ acc r, i ∈ acc → i ∈ g acc r) :
    ∀ (l : List α) (s : List Nat), i ∈ s → i ∈ l.foldl g s
  | [], _, h => h
  | r :: rs, s, h => mem_foldl_keep g hg rs (g s r) (hg s r h)

theorem root_bodyReachable (c : Ctx) : c.bodyReachable.contains 0 = true := by
  have step : ∀ s, 0 ∈ s → 0 ∈ c.bodyReachStep s := by
    intro s hs
    simp only [Ctx.bodyReachStep]
    refine mem_foldl_keep _ ?_ _ _ hs
    intro acc r h
    split
    · exact mem_uni_right _ _ h
    · exact h
  have it : ∀ n s, 0 ∈ s → 0 ∈ iter c.bodyReachStep n s := by
    intro n
    induction n with
    | zero => intro s h; exact h
    | succ n ih => intro s h; exact ih _ (step s h)
  have := it c.nFns [0] (by simp)
  simpa [Ctx.bodyReachable] using this

theorem unused_not_reachable (c : Ctx) {g : Nat} (h : g ∈ c.unusedFns.map (·.2)) :
    c.bodyReachable.contains g = false := by
  simp only [Ctx.unusedFns, List.mem_map, List.mem_filterMap] at h
  obtain ⟨p, ⟨x, _, hx⟩, rfl⟩ := h
  split at hx
  · cases hx
  · split at hx
    · split at hx
      · next hc =>
        simp only [Option.some.injEq] at hx
        subst hx
        simp only [Bool.and_eq_true, Bool.not_eq_true'] at hc
        simpa using hc.2
      · cases hx
    · cases hx

theorem setup_ok (root : Block) (facts : Facts) (plan : Option Plan) (D1 D2 : Nat → Bool)
    (hd : SidsDistinct root) (hcl : BRClosed root facts) (hd12 : ∀ l, D1 l = true → D2 l = true)
    (hfns : ∀ p, plan = some p → ∀ g ∈ p.fns, g ∈ (mkCtx root facts).unusedFns.map (·.2)) :
    SetupOk (setupOf root facts plan D1 D2) where
  closed := hcl
  drop := by
    intro g hg
    cases plan with
    | none => rfl
    | some p =>
      simp only [setupOf, Cfg.ofPlan]
      cases hc : p.fns.contains g with
      | false => rfl
      | true =>
        have hm : g ∈ p.fns := by simpa using hc
        have := unused_not_reachable _ (hfns p rfl g hm)
        simp only [setupOf] at hg
        rw [this] at hg
        cases hg
  d12 := hd12
  func := fun _ h => tbl_functional hd h

theorem inv2_init {V : Type} (P : Prims V) (S : Setup) : Inv2 P S (St.init V) := by
  refine ⟨inv_init _ V, ?_, ?_⟩
  · intro sc hsc fd hfd
    simp [St.init] at hsc
    subst hsc
    cases hfd
  · intro g hg
    simp [St.init] at hg

theorem rel_init {V : Type} (S : Setup) : Rel S (St.init V) (St.init V) :=
  ⟨rfl, rfl, by simp [St.init, EnvRel, ScopeRel, keep, SlotsRel]⟩

/-- Ownership and callee consistency of the facts w.r.t. the annotated AST: every statement's
`function` fact is the function whose body contains it, and every user call in its own expressions
is among its `direct_callees` (checked by `wf`: `Analysis.ownOk`).  This is `SOkList` for the
trivial setting (nothing skipped, nothing dead). -/
def OwnOk {V : Type} (P : Prims V) (root : Block) (facts : Facts) : Prop :=
  SOkList P (setupOf root facts none (fun _ => false) (fun _ => false)) 0 root.stmts

/-- **T3.** In the plain run, every function a call looks up is body-reachable; in particular a
function the analysis reports as unused is never looked up (so not registering it cannot be
noticed) — for every primitive semantics and every amount of fuel, runs that end in errors included. -/
theorem t3_unused_function_never_looked_up {V : Type} (P : Prims V) (root : Block) (facts : Facts) (fuel : Nat)
    (hd : SidsDistinct root) (hcl : BRClosed root facts) (hown : OwnOk P root facts) :
    ∀ g ∈ (run P none fuel root).2.looked, g ∉ (mkCtx root facts).unusedFns.map (·.2) := by
  intro g hg hu
  have hs := setup_ok root facts none (fun _ => false) (fun _ => false) hd hcl (fun _ h => h)
    (fun p hp => by cases hp)
  have hm := (sim_all P hs fuel).block root.stmts (St.init V) (St.init V) 0 (cons_root root) hown
    (root_bodyReachable _) (rel_init _) (inv2_init P _)
  have hl : (mkCtx root facts).bodyReachable.contains g = true := hm.2.2.2 g hg
  rw [unused_not_reachable _ hu] at hl
  cases hl

/-- **C03, partial (extended).**  Let `plan` contain
* statements the model calls unreachable,
* functions the model calls unused,
* stores (`make x get e` / `x get e`) to variables that no statement ever reads (`D2`), with an
  initialiser that neither changes the state nor fails (`Quiet`, see `quiet_of_class`); a removed
  declaration additionally needs every store to its variable to be removed (`D1`),
all of it packaged in the side condition `SOkList` (which also carries the ownership / callee
consistency of the facts).  Then the pruned run prints the same values and ends the same way as the
plain run, unless the plain run is cut short by the fuel or uses a variable before its declaration. -/
theorem c03_partial_ext {V : Type} (P : Prims V) (root : Block) (facts : Facts) (plan : Plan) (fuel : Nat)
    (D1 D2 : Nat → Bool)
    (hd : SidsDistinct root) (hcl : BRClosed root facts) (hd12 : ∀ l, D1 l = true → D2 l = true)
    (hfns : ∀ g ∈ plan.fns, g ∈ (mkCtx root facts).unusedFns.map (·.2))
    (hok : SOkList P (setupOf root facts (some plan) D1 D2) 0 root.stmts)
    (hfuel : (run P none fuel root).1 ≠ .error .fuel) (hunb : (run P none fuel root).1 ≠ .error .unbound) :
    observable (run P (some plan) fuel root) = observable (run P none fuel root) := by
  have hs := setup_ok root facts (some plan) D1 D2 hd hcl hd12 (fun p hp => by cases hp; exact hfns)
  have hm := (sim_all P hs fuel).block root.stmts (St.init V) (St.init V) 0 (cons_root root) hok
    (root_bodyReachable _) (rel_init _) (inv2_init P _)
  rcases hm.1 with hbad | ⟨heq, hrel⟩
  · rcases hbad with hb | hb
    · exact absurd hb hfuel
    · exact absurd hb hunb
  · simp only [observable, run]
    have h1 : (execBlock P (Cfg.ofPlan (some plan)) fuel root.stmts (St.init V)).1 =
        (execBlock P plain fuel root.stmts (St.init V)).1 := heq
    have h2 := hrel.1
    simp only [setupOf] at h2
    simp only [plain] at h1 h2
    rw [h1, h2]

/-- The decidable closure check implies `BRClosed`. -/
theorem brClosed_of_check (root : Block) (facts : Facts) (h : (mkCtx root facts).brClosed = true) :
    BRClosed root facts := by
  intro i hi hf g hg
  simp only [Ctx.brClosed, List.all_eq_true, Bool.or_eq_true, Bool.not_eq_true', Bool.and_eq_false_iff] at h
  simp only [tbl, List.mem_map, Prod.mk.injEq] at hi
  obtain ⟨r, hr, hsid, hlive⟩ := hi
  have hrows : (mkCtx root facts).rows = rows root := rfl
  rcases h r (by rw [hrows]; exact hr) with h1 | h2
  · rcases h1 with h1 | h1
    · rw [hlive] at h1; cases h1
    · rw [hsid] at h1
      rw [h1] at hf
      cases hf
  · rw [hsid] at h2
    exact h2 g hg

/-! ### T2 (effect class), no-trap half -/

/-- **T2, no-trap half.** Under the laws `Lawful` (what the runtime's operator and builtin match
arms do on the operand types the fixed classification insists on), an expression classed
`PureNoTrap` that calls no user function and respects the builtin arities evaluates to a value —
of the type its literals determine — unless the fuel runs out or a variable it reads has no slot
(after D-03e only the running function's own variables are read by such an expression; that those
are bound is the resolver's scoping guarantee, properties C04/C09). -/
theorem t2_no_trap {V : Type} (P : Prims V) (ty : V → LTy → Prop) (L : Lawful P ty) (capt : Nat → Bool) (cfg : Cfg)
    (e : Expr) (n : Nat) (st : St V) (hs : Safe capt e) :
    (∃ v, (evalExpr P cfg n e st).1 = .ok v ∧ ∀ t, literalTy e = some t → ty v t) ∨
      (evalExpr P cfg n e st).1 = .error .fuel ∨ (evalExpr P cfg n e st).1 = .error .unbound :=
  (noTrap_all L capt cfg n).expr e st hs

/-- Both halves together: such an expression is `Quiet`, which is what `c03_partial_ext` asks of a
removed initialiser. -/
theorem t2_quiet {V : Type} (P : Prims V) (ty : V → LTy → Prop) (L : Lawful P ty) (capt : Nat → Bool) (e : Expr)
    (hs : Safe capt e) : Quiet P e :=
  quiet_of_class L capt e hs

/-- **C03, partial (extended), decidable form.**  The side condition of `c03_partial_ext` checked by
the executable `sokListB` with the syntactic safe-initialiser test `safeB` (fixed classification =
`PureNoTrap`, no user call, arities respected), for primitive semantics satisfying `Lawful`. -/
theorem c03_partial_checked {V : Type} (P : Prims V) (ty : V → LTy → Prop) (L : Lawful P ty)
    (root : Block) (facts : Facts) (plan : Plan) (fuel : Nat) (D1 D2 : Nat → Bool)
    (hd : SidsDistinct root) (hcl : (mkCtx root facts).brClosed = true)
    (hd12 : ∀ l, D1 l = true → D2 l = true)
    (hfns : ∀ g ∈ plan.fns, g ∈ (mkCtx root facts).unusedFns.map (·.2))
    (hok : sokListB (setupOf root facts (some plan) D1 D2) (safeB facts) 0 root.stmts = true)
    (hfuel : (run P none fuel root).1 ≠ .error .fuel) (hunb : (run P none fuel root).1 ≠ .error .unbound) :
    observable (run P (some plan) fuel root) = observable (run P none fuel root) :=
  c03_partial_ext P root facts plan fuel D1 D2 hd (brClosed_of_check root facts hcl) hd12 hfns
    (sokList_of_B (fun f e h => quiet_of_safeB L facts f e h) 0 root.stmts hok) hfuel hunb

/-! ### Non-vacuity -/

/-- `return` followed by a statement: the second statement is unreachable, ids are distinct, and
the plan `{1}` satisfies the hypotheses of `c03_partial`. -/
def demo : Block :=
  .mk [.ret none (some 0) ⟨0, 6⟩, .expr (.null ⟨7, 11⟩) (some 1) ⟨7, 11⟩] ⟨0, 11⟩

example : unreachable demo = [1] := by decide
example : SidsDistinct demo := by unfold SidsDistinct; decide
example : ∀ i ∈ (⟨[1], []⟩ : Plan).stmts, i ∈ unreachable demo := by decide
def demoFacts : Facts where
  functions := [default]
  stmtEffects := [default, default]
  functionDirects := [⟨[], [], []⟩]

example : (planModel demo demoFacts).stmts = [1] := by decide


/-- `make x get 1  shout(0)`: the model's plan removes the declaration of the never-read `x`; the
hypotheses of `c03_partial_checked` hold for exactly that plan (with `D1 = D2 = {x}`). -/
def demo2 : Block :=
  .mk [.assign [120] ⟨5, 6⟩ (.num [49] ⟨11, 12⟩) (some 0) (some 0) ⟨0, 12⟩,
       .expr (.call (.var [115, 104, 111, 117, 116] none ⟨13, 18⟩) [.num [48] ⟨19, 20⟩] none ⟨13, 21⟩) (some 1) ⟨13, 21⟩] ⟨0, 21⟩

def demo2Facts : Facts where
  functions := [default]
  scopes := [⟨none, 0⟩]
  scopeLocals := [[0]]
  locals := [⟨[120], 0, 0, some 0, .variable⟩]
  stmtEffects := [⟨0, 0, [], [0], [], .pureNoTrap⟩, ⟨0, 0, [], [], [], .impure⟩]
  functionDirects := [⟨[], [], []⟩]

example : planModel demo2 demo2Facts = ⟨[0], []⟩ := by decide
example : SidsDistinct demo2 := by unfold SidsDistinct; decide
example : (mkCtx demo2 demo2Facts).brClosed = true := by decide
example : sokListB (setupOf demo2 demo2Facts (some ⟨[0], []⟩) (fun l => l == 0) (fun l => l == 0))
    (safeB demo2Facts) 0 demo2.stmts = true := by decide
/-- and the ownership / callee-consistency hypothesis of T3 -/
example : sokListB (setupOf demo2 demo2Facts none (fun _ => false) (fun _ => false))
    (fun _ _ => false) 0 demo2.stmts = true := by decide

end NaijaVerif.C03
