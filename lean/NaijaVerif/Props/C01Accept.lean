/-
C01, last sentence: "A program that is valid by the documented rules and uses each variable at the
type it was declared with is never rejected."

The pieces composed here:
* lexer round trip (`Props/C10Lex.lean`): lexing any valid layout of a token list gives the tokens back,
  no lexical diagnostic;
* printer / parser round trip (`Props/C01Parse.lean`, `program_round_trip`): parsing the printed tokens of
  a canonical program `b` (any redundant parentheses `p`) gives `b` back, no syntax diagnostic;
* the parser reads no span (`Props/C10Parse.lean`);
* the checker accepts exactly the programs that satisfy the documented static rules `Spec.WF` — scoping
  and typing — (`Props/C09.lean`, `c09_full_holds`), and reads no span (`Lemmas/SpanEraseResolve.lean`);
* the stages behind the parser commute with span erasure (`Lemmas/SpanErasePipeline.lean`).

Result (`c01_valid_never_rejected`): every text that is a valid layout — any separators, comments,
line ends, redundant parentheses — of a canonical program that satisfies the documented rules is accepted
by the shipped front end `Pipeline.frontEnd` under every limit configuration, and `Pipeline.runSource`
runs it (`c01_valid_runs`).  Conversely (`c01_accepted_is_valid`) whatever the front end accepts has no
lexical / syntax diagnostic and parses to a tree that satisfies the documented rules; so acceptance IS
validity, for every text (`c01_accepted_iff_clean_and_valid`) and in terms of the tree for the texts of a
canonical program (`c01_accepted_iff_valid`).  And what the text does is what the documented semantics
(`Eval.run`) does on the annotated TREE `(resolve b).root` (`c01_accepted_runs_like_the_tree`), up to the
position in a runtime error, with the plan the analyses compute FROM THE TREE (none when a limit trips:
`c01_accepted_runs_like_the_tree_no_plan`).

Composed with C03 (`c01_text_means_tree`, `c01_layout_means_tree`): the plan is unobservable, so what a
valid text does is what the documented semantics does on the annotated tree WITHOUT any plan — whatever
the layout, the caps and the plan the analyses compute under them.  If `Eval.run` without a plan on
`(resolve b).root` ends (within its fuel) with the observation `o` — printed values, and a normal ending
or a runtime error other than `Undefined variable` — then for all sufficiently large fuel
`Pipeline.runSource` on the text is a run with that observation `o`.  Hypotheses besides validity: the
current code (`lookup = dynamic`, `panics = false`), no input, a number type whose `ofLit` accepts the
scanner's lexemes (`NumLitsParse`), and C03's remaining decidable side condition on the TREE,
`structRest2B (resolve b).root (resolve b).facts` (the part of `structOkB` not proved of the resolver model,
see `Props/C03.lean`; stated of the tree, so no span-independence of it is needed: C03 is applied to the
tree — `c03_eval` — and the text is brought to the tree by `c01_accepted_runs_like_the_tree_tokens`).
The scanner / parser guarantees C03 and C06 need of the checker's input (`Bridge.srcBlock`) are moved from
the parsed text to the tree by `Lemmas/SpanEraseSource.lean`.

Coverage of the printer: `printBlock` prints a static string as the `escaped` string token, which only a
literal with an escape sequence lexes to; the plain literal `"abc"` lexes to the unescaped token.  The
parser reads the flag only when the content holds a `{` (`C10Parse.parse_ignores_str_flag`), so every
printer-based statement is made up to the flag of the string tokens without `{` (`Parse.flagErase`; the
theorems `…_anyflag`: the text lexes to the printed tokens UP TO that flag, the layout is a layout of the
printed tokens UP TO that flag) and so covers every spelling of a static string, with or without escape
sequences (`plainText` at the end is an instance).  The statements for the texts that lex to exactly the
printed tokens are the special case (section `Exact`).
-/
import NaijaVerif.Props.C10
import NaijaVerif.Props.C09
import NaijaVerif.Props.C03
import NaijaVerif.Lemmas.SpanEraseSource

namespace NaijaVerif.C01Accept
open NaijaVerif NaijaVerif.Lex NaijaVerif.Parse NaijaVerif.Props.C10Lex NaijaVerif.C10Parse
open NaijaVerif.SpanErase NaijaVerif.Pipeline

/-! ### The documented rules do not read spans -/

/-- Two trees that are equal up to spans are rejected / accepted alike by the checker. -/
theorem resolve_diags_nil_congr {b b' : Block} (h : eraseSpans b = eraseSpans b') :
    (Resolve.resolve b).diags = [] ↔ (Resolve.resolve b').diags = [] := by
  have h1 := (resolveWith_erase true b).2.1
  have h2 := (resolveWith_erase true b').2.1
  rw [h] at h1
  have hd : (Resolve.resolve b).diags.map eraseDiag = (Resolve.resolve b').diags.map eraseDiag :=
    h1.symm.trans h2
  constructor
  · intro hb; rw [hb] at hd; simpa using hd.symm
  · intro hb; rw [hb] at hd; simpa using hd

/-- **`Spec.WF` is span independent**: the documented well-formedness judgement (scoping and typing
rules) holds of a tree iff it holds of any tree equal to it up to spans. -/
theorem wf_congr {b b' : Block} (h : eraseSpans b = eraseSpans b') : Spec.WF b ↔ Spec.WF b' := by
  rw [← C09.c09_full_holds b, ← C09.c09_full_holds b', C09.diags_all_errors, C09.diags_all_errors]
  exact resolve_diags_nil_congr h

/-- … in particular of a tree iff of its span erasure. -/
theorem wf_eraseSpans (b : Block) : Spec.WF (eraseSpans b) ↔ Spec.WF b := by
  rw [← C09.c09_full_holds b, ← C09.c09_full_holds (eraseSpans b), C09.diags_all_errors, C09.diags_all_errors]
  have h1 : (Resolve.resolve (eraseSpans b)).diags = (Resolve.resolve b).diags.map eraseDiag :=
    (resolveWith_erase true b).2.1
  rw [h1, List.map_eq_nil_iff]

/-- A canonical program carries no span: it is its own span erasure. -/
theorem canon_eraseSpans (p : Expr → Nat) (b : Block) (hc : CanonBlock p b) : eraseSpans b = b := by
  have h := parse_commutes_with_erasure (programToks p b)
  have ht : (programToks p b).map eraseTok = programToks p b := by
    unfold programToks
    rw [List.map_append, List.map_map]
    rfl
  rw [ht, C01Parse.program_round_trip p b hc] at h
  exact (congrArg Prod.fst h).symm

/-! ### From the tokens on -/

/-- The printed token sequence of `b` with the parser's end marker. -/
theorem programToks_toks (p : Expr → Nat) (b : Block) :
    (programToks p b).map (·.tok) = printBlock p b ++ [.eof] := by
  simp [programToks, mkTok, List.map_map, Function.comp_def]

/-- **Lexer + parser**: a text that lexes to the printed tokens of a canonical program `b` — whatever their
positions, and up to the `escaped` flag of the string tokens without `{` (`flagErase`), which the parser
does not read — parses without a syntax diagnostic to `b` up to spans. -/
theorem text_parses_to_tree_anyflag (p : Expr → Nat) (b : Block) (hc : CanonBlock p b) (s : Bytes)
    (ht : (lex s).1.map (fun t => flagErase t.tok) = (programToks p b).map (fun t => flagErase t.tok)) :
    (parseProgram (lex s).1).2 = [] ∧ eraseSpans (parseProgram (lex s).1).1 = b := by
  obtain ⟨hast, _, hdiag⟩ := layout_insensitive_anyflag (lex s).1 (programToks p b) ht
  rw [C01Parse.program_round_trip p b hc] at hast hdiag
  exact ⟨by simpa using hdiag, hast.trans (canon_eraseSpans p b hc)⟩

/-- The optimisation plan of the analyses for an annotated program, as the runtime takes it. -/
def analysisPlan (root : Block) (facts : Facts) : Eval.Plan :=
  { stmts := (Analysis.analyse root facts).plan.stmts, fns := (Analysis.analyse root facts).plan.fns }

/-- **Resolver + limit preflight + analyses** on a tree that satisfies the documented rules: never an
error; the annotated program and the facts are the resolver's; the plan is the analyses' plan, or none
when a limit tripped. -/
theorem afterParse_of_wf (caps : Limits.Caps) (q : Block) (h : Spec.WF q) :
    ∃ a, afterParse caps q = .ok a ∧ a.root = (Resolve.resolve q).root ∧ a.facts = (Resolve.resolve q).facts ∧
      (a.plan = none ∨ a.plan = some (analysisPlan a.root a.facts)) := by
  have hd : (Resolve.resolve q).diags = [] := C09.c09_well_formed_accepted q h
  unfold afterParse
  simp only [hd, hasErrors, List.any_nil, Bool.false_eq_true, if_false]
  cases CfgCount.countProgram (Resolve.resolve q).root (Resolve.resolve q).facts with
  | none => exact ⟨_, rfl, rfl, rfl, Or.inr rfl⟩
  | some c =>
    refine ⟨_, rfl, rfl, rfl, ?_⟩
    simp only [Limits.emitAnalysis]
    cases Limits.firstExceeded caps c with
    | none => exact Or.inr rfl
    | some _ => exact Or.inl rfl

/-- What the resolver accepts satisfies the documented rules. -/
theorem wf_of_afterParse {caps : Limits.Caps} {q : Block} {a : Accepted} (h : afterParse caps q = .ok a) :
    Spec.WF q := by
  apply (C09.c09_full_holds q).mp
  unfold afterParse at h
  simp only at h
  split at h
  · cases h
  · next hne =>
    have hne' : hasErrors (Resolve.resolve q).diags = false := by simpa using hne
    rw [List.filter_eq_nil_iff]
    intro d hd hde
    have : hasErrors (Resolve.resolve q).diags = true := by
      simp only [hasErrors, List.any_eq_true]
      exact ⟨d, hd, hde⟩
    rw [hne'] at this
    cases this

/-- The front end on a text without lexical / syntax diagnostics is `afterParse` of its parse. -/
theorem frontEnd_of_clean (caps : Limits.Caps) (s : Bytes) (hl : (lex s).2 = [])
    (hp : (parseProgram (lex s).1).2 = []) :
    frontEnd caps s = (match afterParse caps (parseProgram (lex s).1).1 with
      | .error ds => .error (false, ds)
      | .ok a => .ok a) := by
  rw [frontEnd_eq, hl, hp]
  simp only [List.append_nil, List.isEmpty_nil, Bool.not_true, Bool.false_eq_true, if_false]
  rfl

theorem runSource_of_ok {N : Type} [NumOps N] {caps : Limits.Caps} (cfg : Eval.RunCfg) (fuel : Nat) {s : Bytes}
    {a : Accepted} (h : frontEnd caps s = .ok a) :
    (runSource caps cfg fuel s : Pipeline.Result N) = .ran a.warnings (Eval.run { cfg with plan := a.plan } fuel a.root) := by
  unfold runSource
  rw [h]

/-- **C01 (acceptance), from the tokens on**: let `b` be a canonical program (`CanonBlock p b`, for a
choice `p` of redundant parentheses) that satisfies the documented static rules.  Every text that lexes
without a diagnostic to the printed tokens of `b`, up to the `escaped` flag of the string tokens without
`{` (a static string spelled with or without escape sequences), is accepted by the front end, under every limit
configuration; the annotated program handed to the runtime is, up to spans, the resolver's annotation of
the TREE `b`, with the same facts. -/
theorem c01_valid_never_rejected_tokens_anyflag (p : Expr → Nat) (b : Block) (hc : CanonBlock p b) (hwf : Spec.WF b)
    (s : Bytes) (hl : (lex s).2 = [])
    (ht : (lex s).1.map (fun t => flagErase t.tok) = (programToks p b).map (fun t => flagErase t.tok))
    (caps : Limits.Caps) :
    ∃ a, frontEnd caps s = .ok a ∧ eraseSpans a.root = eraseSpans (Resolve.resolve b).root ∧
      a.facts = (Resolve.resolve b).facts := by
  obtain ⟨hp, hast⟩ := text_parses_to_tree_anyflag p b hc s ht
  have hast' : eraseSpans (parseProgram (lex s).1).1 = eraseSpans b := by
    rw [hast, canon_eraseSpans p b hc]
  obtain ⟨a, ha, hroot, hfacts, _⟩ := afterParse_of_wf caps _ ((wf_congr hast').mpr hwf)
  refine ⟨a, ?_, ?_, ?_⟩
  · rw [frontEnd_of_clean caps s hl hp, ha]
  · rw [hroot]; exact (C10.span_independent_resolver hast').2.1
  · rw [hfacts]; exact (C10.span_independent_resolver hast').2.2.1

/-- **C01: a valid program is never rejected.**  Let `b` be a canonical program (for a choice `p` of
redundant parentheses: any number of pairs around any sub-expressions) that is valid by the documented
rules, `Spec.WF b`: every name is declared before it is used, calls have the declared number of
arguments, `comot` / `next` / `return` stand where they may, no duplicate or reserved names, and every
variable, operator, condition, index, method and argument is used at the type it was declared with.  Then
EVERY text that is a valid layout of the printed tokens of `b` — any leading separator, any separators
between the tokens (spaces, tabs, line ends, comments), any spelling of the multi-word keywords, any
spelling of a static string (with or without escape sequences: the layout's tokens are the printed ones up
to `flagErase`), any unfinished comment at the end — is accepted by the shipped front end (lexer, parser, checker, limit
preflight, analyses) under every limit configuration. -/
theorem c01_valid_never_rejected_anyflag (p : Expr → Nat) (b : Block) (hc : CanonBlock p b) (hwf : Spec.WF b)
    {lead tr : Bytes} (l : Layout) (hlead : Sep lead) (htr : Trail tr) (hv : Valid tr l)
    (hk : l.toks.map flagErase = (printBlock p b).map flagErase) (caps : Limits.Caps) :
    ∃ a, frontEnd caps (lead ++ render tr l) = .ok a := by
  obtain ⟨a1, a2⟩ := c10_lex_roundtrip hlead htr l hv
  obtain ⟨a, ha, _⟩ := c01_valid_never_rejected_tokens_anyflag p b hc hwf _ a2
    (C10.layout_toks_anyflag p b a1 hk) caps
  exact ⟨a, ha⟩

/-- … hence the shipped pipeline RUNS it: for every limit configuration, run configuration and fuel the
result of `runSource` is a run (`.ran`), never a syntax or semantic rejection. -/
theorem c01_valid_runs_anyflag {N : Type} [NumOps N] (p : Expr → Nat) (b : Block) (hc : CanonBlock p b) (hwf : Spec.WF b)
    {lead tr : Bytes} (l : Layout) (hlead : Sep lead) (htr : Trail tr) (hv : Valid tr l)
    (hk : l.toks.map flagErase = (printBlock p b).map flagErase)
    (caps : Limits.Caps) (cfg : Eval.RunCfg) (fuel : Nat) :
    ∃ ws o, (runSource caps cfg fuel (lead ++ render tr l) : Pipeline.Result N) = .ran ws o := by
  obtain ⟨a, ha⟩ := c01_valid_never_rejected_anyflag p b hc hwf l hlead htr hv hk caps
  exact ⟨_, _, runSource_of_ok cfg fuel ha⟩

/-! ### The converse: what is accepted is valid -/

/-- **Whatever the front end accepts is valid by the documented rules**: the text has no lexical and no
syntax diagnostic, and the tree the parser delivers — hence every tree equal to it up to spans —
satisfies `Spec.WF`. -/
theorem c01_accepted_is_valid {caps : Limits.Caps} {s : Bytes} {a : Accepted} (h : frontEnd caps s = .ok a) :
    (lex s).2 = [] ∧ (parseProgram (lex s).1).2 = [] ∧ Spec.WF (parseProgram (lex s).1).1 ∧
      ∀ b, eraseSpans (parseProgram (lex s).1).1 = eraseSpans b → Spec.WF b := by
  rw [frontEnd_eq] at h
  split at h
  · cases h
  · next hne =>
    have he : (lex s).2 ++ (parseProgram (lex s).1).2 = [] := by
      cases hx : (lex s).2 ++ (parseProgram (lex s).1).2 with
      | nil => rfl
      | cons _ _ => rw [hx] at hne; exact absurd rfl hne
    obtain ⟨h1, h2⟩ := List.append_eq_nil_iff.mp he
    have hw : Spec.WF (parseProgram (lex s).1).1 := by
      cases ha : afterParse caps (parseProgram (lex s).1).1 with
      | error ds => rw [ha] at h; cases h
      | ok a' => exact wf_of_afterParse ha
    exact ⟨h1, h2, hw, fun b hb => (wf_congr hb).mp hw⟩

/-- **Acceptance is validity, for every text**: the front end accepts a text (under some, equivalently
every, limit configuration) iff the text has no lexical and no syntax diagnostic and the tree the parser
delivers satisfies the documented static rules.  (No printer in this statement: it covers every text,
also those outside the image of `printBlock`, e.g. with a plain string literal — see the note at
`plainText` below.) -/
theorem c01_accepted_iff_clean_and_valid (caps : Limits.Caps) (s : Bytes) :
    (∃ a, frontEnd caps s = .ok a) ↔
      ((lex s).2 = [] ∧ (parseProgram (lex s).1).2 = [] ∧ Spec.WF (parseProgram (lex s).1).1) := by
  constructor
  · rintro ⟨a, ha⟩
    obtain ⟨h1, h2, h3, _⟩ := c01_accepted_is_valid ha
    exact ⟨h1, h2, h3⟩
  · rintro ⟨h1, h2, h3⟩
    obtain ⟨a, ha, _⟩ := afterParse_of_wf caps _ h3
    exact ⟨a, by rw [frontEnd_of_clean caps s h1 h2, ha]⟩

/-- **For the texts of a canonical program, acceptance is validity**: a text that is a valid layout of
the printed tokens of a canonical `b` is accepted (under some, equivalently every, limit configuration)
iff `b` satisfies the documented rules. -/
theorem c01_accepted_iff_valid_anyflag (p : Expr → Nat) (b : Block) (hc : CanonBlock p b)
    {lead tr : Bytes} (l : Layout) (hlead : Sep lead) (htr : Trail tr) (hv : Valid tr l)
    (hk : l.toks.map flagErase = (printBlock p b).map flagErase) (caps : Limits.Caps) :
    (∃ a, frontEnd caps (lead ++ render tr l) = .ok a) ↔ Spec.WF b := by
  constructor
  · rintro ⟨a, ha⟩
    obtain ⟨a1, _⟩ := c10_lex_roundtrip hlead htr l hv
    obtain ⟨_, hast⟩ := text_parses_to_tree_anyflag p b hc _ (C10.layout_toks_anyflag p b a1 hk)
    exact (c01_accepted_is_valid ha).2.2.2 b (by rw [hast, canon_eraseSpans p b hc])
  · intro hwf
    exact c01_valid_never_rejected_anyflag p b hc hwf l hlead htr hv hk caps

/-! ### What the text does is what the tree means -/

/-- **The text runs like the tree**, from the tokens on.  For a text of a valid canonical program `b`:
resolver, limit preflight and analyses accept the TREE `b` with a result `a₀` (annotated program
`(resolve b).root`, a plan that is a function of `b` and the caps only); the shipped pipeline runs the
text; its warnings are `a₀`'s up to positions; and its outcome — printed values, ending, runtime-error
kind — is, up to the position in a runtime error, the outcome of the documented semantics `Eval.run` on
the annotated tree, with the plan `a₀.plan`. -/
theorem c01_accepted_runs_like_the_tree_tokens_anyflag {N : Type} [NumOps N] (p : Expr → Nat) (b : Block)
    (hc : CanonBlock p b) (hwf : Spec.WF b)
    (s : Bytes) (hl : (lex s).2 = [])
    (ht : (lex s).1.map (fun t => flagErase t.tok) = (programToks p b).map (fun t => flagErase t.tok))
    (caps : Limits.Caps) (cfg : Eval.RunCfg) (fuel : Nat) :
    ∃ a₀ ws o, afterParse caps b = .ok a₀ ∧ a₀.root = (Resolve.resolve b).root ∧
      (a₀.plan = none ∨ a₀.plan = some (analysisPlan (Resolve.resolve b).root (Resolve.resolve b).facts)) ∧
      (runSource caps cfg fuel s : Pipeline.Result N) = .ran ws o ∧
      ws.map eraseDiag = a₀.warnings.map eraseDiag ∧
      eraseOutcome o = eraseOutcome (Eval.run { cfg with plan := a₀.plan } fuel (Resolve.resolve b).root) := by
  obtain ⟨hp, hast⟩ := text_parses_to_tree_anyflag p b hc s ht
  have hast' : eraseSpans (parseProgram (lex s).1).1 = eraseSpans b := by
    rw [hast, canon_eraseSpans p b hc]
  obtain ⟨a₀, ha₀, hroot₀, hfacts₀, hplan₀⟩ := afterParse_of_wf caps b hwf
  have hobs : (obs (runSource caps cfg fuel s) : Pipeline.Result N) = obs (runParsed caps cfg fuel b) := by
    rw [runSource_eq, hl, hp]
    simp only [List.append_nil, List.isEmpty_nil, Bool.not_true, Bool.false_eq_true, if_false]
    exact runParsed_congr caps cfg fuel hast'
  obtain ⟨a, ha, _⟩ := c01_valid_never_rejected_tokens_anyflag p b hc hwf s hl ht caps
  have hrun := runSource_of_ok (N := N) cfg fuel ha
  refine ⟨a₀, _, _, ha₀, hroot₀, by rw [← hroot₀, ← hfacts₀]; exact hplan₀, hrun, ?_⟩
  rw [hrun] at hobs
  simp only [runParsed, ha₀, obs, Pipeline.Result.ran.injEq] at hobs
  rw [← hroot₀]
  exact hobs

/-- **C01: the text runs like the tree.**  The same for every valid layout of the printed tokens of
`b`: the documented semantics of the TREE is what the text does. -/
theorem c01_accepted_runs_like_the_tree_anyflag {N : Type} [NumOps N] (p : Expr → Nat) (b : Block)
    (hc : CanonBlock p b) (hwf : Spec.WF b)
    {lead tr : Bytes} (l : Layout) (hlead : Sep lead) (htr : Trail tr) (hv : Valid tr l)
    (hk : l.toks.map flagErase = (printBlock p b).map flagErase)
    (caps : Limits.Caps) (cfg : Eval.RunCfg) (fuel : Nat) :
    ∃ a₀ ws o, afterParse caps b = .ok a₀ ∧ a₀.root = (Resolve.resolve b).root ∧
      (a₀.plan = none ∨ a₀.plan = some (analysisPlan (Resolve.resolve b).root (Resolve.resolve b).facts)) ∧
      (runSource caps cfg fuel (lead ++ render tr l) : Pipeline.Result N) = .ran ws o ∧
      ws.map eraseDiag = a₀.warnings.map eraseDiag ∧
      eraseOutcome o = eraseOutcome (Eval.run { cfg with plan := a₀.plan } fuel (Resolve.resolve b).root) := by
  obtain ⟨a1, a2⟩ := c10_lex_roundtrip hlead htr l hv
  exact c01_accepted_runs_like_the_tree_tokens_anyflag p b hc hwf _ a2 (C10.layout_toks_anyflag p b a1 hk) caps cfg fuel

/-- When a limit trips the analyses hand over no plan, and the text runs exactly like the tree under the
documented semantics without any plan. -/
theorem c01_accepted_runs_like_the_tree_no_plan_anyflag {N : Type} [NumOps N] (p : Expr → Nat) (b : Block)
    (hc : CanonBlock p b) (hwf : Spec.WF b)
    {lead tr : Bytes} (l : Layout) (hlead : Sep lead) (htr : Trail tr) (hv : Valid tr l)
    (hk : l.toks.map flagErase = (printBlock p b).map flagErase)
    (caps : Limits.Caps) (cfg : Eval.RunCfg) (fuel : Nat)
    (htrip : ∀ a₀, afterParse caps b = .ok a₀ → a₀.plan = none) :
    ∃ ws o, (runSource caps cfg fuel (lead ++ render tr l) : Pipeline.Result N) = .ran ws o ∧
      eraseOutcome o = eraseOutcome (Eval.run { cfg with plan := none } fuel (Resolve.resolve b).root) := by
  obtain ⟨a₀, ws, o, ha₀, _, _, hrun, _, ho⟩ :=
    c01_accepted_runs_like_the_tree_anyflag (N := N) p b hc hwf l hlead htr hv hk caps cfg fuel
  rw [htrip a₀ ha₀] at ho
  exact ⟨ws, o, hrun, ho⟩

/-! ### What the text does is what the tree means, whatever the plan (C01 ∘ C03) -/

section Means
open NaijaVerif.C03 (evalObs rtCode toEvalPlan)
open NaijaVerif.Props.C06Accepted (NumLitsParse)
open NaijaVerif.Bridge (isNumLexeme)
open NaijaVerif.ResolveStruct (structRest2B)

/-- The scanner / parser guarantees (number lexemes of the scanner's shape; with `strict`, every index
assignment has an index) hold of a canonical TREE whose printed tokens some text lexes to: they hold of
the parse of the text (`Bridge.parse_source_ok`), which is the tree up to spans. -/
theorem canon_source_ok_anyflag (p : Expr → Nat) (b : Block) (hc : CanonBlock p b) (s : Bytes)
    (ht : (lex s).1.map (fun t => flagErase t.tok) = (programToks p b).map (fun t => flagErase t.tok)) (strict : Bool) :
    Bridge.srcBlock ⟨[], isNumLexeme, strict, none⟩ b = true := by
  obtain ⟨_, hast⟩ := text_parses_to_tree_anyflag p b hc s ht
  have hast' : eraseSpans (parseProgram (lex s).1).1 = eraseSpans b := by
    rw [hast, canon_eraseSpans p b hc]
  rw [← srcBlock_congr_erase _ hast']
  exact Bridge.parse_source_ok ⟨[], isNumLexeme, strict, none⟩ Bridge.isNumLexeme_zero _ (Bridge.lex_numbers s)

/-- The analyses' plan as the runtime takes it is the model's plan of C03. -/
theorem analysisPlan_eq (root : Block) (facts : Facts) :
    analysisPlan root facts = toEvalPlan (Analysis.planModel root facts) := rfl

/-- **C01 ∘ C03, from the tokens on: what a valid text does is what its tree means.**  Let `b` be a
canonical program that satisfies the documented static rules, and `s` a text that lexes without a
diagnostic to the printed tokens of `b` (up to the `escaped` flag of the string tokens without `{`).  For the current code (`lookup = dynamic`, `panics = false`), no
input, every number type whose `ofLit` accepts the scanner's lexemes, and under C03's remaining decidable
side condition on the annotated tree (`structRest2B`; no plan, no caps, no text in it): if the documented
semantics `Eval.run` WITHOUT a plan, on the annotated tree `(resolve b).root`, ends within its fuel with the
observation `o` — the printed values, and a normal ending or the kind of a runtime error other than
`Undefined variable` — then for EVERY limit configuration and all sufficiently large fuel the shipped
pipeline on the TEXT — lexer, parser, checker, limit preflight, analyses, and the run with whatever plan
the analyses computed under those caps — is a run (`.ran`) with the same observation `o`. -/
theorem c01_text_means_tree_anyflag {N : Type} [NumOps N] (hnum : NumLitsParse N isNumLexeme)
    (p : Expr → Nat) (b : Block) (hc : CanonBlock p b) (hwf : Spec.WF b)
    (s : Bytes) (hl : (lex s).2 = [])
    (ht : (lex s).1.map (fun t => flagErase t.tok) = (programToks p b).map (fun t => flagErase t.tok))
    (caps : Limits.Caps) (cfg : Eval.RunCfg)
    (hlk : cfg.lookup = .dynamic) (hpn : cfg.panics = false) (hin : cfg.input = [])
    (hrest : structRest2B (Resolve.resolve b).root (Resolve.resolve b).facts = true)
    (f : Nat) (o : List (Eval.Value N) × Nat)
    (hrun : evalObs (Eval.run (N := N) { cfg with plan := none } f (Resolve.resolve b).root) = some o)
    (hund : o.2 ≠ 10 + rtCode .undefinedVariable) :
    ∃ f', ∀ g, f' ≤ g → ∃ ws out, (runSource caps cfg g s : Pipeline.Result N) = .ran ws out ∧
      evalObs out = some o := by
  -- the checker accepts the tree
  have hacc : Props.C06Eval.Accepted b := C09.c09_well_formed_accepted b hwf
  have hrd : (Resolve.resolve b).rdiags = [] := Props.C06Accepted.accepted_rdiags hacc
  -- C03's side conditions, of the tree
  have hok := C03.resolve_okBlock isNumLexeme b (canon_source_ok_anyflag p b hc s ht false) hrd
  have hs := C03.resolve_structOk2 b hrd hrest
  -- C06: the plain run of the tree does not crash the interpreter
  have hpan : o.2 ≠ 2 := by
    intro h2
    have hnp := Props.C06Accepted.c06_accepted isNumLexeme hnum { cfg with plan := none } hpn (Or.inl hlk) b hacc
      (Props.C06Accepted.planReach_none _ rfl _) (canon_source_ok_anyflag p b hc s ht true) f
    generalize Eval.run (N := N) { cfg with plan := none } f (Resolve.resolve b).root = r at hrun hnp
    cases r with
    | ok out => simp only [evalObs, Option.some.injEq] at hrun; rw [← hrun] at h2; cases h2
    | rt k sp out =>
      simp only [evalObs, Option.some.injEq] at hrun; rw [← hrun] at h2
      simp only at h2; omega
    | panic site out => cases hnp
    | fuelOut => cases hrun
  -- C03 on the tree: the run with the model's plan ends with `o`
  obtain ⟨f₁, hf₁⟩ := C03.c03_eval (N := N) cfg isNumLexeme (Resolve.resolve b).root (Resolve.resolve b).facts
    (Analysis.planModel (Resolve.resolve b).root (Resolve.resolve b).facts) f hlk hpn hin
    (fun lex h => Option.isSome_iff_exists.mp (hnum lex h)) hok hs (by simp [Analysis.Plan.sub, Analysis.subset])
    o hrun hund hpan
  refine ⟨max f f₁, fun g hg => ?_⟩
  -- C01: the text runs like the tree, with the plan the analyses compute from the tree under `caps`
  obtain ⟨a₀, ws, out, _, _, hplan, hran, _, hout⟩ :=
    c01_accepted_runs_like_the_tree_tokens_anyflag (N := N) p b hc hwf s hl ht caps cfg g
  refine ⟨ws, out, hran, ?_⟩
  rw [evalObs_congr hout]
  rcases hplan with hp0 | hp1
  · rw [hp0]
    exact PipelinePrune.evalObs_mono _ (by omega) _ hrun
  · rw [hp1, analysisPlan_eq]
    exact PipelinePrune.evalObs_mono _ (by omega) _ hf₁

/-- **C01 ∘ C03: what a valid text does is what its tree means**, for every valid layout of the printed
tokens of `b` — any separators, comments, line ends, spelling of the multi-word keywords, redundant
parentheses —, every limit configuration and whatever plan the analyses hand over. -/
theorem c01_layout_means_tree_anyflag {N : Type} [NumOps N] (hnum : NumLitsParse N isNumLexeme)
    (p : Expr → Nat) (b : Block) (hc : CanonBlock p b) (hwf : Spec.WF b)
    {lead tr : Bytes} (l : Layout) (hlead : Sep lead) (htr : Trail tr) (hv : Valid tr l)
    (hk : l.toks.map flagErase = (printBlock p b).map flagErase)
    (caps : Limits.Caps) (cfg : Eval.RunCfg)
    (hlk : cfg.lookup = .dynamic) (hpn : cfg.panics = false) (hin : cfg.input = [])
    (hrest : structRest2B (Resolve.resolve b).root (Resolve.resolve b).facts = true)
    (f : Nat) (o : List (Eval.Value N) × Nat)
    (hrun : evalObs (Eval.run (N := N) { cfg with plan := none } f (Resolve.resolve b).root) = some o)
    (hund : o.2 ≠ 10 + rtCode .undefinedVariable) :
    ∃ f', ∀ g, f' ≤ g → ∃ ws out, (runSource caps cfg g (lead ++ render tr l) : Pipeline.Result N) = .ran ws out ∧
      evalObs out = some o := by
  obtain ⟨a1, a2⟩ := c10_lex_roundtrip hlead htr l hv
  exact c01_text_means_tree_anyflag hnum p b hc hwf _ a2 (C10.layout_toks_anyflag p b a1 hk) caps cfg hlk hpn hin hrest
    f o hrun hund

end Means

/-! ### The same for the texts that lex to exactly the printed tokens

The statements above are up to the `escaped` flag of the string tokens without `{` (`Parse.flagErase`); a
text that lexes to the printed tokens themselves is the special case. -/

section Exact
open NaijaVerif.C03 (evalObs rtCode toEvalPlan)
open NaijaVerif.Props.C06Accepted (NumLitsParse)
open NaijaVerif.Bridge (isNumLexeme)
open NaijaVerif.ResolveStruct (structRest2B)

/-- `text_parses_to_tree_anyflag` for a text that lexes to exactly the printed tokens. -/
theorem text_parses_to_tree (p : Expr → Nat) (b : Block) (hc : CanonBlock p b) (s : Bytes)
    (ht : (lex s).1.map (·.tok) = (programToks p b).map (·.tok)) :
    (parseProgram (lex s).1).2 = [] ∧ eraseSpans (parseProgram (lex s).1).1 = b :=
  text_parses_to_tree_anyflag p b hc s (toks_anyflag ht)

/-- **C01 (acceptance), from the tokens on**, for a text that lexes to exactly the printed tokens of `b`. -/
theorem c01_valid_never_rejected_tokens (p : Expr → Nat) (b : Block) (hc : CanonBlock p b) (hwf : Spec.WF b)
    (s : Bytes) (hl : (lex s).2 = []) (ht : (lex s).1.map (·.tok) = (programToks p b).map (·.tok))
    (caps : Limits.Caps) :
    ∃ a, frontEnd caps s = .ok a ∧ eraseSpans a.root = eraseSpans (Resolve.resolve b).root ∧
      a.facts = (Resolve.resolve b).facts :=
  c01_valid_never_rejected_tokens_anyflag p b hc hwf s hl (toks_anyflag ht) caps

/-- **C01: a valid program is never rejected**, for the valid layouts of exactly the printed tokens of `b`. -/
theorem c01_valid_never_rejected (p : Expr → Nat) (b : Block) (hc : CanonBlock p b) (hwf : Spec.WF b)
    {lead tr : Bytes} (l : Layout) (hlead : Sep lead) (htr : Trail tr) (hv : Valid tr l)
    (hk : l.toks = printBlock p b) (caps : Limits.Caps) :
    ∃ a, frontEnd caps (lead ++ render tr l) = .ok a :=
  c01_valid_never_rejected_anyflag p b hc hwf l hlead htr hv (by rw [hk]) caps

/-- … and the shipped pipeline runs it. -/
theorem c01_valid_runs {N : Type} [NumOps N] (p : Expr → Nat) (b : Block) (hc : CanonBlock p b) (hwf : Spec.WF b)
    {lead tr : Bytes} (l : Layout) (hlead : Sep lead) (htr : Trail tr) (hv : Valid tr l)
    (hk : l.toks = printBlock p b) (caps : Limits.Caps) (cfg : Eval.RunCfg) (fuel : Nat) :
    ∃ ws o, (runSource caps cfg fuel (lead ++ render tr l) : Pipeline.Result N) = .ran ws o :=
  c01_valid_runs_anyflag p b hc hwf l hlead htr hv (by rw [hk]) caps cfg fuel

/-- **For the texts of a canonical program, acceptance is validity** (layouts of exactly the printed tokens). -/
theorem c01_accepted_iff_valid (p : Expr → Nat) (b : Block) (hc : CanonBlock p b)
    {lead tr : Bytes} (l : Layout) (hlead : Sep lead) (htr : Trail tr) (hv : Valid tr l)
    (hk : l.toks = printBlock p b) (caps : Limits.Caps) :
    (∃ a, frontEnd caps (lead ++ render tr l) = .ok a) ↔ Spec.WF b :=
  c01_accepted_iff_valid_anyflag p b hc l hlead htr hv (by rw [hk]) caps

/-- **The text runs like the tree**, from the tokens on, for a text that lexes to exactly the printed tokens. -/
theorem c01_accepted_runs_like_the_tree_tokens {N : Type} [NumOps N] (p : Expr → Nat) (b : Block)
    (hc : CanonBlock p b) (hwf : Spec.WF b)
    (s : Bytes) (hl : (lex s).2 = []) (ht : (lex s).1.map (·.tok) = (programToks p b).map (·.tok))
    (caps : Limits.Caps) (cfg : Eval.RunCfg) (fuel : Nat) :
    ∃ a₀ ws o, afterParse caps b = .ok a₀ ∧ a₀.root = (Resolve.resolve b).root ∧
      (a₀.plan = none ∨ a₀.plan = some (analysisPlan (Resolve.resolve b).root (Resolve.resolve b).facts)) ∧
      (runSource caps cfg fuel s : Pipeline.Result N) = .ran ws o ∧
      ws.map eraseDiag = a₀.warnings.map eraseDiag ∧
      eraseOutcome o = eraseOutcome (Eval.run { cfg with plan := a₀.plan } fuel (Resolve.resolve b).root) :=
  c01_accepted_runs_like_the_tree_tokens_anyflag p b hc hwf s hl (toks_anyflag ht) caps cfg fuel

/-- **C01: the text runs like the tree**, for the valid layouts of exactly the printed tokens. -/
theorem c01_accepted_runs_like_the_tree {N : Type} [NumOps N] (p : Expr → Nat) (b : Block)
    (hc : CanonBlock p b) (hwf : Spec.WF b)
    {lead tr : Bytes} (l : Layout) (hlead : Sep lead) (htr : Trail tr) (hv : Valid tr l)
    (hk : l.toks = printBlock p b) (caps : Limits.Caps) (cfg : Eval.RunCfg) (fuel : Nat) :
    ∃ a₀ ws o, afterParse caps b = .ok a₀ ∧ a₀.root = (Resolve.resolve b).root ∧
      (a₀.plan = none ∨ a₀.plan = some (analysisPlan (Resolve.resolve b).root (Resolve.resolve b).facts)) ∧
      (runSource caps cfg fuel (lead ++ render tr l) : Pipeline.Result N) = .ran ws o ∧
      ws.map eraseDiag = a₀.warnings.map eraseDiag ∧
      eraseOutcome o = eraseOutcome (Eval.run { cfg with plan := a₀.plan } fuel (Resolve.resolve b).root) :=
  c01_accepted_runs_like_the_tree_anyflag p b hc hwf l hlead htr hv (by rw [hk]) caps cfg fuel

/-- When a limit trips: no plan (layouts of exactly the printed tokens). -/
theorem c01_accepted_runs_like_the_tree_no_plan {N : Type} [NumOps N] (p : Expr → Nat) (b : Block)
    (hc : CanonBlock p b) (hwf : Spec.WF b)
    {lead tr : Bytes} (l : Layout) (hlead : Sep lead) (htr : Trail tr) (hv : Valid tr l)
    (hk : l.toks = printBlock p b) (caps : Limits.Caps) (cfg : Eval.RunCfg) (fuel : Nat)
    (htrip : ∀ a₀, afterParse caps b = .ok a₀ → a₀.plan = none) :
    ∃ ws o, (runSource caps cfg fuel (lead ++ render tr l) : Pipeline.Result N) = .ran ws o ∧
      eraseOutcome o = eraseOutcome (Eval.run { cfg with plan := none } fuel (Resolve.resolve b).root) :=
  c01_accepted_runs_like_the_tree_no_plan_anyflag p b hc hwf l hlead htr hv (by rw [hk]) caps cfg fuel htrip

/-- `canon_source_ok_anyflag` for a text that lexes to exactly the printed tokens. -/
theorem canon_source_ok (p : Expr → Nat) (b : Block) (hc : CanonBlock p b) (s : Bytes)
    (ht : (lex s).1.map (·.tok) = (programToks p b).map (·.tok)) (strict : Bool) :
    Bridge.srcBlock ⟨[], isNumLexeme, strict, none⟩ b = true :=
  canon_source_ok_anyflag p b hc s (toks_anyflag ht) strict

/-- **C01 ∘ C03, from the tokens on**, for a text that lexes to exactly the printed tokens. -/
theorem c01_text_means_tree {N : Type} [NumOps N] (hnum : NumLitsParse N isNumLexeme)
    (p : Expr → Nat) (b : Block) (hc : CanonBlock p b) (hwf : Spec.WF b)
    (s : Bytes) (hl : (lex s).2 = []) (ht : (lex s).1.map (·.tok) = (programToks p b).map (·.tok))
    (caps : Limits.Caps) (cfg : Eval.RunCfg)
    (hlk : cfg.lookup = .dynamic) (hpn : cfg.panics = false) (hin : cfg.input = [])
    (hrest : structRest2B (Resolve.resolve b).root (Resolve.resolve b).facts = true)
    (f : Nat) (o : List (Eval.Value N) × Nat)
    (hrun : evalObs (Eval.run (N := N) { cfg with plan := none } f (Resolve.resolve b).root) = some o)
    (hund : o.2 ≠ 10 + rtCode .undefinedVariable) :
    ∃ f', ∀ g, f' ≤ g → ∃ ws out, (runSource caps cfg g s : Pipeline.Result N) = .ran ws out ∧
      evalObs out = some o :=
  c01_text_means_tree_anyflag hnum p b hc hwf s hl (toks_anyflag ht) caps cfg hlk hpn hin hrest f o hrun hund

/-- **C01 ∘ C03: what a valid text does is what its tree means**, for the valid layouts of exactly the printed tokens. -/
theorem c01_layout_means_tree {N : Type} [NumOps N] (hnum : NumLitsParse N isNumLexeme)
    (p : Expr → Nat) (b : Block) (hc : CanonBlock p b) (hwf : Spec.WF b)
    {lead tr : Bytes} (l : Layout) (hlead : Sep lead) (htr : Trail tr) (hv : Valid tr l)
    (hk : l.toks = printBlock p b)
    (caps : Limits.Caps) (cfg : Eval.RunCfg)
    (hlk : cfg.lookup = .dynamic) (hpn : cfg.panics = false) (hin : cfg.input = [])
    (hrest : structRest2B (Resolve.resolve b).root (Resolve.resolve b).facts = true)
    (f : Nat) (o : List (Eval.Value N) × Nat)
    (hrun : evalObs (Eval.run (N := N) { cfg with plan := none } f (Resolve.resolve b).root) = some o)
    (hund : o.2 ≠ 10 + rtCode .undefinedVariable) :
    ∃ f', ∀ g, f' ≤ g → ∃ ws out, (runSource caps cfg g (lead ++ render tr l) : Pipeline.Result N) = .ran ws out ∧
      evalObs out = some o :=
  c01_layout_means_tree_anyflag hnum p b hc hwf l hlead htr hv (by rw [hk]) caps cfg hlk hpn hin hrest f o hrun hund

end Exact

/-! ### Non-vacuity -/

section Examples
open NaijaVerif.Eval

private def v (x : Bytes) : Expr := .var x none zspan

/-- a function, a loop, an interpolated string and a string method:
```
do f(a) start return a add 1 end
make i get 0       make s get "x{i}y"
jasi (i small pass s.len()) start i get f(i) end
shout(i)
``` -/
def demoProg : Block :=
  .mk [.fnDef (b!"f") zspan [{ name := b!"a", span := zspan }]
         (.mk [.ret (some (.binary .add (v (b!"a")) (.num (b!"1") zspan) zspan)) none zspan] zspan) none none zspan,
       .assign (b!"i") zspan (.num (b!"0") zspan) none none zspan,
       .assign (b!"s") zspan (.str (.interp [.lit (b!"x"), .var (b!"i") none, .lit (b!"y")]) zspan) none none zspan,
       .loop (.binary .lt (v (b!"i")) (.call (.member (v (b!"s")) (b!"len") zspan zspan) [] none zspan) zspan)
         (.mk [.assignExisting (b!"i") zspan (.call (v (b!"f")) [v (b!"i")] none zspan) none none zspan] zspan)
         none zspan,
       .expr (.call (v (b!"shout")) [v (b!"i")] none zspan) none zspan] zspan

/-- one redundant pair around the method call, two around the literal `1` -/
def demoQ : Expr → Nat
  | .call (.member _ _ _ _) _ _ _ => 1
  | .num [49] _ => 2
  | _ => 0

/-- the program as a text: comments, blank lines, CRLF, tabs, `small pass` split over two lines,
redundant parentheses, an unfinished comment at the end -/
def demoText : Bytes :=
  b!"# count up to the length\ndo f(a) start\r\n\treturn a add ((1)) # next\nend\n\nmake i get 0\nmake s get \"x{i}y\"\njasi (i small\n pass (s.len())) start i get f(i) end\nshout(i) # done"

theorem demoProg_canon : CanonBlock demoQ demoProg := by
  simp only [demoProg, v, CanonBlock, CanonStmts, CanonStmt, CanonParam, Parse.WF, WFs, isBareRet,
    List.mem_singleton, forall_eq, and_self, true_and]
  exact ⟨by unfold strOk; decide +kernel, b!"shout", [.lparen, .ident (b!"i"), .rparen], by decide⟩

theorem demoProg_valid : Spec.WF demoProg := by decide +kernel

theorem demoText_tokens : (lex demoText).2 = [] ∧
    (lex demoText).1.map (·.tok) = (programToks demoQ demoProg).map (·.tok) := by decide +kernel

/-- an instance of `c01_valid_never_rejected_tokens`: accepted whatever the limits … -/
example (caps : Limits.Caps) : ∃ a, frontEnd caps demoText = .ok a :=
  (c01_valid_never_rejected_tokens demoQ demoProg demoProg_canon demoProg_valid demoText
    demoText_tokens.1 demoText_tokens.2 caps).imp fun _ h => h.1

/-- … and of `c01_accepted_runs_like_the_tree_tokens`. -/
example (caps : Limits.Caps) (cfg : RunCfg) (fuel : Nat) :
    ∃ a₀ ws o, afterParse caps demoProg = .ok a₀ ∧ a₀.root = (Resolve.resolve demoProg).root ∧
      (a₀.plan = none ∨
        a₀.plan = some (analysisPlan (Resolve.resolve demoProg).root (Resolve.resolve demoProg).facts)) ∧
      (runSource caps cfg fuel demoText : Pipeline.Result Int) = .ran ws o ∧
      ws.map eraseDiag = a₀.warnings.map eraseDiag ∧
      eraseOutcome o = eraseOutcome (Eval.run { cfg with plan := a₀.plan } fuel (Resolve.resolve demoProg).root) :=
  c01_accepted_runs_like_the_tree_tokens demoQ demoProg demoProg_canon demoProg_valid demoText
    demoText_tokens.1 demoText_tokens.2 caps cfg fuel

-- what the text does: no warning, prints `3`, ends normally — and so does the tree
example : C10.shown (runSource C10.roomyCaps Toy.cfg 200 demoText) = (2, [], [b!"3"], 0, none) := by
  decide +kernel
example : (Toy.summary (Eval.run (N := Int) Toy.cfg 200 (Resolve.resolve demoProg).root)) = ([b!"3"], 0) := by
  decide +kernel

/-- the same tree with `s` used at another type than it was declared with (`s minus 1` for a string
`s`): not valid, and the text is rejected by the checker -/
def badProg : Block :=
  .mk [.assign (b!"s") zspan (.str (.static (b!"abc")) zspan) none none zspan,
       .expr (.call (v (b!"shout")) [.binary .minus (v (b!"s")) (.num (b!"1") zspan) zspan] none zspan) none zspan] zspan

example : ¬ Spec.WF badProg := by decide +kernel
example : C10.shown (runSource C10.roomyCaps Toy.cfg 50 (b!"make s get \"abc\"\nshout(s minus 1)"))
    = (1, [.typeMismatch], [], 0, none) := by decide +kernel

/-! A static string without an escape sequence.  It is printed as the `escaped` string token (`strTok`),
which only a literal that contains an escape sequence lexes to; the plain literal `"abc"` lexes to the
unescaped token, so `plainText` does NOT lex to the printed tokens of its tree `plainProg` and is outside
the statements of section `Exact`.  The parser does not read the flag of a string without `{`
(`C10Parse.parse_ignores_str_flag`): the text lexes to the printed tokens up to `flagErase`, and the
`…_anyflag` statements apply. -/

def plainText : Bytes := b!"make s get \"abc\"\nshout(s.len())"

def plainProg : Block :=
  .mk [.assign (b!"s") zspan (.str (.static (b!"abc")) zspan) none none zspan,
       .expr (.call (v (b!"shout")) [.call (.member (v (b!"s")) (b!"len") zspan zspan) [] none zspan] none zspan)
         none zspan] zspan

theorem plainProg_canon : CanonBlock (fun _ => 0) plainProg := by
  simp only [plainProg, v, CanonBlock, CanonStmts, CanonStmt, Parse.WF, WFs, isBareRet, and_self, true_and]
  exact ⟨by unfold strOk; decide +kernel, b!"shout",
    [.lparen, .ident (b!"s"), .dot, .ident (b!"len"), .lparen, .rparen, .rparen], by decide⟩

theorem plainProg_valid : Spec.WF plainProg := by decide +kernel

/-- the text is clean; its tokens are not the printed tokens of `plainProg`, but they are up to the flag -/
theorem plainText_tokens : (lex plainText).2 = [] ∧
    (lex plainText).1.map (·.tok) ≠ (programToks (fun _ => 0) plainProg).map (·.tok) ∧
    (lex plainText).1.map (fun t => flagErase t.tok)
      = (programToks (fun _ => 0) plainProg).map (fun t => flagErase t.tok) := by decide +kernel

/-- an instance of `c01_valid_never_rejected_tokens_anyflag`: accepted whatever the limits … -/
example (caps : Limits.Caps) : ∃ a, frontEnd caps plainText = .ok a :=
  (c01_valid_never_rejected_tokens_anyflag _ plainProg plainProg_canon plainProg_valid plainText
    plainText_tokens.1 plainText_tokens.2.2 caps).imp fun _ h => h.1

/-- … and of `c01_accepted_runs_like_the_tree_tokens_anyflag`: the text runs like the tree `plainProg`. -/
example (caps : Limits.Caps) (cfg : RunCfg) (fuel : Nat) :
    ∃ a₀ ws o, afterParse caps plainProg = .ok a₀ ∧ a₀.root = (Resolve.resolve plainProg).root ∧
      (a₀.plan = none ∨
        a₀.plan = some (analysisPlan (Resolve.resolve plainProg).root (Resolve.resolve plainProg).facts)) ∧
      (runSource caps cfg fuel plainText : Pipeline.Result Int) = .ran ws o ∧
      ws.map eraseDiag = a₀.warnings.map eraseDiag ∧
      eraseOutcome o = eraseOutcome (Eval.run { cfg with plan := a₀.plan } fuel (Resolve.resolve plainProg).root) :=
  c01_accepted_runs_like_the_tree_tokens_anyflag _ plainProg plainProg_canon plainProg_valid plainText
    plainText_tokens.1 plainText_tokens.2.2 caps cfg fuel

-- what the text does: prints `3`, ends normally — and so does the tree
example : C10.shown (runSource C10.roomyCaps Toy.cfg 50 plainText) = (2, [], [b!"3"], 0, none) := by
  decide +kernel
example : (Toy.summary (Eval.run (N := Int) Toy.cfg 50 (Resolve.resolve plainProg).root)) = ([b!"3"], 0) := by
  decide +kernel

-- the statement without a printer applies too
example (caps : Limits.Caps) : ∃ a, frontEnd caps plainText = .ok a :=
  (c01_accepted_iff_clean_and_valid caps plainText).mpr (by decide +kernel)

/-! `c01_valid_never_rejected` itself, on the two explicit layouts of `shout ( 1 )` of `Props/C10.lean` -/

def shoutProg : Block :=
  .mk [.expr (.call (v (b!"shout")) [.num (b!"1") zspan] none zspan) none zspan] zspan

theorem shoutProg_canon : CanonBlock (fun _ => 0) shoutProg := by
  simp only [shoutProg, v, CanonBlock, CanonStmts, CanonStmt, Parse.WF, WFs, and_self, true_and]
  exact ⟨b!"shout", [.lparen, .num (b!"1"), .rparen], by decide⟩

theorem shoutProg_valid : Spec.WF shoutProg := by decide +kernel

example (caps : Limits.Caps) : ∃ a, frontEnd caps ([] ++ render [] C10.tightL) = .ok a :=
  c01_valid_never_rejected _ shoutProg shoutProg_canon shoutProg_valid C10.tightL Sep.nil (Or.inl rfl)
    C10.tightL_valid (by decide) caps

example (caps : Limits.Caps) (cfg : RunCfg) (fuel : Nat) :
    ∃ ws o, (runSource caps cfg fuel (b!"\n" ++ render (b!"# end") C10.looseL) : Pipeline.Result Int) = .ran ws o :=
  c01_valid_runs _ shoutProg shoutProg_canon shoutProg_valid C10.looseL (Sep.ws 10 [] (by decide) Sep.nil)
    (Or.inr ⟨b!" end", rfl, by decide⟩) C10.looseL_valid (by decide) caps cfg fuel

example (caps : Limits.Caps) :
    (∃ a, frontEnd caps (b!"\n" ++ render (b!"# end") C10.looseL) = .ok a) ↔ Spec.WF shoutProg :=
  c01_accepted_iff_valid _ shoutProg shoutProg_canon C10.looseL (Sep.ws 10 [] (by decide) Sep.nil)
    (Or.inr ⟨b!" end", rfl, by decide⟩) C10.looseL_valid (by decide) caps

/-- caps under which the single statement of `shout(1)` is one too many: no plan, and the text runs like
the tree without a plan -/
def tightCaps : Limits.Caps := { C10.roomyCaps with maxStatements := 0 }

example (cfg : RunCfg) (fuel : Nat) :
    ∃ ws o, (runSource tightCaps cfg fuel (b!"\n" ++ render (b!"# end") C10.looseL) : Pipeline.Result Int) = .ran ws o ∧
      eraseOutcome o = eraseOutcome (Eval.run { cfg with plan := none } fuel (Resolve.resolve shoutProg).root) :=
  c01_accepted_runs_like_the_tree_no_plan _ shoutProg shoutProg_canon shoutProg_valid C10.looseL
    (Sep.ws 10 [] (by decide) Sep.nil) (Or.inr ⟨b!" end", rfl, by decide⟩) C10.looseL_valid (by decide)
    tightCaps cfg fuel (by
      have h : (match afterParse tightCaps shoutProg with
          | .ok a => a.plan.isNone
          | .error _ => false) = true := by decide +kernel
      intro a₀ h₀
      rw [h₀] at h
      exact Option.isNone_iff_eq_none.mp h)

/-! `c01_text_means_tree` (C01 ∘ C03).  Numbers: `trivialNum` (`Props/C06Accepted.lean`), a number type for
which `NumLitsParse _ isNumLexeme` holds. -/

section MeansExamples
open NaijaVerif.C03 (evalObs)
open NaijaVerif.Props.C06Accepted (trivialNum)
open NaijaVerif.ResolveStruct (structRest2B)

/-- C03's remaining side condition holds of `demoProg` … -/
theorem demoProg_rest :
    structRest2B (Resolve.resolve demoProg).root (Resolve.resolve demoProg).facts = true := by decide +kernel

/-- … so all hypotheses of `c01_text_means_tree` are discharged for `demoText`: under every limit
configuration the text is run and ends like its tree under the documented semantics without a plan. -/
example (caps : Limits.Caps) : ∃ o f', o.2 = 0 ∧ ∀ g, f' ≤ g → ∃ ws out,
    (@runSource Unit trivialNum caps Toy.cfg g demoText) = .ran ws out ∧ evalObs out = some o := by
  obtain ⟨o, ho, ho2⟩ : ∃ o, evalObs (@Eval.run Unit trivialNum { Toy.cfg with plan := none } 200
      (Resolve.resolve demoProg).root) = some o ∧ o.2 = 0 :=
    PipelinePrune.evalObs_endsOk (by decide +kernel)
  obtain ⟨f', hf'⟩ := @c01_text_means_tree Unit trivialNum (fun _ _ => rfl) demoQ demoProg demoProg_canon
    demoProg_valid demoText demoText_tokens.1 demoText_tokens.2 caps Toy.cfg rfl rfl rfl demoProg_rest 200 o ho
    (by rw [ho2]; decide)
  exact ⟨o, f', ho2, hf'⟩

/-- The same for `plainText`, whose static string is spelled without an escape sequence
(`c01_text_means_tree_anyflag`; the text is outside `c01_text_means_tree`). -/
theorem plainProg_rest :
    structRest2B (Resolve.resolve plainProg).root (Resolve.resolve plainProg).facts = true := by decide +kernel

example (caps : Limits.Caps) : ∃ o f', o.2 = 0 ∧ ∀ g, f' ≤ g → ∃ ws out,
    (@runSource Unit trivialNum caps Toy.cfg g plainText) = .ran ws out ∧ evalObs out = some o := by
  obtain ⟨o, ho, ho2⟩ : ∃ o, evalObs (@Eval.run Unit trivialNum { Toy.cfg with plan := none } 50
      (Resolve.resolve plainProg).root) = some o ∧ o.2 = 0 :=
    PipelinePrune.evalObs_endsOk (by decide +kernel)
  obtain ⟨f', hf'⟩ := @c01_text_means_tree_anyflag Unit trivialNum (fun _ _ => rfl) _ plainProg plainProg_canon
    plainProg_valid plainText plainText_tokens.1 plainText_tokens.2.2 caps Toy.cfg rfl rfl rfl plainProg_rest 50 o ho
    (by rw [ho2]; decide)
  exact ⟨o, f', ho2, hf'⟩

/-- A program the analyses really prune: the value stored by `x get 2` is never read. -/
def pruneProg : Block :=
  .mk [.assign (b!"x") zspan (.num (b!"1") zspan) none none zspan,
       .assignExisting (b!"x") zspan (.num (b!"2") zspan) none none zspan,
       .assignExisting (b!"x") zspan (.num (b!"3") zspan) none none zspan,
       .expr (.call (v (b!"shout")) [v (b!"x")] none zspan) none zspan] zspan

/-- one redundant pair around the literal `2` -/
def pruneQ : Expr → Nat
  | .num [50] _ => 1
  | _ => 0

def pruneText : Bytes := b!"make x get 1 # never read\nx get (2)\r\n\tx get 3\nshout(x) # 3"

theorem pruneProg_canon : CanonBlock pruneQ pruneProg := by
  simp only [pruneProg, v, CanonBlock, CanonStmts, CanonStmt, Parse.WF, WFs, isBareRet, and_self, true_and]
  exact ⟨b!"shout", [.lparen, .ident (b!"x"), .rparen], by decide⟩

theorem pruneProg_valid : Spec.WF pruneProg := by decide +kernel

theorem pruneText_tokens : (lex pruneText).2 = [] ∧
    (lex pruneText).1.map (·.tok) = (programToks pruneQ pruneProg).map (·.tok) := by decide +kernel

theorem pruneProg_rest :
    structRest2B (Resolve.resolve pruneProg).root (Resolve.resolve pruneProg).facts = true := by decide +kernel

-- the plan of the analyses removes statement 1; under `roomyCaps` the front end hands that plan to the
-- runtime, under `tightCaps` (a limit trips) none — `c01_text_means_tree` covers both
example : Analysis.planModel (Resolve.resolve pruneProg).root (Resolve.resolve pruneProg).facts = ⟨[1], []⟩ := by
  decide +kernel
example : (frontEnd C10.roomyCaps pruneText).toOption.map (fun a => a.plan.map (·.stmts)) = some (some [1]) ∧
    (frontEnd tightCaps pruneText).toOption.map (fun a => a.plan.map (·.stmts)) = some none := by decide +kernel

/-- An instance of `c01_text_means_tree` where the run of the text skips a statement the plain run of
the tree executes. -/
example (caps : Limits.Caps) : ∃ o f', o.2 = 0 ∧ ∀ g, f' ≤ g → ∃ ws out,
    (@runSource Unit trivialNum caps Toy.cfg g pruneText) = .ran ws out ∧ evalObs out = some o := by
  obtain ⟨o, ho, ho2⟩ : ∃ o, evalObs (@Eval.run Unit trivialNum { Toy.cfg with plan := none } 50
      (Resolve.resolve pruneProg).root) = some o ∧ o.2 = 0 :=
    PipelinePrune.evalObs_endsOk (by decide +kernel)
  obtain ⟨f', hf'⟩ := @c01_text_means_tree Unit trivialNum (fun _ _ => rfl) pruneQ pruneProg pruneProg_canon
    pruneProg_valid pruneText pruneText_tokens.1 pruneText_tokens.2 caps Toy.cfg rfl rfl rfl pruneProg_rest 50 o ho
    (by rw [ho2]; decide)
  exact ⟨o, f', ho2, hf'⟩

-- with the toy `Int` numbers: the text prints `3` with the plan and without it, and so does the tree
example : C10.shown (runSource C10.roomyCaps Toy.cfg 50 pruneText) =
    (2, [.unusedAssignment, .unusedAssignment], [b!"3"], 0, none) := by decide +kernel
example : C10.shown (runSource tightCaps Toy.cfg 50 pruneText) = (2, [.analysisLimit], [b!"3"], 0, none) := by
  decide +kernel
example : (Toy.summary (Eval.run (N := Int) Toy.cfg 50 (Resolve.resolve pruneProg).root)) = ([b!"3"], 0) := by
  decide +kernel

end MeansExamples

end Examples

end NaijaVerif.C01Accept
