import NaijaVerif.Lemmas.BridgeSafe
import NaijaVerif.Lemmas.BridgeReach
import NaijaVerif.Lemmas.BridgeReachPlan
import NaijaVerif.Lemmas.BridgeReachNum
import NaijaVerif.Lemmas.BridgeReachClosed
import NaijaVerif.Lemmas.ResolveFactsOwn
import NaijaVerif.Lemmas.ResolveFactsRange
import NaijaVerif.Lemmas.BridgeSource
import NaijaVerif.Model.Pipeline
import NaijaVerif.Props.C06Eval
import NaijaVerif.Props.C04Bridge
import NaijaVerif.Props.C13
/-
C06 — an accepted program never crashes the interpreter: the residual sites, from the resolver model.

`Props/C06Eval.lean` proves that the current evaluator can panic only at nine RESIDUAL sites and that
C06 is exactly their unreachability (`ResidualUnreachable`, a hypothesis there).  Here that hypothesis
is discharged from the resolver model (`Model/Resolve.lean`), through the bridge of C04
(`Props/C04Bridge.lean`: the output of the resolver for an accepted program is `WellScoped`, so the
evaluator's invariant `MR` holds along every run) and a second walk over the checker
(`Lemmas/BridgeOk.lean`: arity table, loop flag) and over the evaluator (`Lemmas/BridgeSafe.lean`).

* `accepted_panics_only_at_scanner_parser_sites` — for EVERY accepted program (any AST the resolver
  model accepts, wherever it comes from), every number type, host configuration and fuel: the run of
  the current code can panic at most at `numLit` or `assignIndexEmpty`.  SEVEN of the nine residual
  sites are closed with no further assumption; each is restated as its own theorem:
  `callArity_unreachable`, `builtinArity_unreachable` (the resolver's arity rules),
  `flowEscape_unreachable` (`comot`/`next` only inside a loop of the same function body),
  `fnById_unreachable`, `fnByName_unreachable` (a bound call finds its hoisted function: `MR`),
  `paramRange_unreachable` (`declareParams` annotates every parameter), `twMaximalSuffix_unreachable`
  (C13: `find` / `replace` are total).
* The other two are guarantees of the scanner and the parser, not of the resolver — the resolver
  model ACCEPTS `x get 1` written as an index assignment without index, and a number node with any
  lexeme (`resolver_accepts_index_assignment_without_index`): `numLit_unreachable` needs that
  `NumOps.ofLit` accepts the program's number lexemes (an assumption on the `NumOps` instance, stated
  through a predicate `numOk` on lexemes), `assignIndexEmpty_unreachable` that the targets of index
  assignments are index expressions (`srcBlock`, a decidable check of the parser's output).
* `c06_accepted`: under these two, an accepted program never panics.
* `source_ok`: both are PROVED for every program that comes out of the lexer and parser models
  (`Lemmas/BridgeSource.lean`), with `numOk := isNumLexeme` (`digits` or `digits.digits`); hence
  `c06_source` (any text; the one assumption left on the number type is `NumLitsParse N isNumLexeme`:
  `parse::<f64>` accepts such lexemes) and `c06_pipeline` (the shipped `Pipeline.runSource`).
* The plan: `C06Eval.c06_full` quantifies over ARBITRARY optimisation plans and is false as stated —
  a plan that removes a function the program calls makes the call panic at `fnById`
  (`c06_full_is_false_for_arbitrary_plans`).  The theorems here assume `PlanReach`: there is a set `K`
  of function ids that the plan keeps and that is closed under the calls of the code that can run —
  the top-level code and the bodies of the definitions in `K`, outside removed statements (which the
  evaluator skips) and outside nested definitions (`Bridge.KeptReach`, `Lemmas/BridgeReach.lean`;
  decidable for a given finite `K`, and for the canonical `K` computed from the annotations:
  `planReaches`).  The bodies of definitions OUTSIDE `K` are exempt — a definition in dead code is
  hoisted whatever the plan says about its statement, and what only it calls may be removed.
  `PlanKeepsCalls` (`keptBlock`: every kept function calls kept functions only) is the special case
  `K` = all kept functions; it is FALSE for the plan of the real analyses on such programs
  (`keptBlock_too_strong`), `PlanReach` is not:
* `analysis_plan_reach` (`Lemmas/BridgeReachPlan.lean`): the plan of the analysis MODEL satisfies it
  with `K := bodyReachable` (diagnostics.rs `compute_function_reachability`) under decidable
  conditions on the annotated program and its facts only (no plan): every statement is numbered
  (PROVED of the resolver model's output: `accepted_numbered`), the facts of a statement name its
  function and cover the callees of its own expressions (`ownOkB`, a hypothesis of C03's T3,
  evaluated by the `plan` driver on every case), and the fixpoint iteration of `bodyReachable` has
  converged (`brClosed`, likewise) — the last two are `FactsCoverCalls`.  `c06_accepted_analysis` and
  `c06_pipeline_reach` are `c06_accepted` / `c06_pipeline` with `FactsCoverCalls` of the front end's
  result in place of the hypothesis on the plan.
* `FactsCoverCalls` is PROVED of the resolver model's output, for every input program
  (`resolve_factsCoverCalls`): `brClosed` is a fixpoint fact about the analysis model — `nFns` rounds
  suffice whenever the recorded callees are function ids (`brClosed_of_calleesInRange`,
  `brClosed_of_wf`; `Lemmas/BridgeReachClosed.lean`) —, the resolver records function ids only
  (`resolve_calleesInRange`, `Lemmas/ResolveFactsRange.lean`), and it records the callee of a call in
  the facts of the statement being checked at the place where it writes the binding
  (`resolve_ownOk`, `Lemmas/ResolveFactsOwn.lean`).  Hence `c06_accepted_model_plan` and
  **`c06_pipeline_unconditional`**: a text that the shipped pipeline gets as far as running never
  panics — the assumptions left are `NumLitsParse N isNumLexeme` (on the number type) and
  `cfg.panics = false`, `CurrentLookup cfg` (the current code).
* Lookup: the theorems are for the lookup of the current code (`dynamic`) and for `lexical` (equal runs
  by C04); the whole-stack lookup of the code before the fix of D-04 is not covered.
-/
namespace NaijaVerif.Props.C06Accepted
open NaijaVerif NaijaVerif.Eval NaijaVerif.Bridge
open NaijaVerif.Props.C06Eval (Accepted)

/-! ### The assumptions, named -/

/-- The optimisation plan removes no function that kept code calls: a decidable check of the
annotated program against the plan (`Bridge.keptBlock`: every call outside the bodies of removed
functions and outside the statements the plan removes — `Bridge.stmtSkipped`, the evaluator's own skip
test — carries the id of a function the plan keeps).  The plan may remove any statement. -/
def PlanKeepsCalls (cfg : RunCfg) (p : Block) : Prop := keptBlock cfg.plan p = true

instance (cfg : RunCfg) (p : Block) : Decidable (PlanKeepsCalls cfg p) := inferInstanceAs (Decidable (_ = true))

/-- Without a plan (and with any plan that removes no function) the condition holds. -/
theorem planKeepsCalls_none (cfg : RunCfg) (h : cfg.plan = none) (p : Block) : PlanKeepsCalls cfg p := by
  unfold PlanKeepsCalls; rw [h]; exact kept_none.2 p

/-- **The hypothesis on the plan**: some set `K` of function ids is kept by the plan and closed under
the calls of the code that can run (`Bridge.KeptReach`: the top-level code and the bodies of the
definitions in `K`, outside the statements the plan removes and outside nested definitions; the
bodies of definitions outside `K` are exempt). -/
def PlanReach (cfg : RunCfg) (p : Block) : Prop := ∃ K : Nat → Bool, KeptReach K cfg.plan p

/-- For a finite `K` the condition is a decidable check of the annotated program against the plan. -/
theorem planReach_of_keptReach {cfg : RunCfg} {p : Block} (K : List Nat) (h : keptReach K cfg.plan p = true) :
    PlanReach cfg p := ⟨_, keptReach_spec h⟩

/-- … in particular with the canonical `K` computed from the call annotations (`Bridge.reachK`; what
the driver evaluates on the real plan and the real resolver's output of every accepted program). -/
theorem planReach_of_planReaches {cfg : RunCfg} {p : Block} (h : planReaches cfg.plan p = true) : PlanReach cfg p :=
  planReach_of_keptReach _ h

/-- `PlanKeepsCalls` is the special case `K` = every function the plan keeps. -/
theorem PlanKeepsCalls.reach {cfg : RunCfg} {p : Block} (h : PlanKeepsCalls cfg p) : PlanReach cfg p :=
  ⟨_, keptReach_of_keptBlock h⟩

theorem planReach_none (cfg : RunCfg) (h : cfg.plan = none) (p : Block) : PlanReach cfg p :=
  (planKeepsCalls_none cfg h p).reach

/-- The extended plan of `Lemmas/BridgeReach.lean` is one the evaluator side accepts for the plan of
the run: the same statements are skipped, more functions are removed. -/
theorem planExt_planK (n : Nat) (K : Nat → Bool) (plan : Option Plan) : PlanExt (some (planK n K plan)) plan :=
  ⟨planK_stmt n K plan, planK_fn_of_pruned n K plan⟩

/-- The lookup of the current code, or the lexical reference lookup. -/
def CurrentLookup (cfg : RunCfg) : Prop := cfg.lookup = .dynamic ∨ cfg.lookup = .lexical

instance (cfg : RunCfg) : Decidable (CurrentLookup cfg) := by unfold CurrentLookup; exact inferInstance

/-- C13: the string search never reaches the out-of-range read of `maximal_suffix`. -/
theorem strTotal : StrTotal := by
  refine ⟨fun h n => ?_, fun h f t => ?_⟩
  · simp [StrOps.find, StrOps.twPanics, StrOps.pinnedD13, Strs.find_eq_firstOcc]
  · simp [StrOps.replace, StrOps.twPanics, StrOps.pinnedD13, Strs.replace_eq_spec]

theorem accepted_rdiags {q : Block} (h : Accepted q) : (Resolve.resolve q).rdiags = [] := by
  have hd : (Resolve.resolve q).diags = (Resolve.resolve q).rdiags.map Resolve.RDiag.toDiag := rfl
  unfold Accepted at h
  rw [hd] at h
  exact List.map_eq_nil_iff.1 h

theorem accepted_wellScoped {q : Block} (h : Accepted q) : WellScoped (Resolve.resolve q).root :=
  Resolve.resolve_wellScoped true q (accepted_rdiags h)

/-! ### The run -/

variable {N : Type} [NumOps N]

theorem cfg_dyn_eq {cfg : RunCfg} (h : cfg.lookup = .dynamic) : cfg.dyn = cfg := by
  cases cfg; simp only [RunCfg.dyn] at *; subst h; rfl

theorem cfg_lex_eq {cfg : RunCfg} (h : cfg.lookup = .lexical) : cfg.lex = cfg := by
  cases cfg; simp only [RunCfg.lex] at *; subst h; rfl

/-- Under either lookup the run of a well-scoped program is the run of the current code. -/
theorem run_eq_dyn {cfg : RunCfg} (hl : CurrentLookup cfg) (fuel : Nat) (p : Block) (hws : WellScoped p) :
    (run cfg fuel p : Outcome N) = run cfg.dyn fuel p := by
  rcases hl with h | h
  · rw [cfg_dyn_eq h]
  · have := C04.c04_dynamic (N := N) cfg fuel p hws
    have e : cfg.lex = cfg := cfg_lex_eq h
    show run cfg fuel p = run { cfg with lookup := .dynamic } fuel p
    rw [this]
    show run cfg fuel p = run cfg.lex fuel p
    rw [e]

/-- **The evaluator side**: a well-scoped program with the static guarantees panics at most at the
allowed sites. -/
theorem run_safe {A : Allowed} {C : SCfg} {cfg : RunCfg} (H : Hyp N A C cfg) (hl : CurrentLookup cfg)
    (p : Block) (hws : WellScoped p) (hok : okBlock C false p = true) (fuel : Nat) (site : PanicSite)
    (out : List (Value N)) (h : (run cfg fuel p : Outcome N) = .panic site out) : A site := by
  rw [run_eq_dyn hl fuel p hws] at h
  have hF : FInv C (State.init cfg : State N).env := by
    intro S hS fd hfd
    simp only [State.init, List.mem_singleton] at hS
    subst hS; cases hfd
  have hs := ((safe_all H fuel).block [Binder.root] false p (State.init cfg) (MR.init cfg cfg) hws hok hF).1
  unfold run at h
  have hi : (State.init cfg.dyn : State N) = State.init cfg := rfl
  rw [hi] at h
  cases hr : execBlock cfg.dyn fuel p (State.init cfg : State N) with
  | panic s st =>
    rw [hr] at h
    have e : s = site := by cases h; rfl
    rw [← e]
    exact hs s st hr
  | ok a st => rw [hr] at h; cases h
  | err k sp st => rw [hr] at h; cases h
  | fuel => rw [hr] at h; cases h

/-! ### Seven sites closed for every accepted program -/

/-- The sites that are guarantees of the scanner / the parser. -/
def ScannerParserSite (s : PanicSite) : Prop := s = .numLit ∨ s = .assignIndexEmpty

/-- **For every accepted program** — any AST the resolver model accepts —, every number type, host
configuration without function pruning, and fuel: the current code can panic at most at `numLit`
(a number lexeme that does not parse) or `assignIndexEmpty` (an index assignment without index). -/
theorem accepted_panics_only_at_scanner_parser_sites (cfg : RunCfg) (hp : cfg.panics = false)
    (hl : CurrentLookup cfg) (q : Block) (hacc : Accepted q) (hk : PlanReach cfg (Resolve.resolve q).root) (fuel : Nat)
    (site : PanicSite) (out : List (Value N))
    (h : (run cfg fuel (Resolve.resolve q).root : Outcome N) = .panic site out) : ScannerParserSite site := by
  obtain ⟨K, hK, hr⟩ := hk
  have hok := ok_reach_block ⟨arityTable (Resolve.resolve q), fun _ => true, false, none⟩ K cfg.plan hK _ false
    (resolve_ok true (fun _ => true) false q ((src_lax []).2 q) (accepted_rdiags hacc)) hr
  refine run_safe (A := ScannerParserSite)
    ⟨hp, planExt_planK _ K cfg.plan, Or.inl (Or.inl rfl), Or.inr strTotal, Or.inl (Or.inr rfl)⟩ hl _
    (accepted_wellScoped hacc) hok fuel site out h

section sites
variable (cfg : RunCfg) (hp : cfg.panics = false) (hl : CurrentLookup cfg)
  (q : Block) (hacc : Accepted q) (hk : PlanReach cfg (Resolve.resolve q).root) (fuel : Nat)
  (out : List (Value N))
include hp hl hk hacc

/-- `callArity` (`assert_eq!(arg_values.len(), params.len())`): the resolver reports
`FunctionCallArity` unless the call has as many arguments as the signature it is bound to has
parameters, and that signature is the one pushed for the definition the run finds. -/
theorem callArity_unreachable : (run cfg fuel (Resolve.resolve q).root : Outcome N) ≠ .panic .callArity out := by
  intro h
  rcases accepted_panics_only_at_scanner_parser_sites cfg hp hl q hacc hk fuel _ out h with e | e <;> cases e

/-- `builtinArity` (`assert_eq!(arg_values.len(), 1)`): the resolver's arity rule for the global
builtins, all of arity one. -/
theorem builtinArity_unreachable :
    (run cfg fuel (Resolve.resolve q).root : Outcome N) ≠ .panic .builtinArity out := by
  intro h
  rcases accepted_panics_only_at_scanner_parser_sites cfg hp hl q hacc hk fuel _ out h with e | e <;> cases e

/-- `flowEscape` (`unreachable!` after a function body ends with `Break` / `Continue`): the resolver
accepts `comot` / `next` only inside a loop of the same function body, and such a flow never leaves
the loop. -/
theorem flowEscape_unreachable :
    (run cfg fuel (Resolve.resolve q).root : Outcome N) ≠ .panic .flowEscape out := by
  intro h
  rcases accepted_panics_only_at_scanner_parser_sites cfg hp hl q hacc hk fuel _ out h with e | e <;> cases e

/-- `fnById` (`lookup_func_by_id(..).expect`): a call bound to a `FunctionId` finds the function —
the defining block's instance on the static chain hoisted it (`MR`, I1/I2). -/
theorem fnById_unreachable : (run cfg fuel (Resolve.resolve q).root : Outcome N) ≠ .panic .fnById out := by
  intro h
  rcases accepted_panics_only_at_scanner_parser_sites cfg hp hl q hacc hk fuel _ out h with e | e <;> cases e

/-- `fnByName` (`lookup_func_by_name(..).expect`): every call of an accepted program is bound, so the
lookup by name is never used. -/
theorem fnByName_unreachable : (run cfg fuel (Resolve.resolve q).root : Outcome N) ≠ .panic .fnByName out := by
  intro h
  rcases accepted_panics_only_at_scanner_parser_sites cfg hp hl q hacc hk fuel _ out h with e | e <;> cases e

/-- `paramRange` (`assert!` in `bound_param_ids`): every parameter of a definition the resolver
binds carries its `LocalId`. -/
theorem paramRange_unreachable :
    (run cfg fuel (Resolve.resolve q).root : Outcome N) ≠ .panic .paramRange out := by
  intro h
  rcases accepted_panics_only_at_scanner_parser_sites cfg hp hl q hacc hk fuel _ out h with e | e <;> cases e

/-- `twMaximalSuffix` (`x[j + k - 1]` in `maximal_suffix`): in range, by C13. -/
theorem twMaximalSuffix_unreachable :
    (run cfg fuel (Resolve.resolve q).root : Outcome N) ≠ .panic .twMaximalSuffix out := by
  intro h
  rcases accepted_panics_only_at_scanner_parser_sites cfg hp hl q hacc hk fuel _ out h with e | e <;> cases e

end sites

/-! ### The two sites that are guarantees of scanner and parser -/

/-- What the scanner and the parser guarantee of the program handed to the resolver, as a decidable
check of that program: every number lexeme satisfies `numOk`, and the target of every index
assignment is an index expression. -/
def SourceOK (numOk : Bytes → Bool) (q : Block) : Prop := srcBlock ⟨[], numOk, true, none⟩ q = true

instance (numOk : Bytes → Bool) (q : Block) : Decidable (SourceOK numOk q) := inferInstanceAs (Decidable (_ = true))

/-- The assumption on the number type: `NumOps.ofLit` (`lexeme.parse::<f64>()`) accepts every lexeme
`numOk` accepts. -/
def NumLitsParse (N : Type) [NumOps N] (numOk : Bytes → Bool) : Prop :=
  ∀ lex, numOk lex = true → (NumOps.ofLit (N := N) lex).isSome = true

/-- **C06 for accepted programs**: if the program's number lexemes parse and its index assignments
have an index, an accepted program never panics — every number type with `NumLitsParse`, every host
configuration of the current code without function pruning, every fuel. -/
theorem c06_accepted (numOk : Bytes → Bool) (hnum : NumLitsParse N numOk) (cfg : RunCfg)
    (hp : cfg.panics = false) (hl : CurrentLookup cfg) (q : Block) (hacc : Accepted q) (hk : PlanReach cfg (Resolve.resolve q).root)
    (hsrc : SourceOK numOk q) (fuel : Nat) :
    (run cfg fuel (Resolve.resolve q).root : Outcome N).isPanic = false := by
  obtain ⟨K, hK, hreach⟩ := hk
  have hok := ok_reach_block ⟨arityTable (Resolve.resolve q), numOk, true, none⟩ K cfg.plan hK _ false
    (resolve_ok true numOk true q hsrc (accepted_rdiags hacc)) hreach
  cases hr : (run cfg fuel (Resolve.resolve q).root : Outcome N) with
  | panic site out =>
    exact (run_safe (A := fun _ => False)
      (C := SCfg.withPlan ⟨arityTable (Resolve.resolve q), numOk, true, none⟩
        (some (planK (arityTable (Resolve.resolve q)).length K cfg.plan)))
      ⟨hp, planExt_planK _ K cfg.plan, Or.inr hnum, Or.inr strTotal, Or.inr rfl⟩ hl _ (accepted_wellScoped hacc) hok
      fuel site out hr).elim
  | _ => rfl

/-- `numLit` alone: needs only that the lexemes parse. -/
theorem numLit_unreachable (numOk : Bytes → Bool) (hnum : NumLitsParse N numOk) (cfg : RunCfg)
    (hp : cfg.panics = false) (hl : CurrentLookup cfg) (q : Block) (hacc : Accepted q) (hk : PlanReach cfg (Resolve.resolve q).root)
    (hsrc : srcBlock ⟨[], numOk, false, none⟩ q = true) (fuel : Nat) (out : List (Value N)) :
    (run cfg fuel (Resolve.resolve q).root : Outcome N) ≠ .panic .numLit out := by
  intro h
  obtain ⟨K, hK, hreach⟩ := hk
  have hok := ok_reach_block ⟨arityTable (Resolve.resolve q), numOk, false, none⟩ K cfg.plan hK _ false
    (resolve_ok true numOk false q hsrc (accepted_rdiags hacc)) hreach
  have := run_safe (A := fun s => s = .assignIndexEmpty)
    (C := SCfg.withPlan ⟨arityTable (Resolve.resolve q), numOk, false, none⟩
      (some (planK (arityTable (Resolve.resolve q)).length K cfg.plan)))
    ⟨hp, planExt_planK _ K cfg.plan, Or.inr hnum, Or.inr strTotal, Or.inl rfl⟩ hl _ (accepted_wellScoped hacc) hok
    fuel _ out h
  cases this

/-- `assignIndexEmpty` alone: needs only that index assignments have an index. -/
theorem assignIndexEmpty_unreachable (cfg : RunCfg) (hp : cfg.panics = false) (hl : CurrentLookup cfg)
    (q : Block) (hacc : Accepted q) (hk : PlanReach cfg (Resolve.resolve q).root) (hsrc : srcBlock ⟨[], fun _ => true, true, none⟩ q = true)
    (fuel : Nat) (out : List (Value N)) :
    (run cfg fuel (Resolve.resolve q).root : Outcome N) ≠ .panic .assignIndexEmpty out := by
  intro h
  obtain ⟨K, hK, hreach⟩ := hk
  have hok := ok_reach_block ⟨arityTable (Resolve.resolve q), fun _ => true, true, none⟩ K cfg.plan hK _ false
    (resolve_ok true (fun _ => true) true q hsrc (accepted_rdiags hacc)) hreach
  have := run_safe (A := fun s => s = .numLit)
    ⟨hp, planExt_planK _ K cfg.plan, Or.inl rfl, Or.inr strTotal, Or.inr rfl⟩ hl _ (accepted_wellScoped hacc) hok
    fuel _ out h
  cases this

/-- The form of `C06Eval.ResidualUnreachable`, with the assumptions it needs made explicit. -/
theorem residual_unreachable (numOk : Bytes → Bool) (hnum : NumLitsParse N numOk) (cfg : RunCfg)
    (hp : cfg.panics = false) (hl : CurrentLookup cfg) (q : Block) (hacc : Accepted q) (hk : PlanReach cfg (Resolve.resolve q).root)
    (hsrc : SourceOK numOk q) (fuel : Nat) (site : PanicSite) (out : List (Value N))
    (h : (run cfg fuel (Resolve.resolve q).root : Outcome N) = .panic site out) : site.fixed = true := by
  have := c06_accepted numOk hnum cfg hp hl q hacc hk hsrc fuel
  rw [h] at this; cases this

/-! ### From the source text: scanner and parser give the two guarantees -/

/-- The program the front end hands to the resolver. -/
def parsed (src : Bytes) : Block := (Parse.parseProgram (Lex.lex src).1).1

/-- **Scanner + parser**: for EVERY source text the parsed program has number lexemes of the shape
`digits[.digits]` (or the recovery placeholder `0`), and every index assignment has an index —
proved from the lexer and parser models (`Lemmas/BridgeSource.lean`). -/
theorem source_ok (src : Bytes) : SourceOK isNumLexeme (parsed src) := frontEnd_source_ok src [] none

/-- `assignIndexEmpty` is unreachable for every accepted program that comes out of the parser — no
assumption left. -/
theorem assignIndexEmpty_unreachable_parsed (cfg : RunCfg) (hp : cfg.panics = false) (hl : CurrentLookup cfg)
    (src : Bytes) (hacc : Accepted (parsed src)) (hk : PlanReach cfg (Resolve.resolve (parsed src)).root)
    (fuel : Nat) (out : List (Value N)) :
    (run cfg fuel (Resolve.resolve (parsed src)).root : Outcome N) ≠ .panic .assignIndexEmpty out :=
  assignIndexEmpty_unreachable cfg hp hl _ hacc hk
    (parse_source_ok ⟨[], fun _ => true, true, none⟩ rfl _ (fun t _ => by cases t.tok <;> trivial)) fuel out

/-- **C06 from the source text**: whatever the text, if the resolver accepts the parsed program, its
run never panics — for every number type whose `ofLit` (`str::parse::<f64>`) accepts the lexemes
`digits` and `digits.digits` (THE assumption on the `NumOps` instance), the current code, and a plan
that keeps what kept code calls. -/
theorem c06_source (hnum : NumLitsParse N isNumLexeme) (cfg : RunCfg) (hp : cfg.panics = false)
    (hl : CurrentLookup cfg) (src : Bytes) (hacc : Accepted (parsed src))
    (hk : PlanReach cfg (Resolve.resolve (parsed src)).root) (fuel : Nat) :
    (run cfg fuel (Resolve.resolve (parsed src)).root : Outcome N).isPanic = false :=
  c06_accepted isNumLexeme hnum cfg hp hl _ hacc hk (source_ok src) fuel

/-- What `Pipeline.frontEnd` hands to the runtime. -/
theorem frontEnd_ok {caps : Limits.Caps} {src : Bytes} {a : Pipeline.Accepted}
    (h : Pipeline.frontEnd caps src = .ok a) : a.root = (Resolve.resolve (parsed src)).root ∧ Accepted (parsed src) := by
  unfold Pipeline.frontEnd at h
  simp only at h
  split at h
  · cases h
  · split at h
    · cases h
    · next hne =>
      have hacc : Accepted (parsed src) := by
        have hne' : hasErrors (Resolve.resolve (parsed src)).diags = false := by
          unfold parsed; simpa using hne
        have := (C04Bridge.no_errors_iff (parsed src)).1 hne'
        show (Resolve.resolve (parsed src)).diags = []
        have hd : (Resolve.resolve (parsed src)).diags = (Resolve.resolve (parsed src)).rdiags.map Resolve.RDiag.toDiag := rfl
        rw [hd, this]; rfl
      split at h <;> (cases h; exact ⟨rfl, hacc⟩)

/-- **C06 for the shipped pipeline** (`Pipeline.runSource`: lex → parse → resolve → analyses → run
with the analyses' plan): a text that gets as far as running never panics, provided the plan the
analyses compute keeps a call-closed set of functions (`KeptReach`, stated as a hypothesis on the
front end's result; `c06_pipeline_reach` derives it from conditions on program and facts). -/
theorem c06_pipeline (hnum : NumLitsParse N isNumLexeme) (caps : Limits.Caps) (cfg : RunCfg)
    (hp : cfg.panics = false) (hl : CurrentLookup cfg) (fuel : Nat) (src : Bytes)
    (hplan : ∀ a, Pipeline.frontEnd caps src = .ok a → ∃ K : Nat → Bool, KeptReach K a.plan a.root)
    (w : List Diag) (o : Outcome N) (h : Pipeline.runSource caps cfg fuel src = .ran w o) : o.isPanic = false := by
  unfold Pipeline.runSource at h
  split at h
  · cases h
  · cases h
  · next a ha =>
    cases h
    obtain ⟨hroot, hacc⟩ := frontEnd_ok ha
    have hk := hplan a ha
    rw [hroot] at hk ⊢
    exact c06_source hnum { cfg with plan := a.plan } hp hl src hacc hk fuel

/-- The former statement (hypothesis `keptBlock`: EVERY kept function calls kept functions only) is a
corollary. -/
theorem c06_pipeline_kept (hnum : NumLitsParse N isNumLexeme) (caps : Limits.Caps) (cfg : RunCfg)
    (hp : cfg.panics = false) (hl : CurrentLookup cfg) (fuel : Nat) (src : Bytes)
    (hplan : ∀ a, Pipeline.frontEnd caps src = .ok a → keptBlock a.plan a.root = true)
    (w : List Diag) (o : Outcome N) (h : Pipeline.runSource caps cfg fuel src = .ran w o) : o.isPanic = false :=
  c06_pipeline hnum caps cfg hp hl fuel src (fun a ha => ⟨_, keptReach_of_keptBlock (hplan a ha)⟩) w o h

/-- The plan `Pipeline.frontEnd` hands to the runtime is the plan of the analysis model for the
annotated program and its facts — or none, when a limit tripped. -/
theorem frontEnd_plan {caps : Limits.Caps} {src : Bytes} {a : Pipeline.Accepted}
    (h : Pipeline.frontEnd caps src = .ok a) : a.plan = none ∨ a.plan = modelPlan a.root a.facts := by
  unfold Pipeline.frontEnd at h
  simp only at h
  split at h
  · cases h
  · split at h
    · cases h
    · split at h
      · cases h; exact Or.inr rfl
      · cases h
        simp only [Limits.emitAnalysis]
        split
        · exact Or.inl rfl
        · exact Or.inr rfl

/-- The conditions on the resolver's FACTS — no plan — under which the plan of the analyses is proved
to keep what reachable code calls (`Lemmas/BridgeReachPlan.lean`): per statement, the facts name its
function and cover the callees of its own expressions (`C03.ownOkB`, hypothesis of C03's T3); the
call-graph reachability `bodyReachable` has converged (`Ctx.brClosed`).  Decidable; both are evaluated
by the `plan` driver on the real resolver's output of every case of C03's tie (`malformed own` /
`malformed brclosed` otherwise). -/
def FactsCoverCalls (root : Block) (facts : Facts) : Prop :=
  C03.ownOkB root facts = true ∧ (Analysis.mkCtx root facts).brClosed = true

instance (root : Block) (facts : Facts) : Decidable (FactsCoverCalls root facts) := by
  unfold FactsCoverCalls; exact inferInstance

/-- C03's hypothesis `structOkB` (of `c03_full_holds`; plan-free, evaluated by the `plan` driver on
every case) contains both conditions. -/
theorem factsCoverCalls_of_struct {root : Block} {facts : Facts} (h : C03.structOkB root facts = true) :
    FactsCoverCalls root facts := own_of_struct root facts h

/-- An accepted program comes out of the resolver model numbered (every statement a `StmtId`, every
definition a `FunctionId`): the third condition of `analysis_plan_reach`, proved
(`Lemmas/BridgeReachNum.lean`). -/
theorem accepted_numbered {q : Block} (h : Accepted q) : numBlock (Resolve.resolve q).root = true :=
  resolve_num true q (accepted_rdiags h)

/-- **The plan of the analysis model satisfies the hypothesis on the plan**, with
`K := bodyReachable`, for every numbered program whose facts cover its calls. -/
theorem analysis_plan_planReach (cfg : RunCfg) (root : Block) (facts : Facts) (hnum : numBlock root = true)
    (h : FactsCoverCalls root facts) : PlanReach { cfg with plan := modelPlan root facts } root :=
  ⟨_, analysis_plan_reach root facts hnum h.1 h.2⟩

/-- **C06 for accepted programs run with the plan of the analysis model**: no hypothesis on the plan —
only that the resolver's facts cover the calls of the program. -/
theorem c06_accepted_analysis (numOk : Bytes → Bool) (hnum : NumLitsParse N numOk) (cfg : RunCfg)
    (hp : cfg.panics = false) (hl : CurrentLookup cfg) (q : Block) (hacc : Accepted q)
    (hfacts : FactsCoverCalls (Resolve.resolve q).root (Resolve.resolve q).facts)
    (hsrc : SourceOK numOk q) (fuel : Nat) :
    (run { cfg with plan := modelPlan (Resolve.resolve q).root (Resolve.resolve q).facts } fuel
      (Resolve.resolve q).root : Outcome N).isPanic = false :=
  c06_accepted numOk hnum { cfg with plan := modelPlan (Resolve.resolve q).root (Resolve.resolve q).facts } hp hl q hacc
    (analysis_plan_planReach cfg _ _ (accepted_numbered hacc) hfacts) hsrc fuel

/-- **C06 for the shipped pipeline, no hypothesis on the plan**: a text that gets as far as running
never panics, provided the facts the front end produced cover the calls of the program
(`FactsCoverCalls`: conditions on the resolver's output only, no plan). -/
theorem c06_pipeline_reach (hnum : NumLitsParse N isNumLexeme) (caps : Limits.Caps) (cfg : RunCfg)
    (hp : cfg.panics = false) (hl : CurrentLookup cfg) (fuel : Nat) (src : Bytes)
    (hfacts : ∀ a, Pipeline.frontEnd caps src = .ok a → FactsCoverCalls a.root a.facts)
    (w : List Diag) (o : Outcome N) (h : Pipeline.runSource caps cfg fuel src = .ran w o) : o.isPanic = false := by
  refine c06_pipeline hnum caps cfg hp hl fuel src (fun a ha => ?_) w o h
  obtain ⟨h1, h2⟩ := hfacts a ha
  obtain ⟨hroot, hacc⟩ := frontEnd_ok ha
  have hn : numBlock a.root = true := by rw [hroot]; exact accepted_numbered hacc
  rcases frontEnd_plan ha with e | e
  · rw [e]; exact ⟨_, keptReach_of_keptBlock (kept_none.2 _)⟩
  · rw [e]; exact ⟨_, analysis_plan_reach _ _ hn h1 h2⟩

/-! ### `FactsCoverCalls` is a theorem about the resolver model -/

/-- **The fixpoint iteration of `bodyReachable` converges**: `nFns` rounds from `[0]` reach a set that
is closed under the calls of its reachable statements, for every program and all facts whose recorded
callees are function ids (a round that adds something makes a duplicate-free list of ids below `nFns`
longer). -/
theorem brClosed_of_calleesInRange (root : Block) (facts : Facts) (h : calleesInRange facts = true) :
    (Analysis.mkCtx root facts).brClosed = true := bodyReachable_closed_of_range root facts h

/-- … in particular for facts that pass `Analysis.wf` (what the `plan` driver checks first). -/
theorem brClosed_of_wf (root : Block) (facts : Facts) (h : Analysis.wf root facts = true) :
    (Analysis.mkCtx root facts).brClosed = true := bodyReachable_closed root facts h

/-- **The facts of the resolver model name the owner and cover the callees of every statement** of its
output — for EVERY input program, accepted or not: `check_stmt` pushes the statement's entry with
`current_owner` first, `check_expr` records the callee for the statement being checked where it writes
the binding on the call, and no entry ever loses a callee or changes its owner. -/
theorem resolve_ownOk (q : Block) : C03.ownOkB (Resolve.resolve q).root (Resolve.resolve q).facts = true :=
  ResolveFacts.resolveWith_ownOk true q

/-- **Every direct callee the resolver model records is a function id** (below `functions.length`):
callees come from signatures in scope, signatures from `predeclare`. -/
theorem resolve_calleesInRange (q : Block) : calleesInRange (Resolve.resolve q).facts = true :=
  ResolveFacts.resolveWith_calleesInRange true q

theorem resolve_brClosed (q : Block) :
    (Analysis.mkCtx (Resolve.resolve q).root (Resolve.resolve q).facts).brClosed = true :=
  brClosed_of_calleesInRange _ _ (resolve_calleesInRange q)

/-- **`FactsCoverCalls` holds of the output of the resolver model**, whatever the input program. -/
theorem resolve_factsCoverCalls (q : Block) :
    FactsCoverCalls (Resolve.resolve q).root (Resolve.resolve q).facts := ⟨resolve_ownOk q, resolve_brClosed q⟩

/-- The facts `Pipeline.frontEnd` hands on are the resolver's. -/
theorem frontEnd_facts {caps : Limits.Caps} {src : Bytes} {a : Pipeline.Accepted}
    (h : Pipeline.frontEnd caps src = .ok a) :
    a.root = (Resolve.resolve (parsed src)).root ∧ a.facts = (Resolve.resolve (parsed src)).facts := by
  unfold Pipeline.frontEnd at h
  simp only at h
  split at h
  · cases h
  · split at h
    · cases h
    · split at h <;> (cases h; exact ⟨rfl, rfl⟩)

/-- **C06 for accepted programs run with the plan of the analysis model** — no hypothesis on the plan
or on the facts. -/
theorem c06_accepted_model_plan (numOk : Bytes → Bool) (hnum : NumLitsParse N numOk) (cfg : RunCfg)
    (hp : cfg.panics = false) (hl : CurrentLookup cfg) (q : Block) (hacc : Accepted q)
    (hsrc : SourceOK numOk q) (fuel : Nat) :
    (run { cfg with plan := modelPlan (Resolve.resolve q).root (Resolve.resolve q).facts } fuel
      (Resolve.resolve q).root : Outcome N).isPanic = false :=
  c06_accepted_analysis numOk hnum cfg hp hl q hacc (resolve_factsCoverCalls q) hsrc fuel

/-- **C06 for the shipped pipeline, unconditionally**: whatever the source text, if
`Pipeline.runSource` (lex → parse → resolve → analyses → run with the analyses' plan) gets as far as
running it, the run does not panic — for every limit configuration, fuel, host configuration of the
current code (`cfg.panics = false`: the fixed evaluator sites; `CurrentLookup`: the lookup after the
fix of D-04) and every number type whose `ofLit` accepts the lexemes `digits` / `digits.digits`
(`NumLitsParse`, what `str::parse::<f64>` does). -/
theorem c06_pipeline_unconditional (hnum : NumLitsParse N isNumLexeme) (caps : Limits.Caps) (cfg : RunCfg)
    (hp : cfg.panics = false) (hl : CurrentLookup cfg) (fuel : Nat) (src : Bytes)
    (w : List Diag) (o : Outcome N) (h : Pipeline.runSource caps cfg fuel src = .ran w o) : o.isPanic = false := by
  refine c06_pipeline_reach hnum caps cfg hp hl fuel src (fun a ha => ?_) w o h
  obtain ⟨hroot, hfacts⟩ := frontEnd_facts ha
  rw [hroot, hfacts]
  exact resolve_factsCoverCalls _

/-! ### Why the two assumptions and the one on the plan are needed -/

private def sp : Span := ⟨0, 0⟩

/-- `make x get 1` followed by an "index assignment" whose target is the bare variable `x` — an AST
the parser never builds (`x get 2` is an `assignExisting`), but which the resolver model accepts
(`is_variable_rooted` holds of a variable): the run panics at `assignIndexEmpty`.  The site is a
guarantee of the PARSER. -/
def indexAssignmentWithoutIndex : Block :=
  .mk [.assign (b!"x") sp (.num (b!"1") sp) none none sp,
       .assignIndex (.var (b!"x") none sp) (.num (b!"2") sp) none sp] sp

theorem resolver_accepts_index_assignment_without_index :
    Accepted indexAssignmentWithoutIndex ∧ ¬ SourceOK (fun _ => true) indexAssignmentWithoutIndex ∧
    Toy.panicSite (run Toy.cfg 10 (Resolve.resolve indexAssignmentWithoutIndex).root) = some .assignIndexEmpty := by
  decide +kernel

/-- A number node whose lexeme is no number (`1x`): accepted by the resolver model (it never looks at
lexemes), panics at `numLit`.  The site is a guarantee of the SCANNER. -/
def badLexeme : Block := .mk [.expr (.call (.var (b!"shout") none sp) [.num (b!"1x") sp] none sp) none sp] sp

theorem resolver_accepts_any_lexeme :
    Accepted badLexeme ∧ Toy.panicSite (run Toy.cfg 10 (Resolve.resolve badLexeme).root) = some .numLit := by
  decide +kernel

/-- `do f() start end  f()` -/
def callsF : Block :=
  .mk [.fnDef (b!"f") sp [] (.mk [] sp) none none sp, .expr (.call (.var (b!"f") none sp) [] none sp) none sp] sp

/-- **`C06Eval.c06_full` is false as stated**: it quantifies over arbitrary optimisation plans, and a
plan that removes a function the program calls makes the call panic at `fnById`.  (The plan the code
computes for a program is the subject of C03 and of `analysis_plan_reach`; here it is an assumption,
`PlanReach`.) -/
theorem c06_full_is_false_for_arbitrary_plans : ¬ C06Eval.c06_full := by
  intro h
  have h1 := h Int { Toy.cfg with plan := some ⟨[], [1]⟩ } rfl callsF (by decide +kernel) 10
  have h2 : Toy.panicSite (run { Toy.cfg with plan := some ⟨[], [1]⟩ } 10 (Resolve.resolve callsF).root)
      = some .fnById := by decide +kernel
  cases hr : (run { Toy.cfg with plan := some ⟨[], [1]⟩ } 10 (Resolve.resolve callsF).root : Outcome Int) with
  | panic s o => rw [hr] at h1; cases h1
  | ok o => rw [hr] at h2; cases h2
  | rt k s o => rw [hr] at h2; cases h2
  | fuelOut => rw [hr] at h2; cases h2

/-- … and so is the hypothesis `C06Eval.ResidualUnreachable` as stated there (same reason). -/
theorem residualUnreachable_is_false_for_arbitrary_plans : ¬ C06Eval.ResidualUnreachable :=
  fun h => c06_full_is_false_for_arbitrary_plans (C06Eval.c06_of_static_guarantees h)

/-! ### Non-vacuity -/

/-- The toy number type parses the digit lexemes. -/
def toyNumOk (lex : Bytes) : Bool := (Toy.ofLit lex).isSome

theorem toy_numLitsParse : NumLitsParse Int toyNumOk := fun _ h => h

/-- The hypotheses of `c06_accepted` are satisfiable: the program of `C04Bridge` (capture, recursion,
forward call, shadowing, a loop with `comot`, an index assignment, string search). -/
def sample : Block :=
  .mk [.assign (b!"a") sp (.array [.num (b!"1") sp, .num (b!"2") sp] sp) none none sp,
       .assign (b!"n") sp (.num (b!"0") sp) none none sp,
       .fnDef (b!"bump") sp [⟨b!"k", sp, none⟩]
         (.mk [.loop (.bool true sp)
                 (.mk [.assignExisting (b!"n") sp (.binary .add (.var (b!"n") none sp) (.var (b!"k") none sp) sp) none none sp,
                       .ifS (.binary .gt (.var (b!"n") none sp) (.num (b!"2") sp) sp) (.mk [.brk none sp] sp) none none sp] sp)
                 none sp,
               .ret (some (.var (b!"n") none sp)) none sp] sp) none none sp,
       .assignIndex (.index (.var (b!"a") none sp) (.num (b!"0") sp) sp sp)
         (.call (.var (b!"bump") none sp) [.num (b!"2") sp] none sp) none sp,
       .expr (.call (.var (b!"shout") none sp) [.var (b!"a") none sp] none sp) none sp,
       .expr (.call (.var (b!"shout") none sp)
         [.call (.member (.str (.static (b!"hello")) sp) (b!"find") sp sp) [.str (.static (b!"l")) sp] none sp] none sp)
         none sp] sp

example : Accepted sample ∧ SourceOK toyNumOk sample ∧ CurrentLookup Toy.cfg ∧ Toy.cfg.panics = false := by
  decide +kernel

example : PlanKeepsCalls Toy.cfg (Resolve.resolve sample).root := planKeepsCalls_none _ rfl _

example : PlanReach Toy.cfg (Resolve.resolve sample).root := planReach_none _ rfl _

/-- … and with a plan that really removes something: `callsF` with an unused function `g` that calls
another unused function `h`; the plan removes both (ids 2 and 3) and the first statement.  The call
of `h` inside the removed `g` is exempt. -/
def withUnused : Block :=
  .mk [.expr (.call (.var (b!"shout") none sp) [.num (b!"1") sp] none sp) none sp,
       .fnDef (b!"f") sp [] (.mk [] sp) none none sp,
       .fnDef (b!"g") sp [] (.mk [.expr (.call (.var (b!"h") none sp) [] none sp) none sp] sp) none none sp,
       .fnDef (b!"h") sp [] (.mk [] sp) none none sp,
       .expr (.call (.var (b!"f") none sp) [] none sp) none sp] sp

example : Accepted withUnused ∧
    PlanKeepsCalls { Toy.cfg with plan := some ⟨[0], [2, 3]⟩ } (Resolve.resolve withUnused).root ∧
    ¬ PlanKeepsCalls { Toy.cfg with plan := some ⟨[], [3]⟩ } (Resolve.resolve withUnused).root ∧
    ¬ PlanKeepsCalls { Toy.cfg with plan := some ⟨[], [1]⟩ } (Resolve.resolve withUnused).root := by
  decide +kernel

/-- The run the theorem speaks about is a real one. -/
example : Toy.summary (run Toy.cfg 40 (Resolve.resolve sample).root) = ([b!"[4, 2]", b!"2"], 0) := by
  decide +kernel

/-- An instance of `c06_accepted`. -/
example (fuel : Nat) : (run Toy.cfg fuel (Resolve.resolve sample).root : Outcome Int).isPanic = false :=
  c06_accepted toyNumOk toy_numLitsParse Toy.cfg rfl (Or.inl rfl) sample (by decide +kernel)
    (planReach_none _ rfl _) (by decide +kernel) fuel

/-- A dead call bound to a removed function inside a KEPT function:
```
do u() start return 1 end
do k() start return 2 shout(u()) end
shout(k())
```
`u` (function 1) is unused and removed; `k` is kept and its body holds `shout(u())` (statement 4)
after the `return` — unreachable, and itself removed by the plan, so the evaluator skips it. -/
def deadCallText : Bytes := b!"do u() start return 1 end\ndo k() start return 2 shout(u()) end\nshout(k())"

/-- The plan the analysis model computes for it is `⟨[4], [1]⟩`, and it passes `PlanKeepsCalls`
(the removed statement is exempt); without the statement removal the check fails, and so does a plan
that removes the called `k`. -/
example : Accepted (parsed deadCallText) ∧
    (let r := Resolve.resolve (parsed deadCallText)
     let p := Analysis.planModel r.root r.facts
     (p.stmts, p.fns) = ([4], [1])) ∧
    PlanKeepsCalls { Toy.cfg with plan := some ⟨[4], [1]⟩ } (Resolve.resolve (parsed deadCallText)).root ∧
    ¬ PlanKeepsCalls { Toy.cfg with plan := some ⟨[], [1]⟩ } (Resolve.resolve (parsed deadCallText)).root ∧
    ¬ PlanKeepsCalls { Toy.cfg with plan := some ⟨[4], [2]⟩ } (Resolve.resolve (parsed deadCallText)).root ∧
    Toy.summary (run { Toy.cfg with plan := some ⟨[4], [1]⟩ } 20 (Resolve.resolve (parsed deadCallText)).root)
      = ([b!"2"], 0) := by
  decide +kernel

/-- An instance of `c06_accepted` with that plan. -/
example (fuel : Nat) : (run { Toy.cfg with plan := some ⟨[4], [1]⟩ } fuel
    (Resolve.resolve (parsed deadCallText)).root : Outcome Int).isPanic = false :=
  c06_accepted toyNumOk toy_numLitsParse { Toy.cfg with plan := some ⟨[4], [1]⟩ } rfl (Or.inl rfl)
    (parsed deadCallText) (by decide +kernel)
    (PlanKeepsCalls.reach (cfg := { Toy.cfg with plan := some ⟨[4], [1]⟩ }) (by decide +kernel)) (by decide +kernel) fuel

/-- **`keptBlock` is too strong for the plan of the analyses** (found by the evaluation of `keptBlock`
on the real plans: false on 45 of 10 373 accepted programs of the run streams):
```
do step(n) start
  do leaf(m) start return m end
  return n
  do mk() start return leaf(1) end
end
shout(step(2))
```
(functions step = 1, leaf = 2, mk = 3).  The definition of `mk` comes after the `return`: its
definition statement is unreachable, so the analysis neither reports `mk` unused nor removes it, and
`hoist` registers it whatever the plan says about the statement.  Nobody calls `mk`; `leaf` is called
by `mk` only, so it is unused and removed.  `keptBlock` fails (the kept `mk` calls the removed
`leaf`); `KeptReach` holds with `K = {0, 1}` = `bodyReachable` = the canonical `reachK`: the body of
`mk` ∉ K is exempt, and nothing of it can run. -/
def hoistedDeadDefText : Bytes :=
  b!"do step(n) start\n do leaf(m) start return m end\n return n\n do mk() start return leaf(1) end\nend\nshout(step(2))"

theorem keptBlock_too_strong :
    let r := Resolve.resolve (parsed hoistedDeadDefText)
    Accepted (parsed hoistedDeadDefText) ∧
    (Analysis.planModel r.root r.facts).fns = [2] ∧
    keptBlock (modelPlan r.root r.facts) r.root = false ∧
    (Analysis.mkCtx r.root r.facts).bodyReachable = [1, 0] ∧
    keptReach (Analysis.mkCtx r.root r.facts).bodyReachable (modelPlan r.root r.facts) r.root = true ∧
    planReaches (modelPlan r.root r.facts) r.root = true ∧
    numBlock r.root = true ∧ FactsCoverCalls r.root r.facts ∧
    Toy.summary (run { Toy.cfg with plan := modelPlan r.root r.facts } 30 r.root) = ([b!"2"], 0) := by
  decide +kernel

/-- An instance of `c06_accepted` for it, with the plan of the analysis model — through
`analysis_plan_planReach`. -/
example (fuel : Nat) :
    let r := Resolve.resolve (parsed hoistedDeadDefText)
    (run { Toy.cfg with plan := modelPlan r.root r.facts } fuel r.root : Outcome Int).isPanic = false :=
  c06_accepted toyNumOk toy_numLitsParse _ rfl (Or.inl rfl) (parsed hoistedDeadDefText) (by decide +kernel)
    (analysis_plan_planReach Toy.cfg _ _ (by decide +kernel) (by decide +kernel)) (by decide +kernel) fuel

/-- A plan that removes a function reachable code calls fails `KeptReach` for the canonical `K`
(`step` = 1 is called at top level; `leaf` = 2 would be fine). -/
example : planReaches (some ⟨[], [1]⟩) (Resolve.resolve (parsed hoistedDeadDefText)).root = false ∧
    planReaches (some ⟨[], [2]⟩) (Resolve.resolve (parsed hoistedDeadDefText)).root = true ∧
    planReaches (some ⟨[], [2, 3]⟩) (Resolve.resolve (parsed hoistedDeadDefText)).root = true ∧
    Toy.panicSite (run { Toy.cfg with plan := some ⟨[], [1]⟩ } 30 (Resolve.resolve (parsed hoistedDeadDefText)).root)
      = some .fnById := by
  decide +kernel

/-- A number type for which `NumLitsParse _ isNumLexeme` holds (every operation trivial): the
assumption of `c06_source` is satisfiable. -/
@[instance_reducible] def trivialNum : NumOps Unit :=
  { ofLit := fun _ => some (), add := fun _ _ => (), sub := fun _ _ => (), mul := fun _ _ => (),
    div := fun _ _ => (), fmod := fun _ _ => (), neg := fun _ => (), lt := fun _ _ => false,
    gt := fun _ _ => false, approxEq := fun _ _ => true, isZero := fun _ => false, isFinite := fun _ => true,
    fractIsZero := fun _ => true, toIsize := fun _ => 0, toUsize := fun _ => 0, toU32 := fun _ => 0,
    ofInt := fun _ => (), fmt := fun _ => [], abs := fun _ => (), sqrt := fun _ => (), floor := fun _ => (),
    ceil := fun _ => (), round := fun _ => (), parseNumber := fun _ => () }

/-- `make a get [1.5, 2]  a[0] get 10  shout(a)` from its TEXT: lexed, parsed, accepted. -/
def sampleText : Bytes := b!"make a get [1.5, 2]\na[0] get 10\nshout(a)"

example : Accepted (parsed sampleText) ∧ (Lex.lex sampleText).2 = [] ∧
    (Parse.parseProgram (Lex.lex sampleText).1).2 = [] := by decide +kernel

/-- An instance of `c06_source`. -/
example (fuel : Nat) :
    (@run Unit trivialNum Toy.cfg fuel (Resolve.resolve (parsed sampleText)).root).isPanic = false :=
  @c06_source Unit trivialNum (fun _ _ => rfl) Toy.cfg rfl (Or.inl rfl) sampleText (by decide +kernel)
    (planReach_none _ rfl _) fuel

/-- Limits nothing trips on. -/
def roomyCaps : Limits.Caps :=
  { maxFunctions := 1000, maxLocals := 1000, maxScopes := 1000, maxStatements := 1000, maxTotalOps := 100000,
    maxOpsPerFunction := 100000, maxTotalBlocks := 100000, maxBlocksPerFunction := 100000,
    maxDirectUserCalls := 1000, maxSummaryEvents := 100000, maxLivenessEvents := 100000 }

/-- What a run of the pipeline with the toy numbers shows: number of warnings, printed texts, ending. -/
def ranSummary : Pipeline.Result Int → Option (Nat × List Bytes × Nat)
  | .ran w o => some (w.length, Toy.summary o)
  | _ => none

/-- `c06_pipeline_unconditional` is about runs that really prune: the shipped pipeline on the TEXT of
`keptBlock_too_strong` (`leaf` = function 2 is unused, the definition of `mk` unreachable: two warnings) hands the runtime a
plan that removes function 2, and the run with the toy numbers prints `2` and ends normally. -/
example :
    (Pipeline.frontEnd roomyCaps hoistedDeadDefText).toOption.map
        (fun a => (a.plan.map (·.fns), decide (FactsCoverCalls a.root a.facts))) = some (some [2], true) ∧
    ranSummary (Pipeline.runSource roomyCaps Toy.cfg 30 hoistedDeadDefText) = some (2, [b!"2"], 0) := by
  decide +kernel

/-- An instance of `c06_pipeline_unconditional` on that text: no hypothesis about it is left. -/
example (fuel : Nat) (w : List Diag) (o : Outcome Unit)
    (h : @Pipeline.runSource Unit trivialNum roomyCaps Toy.cfg fuel hoistedDeadDefText = .ran w o) :
    o.isPanic = false :=
  @c06_pipeline_unconditional Unit trivialNum (fun _ _ => rfl) roomyCaps Toy.cfg rfl (Or.inl rfl) fuel
    hoistedDeadDefText w o h

/-- … and the hypothesis `h` is satisfiable: the pipeline does run that text. -/
example : ∃ w o, @Pipeline.runSource Unit trivialNum roomyCaps Toy.cfg 30 hoistedDeadDefText = .ran w o := by
  unfold Pipeline.runSource
  cases h : Pipeline.frontEnd roomyCaps hoistedDeadDefText with
  | ok a => exact ⟨_, _, rfl⟩
  | error e =>
    have : (Pipeline.frontEnd roomyCaps hoistedDeadDefText).toOption.isSome = true := by decide +kernel
    rw [h] at this; cases this

/-- The resolver's facts cover the calls of REJECTED programs too (`resolve_factsCoverCalls` has no
hypothesis): a call with the wrong number of arguments is still recorded. -/
example : ¬ Accepted (parsed (b!"do f(a) start return a end\nshout(f())")) ∧
    FactsCoverCalls (Resolve.resolve (parsed (b!"do f(a) start return a end\nshout(f())"))).root
      (Resolve.resolve (parsed (b!"do f(a) start return a end\nshout(f())"))).facts := by
  decide +kernel

/-- Acceptance matters: `comot` outside a loop is rejected; run nevertheless it leaves a function
body and panics at `flowEscape`. -/
example : ¬ Accepted (.mk [.fnDef (b!"f") sp [] (.mk [.brk none sp] sp) none none sp,
      .expr (.call (.var (b!"f") none sp) [] none sp) none sp] sp) ∧
    Toy.panicSite (run Toy.cfg 10 (Resolve.resolve (.mk [.fnDef (b!"f") sp [] (.mk [.brk none sp] sp) none none sp,
      .expr (.call (.var (b!"f") none sp) [] none sp) none sp] sp)).root) = some .flowEscape := by
  decide +kernel

end NaijaVerif.Props.C06Accepted
